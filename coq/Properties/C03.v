(* Properties/C03.v — statements only.  C03, writer half: from writer events to the
   document, for XmlEventWriter (XMLGenerator sink) and LxmlEventWriter (lxml sink). *)
From Coq Require Import NArith List Bool.
From XV Require Import Base.Str Spec.XmlNs Model.Writer Proofs.WriterRefute Proofs.WriterEscape
  Proofs.WriterTree Proofs.WriterStep Proofs.WriterMaps Proofs.WriterWf Proofs.WriterNative Proofs.WriterSound.
Import ListNotations.
Open Scope N_scope.

(* ---- hostile text: what the XML parser reads from the escaped text is the value *)
Theorem C03_hostile_text_safe_data : forall s,
  forallb is_xml_char s = true -> text_value (sax_escape_text s) = Some s.
Proof. exact hostile_text_safe_data. Qed.
Print Assumptions C03_hostile_text_safe_data.

Theorem C03_hostile_text_safe_attr : forall s,
  forallb is_xml_char s = true -> attr_value (sax_quoteattr s) = Some s.
Proof. exact hostile_text_safe_attr. Qed.
Print Assumptions C03_hostile_text_safe_attr.

(* what the repair of XmlEventWriter removed: the standard library's escape() alone loses CR *)
Theorem C03_stdlib_escape_loses_cr :
  exists s, forallb is_xml_char s = true /\ text_value (sax_escape s) <> Some s.
Proof. exact stdlib_escape_loses_cr. Qed.
Print Assumptions C03_stdlib_escape_loses_cr.

(* ---- WInv: the event handler, run over any well-nested event list (flattened tree) from a
   steady state (inside an element whose start tag is out), performs exactly the SAX calls of
   the reference function and returns to the same state: ns_context / pending_prefixes /
   in_tail / tail are restored (stack discipline), no Python exception is raised *)
Theorem C03_WInv_preserved : forall i m ps pp it,
  item_ok i = true ->
  (match i with IData v => data_plain v | _ => true end) = true ->
  wrun (steady m ps pp it) (flatten i) = (steady m ps pp (is_data i), flat_map sflat (wref m i), None).
Proof. exact item_runs_all. Qed.
Print Assumptions C03_WInv_preserved.

Theorem C03_WInv_document : forall user a0 q ats ks,
  item_ok (INode q ats ks) = true ->
  exists s', wrun (idle [] false user a0 false []) (flatten (INode q ats ks))
             = (s', sflat (wref_root user a0 q ats ks), None).
Proof. exact document_runs. Qed.
Print Assumptions C03_WInv_document.

(* the guard on the user map establishes the prefix-map invariant (no binding can be overwritten) *)
Theorem C03_user_map_invariant : forall user,
  user_prefixes_legal user = true ->
  minv (user_default user) (serializer_ns_map user).
Proof. exact user_minv. Qed.
Print Assumptions C03_user_map_invariant.

(* ---- native writer, under the guard: the call succeeds, the document is well-formed and
   namespace-well-formed (every prefix used is declared in scope, no duplicate attributes,
   legal declarations), and its infoset is the one of the reference SAX tree *)
Theorem C03_writer_wellformed_native : forall cfg user evs,
  writer_guard cfg user evs = true ->
  exists q ats ks d,
    evs = flatten (INode q ats ks)
    /\ run_native cfg user evs = inl d
    /\ resolve d = Some (itree_of (wref_root (serializer_ns_map user) (cfg_attrs cfg) q ats ks)).
Proof. exact writer_wellformed_native. Qed.
Print Assumptions C03_writer_wellformed_native.

(* ---- C03 (writer half), native writer: under the guard the call succeeds, the output is a
   well-formed, namespace-well-formed document, and its infoset says exactly what the
   events (plus the configured root attributes) say *)
Theorem C03_writer_sound_native : forall cfg user evs,
  writer_guard cfg user evs = true ->
  exists e d t,
    expected cfg evs = Some e /\ run_native cfg user evs = inl d
    /\ resolve d = Some t /\ doc_says e t = true.
Proof. exact writer_sound_native. Qed.
Print Assumptions C03_writer_sound_native.

(* ---- lxml writer: inside the guard and the modelled domain of the lxml sink, the tree it
   builds says what the events say *)
Theorem C03_writer_sound_lxml : forall cfg user evs,
  writer_guard cfg user evs = true -> lxml_domain cfg user evs = true ->
  exists e t, expected cfg evs = Some e /\ run_lxml cfg user evs = inl t /\ doc_says e t = true.
Proof. exact writer_sound_lxml. Qed.
Print Assumptions C03_writer_sound_lxml.

(* ---- both writers: the tree lxml builds IS the infoset the XML reader resolves from the
   native writer's text (writer half of C08) *)
Theorem C03_sinks_agree : forall cfg user evs,
  writer_guard cfg user evs = true -> lxml_domain cfg user evs = true ->
  exists d t, run_native cfg user evs = inl d /\ resolve d = Some t /\ run_lxml cfg user evs = inl t.
Proof. exact sinks_agree. Qed.
Print Assumptions C03_sinks_agree.

(* ---- the unguarded statement is false of the faithful model; one witness per guard clause *)
Theorem C03_native_sound_unguarded_refuted : ~ (forall cfg user evs, native_sound_b cfg user evs = true).
Proof. exact native_sound_unguarded_refuted. Qed.
Print Assumptions C03_native_sound_unguarded_refuted.

Theorem C03_lxml_sound_unguarded_refuted : ~ (forall cfg user evs, lxml_sound_b cfg user evs = true).
Proof. exact lxml_sound_unguarded_refuted. Qed.
Print Assumptions C03_lxml_sound_unguarded_refuted.

Theorem C03_user_prefix_xml_refuted :
  clause_vector default_config w_user_prefix_xml_user w_user_prefix_xml_evs
  = [false; true; true; true; true; true; true; true]
  /\ native_sound_b default_config w_user_prefix_xml_user w_user_prefix_xml_evs = false.
Proof. exact user_prefix_xml_refuted. Qed.
Print Assumptions C03_user_prefix_xml_refuted.

Theorem C03_user_prefix_invalid_refuted :
  only_clause_fails 0 (clause_vector default_config w_user_prefix_invalid_user w_user_prefix_xml_evs) = true
  /\ native_sound_b default_config w_user_prefix_invalid_user w_user_prefix_xml_evs = false.
Proof. exact user_prefix_invalid_refuted. Qed.
Print Assumptions C03_user_prefix_invalid_refuted.

Theorem C03_default_ns_qname_reset_refuted :
  only_clause_fails 1 (clause_vector default_config w_default_ns_qname_reset_user w_default_ns_qname_reset_evs) = true
  /\ native_sound_b default_config w_default_ns_qname_reset_user w_default_ns_qname_reset_evs = false
  /\ lxml_sound_b default_config w_default_ns_qname_reset_user w_default_ns_qname_reset_evs = false.
Proof. exact default_ns_qname_reset_refuted. Qed.
Print Assumptions C03_default_ns_qname_reset_refuted.

Theorem C03_bad_name_refuted :
  only_clause_fails 2 (clause_vector default_config w_bad_name_user w_bad_name_evs) = true
  /\ native_sound_b default_config w_bad_name_user w_bad_name_evs = false.
Proof. exact bad_name_refuted. Qed.
Print Assumptions C03_bad_name_refuted.

Theorem C03_non_xml_char_refuted :
  only_clause_fails 3 (clause_vector default_config w_non_xml_char_user w_non_xml_char_evs) = true
  /\ native_sound_b default_config w_non_xml_char_user w_non_xml_char_evs = false.
Proof. exact non_xml_char_refuted. Qed.
Print Assumptions C03_non_xml_char_refuted.

Theorem C03_late_qname_data_refuted :
  only_clause_fails 4 (clause_vector default_config w_late_qname_data_user w_late_qname_data_evs) = true
  /\ native_sound_b default_config w_late_qname_data_user w_late_qname_data_evs = false
  /\ lxml_sound_b default_config w_late_qname_data_user w_late_qname_data_evs = false.
Proof. exact late_qname_data_refuted. Qed.
Print Assumptions C03_late_qname_data_refuted.

Theorem C03_nil_kept_with_content_refuted :
  only_clause_fails 5 (clause_vector default_config w_nil_kept_with_content_user w_nil_kept_with_content_evs) = true
  /\ native_sound_b default_config w_nil_kept_with_content_user w_nil_kept_with_content_evs = false
  /\ lxml_sound_b default_config w_nil_kept_with_content_user w_nil_kept_with_content_evs = false.
Proof. exact nil_kept_with_content_refuted. Qed.
Print Assumptions C03_nil_kept_with_content_refuted.

Theorem C03_clark_datatype_text_refuted :
  only_clause_fails 6 (clause_vector default_config w_clark_datatype_text_user w_clark_datatype_text_evs) = true
  /\ native_sound_b default_config w_clark_datatype_text_user w_clark_datatype_text_evs = false
  /\ lxml_sound_b default_config w_clark_datatype_text_user w_clark_datatype_text_evs = false.
Proof. exact clark_datatype_text_refuted. Qed.
Print Assumptions C03_clark_datatype_text_refuted.

(* ---- repaired defects stay repaired: the former witnesses of deleted guard clauses *)
Example C03_prefix_collision_fixed :
  writer_guard default_config w_prefix_collision_user w_prefix_collision_evs = true
  /\ native_sound_b default_config w_prefix_collision_user w_prefix_collision_evs = true
  /\ lxml_sound_b default_config w_prefix_collision_user w_prefix_collision_evs = true.
Proof. exact prefix_collision_fixed. Qed.
Print Assumptions C03_prefix_collision_fixed.
Example C03_std_prefix_collision_fixed :
  writer_guard default_config w_std_prefix_collision_user w_std_prefix_collision_evs = true
  /\ native_sound_b default_config w_std_prefix_collision_user w_std_prefix_collision_evs = true
  /\ lxml_sound_b default_config w_std_prefix_collision_user w_std_prefix_collision_evs = true.
Proof. exact std_prefix_collision_fixed. Qed.
Print Assumptions C03_std_prefix_collision_fixed.

Example C03_default_ns_attribute_fixed :
  writer_guard default_config w_default_ns_attribute_user w_default_ns_attribute_evs = true
  /\ native_sound_b default_config w_default_ns_attribute_user w_default_ns_attribute_evs = true
  /\ lxml_sound_b default_config w_default_ns_attribute_user w_default_ns_attribute_evs = true.
Proof. exact default_ns_attribute_fixed. Qed.
Print Assumptions C03_default_ns_attribute_fixed.
Example C03_adjacent_data_fixed :
  writer_guard default_config w_adjacent_data_user w_adjacent_data_evs = true
  /\ native_sound_b default_config w_adjacent_data_user w_adjacent_data_evs = true
  /\ lxml_sound_b default_config w_adjacent_data_user w_adjacent_data_evs = true.
Proof. exact adjacent_data_fixed. Qed.
Print Assumptions C03_adjacent_data_fixed.
Example C03_hostile_uri_fixed :
  writer_guard default_config w_hostile_uri_user w_hostile_uri_evs = true
  /\ native_sound_b default_config w_hostile_uri_user w_hostile_uri_evs = true.
Proof. exact hostile_uri_fixed. Qed.
Print Assumptions C03_hostile_uri_fixed.
Example C03_cr_in_text_fixed :
  writer_guard default_config [] w_cr_in_text_evs = true
  /\ native_sound_b default_config [] w_cr_in_text_evs = true
  /\ lxml_sound_b default_config [] w_cr_in_text_evs = true.
Proof. exact cr_in_text_fixed. Qed.
Print Assumptions C03_cr_in_text_fixed.

(* ---- the guard is satisfiable by a non-trivial input, on which both writers are right *)
Example C03_guard_non_vacuous :
  writer_guard w_rich_cfg w_rich_user w_rich_evs = true
  /\ lxml_domain w_rich_cfg w_rich_user w_rich_evs = true
  /\ native_sound_b w_rich_cfg w_rich_user w_rich_evs = true
  /\ lxml_sound_b w_rich_cfg w_rich_user w_rich_evs = true
  /\ (exists d, run_native w_rich_cfg w_rich_user w_rich_evs = inl d).
Proof. exact guard_non_vacuous. Qed.
Print Assumptions C03_guard_non_vacuous.
