(* Properties/C03.v — statements only (placeholder while Proofs/Writer*.v are being built). *)
From XV Require Import Base.Str Spec.XmlNs Model.Writer Model.WriterCorr.
