(* Properties/C05.v — C05: primitive values map to valid XSD lexical forms and back.
   Statements only; every proof is `exact <lemma>` and is followed by its
   Print Assumptions.  Model: Model/Conv*.v (faithful to xsdata/formats/converter.py);
   specification: Spec/XsdPrims.v (written from XSD 1.1 part 2, imports no table). *)
From Coq Require Import NArith ZArith List Bool Sorting.Permutation Sorting.Sorted.
From XV Require Import Base.Str Base.Dec Base.PyInt Gen.ConvTables
  Model.ConvBool Model.ConvInt Model.ConvBytes Model.ConvDecimal Model.ConvQName Model.ConvFloat Model.ConvEnum
  Model.ConvFactory Model.ConvDataType Model.ConvGuards Spec.XsdPrims Spec.XsdDates
  Proofs.ConvBool Proofs.ConvInt Proofs.ConvBytes Proofs.ConvDecimal Proofs.ConvQName Proofs.ConvFloat Proofs.ConvEnum Proofs.ConvDataType Proofs.ConvFactory.
Import ListNotations.

(* ======================= bool <-> xs:boolean ======================= *)
Theorem C05_bool_roundtrip : forall b, bool_deser (bool_ser b) = Some b.
Proof. exact bool_roundtrip. Qed.
Print Assumptions C05_bool_roundtrip.

Theorem C05_bool_ser_valid : forall b, xsd_boolean (bool_ser b) = Some b.
Proof. exact bool_ser_valid. Qed.
Print Assumptions C05_bool_ser_valid.

Theorem C05_bool_accepts_xsd : forall s v a b,
  xsd_boolean s = Some v -> forallb xml_ws a = true -> forallb xml_ws b = true ->
  bool_deser (a ++ s ++ b) = Some v.
Proof. exact bool_accepts_xsd. Qed.
Print Assumptions C05_bool_accepts_xsd.

Theorem C05_bool_deser_sound : forall s v, bool_deser s = Some v -> xsd_boolean (py_strip s) = Some v.
Proof. exact bool_deser_sound. Qed.
Print Assumptions C05_bool_deser_sound.

(* ======================= int <-> xs:integer ======================== *)
(* full statements are false of the faithful model: CPython refuses int<->str
   conversions beyond sys.get_int_max_str_digits() digits *)
Theorem C05_int_ser_total_refuted : exists z, int_ser z = None.
Proof. exact int_ser_total_refuted. Qed.
Print Assumptions C05_int_ser_total_refuted.

Theorem C05_int_accepts_xsd_refuted : exists i, wf_integer i = true /\ int_deser (lex_integer i) = None.
Proof. exact int_accepts_xsd_refuted. Qed.
Print Assumptions C05_int_accepts_xsd_refuted.

Theorem C05_int_roundtrip : forall z s, int_ser z = Some s -> int_deser s = Some z.
Proof. exact int_roundtrip. Qed.
Print Assumptions C05_int_roundtrip.

Theorem C05_int_ser_defined : forall z, (int_ndigits z <= int_max_str_digits)%N -> int_ser z = Some (py_str_of_Z z).
Proof. exact int_ser_defined. Qed.
Print Assumptions C05_int_ser_defined.

Theorem C05_int_ser_valid : forall z s,
  int_ser z = Some s ->
  exists i, wf_integer i = true /\ lex_integer i = s /\ val_integer i = z /\ int_sp_in_limit i = true.
Proof. exact int_ser_valid. Qed.
Print Assumptions C05_int_ser_valid.

Theorem C05_int_accepts_xsd : forall i a b,
  wf_integer i = true -> int_sp_in_limit i = true ->
  forallb xml_ws a = true -> forallb xml_ws b = true ->
  int_deser (a ++ lex_integer i ++ b) = Some (val_integer i).
Proof. exact int_accepts_xsd. Qed.
Print Assumptions C05_int_accepts_xsd.

Example C05_int_guard_nonvacuous :
  let i := mk_integer_sp SgMinus (repeat_chr 57%N 4300) in
  wf_integer i = true /\ int_sp_in_limit i = true /\ int_deser (lex_integer i) = Some (val_integer i).
Proof. exact int_guard_nonvacuous. Qed.
Print Assumptions C05_int_guard_nonvacuous.

Theorem C05_int_datatype_sound : forall z, xsd_int_range (int_datatype z) z = true.
Proof. exact int_datatype_sound. Qed.
Print Assumptions C05_int_datatype_sound.

(* ======================= bytes <-> xs:hexBinary / xs:base64Binary === *)
Theorem C05_hex_roundtrip : forall k b s,
  bytes_ok b = true -> bytes_ser k (Some bytes_fmt_base16) b = Some s ->
  bytes_deser (Some bytes_fmt_base16) s = Some b.
Proof. exact hex_roundtrip. Qed.
Print Assumptions C05_hex_roundtrip.

Theorem C05_hex_ser_valid : forall b, bytes_ok b = true -> xsd_hexBinary (b16encode b) = Some b.
Proof. exact hex_ser_valid. Qed.
Print Assumptions C05_hex_ser_valid.

Theorem C05_hex_accepts_xsd : forall core v a b,
  xsd_hexBinary core = Some v -> forallb xml_ws a = true -> forallb xml_ws b = true ->
  bytes_deser (Some bytes_fmt_base16) (a ++ core ++ b) = Some v.
Proof. exact hex_accepts_xsd. Qed.
Print Assumptions C05_hex_accepts_xsd.

Theorem C05_base64_roundtrip : forall k b s,
  bytes_ok b = true -> bytes_ser k (Some bytes_fmt_base64) b = Some s -> (k = BHex -> False) ->
  bytes_deser (Some bytes_fmt_base64) s = Some b.
Proof. exact b64_roundtrip. Qed.
Print Assumptions C05_base64_roundtrip.

Theorem C05_base64_ser_valid : forall b, bytes_ok b = true -> xsd_base64Binary (b64encode b) = Some b.
Proof. exact b64_ser_valid. Qed.
Print Assumptions C05_base64_ser_valid.

Theorem C05_base64_accepts_xsd : forall s v,
  xsd_base64Binary s = Some v -> bytes_deser (Some bytes_fmt_base64) s = Some v.
Proof. exact b64_accepts_xsd. Qed.
Print Assumptions C05_base64_accepts_xsd.

(* ======================= Decimal <-> xs:decimal ========================= *)
(* full statement false of the faithful model: non-finite Decimals serialize to
   'INF' / 'NaN', which no xs:decimal spelling produces *)
Theorem C05_decimal_ser_valid_refuted :
  exists dv, forall d, wf_decimal d = true -> lex_decimal d <> dec_ser dv.
Proof. exact dec_ser_valid_refuted. Qed.
Print Assumptions C05_decimal_ser_valid_refuted.

(* guard dec_finite: the value is DFin neg c e *)
Theorem C05_decimal_ser_valid : forall neg c e,
  exists d, wf_decimal d = true /\ lex_decimal d = dec_ser (DFin neg c e)
            /\ decnum_eq (val_decimal d) (mk_decnum neg c e) = true.
Proof. exact dec_ser_valid. Qed.
Print Assumptions C05_decimal_ser_valid.

Theorem C05_decimal_accepts_xsd : forall d a b,
  wf_decimal d = true -> dec_sp_fits d = true ->
  forallb xml_ws a = true -> forallb xml_ws b = true ->
  dec_deser (a ++ lex_decimal d ++ b)
  = Some (let v := val_decimal d in DFin (dn_neg v) (dn_coeff v) (dn_exp v)).
Proof. exact dec_accepts_xsd. Qed.
Print Assumptions C05_decimal_accepts_xsd.

(* the value read back: a positive exponent is spent on trailing zeros (same
   number, as Python's ==); otherwise coefficient and exponent are preserved *)
Theorem C05_decimal_roundtrip : forall neg c e,
  dec_fits (fst (dec_norm c e)) (snd (dec_norm c e)) = true ->
  dec_deser (dec_ser (DFin neg c e)) = Some (DFin neg (fst (dec_norm c e)) (snd (dec_norm c e))).
Proof. exact dec_roundtrip. Qed.
Print Assumptions C05_decimal_roundtrip.

Theorem C05_decimal_roundtrip_same_number : forall neg c e,
  decnum_eq (mk_decnum neg (fst (dec_norm c e)) (snd (dec_norm c e))) (mk_decnum neg c e) = true.
Proof. exact dec_norm_value. Qed.
Print Assumptions C05_decimal_roundtrip_same_number.

Theorem C05_decimal_roundtrip_exact : forall neg c e,
  (e <= 0)%Z -> dec_fits c e = true -> dec_deser (dec_ser (DFin neg c e)) = Some (DFin neg c e).
Proof. exact dec_roundtrip_exact. Qed.
Print Assumptions C05_decimal_roundtrip_exact.

Example C05_decimal_guard_nonvacuous :
  dec_deser (dec_ser (DFin true 12345 (-3))) = Some (DFin true 12345 (-3))
  /\ dec_ser (DFin true 12345 (-3)) = [45;49;50;46;51;52;53]%N
  /\ dec_deser (dec_ser (DFin false 15 2)) = Some (DFin false 1500 0).
Proof. exact dec_guard_nonvacuous. Qed.
Print Assumptions C05_decimal_guard_nonvacuous.

(* ======================= QName <-> xs:QName ============================== *)
(* is_ncname covers the NCName production of XML Namespaces (false before repo fix
   4e4ae03, where 'a' + U+0301 was the refutation witness) *)
Theorem C05_is_ncname_accepts_xsd : forall s, xsd_ncname s = true -> is_ncname s = true.
Proof. exact xsd_ncname_accepted. Qed.
Print Assumptions C05_is_ncname_accepts_xsd.

(* full acceptance is still false in one corner: QNameConverter.resolve strips with
   str.strip(), and U+1680 is both an XML NameStartChar and Python whitespace *)
Theorem C05_qname_accepts_xsd_refuted :
  exists q env v, wf_qname q = true /\ val_qname env q = Some v
                  /\ qname_deser (lex_qname q) (Some env) <> Some (expanded_name v).
Proof. exact qname_accepts_xsd_refuted. Qed.
Print Assumptions C05_qname_accepts_xsd_refuted.

Theorem C05_qname_accepts_xsd : forall q env a b v,
  wf_qname q = true -> val_qname env q = Some v -> qname_sp_edge_guard q = true ->
  forallb xml_ws a = true -> forallb xml_ws b = true ->
  qname_deser (a ++ lex_qname q ++ b) (Some env) = Some (expanded_name v).
Proof. exact qname_accepts_xsd. Qed.
Print Assumptions C05_qname_accepts_xsd.

Example C05_qname_accepts_guard_nonvacuous :
  let q := mk_qname_sp (Some [112; 45; 113]%N) [97; 769; 3634; 183; 8255]%N in
  wf_qname q = true /\ qname_sp_edge_guard q = true
  /\ qname_deser ([32; 10] ++ lex_qname q ++ [9])%N (Some [(Some [112; 45; 113], [117;114;110;58;97])]%N)
     = Some ([123;117;114;110;58;97;125] ++ [97; 769; 3634; 183; 8255])%N.
Proof. exact qname_accepts_guard_nonvacuous. Qed.
Print Assumptions C05_qname_accepts_guard_nonvacuous.

(* is_uri accepts every plain ASCII namespace name, '-' included (false before repo
   fix 7c20cbc, where the xsi namespace was the refutation witness) *)
Theorem C05_is_uri_accepts_plain : forall u, spec_uri_plain u = true -> is_uri (Some u) = true.
Proof. exact is_uri_accepts_plain. Qed.
Print Assumptions C05_is_uri_accepts_plain.

Theorem C05_qname_roundtrip_clark_plain : forall u local,
  spec_uri_plain u = true -> is_ncname local = true -> name_edges_ok local = true ->
  qname_deser (qname_text (Some u) local) None = Some (qname_text (Some u) local)
  /\ qname_ser (qname_text (Some u) local) None = Some (qname_text (Some u) local, None).
Proof. exact qname_roundtrip_clark_plain. Qed.
Print Assumptions C05_qname_roundtrip_clark_plain.

Example C05_is_uri_accepts_xsi :
  spec_uri_plain [104;116;116;112;58;47;47;119;119;119;46;119;51;46;111;114;103;47;50;48;48;49;47;88;77;76;83;99;104;101;109;97;45;105;110;115;116;97;110;99;101]%N = true.
Proof. exact is_uri_accepts_xsi. Qed.
Print Assumptions C05_is_uri_accepts_xsi.

(* full round trip is false: one witness per remaining guard clause
   (clark_uri_ok: is_uri knows ASCII URI references only; the witness is an IRI) *)
Theorem C05_qname_roundtrip_clark_refuted :
  exists u local, is_ncname local = true /\
    forall s m', qname_ser (qname_text (Some u) local) None = Some (s, m') -> qname_deser s m' = None.
Proof. exact qname_roundtrip_clark_refuted. Qed.
Print Assumptions C05_qname_roundtrip_clark_refuted.

Theorem C05_qname_roundtrip_edges_refuted :
  exists local, is_ncname local = true /\
    exists s m', qname_ser (qname_text None local) None = Some (s, m')
                 /\ qname_deser s m' <> Some (qname_text None local).
Proof. exact qname_roundtrip_edges_refuted. Qed.
Print Assumptions C05_qname_roundtrip_edges_refuted.

Theorem C05_qname_roundtrip_default_refuted :
  exists local m, is_ncname local = true /\ wf_nsmap m = true /\
    exists s m', qname_ser (qname_text None local) (Some m) = Some (s, m')
                 /\ qname_deser s m' <> Some (qname_text None local).
Proof. exact qname_roundtrip_default_refuted. Qed.
Print Assumptions C05_qname_roundtrip_default_refuted.

Theorem C05_qname_roundtrip : forall uri local m,
  qname_rt_guard uri local m = true ->
  exists s m', qname_ser (qname_text uri local) m = Some (s, m')
               /\ qname_deser s m' = Some (qname_text uri local).
Proof. exact qname_roundtrip. Qed.
Print Assumptions C05_qname_roundtrip.

Example C05_qname_roundtrip_guard_nonvacuous :
  qname_rt_guard (Some [117;114;110;58;97]%N) [233;46;98]%N
    (Some [(None, [117;114;110;58;100]); (Some [112], [117;114;110;58;98])]%N) = true
  /\ qname_rt_guard (Some [117;114;110;58;97]%N) [120]%N None = true
  /\ qname_rt_guard None [120]%N (Some [(Some [112], [117;114;110;58;98])]%N) = true.
Proof. exact qname_roundtrip_guard_nonvacuous. Qed.
Print Assumptions C05_qname_roundtrip_guard_nonvacuous.

(* ======================= float <-> xs:double ============================== *)
(* for every (F, fclass_of, frepr, fround) satisfying the hypotheses CPythonFloat
   about repr() and float(); the hypotheses are sampled by the check *)
Theorem C05_float_roundtrip : forall F fclass_of frepr fround,
  CPythonFloat F fclass_of frepr fround -> forall x,
  match fclass_of x with
  | FcNaN => exists y, float_deser F fround (float_ser F fclass_of frepr x) = Some y /\ fclass_of y = FcNaN
  | _ => float_deser F fround (float_ser F fclass_of frepr x) = Some x
  end.
Proof. exact float_roundtrip. Qed.
Print Assumptions C05_float_roundtrip.

Theorem C05_float_ser_valid : forall F fclass_of frepr fround,
  CPythonFloat F fclass_of frepr fround -> forall x,
  exists d, wf_double d = true /\ lex_double d = float_ser F fclass_of frepr x
            /\ match fclass_of x with
               | FcNaN => d = DbNaN
               | _ => fround (fsyn_of d) = x
               end.
Proof. exact float_ser_valid. Qed.
Print Assumptions C05_float_ser_valid.

Theorem C05_float_accepts_xsd : forall F (fround : fsyn -> F) d a b,
  wf_double d = true -> forallb xml_ws a = true -> forallb xml_ws b = true ->
  float_deser F fround (a ++ lex_double d ++ b) = Some (fround (fsyn_of d)).
Proof. exact float_accepts_xsd. Qed.
Print Assumptions C05_float_accepts_xsd.

(* the text side without any hypothesis: float() reads every xs:double literal
   as the number it denotes *)
Theorem C05_float_syntax_accepts_xsd : forall d a b,
  wf_double d = true -> forallb xml_ws a = true -> forallb xml_ws b = true ->
  float_syntax (a ++ lex_double d ++ b) = Some (fsyn_of d).
Proof. exact float_syntax_spelled. Qed.
Print Assumptions C05_float_syntax_accepts_xsd.

(* ======================= enumerations ===================================== *)
(* token-tuple enumerations (list-typed enumerations as generated): serializable
   since /repo f0dd6fc; every member reads back as itself *)
Theorem C05_enum_tokens_roundtrip : forall m d ls i toks,
  tok_values d = Some ls ->
  forallb (fun e => match snd e with EvTuple l => all_strs l | _ => false end) d = true ->
  NoDup ls -> nth_error ls i = Some toks -> forallb token_ok toks = true ->
  enum_ser m (EvTuple (strs toks)) = Some (join [32]%N toks, m)
  /\ enum_deser m d (join [32]%N toks) = Some i.
Proof. exact enum_tokens_roundtrip. Qed.
Print Assumptions C05_enum_tokens_roundtrip.

Example C05_enum_tuple_witness :
  let v := EvTuple [AStr [97]%N; AStr [98]%N] in
  enum_ser None v = Some ([97;32;98]%N, None) /\ enum_deser None [([65]%N, v)] [97;32;98]%N = Some 0%nat.
Proof. exact enum_tuple_witness. Qed.
Print Assumptions C05_enum_tuple_witness.

(* no whitespace guard any more (repo fix 64a4ace: an exact match wins) *)
Theorem C05_enum_str_roundtrip : forall m d vs i v,
  str_values d = Some vs -> NoDup vs -> nth_error vs i = Some v ->
  enum_ser m (EvAtom (AStr v)) = Some (v, m) /\ enum_deser m d v = Some i.
Proof. exact enum_str_roundtrip. Qed.
Print Assumptions C05_enum_str_roundtrip.

Example C05_enum_str_ws_witnesses :
  enum_deser None [([65]%N, EvAtom (AStr [32;108]%N))] [32;108]%N = Some 0%nat
  /\ enum_deser None [([88]%N, EvAtom (AStr [97;32;98]%N)); ([89]%N, EvAtom (AStr [97;9;98]%N))] [97;9;98]%N = Some 1%nat
  /\ enum_deser None [([88]%N, EvAtom (AStr [97;32;98]%N)); ([89]%N, EvAtom (AStr [97;9;98]%N))] [32;97;10;32;98]%N = Some 0%nat.
Proof. exact enum_str_ws_witnesses. Qed.
Print Assumptions C05_enum_str_ws_witnesses.

Theorem C05_enum_int_roundtrip : forall m d zs i z s,
  int_values d = Some zs -> NoDup zs -> nth_error zs i = Some z -> int_ser z = Some s ->
  enum_ser m (EvAtom (AInt z)) = Some (s, m) /\ enum_deser m d s = Some i.
Proof. exact enum_int_roundtrip. Qed.
Print Assumptions C05_enum_int_roundtrip.

(* ======================= str =========================================== *)
Theorem C05_string_roundtrip : forall s, string_deser (string_ser s) = Some s.
Proof. exact string_roundtrip. Qed.
Print Assumptions C05_string_roundtrip.

(* ======================= candidate type lists ========================== *)
Theorem C05_sort_types_perm : forall l, Permutation l (sort_types l).
Proof. exact sort_types_perm. Qed.
Print Assumptions C05_sort_types_perm.

Theorem C05_sort_types_sorted : forall l, StronglySorted (fun a b => (sort_key a <= sort_key b)%Z) (sort_types l).
Proof. exact sort_types_sorted. Qed.
Print Assumptions C05_sort_types_sorted.

Theorem C05_sort_types_stable : forall k l,
  filter (fun t => (sort_key t =? k)%Z) (sort_types l) = filter (fun t => (sort_key t =? k)%Z) l.
Proof. exact sort_types_stable. Qed.
Print Assumptions C05_sort_types_stable.

Theorem C05_deserialize_none : forall (V : Type) (conv : pytype -> str -> option V) s l,
  deserialize_gen conv s (sort_types l) = None <-> (forall t, In t l -> conv t s = None).
Proof. exact @deserialize_sorted_none. Qed.
Print Assumptions C05_deserialize_none.

Theorem C05_deserialize_priority : forall (V : Type) (conv : pytype -> str -> option V) s l t v,
  deserialize_gen conv s (sort_types l) = Some (t, v) ->
  In t l /\ conv t s = Some v /\ (forall t', In t' l -> conv t' s <> None -> (sort_key t <= sort_key t')%Z).
Proof. exact @deserialize_priority. Qed.
Print Assumptions C05_deserialize_priority.

Theorem C05_deserialize_priority_tie : forall (V : Type) (conv : pytype -> str -> option V) s l t v,
  deserialize_gen conv s (sort_types l) = Some (t, v) ->
  deserialize_gen conv s (filter (fun x => (sort_key x =? sort_key t)%Z) l) = Some (t, v).
Proof. exact @deserialize_priority_tie. Qed.
Print Assumptions C05_deserialize_priority_tie.

(* candidates drawn from the documented types (Spec.XsdPrims.documented_priority, written
   out independently of the regenerated table): sorting by the table and taking the
   first converter that accepts is exactly the documented choice *)
Theorem C05_deserialize_documented : forall (V : Type) (conv : pytype -> str -> option V) s (names : list str),
  (forall n, In n names -> In n documented_priority) ->
  option_map snd (deserialize_gen conv s (sort_types (map TName names)))
  = choose_by_priority documented_priority names (fun n => conv (TName n) s).
Proof. exact @deserialize_documented. Qed.
Print Assumptions C05_deserialize_documented.

(* ======================= DataType.from_value ============================== *)
(* the datatype written as xsi:type for an XmlPeriod: every valid g* literal (year 0000
   and negative years included) gets the datatype of its own lexical space, computed
   from the components XSD assigns to it *)
Theorem C05_period_datatype_sound : forall p,
  wf_period p = true -> period_datatype_of (val_period p) = period_kind p.
Proof. exact period_datatype_sound. Qed.
Print Assumptions C05_period_datatype_sound.

Theorem C05_from_value_period : forall y m d, from_value (FvPeriod y m d) = period_datatype y m d.
Proof. exact from_value_period. Qed.
Print Assumptions C05_from_value_period.

Theorem C05_from_value_int : forall z, from_value (FvInt z) = int_datatype z.
Proof. exact from_value_int. Qed.
Print Assumptions C05_from_value_int.
