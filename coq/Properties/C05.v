(* Properties/C05.v — C05: primitive values map to valid XSD lexical forms and back.
   Statements only; every proof is `exact <lemma>` and is followed by its
   Print Assumptions.  Model: Model/Conv*.v (faithful to xsdata/formats/converter.py);
   specification: Spec/XsdPrims.v (written from XSD 1.1 part 2, imports no table). *)
From Coq Require Import NArith ZArith List Bool Sorting.Permutation Sorting.Sorted.
From XV Require Import Base.Str Base.Dec Base.PyInt Gen.ConvTables
  Model.ConvBool Model.ConvInt Model.ConvBytes Model.ConvFactory Model.ConvGuards Spec.XsdPrims
  Proofs.ConvBool Proofs.ConvInt Proofs.ConvBytes Proofs.ConvFactory.
Import ListNotations.

(* ======================= bool <-> xs:boolean ======================= *)
Theorem C05_bool_roundtrip : forall b, bool_deser (bool_ser b) = Some b.
Proof. exact bool_roundtrip. Qed.
Print Assumptions C05_bool_roundtrip.

Theorem C05_bool_ser_valid : forall b, xsd_boolean (bool_ser b) = Some b.
Proof. exact bool_ser_valid. Qed.
Print Assumptions C05_bool_ser_valid.

Theorem C05_bool_accepts_xsd : forall s v a b,
  xsd_boolean s = Some v -> forallb xml_ws a = true -> forallb xml_ws b = true ->
  bool_deser (a ++ s ++ b) = Some v.
Proof. exact bool_accepts_xsd. Qed.
Print Assumptions C05_bool_accepts_xsd.

Theorem C05_bool_deser_sound : forall s v, bool_deser s = Some v -> xsd_boolean (py_strip s) = Some v.
Proof. exact bool_deser_sound. Qed.
Print Assumptions C05_bool_deser_sound.

(* ======================= int <-> xs:integer ======================== *)
(* full statements are false of the faithful model: CPython refuses int<->str
   conversions beyond sys.get_int_max_str_digits() digits *)
Theorem C05_int_ser_total_refuted : exists z, int_ser z = None.
Proof. exact int_ser_total_refuted. Qed.
Print Assumptions C05_int_ser_total_refuted.

Theorem C05_int_accepts_xsd_refuted : exists i, wf_integer i = true /\ int_deser (lex_integer i) = None.
Proof. exact int_accepts_xsd_refuted. Qed.
Print Assumptions C05_int_accepts_xsd_refuted.

Theorem C05_int_roundtrip : forall z s, int_ser z = Some s -> int_deser s = Some z.
Proof. exact int_roundtrip. Qed.
Print Assumptions C05_int_roundtrip.

Theorem C05_int_ser_defined : forall z, (int_ndigits z <= int_max_str_digits)%N -> int_ser z = Some (py_str_of_Z z).
Proof. exact int_ser_defined. Qed.
Print Assumptions C05_int_ser_defined.

Theorem C05_int_ser_valid : forall z s,
  int_ser z = Some s ->
  exists i, wf_integer i = true /\ lex_integer i = s /\ val_integer i = z /\ int_sp_in_limit i = true.
Proof. exact int_ser_valid. Qed.
Print Assumptions C05_int_ser_valid.

Theorem C05_int_accepts_xsd : forall i a b,
  wf_integer i = true -> int_sp_in_limit i = true ->
  forallb xml_ws a = true -> forallb xml_ws b = true ->
  int_deser (a ++ lex_integer i ++ b) = Some (val_integer i).
Proof. exact int_accepts_xsd. Qed.
Print Assumptions C05_int_accepts_xsd.

Example C05_int_guard_nonvacuous :
  let i := mk_integer_sp SgMinus (repeat_chr 57%N 4300) in
  wf_integer i = true /\ int_sp_in_limit i = true /\ int_deser (lex_integer i) = Some (val_integer i).
Proof. exact int_guard_nonvacuous. Qed.
Print Assumptions C05_int_guard_nonvacuous.

Theorem C05_int_datatype_sound : forall z, xsd_int_range (int_datatype z) z = true.
Proof. exact int_datatype_sound. Qed.
Print Assumptions C05_int_datatype_sound.

(* ======================= bytes <-> xs:hexBinary / xs:base64Binary === *)
Theorem C05_hex_roundtrip : forall k b s,
  bytes_ok b = true -> bytes_ser k (Some bytes_fmt_base16) b = Some s ->
  bytes_deser (Some bytes_fmt_base16) s = Some b.
Proof. exact hex_roundtrip. Qed.
Print Assumptions C05_hex_roundtrip.

Theorem C05_hex_ser_valid : forall b, bytes_ok b = true -> xsd_hexBinary (b16encode b) = Some b.
Proof. exact hex_ser_valid. Qed.
Print Assumptions C05_hex_ser_valid.

Theorem C05_hex_accepts_xsd : forall core v a b,
  xsd_hexBinary core = Some v -> forallb xml_ws a = true -> forallb xml_ws b = true ->
  bytes_deser (Some bytes_fmt_base16) (a ++ core ++ b) = Some v.
Proof. exact hex_accepts_xsd. Qed.
Print Assumptions C05_hex_accepts_xsd.

Theorem C05_base64_roundtrip : forall k b s,
  bytes_ok b = true -> bytes_ser k (Some bytes_fmt_base64) b = Some s -> (k = BHex -> False) ->
  bytes_deser (Some bytes_fmt_base64) s = Some b.
Proof. exact b64_roundtrip. Qed.
Print Assumptions C05_base64_roundtrip.

Theorem C05_base64_ser_valid : forall b, bytes_ok b = true -> xsd_base64Binary (b64encode b) = Some b.
Proof. exact b64_ser_valid. Qed.
Print Assumptions C05_base64_ser_valid.

Theorem C05_base64_accepts_xsd : forall s v,
  xsd_base64Binary s = Some v -> bytes_deser (Some bytes_fmt_base64) s = Some v.
Proof. exact b64_accepts_xsd. Qed.
Print Assumptions C05_base64_accepts_xsd.

(* ======================= str =========================================== *)
Theorem C05_string_roundtrip : forall s, string_deser (string_ser s) = Some s.
Proof. exact string_roundtrip. Qed.
Print Assumptions C05_string_roundtrip.

(* ======================= candidate type lists ========================== *)
Theorem C05_sort_types_perm : forall l, Permutation l (sort_types l).
Proof. exact sort_types_perm. Qed.
Print Assumptions C05_sort_types_perm.

Theorem C05_sort_types_sorted : forall l, StronglySorted (fun a b => (sort_key a <= sort_key b)%Z) (sort_types l).
Proof. exact sort_types_sorted. Qed.
Print Assumptions C05_sort_types_sorted.

Theorem C05_sort_types_stable : forall k l,
  filter (fun t => (sort_key t =? k)%Z) (sort_types l) = filter (fun t => (sort_key t =? k)%Z) l.
Proof. exact sort_types_stable. Qed.
Print Assumptions C05_sort_types_stable.

Theorem C05_deserialize_none : forall (V : Type) (conv : pytype -> str -> option V) s l,
  deserialize_gen conv s (sort_types l) = None <-> (forall t, In t l -> conv t s = None).
Proof. exact @deserialize_sorted_none. Qed.
Print Assumptions C05_deserialize_none.

Theorem C05_deserialize_priority : forall (V : Type) (conv : pytype -> str -> option V) s l t v,
  deserialize_gen conv s (sort_types l) = Some (t, v) ->
  In t l /\ conv t s = Some v /\ (forall t', In t' l -> conv t' s <> None -> (sort_key t <= sort_key t')%Z).
Proof. exact @deserialize_priority. Qed.
Print Assumptions C05_deserialize_priority.

Theorem C05_deserialize_priority_tie : forall (V : Type) (conv : pytype -> str -> option V) s l t v,
  deserialize_gen conv s (sort_types l) = Some (t, v) ->
  deserialize_gen conv s (filter (fun x => (sort_key x =? sort_key t)%Z) l) = Some (t, v).
Proof. exact @deserialize_priority_tie. Qed.
Print Assumptions C05_deserialize_priority_tie.
