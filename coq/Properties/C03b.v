(* Properties/C03b.v — "the serialized document says exactly what the metadata says"
   (statements only; the writer half of C03 lives in Properties/C03.v). *)
From Coq Require Import NArith ZArith List Bool.
From XV Require Import Base.Str Base.Eqb Model.Bind Model.EventGen.
Import ListNotations.

Example C03b_placeholder : real_xsi_type [97]%N (Some [97]%N) = None.
Proof. reflexivity. Qed.
Print Assumptions C03b_placeholder.
