(* Properties/C06.v — XML Schema date, time, dateTime (statements only).
   Model: Model/Dates.v (xsdata/utils/dates.py, xsdata/models/datatype.py);
   specification: Spec/XsdDates.v (XSD 1.1 lexical spaces, Gregorian calendar, timeline). *)
From Coq Require Import NArith ZArith List Bool.
From XV Require Import Base.Str Base.PyInt Model.Dates Model.DatesStd Model.DatesCorr Spec.XsdDates
  Proofs.DatesCal Proofs.DatesParse Proofs.DatesFormat Proofs.DatesOrder Proofs.DatesDuration Proofs.DatesPeriod Proofs.DatesStd Proofs.DatesStr Proofs.DatesReplace.
Import ListNotations.
Open Scope Z_scope.

(* 1. every XSD-valid lexical form (any year width/sign, leap days, 24:00:00, up to 9
      fraction digits, any timezone), surrounded by XML whitespace, is accepted and
      yields the components XSD assigns *)
Theorem C06_date_accepts_xsd : forall sp a b,
  wf_date sp = true -> year_len_ok (ds_year sp) ->
  forallb xml_ws a = true -> forallb xml_ws b = true ->
  date_from_string (a ++ lex_date sp ++ b)
  = Some (mk_xdate (val_year (ds_year sp)) (ds_month sp) (ds_day sp) (val_tz (ds_tz sp))).
Proof. exact date_accepts. Qed.
Print Assumptions C06_date_accepts_xsd.

Theorem C06_time_accepts_xsd : forall sp a b,
  wf_time sp = true -> forallb xml_ws a = true -> forallb xml_ws b = true ->
  time_from_string (a ++ lex_time sp ++ b)
  = Some (mk_xtime (ts_hour sp) (ts_minute sp) (ts_second sp) (val_frac (ts_frac sp)) (val_tz (ts_tz sp))).
Proof. exact time_accepts. Qed.
Print Assumptions C06_time_accepts_xsd.

Theorem C06_datetime_accepts_xsd : forall sp a b,
  wf_datetime sp = true -> year_len_ok (dts_year sp) ->
  forallb xml_ws a = true -> forallb xml_ws b = true ->
  datetime_from_string (a ++ lex_datetime sp ++ b)
  = Some (mk_xdatetime (val_year (dts_year sp)) (dts_month sp) (dts_day sp)
            (dts_hour sp) (dts_minute sp) (dts_second sp) (val_frac (dts_frac sp)) (val_tz (dts_tz sp))).
Proof. exact datetime_accepts. Qed.
Print Assumptions C06_datetime_accepts_xsd.

(* 1b. every xs:duration lexical form is accepted with the components XSD assigns (the seconds as
       their decimal text; turning that text into a float is CPython's float()) *)
Theorem C06_duration_accepts_xsd : forall d,
  wf_duration d = true -> digits_fit d ->
  duration_parse (lex_duration d)
  = Some (mk_xduration (du_sp_neg d) (val_comp (du_sp_y d)) (val_comp (du_sp_mo d)) (val_comp (du_sp_d d))
            (val_comp (du_sp_h d)) (val_comp (du_sp_mi d)) (secs_text (du_sp_s d))).
Proof. exact duration_accepts. Qed.
Print Assumptions C06_duration_accepts_xsd.

(* 1c. every gDay / gMonth / gMonthDay / gYear / gYearMonth lexical form is accepted with the
       components XSD assigns *)
Theorem C06_period_accepts_xsd : forall p,
  wf_period p = true -> period_year_ok p -> period_parse (lex_period p) = Some (expect p).
Proof. exact period_accepts. Qed.
Print Assumptions C06_period_accepts_xsd.

(* 2. formatting a valid value gives the canonical XSD spelling of that value *)
Theorem C06_date_str_valid : forall v, valid_date_value v = true ->
  date_str v = lex_date (canon_date v) /\ wf_date (canon_date v) = true.
Proof. exact date_str_canonical. Qed.
Print Assumptions C06_date_str_valid.

Theorem C06_time_str_valid : forall v, valid_time_value v = true ->
  time_str v = lex_time (canon_time v) /\ wf_time (canon_time v) = true
  /\ val_frac (ts_frac (canon_time v)) = t_frac v.
Proof. exact time_str_canonical. Qed.
Print Assumptions C06_time_str_valid.

Theorem C06_datetime_str_valid : forall v, valid_datetime_value v = true ->
  datetime_str v = lex_datetime (canon_datetime v) /\ wf_datetime (canon_datetime v) = true
  /\ val_frac (dts_frac (canon_datetime v)) = dt_frac v.
Proof. exact datetime_str_canonical. Qed.
Print Assumptions C06_datetime_str_valid.

(* 3. ... which parses back to an equal value *)
Theorem C06_date_roundtrip : forall v,
  valid_date_value v = true -> year_fits (d_year v) -> date_from_string (date_str v) = Some v.
Proof. exact date_roundtrip. Qed.
Print Assumptions C06_date_roundtrip.

Theorem C06_time_roundtrip : forall v,
  valid_time_value v = true -> time_from_string (time_str v) = Some v.
Proof. exact time_roundtrip. Qed.
Print Assumptions C06_time_roundtrip.

Theorem C06_datetime_roundtrip : forall v,
  valid_datetime_value v = true -> year_fits (dt_year v) -> datetime_from_string (datetime_str v) = Some v.
Proof. exact datetime_roundtrip. Qed.
Print Assumptions C06_datetime_roundtrip.

(* 4. whatever string is accepted denotes a real calendar date / time of day *)
Theorem C06_date_rejects_unreal : forall s v,
  date_from_string s = Some v -> real_date (d_year v) (d_month v) (d_day v) = true.
Proof. exact date_rejects_unreal. Qed.
Print Assumptions C06_date_rejects_unreal.

Theorem C06_time_rejects_unreal : forall s v,
  time_from_string s = Some v -> real_time (t_hour v) (t_minute v) (t_second v) (t_frac v) = true.
Proof. exact time_rejects_unreal. Qed.
Print Assumptions C06_time_rejects_unreal.

Theorem C06_datetime_rejects_unreal : forall s v,
  datetime_from_string s = Some v ->
  real_date (dt_year v) (dt_month v) (dt_day v) = true /\
  real_time (dt_hour v) (dt_minute v) (dt_second v) (dt_frac v) = true.
Proof. exact datetime_rejects_unreal. Qed.
Print Assumptions C06_datetime_rejects_unreal.

(* 5. ordering/equality of dateTime agree with the timeline, for every pair of valid values
      (any year, 24:00:00, every offset, nanoseconds).  Before the repair 07d9224 this statement was
      refuted of the faithful model (findings C06-F2/F3, float "duration" comparison). *)
Theorem C06_datetime_order_agrees : forall a b,
  valid_datetime_value a = true -> valid_datetime_value b = true ->
  datetime_lt a b = (dt_instant a <? dt_instant b) /\ datetime_eq a b = (dt_instant a =? dt_instant b).
Proof. exact datetime_order_agrees. Qed.
Print Assumptions C06_datetime_order_agrees.

(* 5b. the same for xs:time *)
Theorem C06_time_order_agrees : forall a b,
  valid_time_value a = true -> valid_time_value b = true ->
  time_lt a b = (t_instant a <? t_instant b) /\ time_eq a b = (t_instant a =? t_instant b).
Proof. exact time_order_agrees. Qed.
Print Assumptions C06_time_order_agrees.

(* 5c. all six rich comparisons (lt, eq, le, gt, ge, ne as the harness observes them) *)
Theorem C06_datetime_cmp6_agrees : forall a b,
  valid_datetime_value a = true -> valid_datetime_value b = true ->
  cmp6 (datetime_lt a b) (datetime_eq a b) = cmp6Z (dt_instant a) (dt_instant b).
Proof. exact datetime_cmp6_agrees. Qed.
Print Assumptions C06_datetime_cmp6_agrees.

(* 5d. the timeline of the specification is the calendar's: the day after a real date is a real
      date and its day number is one more (so the era arithmetic of Spec/XsdDates.v is, up to the
      choice of day 0, the only numbering compatible with month lengths and leap years) *)
Theorem C06_timeline_is_the_calendar : forall y m d,
  real_date y m d = true ->
  let '(y', m', d') := next_day y m d in
  real_date y' m' d' = true /\ days_from_civil y' m' d' = days_from_civil y m d + 1.
Proof. exact days_from_civil_next. Qed.
Print Assumptions C06_timeline_is_the_calendar.

(* 6. conversions to and from the standard library's date/time objects preserve the instant.  A stdlib
      object is the tuple of the fields its constructor received (Model/DatesStd.v), its instant is the
      specification's timeline in microseconds; the check ties both to CPython on every generated case. *)
Theorem C06_datetime_to_std : forall v,
  valid_datetime_value v = true -> dt_std_range v = true ->
  exists p, datetime_to_std v = Some p
            /\ pydt_instant_us p = dt_instant v / 1000
            /\ (dt_frac v mod 1000 = 0 -> pydt_instant_us p * 1000 = dt_instant v /\ datetime_from_std p = v).
Proof. exact datetime_to_std_all. Qed.
Print Assumptions C06_datetime_to_std.

Theorem C06_datetime_from_std : forall p, pydt_ok p = true ->
  datetime_to_std (datetime_from_std p) = Some p /\ dt_instant (datetime_from_std p) = pydt_instant_us p * 1000.
Proof. exact datetime_from_std_roundtrip. Qed.
Print Assumptions C06_datetime_from_std.

Theorem C06_time_to_std : forall v,
  valid_time_value v = true -> t_std_range v = true ->
  exists q, time_to_std v = Some q
            /\ pyt_instant_us q = t_instant' v / 1000
            /\ (t_frac v mod 1000 = 0 -> time_from_std q = v).
Proof. exact time_to_std_all. Qed.
Print Assumptions C06_time_to_std.

Theorem C06_time_from_std : forall q, pyt_ok q = true ->
  time_to_std (time_from_std q) = Some q /\ t_instant' (time_from_std q) = pyt_instant_us q * 1000.
Proof. exact time_from_std_roundtrip. Qed.
Print Assumptions C06_time_from_std.

(* XmlTime.now(tz)/utcnow() keep the zone of the datetime they are taken from (repair a863c7f) *)
Theorem C06_time_now_keeps_zone : forall p,
  t_offset (time_now_from p) = sd_off p
  /\ t_instant' (time_now_from p) = time_us (sd_hour p) (sd_minute p) (sd_second p) (sd_us p) (sd_off p) * 1000.
Proof. exact time_now_keeps_zone. Qed.
Print Assumptions C06_time_now_keeps_zone.

Theorem C06_date_std : forall v,
  valid_date_value v = true -> d_std_range v = true ->
  exists r p, date_to_date v = Some r /\ date_to_datetime v = Some p
              /\ date_from_datetime p = v
              /\ date_from_date r = mk_xdate (d_year v) (d_month v) (d_day v) None
              /\ pydt_instant_us p = instant_us (d_year v) (d_month v) (d_day v) 0 0 0 0 (d_offset v).
Proof. exact date_std_roundtrip. Qed.
Print Assumptions C06_date_std.

(* 7. XmlDuration / XmlPeriod are strings: str() is the stripped text the value was built from.  For a value
      built from an XSD lexical form it IS that form (XSD-valid), and building a value from str() again
      gives the same text (equal value) and the same components. *)
Theorem C06_duration_str_roundtrip : forall s,
  duration_str s = option_map (fun _ => py_strip s) (duration_parse s)
  /\ duration_parse (py_strip s) = duration_parse s
  /\ (forall t, duration_str s = Some t -> duration_str t = Some t).
Proof. exact duration_str_roundtrip. Qed.
Print Assumptions C06_duration_str_roundtrip.

Theorem C06_duration_str_xsd : forall d,
  wf_duration d = true -> digits_fit d -> duration_str (lex_duration d) = Some (lex_duration d).
Proof. exact duration_str_xsd. Qed.
Print Assumptions C06_duration_str_xsd.

Theorem C06_period_str_roundtrip : forall s,
  period_parse (py_strip s) = period_parse s
  /\ (forall t, period_str s = Some t -> period_str t = Some t).
Proof. exact period_str_roundtrip. Qed.
Print Assumptions C06_period_str_roundtrip.

(* 8. replace() is a pure field update: nothing given = identity; each argument decides exactly its own field
      (offset=None removes the zone, the sentinel keeps it); moving a valid value to another real zone keeps it
      valid and printable *)
Theorem C06_replace_nothing : forall d t dt,
  date_replace d None None None OffKeep = d /\ time_replace t None None None None OffKeep = t
  /\ datetime_replace dt None None None None None None None OffKeep = dt.
Proof. intros d t dt. repeat split; [apply date_replace_nothing|apply time_replace_nothing|apply datetime_replace_nothing]. Qed.
Print Assumptions C06_replace_nothing.

Theorem C06_datetime_replace_fields : forall v y m d h mi s f o,
  let r := datetime_replace v y m d h mi s f o in
  dt_year r = keep_z y (dt_year v) /\ dt_month r = keep_z m (dt_month v) /\ dt_day r = keep_z d (dt_day v)
  /\ dt_hour r = keep_z h (dt_hour v) /\ dt_minute r = keep_z mi (dt_minute v) /\ dt_second r = keep_z s (dt_second v)
  /\ dt_frac r = keep_z f (dt_frac v) /\ dt_offset r = keep_off o (dt_offset v).
Proof. exact datetime_replace_fields. Qed.
Print Assumptions C06_datetime_replace_fields.

Theorem C06_datetime_replace_zone : forall v o,
  valid_datetime_value v = true -> real_offset o = true -> year_fits (dt_year v) ->
  let r := datetime_replace v None None None None None None None (OffSet o) in
  valid_datetime_value r = true /\ datetime_from_string (datetime_str r) = Some r.
Proof. intros v o Hv Ho Hy r. split; [apply datetime_replace_zone_valid|apply datetime_replace_zone_roundtrip]; assumption. Qed.
Print Assumptions C06_datetime_replace_zone.

(* non-vacuity of the hypotheses above *)
Example C06_guards_inhabited :
  wf_datetime (mk_datetime_sp (mk_year_sp true [49;50;48;48;48]%N) 2 29 24 0 0 [48;48]%N (TzOff true 14 0)) = true
  /\ valid_datetime_value (mk_xdatetime (-12000) 2 29 23 59 59 120000 (Some (-840))) = true
  /\ valid_date_value (mk_xdate 0 2 29 None) = true.
Proof. vm_compute. repeat split; reflexivity. Qed.
