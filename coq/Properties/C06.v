(* Properties/C06.v — statements only (placeholder until Proofs/Dates*.v land). *)
From XV Require Import Base.Str Model.Dates Spec.XsdDates.
