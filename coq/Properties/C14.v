(* Properties/C14.v — parsers, serializers and the binding context are
   history-independent.  Statements only; proofs in Proofs/Context*.v.

   Model: Model/Context.v.  `run_hist w0 ctx0 h` runs a history (client operations
   as scripts over the context's public methods, interleaved with classes and
   modules appearing in the interpreter) on instances that start fresh in world
   w0; `result w x s` is what operation s returns on instances in state x;
   `ctx0` is the state of freshly created instances. *)
From Coq Require Import NArith List Bool.
From XV Require Import Base.Str Base.Eqb Model.Context
  Proofs.ContextEq Proofs.ContextInv Proofs.ContextHist Proofs.ContextLemmas Proofs.ContextWitness
  Proofs.ContextStatic.
Import ListNotations.
Open Scope N_scope.

(* The property at full strength:
     forall w0 h s, world_ok w0 = true -> history_independent_at w0 h s
   where history_independent_at w0 h s :=
     let '(w, x, _) := run_hist w0 ctx0 h in result w x s = result w ctx0 s.
   It is FALSE of the faithful model (and of the implementation): *)
Theorem C14_history_independent_full_refuted :
  ~ (forall w0 h s, world_ok w0 = true -> history_independent_at w0 h s).
Proof. exact full_statement_false. Qed.
Print Assumptions C14_history_independent_full_refuted.

(* (a) the metadata cache is keyed by class only *)
Theorem C14_history_independent_refuted_ns :
  exists w0 h s, world_ok w0 = true /\ ~ history_independent_at w0 h s
                 /\ modules_stable h = true.
Proof. exists W, h_ns, (serialize W vPB). destruct refuted_ns. auto. Qed.
Print Assumptions C14_history_independent_refuted_ns.

(* (b) the subclass index is judged current by len(sys.modules) only *)
Theorem C14_history_independent_refuted_stale :
  exists w0 h s, world_ok w0 = true /\ ~ history_independent_at w0 h s
                 /\ modules_stable h = false.
Proof. exists W, h_stale, find_late. destruct refuted_stale. auto. Qed.
Print Assumptions C14_history_independent_refuted_stale.

(* (c) until /repo c28ded8 local_names_match pruned classes it cannot build from the index
   (C14_history_independent_refuted_prune: a typeless decode made find_type lose the class;
   a second local_names_match raised ValueError).  Repaired: such classes are remembered in
   a separate set, a pure memo.  The refutation and its guard clause are deleted; the old
   witnesses are inside the guard and history independent now: *)
Theorem C14_former_pruned_index_harmless :
  history_independent_at W h_prune find_broken
  /\ history_independent_at W [HRun (op_script W (OCall CBuildXsi)); HRun names_broken] names_broken
  /\ hist_guard W (h_prune ++ [HRun names_broken; HRun names_broken]) find_broken = true.
Proof.
  split; [exact former_prune_harmless|]. split; [exact former_value_error_harmless|exact former_prune_guarded].
Qed.
Print Assumptions C14_former_pruned_index_harmless.

(* (d) build_recursive stops at a cached class *)
Theorem C14_history_independent_refuted_rec :
  exists w0 h s, world_ok w0 = true /\ ~ history_independent_at w0 h s
                 /\ modules_stable h = true.
Proof. exists W, h_rec, rec_dep. destruct refuted_rec. auto. Qed.
Print Assumptions C14_history_independent_refuted_rec.

(* The guarded theorem.  hist_guard w0 h s (computable, Model/Context.v) =
     world_ok w0                          len(sys.modules) > 0
     && modules_stable h                  (b) every class appears together with a module-count change
     && ns_closed t_shared && ns_closed t_fresh
                                          (a) all requests for one class (parent namespaces actually
                                              passed to XmlContext.build during the history, during s,
                                              and during s on fresh instances) give the same metadata
     && quiet t_shared && quiet t_fresh   (d) build_recursive met no unbuildable class below its argument.
   For every history and every client s of the context: *)
Theorem C14_history_independent_guarded :
  forall w0 h s, hist_guard w0 h s = true ->
  let '(w, x, _) := run_hist w0 ctx0 h in result w x s = result w ctx0 s.
Proof. exact history_independent_guarded. Qed.
Print Assumptions C14_history_independent_guarded.

(* ... and both equal the stateless reference semantics: every method answers from
   the classes that exist, never from what an earlier call left behind *)
Theorem C14_shared_is_ideal :
  forall w0 h s, world_ok w0 = true -> modules_stable h = true ->
  let '(w, x, t) := run_hist w0 ctx0 h in
  let '(_, r, ts) := run_script w x s in
  ns_closed (t ++ ts) = true -> quiet (t ++ ts) = true -> r = ideal_run w s.
Proof. exact shared_is_ideal. Qed.
Print Assumptions C14_shared_is_ideal.

(* A static sufficient condition: if every class that exists at the end declares its own
   namespace and can be built (world_closed), classes appear together with modules, and
   no client calls build_recursive, then EVERY history is inside the guard — whatever
   the clients request, in whatever order, failing or not. *)
Theorem C14_history_independent_declared :
  forall w0 h s,
  world_ok w0 = true -> modules_stable h = true -> Forall hop_norec h -> norec s ->
  (let '(w, _, _) := run_hist w0 ctx0 h in world_closed w = true) ->
  history_independent_at w0 h s.
Proof. exact history_independent_declared. Qed.
Print Assumptions C14_history_independent_declared.

(* the cache invariant behind it: every cached entry is the canonical metadata of its
   class, whatever calls — failing ones included — have been made *)
Theorem C14_failed_call_leaves_cache_consistent :
  forall w canon x c x' k t,
  0 < w_modules w -> Inv w canon x -> exec_call w x c = (x', AErr k, t) ->
  canon_ok canon t -> quiet t = true -> Inv w canon x'.
Proof. exact failed_call_leaves_cache_consistent. Qed.
Print Assumptions C14_failed_call_leaves_cache_consistent.

Theorem C14_failed_build_stores_nothing :
  forall w x c pns x' t, ctx_build w x c pns = (x', None, t) -> x' = x.
Proof. exact failed_build_stores_nothing. Qed.
Print Assumptions C14_failed_build_stores_nothing.

(* XmlVar.match_namespace: the per-field memo never changes an answer *)
Theorem C14_memo_is_pure :
  forall nss qs, snd (memo_run nss [] qs) = map (match_namespace_pure nss) qs.
Proof. intros nss qs. apply memo_run_pure. apply memo_ok_nil. Qed.
Print Assumptions C14_memo_is_pure.

(* the ns_map recorder of a shared parser instance is write-only *)
Theorem C14_recorder_not_read :
  forall w x r s, result w (set_rec x r) s = result w x s
                  /\ snd (run_script w (set_rec x r) s) = snd (run_script w x s).
Proof. exact recorder_not_read. Qed.
Print Assumptions C14_recorder_not_read.

(* the guard is not vacuous *)
Theorem C14_guard_nonvacuous : hist_guard W h_good (parse W docOwn None) = true.
Proof. exact guard_nonvacuous. Qed.
Print Assumptions C14_guard_nonvacuous.

Theorem C14_guard_single_parent_namespace :
  hist_guard W [HRun (serialize W vPA); HRun (serialize W vPA)] (serialize W vPA) = true.
Proof. exact guard_single_parent. Qed.
Print Assumptions C14_guard_single_parent_namespace.
