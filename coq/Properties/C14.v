(* Properties/C14.v — placeholder until Proofs/Context*.v land. *)
From XV Require Import Base.Str Model.Context.
