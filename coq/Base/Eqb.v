(* Base/Eqb.v — boolean equality combinators used by case files and guards. *)
From Coq Require Import NArith ZArith List Bool.
From XV Require Import Base.Str.
Import ListNotations.

Definition opt_eqb {A} (e : A -> A -> bool) (a b : option A) : bool :=
  match a, b with
  | Some x, Some y => e x y
  | None, None => true
  | _, _ => false
  end.

Fixpoint list_eqb {A} (e : A -> A -> bool) (a b : list A) : bool :=
  match a, b with
  | [], [] => true
  | x :: a', y :: b' => e x y && list_eqb e a' b'
  | _, _ => false
  end.

Definition pair_eqb {A B} (ea : A -> A -> bool) (eb : B -> B -> bool) (a b : A * B) : bool :=
  ea (fst a) (fst b) && eb (snd a) (snd b).

Definition oZ_eqb := opt_eqb Z.eqb.
Definition lZ_eqb := list_eqb Z.eqb.
Definition loZ_eqb := list_eqb oZ_eqb.
Definition ostr_eqb := opt_eqb str_eqb.

Lemma opt_eqb_spec {A} (e : A -> A -> bool) :
  (forall x y, e x y = true <-> x = y) -> forall a b, opt_eqb e a b = true <-> a = b.
Proof.
  intros H [x|] [y|]; cbn; try (split; congruence).
  rewrite H. split; congruence.
Qed.

Lemma list_eqb_spec {A} (e : A -> A -> bool) :
  (forall x y, e x y = true <-> x = y) -> forall a b, list_eqb e a b = true <-> a = b.
Proof.
  intros H a; induction a as [|x a IH]; intros [|y b]; cbn; try (split; congruence).
  rewrite andb_true_iff, H, IH. split; [intros [-> ->]; reflexivity | intros E; inversion E; auto].
Qed.
