(* Base/Str.v — Python `str` as a list of Unicode code points, with the text
   operations the models need.  Definitions only + small lemmas; stdlib only. *)
From Coq Require Import NArith ZArith List Bool Lia.
Import ListNotations.
Open Scope N_scope.

Definition str := list N.

Fixpoint str_eqb (a b : str) : bool :=
  match a, b with
  | [], [] => true
  | x :: a', y :: b' => N.eqb x y && str_eqb a' b'
  | _, _ => false
  end.

Lemma str_eqb_spec a b : reflect (a = b) (str_eqb a b).
Proof.
  revert b; induction a as [|x a IH]; intros [|y b]; cbn; try (constructor; congruence).
  destruct (N.eqb_spec x y) as [->|Hn]; cbn.
  - destruct (IH b) as [->|Hn]; constructor; congruence.
  - constructor; congruence.
Qed.

Lemma str_eqb_refl a : str_eqb a a = true.
Proof. destruct (str_eqb_spec a a); congruence. Qed.

Lemma str_eqb_eq a b : str_eqb a b = true <-> a = b.
Proof. destruct (str_eqb_spec a b); split; congruence. Qed.

Definition mem (c : N) (l : list N) : bool := existsb (N.eqb c) l.

Lemma mem_In c l : mem c l = true <-> In c l.
Proof.
  unfold mem. rewrite existsb_exists. split.
  - intros [x [Hin Heq]]. apply N.eqb_eq in Heq. subst. exact Hin.
  - intros H. exists c. split; [exact H| apply N.eqb_refl].
Qed.

(* --- strip family, parameterised by the whitespace predicate --------- *)
Fixpoint lstrip_by (ws : N -> bool) (s : str) : str :=
  match s with
  | c :: r => if ws c then lstrip_by ws r else s
  | [] => []
  end.

Definition rstrip_by (ws : N -> bool) (s : str) : str :=
  rev (lstrip_by ws (rev s)).

Definition strip_by (ws : N -> bool) (s : str) : str :=
  rstrip_by ws (lstrip_by ws s).

Lemma lstrip_by_app_ws ws a s : forallb ws a = true -> lstrip_by ws (a ++ s) = lstrip_by ws s.
Proof.
  induction a as [|c a IH]; cbn; [reflexivity|].
  intros H. apply andb_true_iff in H as [Hc Ha]. rewrite Hc. auto.
Qed.

Lemma lstrip_by_nonws ws c s : ws c = false -> lstrip_by ws (c :: s) = c :: s.
Proof. intros H; cbn; rewrite H; reflexivity. Qed.

Lemma lstrip_by_all ws a : forallb ws a = true -> lstrip_by ws a = [].
Proof.
  induction a as [|c a IH]; cbn; [reflexivity|].
  intros H. apply andb_true_iff in H as [Hc Ha]. rewrite Hc. auto.
Qed.

Lemma forallb_rev {A} (f : A -> bool) l : forallb f (rev l) = forallb f l.
Proof.
  induction l as [|x l IH]; cbn; [reflexivity|].
  rewrite forallb_app, IH. cbn. rewrite andb_true_r. apply andb_comm.
Qed.

(* The shape every "surrounding whitespace" theorem uses: a core that starts
   and ends with a non-whitespace character, wrapped in whitespace. *)
Lemma strip_by_wrap ws a core b :
  forallb ws a = true -> forallb ws b = true ->
  (forall c r, core = c :: r -> ws c = false) ->
  (forall c r, rev core = c :: r -> ws c = false) ->
  strip_by ws (a ++ core ++ b) = core.
Proof.
  intros Ha Hb Hf Hl. unfold strip_by, rstrip_by.
  rewrite lstrip_by_app_ws by exact Ha.
  destruct core as [|c r] eqn:Ec.
  - cbn [app]. rewrite (lstrip_by_all ws b Hb). reflexivity.
  - assert (Hc : ws c = false) by (eapply Hf; reflexivity).
    cbn [app]. rewrite lstrip_by_nonws by exact Hc.
    change (c :: r ++ b) with ((c :: r) ++ b).
    rewrite rev_app_distr.
    rewrite lstrip_by_app_ws by (rewrite forallb_rev; exact Hb).
    destruct (rev (c :: r)) as [|d r'] eqn:Er.
    + apply (f_equal (@rev N)) in Er. rewrite rev_involutive in Er. discriminate.
    + rewrite lstrip_by_nonws by (eapply Hl; reflexivity).
      rewrite <- Er. apply rev_involutive.
Qed.

(* --- misc text functions ------------------------------------------- *)
Fixpoint startswith (p s : str) : bool :=
  match p, s with
  | [], _ => true
  | x :: p', y :: s' => N.eqb x y && startswith p' s'
  | _ :: _, [] => false
  end.

Definition endswith (p s : str) : bool := startswith (rev p) (rev s).

Fixpoint repeat_chr (c : N) (n : nat) : str :=
  match n with O => [] | S k => c :: repeat_chr c k end.

Definition ljust (w : nat) (c : N) (s : str) : str := s ++ repeat_chr c (w - length s).
Definition rjust (w : nat) (c : N) (s : str) : str := repeat_chr c (w - length s) ++ s.

(* Python slicing s[a:b] for 0 <= a, b (clamped) *)
Definition slice (s : str) (a b : nat) : str := firstn (b - a) (skipn a s).

(* span: longest prefix satisfying p, and the rest *)
Fixpoint span (p : N -> bool) (s : str) : str * str :=
  match s with
  | c :: r => if p c then let (a, b) := span p r in (c :: a, b) else ([], s)
  | [] => ([], [])
  end.

Lemma span_app_stop p a c r :
  forallb p a = true -> p c = false -> span p (a ++ c :: r) = (a, c :: r).
Proof.
  induction a as [|x a IH]; cbn; intros Ha Hc.
  - rewrite Hc. reflexivity.
  - apply andb_true_iff in Ha as [Hx Ha]. rewrite Hx, IH by assumption. reflexivity.
Qed.

Lemma span_all p a : forallb p a = true -> span p a = (a, []).
Proof.
  induction a as [|x a IH]; cbn; intros Ha; [reflexivity|].
  apply andb_true_iff in Ha as [Hx Ha]. rewrite Hx, IH by assumption. reflexivity.
Qed.

(* find first index of a char, Python str.find semantic on single chars *)
Fixpoint find_chr (c : N) (s : str) : option nat :=
  match s with
  | [] => None
  | x :: r => if N.eqb x c then Some O else option_map S (find_chr c r)
  end.

Fixpoint count_leading (c : N) (s : str) : nat :=
  match s with
  | x :: r => if N.eqb x c then S (count_leading c r) else O
  | [] => O
  end.

Fixpoint join (sep : str) (l : list str) : str :=
  match l with
  | [] => []
  | [x] => x
  | x :: r => x ++ sep ++ join sep r
  end.

(* split on a single separator char (Python s.split(c)) *)
Fixpoint split_chr_aux (c : N) (cur : str) (s : str) : list str :=
  match s with
  | [] => [rev cur]
  | x :: r => if N.eqb x c then rev cur :: split_chr_aux c [] r
              else split_chr_aux c (x :: cur) r
  end.
Definition split_chr (c : N) (s : str) : list str := split_chr_aux c [] s.

(* Python s.split(): split on runs of whitespace, no empty strings *)
Fixpoint split_ws_aux (ws : N -> bool) (cur : str) (s : str) : list str :=
  match s with
  | [] => match cur with [] => [] | _ => [rev cur] end
  | x :: r =>
      if ws x then match cur with [] => split_ws_aux ws [] r
                                 | _ => rev cur :: split_ws_aux ws [] r end
      else split_ws_aux ws (x :: cur) r
  end.
Definition split_ws (ws : N -> bool) (s : str) : list str := split_ws_aux ws [] s.

(* ASCII helpers *)
Definition is_ascii_digit (c : N) : bool := (48 <=? c) && (c <=? 57).
Definition is_ascii_upper (c : N) : bool := (65 <=? c) && (c <=? 90).
Definition is_ascii_lower (c : N) : bool := (97 <=? c) && (c <=? 122).
Definition is_ascii_alpha (c : N) : bool := is_ascii_upper c || is_ascii_lower c.
Definition ascii_lower (c : N) : N := if is_ascii_upper c then c + 32 else c.
Definition ascii_upper (c : N) : N := if is_ascii_lower c then c - 32 else c.

(* XSD / XML whitespace: space, tab, LF, CR *)
Definition xml_ws (c : N) : bool :=
  N.eqb c 32 || N.eqb c 9 || N.eqb c 10 || N.eqb c 13.
