(* Base/Dec.v — decimal digit strings: printing N/Z the way Python's str(int)
   and the format specs %0Nd do, reading ASCII digit strings, and the facts
   relating text length, leading zeros and magnitude. *)
From Coq Require Import NArith ZArith List Bool Lia Decimal DecimalN DecimalPos DecimalFacts.
From XV Require Import Base.Str.
Import ListNotations.
Open Scope N_scope.

(* ---- reading ------------------------------------------------------- *)
Definition digit_of (c : N) : N := c - 48.

Fixpoint str_val_acc (acc : N) (s : str) : N :=
  match s with
  | [] => acc
  | c :: r => str_val_acc (acc * 10 + digit_of c) r
  end.
Definition str_val (s : str) : N := str_val_acc 0 s.

Definition all_digits (s : str) : bool := forallb is_ascii_digit s.

Lemma str_val_acc_app acc a b :
  str_val_acc acc (a ++ b) = str_val_acc (str_val_acc acc a) b.
Proof. revert acc; induction a as [|c a IH]; cbn; intros; [reflexivity|apply IH]. Qed.

Lemma str_val_acc_lin acc s :
  str_val_acc acc s = acc * 10 ^ N.of_nat (length s) + str_val_acc 0 s.
Proof.
  revert acc; induction s as [|c s IH]; intros acc.
  - cbn. lia.
  - cbn [str_val_acc length]. rewrite IH. rewrite (IH (0 * 10 + digit_of c)).
    rewrite Nat2N.inj_succ, N.pow_succ_r'. lia.
Qed.

Lemma is_ascii_digit_range c : is_ascii_digit c = true <-> 48 <= c <= 57.
Proof. unfold is_ascii_digit. rewrite andb_true_iff, !N.leb_le. tauto. Qed.

Lemma str_val_lt_pow s : all_digits s = true -> str_val s < 10 ^ N.of_nat (length s).
Proof.
  unfold str_val. induction s as [|c s IH] using rev_ind; intros H.
  - cbn. lia.
  - unfold all_digits in *. rewrite forallb_app in H. apply andb_true_iff in H as [Hs Hc].
    cbn in Hc. rewrite andb_true_r in Hc. apply is_ascii_digit_range in Hc.
    rewrite str_val_acc_app. cbn [str_val_acc].
    rewrite app_length. cbn [length]. rewrite Nat.add_1_r, Nat2N.inj_succ, N.pow_succ_r'.
    specialize (IH Hs). unfold digit_of. lia.
Qed.

Lemma str_val_zeros_app k s : str_val (repeat_chr 48 k ++ s) = str_val s.
Proof.
  unfold str_val. induction k as [|k IH]; cbn; [reflexivity|exact IH].
Qed.

(* ---- printing ------------------------------------------------------ *)
Fixpoint uint_to_str (u : Decimal.uint) : str :=
  match u with
  | Nil => []
  | D0 r => 48 :: uint_to_str r | D1 r => 49 :: uint_to_str r
  | D2 r => 50 :: uint_to_str r | D3 r => 51 :: uint_to_str r
  | D4 r => 52 :: uint_to_str r | D5 r => 53 :: uint_to_str r
  | D6 r => 54 :: uint_to_str r | D7 r => 55 :: uint_to_str r
  | D8 r => 56 :: uint_to_str r | D9 r => 57 :: uint_to_str r
  end.

Definition to_dec (n : N) : str := uint_to_str (N.to_uint n).

Lemma uint_to_str_digits u : all_digits (uint_to_str u) = true.
Proof. induction u; cbn; auto. Qed.

Lemma to_dec_digits n : all_digits (to_dec n) = true.
Proof. apply uint_to_str_digits. Qed.

(* value of the printed text = N.of_uint *)
Lemma str_val_acc_uint_pos acc u :
  str_val_acc (Npos acc) (uint_to_str u) = Npos (Pos.of_uint_acc u acc).
Proof.
  revert acc; induction u; intros acc; cbn [uint_to_str str_val_acc Pos.of_uint_acc];
    try reflexivity.
  all: match goal with |- str_val_acc ?a _ = Npos (Pos.of_uint_acc _ ?b) =>
      replace a with (Npos b) by (unfold digit_of; lia) end; apply IHu.
Qed.

Lemma str_val_acc_uint u : str_val_acc 0 (uint_to_str u) = Pos.of_uint u.
Proof.
  induction u; cbn [uint_to_str str_val_acc Pos.of_uint]; try reflexivity; try exact IHu;
    match goal with |- str_val_acc ?a _ = _ =>
      let v := eval cbn in a in change a with v end;
    apply str_val_acc_uint_pos.
Qed.

Lemma str_val_to_dec n : str_val (to_dec n) = n.
Proof.
  unfold str_val, to_dec. rewrite str_val_acc_uint.
  apply DecimalN.Unsigned.of_to.
Qed.

Lemma to_dec_nonempty n : to_dec n <> [].
Proof.
  unfold to_dec. destruct n as [|p]; cbn; [discriminate|].
  assert (Hu : Pos.to_uint p <> Nil).
  { intro E. pose proof (DecimalPos.Unsigned.of_to p) as X. rewrite E in X. discriminate X. }
  destruct (Pos.to_uint p); try congruence; discriminate.
Qed.

Lemma to_dec_length_pos n : (0 < length (to_dec n))%nat.
Proof. pose proof (to_dec_nonempty n). destruct (to_dec n); [congruence|cbn; lia]. Qed.

(* no leading zero on positive numbers *)
Lemma uint_to_str_unorm_head u :
  match uint_to_str (unorm u) with
  | [] => False
  | c :: r => c = 48 -> r = []
  end.
Proof.
  induction u; cbn; try discriminate; auto.
  (* D0 u : unorm (D0 u) = unorm u *)
Qed.

Lemma to_dec_head n : match to_dec n with [] => False | c :: r => c = 48 -> r = [] end.
Proof.
  unfold to_dec.
  assert (E : unorm (N.to_uint n) = N.to_uint n).
  { rewrite <- (DecimalN.Unsigned.of_to n) at 2.
    symmetry. apply DecimalN.Unsigned.to_of. }
  rewrite <- E. apply uint_to_str_unorm_head.
Qed.

Lemma to_dec_no_leading_zero n : n <> 0 -> count_leading 48 (to_dec n) = O.
Proof.
  intros Hn. pose proof (to_dec_head n) as H. pose proof (str_val_to_dec n) as V.
  destruct (to_dec n) as [|c r]; [contradiction|].
  cbn. destruct (N.eqb_spec c 48) as [->|]; [|reflexivity].
  rewrite (H eq_refl) in V. cbn in V. congruence.
Qed.

(* length vs magnitude *)
Lemma to_dec_length_ge n k : 10 ^ N.of_nat k <= n -> (k < length (to_dec n))%nat.
Proof.
  intros H. pose proof (str_val_lt_pow (to_dec n) (to_dec_digits n)) as L.
  rewrite str_val_to_dec in L.
  destruct (Nat.lt_ge_cases k (length (to_dec n))) as [|Hge]; [assumption|exfalso].
  assert (10 ^ N.of_nat (length (to_dec n)) <= 10 ^ N.of_nat k) by (apply N.pow_le_mono_r; lia).
  lia.
Qed.

(* zero padded, Python "%0wd" on a non-negative number *)
Definition zfill (w : nat) (s : str) : str := rjust w 48 s.
Definition fmt_0wd_N (w : nat) (n : N) : str := zfill w (to_dec n).

(* Python format(z, "0wd") on any int: the sign takes one column *)
Definition fmt_0wd (w : nat) (z : Z) : str :=
  match z with
  | Zneg p => 45 :: zfill (w - 1) (to_dec (Npos p))
  | _ => zfill w (to_dec (Z.to_N z))
  end.

(* Python str(int) *)
Definition py_str_of_Z (z : Z) : str :=
  match z with
  | Zneg p => 45 :: to_dec (Npos p)
  | _ => to_dec (Z.to_N z)
  end.

Lemma repeat_chr_length c k : length (repeat_chr c k) = k.
Proof. induction k; cbn; auto. Qed.

Lemma repeat_chr_forallb p c k : p c = true -> forallb p (repeat_chr c k) = true.
Proof. intros H; induction k; cbn; [reflexivity|rewrite H; auto]. Qed.

Lemma zfill_digits w s : all_digits s = true -> all_digits (zfill w s) = true.
Proof.
  intros H. unfold zfill, rjust, all_digits in *. rewrite forallb_app.
  rewrite (repeat_chr_forallb is_ascii_digit 48 (w - length s) eq_refl). exact H.
Qed.

Lemma zfill_length w s : length (zfill w s) = Nat.max w (length s).
Proof. unfold zfill, rjust. rewrite app_length, repeat_chr_length. lia. Qed.

Lemma str_val_zfill w s : str_val (zfill w s) = str_val s.
Proof. apply str_val_zeros_app. Qed.

Lemma str_val_fmt_0wd_N w n : str_val (fmt_0wd_N w n) = n.
Proof. unfold fmt_0wd_N. rewrite str_val_zfill. apply str_val_to_dec. Qed.

Lemma fmt_0wd_N_digits w n : all_digits (fmt_0wd_N w n) = true.
Proof. apply zfill_digits, to_dec_digits. Qed.

Lemma fmt_0wd_N_length_ge w n : (w <= length (fmt_0wd_N w n))%nat.
Proof. unfold fmt_0wd_N. rewrite zfill_length. lia. Qed.

Lemma count_leading_repeat_app k s :
  count_leading 48 (repeat_chr 48 k ++ s) = (k + count_leading 48 s)%nat.
Proof. induction k; cbn; auto. Qed.

(* exact width when the number fits *)
Lemma to_dec_length_le n k : n < 10 ^ N.of_nat k -> (0 < k)%nat -> (length (to_dec n) <= k)%nat.
Proof.
  intros H Hk.
  destruct (N.eq_dec n 0) as [->|Hn]; [cbn; lia|].
  destruct (Nat.le_gt_cases (length (to_dec n)) k) as [|Hgt]; [assumption|exfalso].
  (* length > k, no leading zero => n >= 10^k *)
  pose proof (to_dec_no_leading_zero n Hn) as Z0.
  pose proof (to_dec_digits n) as D. pose proof (str_val_to_dec n) as V.
  destruct (to_dec n) as [|c r] eqn:E; [cbn in Hgt; lia|].
  cbn in Z0. destruct (N.eqb_spec c 48) as [|Hc]; [discriminate|].
  cbn in D. apply andb_true_iff in D as [Dc Dr]. apply is_ascii_digit_range in Dc.
  unfold str_val in V. cbn [str_val_acc] in V. rewrite str_val_acc_lin in V.
  cbn [length] in Hgt.
  assert (10 ^ N.of_nat k <= 10 ^ N.of_nat (length r)) by (apply N.pow_le_mono_r; lia).
  unfold digit_of in V. nia.
Qed.
