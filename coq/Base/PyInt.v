(* Base/PyInt.v — CPython's int(str), str.isspace/isdigit/isdecimal/strip as
   executable functions over the interpreter tables of Gen/PyUnicode.v. *)
From Coq Require Import NArith ZArith List Bool Lia.
From XV Require Import Base.Str Base.Dec Gen.PyUnicode.
Import ListNotations.
Open Scope N_scope.

Definition py_isspace (c : N) : bool := mem c py_space_tbl.
Definition py_int_space (c : N) : bool := mem c py_int_space_tbl.

Definition py_strip (s : str) : str := strip_by py_isspace s.

(* decimal value of a code point of category Nd (blocks of ten) *)
Definition nd_value (c : N) : option N :=
  if is_ascii_digit c then Some (c - 48)
  else match find (fun z => (z <=? c) && (c <? z + 10)) py_nd_zero_tbl with
       | Some z => Some (c - z)
       | None => None
       end.

Definition py_isdecimal (c : N) : bool :=
  match nd_value c with Some _ => true | None => false end.
Definition py_isdigit (c : N) : bool := py_isdecimal c || mem c py_isdigit_extra_tbl.

(* digit (digit | '_' digit)*  — the body of a base-10 int literal *)
Fixpoint digits_us_aux (acc : N) (prev_us : bool) (s : str) : option N :=
  match s with
  | [] => if prev_us then None else Some acc
  | c :: r =>
      if N.eqb c 95 then (if prev_us then None else digits_us_aux acc true r)
      else match nd_value c with
           | Some d => digits_us_aux (acc * 10 + d) false r
           | None => None
           end
  end.

Definition digits_us (s : str) : option N :=
  match s with
  | [] => None
  | c :: r => match nd_value c with
              | Some d => digits_us_aux d false r
              | None => None
              end
  end.

Definition count_digits (s : str) : N :=
  N.of_nat (length (filter (fun c => negb (N.eqb c 95)) s)).

(* sys.int_max_str_digits default *)
Definition py_max_str_digits : N := 4300.

Definition split_sign (t : str) : bool * str :=
  match t with
  | c :: r => if N.eqb c 45 then (true, r) else if N.eqb c 43 then (false, r) else (false, t)
  | [] => (false, t)
  end.

Definition py_int (s : str) : option Z :=
  let sb := split_sign (strip_by py_int_space s) in
  if py_max_str_digits <? count_digits (snd sb) then None else
  match digits_us (snd sb) with
  | Some n => Some (if fst sb then Z.opp (Z.of_N n) else Z.of_N n)
  | None => None
  end.

(* ---- facts ---------------------------------------------------------- *)
Lemma ascii_digit_not_int_space c : is_ascii_digit c = true -> py_int_space c = false.
Proof.
  intros H. apply is_ascii_digit_range in H.
  assert (T : forallb (fun x => negb (is_ascii_digit x)) py_int_space_tbl = true) by (vm_compute; reflexivity).
  destruct (py_int_space c) eqn:E; [|reflexivity]. exfalso.
  unfold py_int_space in E. apply mem_In in E.
  rewrite forallb_forall in T. specialize (T c E).
  apply negb_true_iff in T. unfold is_ascii_digit in T.
  apply andb_false_iff in T as [T|T]; apply N.leb_gt in T; lia.
Qed.

Lemma ascii_digit_not_space c : is_ascii_digit c = true -> py_isspace c = false.
Proof.
  intros H. apply is_ascii_digit_range in H.
  assert (T : forallb (fun x => negb (is_ascii_digit x)) py_space_tbl = true) by (vm_compute; reflexivity).
  destruct (py_isspace c) eqn:E; [|reflexivity]. exfalso.
  unfold py_isspace in E. apply mem_In in E.
  rewrite forallb_forall in T. specialize (T c E).
  apply negb_true_iff in T. unfold is_ascii_digit in T.
  apply andb_false_iff in T as [T|T]; apply N.leb_gt in T; lia.
Qed.

Lemma nd_value_ascii c : is_ascii_digit c = true -> nd_value c = Some (digit_of c).
Proof. intros H. unfold nd_value. rewrite H. reflexivity. Qed.

Lemma py_isdigit_ascii c : is_ascii_digit c = true -> py_isdigit c = true.
Proof. intros H. unfold py_isdigit, py_isdecimal. rewrite nd_value_ascii by exact H. reflexivity. Qed.

Lemma digits_us_aux_digits acc s :
  all_digits s = true -> digits_us_aux acc false s = Some (str_val_acc acc s).
Proof.
  revert acc; induction s as [|c s IH]; intros acc H; cbn; [reflexivity|].
  cbn in H. apply andb_true_iff in H as [Hc Hs].
  pose proof Hc as R. apply is_ascii_digit_range in R.
  destruct (N.eqb_spec c 95); [lia|].
  rewrite nd_value_ascii by exact Hc. apply IH; exact Hs.
Qed.

Lemma digits_us_digits s :
  all_digits s = true -> s <> [] -> digits_us s = Some (str_val s).
Proof.
  intros H Hne. destruct s as [|c s]; [congruence|]. cbn in H.
  apply andb_true_iff in H as [Hc Hs]. cbn [digits_us].
  rewrite nd_value_ascii by exact Hc. rewrite digits_us_aux_digits by exact Hs.
  unfold str_val. cbn [str_val_acc]. reflexivity.
Qed.

Lemma count_digits_all_digits s : all_digits s = true -> count_digits s = N.of_nat (length s).
Proof.
  intros H. unfold count_digits. f_equal. f_equal.
  induction s as [|c s IH]; cbn; [reflexivity|]. cbn in H.
  apply andb_true_iff in H as [Hc Hs]. apply is_ascii_digit_range in Hc.
  destruct (N.eqb_spec c 95); [lia|]. cbn. f_equal. auto.
Qed.

Lemma strip_int_space_digits s :
  all_digits s = true -> strip_by py_int_space s = s.
Proof.
  intros H.
  change s with ([] ++ s) at 1. rewrite <- (app_nil_r s) at 1.
  apply strip_by_wrap; try reflexivity.
  - intros c r E. subst. cbn in H. apply andb_true_iff in H as [Hc _].
    apply ascii_digit_not_int_space; exact Hc.
  - intros c r E. unfold all_digits in H. rewrite <- forallb_rev in H. rewrite E in H.
    cbn in H. apply andb_true_iff in H as [Hc _]. apply ascii_digit_not_int_space; exact Hc.
Qed.

Theorem py_int_digits s :
  all_digits s = true -> s <> [] -> N.of_nat (length s) <= py_max_str_digits ->
  py_int s = Some (Z.of_N (str_val s)).
Proof.
  intros H Hne Hlen. unfold py_int. rewrite strip_int_space_digits by exact H.
  destruct s as [|c r] eqn:E; [congruence|]. rewrite <- E in *.
  assert (Hc : is_ascii_digit c = true).
  { rewrite E in H. cbn in H. apply andb_true_iff in H as [Hc _]. exact Hc. }
  pose proof Hc as R. apply is_ascii_digit_range in R.
  assert (Hsign : split_sign s = (false, s)).
  { rewrite E. unfold split_sign.
    destruct (N.eqb_spec c 45); [lia|]. destruct (N.eqb_spec c 43); [lia|]. reflexivity. }
  rewrite Hsign. cbn [fst snd].
  rewrite count_digits_all_digits by exact H.
  destruct (N.ltb_spec py_max_str_digits (N.of_nat (length s))); [lia|].
  rewrite digits_us_digits by (try exact H; rewrite E; discriminate). reflexivity.
Qed.
