(* Proofs/GenericNs.v — XmlVar.match_namespace over the namespaces produced by
   XmlVarBuilder.resolve_namespaces, against the XML Schema rule "wildcard allows
   namespace name" (Spec.Infoset.xsd_allows). *)
From Coq Require Import NArith ZArith List Bool Lia.
From XV Require Import Base.Str Base.Eqb Base.PyInt Gen.GenericTables Spec.Infoset Model.Generic.
Import ListNotations.
Open Scope N_scope.

(* a namespace name as it can occur in a Clark name and in wildcard metadata *)
Definition wf_uri (u : str) : bool :=
  match u with
  | [] => false
  | c :: _ => negb (N.eqb c 33) && negb (N.eqb c 35) && negb (mem 125 u)
  end.
Definition wf_ouri (o : option str) : bool := match o with Some u => wf_uri u | None => true end.
Definition wf_local (l : str) : bool := match l with [] => false | c :: _ => negb (N.eqb c 123) end.

Definition qname_of (uri : option str) (local : str) : str :=
  match uri with Some u => 123 :: u ++ 125 :: local | None => local end.

(* one clause per refutation below *)
Definition kw_ok (target uri : option str) (k : nskw) : bool :=
  match k with
  | KOther => match uri with None => false | Some _ => true end
  | KTarget => match target with Some (_ :: _) => true | _ => false end
  | KUri u => wf_uri u
  | _ => true
  end.

Lemma partition_first c u r : mem c u = false -> partition_chr c (u ++ c :: r) = (u, true, r).
Proof.
  induction u as [|x u IH]; cbn; intros H.
  - rewrite N.eqb_refl. reflexivity.
  - apply orb_false_iff in H as [H1 H2]. rewrite N.eqb_sym, H1. rewrite (IH H2). reflexivity.
Qed.

Lemma target_uri_qname uri local :
  wf_ouri uri = true -> wf_local local = true -> target_uri (qname_of uri local) = uri.
Proof.
  unfold target_uri, split_qname, qname_of. intros Hu Hl.
  destruct uri as [u|].
  - cbn in Hu. destruct u as [|c u]; [discriminate|].
    apply andb_true_iff in Hu as [_ Hm]. apply negb_true_iff in Hm.
    unfold text_split. rewrite (partition_first 125 (c :: u) local Hm).
    destruct local; [discriminate|]. reflexivity.
  - destruct local as [|c l]; [discriminate|]. cbn in Hl. apply negb_true_iff in Hl.
    destruct c as [|p]; [reflexivity|].
    repeat (destruct p as [p|p|]; try reflexivity); cbn in Hl; discriminate.
Qed.

Lemma any_kw_head : any_ns_kw = 35 :: tl any_ns_kw.
Proof. vm_compute. reflexivity. Qed.

Lemma str_eqb_head_ne c s d t : N.eqb c d = false -> str_eqb (c :: s) (d :: t) = false.
Proof. intros H. cbn. rewrite H. reflexivity. Qed.

Lemma wf_uri_not_any u : wf_uri u = true -> str_eqb u any_ns_kw = false.
Proof.
  destruct u as [|c u]; [discriminate|]. intros H. cbn in H.
  apply andb_true_iff in H as [H _]. apply andb_true_iff in H as [_ H]. apply negb_true_iff in H.
  rewrite any_kw_head. cbn [str_eqb]. rewrite H. reflexivity.
Qed.

Lemma wf_uri_head u : wf_uri u = true -> exists c r, u = c :: r /\ N.eqb c 33 = false.
Proof.
  destruct u as [|c u]; [discriminate|]. intros H. cbn in H.
  apply andb_true_iff in H as [H _]. apply andb_true_iff in H as [H _]. apply negb_true_iff in H.
  exists c, u. split; [reflexivity|exact H].
Qed.

Lemma str_eqb_sym0 a b : str_eqb a b = str_eqb b a.
Proof.
  destruct (str_eqb_spec a b) as [->|Hn].
  - symmetry. apply str_eqb_refl.
  - destruct (str_eqb_spec b a) as [->|_]; [congruence|reflexivity].
Qed.

Lemma opt_str_eqb_sym a b : opt_eqb str_eqb a b = opt_eqb str_eqb b a.
Proof.
  destruct a as [a|], b as [b|]; cbn; try reflexivity.
  destruct (str_eqb_spec a b) as [->|Hn].
  - symmetry. apply str_eqb_refl.
  - destruct (str_eqb_spec b a) as [->|_]; [congruence|reflexivity].
Qed.

Lemma not_bang c (t : str) (uri : option str) :
  N.eqb c 33 = false ->
  (match c :: t with 33 :: rest => negb (opt_eqb str_eqb (Some rest) uri) | _ => false end) = false.
Proof.
  intros H. destruct c as [|p]; [reflexivity|].
  repeat (destruct p as [p|p|]; try reflexivity); cbn in H; discriminate.
Qed.

Lemma ns_check_kw target uri k :
  wf_ouri target = true -> wf_ouri uri = true -> kw_ok target uri k = true ->
  ns_check uri (resolve_kw target k) = xsd_allows_kw target k uri.
Proof.
  intros Ht Hu Hk. destruct k as [ | | | |u]; unfold ns_check.
  - (* ##any *) cbn [resolve_kw xsd_allows_kw]. rewrite str_eqb_refl. rewrite !orb_true_r. reflexivity.
  - (* ##other *)
    destruct uri as [v|]; [|discriminate Hk].
    cbn [resolve_kw xsd_allows_kw]. cbn in Hu.
    destruct (wf_uri_head v Hu) as (c & r & -> & Hc).
    assert (E1 : str_eqb (33 :: match target with Some t => t | None => [] end) (c :: r) = false).
    { cbn [str_eqb]. rewrite (N.eqb_sym 33 c), Hc. reflexivity. }
    assert (E2 : str_eqb (33 :: match target with Some t => t | None => [] end) any_ns_kw = false).
    { rewrite any_kw_head. reflexivity. }
    cbn [opt_eqb]. rewrite E1, E2. cbn [orb].
    destruct target as [t|]; cbn [opt_eqb].
    + rewrite (str_eqb_sym0 t (c :: r)). reflexivity.
    + reflexivity.
  - (* ##local *)
    cbn [resolve_kw xsd_allows_kw].
    destruct uri as [v|]; [|reflexivity].
    cbn in Hu. destruct v as [|c r]; [discriminate|]. reflexivity.
  - (* ##targetNamespace *)
    destruct target as [[|c t]|]; try discriminate Hk.
    cbn [resolve_kw xsd_allows_kw]. cbn in Ht.
    rewrite (wf_uri_not_any (c :: t) Ht).
    destruct (wf_uri_head (c :: t) Ht) as (c' & r' & E & Hc). inversion E; subst c' r'.
    rewrite (not_bang c t uri Hc).
    destruct uri as [v|]; cbn [opt_eqb orb]; rewrite ?orb_false_r; [apply str_eqb_sym0 | reflexivity].
  - (* a namespace name *)
    cbn [resolve_kw xsd_allows_kw]. cbn in Hk.
    rewrite (wf_uri_not_any u Hk).
    destruct (wf_uri_head u Hk) as (c & r & -> & Hc). rewrite (not_bang c r uri Hc).
    destruct uri as [v|]; cbn [opt_eqb orb]; rewrite ?orb_false_r; reflexivity.
Qed.

(* C11: the four keywords (and explicit namespace names) mean what XML Schema says,
   except that ##other admits unqualified names and that ##targetNamespace of a
   class without a namespace admits everything (the two kw_ok clauses) *)
Theorem match_namespace_spec target ks uri local :
  ks <> [] ->
  wf_ouri target = true -> wf_ouri uri = true -> wf_local local = true ->
  forallb (kw_ok target uri) ks = true ->
  match_namespace (map (resolve_kw target) ks) (qname_of uri local) = xsd_allows target ks uri.
Proof.
  intros Hne Ht Hu Hl Hk. unfold match_namespace, xsd_allows.
  rewrite (target_uri_qname uri local Hu Hl).
  assert (E : existsb (ns_check uri) (map (resolve_kw target) ks) = existsb (fun k => xsd_allows_kw target k uri) ks).
  { clear Hne. induction ks as [|k ks IH]; [reflexivity|].
    cbn in Hk. apply andb_true_iff in Hk as [Hk1 Hk2].
    cbn [map existsb]. rewrite (ns_check_kw target uri k Ht Hu Hk1), (IH Hk2). reflexivity. }
  destruct ks as [|k ks]; [congruence|]. cbn [map]. cbn [map] in E.
  destruct uri; exact E.
Qed.

(* the two refuted clauses, on the model *)
Lemma match_namespace_other_refuted :
  exists target ks uri local,
    wf_ouri target = true /\ wf_ouri uri = true /\ wf_local local = true /\
    match_namespace (map (resolve_kw target) ks) (qname_of uri local) <> xsd_allows target ks uri.
Proof.
  exists (Some [117;114;110;58;97]), [KOther], None, [97].
  repeat split; try reflexivity. vm_compute. discriminate.
Qed.

Lemma match_namespace_target_refuted :
  exists target ks uri local,
    wf_ouri target = true /\ wf_ouri uri = true /\ wf_local local = true /\
    match_namespace (map (resolve_kw target) ks) (qname_of uri local) <> xsd_allows target ks uri.
Proof.
  exists None, [KTarget], (Some [117;114;110;58;98]), [97].
  repeat split; try reflexivity. vm_compute. discriminate.
Qed.

Example match_namespace_guard_nonvacuous :
  forallb (kw_ok (Some [117;114;110;58;97]) (Some [117;114;110;58;98])) [KOther; KLocal; KTarget; KUri [117;114;110;58;99]] = true.
Proof. vm_compute. reflexivity. Qed.
