(* Proofs/Pycode.v — C18: the emitted imports resolve every name, and the rendered
   expression evaluates back to an object equal to the original (inside the guard);
   refutation witnesses for each guard clause. *)
From Coq Require Import NArith ZArith List Bool Lia String.
From XV Require Import Base.Str Base.Eqb Spec.PyEval Model.Pycode
  Proofs.PycodeBase Proofs.PycodeEq Proofs.PycodeEval.
Import ListNotations.
Notation length := List.length.

(* ---------------------------------------------------------------- sorted(set(lines)) *)
Lemma str_ltb_tri a : forall b, str_ltb a b = false -> str_ltb b a = false -> a = b.
Proof.
  induction a as [|x a IH]; intros [|y b]; cbn; try discriminate; [reflexivity|].
  destruct (N.ltb_spec x y) as [Hxy|Hxy]; [discriminate|].
  destruct (N.ltb_spec y x) as [Hyx|Hyx]; [discriminate|].
  intros H1 H2. assert (x = y) by lia. subst. f_equal. apply IH; assumption.
Qed.

Lemma nospace_split a : forall a' r r',
  nospace a = true -> nospace a' = true -> a ++ 32%N :: r = a' ++ 32%N :: r' -> a = a' /\ r = r'.
Proof.
  induction a as [|c a IH]; intros [|c' a'] r r' Ha Ha' E; cbn in *.
  - inversion E. auto.
  - inversion E; subst. apply andb_true_iff in Ha' as [Hc _]. discriminate Hc.
  - inversion E; subst. apply andb_true_iff in Ha as [Hc _]. discriminate Hc.
  - inversion E; subst. apply andb_true_iff in Ha as [_ Ha]. apply andb_true_iff in Ha' as [_ Ha'].
    destruct (IH _ _ _ Ha Ha' H1) as [-> ->]. auto.
Qed.

Lemma import_text_inj p q :
  nospace (fst p) = true -> nospace (fst q) = true -> import_text p = import_text q -> p = q.
Proof.
  destruct p as [m [n|]], q as [m' [n'|]]; unfold import_text; cbn [fst snd]; intros Hp Hq E.
  - apply app_inv_head in E.
    change (lit " import ") with (32%N :: lit "import ") in E.
    cbn [app] in E. destruct (nospace_split _ _ _ _ Hp Hq E) as [-> E'].
    apply app_inv_head in E'. apply app_inv_tail in E'. subst. reflexivity.
  - change (lit "from ") with (102%N :: lit "rom ") in E.
    change (lit "import ") with (105%N :: lit "mport ") in E. cbn [app] in E. discriminate E.
  - change (lit "from ") with (102%N :: lit "rom ") in E.
    change (lit "import ") with (105%N :: lit "mport ") in E. cbn [app] in E. discriminate E.
  - apply app_inv_head in E. apply app_inv_tail in E. subst. reflexivity.
Qed.

Lemma ins_line_in p l x : In x (ins_line p l) -> x = p \/ In x l.
Proof.
  induction l as [|q r IH]; cbn [ins_line].
  - intros [<-|[]]. auto.
  - destruct (str_ltb (import_text p) (import_text q)).
    + intros [<-|[<-|H]]; cbn [In]; auto.
    + destruct (str_ltb (import_text q) (import_text p)).
      * intros [<-|H]; cbn [In]; [auto|]. destruct (IH H); auto.
      * intros [<-|H]; cbn [In]; auto.
Qed.

Definition ns_line (p : import_line) : Prop := nospace (fst p) = true.

Lemma ins_line_in_rev p l x :
  ns_line p -> Forall ns_line l -> x = p \/ In x l -> In x (ins_line p l).
Proof.
  intros Hp Hl. induction Hl as [|q r Hq Hr IH]; cbn [ins_line].
  - intros [->|[]]. left. reflexivity.
  - destruct (str_ltb (import_text p) (import_text q)) eqn:E1.
    + intros [->|[->|H]]; cbn [In]; auto.
    + destruct (str_ltb (import_text q) (import_text p)) eqn:E2.
      * intros [->|[->|H]]; cbn [In]; auto.
      * assert (p = q) by (apply import_text_inj; try assumption; apply str_ltb_tri; assumption).
        subst. intros [->|[->|H]]; cbn [In]; auto.
Qed.

Lemma sort_lines_in l x : In x (sort_lines l) -> In x l.
Proof.
  unfold sort_lines. induction l as [|p r IH]; cbn [fold_right In]; [tauto|].
  intros H. apply ins_line_in in H as [->|H]; auto.
Qed.

Lemma sort_lines_ns l : Forall ns_line l -> Forall ns_line (sort_lines l).
Proof.
  intros H. apply Forall_forall. intros x Hx. apply sort_lines_in in Hx.
  rewrite Forall_forall in H. auto.
Qed.

Lemma sort_lines_in_rev l x : Forall ns_line l -> In x l -> In x (sort_lines l).
Proof.
  induction 1 as [|p r Hp Hr IH]; cbn [In]; [tauto|].
  intros Hx. change (sort_lines (p :: r)) with (ins_line p (sort_lines r)).
  apply ins_line_in_rev; [exact Hp|apply sort_lines_ns; exact Hr|].
  destruct Hx as [->|Hx]; auto.
Qed.

(* ---------------------------------------------------------------- the namespace *)
Lemma env_lookup_in E n b :
  env_lookup E n = Some b -> exists p, In p E /\ bound_name p = n /\ b = (fst p, is_from p).
Proof.
  induction E as [|p r IH]; cbn [env_lookup]; [discriminate|].
  destruct (env_lookup r n) as [b'|].
  - intros H. inversion H; subst. destruct (IH eq_refl) as [p' [Hin Hp']].
    exists p'. split; [right; exact Hin|exact Hp'].
  - destruct (str_eqb_spec (bound_name p) n) as [<-|Hn]; [|discriminate].
    intros H. inversion H. exists p. split; [left; reflexivity|split; reflexivity].
Qed.

Lemma env_lookup_some E p : In p E -> exists b, env_lookup E (bound_name p) = Some b.
Proof.
  induction E as [|q r IH]; cbn [env_lookup In]; [tauto|].
  intros [H|H].
  - subst q. destruct (env_lookup r (bound_name p)); [eauto|]. rewrite str_eqb_refl. eauto.
  - destruct (IH H) as [b ->]. eauto.
Qed.

Lemma import_pair_fst c : fst (import_pair c) = fst c.
Proof. unfold import_pair. destruct (str_eqb (fst c) m_stdlib_datetime); reflexivity. Qed.

(* ---------------------------------------------------------------- types *)
Lemma types_in W v u c : In u (subs W v) -> type_of u = Some c -> In c (types W v).
Proof.
  intros Hu Hc. unfold types. apply in_flat_map. exists u. split; [exact Hu|]. rewrite Hc. left. reflexivity.
Qed.

Lemma types_inv W v c : In c (types W v) -> exists u, In u (subs W v) /\ type_of u = Some c.
Proof.
  unfold types. intros H. apply in_flat_map in H as [u [Hu Hc]].
  exists u. split; [exact Hu|]. destruct (type_of u); [|destruct Hc].
  destruct Hc as [->|[]]. reflexivity.
Qed.

Lemma type_nospace W u c : wf_local W u = true -> type_of u = Some c -> nospace (fst c) = true.
Proof.
  intros Hwf Hc.
  destruct u; try discriminate Hc; cbn [type_of] in Hc;
    try (inversion Hc; subst; reflexivity);
    try (destruct k; inversion Hc; subst; reflexivity).
  - inversion Hc; subst. cbn [wf_local] in Hwf. apply andb_true_iff in Hwf as [_ H]. exact H.
  - inversion Hc; subst. cbn [wf_local] in Hwf. apply andb_true_iff in Hwf as [_ H]. exact H.
  - inversion Hc; subst. cbn [wf_local] in Hwf. destruct (find_data W c); [|discriminate Hwf].
    apply andb_true_iff in Hwf as [_ H]. exact H.
Qed.

Lemma pairs_ns W v : wf W v = true -> Forall ns_line (map import_pair (types W v)).
Proof.
  intros Hwf. apply Forall_forall. intros p Hp. apply in_map_iff in Hp as [c [<- Hc]].
  apply types_inv in Hc as [u [Hu Hc]]. unfold ns_line. rewrite import_pair_fst.
  unfold wf in Hwf. rewrite forallb_forall in Hwf. eapply type_nospace; [apply Hwf; exact Hu|exact Hc].
Qed.

(* G3 gives: every visited type's top-level name is bound to its own module *)
Lemma imports_resolve W v :
  wf W v = true -> g_imports W v = true ->
  forall u, In u (subs W v) -> resolves (env_of_imports (imports W v)) u.
Proof.
  intros Hwf Hg u Hu. unfold resolves. destruct (type_of u) as [c|] eqn:Hc; [|exact I].
  assert (Hin : In (import_pair c) (map import_pair (types W v))).
  { apply in_map. eapply types_in; eauto. }
  assert (Hin' : In (import_pair c) (imports W v)).
  { unfold imports. apply sort_lines_in_rev; [apply pairs_ns; exact Hwf|exact Hin]. }
  unfold env_of_imports.
  destruct (env_lookup_some _ _ Hin') as [b Hb]. rewrite Hb. f_equal.
  destruct (env_lookup_in _ _ _ Hb) as [p' [Hp' [Hname ->]]].
  unfold imports in Hp'. apply sort_lines_in in Hp'.
  unfold g_imports, g_names in Hg. rewrite forallb_forall in Hg.
  specialize (Hg _ Hp'). apply andb_true_iff in Hg as [_ Hg]. rewrite forallb_forall in Hg.
  specialize (Hg _ Hin). unfold pair_compatible in Hg.
  rewrite Hname, str_eqb_refl in Hg. cbn [negb orb] in Hg.
  apply andb_true_iff in Hg as [Hf Hk]. apply str_eqb_true in Hf. apply eqb_prop in Hk.
  rewrite Hf, Hk, import_pair_fst. reflexivity.
Qed.

Lemma imports_builtins_free W v :
  g_imports W v = true -> builtins_free (env_of_imports (imports W v)).
Proof.
  intros Hg n Hn. unfold env_of_imports. destruct (env_lookup (imports W v) n) as [b|] eqn:E; [|reflexivity].
  destruct (env_lookup_in _ _ _ E) as [p [Hp [Hname _]]]. unfold imports in Hp. apply sort_lines_in in Hp.
  unfold g_imports, g_names in Hg. rewrite forallb_forall in Hg.
  specialize (Hg _ Hp). apply andb_true_iff in Hg as [Hg _]. rewrite Hname, Hn in Hg. discriminate Hg.
Qed.

(* ---------------------------------------------------------------- the theorem *)
Lemma forallb_In {A} (f : A -> bool) l x : forallb f l = true -> In x l -> f x = true.
Proof. intros H Hx. rewrite forallb_forall in H. auto. Qed.

Theorem pycode_evals_back W o :
  wf W o = true -> guard W o = true ->
  exists o', eval W (env_of_imports (imports W o)) (repr W o) = Some o' /\ veq true o' o = true.
Proof.
  intros Hwf Hg. unfold guard in Hg.
  apply andb_true_iff in Hg as [Himp Hinit].
  exists (norm W o). split.
  - apply eval_repr_norm; [apply imports_builtins_free; exact Himp|].
    intros u Hu. unfold ok1. split.
    + eapply forallb_In; [exact Hwf|exact Hu].
    + apply imports_resolve; assumption.
  - apply veq_norm. intros u Hu. unfold ok2. repeat split.
    + eapply forallb_In; [exact Hwf|exact Hu].
    + eapply forallb_In; [exact Hinit|exact Hu].
Qed.

Corollary pycode_roundtrip W o : wf W o = true -> guard W o = true -> roundtrip W o = true.
Proof.
  intros Hwf Hg. destruct (pycode_evals_back W o Hwf Hg) as [o' [He Hv]].
  unfold roundtrip, exec_back. rewrite He. exact Hv.
Qed.

(* ---------------------------------------------------------------- imports are sufficient *)
Definition heads_kws : list (str * pyexpr) -> list str :=
  fix gk (l : list (str * pyexpr)) : list str :=
    match l with [] => [] | (_, x) :: r => heads x ++ gk r end.
Definition heads_pairs : list (pyexpr * pyexpr) -> list str :=
  fix go (l : list (pyexpr * pyexpr)) : list str :=
    match l with [] => [] | (k, x) :: r => heads k ++ heads x ++ go r end.
Lemma heads_ECall f args kws :
  heads (ECall f args kws) = (match f with n :: _ => [n] | [] => [] end) ++ flat_map heads args ++ heads_kws kws.
Proof. reflexivity. Qed.
Lemma heads_EDict kv : heads (EDict kv) = heads_pairs kv.
Proof. reflexivity. Qed.

Definition gh (W : world) (u : value) : bool := wf_local W u.

Definition named (W : world) (v : value) (n : str) : Prop :=
  is_builtin n = true \/ exists u c, In u (subs W v) /\ type_of u = Some c /\ bound_name (import_pair c) = n.

Lemma import_pair_from c :
  str_eqb (fst c) m_stdlib_datetime = false -> bound_name (import_pair c) = hd [] (snd c).
Proof. intros H. unfold import_pair. rewrite H. reflexivity. Qed.

Lemma heads_map_EInt l : flat_map heads (map EInt l) = [].
Proof. induction l; cbn; auto. Qed.

Lemma heads_scalar W v n :
  is_container v = false -> gh W v = true -> In n (heads (repr W v)) -> named W v n.
Proof.
  intros Hc Hwf Hn. unfold gh in Hwf.
  assert (Self : forall c, type_of v = Some c -> bound_name (import_pair c) = n -> named W v n).
  { intros c H1 H2. right. exists v, c. split; [apply subs_self|auto]. }
  destruct v; try discriminate Hc; cbn [repr] in Hn; try (cbn in Hn; destruct Hn; fail).
  - (* float *) destruct (fl_isfinite bits); [destruct Hn|].
    rewrite heads_ECall in Hn. cbn [flat_map heads heads_kws app] in Hn.
    destruct Hn as [<-|[]]. left. reflexivity.
  - (* decimal *) rewrite heads_ECall in Hn. cbn [flat_map heads heads_kws app] in Hn.
    destruct Hn as [<-|[]]. eapply Self; reflexivity.
  - (* qname *) rewrite heads_ECall in Hn. cbn [flat_map heads heads_kws app] in Hn.
    destruct Hn as [<-|[]]. eapply Self; reflexivity.
  - (* xml *) rewrite heads_ECall, heads_map_EInt in Hn. cbn [heads_kws app] in Hn. destruct Hn as [<-|[]].
    eapply Self; reflexivity.
  - rewrite heads_ECall in Hn. unfold raw_dq in Hn.
    destruct (dq_safe d); cbn [flat_map heads heads_kws app] in Hn;
      destruct Hn as [<-|[]]; eapply Self; reflexivity.
  - rewrite heads_ECall in Hn. unfold raw_dq in Hn.
    destruct (dq_safe d); cbn [flat_map heads heads_kws app] in Hn;
      destruct Hn as [<-|[]]; eapply Self; reflexivity.
  - (* stdlib datetime *) rewrite heads_ECall, heads_map_EInt in Hn. cbn [heads_kws app] in Hn.
    destruct Hn as [<-|[]]. eapply Self; reflexivity.
  - (* enum *) destruct c as [md q]. cbn [wf_local snd fst] in Hwf.
    apply andb_true_iff in Hwf as [Hwf _]. apply andb_true_iff in Hwf as [Hwf Hdt].
    apply andb_true_iff in Hwf as [_ Hq]. apply negb_true_iff in Hdt.
    destruct q as [|x q]; [discriminate Hq|]. cbn [snd app heads] in Hn. destruct Hn as [<-|[]].
    eapply Self; [reflexivity|]. rewrite import_pair_from by exact Hdt. reflexivity.
  - (* unnamed flag value *) destruct c as [md q]. cbn [wf_local snd fst] in Hwf.
    apply andb_true_iff in Hwf as [Hwf _]. apply andb_true_iff in Hwf as [Hwf Hdt].
    apply andb_true_iff in Hwf as [_ Hq]. apply negb_true_iff in Hdt.
    destruct q as [|x q]; [discriminate Hq|].
    rewrite heads_ECall in Hn. cbn [snd flat_map heads heads_kws app] in Hn. destruct Hn as [<-|[]].
    eapply Self; [reflexivity|]. rewrite import_pair_from by exact Hdt. reflexivity.
Qed.

Lemma named_mono W v v' n :
  (forall u, In u (subs W v) -> In u (subs W v')) -> named W v n -> named W v' n.
Proof. intros Hs [Hb|[u [c [Hu Hc]]]]; [left; exact Hb|right; exists u, c; split; auto]. Qed.

Lemma heads_list W (Q : value -> Prop) l n :
  Forall (fun x => (forall u, In u (subs W x) -> gh W u = true) ->
                   forall n, In n (heads (repr W x)) -> named W x n) l ->
  (forall u, In u (flat_map (subs W) l) -> gh W u = true) ->
  In n (flat_map heads (map (repr W) l)) ->
  exists x, In x l /\ named W x n.
Proof.
  intros HF Hen Hn. apply in_flat_map in Hn as [e [He Hn]]. apply in_map_iff in He as [x [<- Hx]].
  exists x. split; [exact Hx|]. rewrite Forall_forall in HF. apply (HF x Hx); [|exact Hn].
  intros u Hu. apply Hen. eapply subs_list_in; eauto.
Qed.

Lemma heads_repr W :
  forall v, (forall u, In u (subs W v) -> gh W u = true) ->
  forall n, In n (heads (repr W v)) -> named W v n.
Proof.
  induction v using value_ind'; intros Hen n Hn.
  - apply heads_scalar; [assumption|apply Hen; apply subs_self|exact Hn].
  - cbn [repr heads] in Hn.
    destruct (heads_list W (fun _ => True) l n H) as [x [Hx Hnm]];
      [intros u Hu; apply Hen; cbn; right; exact Hu|exact Hn|].
    eapply named_mono; [|exact Hnm]. intros u Hu. eapply subs_VList_in; eauto.
  - cbn [repr heads] in Hn.
    destruct (heads_list W (fun _ => True) l n H) as [x [Hx Hnm]];
      [intros u Hu; apply Hen; cbn; right; exact Hu|exact Hn|].
    eapply named_mono; [|exact Hnm]. intros u Hu. eapply subs_VTuple_in; eauto.
  - cbn [repr] in Hn. destruct l as [|y l].
    + rewrite heads_ECall in Hn. cbn in Hn. destruct Hn as [<-|[]]. left. destruct f; reflexivity.
    + assert (Hn' : In n (flat_map heads (map (repr W) (y :: l))) \/ is_builtin n = true).
      { destruct f.
        - rewrite heads_ECall in Hn. cbn [flat_map heads_kws app heads] in Hn.
          destruct Hn as [<-|Hn]; [right; reflexivity|]. rewrite !app_nil_r in Hn. left. exact Hn.
        - cbn [heads] in Hn. left. exact Hn. }
      destruct Hn' as [Hn'|Hb]; [|left; exact Hb].
      destruct (heads_list W (fun _ => True) (y :: l) n H) as [x [Hx Hnm]];
        [intros u Hu; apply Hen; cbn; right; exact Hu|exact Hn'|].
      eapply named_mono; [|exact Hnm]. intros u Hu. eapply subs_VSet_in; eauto.
  - rewrite repr_VDict, heads_EDict in Hn.
    assert (Hen' : forall u, In u (subs_pairs W kv) -> gh W u = true)
      by (intros u Hu; apply Hen; rewrite subs_VDict; right; exact Hu).
    assert (X : exists k x, In (k, x) kv /\ (named W k n \/ named W x n)).
    { clear Hen. induction H as [|[k x] r [Hk Hx] Hr IH]; cbn in Hn; [destruct Hn|].
      cbn [fst snd] in Hk, Hx. cbn [subs_pairs] in Hen'.
      apply in_app_or in Hn as [Hn|Hn]; [|apply in_app_or in Hn as [Hn|Hn]].
      - exists k, x. split; [left; reflexivity|left].
        apply Hk; [|exact Hn]. intros u Hu. apply Hen'. apply in_or_app. left. exact Hu.
      - exists k, x. split; [left; reflexivity|right].
        apply Hx; [|exact Hn]. intros u Hu. apply Hen'. apply in_or_app. right. apply in_or_app. left. exact Hu.
      - destruct IH as [k' [x' [Hin Hnm]]]; [exact Hn| |].
        + intros u Hu. apply Hen'. apply in_or_app. right. apply in_or_app. right. exact Hu.
        + exists k', x'. split; [right; exact Hin|exact Hnm]. }
    destruct X as [k [x [Hin [Hnm|Hnm]]]]; (eapply named_mono; [|exact Hnm]);
      intros u Hu; rewrite subs_VDict; right; eapply subs_pairs_in; eauto.
  - rewrite repr_VObj in Hn. destruct (find_data W c) as [fds|] eqn:Ef; [|destruct Hn].
    rewrite heads_ECall in Hn. cbn [flat_map app] in Hn.
    apply in_app_or in Hn as [Hn|Hn].
    + right. exists (VObj c fs), c. split; [apply subs_self|]. split; [reflexivity|].
      pose proof (Hen (VObj c fs) (subs_self _ _)) as Hwf. unfold gh in Hwf. cbn [wf_local] in Hwf.
      rewrite Ef in Hwf. apply andb_true_iff in Hwf as [Hwf _]. apply andb_true_iff in Hwf as [_ Hdt].
      apply negb_true_iff in Hdt. rewrite import_pair_from by exact Hdt.
      destruct (snd c) as [|x q]; [destruct Hn|]. destruct Hn as [<-|[]]. reflexivity.
    + assert (Hen' : forall u, In u (subs_fields W fds fs) -> gh W u = true)
        by (intros u Hu; apply Hen; rewrite subs_VObj, Ef; right; exact Hu).
      assert (X : exists u c0, In u (subs_fields W fds fs) /\ type_of u = Some c0 /\ bound_name (import_pair c0) = n
                  \/ is_builtin n = true).
      { clear Hen Ef. revert fds Hn Hen'. induction H as [|[m x] r Hx Hr IH]; intros fds Hn Hen'.
        - destruct fds; destruct Hn.
        - destruct fds as [|fd fds]; [destruct Hn|]. cbn [repr_fields subs_fields] in *. cbn [snd] in Hx.
          destruct (printed fd x).
          + cbn [heads_kws] in Hn. apply in_app_or in Hn as [Hn|Hn].
            * destruct (Hx (fun u Hu => Hen' u (in_or_app _ _ _ (or_introl Hu))) n Hn) as [Hb|[u [c0 [Hu Hc]]]].
              -- exists VNone, ([], []). right. exact Hb.
              -- exists u, c0. left. split; [apply in_or_app; left; exact Hu|exact Hc].
            * destruct (IH fds Hn (fun u Hu => Hen' u (in_or_app _ _ _ (or_intror Hu)))) as [u [c0 [[Hu Hc]|Hb]]].
              -- exists u, c0. left. split; [apply in_or_app; right; exact Hu|exact Hc].
              -- exists u, c0. right. exact Hb.
          + apply IH; assumption. }
      destruct X as [u [c0 [[Hu Hc]|Hb]]]; [|left; exact Hb].
      right. exists u, c0. split; [rewrite subs_VObj, Ef; right; exact Hu|exact Hc].
Qed.

Theorem imports_sufficient W o :
  wf W o = true ->
  forall n, In n (heads (repr W o)) ->
  is_builtin n = true \/ exists p, In p (imports W o) /\ bound_name p = n.
Proof.
  intros Hwf n Hn.
  assert (Hgh : forall u, In u (subs W o) -> gh W u = true).
  { intros u Hu. unfold gh. exact (forallb_In _ _ _ Hwf Hu). }
  destruct (heads_repr W o Hgh n Hn) as [Hb|[u [c [Hu [Hc Hh]]]]];
    [left; exact Hb|].
  right. exists (import_pair c). split; [|exact Hh].
  unfold imports. apply sort_lines_in_rev; [apply pairs_ns; exact Hwf|].
  apply in_map. eapply types_in; eauto.
Qed.
