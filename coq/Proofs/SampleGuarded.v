(* Proofs/SampleGuarded.v — nillable is merged over the group (fix 359d494): proved without side condition;
   the namespace is still taken from group[0]: refuted on the faithful model, proved under a uniformity guard. *)
From Coq Require Import NArith ZArith List Bool Lia.
From XV Require Import Base.Str Base.Eqb Gen.SampleTables Model.Sample Model.SampleCorr
  Proofs.SampleBase Proofs.SampleReduce Proofs.SampleBuild Proofs.SampleFit.
Import ListNotations.
Open Scope N_scope.

Lemma uniform_by_spec {A} (f : fclass -> A) (eqb : A -> A -> bool) all :
  (forall x y, eqb x y = true -> x = y) ->
  uniform_by f eqb all = true -> forall c d, In c all -> In d all -> c_qname c = c_qname d -> f c = f d.
Proof.
  intros He H c d Hc Hd Eq. unfold uniform_by in H. rewrite forallb_forall in H. specialize (H c Hc).
  rewrite forallb_forall in H. specialize (H d Hd). rewrite Eq, str_eqb_refl in H. cbn in H. apply He. exact H.
Qed.

Lemma node_class_fields cv p m :
  c_qname (node_class cv p m) = class_qname p m /\ c_ns (node_class cv p m) = class_ns p m
  /\ c_nillable (node_class cv p m) = nil_flag (t_atts m) false.
Proof.
  unfold node_class. destruct (build_class_spec cv m p) as [mixed [nilb [attrs [E [_ [_ En]]]]]]. rewrite E. cbn. auto.
Qed.

Theorem nil_fit : forall cv (S : list tree), forallb (tree_nil_ok (classes_of_xml cv S)) S = true.
Proof.
  intros cv S. apply forallb_forall. intros t Ht. unfold tree_nil_ok, classes_of_xml.
  apply (for_all_class_nodes cv S); [|exact Ht]. intros p m Hin.
  destruct (reduce_classes_spec _ (all_nodup cv _ (all_of_samples cv S)) _ Hin) as [r [Fr [_ [_ [_ [_ [_ [_ Nr]]]]]]]].
  destruct (node_class_fields cv p m) as [Q [_ N]]. rewrite Q in Fr. unfold node_nil_ok. rewrite Fr.
  rewrite N in Nr. unfold xsi_nil_of, nil_flag in *. destruct (find _ (rev (t_atts m))) as [[k v]|]; [|reflexivity].
  destruct (is_nil_true v); [|apply orb_true_r]. rewrite (Nr eq_refl). reflexivity.
Qed.

Theorem ns_fit : forall cv (S : list tree),
  g_ns_uniform cv S = true -> forallb (doc_ns_ok (classes_of_xml cv S)) S = true.
Proof.
  intros cv S G. apply forallb_forall. intros t Ht. unfold doc_ns_ok, classes_of_xml.
  apply (for_all_class_nodes cv S); [|exact Ht]. intros p m Hin.
  destruct (reduce_classes_spec _ (all_nodup cv _ (all_of_samples cv S)) _ Hin) as [r [Fr [_ [_ [_ [_ [_ [[f [Hf [Qf Nf]]] _]]]]]]]].
  destruct (node_class_fields cv p m) as [Q [N _]]. rewrite Q in Fr. unfold node_ns_ok. rewrite Fr.
  apply ostr_eqb_eq. rewrite Nf, <- N. eapply (uniform_by_spec c_ns ostr_eqb); eauto. intros x y. apply ostr_eqb_eq.
Qed.

(* ------------------------------------------------------------------ refutations *)
Definition s (x : list N) : str := x.
Definition XSI_NIL_Q := qn_xsi_nil.
Definition no_tests : sconv := sconv_of_table [].

(* <r><p xmlns="urn:b"><k xmlns="" a="1"/></p><q><k a="2"><t>2</t></k></q></r> :
   the merged class of k has namespace None, the node below p has class namespace "" *)
Definition urn_b : str := [117;114;110;58;98].
Definition w_ns : list tree :=
  [T [114] [] None None
     [T ([123] ++ urn_b ++ [125;112]) [] None None [T [107] [([97], [49])] None None []];
      T [113] [] None None [T [107] [([97], [50])] None None [T [116] [] (Some [50]) None []]]]].

Theorem ns_fit_refuted : exists cv S, forallb (doc_ns_ok (classes_of_xml cv S)) S = false.
Proof. exists no_tests, w_ns. vm_compute. reflexivity. Qed.

(* the guards are not vacuous: a nil element, several namespaces *)
Definition w_guard_ok : list tree :=
  [T ([123] ++ urn_b ++ [125;114]) [] None None
     [T [110] [([97], [49]); (XSI_NIL_Q, [116;114;117;101])] None None [];
      T ([123] ++ urn_b ++ [125;109]) [([97], [50])] (Some [53]) None []]].

Example guards_nonvacuous :
  g_ns_uniform no_tests w_guard_ok = true
  /\ existsb (fun t => existsb (fun k => match xsi_nil_of k with Some true => true | _ => false end) (t_kids t)) w_guard_ok = true.
Proof. vm_compute. auto. Qed.

(* ------------------------------------------------------------------ the other clauses of `regular`:
   statements about the merged classes that the faithful model falsifies (each witness also fails on the
   real code: harness/c13.py WITNESSES).  No unbounded theorem is claimed under these clauses; they are
   evaluated per document. *)
From Coq Require Import String.
Local Open Scope string_scope.
Definition L (x : String.string) : str := lit x.
Definition leaf (q : String.string) (v : String.string) : tree := T (L q) [] (Some (L v)) None [].
Definition raw_of (cv : sconv) (S : list tree) := reduce_classes_raw (List.concat (List.map (map_tree cv) S)).

(* <r><c/></r>, <r><c a="1"><d>x</d></c></r> : the empty c is an anySimpleType leaf, the other one a class with
   two required parts *)
Definition w_empty : list tree :=
  [T (L "r") [] None None [T (L "c") [] None None []];
   T (L "r") [] None None [T (L "c") [(L "a", L "1")] None None [leaf "d" "x"]]].
Theorem kind_empty_refuted : exists cv S, forallb (doc_kind_empty_ok (raw_of cv S)) S = false.
Proof. exists no_tests, w_empty. vm_compute. reflexivity. Qed.

(* <r><j><n>0</n></j><j><n xsi:nil="true"/></j></r> : n is typed as a union of a primitive and a class *)
Definition w_nil_leaf : list tree :=
  [T (L "r") [] None None
     [T (L "j") [] None None [leaf "n" "0"];
      T (L "j") [] None None [T (L "n") [(XSI_NIL_Q, L "true")] None None []]]].
Theorem kind_leaf_refuted : exists cv S, forallb (doc_kind_leaf_ok (raw_of cv S)) S = false.
Proof. exists no_tests, w_nil_leaf. vm_compute. reflexivity. Qed.

(* <r><n a="1" xsi:nil="true"/><x>1</x></r>, <r><x>2</x></r> : n is optional and its class nillable *)
Definition w_nil_present : list tree :=
  [T (L "r") [] None None [T (L "n") [(L "a", L "1"); (XSI_NIL_Q, L "true")] None None []; leaf "x" "1"];
   T (L "r") [] None None [leaf "x" "2"]].
Theorem nil_present_refuted : exists cv S, forallb (doc_nil_present_ok (classes_of_xml cv S)) S = false.
Proof. exists no_tests, w_nil_present. vm_compute. reflexivity. Qed.

(* <r><p><a>1</a><a>2</a><b>x</b></p><p><b>x</b><c>y</c><c>z</c><d>w</d></p></r> : a and c share sequence
   number 1 although they never repeat in the same node; the predicted rendering of the first p is a b a *)
Definition w_seq : list tree :=
  [T (L "r") [] None None
     [T (L "p") [] None None [leaf "a" "1"; leaf "a" "2"; leaf "b" "x"];
      T (L "p") [] None None [leaf "b" "x"; leaf "c" "y"; leaf "c" "z"; leaf "d" "w"]]].
Theorem order_kept_refuted : exists cv S, forallb (doc_order_ok (classes_of_xml cv S)) S = false.
Proof. exists no_tests, w_seq. vm_compute. reflexivity. Qed.

(* <r><v>1.5</v><v>123456789012345678901234567890.5</v></r> with the converter's answers as recorded from the
   real code (strict: float+Decimal / Decimal only; non-strict: float accepts both): the first accepting
   type of the merged field is float, which fails the strict test of the second value *)
Definition big := L "123456789012345678901234567890.5".
Definition w_inexact : list tree := [T (L "r") [] None None [leaf "v" "1.5"; T (L "v") [] (Some big) None []]].
Definition w_inexact_strict : list (str * list bool) :=
  [(L "1.5", [false; false; true; true; false; false; false; false; false]);
   (big, [false; false; false; true; false; false; false; false; false])].
Definition w_inexact_tests : list (str * vtests) :=
  [(L "1.5", mk_vtests [false; false; true; true; false; false; false; false; false]
                       [false; false; true; true; false; false; false; false; false]);
   (big, mk_vtests [false; false; false; true; false; false; false; false; false]
                   [false; false; true; true; false; false; false; false; false])].
Theorem values_exact_refuted :
  exists tbl vt S, forallb (g_values_exact vt (classes_of_xml (sconv_of_table tbl) S)) S = false.
Proof. exists w_inexact_strict, w_inexact_tests, w_inexact. vm_compute. reflexivity. Qed.

(* ... and the clauses hold of an ordinary set: repeated and interleaved children, attributes, optional parts *)
Definition w_regular : list tree :=
  [T (L "r") [(L "id", L "7")] None None
     [leaf "a" "1"; leaf "b" "x"; leaf "a" "2"; leaf "b" "y"; T (L "d") [] None None [leaf "e" "1.5"]];
   T (L "r") [(L "id", L "8")] None None [leaf "a" "3"; T (L "d") [] None None [leaf "e" "2.5"; leaf "f" "z"]]].
Example regular_nonvacuous :
  let cs := classes_of_xml no_tests w_regular in
  forallb (doc_kind_empty_ok (raw_of no_tests w_regular)) w_regular
  && forallb (doc_kind_leaf_ok (raw_of no_tests w_regular)) w_regular
  && forallb (doc_nil_present_ok cs) w_regular && forallb (doc_order_ok cs) w_regular
  && forallb (doc_ns_ok cs) w_regular && forallb (tree_nil_ok cs) w_regular = true.
Proof. vm_compute. reflexivity. Qed.
