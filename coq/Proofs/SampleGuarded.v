(* Proofs/SampleGuarded.v — nillable is merged over the group (fix 359d494): proved without side condition;
   the namespace is still taken from group[0]: refuted on the faithful model, proved under a uniformity guard. *)
From Coq Require Import NArith ZArith List Bool Lia.
From XV Require Import Base.Str Base.Eqb Gen.SampleTables Model.Sample Model.SampleCorr
  Proofs.SampleBase Proofs.SampleReduce Proofs.SampleBuild Proofs.SampleFit.
Import ListNotations.
Open Scope N_scope.

Lemma node_class_fields cv p m :
  c_qname (node_class cv p m) = class_qname p m /\ c_ns (node_class cv p m) = class_ns p m
  /\ c_nillable (node_class cv p m) = nil_flag (t_atts m) false.
Proof.
  unfold node_class. destruct (build_class_spec cv m p) as [mixed [nilb [attrs [E [_ [_ En]]]]]]. rewrite E. cbn. auto.
Qed.

Theorem nil_fit : forall cv (S : list tree), forallb (tree_nil_ok (classes_of_xml cv S)) S = true.
Proof.
  intros cv S. apply forallb_forall. intros t Ht. unfold tree_nil_ok, classes_of_xml.
  apply (for_all_class_nodes cv S); [|exact Ht]. intros p m Hin.
  destruct (reduce_classes_spec _ (all_nodup cv _ (all_of_samples cv S)) _ Hin) as [r [Fr [_ [_ [_ [_ [_ [_ Nr]]]]]]]].
  destruct (node_class_fields cv p m) as [Q [_ N]]. rewrite Q in Fr. unfold node_nil_ok. rewrite Fr.
  rewrite N in Nr. unfold xsi_nil_of, nil_flag in *. destruct (find _ (rev (t_atts m))) as [[k v]|]; [|reflexivity].
  destruct (is_nil_true v); [|apply orb_true_r]. rewrite (Nr eq_refl). reflexivity.
Qed.

(* ------------------------------------------------------------------ qualified names *)
Lemma split_at_spec c : forall s l r, split_at c s = Some (l, r) -> s = l ++ c :: r /\ ~ In c l.
Proof.
  induction s as [|x s IH]; cbn; [discriminate|]. intros l r.
  destruct (N.eqb_spec x c) as [->|Hne].
  - intros [= <- <-]. split; [reflexivity|intros []].
  - destruct (split_at c s) as [[a b]|]; [|discriminate]. intros [= <- <-].
    destruct (IH a b eq_refl) as [E Hn]. split; [cbn; rewrite E; reflexivity|]. intros [H|H]; [congruence|contradiction].
Qed.

Lemma split_at_app c : forall l r, ~ In c l -> split_at c (l ++ c :: r) = Some (l, r).
Proof.
  induction l as [|x l IH]; intros r Hn; cbn.
  - rewrite N.eqb_refl. reflexivity.
  - destruct (N.eqb_spec x c) as [->|Hne]; [exfalso; apply Hn; left; reflexivity|].
    rewrite IH; [reflexivity|]. intros H. apply Hn. right. exact H.
Qed.

Lemma split_qname_Some q u n : split_qname q = (Some u, n) ->
  q = 123 :: u ++ 125 :: n /\ u <> [] /\ n <> [] /\ ~ In 125 u.
Proof.
  unfold split_qname, text_split. destruct q as [|c0 r]; [discriminate|].
  destruct (N.eqb_spec c0 123) as [->|Hne].
  - destruct (split_at 125 r) as [[l rg]|] eqn:E; [|discriminate].
    destruct rg as [|y rg]; [discriminate|]. destruct l as [|x l]; [discriminate|]. intros [= <- <-].
    destruct (split_at_spec _ _ _ _ E) as [Er Hn]. split; [rewrite Er; reflexivity|]. repeat split; auto; discriminate.
  - intros H. exfalso. revert H. destruct c0 as [|p]; [discriminate|].
    repeat (destruct p as [p|p|]; try discriminate). congruence.
Qed.

Lemma split_qname_build u n : u <> [] -> n <> [] -> ~ In 125 u -> split_qname (123 :: u ++ 125 :: n) = (Some u, n).
Proof.
  intros Hu Hn H. unfold split_qname, text_split. rewrite split_at_app by exact H.
  destruct n as [|y n]; [contradiction|]. destruct u as [|x u]; [contradiction|]. reflexivity.
Qed.

Lemma split_qname_None q n : split_qname q = (None, n) -> n = q.
Proof.
  unfold split_qname, text_split. destruct q as [|c0 r]; [intros [= <-]; reflexivity|].
  destruct c0 as [|p]; [intros [= <-]; reflexivity|].
  repeat (destruct p as [p|p|]; try (intros [= <-]; reflexivity)).
  destruct (split_at 125 r) as [[l rg]|]; [|intros [= <-]; reflexivity].
  destruct rg as [|y rg]; [intros [= <-]; reflexivity|]. destruct l as [|x l]; intros [= <-]; reflexivity.
Qed.

Lemma tags_differ : str_eqb tag_ELEMENT tag_ATTRIBUTE = false.
Proof. vm_compute. reflexivity. Qed.

(* the class of a node is either qualified — namespace u, qname {u}name — or unqualified — namespace None or "",
   qname = the element name, which does not split *)
Lemma node_class_kind cv p m :
  let x := node_class cv p m in
  (exists u n, c_ns x = Some u /\ u <> [] /\ n <> [] /\ ~ In 125 u /\ c_qname x = 123 :: u ++ 125 :: n)
  \/ ((c_ns x = None \/ c_ns x = Some []) /\ fst (split_qname (c_qname x)) = None).
Proof.
  cbv zeta. destruct (node_class_fields cv p m) as [Q [N _]]. rewrite Q, N. unfold class_qname, class_ns, select_namespace.
  rewrite tags_differ. destruct (split_qname (t_qn m)) as [[u|] n] eqn:E; cbn [fst snd].
  - left. destruct (split_qname_Some _ _ _ E) as [Eq [Hu [Hn H125]]]. exists u, n.
    split; [reflexivity|]. repeat split; auto. destruct u; [contradiction|]. destruct n; [contradiction|]. reflexivity.
  - right. pose proof (split_qname_None _ _ E) as En. subst n.
    assert (Hb : forall o, (o = None \/ o = Some []) -> build_qname o (t_qn m) = t_qn m).
    { intros o [->| ->]; destruct (t_qn m); reflexivity. }
    destruct p as [pn|].
    + split; [right; reflexivity|]. rewrite Hb by (right; reflexivity). rewrite E. reflexivity.
    + split; [left; reflexivity|]. rewrite Hb by (left; reflexivity). rewrite E. reflexivity.
Qed.

Lemma app_sep_inj (c : N) l1 r1 l2 r2 : ~ In c l1 -> ~ In c l2 -> l1 ++ c :: r1 = l2 ++ c :: r2 -> l1 = l2.
Proof.
  revert l2. induction l1 as [|x l1 IH]; intros [|y l2] H1 H2 E; cbn in *; try reflexivity.
  - inversion E; subst. exfalso. apply H2. left. reflexivity.
  - inversion E; subst. exfalso. apply H1. left. reflexivity.
  - inversion E; subst. f_equal. eapply IH; eauto.
Qed.

Theorem ns_fit : forall cv (S : list tree), forallb (doc_ns_ok (classes_of_xml cv S)) S = true.
Proof.
  intros cv S. apply forallb_forall. intros t Ht. unfold doc_ns_ok, classes_of_xml.
  apply (for_all_class_nodes cv S); [|exact Ht]. intros p m Hin.
  destruct (reduce_classes_spec _ (all_nodup cv _ (all_of_samples cv S)) _ Hin) as [r [Fr [_ [_ [_ [_ [_ [[f [Hf [Qf [Nf Nn]]]] _]]]]]]]].
  destruct (node_class_fields cv p m) as [Q [N _]]. rewrite Q in Fr. unfold node_ns_ok. rewrite Fr. rewrite <- N.
  destruct (all_of_samples cv S f Hf) as [p' [m' ->]].
  set (c := node_class cv p m) in *. set (f := node_class cv p' m') in *.
  unfold ns_compat.
  destruct (node_class_kind cv p m) as [[u [n [Cu [Hu [Hn [H125 Cq]]]]]]|[Cb Cs]]; fold c in Cu, Cq || fold c in Cb, Cs.
  - (* the node is qualified: so is the first class of its group, with the same namespace *)
    destruct (node_class_kind cv p' m') as [[u' [n' [Fu [Hu' [Hn' [H125' Fq]]]]]]|[Fb Fs]]; fold f in Fu, Fq || fold f in Fb, Fs.
    + rewrite Fq, Cq in Qf. inversion Qf as [E]. apply app_sep_inj in E; auto. subst u'.
      destruct Nf as [Nf|[Nf _]]; [|congruence]. rewrite Nf, Fu, Cu. apply orb_true_iff. left. apply ostr_eqb_eq. reflexivity.
    + exfalso. rewrite Qf, Cq, split_qname_build in Fs by assumption. discriminate.
  - destruct (node_class_kind cv p' m') as [[u' [n' [Fu [Hu' [Hn' [H125' Fq]]]]]]|[Fb Fs]]; fold f in Fu, Fq || fold f in Fb, Fs.
    + exfalso. rewrite <- Qf, Fq, split_qname_build in Cs by assumption. discriminate.
    + (* both unqualified *)
      destruct Nf as [Nf|[Nf1 Nf2]].
      * rewrite Nf. destruct Fb as [Fb|Fb]; rewrite Fb in *.
        -- destruct Cb as [Cb|Cb]; [rewrite Cb; reflexivity|]. exfalso. apply (Nn Nf). exact Cb.
        -- destruct Cb as [Cb|Cb]; rewrite Cb; reflexivity.
      * rewrite Nf2. destruct Cb as [Cb|Cb]; rewrite Cb; reflexivity.
Qed.

(* several namespaces, unqualified elements below qualified and unqualified parents *)
Definition no_tests : sconv := sconv_of_table [].
Definition XSI_NIL_Q := qn_xsi_nil.
Definition urn_b : str := [117;114;110;58;98].
Definition w_ns : list tree :=
  [T [114] [] None None
     [T ([123] ++ urn_b ++ [125;112]) [] None None [T [107] [([97], [49])] None None []];
      T [113] [] None None [T [107] [([97], [50])] None None [T [116] [] (Some [50]) None []]]]].

(* ------------------------------------------------------------------ the other clauses of `regular`:
   statements about the merged classes that the faithful model falsifies (each witness also fails on the
   real code: harness/c13.py WITNESSES).  No unbounded theorem is claimed under these clauses; they are
   evaluated per document. *)
From Coq Require Import String.
Local Open Scope string_scope.
Definition L (x : String.string) : str := lit x.
Definition leaf (q : String.string) (v : String.string) : tree := T (L q) [] (Some (L v)) None [].
Definition raw_of (cv : sconv) (S : list tree) := reduce_classes_raw (List.concat (List.map (map_tree cv) S)).

(* <r><c/></r>, <r><c a="1"><d>x</d></c></r> : the empty c is an anySimpleType leaf, the other one a class with
   two required parts *)
Definition w_empty : list tree :=
  [T (L "r") [] None None [T (L "c") [] None None []];
   T (L "r") [] None None [T (L "c") [(L "a", L "1")] None None [leaf "d" "x"]]].
Theorem kind_empty_refuted : exists cv S, forallb (doc_kind_empty_ok (raw_of cv S)) S = false.
Proof. exists no_tests, w_empty. vm_compute. reflexivity. Qed.

(* <r><j><n>0</n></j><j><n xsi:nil="true"/></j></r> : n is typed as a union of a primitive and a class *)
Definition w_nil_leaf : list tree :=
  [T (L "r") [] None None
     [T (L "j") [] None None [leaf "n" "0"];
      T (L "j") [] None None [T (L "n") [(XSI_NIL_Q, L "true")] None None []]]].
Theorem kind_leaf_refuted : exists cv S, forallb (doc_kind_leaf_ok (raw_of cv S)) S = false.
Proof. exists no_tests, w_nil_leaf. vm_compute. reflexivity. Qed.

(* <r><n a="1" xsi:nil="true"/><x>1</x></r>, <r><x>2</x></r> : n is optional and its class nillable *)
Definition w_nil_present : list tree :=
  [T (L "r") [] None None [T (L "n") [(L "a", L "1"); (XSI_NIL_Q, L "true")] None None []; leaf "x" "1"];
   T (L "r") [] None None [leaf "x" "2"]].
Theorem nil_present_refuted : exists cv S, forallb (doc_nil_present_ok (classes_of_xml cv S)) S = false.
Proof. exists no_tests, w_nil_present. vm_compute. reflexivity. Qed.

(* <r><p><a>1</a><a>2</a><b>x</b></p><p><b>x</b><c>y</c><c>z</c><d>w</d></p></r> : a and c share sequence
   number 1 although they never repeat in the same node; the predicted rendering of the first p is a b a *)
Definition w_seq : list tree :=
  [T (L "r") [] None None
     [T (L "p") [] None None [leaf "a" "1"; leaf "a" "2"; leaf "b" "x"];
      T (L "p") [] None None [leaf "b" "x"; leaf "c" "y"; leaf "c" "z"; leaf "d" "w"]]].
Theorem order_kept_refuted : exists cv S, forallb (doc_order_ok (classes_of_xml cv S)) S = false.
Proof. exists no_tests, w_seq. vm_compute. reflexivity. Qed.

(* <r><v>1.5</v><v>123456789012345678901234567890.5</v></r> with the converter's answers as recorded from the
   real code (strict: float+Decimal / Decimal only; non-strict: float accepts both): the first accepting
   type of the merged field is float, which fails the strict test of the second value *)
Definition big := L "123456789012345678901234567890.5".
Definition w_inexact : list tree := [T (L "r") [] None None [leaf "v" "1.5"; T (L "v") [] (Some big) None []]].
Definition w_inexact_strict : list (str * list bool) :=
  [(L "1.5", [false; false; true; true; false; false; false; false; false]);
   (big, [false; false; false; true; false; false; false; false; false])].
Definition w_inexact_tests : list (str * vtests) :=
  [(L "1.5", mk_vtests [false; false; true; true; false; false; false; false; false]
                       [false; false; true; true; false; false; false; false; false]);
   (big, mk_vtests [false; false; false; true; false; false; false; false; false]
                   [false; false; true; true; false; false; false; false; false])].
Theorem values_exact_refuted :
  exists tbl vt S, forallb (g_values_exact vt (classes_of_xml (sconv_of_table tbl) S)) S = false.
Proof. exists w_inexact_strict, w_inexact_tests, w_inexact. vm_compute. reflexivity. Qed.

(* ... and the clauses hold of an ordinary set: repeated and interleaved children, attributes, optional parts *)
Definition w_regular : list tree :=
  [T (L "r") [(L "id", L "7")] None None
     [leaf "a" "1"; leaf "b" "x"; leaf "a" "2"; leaf "b" "y"; T (L "d") [] None None [leaf "e" "1.5"]];
   T (L "r") [(L "id", L "8")] None None [leaf "a" "3"; T (L "d") [] None None [leaf "e" "2.5"; leaf "f" "z"]]].
Example regular_nonvacuous :
  let cs := classes_of_xml no_tests w_regular in
  forallb (doc_kind_empty_ok (raw_of no_tests w_regular)) w_regular
  && forallb (doc_kind_leaf_ok (raw_of no_tests w_regular)) w_regular
  && forallb (doc_nil_present_ok cs) w_regular && forallb (doc_order_ok cs) w_regular
  && forallb (doc_ns_ok cs) w_regular && forallb (tree_nil_ok cs) w_regular = true.
Proof. vm_compute. reflexivity. Qed.
