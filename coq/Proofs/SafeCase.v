(* Proofs/SafeCase.v — what every naming convention guarantees about its result:
   characters, the slug (alnum) and the first character. *)
From Coq Require Import NArith List Bool Lia String.
From XV Require Import Base.Str Base.PyInt Gen.SafeTables Model.Safe Proofs.SafeText.
Import ListNotations.
Open Scope N_scope.

Definition split_based (k : name_case) : bool :=
  match k with Original => false | _ => true end.

Definition good (s r : str) : Prop :=
  forallb wordchar r = true /\ alnum r = alnum s /\
  (slug_alpha s = true -> exists c t, r = c :: t /\ is_ascii_alpha c = true).

Lemma slug_alpha_head s : slug_alpha s = true ->
  exists c t, alnum s = c :: t /\ is_ascii_alpha c = true.
Proof.
  unfold slug_alpha. destruct (alnum s) as [|c t]; [discriminate|]. intros H. exists c, t. auto.
Qed.

Lemma concat_head_word (ws : list str) c t :
  Forall word_ok ws -> List.concat ws = c :: t -> exists w0 rest, ws = (c :: w0) :: rest.
Proof.
  intros HF E. destruct ws as [|w rest]; [discriminate|].
  inversion HF as [|? ? [Hne _] _]; subst. destruct w as [|d w0]; [congruence|].
  cbn in E. injection E as -> _. exists w0, rest. reflexivity.
Qed.

Lemma good_join sep ws' s :
  sep = [] \/ sep = us -> Forall2 same_fold (split_words s) ws' -> good s (join sep ws').
Proof.
  intros Hs HF. split; [|split].
  - exact (join_wordchar sep Hs _ _ HF).
  - rewrite (join_alnum sep Hs _ _ HF). symmetry. apply alnum_split.
  - intros Ha. destruct (slug_alpha_head s Ha) as [c [t [E Hc]]].
    rewrite alnum_split in E.
    destruct (List.concat (split_words s)) as [|c0 t0] eqn:Ec; [discriminate|].
    cbn in E. injection E as E0 _.
    destruct (concat_head_word _ _ _ (split_words_words s) Ec) as [w0 [rest Ew]].
    destruct (join_head sep _ _ c0 w0 rest HF Ew) as [d [t' [Ej [Hd Hda]]]].
    exists d, t'. split; [exact Ej|].
    rewrite <- lower_alpha, Hd, E0. exact Hc.
Qed.

Lemma wordchar_lower c : wordchar c = true -> wordchar (ascii_lower c) = true.
Proof.
  unfold wordchar. intros H. apply orb_true_iff in H as [H|H].
  - rewrite lower_alnum by exact H. reflexivity.
  - apply N.eqb_eq in H. subst. reflexivity.
Qed.

Lemma wordchar_upper c : wordchar c = true -> wordchar (ascii_upper c) = true.
Proof.
  unfold wordchar. intros H. apply orb_true_iff in H as [H|H].
  - rewrite upper_alnum by exact H. reflexivity.
  - apply N.eqb_eq in H. subst. reflexivity.
Qed.

Lemma good_upper s r : good s r -> good s (upper r).
Proof.
  intros [H1 [H2 H3]]. destruct (upper_fold r H1) as [U1 U2]. split; [exact U2|split].
  - rewrite (alnum_of_lowered _ _ U1). exact H2.
  - intros Ha. destruct (H3 Ha) as [c [t [-> Hc]]]. exists (ascii_upper c), (upper t).
    split; [reflexivity|]. rewrite upper_alpha. exact Hc.
Qed.

Lemma good_tweak_lower s d t : good s (d :: t) -> good s (ascii_lower d :: t).
Proof.
  intros [H1 [H2 H3]]. cbn in H1. apply andb_true_iff in H1 as [Hd Ht]. split; [|split].
  - cbn. rewrite wordchar_lower by exact Hd. exact Ht.
  - rewrite <- H2. apply alnum_of_lowered. cbn. rewrite lower_lower. reflexivity.
  - intros Ha. destruct (H3 Ha) as [c [t' [E Hc]]]. injection E as <- <-.
    exists (ascii_lower d), t. split; [reflexivity|]. rewrite lower_alpha. exact Hc.
Qed.

Lemma good_tweak_upper s d t : good s (d :: t) -> good s (ascii_upper d :: t).
Proof.
  intros [H1 [H2 H3]]. cbn in H1. apply andb_true_iff in H1 as [Hd Ht]. split; [|split].
  - cbn. rewrite wordchar_upper by exact Hd. exact Ht.
  - rewrite <- H2. apply alnum_of_lowered. cbn. rewrite lower_upper. reflexivity.
  - intros Ha. destruct (H3 Ha) as [c [t' [E Hc]]]. injection E as <- <-.
    exists (ascii_upper d), t. split; [reflexivity|]. rewrite upper_alpha. exact Hc.
Qed.

Lemma good_snake s : good s (snake_case s).
Proof. apply good_join; [right; reflexivity|]. apply words_fold. apply same_fold_lower. Qed.

Lemma good_pascal s : good s (pascal_case s).
Proof.
  unfold pascal_case, concat_words. rewrite <- join_nil_concat.
  apply good_join; [left; reflexivity|]. apply words_fold. apply same_fold_title.
Qed.

Lemma good_mixed s : good s (mixed_case s).
Proof.
  unfold mixed_case, concat_words. rewrite <- join_nil_concat.
  apply good_join; [left; reflexivity|]. apply words_fold_id.
Qed.

Lemma good_mixed_snake s : good s (mixed_snake_case s).
Proof. apply good_join; [right; reflexivity|]. apply words_fold_id. Qed.

Lemma case_good k s r : split_based k = true -> apply_case k s = Some r -> good s r.
Proof.
  intros Hk E. destruct k; try discriminate; cbn in E.
  - injection E as <-. apply good_pascal.
  - unfold camel_case in E. pose proof (good_pascal s) as G.
    destruct (pascal_case s) as [|d t]; [discriminate|]. injection E as <-. apply good_tweak_lower; exact G.
  - injection E as <-. apply good_snake.
  - injection E as <-. apply good_upper, good_snake.
  - injection E as <-. apply good_mixed.
  - injection E as <-. apply good_mixed_snake.
  - unfold mixed_pascal_case, capitalize in E. pose proof (good_mixed s) as G.
    destruct (mixed_case s) as [|d t]; [discriminate|]. injection E as <-. apply good_tweak_upper; exact G.
Qed.

(* ------------------------------------------------------------------ original_case *)
Lemma ascii_alnum_is_word : forall c, is_ascii_alnum c = true -> py_word c = true.
Proof.
  assert (T : forallb (fun n => let c := N.of_nat n in implb (is_ascii_alnum c) (py_word c)) (seq 0 128) = true)
    by (vm_compute; reflexivity).
  intros c H.
  assert (R : c < 128) by (revert H; char_solve).
  assert (Hin : In (N.to_nat c) (seq 0 128)) by (apply in_seq; lia).
  rewrite forallb_forall in T. specialize (T _ Hin). cbv beta zeta in T.
  rewrite N2Nat.id, H in T. exact T.
Qed.

Lemma filter_filter_sub {A} (f g : A -> bool) l :
  (forall x, f x = true -> g x = true) -> filter f (filter g l) = filter f l.
Proof.
  intros H. induction l as [|x l IH]; [reflexivity|]. cbn.
  destruct (g x) eqn:Eg; cbn.
  - destruct (f x); rewrite IH; reflexivity.
  - destruct (f x) eqn:Ef; [rewrite (H x Ef) in Eg; discriminate|exact IH].
Qed.

Lemma alnum_filter_word s : alnum (filter py_word s) = alnum s.
Proof. unfold alnum. rewrite filter_filter_sub by apply ascii_alnum_is_word. reflexivity. Qed.

Lemma slug_alpha_cons_skip c s : is_ascii_alnum c = false -> slug_alpha (c :: s) = slug_alpha s.
Proof. intros H. unfold slug_alpha, alnum. cbn [filter]. rewrite H. reflexivity. Qed.

Lemma is_az_us_alnum_alpha c : is_az_us c = false -> is_ascii_alnum c = true -> is_ascii_alpha c = false.
Proof. unfold is_az_us. intros H _. apply orb_false_iff in H. tauto. Qed.

(* stripping the leading non-[a-zA-Z_] characters removes no alphanumeric when the first
   alphanumeric is a letter *)
Lemma lstrip_keeps_slug s : slug_alpha s = true ->
  alnum (lstrip_by (fun c => negb (is_az_us c)) s) = alnum s /\
  exists c t, lstrip_by (fun c => negb (is_az_us c)) s = c :: t /\ is_az_us c = true.
Proof.
  induction s as [|c s IH]; intros H; [discriminate|].
  cbn [lstrip_by]. destruct (is_az_us c) eqn:Ez; cbn [negb].
  - split; [reflexivity|]. exists c, s. auto.
  - destruct (is_ascii_alnum c) eqn:Ea.
    + exfalso. unfold slug_alpha, alnum in H. cbn [filter] in H. rewrite Ea in H. cbn in H.
      rewrite lower_alpha in H. unfold is_az_us in Ez. apply orb_false_iff in Ez as [Ez _]. congruence.
    + rewrite slug_alpha_cons_skip in H by exact Ea. destruct (IH H) as [I1 I2]. split; [|exact I2].
      rewrite I1. unfold alnum. cbn [filter]. rewrite Ea. reflexivity.
Qed.

Lemma slug_alpha_filter_word s : slug_alpha (filter py_word s) = slug_alpha s.
Proof. unfold slug_alpha. rewrite alnum_filter_word. reflexivity. Qed.

Lemma original_alnum s : slug_alpha s = true -> alnum (original_case s) = alnum s.
Proof.
  intros H. unfold original_case.
  destruct (lstrip_keeps_slug (filter py_word s)) as [E _]; [rewrite slug_alpha_filter_word; exact H|].
  rewrite E. apply alnum_filter_word.
Qed.

Lemma original_head s : slug_alpha s = true ->
  exists c t, original_case s = c :: t /\ is_az_us c = true.
Proof.
  intros H. unfold original_case.
  destruct (lstrip_keeps_slug (filter py_word s)) as [_ E]; [rewrite slug_alpha_filter_word; exact H|exact E].
Qed.

Lemma lstrip_incl (p : N -> bool) s c : In c (lstrip_by p s) -> In c s.
Proof.
  induction s as [|x s IH]; cbn; [tauto|]. destruct (p x); [right; auto|cbn; tauto].
Qed.

Lemma original_chars s c : In c (original_case s) -> In c s /\ py_word c = true.
Proof.
  unfold original_case. intros H. apply lstrip_incl in H. apply filter_In in H. exact H.
Qed.

(* every convention preserves the slug and yields a result on slug_alpha names *)
Lemma case_alnum k s r : slug_alpha s = true -> apply_case k s = Some r -> alnum r = alnum s.
Proof.
  intros Ha E. destruct (split_based k) eqn:Ek.
  - destruct (case_good k s r Ek E) as [_ [H _]]. exact H.
  - destruct k; try discriminate. cbn in E. injection E as <-. apply original_alnum; exact Ha.
Qed.

Lemma case_some k s : slug_alpha s = true -> exists r, apply_case k s = Some r.
Proof.
  intros Ha. destruct k; cbn; try (eexists; reflexivity).
  - destruct (good_pascal s) as [_ [_ H]]. destruct (H Ha) as [c [t [E _]]].
    unfold camel_case. rewrite E. eexists; reflexivity.
  - destruct (good_mixed s) as [_ [_ H]]. destruct (H Ha) as [c [t [E _]]].
    unfold mixed_pascal_case, capitalize. rewrite E. eexists; reflexivity.
Qed.
