(* Proofs/ParserMatrix.v — C10: the unknown-attribute matrix (ElementNode.bind_attrs) and the
   conversion matrix (ParserUtils.parse_var and the nodes that call it). *)
From Coq Require Import NArith ZArith List Bool Arith Lia.
From XV Require Import Base.Str Base.Eqb Base.PyInt Model.Bind Model.Parser Model.ParserCorr Spec.Inject.
Import ListNotations.

(* ================================================================ unknown attributes *)
Section Attrs.
  Variable cfg : pconfig.
  Variable c : conv.

  Local Notation loop := (bind_attrs_loop cfg c).

  Lemma bind_attrs_loop_app en a1 a2 : forall p ws,
    loop en (a1 ++ a2) p ws
    = rbind (loop en a1 p ws) (fun r => loop en a2 (fst r) (snd r)).
  Proof.
    induction a1 as [|[q sval] a1 IH]; intros p ws; [reflexivity|].
    cbn [app bind_attrs_loop].
    destruct (find_attribute (en_meta en) q) as [var|].
    - destruct (pmem (v_name var) p).
      + destruct (find_any_attributes (en_meta en) q) as [av|].
        * destruct (bind_any_attr en av q sval p); cbn [rbind]; [apply IH|reflexivity].
        * destruct (fail_unknown_attrs cfg && negb (ostr_eqb (target_uri q) (Some XSI_NS))); [reflexivity|apply IH].
      + destruct (bind_attr cfg c en var sval p); cbn [rbind]; [apply IH|reflexivity].
    - destruct (find_any_attributes (en_meta en) q) as [av|].
      + destruct (bind_any_attr en av q sval p); cbn [rbind]; [apply IH|reflexivity].
      + destruct (fail_unknown_attrs cfg && negb (ostr_eqb (target_uri q) (Some XSI_NS))); [reflexivity|apply IH].
  Qed.

  Lemma bind_attrs_loop_unknown en a v rest p ws :
    unknown_attr (en_meta en) a = true ->
    loop en ((a, v) :: rest) p ws
    = if fail_unknown_attrs cfg && negb (in_xsi_namespace a) then RErr ParserError
      else loop en rest p ws.
  Proof.
    intros H. unfold unknown_attr in H. cbn [bind_attrs_loop].
    destruct (find_attribute (en_meta en) a); [discriminate|].
    destruct (find_any_attributes (en_meta en) a); [discriminate|].
    reflexivity.
  Qed.

  (* the matrix: an attribute that matches no attribute / any-attribute field makes binding
     fail with a parser error iff fail_on_unknown_attributes is set and the attribute is not
     in the xsi namespace; otherwise it is dropped *)
  Theorem unknown_attr_matrix_loop en a1 a v a2 p ws :
    unknown_attr (en_meta en) a = true ->
    loop en (a1 ++ (a, v) :: a2) p ws
    = match loop en a1 p ws with
      | RErr k => RErr k
      | ROk r =>
          if fail_unknown_attrs cfg && negb (in_xsi_namespace a) then RErr ParserError
          else loop en a2 (fst r) (snd r)
      end.
  Proof.
    intros H. rewrite bind_attrs_loop_app.
    destruct (loop en a1 p ws) as [r|k]; cbn [rbind]; [|reflexivity].
    apply bind_attrs_loop_unknown. exact H.
  Qed.

  Corollary unknown_attr_dropped en a1 a v a2 p ws :
    unknown_attr (en_meta en) a = true ->
    fail_unknown_attrs cfg && negb (in_xsi_namespace a) = false ->
    loop en (a1 ++ (a, v) :: a2) p ws = loop en (a1 ++ a2) p ws.
  Proof.
    intros H Hf. rewrite (unknown_attr_matrix_loop en a1 a v a2 p ws H), Hf.
    rewrite bind_attrs_loop_app. destruct (loop en a1 p ws); reflexivity.
  Qed.

  Corollary unknown_attr_fails en a1 a v a2 p ws r :
    unknown_attr (en_meta en) a = true ->
    fail_unknown_attrs cfg = true -> in_xsi_namespace a = false ->
    loop en a1 p ws = ROk r ->
    loop en (a1 ++ (a, v) :: a2) p ws = RErr ParserError.
  Proof.
    intros H Hf Hx Hr. rewrite (unknown_attr_matrix_loop en a1 a v a2 p ws H), Hr, Hf, Hx. reflexivity.
  Qed.
End Attrs.

(* ================================================================ conversion *)
Section Conversion.
  Variable c : conv.

  Lemma deser_cases tys fmt ns s :
    (exists p, deser c tys fmt ns s = ROk (VP p) /\ c_deser c tys fmt ns s = Some p)
    \/ (deser c tys fmt ns s = RErr ConverterError /\ c_deser c tys fmt ns s = None).
  Proof. unfold deser. destruct (c_deser c tys fmt ns s) as [p|]; [left; eauto|right; auto]. Qed.

  Lemma map_res_deser_fail tys fmt ns l :
    existsb (fun tok => negb (is_some (c_deser c tys fmt ns tok))) l = true ->
    map_res (deser c tys fmt ns) l = RErr ConverterError.
  Proof.
    induction l as [|tok l IH]; intros H; [discriminate|].
    cbn [map_res]. cbn [existsb] in H.
    destruct (deser_cases tys fmt ns tok) as [[p [Hd Hc]]|[Hd Hc]]; rewrite Hd; cbn [rbind]; [|reflexivity].
    rewrite Hc in H. cbn in H. rewrite (IH H). reflexivity.
  Qed.

  (* "a value that cannot be converted to its declared type": the text itself, or one of its
     whitespace separated tokens for a tokens field *)
  Definition unconvertible (var : xvar) (tys : list ptype) (fmt : option str) (ns : nsmap) (s : str) : bool :=
    match v_tokens_factory var with
    | None => negb (is_some (c_deser c tys fmt ns s))
    | Some _ => existsb (fun tok => negb (is_some (c_deser c tys fmt ns tok))) (split_ws py_isspace s)
    end.

  Lemma parse_value_unconvertible var tys fmt ns s :
    unconvertible var tys fmt ns s = true ->
    parse_value c (Some s) tys (v_default var) ns (v_tokens_factory var) fmt = RErr ConverterError.
  Proof.
    unfold unconvertible, parse_value. destruct (v_tokens_factory var) as [f|]; intros H.
    - rewrite (map_res_deser_fail _ _ _ _ H). reflexivity.
    - unfold deser. destruct (c_deser c tys fmt ns s); [discriminate|reflexivity].
  Qed.

  (* the matrix: kept as given + exactly one warning, or a parser error iff conversion
     warnings are configured to fail *)
  Theorem conversion_matrix_var failc m var s ns :
    unconvertible var (v_types var) (v_format var) ns s = true ->
    parse_var c failc m var (Some s) ns None None
    = if failc then RErr ParserError
      else ROk (VP (PStr s), [WConv (m_clazz m) (v_name var)]).
  Proof.
    intros H. unfold parse_var. cbn [truthy_str].
    rewrite (parse_value_unconvertible var _ _ ns s H). reflexivity.
  Qed.

  Lemma parse_value_convertible_single var tys fmt ns s p :
    v_tokens_factory var = None -> c_deser c tys fmt ns s = Some p ->
    parse_value c (Some s) tys (v_default var) ns (v_tokens_factory var) fmt = ROk (VP p).
  Proof. intros Ht Hc. unfold parse_value, deser. rewrite Ht, Hc. reflexivity. Qed.
End Conversion.

Section ConversionNodes.
  Variable cfg : pconfig.
  Variable c : conv.

  (* element text of a simple-typed element (PrimitiveNode.bind) *)
  Theorem conversion_matrix_primitive m var ns q s tail objs :
    unconvertible c var (v_types var) (v_format var) ns s = true ->
    primitive_bind cfg c m var ns q (Some s) tail objs
    = if fail_conv_warnings cfg then RErr ParserError
      else ROk (let objs1 := objs ++ [(Some q, VP (PStr s))] in
                if m_mixed_content m then append_tail objs1 tail else objs1,
                [WConv (m_clazz m) (v_name var)]).
  Proof.
    intros H. unfold primitive_bind. rewrite (conversion_matrix_var c _ m var s ns H).
    destruct (fail_conv_warnings cfg); reflexivity.
  Qed.

  (* attribute value (ElementNode.bind_attr) *)
  Theorem conversion_matrix_attr en var s p :
    v_init var = true ->
    unconvertible c var (v_types var) (v_format var) (en_ns en) s = true ->
    bind_attr cfg c en var s p
    = if fail_conv_warnings cfg then RErr ParserError
      else ROk (pset (v_name var) (PV (VP (PStr s))) p, [WConv (m_clazz (en_meta en)) (v_name var)]).
  Proof.
    intros Hi H. unfold bind_attr. rewrite (conversion_matrix_var c _ (en_meta en) var s (en_ns en) H).
    destruct (fail_conv_warnings cfg); cbn [rbind]; [reflexivity|]. rewrite Hi. reflexivity.
  Qed.

  (* text of a class with a Text field (ElementNode.bind_text) *)
  Theorem conversion_matrix_text en var s p :
    m_text (en_meta en) = Some var -> v_init var = true ->
    xsi_nil_true en = false ->
    unconvertible c var (v_types var) (v_format var) (en_ns en) s = true ->
    bind_text cfg c en p (Some s)
    = if fail_conv_warnings cfg then RErr ParserError
      else ROk (true, pset (v_name var) (PV (VP (PStr s))) p, [WConv (m_clazz (en_meta en)) (v_name var)]).
  Proof.
    intros Hm Hi Hn H. unfold bind_text. rewrite Hm, Hn. cbn [is_some negb andb].
    rewrite (conversion_matrix_var c _ (en_meta en) var s (en_ns en) H).
    destruct (fail_conv_warnings cfg); cbn [rbind]; [reflexivity|]. rewrite Hi. reflexivity.
  Qed.
End ConversionNodes.

(* at the level of the event stream: the end event of a simple-typed element whose text does
   not convert *)
Theorem conversion_matrix_step : forall cfg c u replay root st m var ns Q q s tail,
  st_queue st = NPrimitive m var ns :: Q ->
  unconvertible c var (v_types var) (v_format var) ns s = true ->
  step cfg c u replay root st (PEnd q (Some s) tail)
  = if fail_conv_warnings cfg then RErr ParserError
    else ROk (mk_pstate Q
                (let objs1 := st_objects st ++ [(Some q, VP (PStr s))] in
                 if m_mixed_content m then append_tail objs1 tail else objs1)
                (st_warn st ++ [WConv (m_clazz m) (v_name var)])).
Proof.
  intros cfg c u replay root st m var ns Q q s tail Hq H.
  cbn [step]. unfold pend. rewrite Hq. unfold finish_end.
  rewrite (conversion_matrix_primitive cfg c m var ns q s tail (st_objects st) H).
  destruct (fail_conv_warnings cfg); reflexivity.
Qed.

Corollary conversion_fail_parse : forall n cfg c u root pre post st m var ns Q q s tail,
  fail_conv_warnings cfg = true ->
  run_n n cfg c u root pre = ROk st ->
  st_queue st = NPrimitive m var ns :: Q ->
  unconvertible c var (v_types var) (v_format var) ns s = true ->
  parse_n n cfg c u root (pre ++ PEnd q (Some s) tail :: post) = Err ParserError.
Proof.
  intros n cfg c u root pre post st m var ns Q q s tail Hf Hrun Hq H.
  assert (Hn : parse_n n cfg c u root (pre ++ PEnd q (Some s) tail :: post)
               = finish (run cfg c u (replay_n n c u) root init_state (pre ++ PEnd q (Some s) tail :: post)))
    by (destruct n; reflexivity).
  rewrite Hn. unfold run_n in Hrun.
  assert (Happ : forall a b st0, run cfg c u (replay_n n c u) root st0 (a ++ b)
                 = rbind (run cfg c u (replay_n n c u) root st0 a) (fun st' => run cfg c u (replay_n n c u) root st' b)).
  { induction a as [|ev a IH]; intros b st0; cbn [app run]; [reflexivity|].
    destruct (step cfg c u (replay_n n c u) root st0 ev); cbn [rbind]; [apply IH|reflexivity]. }
  rewrite Happ, Hrun. cbn [rbind run].
  rewrite (conversion_matrix_step cfg c u _ root st m var ns Q q s tail Hq H), Hf. reflexivity.
Qed.
