(* Proofs/ParserInvAttrs.v — C09(a): the object produced by the XML parser does not change
   when the attributes of the elements are delivered in another order.

   RUNNING NOTE — everything below is proved, nothing is left open (Print Assumptions at the end).

   1. dict_eq (Python dict.__eq__ on unique-key association lists) and dict_eq_iff_perm: for lists
      with unique keys, dict_eq <-> Permutation.  dict_equiv m m' := m = m' \/ (NoDup keys m /\
      Permutation m m') is the relation actually used between results (reflexive on every list;
      = dict_eq on unique-key lists: dict_equiv_iff).
   2. value_equiv: structural equality of `value` except VMap / VAny.attrs compared with dict_equiv;
      an equivalence (value_equiv_refl / _sym / _trans).  value_eqb_dict + value_eqb_dict_sound (section 9).
   3. params_equiv (kwargs equal as finite maps, values up to value_equiv), objs_rel; every function
      downstream of bind_attrs respects them (truthy, is_model_value, score_object, serialize_value,
      prepare_generic_value, coll_append/insert0, bind_var, bind_wild_var, bind_object(s)_loop, bind_text,
      bind_wild_text, bind_content, class_factory (P2: class_factory_equiv)).
   4. fold_perm: a generic "fold with early exit over a permuted list" lemma (steps commute up to an
      equivalence under an invariant).
   5. the guard: meta_ok / universe_ok (computable).
   6. P1 bind_attrs_perm (+ bind_attrs_perm0, bind_attrs_err: every error of the loop is ParserError).
   7. P3 element_bind_equiv, primitive/standard/wildcard/union_bind_equiv.
   8. P4 the simulation (start_P, pend_P, step_P, run_P, finish_P, parse_n_P) and the MAIN THEOREM
      attrs_perm_invariant (and attrs_perm_invariant_n for every fuel).
   10. guard_nontrivial (a document whose two attribute orders give DIFFERENT model results related by
       outcome_equiv), attrs_perm_invariant_refuted / _refuted_any: the unguarded statement is false of
       the model, one witness per guard clause (metadata no real XmlContext builds), and
       guard_excludes_refutations. *)
From Coq Require Import NArith ZArith List Bool Arith Lia Permutation.
From XV Require Import Base.Str Base.Eqb Base.PyInt Model.Bind Model.Parser
  Proofs.ParserNs Proofs.ParserAttrs.
Import ListNotations.

(* ================================================================ 1. dictionaries *)
(* what Python's dict.__eq__ decides on two association lists with unique keys *)
Definition dict_eq (m m' : list (qname * str)) : Prop := forall k, assoc k m = assoc k m'.

Lemma dict_eq_refl m : dict_eq m m.
Proof. intros k. reflexivity. Qed.
Lemma dict_eq_sym m m' : dict_eq m m' -> dict_eq m' m.
Proof. intros H k. symmetry. apply H. Qed.
Lemma dict_eq_trans m m' m'' : dict_eq m m' -> dict_eq m' m'' -> dict_eq m m''.
Proof. intros H H' k. rewrite (H k). apply H'. Qed.

Lemma str_eqb_neq a b : a <> b -> str_eqb a b = false.
Proof. intros H. destruct (str_eqb_spec a b); [contradiction|reflexivity]. Qed.

Lemma assoc_In {A} k (v : A) l : assoc k l = Some v -> In (k, v) l.
Proof.
  induction l as [|[k' w] l IH]; cbn [assoc]; [discriminate|].
  destruct (str_eqb_spec k k') as [->|Hn].
  - intros E. injection E as ->. left. reflexivity.
  - intros E. right. exact (IH E).
Qed.

Lemma assoc_None_notin {A} k (l : list (str * A)) : assoc k l = None -> ~ In k (map fst l).
Proof.
  induction l as [|[k' w] l IH]; cbn [assoc map fst]; [intros _ []|].
  destruct (str_eqb_spec k k') as [->|Hn]; [discriminate|].
  intros E [E'|Hin]; [congruence|exact (IH E Hin)].
Qed.

Lemma notin_assoc_None {A} k (l : list (str * A)) : ~ In k (map fst l) -> assoc k l = None.
Proof.
  induction l as [|[k' w] l IH]; cbn [assoc map fst]; [reflexivity|].
  intros H. destruct (str_eqb_spec k k') as [->|Hn]; [exfalso; apply H; left; reflexivity|].
  apply IH. intros Hin. apply H. right. exact Hin.
Qed.

Lemma In_assoc {A} k (v : A) l : NoDup (map fst l) -> In (k, v) l -> assoc k l = Some v.
Proof.
  induction l as [|[k' w] l IH]; cbn [assoc map fst]; [intros _ []|].
  intros Hnd [E|Hin].
  - injection E as -> ->. rewrite str_eqb_refl. reflexivity.
  - inversion Hnd as [|? ? Hk Hnd']; subst.
    destruct (str_eqb_spec k k') as [->|Hn]; [|exact (IH Hnd' Hin)].
    exfalso. apply Hk. apply (in_map fst) in Hin. exact Hin.
Qed.

Lemma assoc_In_iff {A} k (v : A) l : NoDup (map fst l) -> (In (k, v) l <-> assoc k l = Some v).
Proof. intros H. split; [apply In_assoc; exact H|apply assoc_In]. Qed.

Lemma opt_eq_of_iff {A} (a b : option A) : (forall v, a = Some v <-> b = Some v) -> a = b.
Proof.
  intros H. destruct a as [x|], b as [y|]; try reflexivity.
  - symmetry. apply H. reflexivity.
  - symmetry. apply (proj1 (H x)). reflexivity.
  - apply (proj2 (H y)). reflexivity.
Qed.

Lemma perm_keys_nodup {A} (m m' : list (str * A)) :
  Permutation m m' -> NoDup (map fst m) -> NoDup (map fst m').
Proof. intros H. apply Permutation_NoDup. apply Permutation_map. exact H. Qed.

(* order-insensitive equality = Python dict equality (unique keys) *)
Lemma perm_assoc {A} (m m' : list (str * A)) :
  NoDup (map fst m) -> Permutation m m' -> forall k, assoc k m = assoc k m'.
Proof.
  intros Hnd Hp k. apply opt_eq_of_iff. intros v.
  rewrite <- (assoc_In_iff k v m Hnd), <- (assoc_In_iff k v m' (perm_keys_nodup _ _ Hp Hnd)).
  split; apply Permutation_in; [exact Hp|apply Permutation_sym; exact Hp].
Qed.

Lemma perm_dict_eq m m' : NoDup (map fst m) -> Permutation m m' -> dict_eq m m'.
Proof. exact (perm_assoc m m'). Qed.

Lemma NoDup_of_keys {A B} (l : list (A * B)) : NoDup (map fst l) -> NoDup l.
Proof. apply NoDup_map_inv. Qed.

Lemma dict_eq_perm m m' :
  dict_eq m m' -> NoDup (map fst m) -> NoDup (map fst m') -> Permutation m m'.
Proof.
  intros H Hn Hn'. apply NoDup_Permutation; [apply NoDup_of_keys; exact Hn|apply NoDup_of_keys; exact Hn'|].
  intros [k v]. rewrite (assoc_In_iff k v m Hn), (assoc_In_iff k v m' Hn'), (H k). reflexivity.
Qed.

Theorem dict_eq_iff_perm m m' : NoDup (map fst m) -> NoDup (map fst m') ->
  (dict_eq m m' <-> Permutation m m').
Proof. intros Hn Hn'. split; [intros H; apply dict_eq_perm; assumption|apply perm_dict_eq; exact Hn]. Qed.

Lemma dict_eq_nil_l m : dict_eq [] m -> m = [].
Proof.
  destruct m as [|[k v] m]; [reflexivity|]. intros H. specialize (H k). cbn [assoc] in H.
  rewrite str_eqb_refl in H. discriminate.
Qed.
Lemma dict_eq_nil_r m : dict_eq m [] -> m = [].
Proof. intros H. apply dict_eq_nil_l. apply dict_eq_sym. exact H. Qed.

(* The relation used between the dicts of two parser results: identical, or a permutation of a
   dict with unique keys.  For association lists with unique keys (every Python dict; every list the
   parser builds with `mset` / from well-formed attributes) it coincides with dict_eq, i.e. with
   Python's dict.__eq__ (dict_equiv_iff). *)
Definition dict_equiv (m m' : list (qname * str)) : Prop :=
  m = m' \/ (NoDup (map fst m) /\ Permutation m m').

Lemma dict_equiv_refl m : dict_equiv m m.
Proof. left. reflexivity. Qed.
Lemma dict_equiv_sym m m' : dict_equiv m m' -> dict_equiv m' m.
Proof.
  intros [->|[Hn Hp]]; [left; reflexivity|]. right. split; [exact (perm_keys_nodup _ _ Hp Hn)|apply Permutation_sym; exact Hp].
Qed.
Lemma dict_equiv_trans m m' m'' : dict_equiv m m' -> dict_equiv m' m'' -> dict_equiv m m''.
Proof.
  intros [->|[Hn Hp]] H2; [exact H2|]. destruct H2 as [<-|[Hn' Hp']]; right; (split; [exact Hn|]); [exact Hp|].
  eapply Permutation_trans; eassumption.
Qed.
Lemma dict_equiv_eq m m' : dict_equiv m m' -> dict_eq m m'.
Proof. intros [->|[Hn Hp]]; [apply dict_eq_refl|apply perm_dict_eq; assumption]. Qed.
Lemma dict_equiv_of_eq m m' : dict_eq m m' -> NoDup (map fst m) -> NoDup (map fst m') -> dict_equiv m m'.
Proof. intros H Hn Hn'. right. split; [exact Hn|apply dict_eq_perm; assumption]. Qed.
Theorem dict_equiv_iff m m' : NoDup (map fst m) -> NoDup (map fst m') -> (dict_equiv m m' <-> dict_eq m m').
Proof. intros Hn Hn'. split; [apply dict_equiv_eq|intros H; apply dict_equiv_of_eq; assumption]. Qed.
Lemma dict_equiv_nil_l m : dict_equiv [] m -> m = [].
Proof. intros H. apply dict_eq_nil_l. apply dict_equiv_eq. exact H. Qed.
Lemma dict_equiv_nil_r m : dict_equiv m [] -> m = [].
Proof. intros H. apply dict_eq_nil_r. apply dict_equiv_eq. exact H. Qed.

(* ================================================================ 2. values up to dict order *)
Definition field_rel (R : value -> value -> Prop) (x y : str * value) : Prop :=
  fst x = fst y /\ R (snd x) (snd y).

Inductive value_equiv : value -> value -> Prop :=
| ve_none : value_equiv VNone VNone
| ve_prim p : value_equiv (VP p) (VP p)
| ve_list t l l' : Forall2 value_equiv l l' -> value_equiv (VList t l) (VList t l')
| ve_obj c f f' : Forall2 (field_rel value_equiv) f f' -> value_equiv (VObj c f) (VObj c f')
| ve_any q t tl a a' ch ch' : dict_equiv a a' -> Forall2 value_equiv ch ch' ->
    value_equiv (VAny q t tl a ch) (VAny q t tl a' ch')
| ve_derived q v v' ty : value_equiv v v' -> value_equiv (VDerived q v ty) (VDerived q v' ty)
| ve_map m m' : dict_equiv m m' -> value_equiv (VMap m) (VMap m').

Definition ve_shape (a b : value) : Prop :=
  match a with
  | VNone => b = VNone
  | VP p => b = VP p
  | VList t l => exists l', b = VList t l' /\ Forall2 value_equiv l l'
  | VObj c f => exists f', b = VObj c f' /\ Forall2 (field_rel value_equiv) f f'
  | VAny q t tl at_ ch => exists at' ch', b = VAny q t tl at' ch' /\ dict_equiv at_ at' /\ Forall2 value_equiv ch ch'
  | VDerived q v ty => exists v', b = VDerived q v' ty /\ value_equiv v v'
  | VMap m => exists m', b = VMap m' /\ dict_equiv m m'
  end.
Lemma ve_inv a b : value_equiv a b -> ve_shape a b.
Proof. destruct 1; cbn [ve_shape]; eauto 6. Qed.

(* the induction principle of the nested inductive `value` *)
Section ValueInd.
  Variable P : value -> Prop.
  Hypothesis HNone : P VNone.
  Hypothesis HP : forall p, P (VP p).
  Hypothesis HList : forall t l, Forall P l -> P (VList t l).
  Hypothesis HObj : forall c f, Forall (fun kv => P (snd kv)) f -> P (VObj c f).
  Hypothesis HAny : forall q t tl a ch, Forall P ch -> P (VAny q t tl a ch).
  Hypothesis HDer : forall q v ty, P v -> P (VDerived q v ty).
  Hypothesis HMap : forall m, P (VMap m).
  Fixpoint value_ind' (v : value) : P v :=
    match v with
    | VNone => HNone
    | VP p => HP p
    | VList t l => HList t l ((fix go (l : list value) : Forall P l :=
                                 match l with [] => Forall_nil _ | x :: r => Forall_cons _ (value_ind' x) (go r) end) l)
    | VObj c f => HObj c f ((fix go (l : list (str * value)) : Forall (fun kv => P (snd kv)) l :=
                               match l with [] => Forall_nil _ | x :: r => Forall_cons _ (value_ind' (snd x)) (go r) end) f)
    | VAny q t tl a ch => HAny q t tl a ch ((fix go (l : list value) : Forall P l :=
                                 match l with [] => Forall_nil _ | x :: r => Forall_cons _ (value_ind' x) (go r) end) ch)
    | VDerived q v ty => HDer q v ty (value_ind' v)
    | VMap m => HMap m
    end.
End ValueInd.

Lemma Forall2_refl_of {A} (R : A -> A -> Prop) l : Forall (fun x => R x x) l -> Forall2 R l l.
Proof. induction 1; constructor; assumption. Qed.

Lemma value_equiv_refl v : value_equiv v v.
Proof.
  induction v as [|p|t l IH|c f IH|q t tl a ch IH|q v ty IH|m] using value_ind'; constructor;
    try apply dict_equiv_refl; try exact IH.
  - apply Forall2_refl_of. exact IH.
  - apply Forall2_refl_of. apply Forall_impl with (2 := IH). intros kv H. split; [reflexivity|exact H].
  - apply Forall2_refl_of. exact IH.
Qed.

Lemma Forall2_trans_of {A} (R : A -> A -> Prop) l :
  Forall (fun x => forall y z, R x y -> R y z -> R x z) l ->
  forall l' l'', Forall2 R l l' -> Forall2 R l' l'' -> Forall2 R l l''.
Proof.
  induction 1 as [|x l Hx Hl IH]; intros l' l'' H1 H2; inversion H1; subst; inversion H2; subst; constructor.
  - eapply Hx; eassumption.
  - eapply IH; eassumption.
Qed.

Lemma value_equiv_trans a : forall b c, value_equiv a b -> value_equiv b c -> value_equiv a c.
Proof.
  induction a as [|p|t l IH|cl f IH|q t tl at_ ch IH|q v ty IH|m] using value_ind'; intros b c0 H1 H2;
    apply ve_inv in H1; cbn [ve_shape] in H1.
  - subst b. exact H2.
  - subst b. exact H2.
  - destruct H1 as (l' & -> & Hl). apply ve_inv in H2. destruct H2 as (l'' & -> & Hl').
    constructor. eapply Forall2_trans_of; eassumption.
  - destruct H1 as (f' & -> & Hf). apply ve_inv in H2. destruct H2 as (f'' & -> & Hf').
    constructor. eapply Forall2_trans_of; [|eassumption|eassumption].
    apply Forall_impl with (2 := IH). intros kv Hkv y z [E1 R1] [E2 R2]. split; [congruence|].
    eapply Hkv; eassumption.
  - destruct H1 as (a' & ch' & -> & Ha & Hc). apply ve_inv in H2. destruct H2 as (a'' & ch'' & -> & Ha' & Hc').
    constructor; [eapply dict_equiv_trans; eassumption|]. eapply Forall2_trans_of; eassumption.
  - destruct H1 as (v' & -> & Hv). apply ve_inv in H2. destruct H2 as (v'' & -> & Hv').
    constructor. eapply IH; eassumption.
  - destruct H1 as (m' & -> & Hm). apply ve_inv in H2. destruct H2 as (m'' & -> & Hm').
    constructor. eapply dict_equiv_trans; eassumption.
Qed.

Lemma Forall2_sym_of {A} (R : A -> A -> Prop) l :
  Forall (fun x => forall y, R x y -> R y x) l -> forall l', Forall2 R l l' -> Forall2 R l' l.
Proof.
  induction 1 as [|x l Hx Hl IH]; intros l' H1; inversion H1; subst; constructor; auto.
Qed.

Lemma value_equiv_sym a : forall b, value_equiv a b -> value_equiv b a.
Proof.
  induction a as [|p|t l IH|cl f IH|q t tl at_ ch IH|q v ty IH|m] using value_ind'; intros b H1;
    apply ve_inv in H1; cbn [ve_shape] in H1.
  - subst b. constructor.
  - subst b. constructor.
  - destruct H1 as (l' & -> & Hl). constructor. eapply Forall2_sym_of; eassumption.
  - destruct H1 as (f' & -> & Hf). constructor. eapply Forall2_sym_of; [|eassumption].
    apply Forall_impl with (2 := IH). intros kv Hkv y [E1 R1]. split; [congruence|]. apply Hkv. exact R1.
  - destruct H1 as (a' & ch' & -> & Ha & Hc). constructor; [apply dict_equiv_sym; exact Ha|].
    eapply Forall2_sym_of; eassumption.
  - destruct H1 as (v' & -> & Hv). constructor. apply IH. exact Hv.
  - destruct H1 as (m' & -> & Hm). constructor. apply dict_equiv_sym. exact Hm.
Qed.

Lemma Forall2_ve_refl l : Forall2 value_equiv l l.
Proof. apply Forall2_refl_of. apply Forall_forall. intros x _. apply value_equiv_refl. Qed.

Lemma Forall2_ve_trans l l' l'' :
  Forall2 value_equiv l l' -> Forall2 value_equiv l' l'' -> Forall2 value_equiv l l''.
Proof.
  apply Forall2_trans_of. apply Forall_forall. intros x _ y z. apply value_equiv_trans.
Qed.

(* ================================================================ 3. params and objects up to dict order *)
Definition pval_equiv (x y : pval) : Prop :=
  match x, y with
  | PV v, PV v' => value_equiv v v'
  | PPend l f, PPend l' f' => Forall2 value_equiv l l' /\ f = f'
  | _, _ => False
  end.

(* the kwargs of the two runs are equal as FINITE MAPS *)
Definition params_equiv (p p' : params) : Prop := forall n, opt_rel pval_equiv (assoc n p) (assoc n p').

Definition obj_rel (x y : option qname * value) : Prop := fst x = fst y /\ value_equiv (snd x) (snd y).
Definition objs_rel : objects -> objects -> Prop := Forall2 obj_rel.

Lemma pval_equiv_refl x : pval_equiv x x.
Proof. destruct x; cbn; [apply value_equiv_refl|split; [apply Forall2_ve_refl|reflexivity]]. Qed.
Lemma pval_equiv_trans x y z : pval_equiv x y -> pval_equiv y z -> pval_equiv x z.
Proof.
  destruct x, y, z; cbn; try contradiction.
  - apply value_equiv_trans.
  - intros [H1 ->] [H2 ->]. split; [eapply Forall2_ve_trans; eassumption|reflexivity].
Qed.

Lemma opt_rel_refl {A} (R : A -> A -> Prop) o : (forall x, R x x) -> opt_rel R o o.
Proof. intros H. destruct o; cbn; auto. Qed.
Lemma opt_rel_trans {A} (R : A -> A -> Prop) a b c :
  (forall x y z, R x y -> R y z -> R x z) -> opt_rel R a b -> opt_rel R b c -> opt_rel R a c.
Proof. intros H. destruct a, b, c; cbn; try contradiction; eauto. Qed.

Lemma params_equiv_refl p : params_equiv p p.
Proof. intros n. apply opt_rel_refl. apply pval_equiv_refl. Qed.
Lemma params_equiv_trans p p' p'' : params_equiv p p' -> params_equiv p' p'' -> params_equiv p p''.
Proof. intros H H' n. eapply opt_rel_trans; [apply pval_equiv_trans|apply H|apply H']. Qed.

Lemma objs_rel_refl o : objs_rel o o.
Proof. apply Forall2_refl_of. apply Forall_forall. intros x _. split; [reflexivity|apply value_equiv_refl]. Qed.

Lemma res_rel_trans {A} (R : A -> A -> Prop) a b c :
  (forall x y z, R x y -> R y z -> R x z) -> res_rel R a b -> res_rel R b c -> res_rel R a c.
Proof. intros H. destruct a, b, c; cbn; try contradiction; eauto. congruence. Qed.

Lemma assoc_pset k n v p : assoc k (pset n v p) = if str_eqb k n then Some v else assoc k p.
Proof.
  induction p as [|[k0 x] r IH]; cbn [pset assoc]; [reflexivity|].
  destruct (str_eqb_spec n k0) as [->|Hn]; cbn [assoc].
  - destruct (str_eqb k k0); reflexivity.
  - rewrite IH. destruct (str_eqb_spec k k0) as [->|Hk]; [|reflexivity].
    rewrite (str_eqb_neq k0 n); [reflexivity|congruence].
Qed.

Lemma assoc_mset k q v m : assoc k (mset q v m) = if str_eqb k q then Some v else assoc k m.
Proof.
  induction m as [|[k0 x] r IH]; cbn [mset assoc]; [reflexivity|].
  destruct (str_eqb_spec q k0) as [->|Hn]; cbn [assoc].
  - destruct (str_eqb k k0); reflexivity.
  - rewrite IH. destruct (str_eqb_spec k k0) as [->|Hk]; [|reflexivity].
    rewrite (str_eqb_neq k0 q); [reflexivity|congruence].
Qed.

Lemma pset_equiv n v v' p p' : params_equiv p p' -> pval_equiv v v' -> params_equiv (pset n v p) (pset n v' p').
Proof. intros Hp Hv k. rewrite !assoc_pset. destruct (str_eqb k n); [exact Hv|apply Hp]. Qed.

Lemma pmem_equiv n p p' : params_equiv p p' -> pmem n p = pmem n p'.
Proof. intros H. unfold pmem. specialize (H n). destruct (assoc n p), (assoc n p'); cbn in *; tauto. Qed.

Lemma mset_dict_eq q v m m' : dict_eq m m' -> dict_eq (mset q v m) (mset q v m').
Proof. intros H k. rewrite !assoc_mset. destruct (str_eqb k q); [reflexivity|apply H]. Qed.

Lemma mset_keys q v m j : In j (map fst (mset q v m)) -> j = q \/ In j (map fst m).
Proof.
  induction m as [|[k x] r IH]; cbn [mset map fst In].
  - intros [E|[]]. left. symmetry. exact E.
  - destruct (str_eqb q k); cbn [map fst In]; [intros H; right; exact H|].
    intros [E|H]; [right; left; exact E|]. destruct (IH H) as [E|H']; [left; exact E|right; right; exact H'].
Qed.

Lemma mset_nodup q v m : NoDup (map fst m) -> NoDup (map fst (mset q v m)).
Proof.
  induction m as [|[k x] r IH]; cbn [mset map fst]; intros Hn.
  - constructor; [intros []|constructor].
  - inversion Hn as [|? ? Hk Hn']; subst. destruct (str_eqb_spec q k) as [->|Hq]; cbn [map fst].
    + constructor; assumption.
    + constructor; [|exact (IH Hn')]. intros Hin. destruct (mset_keys _ _ _ _ Hin) as [E|H]; [congruence|contradiction].
Qed.

Lemma mset_dict_equiv q v m m' : dict_equiv m m' -> dict_equiv (mset q v m) (mset q v m').
Proof.
  intros [->|[Hn Hp]]; [left; reflexivity|]. apply dict_equiv_of_eq.
  - apply mset_dict_eq. apply perm_dict_eq; assumption.
  - apply mset_nodup. exact Hn.
  - apply mset_nodup. exact (perm_keys_nodup _ _ Hp Hn).
Qed.

(* ---------------------------------------------------------------- reads of bound values *)
Lemma truthy_equiv a b : value_equiv a b -> truthy a = truthy b.
Proof.
  destruct 1 as [|p|t l l' Hl|c f f' Hf|q t tl a a' ch ch' Ha Hc|q v v' ty Hv|m m' Hm]; try reflexivity.
  - destruct Hl; reflexivity.
  - destruct m as [|x m], m' as [|y m']; try reflexivity.
    + apply dict_equiv_nil_l in Hm. discriminate.
    + apply dict_equiv_nil_r in Hm. discriminate.
Qed.

Lemma is_model_value_equiv a b : value_equiv a b -> is_model_value a = is_model_value b.
Proof. destruct 1; reflexivity. Qed.

Lemma score_value_equiv a b : value_equiv a b -> score_value a = score_value b.
Proof. destruct 1; reflexivity. Qed.

Lemma score_fields_equiv f f' : Forall2 (field_rel value_equiv) f f' -> forall z,
  fold_left (fun acc (kv : str * value) => (acc + score_value (snd kv))%Z) f z
  = fold_left (fun acc (kv : str * value) => (acc + score_value (snd kv))%Z) f' z.
Proof.
  induction 1 as [|x y f f' [_ Hxy] Hf IH]; intros z; cbn [fold_left]; [reflexivity|].
  rewrite (score_value_equiv _ _ Hxy). apply IH.
Qed.

Lemma score_object_equiv a b : value_equiv a b -> score_object a = score_object b.
Proof.
  intros H. unfold score_object. rewrite (truthy_equiv a b H). destruct (negb (truthy b)); [reflexivity|].
  destruct H as [|p|t l l' Hl|c f f' Hf|q t tl a a' ch ch' Ha Hc|q v v' ty Hv|m m' Hm]; try reflexivity.
  - apply score_fields_equiv. exact Hf.
  - rewrite (score_value_equiv _ _ Hv). reflexivity.
Qed.

Section WithConv.
  Variable c : conv.

  Lemma ser_items_equiv fmt l l' : Forall2 value_equiv l l' ->
    map (fun x => match x with VP p => ser_prim c fmt p | _ => [] end) l
    = map (fun x => match x with VP p => ser_prim c fmt p | _ => [] end) l'.
  Proof.
    induction 1 as [|x y l l' Hxy Hl IH]; cbn [map]; [reflexivity|]. rewrite IH. f_equal.
    destruct Hxy; reflexivity.
  Qed.

  Lemma serialize_value_equiv fmt a b : value_equiv a b -> serialize_value c fmt a = serialize_value c fmt b.
  Proof.
    destruct 1 as [|p|t l l' Hl|cl f f' Hf|q t tl a a' ch ch' Ha Hc|q v v' ty Hv|m m' Hm]; try reflexivity.
    cbn [serialize_value]. rewrite (ser_items_equiv fmt l l' Hl). reflexivity.
  Qed.

  Lemma prepare_generic_value_equiv q a b : value_equiv a b ->
    value_equiv (prepare_generic_value c q a) (prepare_generic_value c q b).
  Proof.
    intros H. unfold prepare_generic_value. destruct (truthy_str q) as [qn|]; [|exact H].
    rewrite (is_model_value_equiv a b H). destruct (is_model_value b); [exact H|].
    rewrite (serialize_value_equiv None a b H). apply value_equiv_refl.
  Qed.
End WithConv.

(* ---------------------------------------------------------------- list helpers *)
Lemma Forall2_app_one' {A} (P : A -> A -> Prop) l l' x x' : Forall2 P l l' -> P x x' -> Forall2 P (l ++ [x]) (l' ++ [x']).
Proof. intros H Hx. apply Forall2_app; [exact H|constructor; [exact Hx|constructor]]. Qed.

Lemma Forall2_skipn {A} (P : A -> A -> Prop) n : forall l l', Forall2 P l l' -> Forall2 P (skipn n l) (skipn n l').
Proof. induction n as [|n IH]; intros l l' H; [exact H|]. destruct H; cbn [skipn]; [constructor|apply IH; assumption]. Qed.
Lemma Forall2_firstn {A} (P : A -> A -> Prop) n : forall l l', Forall2 P l l' -> Forall2 P (firstn n l) (firstn n l').
Proof.
  induction n as [|n IH]; intros l l' H; [constructor|]. destruct H; cbn [firstn]; constructor; [assumption|apply IH; assumption].
Qed.
Lemma Forall2_map2 {A B} (P : A -> A -> Prop) (Q : B -> B -> Prop) (f g : A -> B) l l' :
  (forall x y, P x y -> Q (f x) (g y)) -> Forall2 P l l' -> Forall2 Q (map f l) (map g l').
Proof. intros H. induction 1; cbn [map]; constructor; auto. Qed.

(* ---------------------------------------------------------------- collections *)
Ltac rel_pget Hp n Hn :=
  pose proof (Hp n) as Hn; unfold pget;
  let v := fresh "v" in let v' := fresh "v'" in let l := fresh "l" in let l' := fresh "l'" in
  let g := fresh "g" in let g' := fresh "g'" in
  destruct (assoc n _) as [[v|l g]|], (assoc n _) as [[v'|l' g']|]; cbn [opt_rel pval_equiv] in Hn; try contradiction.

Lemma coll_append_equiv n f x x' p p' : params_equiv p p' -> value_equiv x x' ->
  res_rel params_equiv (coll_append n f x p) (coll_append n f x' p').
Proof.
  intros Hp Hx. unfold coll_append. rel_pget Hp n Hn.
  - destruct Hn as [|pp|t l l' Hl|cl ff ff' Hf|q t tl a a' ch ch' Ha Hc|q v v' ty Hv|m m' Hm]; try reflexivity.
    + cbn [res_rel]. apply pset_equiv; [exact Hp|]. cbn. split; [|reflexivity]. constructor; [exact Hx|constructor].
    + destruct t; [reflexivity|]. cbn [res_rel]. apply pset_equiv; [exact Hp|]. cbn. constructor.
      apply Forall2_app_one'; assumption.
  - destruct Hn as [Hl ->]. cbn [res_rel]. apply pset_equiv; [exact Hp|]. cbn. split; [|reflexivity].
    apply Forall2_app_one'; assumption.
  - cbn [res_rel]. apply pset_equiv; [exact Hp|]. cbn. split; [|reflexivity]. constructor; [exact Hx|constructor].
Qed.

Lemma coll_insert0_equiv n f x x' p p' : params_equiv p p' -> value_equiv x x' ->
  res_rel params_equiv (coll_insert0 n f x p) (coll_insert0 n f x' p').
Proof.
  intros Hp Hx. unfold coll_insert0. rel_pget Hp n Hn.
  - destruct Hn as [|pp|t l l' Hl|cl ff ff' Hf|q t tl a a' ch ch' Ha Hc|q v v' ty Hv|m m' Hm]; try reflexivity.
    + cbn [res_rel]. apply pset_equiv; [exact Hp|]. cbn. split; [|reflexivity]. constructor; [exact Hx|constructor].
    + destruct t; [reflexivity|]. cbn [res_rel]. apply pset_equiv; [exact Hp|]. cbn. constructor.
      constructor; assumption.
  - destruct Hn as [Hl ->]. cbn [res_rel]. apply pset_equiv; [exact Hp|]. cbn. split; [|reflexivity].
    constructor; assumption.
  - cbn [res_rel]. apply pset_equiv; [exact Hp|]. cbn. split; [|reflexivity]. constructor; [exact Hx|constructor].
Qed.

Lemma rbind_rel {A B} (R : A -> A -> Prop) (Q : B -> B -> Prop) r r' (f f' : A -> res B) :
  res_rel R r r' -> (forall a a', R a a' -> res_rel Q (f a) (f' a')) -> res_rel Q (rbind r f) (rbind r' f').
Proof. destruct r, r'; cbn [res_rel rbind]; try contradiction; auto. Qed.

Lemma map_res_rel {A B} (R : B -> B -> Prop) (f g : A -> res B) l :
  (forall x, res_rel R (f x) (g x)) -> res_rel (Forall2 R) (map_res f l) (map_res g l).
Proof.
  intros H. induction l as [|x l IH]; cbn [map_res]; [constructor|].
  eapply rbind_rel; [apply H|]. intros y y' Hy. eapply rbind_rel; [exact IH|]. intros ys ys' Hys.
  cbn [res_rel]. constructor; assumption.
Qed.

Lemma existsb_keys_iff {A} (f : str -> bool) (l : list (str * A)) :
  existsb (fun kv => f (fst kv)) l = true <-> exists k, is_some (assoc k l) = true /\ f k = true.
Proof.
  rewrite existsb_exists. split.
  - intros ([k v] & Hin & Hf). exists k. split; [|exact Hf].
    destruct (assoc k l) eqn:E; [reflexivity|]. exfalso. apply (assoc_None_notin _ _ E).
    apply (in_map fst) in Hin. exact Hin.
  - intros (k & Hs & Hf). destruct (assoc k l) as [v|] eqn:E; [|discriminate].
    exists (k, v). split; [apply assoc_In; exact E|exact Hf].
Qed.

Definition bp_rel (r r' : bool * params) : Prop := fst r = fst r' /\ params_equiv (snd r) (snd r').
Definition pw_rel (r r' : params * list warning) : Prop := params_equiv (fst r) (fst r') /\ snd r = snd r'.

Section BindCompat.
  Variable cfg : pconfig.
  Variable c : conv.

  Lemma bind_var_equiv var v v' p p' : params_equiv p p' -> value_equiv v v' ->
    res_rel bp_rel (bind_var var v p) (bind_var var v' p').
  Proof.
    intros Hp Hv. unfold bind_var. destruct (v_init var); [|cbn; split; [reflexivity|exact Hp]].
    destruct (v_list_element var).
    - eapply rbind_rel; [apply coll_append_equiv; eassumption|]. intros a a' Ha. cbn. split; [reflexivity|exact Ha].
    - rewrite (pmem_equiv _ _ _ Hp). destruct (pmem (v_name var) p'); cbn; (split; [reflexivity|]); [exact Hp|].
      apply pset_equiv; [exact Hp|exact Hv].
  Qed.

  Lemma bind_wild_var_equiv var q v v' p p' : params_equiv p p' -> value_equiv v v' ->
    res_rel params_equiv (bind_wild_var c var q v p) (bind_wild_var c var q v' p').
  Proof.
    intros Hp Hv0. unfold bind_wild_var.
    pose proof (prepare_generic_value_equiv c q v v' Hv0) as Hv.
    destruct (v_list_element var); [apply coll_append_equiv; assumption|].
    rel_pget Hp (v_name var) Hn.
    - destruct Hn as [|pp|t l l' Hl|cl ff ff' Hf|q0 t tl a a' ch ch' Ha Hc|q0 w w' ty Hw|m m' Hm];
        try (cbn [res_rel]; apply pset_equiv; [exact Hp|]; cbn [pval_equiv]; constructor; [apply dict_equiv_refl|];
             constructor; [|constructor; [exact Hv|constructor]]; constructor; assumption).
      destruct q0 as [[|x q0]|]; cbn [res_rel]; apply pset_equiv; try exact Hp; cbn [pval_equiv].
        * constructor; [exact Ha|]. apply Forall2_app_one'; assumption.
        * constructor; [apply dict_equiv_refl|]. constructor; [constructor; assumption|constructor; [exact Hv|constructor]].
        * constructor; [exact Ha|]. apply Forall2_app_one'; assumption.
    - reflexivity.
    - cbn [res_rel]. apply pset_equiv; [exact Hp|exact Hv].
  Qed.

  Lemma bind_object_loop_equiv wrapper q v v' vars : value_equiv v v' -> forall p p', params_equiv p p' ->
    res_rel bp_rel (bind_object_loop c wrapper q v vars p) (bind_object_loop c wrapper q v' vars p').
  Proof.
    intros Hv. induction vars as [|var rest IH]; intros p p' Hp; cbn [bind_object_loop].
    - cbn. split; [reflexivity|exact Hp].
    - destruct (wrapper_mismatch wrapper var); [apply IH; exact Hp|].
      destruct (v_is KWildcard var).
      + eapply rbind_rel; [apply bind_wild_var_equiv; eassumption|]. intros a a' Ha. cbn. split; [reflexivity|exact Ha].
      + eapply rbind_rel; [apply bind_var_equiv; eassumption|]. intros [b a] [b' a'] [Hb Ha]. cbn [fst snd] in *. subst b'.
        destruct b; [cbn; split; [reflexivity|exact Ha]|apply IH; exact Ha].
  Qed.

  Lemma bind_objects_loop_equiv m objs objs' : objs_rel objs objs' -> forall p p' wr ws, params_equiv p p' ->
    res_rel pw_rel (bind_objects_loop c m objs p wr ws) (bind_objects_loop c m objs' p' wr ws).
  Proof.
    induction 1 as [|[q v] [q' v'] objs objs' [Hq Hv] Ho IH]; intros p p' wr ws Hp; cbn [bind_objects_loop].
    - cbn. split; [exact Hp|reflexivity].
    - cbn [fst snd] in Hq, Hv. subst q'.
      destruct (match q with Some qn => wrappers_pop qn wr | None => (None, wr) end) as [wrapper wr'].
      destruct (find_children_opt m q) as [vars|k]; cbn [rbind]; [|reflexivity].
      eapply rbind_rel; [apply bind_object_loop_equiv; eassumption|]. intros [b a] [b' a'] [Hb Ha]. cbn [fst snd] in *. subst b'.
      apply IH. exact Ha.
  Qed.

  Definition bt_rel (r r' : bool * params * list warning) : Prop :=
    fst (fst r) = fst (fst r') /\ params_equiv (snd (fst r)) (snd (fst r')) /\ snd r = snd r'.

  Lemma bind_text_equiv en p p' text : params_equiv p p' ->
    res_rel bt_rel (bind_text cfg c en p text) (bind_text cfg c en p' text).
  Proof.
    intros Hp. unfold bind_text.
    assert (Hf : bt_rel (false, p, []) (false, p', [])) by (repeat split; exact Hp).
    destruct (m_text (en_meta en)) as [var|]; [|exact Hf].
    destruct (negb (is_some text) && negb (xsi_nil_true en)); [exact Hf|].
    match goal with |- res_rel _ (rbind ?X _) _ => destruct X as [[v ws]|k] end; cbn [rbind]; [|reflexivity].
    destruct (v_init var).
    - cbn [res_rel]. repeat split. cbn [fst snd]. apply pset_equiv; [exact Hp|apply value_equiv_refl].
    - destruct (validate_fixed c var v); cbn [rbind res_rel]; [|reflexivity]. repeat split. exact Hp.
  Qed.

  Lemma map_fst_paa a ns : map fst (parse_any_attributes a ns) = map fst a.
  Proof. unfold parse_any_attributes. rewrite map_map. apply map_ext. reflexivity. Qed.

  Lemma parse_any_attributes_perm a a' ns : Permutation a a' -> NoDup (map fst a) ->
    dict_equiv (parse_any_attributes a ns) (parse_any_attributes a' ns).
  Proof.
    intros Hp Hn. right. split; [rewrite map_fst_paa; exact Hn|]. apply Permutation_map. exact Hp.
  Qed.

  Definition pb_rel (r r' : params * bool) : Prop := params_equiv (fst r) (fst r') /\ snd r = snd r'.

  Lemma bind_wild_text_equiv en a' var p p' text tail :
    Permutation (en_attrs en) a' -> NoDup (map fst (en_attrs en)) -> params_equiv p p' ->
    res_rel pb_rel (bind_wild_text en var p text tail) (bind_wild_text (with_attrs en a') var p' text tail).
  Proof.
    intros Ha Hn Hp. unfold bind_wild_text. cbn [with_attrs en_attrs en_ns].
    pose proof (parse_any_attributes_perm _ _ (en_ns en) Ha Hn) as Hd.
    assert (Hmain : res_rel pb_rel
      (if v_list_element var
       then rbind (coll_insert0 (v_name var) (v_factory var) (raw_value (normalize_content text)) p) (fun p'0 => ROk (p'0, false))
       else match pget (v_name var) p with
            | Some (PV prev) => ROk (pset (v_name var) (PV (VAny None (normalize_content text) (normalize_content tail)
                                     (parse_any_attributes (en_attrs en) (en_ns en)) (if truthy prev then [prev] else []))) p, true)
            | Some (PPend _ _) => RErr ModelGap
            | None => ROk (pset (v_name var) (PV (VAny None (normalize_content text) (normalize_content tail)
                                     (parse_any_attributes (en_attrs en) (en_ns en)) [])) p, true)
            end)
      (if v_list_element var
       then rbind (coll_insert0 (v_name var) (v_factory var) (raw_value (normalize_content text)) p') (fun p'0 => ROk (p'0, false))
       else match pget (v_name var) p' with
            | Some (PV prev) => ROk (pset (v_name var) (PV (VAny None (normalize_content text) (normalize_content tail)
                                     (parse_any_attributes a' (en_ns en)) (if truthy prev then [prev] else []))) p', true)
            | Some (PPend _ _) => RErr ModelGap
            | None => ROk (pset (v_name var) (PV (VAny None (normalize_content text) (normalize_content tail)
                                     (parse_any_attributes a' (en_ns en)) [])) p', true)
            end)).
    { destruct (v_list_element var).
      - eapply rbind_rel; [apply coll_insert0_equiv; [exact Hp|apply value_equiv_refl]|].
        intros x x' Hx. cbn. split; [exact Hx|reflexivity].
      - rel_pget Hp (v_name var) Hv.
        + cbn. split; [|reflexivity]. apply pset_equiv; [exact Hp|]. cbn [pval_equiv]. constructor; [exact Hd|].
          rewrite (truthy_equiv _ _ Hv). destruct (truthy v'); constructor; [exact Hv|constructor].
        + reflexivity.
        + cbn. split; [|reflexivity]. apply pset_equiv; [exact Hp|]. cbn [pval_equiv]. constructor; [exact Hd|constructor]. }
    destruct (normalize_content text), (normalize_content tail); try exact Hmain.
    cbn. split; [exact Hp|reflexivity].
  Qed.
End BindCompat.

Definition r1_rel (r r' : params * list warning * bool) : Prop :=
  params_equiv (fst (fst r)) (fst (fst r')) /\ snd (fst r) = snd (fst r') /\ snd r = snd r'.
Definition bc_rel (r r' : params * objects * list warning * bool) : Prop :=
  params_equiv (fst (fst (fst r))) (fst (fst (fst r'))) /\ objs_rel (snd (fst (fst r))) (snd (fst (fst r')))
  /\ snd (fst r) = snd (fst r') /\ snd r = snd r'.

Definition eval1 (x : pval) : value := match x with PV v => v | PPend l f => VList (is_tuple_f f) l end.

Lemma assoc_evaluate n p : assoc n (evaluate p) = option_map eval1 (assoc n p).
Proof.
  induction p as [|[k x] p IH]; cbn [evaluate map assoc fst snd]; [reflexivity|].
  destruct (str_eqb n k); [reflexivity|exact IH].
Qed.

Lemma evaluate_equiv p p' n : params_equiv p p' ->
  opt_rel value_equiv (assoc n (evaluate p)) (assoc n (evaluate p')).
Proof.
  intros Hp. rewrite !assoc_evaluate. specialize (Hp n).
  destruct (assoc n p) as [[v|l f]|], (assoc n p') as [[v'|l' f']|]; cbn in *; try contradiction; auto.
  destruct Hp as [Hl ->]. constructor. exact Hl.
Qed.

Section BindCompat2.
  Variable cfg : pconfig.
  Variable c : conv.

  Lemma objects_text_equiv en a' objs objs' p p' text : objs_rel objs objs' -> params_equiv p p' ->
    res_rel r1_rel
      (do r <- bind_objects_loop c (en_meta en) objs p (en_wrappers en) [];
       do t <- bind_text cfg c en (fst r) text;
       let '(bt, p1, ws') := t in ROk (p1, snd r ++ ws', bt))
      (do r <- bind_objects_loop c (en_meta en) objs' p' (en_wrappers en) [];
       do t <- bind_text cfg c (with_attrs en a') (fst r) text;
       let '(bt, p1, ws') := t in ROk (p1, snd r ++ ws', bt)).
  Proof.
    intros Ho Hp. eapply rbind_rel; [apply bind_objects_loop_equiv; eassumption|].
    intros [p1 w1] [p1' w1'] [Hp1 Hw1]. cbn [fst snd] in *. subst w1'.
    change (bind_text cfg c (with_attrs en a') p1' text) with (bind_text cfg c en p1' text).
    eapply rbind_rel; [apply bind_text_equiv; exact Hp1|].
    intros [[bt p2] w2] [[bt' p2'] w2'] (Hb & Hp2 & Hw2). cbn [fst snd] in *. subst bt' w2'.
    cbn [res_rel]. repeat split. exact Hp2.
  Qed.

  Lemma bind_content_equiv en a' p p' text tail objs objs' :
    Permutation (en_attrs en) a' -> NoDup (map fst (en_attrs en)) -> params_equiv p p' -> objs_rel objs objs' ->
    res_rel bc_rel (bind_content cfg c en p text tail objs) (bind_content cfg c (with_attrs en a') p' text tail objs').
  Proof.
    intros Ha Hn Hp Ho. unfold bind_content. cbn [with_attrs en_meta en_position en_wrappers].
    pose proof (Forall2_skipn _ (en_position en) _ _ Ho) as Hsk.
    pose proof (Forall2_firstn _ (en_position en) _ _ Ho) as Hfi.
    eapply rbind_rel with (R := r1_rel).
    - destruct (find_any_wildcard (en_meta en)) as [wv|].
      + destruct (v_mixed wv).
        * cbn [res_rel]. repeat split. cbn [fst snd]. apply pset_equiv; [exact Hp|]. cbn [pval_equiv]. constructor.
          eapply Forall2_map2; [|exact Hsk]. intros [q v] [q' v'] [Hq Hv]. cbn [fst snd] in *. subst q'.
          apply prepare_generic_value_equiv. exact Hv.
        * apply objects_text_equiv; assumption.
      + apply objects_text_equiv; assumption.
    - intros [[p1 w1] bt] [[p1' w1'] bt'] (Hp1 & Hw1 & Hb). cbn [fst snd] in *. subst w1' bt'.
      assert (Hdone : forall b, res_rel bc_rel (ROk (p1, firstn (en_position en) objs, w1, b))
                                              (ROk (p1', firstn (en_position en) objs', w1, b))).
      { intros b. cbn [res_rel]. repeat split; assumption. }
      destruct (find_any_wildcard (en_meta en)) as [wv|]; [|apply Hdone].
      destruct bt; [apply Hdone|].
      eapply rbind_rel; [apply bind_wild_text_equiv; eassumption|].
      intros [p2 b2] [p2' b2'] [Hp2 Hb2]. cbn [fst snd] in *. subst b2'.
      cbn [res_rel]. repeat split; assumption.
  Qed.

  Lemma class_factory_equiv m p p' : params_equiv p p' ->
    res_rel value_equiv (class_factory cfg m (evaluate p)) (class_factory cfg m (evaluate p')).
  Proof.
    intros Hp. unfold class_factory.
    set (unexpected := fun k : str => negb (existsb (fun v => v_init v && str_eqb (v_name v) k) (get_all_vars m))).
    assert (Hex : existsb (fun kv : str * value => unexpected (fst kv)) (evaluate p)
                  = existsb (fun kv : str * value => unexpected (fst kv)) (evaluate p')).
    { apply eq_true_iff_eq. rewrite !existsb_keys_iff.
      assert (Hs : forall k, is_some (assoc k (evaluate p)) = is_some (assoc k (evaluate p'))).
      { intros k. pose proof (evaluate_equiv p p' k Hp) as H.
        destruct (assoc k (evaluate p)), (assoc k (evaluate p')); cbn in *; tauto. }
      split; intros (k & H1 & H2); exists k; (split; [|exact H2]); [rewrite <- Hs|rewrite Hs]; exact H1. }
    change (existsb (fun kv : str * value => negb (existsb (fun v => v_init v && str_eqb (v_name v) (fst kv)) (get_all_vars m))) (evaluate p))
      with (existsb (fun kv : str * value => unexpected (fst kv)) (evaluate p)).
    change (existsb (fun kv : str * value => negb (existsb (fun v => v_init v && str_eqb (v_name v) (fst kv)) (get_all_vars m))) (evaluate p'))
      with (existsb (fun kv : str * value => unexpected (fst kv)) (evaluate p')).
    rewrite Hex. destruct (existsb (fun kv : str * value => unexpected (fst kv)) (evaluate p')); [reflexivity|].
    eapply rbind_rel with (R := Forall2 (field_rel value_equiv)).
    - apply map_res_rel. intros v. destruct (v_init v); cbn [andb].
      + pose proof (evaluate_equiv p p' (v_name v) Hp) as H.
        destruct (assoc (v_name v) (evaluate p)), (assoc (v_name v) (evaluate p')); cbn [opt_rel] in H; try contradiction.
        * cbn [res_rel]. split; [reflexivity|exact H].
        * destruct (existsb (str_eqb (v_name v)) _); cbn [res_rel]; [reflexivity|]. split; [reflexivity|apply value_equiv_refl].
      + cbn [res_rel]. split; [reflexivity|apply value_equiv_refl].
    - intros f f' Hf. cbn [res_rel]. constructor. exact Hf.
  Qed.
End BindCompat2.

(* ================================================================ 4. folds over permuted lists *)
Section FoldPerm.
  Context {A S K : Type}.
  Variable key : A -> K.
  Variable f : A -> S -> res S.
  Variable E : S -> S -> Prop.
  Variable I : S -> Prop.
  Hypothesis E_refl : forall s, E s s.
  Hypothesis E_trans : forall x y z, E x y -> E y z -> E x z.
  Hypothesis f_inv : forall a s s', I s -> f a s = ROk s' -> I s'.
  Hypothesis f_resp : forall a s s', I s -> I s' -> E s s' -> res_rel E (f a s) (f a s').
  Hypothesis f_swap : forall a b s, key a <> key b -> I s -> res_rel E (rbind (f a s) (f b)) (rbind (f b s) (f a)).

  Fixpoint fold_res (l : list A) (s : S) : res S :=
    match l with [] => ROk s | x :: r => rbind (f x s) (fold_res r) end.

  Lemma fold_resp l : forall s s', I s -> I s' -> E s s' -> res_rel E (fold_res l s) (fold_res l s').
  Proof.
    induction l as [|x l IH]; intros s s' Hi Hi' He; cbn [fold_res]; [exact He|].
    pose proof (f_resp x s s' Hi Hi' He) as H.
    destruct (f x s) as [t|k] eqn:E1, (f x s') as [t'|k'] eqn:E2; cbn [res_rel] in H; try contradiction; cbn [rbind]; [|exact H].
    apply IH; [exact (f_inv x s t Hi E1)|exact (f_inv x s' t' Hi' E2)|exact H].
  Qed.

  Lemma rbind_fold_resp l r r' : res_rel E r r' -> (forall t, r = ROk t -> I t) -> (forall t, r' = ROk t -> I t) ->
    res_rel E (rbind r (fold_res l)) (rbind r' (fold_res l)).
  Proof.
    intros He Hi Hi'. destruct r as [t|k], r' as [t'|k']; cbn [res_rel rbind] in *; try contradiction; [|exact He].
    apply fold_resp; auto.
  Qed.

  Lemma rbind_assoc {X Y Z} (r : res X) (g : X -> res Y) (h : Y -> res Z) :
    rbind (rbind r g) h = rbind r (fun x => rbind (g x) h).
  Proof. destruct r; reflexivity. Qed.

  Lemma rbind2_inv a b s t : I s -> rbind (f a s) (f b) = ROk t -> I t.
  Proof.
    intros Hi. destruct (f a s) as [s1|k] eqn:E1; cbn [rbind]; [|discriminate].
    intros E2. exact (f_inv b s1 t (f_inv a s s1 Hi E1) E2).
  Qed.

  Lemma fold_perm l l' : Permutation l l' -> NoDup (map key l) ->
    forall s s', I s -> I s' -> E s s' -> res_rel E (fold_res l s) (fold_res l' s').
  Proof.
    induction 1 as [|x l l' Hp IH|x y l|l l' l'' Hp1 IH1 Hp2 IH2]; intros Hn s s' Hi Hi' He.
    - exact He.
    - cbn [fold_res]. cbn [map] in Hn. inversion Hn as [|? ? Hx Hn']; subst.
      pose proof (f_resp x s s' Hi Hi' He) as H.
      destruct (f x s) as [t|k] eqn:E1, (f x s') as [t'|k'] eqn:E2; cbn [res_rel] in H; try contradiction; cbn [rbind]; [|exact H].
      apply IH; [exact Hn'|exact (f_inv x s t Hi E1)|exact (f_inv x s' t' Hi' E2)|exact H].
    - eapply (res_rel_trans E); [exact E_trans|apply (fold_resp (y :: x :: l) s s' Hi Hi' He)|].
      cbn [fold_res]. rewrite <- !rbind_assoc.
      cbn [map] in Hn. inversion Hn as [|? ? Hy Hn']; subst.
      apply rbind_fold_resp.
      + apply f_swap; [|exact Hi']. intros Eq. apply Hy. left. symmetry. exact Eq.
      + intros t. apply rbind2_inv. exact Hi'.
      + intros t. apply rbind2_inv. exact Hi'.
    - eapply (res_rel_trans E); [exact E_trans|apply (IH1 Hn s s Hi Hi (E_refl s))|].
      apply IH2; try assumption. eapply Permutation_NoDup; [apply Permutation_map; exact Hp1|exact Hn].
  Qed.
End FoldPerm.

(* ================================================================ 5. the guard on the metadata *)
(* names of the Attribute fields pairwise distinct, and distinct from the names of the Attributes
   fields (they are distinct dataclass fields in every XmlMeta the real context builds) *)
Fixpoint nodup_str (l : list str) : bool :=
  match l with [] => true | x :: r => negb (existsb (str_eqb x) r) && nodup_str r end.
Definition attr_names (m : xmeta) : list str := map (fun kv : qname * xvar => v_name (snd kv)) (m_attributes m).
Definition is_any_name (m : xmeta) (n : str) : bool := existsb (fun w => str_eqb (v_name w) n) (m_any_attributes m).
Definition meta_ok (m : xmeta) : bool :=
  nodup_str (attr_names m) && forallb (fun n => negb (is_any_name m n)) (attr_names m).
Definition universe_ok (u : universe) : bool := forallb (fun cm => meta_ok (snd cm)) (u_metas u).

Lemma existsb_str_In x l : existsb (str_eqb x) l = true <-> In x l.
Proof.
  rewrite existsb_exists. split.
  - intros (y & Hin & E). apply str_eqb_eq in E. subst y. exact Hin.
  - intros H. exists x. split; [exact H|apply str_eqb_refl].
Qed.

Lemma nodup_str_spec l : nodup_str l = true -> NoDup l.
Proof.
  induction l as [|x l IH]; cbn [nodup_str]; [constructor|].
  intros H. apply andb_true_iff in H as [H1 H2]. constructor; [|exact (IH H2)].
  intros Hin. apply existsb_str_In in Hin. rewrite Hin in H1. discriminate.
Qed.

Lemma assoc_names_distinct (l : list (qname * xvar)) q1 q2 v1 v2 :
  NoDup (map (fun kv : qname * xvar => v_name (snd kv)) l) -> assoc q1 l = Some v1 -> assoc q2 l = Some v2 -> q1 <> q2 ->
  v_name v1 <> v_name v2.
Proof.
  induction l as [|[k x] l IH]; cbn [assoc map snd]; [discriminate|].
  intros Hn H1 H2 Hq. inversion Hn as [|? ? Hx Hn']; subst.
  destruct (str_eqb_spec q1 k) as [->|N1], (str_eqb_spec q2 k) as [->|N2].
  - congruence.
  - injection H1 as ->. intros E. apply Hx. rewrite E.
    apply assoc_In in H2. apply (in_map (fun kv : qname * xvar => v_name (snd kv))) in H2. exact H2.
  - injection H2 as ->. intros E. apply Hx. rewrite <- E.
    apply assoc_In in H1. apply (in_map (fun kv : qname * xvar => v_name (snd kv))) in H1. exact H1.
  - exact (IH Hn' H1 H2 Hq).
Qed.

Lemma attr_names_distinct m q1 q2 v1 v2 : meta_ok m = true ->
  find_attribute m q1 = Some v1 -> find_attribute m q2 = Some v2 -> q1 <> q2 -> v_name v1 <> v_name v2.
Proof.
  intros Hm. apply andb_true_iff in Hm as [Hm _]. apply assoc_names_distinct. apply nodup_str_spec. exact Hm.
Qed.

Lemma attr_not_any m q v : meta_ok m = true -> find_attribute m q = Some v -> is_any_name m (v_name v) = false.
Proof.
  intros Hm H. apply andb_true_iff in Hm as [_ Hm]. rewrite forallb_forall in Hm.
  apply negb_true_iff. apply Hm. unfold attr_names. apply assoc_In in H.
  apply (in_map (fun kv : qname * xvar => v_name (snd kv))) in H. exact H.
Qed.

Lemma find_any_is_any m q w : find_any_attributes m q = Some w -> is_any_name m (v_name w) = true.
Proof.
  unfold find_any_attributes, find_by_namespace. intros H. apply find_some in H as [Hin _].
  unfold is_any_name. apply existsb_exists. exists w. split; [exact Hin|apply str_eqb_refl].
Qed.

(* ================================================================ 6. P1: bind_attrs under a permutation *)
Inductive act :=
| AErr
| ASkip (w : list warning)
| ASet (n : str) (v : value) (w : list warning)
| AMap (n : str) (q : qname) (x : str).

Definition act_ws (x : act) : list warning := match x with ASkip w => w | ASet _ _ w => w | _ => [] end.
Definition cur_map (n : str) (p : params) : list (qname * str) :=
  match pget n p with Some (PV (VMap m)) => m | _ => [] end.
Definition map_ok (n : str) (p : params) : bool :=
  match pget n p with None | Some (PV (VMap _)) => true | _ => false end.
Definition apply_p (x : act) (p : params) : res params :=
  match x with
  | AErr => RErr ParserError
  | ASkip _ => ROk p
  | ASet n v _ => ROk (pset n (PV v) p)
  | AMap n q x => if map_ok n p then ROk (pset n (PV (VMap (mset q x (cur_map n p)))) p) else RErr ModelGap
  end.
Definition astate := (params * list warning)%type.
Definition apply_act (x : act) (S : astate) : res astate :=
  do p' <- apply_p x (fst S); ROk (p', snd S ++ act_ws x).

Definition astate_equiv (S S' : astate) : Prop := params_equiv (fst S) (fst S') /\ Permutation (snd S) (snd S').

Lemma astate_equiv_refl S : astate_equiv S S.
Proof. split; [apply params_equiv_refl|apply Permutation_refl]. Qed.
Lemma astate_equiv_trans x y z : astate_equiv x y -> astate_equiv y z -> astate_equiv x z.
Proof. intros [H1 H2] [H3 H4]. split; [eapply params_equiv_trans; eassumption|eapply Permutation_trans; eassumption]. Qed.

Lemma pset_pset n x y p : pset n x (pset n y p) = pset n x p.
Proof.
  induction p as [|[k z] p IH]; cbn [pset].
  - rewrite str_eqb_refl. reflexivity.
  - destruct (str_eqb n k) eqn:E; cbn [pset]; rewrite E; [reflexivity|]. rewrite IH. reflexivity.
Qed.

Lemma map_res_err {A B} (f : A -> res B) l k k0 : (forall x k, f x = RErr k -> k = k0) -> map_res f l = RErr k -> k = k0.
Proof.
  intros H. induction l as [|x l IH]; cbn [map_res]; [discriminate|].
  destruct (f x) as [y|k1] eqn:E; cbn [rbind]; [|intros E'; injection E' as <-; exact (H _ _ E)].
  destruct (map_res f l) as [ys|k2]; cbn [rbind]; [discriminate|]. intros E'. injection E' as <-. apply IH. reflexivity.
Qed.

Section Attrs.
  Variable cfg : pconfig.
  Variable c : conv.

  Lemma deser_err tys fmt ns s k : deser c tys fmt ns s = RErr k -> k = ConverterError.
  Proof. unfold deser. destruct (c_deser c tys fmt ns s); [discriminate|congruence]. Qed.

  Lemma parse_value_err txt tys d ns tf fmt k : parse_value c txt tys d ns tf fmt = RErr k -> k = ConverterError.
  Proof.
    unfold parse_value. destruct txt as [s|]; [|discriminate]. destruct tf as [f|]; [|apply deser_err].
    destruct (map_res (deser c tys fmt ns) (split_ws py_isspace s)) as [l|k1] eqn:E; cbn [rbind]; [discriminate|].
    intros E'. injection E' as <-. eapply map_res_err; [|exact E]. intros x k0. apply deser_err.
  Qed.

  Lemma parse_var_err failc m var txt ns tys fmt k :
    parse_var c failc m var txt ns tys fmt = RErr k -> k = ParserError.
  Proof.
    unfold parse_var.
    match goal with |- match ?X with _ => _ end = _ -> _ => destruct X as [x|k1] eqn:E end; [discriminate|].
    apply parse_value_err in E. subst k1. destruct failc; [congruence|discriminate].
  Qed.

  Lemma validate_fixed_err var x k : validate_fixed c var x = RErr k -> k = ParserError.
  Proof.
    unfold validate_fixed.
    match goal with |- (if ?X then _ else _) = _ -> _ => destruct X end; [discriminate|].
    match goal with |- (if ?X then _ else _) = _ -> _ => destruct X end; [discriminate|congruence].
  Qed.

  Definition other_act (en : enode) (q : qname) (sval : str) : act :=
    match find_any_attributes (en_meta en) q with
    | Some var => AMap (v_name var) q (parse_any_attribute sval (en_ns en))
    | None => if fail_unknown_attrs cfg && negb (ostr_eqb (target_uri q) (Some XSI_NS)) then AErr else ASkip []
    end.

  Definition attr_act (en : enode) (a : qname * str) (bit : bool) : act :=
    match find_attribute (en_meta en) (fst a) with
    | Some var =>
        if bit then other_act en (fst a) (snd a)
        else match parse_var c (fail_conv_warnings cfg) (en_meta en) var (Some (snd a)) (en_ns en) None None with
             | RErr _ => AErr
             | ROk (v, w) =>
                 if v_init var then ASet (v_name var) v w
                 else match validate_fixed c var v with ROk _ => ASkip w | RErr _ => AErr end
             end
    | None => other_act en (fst a) (snd a)
    end.

  Definition attr_bit (en : enode) (a : qname * str) (p : params) : bool :=
    match find_attribute (en_meta en) (fst a) with Some var => pmem (v_name var) p | None => true end.

  Definition attr_step (en : enode) (a : qname * str) (S : astate) : res astate :=
    apply_act (attr_act en a (attr_bit en a (fst S))) S.

  Lemma bind_any_attr_act en var q sval p :
    bind_any_attr en var q sval p = apply_p (AMap (v_name var) q (parse_any_attribute sval (en_ns en))) p.
  Proof.
    unfold bind_any_attr, apply_p, map_ok, cur_map, pmem, pget.
    destruct (assoc (v_name var) p) as [[v|l f]|] eqn:E; cbn [is_some].
    - rewrite E. destruct v; reflexivity.
    - rewrite E. reflexivity.
    - rewrite assoc_pset, str_eqb_refl. rewrite pset_pset. reflexivity.
  Qed.

  Lemma loop_cons en a rest p ws :
    bind_attrs_loop cfg c en (a :: rest) p ws
    = rbind (attr_step en a (p, ws)) (fun S => bind_attrs_loop cfg c en rest (fst S) (snd S)).
  Proof.
    destruct a as [q sval]. cbn [bind_attrs_loop]. unfold attr_step, attr_act, attr_bit. cbn [fst snd].
    assert (Hother :
      match find_any_attributes (en_meta en) q with
      | Some var => rbind (bind_any_attr en var q sval p) (fun p' => bind_attrs_loop cfg c en rest p' ws)
      | None => if fail_unknown_attrs cfg && negb (ostr_eqb (target_uri q) (Some XSI_NS)) then RErr ParserError
                else bind_attrs_loop cfg c en rest p ws
      end = rbind (apply_act (other_act en q sval) (p, ws)) (fun S => bind_attrs_loop cfg c en rest (fst S) (snd S))).
    { unfold other_act, apply_act. cbn [fst snd]. destruct (find_any_attributes (en_meta en) q) as [var|].
      - rewrite bind_any_attr_act.
        destruct (apply_p (AMap (v_name var) q (parse_any_attribute sval (en_ns en))) p); cbn [rbind fst snd act_ws]; [|reflexivity].
        rewrite app_nil_r. reflexivity.
      - destruct (fail_unknown_attrs cfg && negb (ostr_eqb (target_uri q) (Some XSI_NS))); cbn [apply_p rbind fst snd act_ws]; [reflexivity|].
        rewrite app_nil_r. reflexivity. }
    destruct (find_attribute (en_meta en) q) as [var|]; [|exact Hother].
    destruct (pmem (v_name var) p); [exact Hother|].
    unfold bind_attr, apply_act. cbn [fst snd].
    destruct (parse_var c (fail_conv_warnings cfg) (en_meta en) var (Some sval) (en_ns en) None None) as [[v w]|k] eqn:E;
      cbn [rbind].
    - destruct (v_init var); cbn [rbind apply_p fst snd act_ws]; [reflexivity|].
      destruct (validate_fixed c var v) as [x|k] eqn:Ev; cbn [rbind apply_p fst snd act_ws]; [reflexivity|].
      rewrite (validate_fixed_err _ _ _ Ev). reflexivity.
    - rewrite (parse_var_err _ _ _ _ _ _ _ _ E). reflexivity.
  Qed.

  Lemma loop_fold en l : forall p ws, bind_attrs_loop cfg c en l p ws = fold_res (attr_step en) l (p, ws).
  Proof.
    induction l as [|a l IH]; intros p ws; [reflexivity|]. rewrite loop_cons. cbn [fold_res].
    destruct (attr_step en a (p, ws)) as [[p1 w1]|k]; cbn [rbind fst snd]; [apply IH|reflexivity].
  Qed.
End Attrs.

(* ---------------------------------------------------------------- actions commute *)
Definition Inv (m : xmeta) (p : params) : Prop :=
  forall n, is_any_name m n = true -> map_ok n p = true /\ NoDup (map fst (cur_map n p)).
Definition act_wf (m : xmeta) (x : act) : Prop :=
  match x with
  | ASet n _ _ => is_any_name m n = false
  | AMap n _ _ => is_any_name m n = true
  | _ => True
  end.
Definition act_key (x : act) : option str := match x with ASet n _ _ | AMap n _ _ => Some n | _ => None end.
Definition compat (x y : act) : Prop :=
  match x, y with
  | ASet n _ _, ASet n' _ _ => n <> n'
  | AMap _ q _, AMap _ q' _ => q <> q'
  | _, _ => True
  end.

Lemma Inv_nil m : Inv m [].
Proof. intros n _. split; [reflexivity|constructor]. Qed.

Lemma pget_pset_other k n v p : k <> n -> pget k (pset n v p) = pget k p.
Proof. intros H. unfold pget. rewrite assoc_pset, (str_eqb_neq k n H). reflexivity. Qed.
Lemma pget_pset_same n v p : pget n (pset n v p) = Some v.
Proof. unfold pget. rewrite assoc_pset, str_eqb_refl. reflexivity. Qed.
Lemma map_ok_pset_other k n v p : k <> n -> map_ok k (pset n v p) = map_ok k p.
Proof. intros H. unfold map_ok. rewrite (pget_pset_other k n v p H). reflexivity. Qed.
Lemma cur_map_pset_other k n v p : k <> n -> cur_map k (pset n v p) = cur_map k p.
Proof. intros H. unfold cur_map. rewrite (pget_pset_other k n v p H). reflexivity. Qed.
Lemma map_ok_pset_same n x p : map_ok n (pset n (PV (VMap x)) p) = true.
Proof. unfold map_ok. rewrite pget_pset_same. reflexivity. Qed.
Lemma cur_map_pset_same n x p : cur_map n (pset n (PV (VMap x)) p) = x.
Proof. unfold cur_map. rewrite pget_pset_same. reflexivity. Qed.

Lemma map_ok_equiv n p p' : params_equiv p p' -> map_ok n p = map_ok n p'.
Proof.
  intros H. unfold map_ok, pget. specialize (H n).
  destruct (assoc n p) as [[v|l f]|], (assoc n p') as [[v'|l' f']|]; cbn in H; try contradiction; try reflexivity.
  destruct H; reflexivity.
Qed.
Lemma cur_map_equiv n p p' : params_equiv p p' -> dict_equiv (cur_map n p) (cur_map n p').
Proof.
  intros H. unfold cur_map, pget. specialize (H n).
  destruct (assoc n p) as [[v|l f]|], (assoc n p') as [[v'|l' f']|]; cbn in H; try contradiction; try apply dict_equiv_refl.
  destruct H; try apply dict_equiv_refl. assumption.
Qed.

Lemma any_neq m n n' : is_any_name m n = false -> is_any_name m n' = true -> n' <> n.
Proof. intros H H' E. subst n'. congruence. Qed.

Lemma apply_inv m x p p' : Inv m p -> act_wf m x -> apply_p x p = ROk p' -> Inv m p'.
Proof.
  intros Hi Hw. destruct x as [|w|n v w|n q x]; cbn [apply_p act_wf] in *.
  - discriminate.
  - intros E. injection E as <-. exact Hi.
  - intros E. injection E as <-. intros k Hk. pose proof (any_neq m n k Hw Hk) as Hne.
    rewrite map_ok_pset_other, cur_map_pset_other by exact Hne. apply Hi. exact Hk.
  - destruct (map_ok n p); [|discriminate]. intros E. injection E as <-. intros k Hk.
    destruct (str_eqb_spec k n) as [->|Hn].
    + rewrite map_ok_pset_same, cur_map_pset_same. split; [reflexivity|]. apply mset_nodup. apply Hi. exact Hk.
    + rewrite map_ok_pset_other, cur_map_pset_other by exact Hn. apply Hi. exact Hk.
Qed.

Lemma apply_resp x p p' : params_equiv p p' -> res_rel params_equiv (apply_p x p) (apply_p x p').
Proof.
  intros Hp. destruct x as [|w|n v w|n q x]; cbn [apply_p].
  - reflexivity.
  - exact Hp.
  - cbn [res_rel]. apply pset_equiv; [exact Hp|apply value_equiv_refl].
  - rewrite (map_ok_equiv n p p' Hp). destruct (map_ok n p'); [|reflexivity]. cbn [res_rel].
    apply pset_equiv; [exact Hp|]. cbn [pval_equiv]. constructor. apply mset_dict_equiv. apply cur_map_equiv. exact Hp.
Qed.

Lemma pset_comm_equiv n n' x y p : n <> n' -> params_equiv (pset n' y (pset n x p)) (pset n x (pset n' y p)).
Proof.
  intros H k. rewrite !assoc_pset.
  destruct (str_eqb_spec k n') as [E1|N1], (str_eqb_spec k n) as [E2|N2]; try congruence; apply opt_rel_refl; apply pval_equiv_refl.
Qed.

Lemma mset_comm q q' x x' m : q <> q' -> dict_eq (mset q' x' (mset q x m)) (mset q x (mset q' x' m)).
Proof.
  intros H k. rewrite !assoc_mset.
  destruct (str_eqb_spec k q') as [E1|N1], (str_eqb_spec k q) as [E2|N2]; try congruence.
Qed.

Lemma mset_comm_equiv q q' x x' m : NoDup (map fst m) -> q <> q' ->
  dict_equiv (mset q' x' (mset q x m)) (mset q x (mset q' x' m)).
Proof. intros Hn H. apply dict_equiv_of_eq; [apply mset_comm; exact H| |]; repeat apply mset_nodup; exact Hn. Qed.

Lemma apply_swap m x y p : Inv m p -> act_wf m x -> act_wf m y -> compat x y ->
  res_rel params_equiv (rbind (apply_p x p) (apply_p y)) (rbind (apply_p y p) (apply_p x)).
Proof.
  intros Hi Hx Hy Hc.
  assert (Hrefl : forall r : res params, res_rel params_equiv r r).
  { intros [a|k]; cbn; [apply params_equiv_refl|reflexivity]. }
  assert (Hid : forall r : res params, res_rel params_equiv r (rbind r (fun a => ROk a))).
  { intros [a|k]; cbn; [apply params_equiv_refl|reflexivity]. }
  assert (Hid' : forall r : res params, res_rel params_equiv (rbind r (fun a => ROk a)) r).
  { intros [a|k]; cbn; [apply params_equiv_refl|reflexivity]. }
  assert (Hmok : forall n, is_any_name m n = true -> map_ok n p = true) by (intros n Hn; apply Hi; exact Hn).
  destruct x as [|w|n v w|n q x], y as [|w'|n' v' w'|n' q' x']; cbn [apply_p rbind act_wf compat] in *;
    try reflexivity; try apply Hrefl; try apply Hid; try apply Hid'.
  - rewrite (Hmok n' Hy). reflexivity.
  - cbn [res_rel]. apply pset_comm_equiv. exact Hc.
  - pose proof (any_neq m n n' Hx Hy) as Hne.
    rewrite (map_ok_pset_other n' n _ p Hne), (cur_map_pset_other n' n _ p Hne), (Hmok n' Hy). cbn [rbind res_rel apply_p].
    apply pset_comm_equiv. congruence.
  - rewrite (Hmok n Hx). reflexivity.
  - pose proof (any_neq m n' n Hy Hx) as Hne.
    rewrite (map_ok_pset_other n n' _ p Hne), (cur_map_pset_other n n' _ p Hne), (Hmok n Hx). cbn [rbind res_rel apply_p].
    apply pset_comm_equiv. congruence.
  - rewrite (Hmok n Hx), (Hmok n' Hy). cbn [rbind apply_p].
    destruct (str_eqb_spec n n') as [<-|Hne].
    + rewrite !map_ok_pset_same, !cur_map_pset_same. cbn [res_rel]. rewrite !pset_pset.
      apply pset_equiv; [apply params_equiv_refl|]. cbn [pval_equiv]. constructor. apply mset_comm_equiv; [|exact Hc].
      apply Hi. exact Hx.
    + rewrite (map_ok_pset_other n' n _ p), (cur_map_pset_other n' n _ p) by congruence.
      rewrite (map_ok_pset_other n n' _ p), (cur_map_pset_other n n' _ p) by congruence.
      rewrite (Hmok n Hx), (Hmok n' Hy). cbn [res_rel]. apply pset_comm_equiv. exact Hne.
Qed.

Lemma apply_act_swap m x y S : Inv m (fst S) -> act_wf m x -> act_wf m y -> compat x y ->
  res_rel astate_equiv (rbind (apply_act x S) (apply_act y)) (rbind (apply_act y S) (apply_act x)).
Proof.
  intros Hi Hx Hy Hc. pose proof (apply_swap m x y (fst S) Hi Hx Hy Hc) as H. unfold apply_act.
  destruct (apply_p x (fst S)) as [p1|k1], (apply_p y (fst S)) as [p2|k2]; cbn [rbind fst snd] in *.
  - destruct (apply_p y p1) as [p3|k3], (apply_p x p2) as [p4|k4]; cbn [rbind res_rel] in *; try contradiction; [|exact H].
    split; [exact H|]. cbn [snd]. rewrite <- !app_assoc. apply Permutation_app_head. apply Permutation_app_comm.
  - destruct (apply_p y p1) as [p3|k3]; cbn [rbind res_rel] in *; [contradiction|exact H].
  - destruct (apply_p x p2) as [p4|k4]; cbn [rbind res_rel] in *; [contradiction|exact H].
  - exact H.
Qed.

Section AttrsPerm.
  Variable cfg : pconfig.
  Variable c : conv.
  Variable en : enode.
  Hypothesis Hok : meta_ok (en_meta en) = true.
  Let m := en_meta en.

  Lemma other_act_shape q sval :
    match other_act cfg en q sval with
    | ASet _ _ _ => False
    | AMap n q' _ => q' = q /\ is_any_name m n = true
    | _ => True
    end.
  Proof.
    unfold other_act. destruct (find_any_attributes (en_meta en) q) as [w|] eqn:E.
    - split; [reflexivity|]. exact (find_any_is_any _ _ _ E).
    - destruct (fail_unknown_attrs cfg && negb (ostr_eqb (target_uri q) (Some XSI_NS))); exact I.
  Qed.

  Lemma attr_act_shape a bit :
    match attr_act cfg c en a bit with
    | ASet n _ _ => exists var, find_attribute m (fst a) = Some var /\ n = v_name var
    | AMap n q _ => q = fst a /\ is_any_name m n = true
    | _ => True
    end.
  Proof.
    unfold attr_act. pose proof (other_act_shape (fst a) (snd a)) as Ho.
    assert (Ho' : match other_act cfg en (fst a) (snd a) with
                  | ASet n _ _ => exists var, find_attribute m (fst a) = Some var /\ n = v_name var
                  | AMap n q _ => q = fst a /\ is_any_name m n = true
                  | _ => True end).
    { destruct (other_act cfg en (fst a) (snd a)); try exact I; [contradiction|exact Ho]. }
    destruct (find_attribute (en_meta en) (fst a)) as [var|] eqn:E; [|exact Ho'].
    destruct bit; [exact Ho'|].
    destruct (parse_var c (fail_conv_warnings cfg) (en_meta en) var (Some (snd a)) (en_ns en) None None) as [[v w]|k]; [|exact I].
    destruct (v_init var); [exists var; split; [exact E|reflexivity]|].
    destruct (validate_fixed c var v); exact I.
  Qed.

  Lemma attr_act_wf a bit : act_wf m (attr_act cfg c en a bit).
  Proof.
    pose proof (attr_act_shape a bit) as H. destruct (attr_act cfg c en a bit); cbn [act_wf]; try exact I.
    - destruct H as (var & E & ->). exact (attr_not_any _ _ _ Hok E).
    - apply H.
  Qed.

  Lemma attr_act_compat a b bit bit' : fst a <> fst b -> compat (attr_act cfg c en a bit) (attr_act cfg c en b bit').
  Proof.
    intros Hab. pose proof (attr_act_shape a bit) as Ha. pose proof (attr_act_shape b bit') as Hb.
    destruct (attr_act cfg c en a bit), (attr_act cfg c en b bit'); cbn [compat]; try exact I.
    - destruct Ha as (va & Ea & ->), Hb as (vb & Eb & ->). exact (attr_names_distinct _ _ _ _ _ Hok Ea Eb Hab).
    - destruct Ha as [-> _], Hb as [-> _]. exact Hab.
  Qed.

  (* an action of attribute a never touches the kwarg that decides how attribute b is bound *)
  Lemma attr_bit_stable a b bit p p1 : fst a <> fst b ->
    apply_p (attr_act cfg c en a bit) p = ROk p1 -> attr_bit en b p1 = attr_bit en b p.
  Proof.
    intros Hab. pose proof (attr_act_shape a bit) as Ha. unfold attr_bit.
    destruct (find_attribute (en_meta en) (fst b)) as [vb|] eqn:Eb; [|reflexivity].
    destruct (attr_act cfg c en a bit) as [|w|n v w|n q x]; cbn [apply_p].
    - discriminate.
    - intros E. injection E as <-. reflexivity.
    - intros E. injection E as <-. destruct Ha as (va & Ea & ->). unfold pmem. rewrite assoc_pset.
      rewrite str_eqb_neq; [reflexivity|]. intros E. symmetry in E. exact (attr_names_distinct _ _ _ _ _ Hok Ea Eb Hab E).
    - destruct (map_ok n p); [|discriminate]. intros E. injection E as <-. unfold pmem. rewrite assoc_pset.
      rewrite str_eqb_neq; [reflexivity|]. intros E. destruct Ha as [_ Ha]. rewrite <- E in Ha.
      pose proof (attr_not_any _ _ _ Hok Eb) as Hx. unfold m in Ha. congruence.
  Qed.

  Definition AInv (S : astate) : Prop := Inv m (fst S).

  Lemma attr_step_inv a S S' : AInv S -> attr_step cfg c en a S = ROk S' -> AInv S'.
  Proof.
    unfold AInv, attr_step, apply_act. intros Hi.
    destruct (apply_p (attr_act cfg c en a (attr_bit en a (fst S))) (fst S)) as [p1|k] eqn:E; cbn [rbind]; [|discriminate].
    intros E'. injection E' as <-. cbn [fst]. eapply apply_inv; [exact Hi|apply attr_act_wf|exact E].
  Qed.

  Lemma attr_bit_equiv a p p' : params_equiv p p' -> attr_bit en a p = attr_bit en a p'.
  Proof. intros H. unfold attr_bit. destruct (find_attribute (en_meta en) (fst a)); [apply pmem_equiv; exact H|reflexivity]. Qed.

  Lemma attr_step_resp a S S' : AInv S -> AInv S' -> astate_equiv S S' ->
    res_rel astate_equiv (attr_step cfg c en a S) (attr_step cfg c en a S').
  Proof.
    intros _ _ [Hp Hw]. unfold attr_step, apply_act. rewrite <- (attr_bit_equiv a _ _ Hp).
    pose proof (apply_resp (attr_act cfg c en a (attr_bit en a (fst S))) _ _ Hp) as H.
    destruct (apply_p _ (fst S)) as [p1|k1], (apply_p _ (fst S')) as [p2|k2]; cbn [res_rel rbind] in *; try contradiction; [|exact H].
    split; [exact H|]. cbn [snd]. apply Permutation_app_tail. exact Hw.
  Qed.

  Lemma attr_step_twice a b S : fst a <> fst b ->
    rbind (attr_step cfg c en a S) (attr_step cfg c en b)
    = rbind (apply_act (attr_act cfg c en a (attr_bit en a (fst S))) S)
            (apply_act (attr_act cfg c en b (attr_bit en b (fst S)))).
  Proof.
    intros Hab. unfold attr_step at 1.
    destruct (apply_act (attr_act cfg c en a (attr_bit en a (fst S))) S) as [S1|k] eqn:E; cbn [rbind]; [|reflexivity].
    unfold attr_step. unfold apply_act in E.
    destruct (apply_p (attr_act cfg c en a (attr_bit en a (fst S))) (fst S)) as [p1|k] eqn:Ep; cbn [rbind] in E; [|discriminate].
    injection E as <-. cbn [fst]. rewrite (attr_bit_stable a b _ _ _ Hab Ep). reflexivity.
  Qed.

  Lemma attr_step_swap a b S : fst a <> fst b -> AInv S ->
    res_rel astate_equiv (rbind (attr_step cfg c en a S) (attr_step cfg c en b))
                         (rbind (attr_step cfg c en b S) (attr_step cfg c en a)).
  Proof.
    intros Hab Hi. rewrite (attr_step_twice a b S Hab), (attr_step_twice b a S (fun E => Hab (eq_sym E))).
    apply (apply_act_swap m); [exact Hi|apply attr_act_wf|apply attr_act_wf|apply attr_act_compat; exact Hab].
  Qed.

  (* P1 *)
  Theorem bind_attrs_perm a a' : Permutation a a' -> NoDup (map fst a) ->
    forall p p' ws ws', Inv m p -> Inv m p' -> params_equiv p p' -> Permutation ws ws' ->
    res_rel astate_equiv (bind_attrs_loop cfg c en a p ws) (bind_attrs_loop cfg c en a' p' ws').
  Proof.
    intros Hp Hn p p' ws ws' Hi Hi' He Hw. rewrite !loop_fold.
    apply (fold_perm fst (attr_step cfg c en) astate_equiv AInv astate_equiv_refl astate_equiv_trans
             attr_step_inv attr_step_resp attr_step_swap a a' Hp Hn (p, ws) (p', ws')); [exact Hi|exact Hi'|].
    split; assumption.
  Qed.

  (* every error of the attribute loop is a ParserError *)
  Lemma bind_attrs_err a : forall p ws k, Inv m p -> bind_attrs_loop cfg c en a p ws = RErr k -> k = ParserError.
  Proof.
    induction a as [|x a IH]; intros p ws k Hi; [discriminate|]. rewrite loop_cons.
    destruct (attr_step cfg c en x (p, ws)) as [[p1 w1]|k1] eqn:E; cbn [rbind fst snd].
    - apply IH. exact (attr_step_inv x (p, ws) (p1, w1) Hi E).
    - intros E'. injection E' as <-. unfold attr_step, apply_act in E. cbn [fst snd] in E.
      pose proof (attr_act_wf x (attr_bit en x p)) as Hwf.
      destruct (attr_act cfg c en x (attr_bit en x p)) as [|w|n v w|n q y]; cbn [apply_p rbind act_wf] in *; try discriminate.
      + congruence.
      + rewrite (proj1 (Hi n Hwf)) in E. discriminate.
  Qed.
End AttrsPerm.

(* ================================================================ 7. P3: the bind of each node *)
Definition ow_rel (r r' : objects * list warning) : Prop := objs_rel (fst r) (fst r') /\ Permutation (snd r) (snd r').

Definition ev_perm (x y : pevent) : Prop :=
  match x, y with
  | PStart q a ns, PStart q' a' ns' => q = q' /\ ns = ns' /\ Permutation a a' /\ NoDup (map fst a)
  | PEnd q t tl, PEnd q' t' tl' => q = q' /\ t = t' /\ tl = tl'
  | PStartNs p u, PStartNs p' u' => p = p' /\ u = u'
  | _, _ => False
  end.

Definition outcome_equiv (o o' : outcome) : Prop :=
  match o, o' with
  | Ok v ws, Ok v' ws' => value_equiv v v' /\ Permutation ws ws'
  | Err k, Err k' => k = k'
  | _, _ => False
  end.

Lemma append_tail_equiv objs objs' tail : objs_rel objs objs' -> objs_rel (append_tail objs tail) (append_tail objs' tail).
Proof.
  intros H. unfold append_tail. destruct (normalize_content tail); [|exact H].
  apply Forall2_app_one'; [exact H|]. split; [reflexivity|apply value_equiv_refl].
Qed.

Lemma fold_left_rel {A B} (R : A -> A -> Prop) (f g : A -> B -> A) l :
  (forall a a' b, R a a' -> R (f a b) (g a' b)) -> forall a a', R a a' -> R (fold_left f l a) (fold_left g l a').
Proof. intros H. induction l as [|b l IH]; intros a a' Ha; cbn [fold_left]; [exact Ha|]. apply IH. apply H. exact Ha. Qed.

Definition un_perm (a b : unode) : Prop :=
  exists at' evs', Permutation (un_attrs a) at' /\ NoDup (map fst (un_attrs a)) /\ Forall2 ev_perm (un_events a) evs'
    /\ b = mk_unode (un_meta a) (un_var a) at' (un_ns a) (un_position a) (un_level a) (un_candidates a) evs'.

Section NodeBind.
  Variable cfg : pconfig.
  Variable c : conv.

  Lemma element_bind_equiv en a' q text tail objs objs' :
    meta_ok (en_meta en) = true -> Permutation (en_attrs en) a' -> NoDup (map fst (en_attrs en)) -> objs_rel objs objs' ->
    res_rel ow_rel (element_bind cfg c en q text tail objs) (element_bind cfg c (with_attrs en a') q text tail objs').
  Proof.
    intros Hok Ha Hn Ho. unfold element_bind.
    change (xsi_nil_true (with_attrs en a')) with (xsi_nil_true en).
    cbn [with_attrs en_meta en_derived en_xsi_type].
    eapply rbind_rel with (R := fun r r' : value * objects * list warning * bool =>
       value_equiv (fst (fst (fst r))) (fst (fst (fst r'))) /\ objs_rel (snd (fst (fst r))) (snd (fst (fst r')))
       /\ Permutation (snd (fst r)) (snd (fst r')) /\ snd r = snd r').
    - destruct (negb (xsi_nil_true en) || m_nillable (en_meta en)).
      + unfold bind_attrs. cbn [with_attrs en_attrs]. rewrite loop_en_attrs.
        eapply rbind_rel; [apply (bind_attrs_perm cfg c en Hok _ _ Ha Hn); try apply Inv_nil; [apply params_equiv_refl|apply Permutation_refl]|].
        intros [p1 w1] [p1' w1'] [Hp1 Hw1]. cbn [fst snd] in *.
        eapply rbind_rel; [apply (bind_content_equiv cfg c en a' p1 p1' text tail objs objs' Ha Hn Hp1 Ho)|].
        intros [[[p2 o2] w2] tp] [[[p2' o2'] w2'] tp'] (Hp2 & Ho2 & Hw2 & Htp). cbn [fst snd] in *. subst w2' tp'.
        eapply rbind_rel; [apply class_factory_equiv; exact Hp2|].
        intros v v' Hv. cbn [res_rel fst snd]. repeat split; try assumption. apply Permutation_app_tail. exact Hw1.
      + cbn [res_rel fst snd]. repeat split; try assumption; constructor.
    - intros [[[v o] w] tp] [[[v' o'] w'] tp'] (Hv & Ho2 & Hw & Htp). cbn [fst snd] in *. subst tp'.
      cbn [res_rel]. split; cbn [fst snd]; [|exact Hw].
      assert (H1 : objs_rel (o ++ [(Some q, if en_derived en then VDerived q v (en_xsi_type en) else v)])
                            (o' ++ [(Some q, if en_derived en then VDerived q v' (en_xsi_type en) else v')])).
      { apply Forall2_app_one'; [exact Ho2|]. split; [reflexivity|]. cbn [snd].
        destruct (en_derived en); [constructor|]; exact Hv. }
      destruct tp; [exact H1|apply append_tail_equiv; exact H1].
  Qed.

  Lemma primitive_bind_equiv m var ns q text tail objs objs' : objs_rel objs objs' ->
    res_rel ow_rel (primitive_bind cfg c m var ns q text tail objs) (primitive_bind cfg c m var ns q text tail objs').
  Proof.
    intros Ho. unfold primitive_bind.
    destruct (parse_var c (fail_conv_warnings cfg) m var text ns None None) as [[obj ws]|k]; cbn [rbind]; [|reflexivity].
    cbn [res_rel]. split; cbn [fst snd]; [|apply Permutation_refl].
    match goal with |- objs_rel (if _ then append_tail (_ ++ [?x]) _ else _) _ =>
      assert (H1 : objs_rel (objs ++ [x]) (objs' ++ [x])) end.
    { apply Forall2_app_one'; [exact Ho|]. split; [reflexivity|apply value_equiv_refl]. }
    destruct (m_mixed_content m); [apply append_tail_equiv|]; exact H1.
  Qed.

  Lemma standard_bind_equiv m var ty fmt wr ns nl dv q text objs objs' : objs_rel objs objs' ->
    res_rel ow_rel (standard_bind cfg c m var ty fmt wr ns nl dv q text objs)
                   (standard_bind cfg c m var ty fmt wr ns nl dv q text objs').
  Proof.
    intros Ho. unfold standard_bind.
    destruct (parse_var c (fail_conv_warnings cfg) m var text ns (Some [ty]) fmt) as [[obj ws]|k]; cbn [rbind]; [|reflexivity].
    match goal with |- res_rel _ (rbind ?X _) _ => destruct X as [obj'|k] end; cbn [rbind]; [|reflexivity].
    cbn [res_rel]. split; cbn [fst snd]; [|apply Permutation_refl].
    apply Forall2_app_one'; [exact Ho|]. split; [reflexivity|apply value_equiv_refl].
  Qed.

  Lemma wildcard_bind_equiv var attrs attrs' ns pos q text tail objs objs' :
    Permutation attrs attrs' -> NoDup (map fst attrs) -> objs_rel objs objs' ->
    objs_rel (wildcard_bind var attrs ns pos q text tail objs) (wildcard_bind var attrs' ns pos q text tail objs').
  Proof.
    intros Ha Hn Ho. unfold wildcard_bind. cbv zeta.
    pose proof (parse_any_attributes_perm _ _ ns Ha Hn) as Hd.
    assert (Hch : Forall2 value_equiv (map snd (skipn pos objs)) (map snd (skipn pos objs'))).
    { eapply Forall2_map2; [|apply Forall2_skipn; exact Ho]. intros x y [_ H]. exact H. }
    pose proof (Forall2_firstn _ pos _ _ Ho) as Hfi.
    set (ch := map snd (skipn pos objs)) in *. set (ch' := map snd (skipn pos objs')) in *.
    set (at1 := parse_any_attributes attrs ns) in *. set (at2 := parse_any_attributes attrs' ns) in *.
    assert (Hne1 : match ch with [] => false | _ => true end = match ch' with [] => false | _ => true end)
      by (destruct Hch; reflexivity).
    assert (Hne2 : match at1 with [] => false | _ => true end = match at2 with [] => false | _ => true end).
    { destruct at1, at2; try reflexivity; [apply dict_equiv_nil_l in Hd|apply dict_equiv_nil_r in Hd]; discriminate. }
    assert (Htx : match ch with [] => text | _ => normalize_content text end
                  = match ch' with [] => text | _ => normalize_content text end) by (destruct Hch; reflexivity).
    rewrite Hne1, Hne2, Htx.
    match goal with |- objs_rel (if ?X then _ else _) _ => destruct X end.
    - apply Forall2_app_one'; [exact Hfi|]. split; [reflexivity|]. cbn [snd]. constructor; assumption.
    - apply Forall2_app_one'; [exact Hfi|]. split; [reflexivity|apply value_equiv_refl].
  Qed.

  Variables replay replay' : pconfig -> option cls -> list pevent -> outcome.
  Hypothesis replay_R : forall cfg0 root0 evs evs', Forall2 ev_perm evs evs' ->
    outcome_equiv (replay cfg0 root0 evs) (replay' cfg0 root0 evs').

  Lemma union_bind_equiv un un' q text tail objs objs' : un_perm un un' -> objs_rel objs objs' ->
    res_rel objs_rel (union_bind cfg c replay un q text tail objs) (union_bind cfg c replay' un' q text tail objs').
  Proof.
    intros (at' & evs' & Ha & Hn & Hev & ->) Ho. unfold union_bind.
    cbn [un_attrs un_ns un_events un_candidates un_meta un_var].
    assert (Hevs : Forall2 ev_perm (PStart q (un_attrs un) (un_ns un) :: un_events un ++ [PEnd q text tail])
                                   (PStart q at' (un_ns un) :: evs' ++ [PEnd q text tail])).
    { constructor; [cbn; auto|]. apply Forall2_app_one'; [exact Hev|cbn; auto]. }
    match goal with
    | |- res_rel _ (if truthy (fst ?X) then _ else _) (if truthy (fst ?Y) then _ else _) =>
        assert (HXY : value_equiv (fst X) (fst Y) /\ snd X = snd Y)
    end.
    { apply (fold_left_rel (fun a a' : value * Z => value_equiv (fst a) (fst a') /\ snd a = snd a')); [|split; [constructor|reflexivity]].
      intros [v z] [v' z'] cand [Hv Hz]. cbn [fst snd] in *. subst z'.
      match goal with
      | |- value_equiv (fst (if (_ <? score_object ?r1)%Z then _ else _)) (fst (if (_ <? score_object ?r2)%Z then _ else _)) /\ _ =>
          assert (Hr : value_equiv r1 r2)
      end.
      { destruct cand as [ | | | | | | | | | | | | |e|cl]; try apply value_equiv_refl.
        pose proof (replay_R (with_fail_conv cfg) (Some cl) _ _ Hevs) as H.
        destruct (replay _ _ _), (replay' _ _ _); cbn [outcome_equiv] in H; try contradiction; [apply H|constructor]. }
      cbv zeta. rewrite (score_object_equiv _ _ Hr).
      match goal with |- context [if ?X then _ else _] => destruct X end; cbn [fst snd]; split; auto. }
    destruct HXY as [H1 _]. rewrite (truthy_equiv _ _ H1).
    match goal with |- res_rel _ (if ?X then _ else _) _ => destruct X end; [|reflexivity].
    cbn [res_rel]. apply Forall2_app_one'; [exact Ho|]. split; [reflexivity|exact H1].
  Qed.
End NodeBind.

(* ================================================================ 8. P4: the simulation *)
Lemma forallb_perm {A} (f : A -> bool) l l' : Permutation l l' -> forallb f l = forallb f l'.
Proof.
  induction 1 as [|x l l' _ IH|x y l|l l' l'' _ IH1 _ IH2]; cbn [forallb]; try congruence.
  destruct (f x), (f y); reflexivity.
Qed.

Lemma perm_is_nil {A} (l l' : list A) : Permutation l l' ->
  match l with [] => true | _ => false end = match l' with [] => true | _ => false end.
Proof.
  intros H. destruct l, l'; try reflexivity.
  - apply Permutation_nil in H. discriminate.
  - apply Permutation_sym in H. apply Permutation_nil in H. discriminate.
Qed.

Lemma assocN_In {A} k (v : A) l : assocN k l = Some v -> In (k, v) l.
Proof.
  induction l as [|[k' w] l IH]; cbn [assocN]; [discriminate|].
  destruct (N.eqb_spec k k') as [->|Hn].
  - intros E. injection E as ->. left. reflexivity.
  - intros E. right. exact (IH E).
Qed.

Definition en_perm (e e' : enode) : Prop :=
  meta_ok (en_meta e) = true /\ NoDup (map fst (en_attrs e))
  /\ exists a', Permutation (en_attrs e) a' /\ e' = with_attrs e a'.

Definition node_perm (n n' : node) : Prop :=
  match n, n' with
  | NElement e, NElement e' => en_perm e e'
  | NWildcard v a ns pos, NWildcard v' a' ns' pos' =>
      v = v' /\ ns = ns' /\ pos = pos' /\ Permutation a a' /\ NoDup (map fst a)
  | NUnion a, NUnion b => un_perm a b
  | NPrimitive _ _ _, _ | NStandard _ _ _ _ _ _ _ _, _ | NWrapper _, _ | NSkip, _ => n = n'
  | _, _ => False
  end.

Definition st_perm (s s' : pstate) : Prop :=
  Forall2 node_perm (st_queue s) (st_queue s') /\ objs_rel (st_objects s) (st_objects s')
  /\ Permutation (st_warn s) (st_warn s').

Definition pair_perm (x y : node * enode) : Prop := node_perm (fst x) (fst y) /\ en_perm (snd x) (snd y).

Section Sim.
  Variable c : conv.
  Variable u : universe.
  Hypothesis Hu : universe_ok u = true.

  Lemma get_meta_ok cl m : get_meta u cl = ROk m -> meta_ok m = true.
  Proof.
    unfold get_meta, u_meta. destruct (assocN cl (u_metas u)) as [m0|] eqn:E; [|discriminate].
    intros E'. injection E' as <-. apply assocN_In in E. unfold universe_ok in Hu. rewrite forallb_forall in Hu.
    exact (Hu _ E).
  Qed.

  Lemma fetch_ok cl xt m : fetch c u cl xt = ROk m -> meta_ok m = true.
  Proof.
    unfold fetch. destruct (get_meta u cl) as [meta|k] eqn:E; cbn [rbind]; [|discriminate].
    pose proof (get_meta_ok _ _ E) as Hm.
    destruct (truthy_str xt) as [x|]; [|intros E'; injection E' as <-; exact Hm].
    destruct (ostr_eqb (m_target_qname meta) (Some x)); [intros E'; injection E' as <-; exact Hm|].
    destruct (find_subclass c u cl x) as [sub|]; [apply get_meta_ok|intros E'; injection E' as <-; exact Hm].
  Qed.

  Section Attrs2.
    Variables a a' : list (qname * str).
    Hypothesis Ha : Permutation a a'.
    Hypothesis Hn : NoDup (map fst a).

    Lemma xsi_type_perm ns : xsi_type_of c a ns = xsi_type_of c a' ns.
    Proof. unfold xsi_type_of. rewrite (perm_assoc a a' Hn Ha XSI_TYPE). reflexivity. Qed.
    Lemma xsi_nil_perm : xsi_nil_of a = xsi_nil_of a'.
    Proof. unfold xsi_nil_of. rewrite (perm_assoc a a' Hn Ha XSI_NIL). reflexivity. Qed.

    Lemma filter_fixed_attrs_perm t : filter_fixed_attrs c u a t = filter_fixed_attrs c u a' t.
    Proof.
      unfold filter_fixed_attrs. destruct t as [ | | | | | | | | | | | | |e|cl]; try (f_equal; apply perm_is_nil; exact Ha).
      destruct (get_meta u cl); cbn [rbind]; [|reflexivity]. f_equal. apply forallb_perm. exact Ha.
    Qed.

    Lemma filter_candidates_perm l : filter_candidates c u a l = filter_candidates c u a' l.
    Proof.
      induction l as [|t l IH]; cbn [filter_candidates]; [reflexivity|]. rewrite filter_fixed_attrs_perm, IH. reflexivity.
    Qed.

    Lemma build_element_node_perm p p' cl d nl ns pos df xt xn :
      res_rel (opt_rel node_perm) (build_element_node c u p cl d nl a ns pos df xt xn)
                                 (build_element_node c u p' cl d nl a' ns pos df xt xn).
    Proof.
      unfold build_element_node. destruct (fetch c u cl xt) as [meta|k] eqn:Ef; cbn [rbind res_rel]; [|reflexivity].
      match goal with |- context [if ?x then _ else _] => destruct x end; cbn [res_rel opt_rel]; [exact I|].
      cbn [node_perm]. unfold en_perm. cbn [en_meta en_attrs]. split; [exact (fetch_ok _ _ _ Ef)|]. split; [exact Hn|].
      exists a'. split; [exact Ha|reflexivity].
    Qed.

    Lemma build_node_perm p p' q var ns pos : en_meta p = en_meta p' ->
      res_rel (opt_rel node_perm) (build_node c u p q var a ns pos) (build_node c u p' q var a' ns pos).
    Proof.
      intros Hm. unfold build_node. destruct (v_is_clazz_union var).
      - rewrite <- filter_candidates_perm.
        destruct (filter_candidates c u a (v_types var)) as [cands|k]; cbn [rbind res_rel]; [|reflexivity].
        cbn [opt_rel node_perm]. rewrite Hm. exists a', []. cbn [un_attrs un_events un_meta un_var un_ns un_position un_level un_candidates].
        repeat split; try assumption. constructor.
      - rewrite <- (xsi_type_perm ns), <- xsi_nil_perm.
        destruct (xsi_type_of c a ns) as [xt|k]; cbn [rbind res_rel]; [|reflexivity].
        destruct (v_clazz var) as [cl|].
        + apply build_element_node_perm.
        + destruct (negb (v_any_type var) && negb (v_is KWildcard var)).
          * cbn [res_rel opt_rel node_perm]. rewrite Hm. reflexivity.
          * destruct (match xt with Some x => c_from_qname c x | None => None end) as [[[ty fmt] wr]|].
            { cbn [res_rel opt_rel node_perm]. rewrite Hm. reflexivity. }
            set (cl1 := match xt with Some x => ctx_find_type c u x | None => None end).
            assert (H1 : res_rel (opt_rel node_perm)
                           (match cl1 with
                            | Some cl => build_element_node c u p cl (v_is KWildcard var) (v_nillable var) a ns pos true xt (xsi_nil_of a)
                            | None => ROk None end)
                           (match cl1 with
                            | Some cl => build_element_node c u p' cl (v_is KWildcard var) (v_nillable var) a' ns pos true xt (xsi_nil_of a)
                            | None => ROk None end)).
            { destruct cl1; [apply build_element_node_perm|exact I]. }
            destruct (match cl1 with Some cl => build_element_node c u p cl _ _ a ns pos true xt _ | None => ROk None end) as [[n1|]|k1],
                     (match cl1 with Some cl => build_element_node c u p' cl _ _ a' ns pos true xt _ | None => ROk None end) as [[n1'|]|k1'];
              cbn [res_rel opt_rel] in H1; try contradiction; cbn [rbind].
            { exact H1. }
            { set (cl2 := if negb (str_eqb (v_process_contents var) s_skip) then ctx_find_type c u q else cl1).
              assert (H2 : res_rel (opt_rel node_perm)
                           (match cl2 with
                            | Some cl => build_element_node c u p cl false (v_nillable var) a ns pos false xt (xsi_nil_of a)
                            | None => ROk None end)
                           (match cl2 with
                            | Some cl => build_element_node c u p' cl false (v_nillable var) a' ns pos false xt (xsi_nil_of a)
                            | None => ROk None end)).
              { destruct cl2; [apply build_element_node_perm|exact I]. }
              destruct (match cl2 with Some cl => build_element_node c u p cl _ _ a ns pos false xt _ | None => ROk None end) as [[n2|]|k2],
                       (match cl2 with Some cl => build_element_node c u p' cl _ _ a' ns pos false xt _ | None => ROk None end) as [[n2'|]|k2'];
                cbn [res_rel opt_rel] in H2; try contradiction; cbn [rbind].
              - exact H2.
              - cbn [res_rel opt_rel node_perm]. repeat split; assumption.
              - exact H2. }
            { exact H1. }
    Qed.

    Lemma en_perm_assigned e e' l : en_perm e e' -> en_perm (set_assigned e l) (set_assigned e' l).
    Proof. intros (H1 & H2 & x & H3 & ->). split; [exact H1|]. split; [exact H2|]. exists x. split; [exact H3|reflexivity]. Qed.
    Lemma en_perm_wrappers e e' l : en_perm e e' -> en_perm (set_wrappers e l) (set_wrappers e' l).
    Proof. intros (H1 & H2 & x & H3 & ->). split; [exact H1|]. split; [exact H2|]. exists x. split; [exact H3|reflexivity]. Qed.
    Lemma en_perm_meta e e' : en_perm e e' -> en_meta e = en_meta e'.
    Proof. intros (_ & _ & x & _ & ->). reflexivity. Qed.
    Lemma en_perm_assigned_eq e e' : en_perm e e' -> en_assigned e = en_assigned e'.
    Proof. intros (_ & _ & x & _ & ->). reflexivity. Qed.
    Lemma en_perm_wrappers_eq e e' : en_perm e e' -> en_wrappers e = en_wrappers e'.
    Proof. intros (_ & _ & x & _ & ->). reflexivity. Qed.

    Lemma child_loop_perm e e' q ns pos w vars : en_perm e e' ->
      res_rel (opt_rel pair_perm) (child_loop c u e q a ns pos w vars) (child_loop c u e' q a' ns pos w vars).
    Proof.
      intros He. induction vars as [|var rest IH]; cbn [child_loop]; [exact I|].
      destruct (wrapper_mismatch w var); [exact IH|].
      rewrite <- (en_perm_assigned_eq e e' He).
      match goal with |- context [if ?x then _ else _] => destruct x eqn:Hc end; [|exact IH].
      pose proof (build_node_perm e e' q var ns pos (en_perm_meta _ _ He)) as Hb.
      destruct (build_node c u e q var a ns pos) as [[n|]|k], (build_node c u e' q var a' ns pos) as [[n'|]|k'];
        cbn [res_rel opt_rel] in Hb; try contradiction; cbn [rbind].
      - cbn [res_rel opt_rel]. split; cbn [fst snd]; [exact Hb|].
        set (uq := (if v_is KElement var && negb (v_list_element var) then v_index var else 0%N)).
        assert (H1 : en_perm (if (uq =? 0)%N then e else set_assigned e (en_assigned e ++ [uq]))
                            (if (uq =? 0)%N then e' else set_assigned e' (en_assigned e ++ [uq]))).
        { destruct (uq =? 0)%N; [exact He|apply en_perm_assigned; exact He]. }
        destruct (truthy_str w) as [ww|]; [|exact H1].
        rewrite <- (en_perm_wrappers_eq _ _ H1). apply en_perm_wrappers. exact H1.
      - exact IH.
      - exact Hb.
    Qed.

    Variable cfg : pconfig.

    Lemma element_child_perm e e' q ns pos w : en_perm e e' ->
      res_rel pair_perm (element_child cfg c u e q a ns pos w) (element_child cfg c u e' q a' ns pos w).
    Proof.
      intros He. unfold element_child. rewrite <- (en_perm_meta _ _ He).
      pose proof (child_loop_perm e e' q ns pos w (find_children (en_meta e) q) He) as Hc.
      destruct (child_loop c u e q a ns pos w _) as [[x|]|k], (child_loop c u e' q a' ns pos w _) as [[x'|]|k'];
        cbn [res_rel opt_rel] in Hc; try contradiction; cbn [rbind res_rel].
      - exact Hc.
      - destruct (fail_unknown_props cfg); cbn [res_rel]; [reflexivity|]. split; [reflexivity|exact He].
      - exact Hc.
    Qed.

    Variable root : option cls.

    Lemma root_node_perm q ns : res_rel node_perm (root_node c u root q a ns) (root_node c u root q a' ns).
    Proof.
      unfold root_node. rewrite <- (xsi_type_perm ns), <- xsi_nil_perm.
      destruct (xsi_type_of c a ns) as [xt|k]; cbn [rbind res_rel]; [|reflexivity].
      match goal with |- context [match ?X with Some cl => _ | None => RErr ParserError end] => destruct X as [cl|] end;
        cbn [res_rel]; [|reflexivity].
      destruct (fetch c u cl xt) as [meta|k] eqn:Ef; cbn [rbind res_rel]; [|reflexivity].
      cbn [node_perm]. unfold en_perm. cbn [en_meta en_attrs]. split; [exact (fetch_ok _ _ _ Ef)|]. split; [exact Hn|].
      exists a'. split; [exact Ha|reflexivity].
    Qed.
  End Attrs2.
End Sim.

Lemma last_error_rel {A} (R : A -> A -> Prop) l l' : Forall2 R l l' -> opt_rel R (last_error l) (last_error l').
Proof.
  induction 1 as [|x y l l' Hxy Hl IH]; cbn [last_error]; [exact I|].
  destruct Hl; [exact Hxy|exact IH].
Qed.

Section Sim2.
  Variable c : conv.
  Variable u : universe.
  Hypothesis Hu : universe_ok u = true.
  Variable cfg : pconfig.
  Variables replay replay' : pconfig -> option cls -> list pevent -> outcome.
  Hypothesis replay_R : forall cfg0 root0 evs evs', Forall2 ev_perm evs evs' ->
    outcome_equiv (replay cfg0 root0 evs) (replay' cfg0 root0 evs').
  Variable root : option cls.

  Lemma st_perm_push n n' s s' : node_perm n n' -> st_perm s s' -> st_perm (push n s) (push n' s').
  Proof.
    intros Hn (Hq & Ho & Hw). unfold push. repeat split; cbn [st_queue st_objects st_warn]; try assumption.
    constructor; assumption.
  Qed.

  Lemma start_P s s' q a a' ns : st_perm s s' -> Permutation a a' -> NoDup (map fst a) ->
    res_rel st_perm (start cfg c u root s q a ns) (start cfg c u root s' q a' ns).
  Proof.
    intros Hs Ha Hn. pose proof Hs as (Hq & Ho & Hw). unfold start. rewrite <- (Forall2_len _ _ _ Ho).
    destruct (st_queue s) as [|n Q] eqn:E, (st_queue s') as [|n' Q'] eqn:E'; inversion Hq as [|? ? ? ? Hnn HQ]; subst.
    - pose proof (root_node_perm c u Hu a a' Ha Hn root q ns) as Hr.
      destruct (root_node c u root q a ns) as [x|k], (root_node c u root q a' ns) as [x'|k'];
        cbn [res_rel] in Hr; try contradiction; cbn [rbind res_rel]; [|exact Hr].
      apply st_perm_push; assumption.
    - destruct n as [e|m0 v0 ns0|m0 v0 ty fmt wr ns0 nl dv|v0 at0 ns0 pos0|wq| |un],
               n' as [e'|m1 v1 ns1|m1 v1 ty1 fmt1 wr1 ns1 nl1 dv1|v1 at1 ns1 pos1|wq'| |un'];
        cbn [node_perm] in Hnn; try contradiction; try discriminate.
      + (* ElementNode *)
        rewrite <- (en_perm_meta e e' Hnn).
        destruct (is_some (assoc q (m_wrappers (en_meta e)))).
        * cbn [res_rel]. apply st_perm_push; [reflexivity|exact Hs].
        * pose proof (element_child_perm c u Hu a a' Ha Hn cfg e e' q ns (length (st_objects s)) None Hnn) as Hc.
          destruct (element_child cfg c u e q a ns _ None) as [x|k], (element_child cfg c u e' q a' ns _ None) as [x'|k'];
            cbn [res_rel] in Hc; try contradiction; cbn [rbind res_rel]; [|exact Hc].
          destruct Hc as [Hc1 Hc2]. repeat split; cbn [st_queue st_objects st_warn]; try assumption.
          constructor; [exact Hc1|]. constructor; [exact Hc2|exact HQ].
      + reflexivity.
      + reflexivity.
      + destruct Hnn as (-> & _ & _ & _ & _). cbn [res_rel]. apply st_perm_push; [|exact Hs]. cbn [node_perm]. auto.
      + (* WrapperNode *)
        injection Hnn as <-.
        destruct Q as [|n2 Q2], Q' as [|n2' Q2']; inversion HQ as [|? ? ? ? Hn2 HQ2]; subst; [reflexivity|].
        destruct n2 as [e| | | | | |], n2' as [e'| | | | | |]; cbn [node_perm] in Hn2; try contradiction; try discriminate; try reflexivity.
        pose proof (element_child_perm c u Hu a a' Ha Hn cfg e e' q ns (length (st_objects s)) (Some wq) Hn2) as Hc.
        destruct (element_child cfg c u e q a ns _ (Some wq)) as [x|k], (element_child cfg c u e' q a' ns _ (Some wq)) as [x'|k'];
          cbn [res_rel] in Hc; try contradiction; cbn [rbind res_rel]; [|exact Hc].
        destruct Hc as [Hc1 Hc2]. repeat split; cbn [st_queue st_objects st_warn]; try assumption.
        constructor; [exact Hc1|]. constructor; [reflexivity|]. constructor; [exact Hc2|exact HQ2].
      + cbn [res_rel]. apply st_perm_push; [reflexivity|exact Hs].
      + (* UnionNode: the start event is recorded *)
        destruct Hnn as (at' & evs' & Hat & Hnd & Hev & ->). cbn [res_rel].
        cbn [un_meta un_var un_attrs un_ns un_position un_level un_candidates un_events].
        repeat split; cbn [st_queue st_objects st_warn]; try assumption.
        constructor; [|exact HQ]. cbn [node_perm]. exists at', (evs' ++ [PStart q a' ns]).
        cbn [un_meta un_var un_attrs un_ns un_position un_level un_candidates un_events].
        split; [exact Hat|]. split; [exact Hnd|]. split; [|reflexivity].
        apply Forall2_app_one'; [exact Hev|]. cbn. auto.
  Qed.

  Lemma finish_end_P Q Q' s s' r r' : Forall2 node_perm Q Q' -> Permutation (st_warn s) (st_warn s') -> res_rel ow_rel r r' ->
    res_rel st_perm (finish_end Q s r) (finish_end Q' s' r').
  Proof.
    intros HQ Hw Hr. unfold finish_end. destruct r as [x|k], r' as [x'|k']; cbn [res_rel rbind] in *; try contradiction; [|exact Hr].
    destruct Hr as [H1 H2]. repeat split; cbn [st_queue st_objects st_warn]; try assumption.
    apply Permutation_app; assumption.
  Qed.

  Lemma pend_P s s' q text tail : st_perm s s' ->
    res_rel st_perm (pend cfg c replay s q text tail) (pend cfg c replay' s' q text tail).
  Proof.
    intros Hs. pose proof Hs as (Hq & Ho & Hw). unfold pend.
    destruct (st_queue s) as [|n Q] eqn:E, (st_queue s') as [|n' Q'] eqn:E'; inversion Hq as [|? ? ? ? Hnn HQ]; subst;
      [reflexivity|].
    assert (Hdone : forall o o', objs_rel o o' -> res_rel st_perm (ROk (mk_pstate Q o (st_warn s))) (ROk (mk_pstate Q' o' (st_warn s')))).
    { intros o o' H. cbn [res_rel]. repeat split; cbn [st_queue st_objects st_warn]; assumption. }
    destruct n as [e|m0 v0 ns0|m0 v0 ty fmt wr ns0 nl dv|v0 at0 ns0 pos0|wq| |un],
             n' as [e'|m1 v1 ns1|m1 v1 ty1 fmt1 wr1 ns1 nl1 dv1|v1 at1 ns1 pos1|wq'| |un'];
      cbn [node_perm] in Hnn; try contradiction; try discriminate.
    - destruct Hnn as (Hok & Hnd & at' & Hat & ->). apply finish_end_P; [exact HQ|exact Hw|].
      apply element_bind_equiv; assumption.
    - injection Hnn as <- <- <-. apply finish_end_P; [exact HQ|exact Hw|]. apply primitive_bind_equiv. exact Ho.
    - injection Hnn as <- <- <- <- <- <- <- <-. apply finish_end_P; [exact HQ|exact Hw|]. apply standard_bind_equiv. exact Ho.
    - destruct Hnn as (<- & <- & <- & Hat & Hnd). apply Hdone. apply wildcard_bind_equiv; assumption.
    - apply Hdone. exact Ho.
    - apply Hdone. exact Ho.
    - pose proof Hnn as (at' & evs' & Hat & Hnd & Hev & Eun). rewrite Eun.
      cbn [un_level un_meta un_var un_attrs un_ns un_position un_candidates un_events].
      destruct (un_level un) as [|l] eqn:El.
      + rewrite <- Eun.
        pose proof (union_bind_equiv cfg c replay replay' replay_R un un' q text tail _ _ Hnn Ho) as H.
        destruct (union_bind cfg c replay un q text tail (st_objects s)) as [x|k],
                 (union_bind cfg c replay' un' q text tail (st_objects s')) as [x'|k']; cbn [res_rel rbind] in *; try contradiction; [|exact H].
        repeat split; cbn [st_queue st_objects st_warn]; assumption.
      + cbn [res_rel]. repeat split; cbn [st_queue st_objects st_warn]; try assumption.
        constructor; [|exact HQ]. cbn [node_perm]. exists at', (evs' ++ [PEnd q text tail]).
        cbn [un_meta un_var un_attrs un_ns un_position un_level un_candidates un_events].
        split; [exact Hat|]. split; [exact Hnd|]. split; [|reflexivity]. apply Forall2_app_one'; [exact Hev|]. cbn. auto.
  Qed.

  Lemma step_P s s' ev ev' : st_perm s s' -> ev_perm ev ev' ->
    res_rel st_perm (step cfg c u replay root s ev) (step cfg c u replay' root s' ev').
  Proof.
    intros Hs He. destruct ev as [q a ns|q t tl|p v], ev' as [q' a' ns'|q' t' tl'|p' v']; cbn [ev_perm] in He; try contradiction; cbn [step].
    - destruct He as (-> & -> & Ha & Hn). apply start_P; assumption.
    - destruct He as (-> & -> & ->). apply pend_P; assumption.
    - exact Hs.
  Qed.

  Lemma run_P evs evs' : Forall2 ev_perm evs evs' -> forall s s', st_perm s s' ->
    res_rel st_perm (run cfg c u replay root s evs) (run cfg c u replay' root s' evs').
  Proof.
    induction 1 as [|ev ev' r r' He Hr IH]; intros s s' Hs; cbn [run]; [exact Hs|].
    pose proof (step_P s s' ev ev' Hs He) as H1.
    destruct (step cfg c u replay root s ev) as [x|k], (step cfg c u replay' root s' ev') as [x'|k'];
      cbn [res_rel] in H1; try contradiction; cbn [rbind]; [apply IH; exact H1|exact H1].
  Qed.

  Lemma finish_P r r' : res_rel st_perm r r' -> outcome_equiv (finish r) (finish r').
  Proof.
    destruct r as [s|k], r' as [s'|k']; cbn [res_rel]; try contradiction; [|intros ->; reflexivity].
    intros (_ & Ho & Hw). unfold finish. pose proof (last_error_rel _ _ _ Ho) as H.
    destruct (last_error (st_objects s)) as [[q v]|], (last_error (st_objects s')) as [[q' v']|]; cbn [opt_rel] in H;
      try contradiction; [|reflexivity].
    destruct H as [_ Hv]. cbn [snd] in Hv.
    destruct Hv; cbn [outcome_equiv]; try reflexivity; (split; [constructor; assumption|exact Hw]).
  Qed.
End Sim2.

Lemma st_perm_init : st_perm init_state init_state.
Proof. repeat split; constructor. Qed.

Section Parse.
  Variable c : conv.
  Variable u : universe.
  Hypothesis Hu : universe_ok u = true.

  Lemma parse_n_P n : forall cfg root evs evs', Forall2 ev_perm evs evs' ->
    outcome_equiv (parse_n n cfg c u root evs) (parse_n n cfg c u root evs').
  Proof.
    induction n as [|n IH]; intros cfg root evs evs' H; cbn [parse_n].
    - apply finish_P. apply (run_P c u Hu cfg); [|exact H|exact st_perm_init]. intros; reflexivity.
    - apply finish_P. apply (run_P c u Hu cfg); [|exact H|exact st_perm_init].
      intros cfg0 root0 e e' He. apply IH. exact He.
  Qed.

End Parse.

(* MAIN THEOREM (C09a).  Guard: `universe_ok u` (computable; see section 5 and section 10 for the
   refutations of the unguarded statement).  `ev_perm` carries the XML well-formedness constraint
   that the attribute names of one element are unique.  The conclusion: same error kind, or results
   equal up to the order of the entries of the dict-valued parts (Attributes fields, AnyElement
   .attributes — Python's dict equality) and warnings equal up to order. *)
Theorem attrs_perm_invariant : forall cfg c u root evs evs',
  universe_ok u = true ->
  Forall2 ev_perm evs evs' ->
  outcome_equiv (parse cfg c u root evs) (parse cfg c u root evs').
Proof.
  intros cfg c u root evs evs' Hu H. unfold parse. rewrite <- (Forall2_len _ _ _ H). apply parse_n_P; assumption.
Qed.

(* the same for every fuel (the form the sibling C09 theorems use) *)
Theorem attrs_perm_invariant_n : forall n cfg c u root evs evs',
  universe_ok u = true -> Forall2 ev_perm evs evs' ->
  outcome_equiv (parse_n n cfg c u root evs) (parse_n n cfg c u root evs').
Proof. intros n cfg c u root evs evs' Hu H. apply parse_n_P; assumption. Qed.

(* P1 in the form of the brief: ElementNode.bind_attrs on an element whose attributes are permuted *)
Corollary bind_attrs_perm0 : forall cfg c en a a',
  meta_ok (en_meta en) = true -> Permutation a a' -> NoDup (map fst a) ->
  res_rel astate_equiv (bind_attrs_loop cfg c en a [] []) (bind_attrs_loop cfg c en a' [] []).
Proof.
  intros cfg c en a a' Hok Hp Hn. apply (bind_attrs_perm cfg c en Hok a a' Hp Hn); try apply Inv_nil.
  - apply params_equiv_refl.
  - apply Permutation_refl.
Qed.

(* ================================================================ 9. a decision procedure for the equality used *)
Definition dict_eqb (m m' : list (qname * str)) : bool :=
  forallb (fun kv : qname * str => ostr_eqb (assoc (fst kv) m) (assoc (fst kv) m')) (m ++ m').

Lemma ostr_eqb_true a b : ostr_eqb a b = true <-> a = b.
Proof. apply opt_eqb_spec. apply str_eqb_eq. Qed.

Lemma dict_eqb_spec m m' : dict_eqb m m' = true <-> dict_eq m m'.
Proof.
  unfold dict_eqb. rewrite forallb_forall. split.
  - intros H k. destruct (assoc k m) as [v|] eqn:E.
    + rewrite <- E. apply ostr_eqb_true. apply (H (k, v)). apply in_or_app. left. apply assoc_In. exact E.
    + destruct (assoc k m') as [v'|] eqn:E'; [|reflexivity].
      rewrite <- E, <- E'. apply ostr_eqb_true. apply (H (k, v')). apply in_or_app. right. apply assoc_In. exact E'.
  - intros H kv _. apply ostr_eqb_true. apply H.
Qed.

Lemma pair_str_eqb_spec (x y : str * str) : pair_eqb str_eqb str_eqb x y = true <-> x = y.
Proof.
  destruct x as [a b], y as [a' b']. unfold pair_eqb. cbn [fst snd]. rewrite andb_true_iff, !str_eqb_eq.
  split; [intros [-> ->]; reflexivity|intros E; injection E as -> ->; auto].
Qed.

(* identical, or both with unique keys and the same lookups *)
Definition dict_equivb (m m' : list (qname * str)) : bool :=
  list_eqb (pair_eqb str_eqb str_eqb) m m'
  || (nodup_str (map fst m) && nodup_str (map fst m') && dict_eqb m m').

Lemma dict_equivb_sound m m' : dict_equivb m m' = true -> dict_equiv m m'.
Proof.
  unfold dict_equivb. intros H. apply orb_true_iff in H as [H|H].
  - left. apply (list_eqb_spec _ pair_str_eqb_spec). exact H.
  - apply andb_true_iff in H as [H H3]. apply andb_true_iff in H as [H1 H2].
    apply dict_equiv_of_eq; [apply dict_eqb_spec; exact H3|apply nodup_str_spec; exact H1|apply nodup_str_spec; exact H2].
Qed.

Fixpoint value_eqb_dict (a b : value) {struct a} : bool :=
  let fix vl (x y : list value) : bool :=
    match x, y with
    | [], [] => true
    | p :: x', q :: y' => value_eqb_dict p q && vl x' y'
    | _, _ => false
    end in
  let fix fl (x y : list (str * value)) : bool :=
    match x, y with
    | [], [] => true
    | (n, p) :: x', (m, q) :: y' => str_eqb n m && value_eqb_dict p q && fl x' y'
    | _, _ => false
    end in
  match a, b with
  | VNone, VNone => true
  | VP p, VP q => prim_eqb p q
  | VList t x, VList t' y => Bool.eqb t t' && vl x y
  | VObj c f, VObj c' f' => N.eqb c c' && fl f f'
  | VAny q t tl at_ ch, VAny q' t' tl' at' ch' =>
      ostr_eqb q q' && ostr_eqb t t' && ostr_eqb tl tl' && dict_equivb at_ at' && vl ch ch'
  | VDerived q v ty, VDerived q' v' ty' => str_eqb q q' && value_eqb_dict v v' && ostr_eqb ty ty'
  | VMap m, VMap m' => dict_equivb m m'
  | _, _ => false
  end.

Lemma ptype_eqb_true a b : ptype_eqb a b = true -> a = b.
Proof. destruct a, b; cbn; try discriminate; try reflexivity; intros H; apply N.eqb_eq in H; congruence. Qed.

Lemma prim_eqb_true a b : prim_eqb a b = true -> a = b.
Proof.
  destruct a, b; cbn; try discriminate; intros H;
    try (apply str_eqb_eq in H; congruence).
  - apply Z.eqb_eq in H. congruence.
  - apply Bool.eqb_prop in H. congruence.
  - apply andb_true_iff in H as [H1 H2]. apply N.eqb_eq in H1, H2. congruence.
  - apply andb_true_iff in H as [H1 H2]. apply ptype_eqb_true in H1. apply str_eqb_eq in H2. congruence.
Qed.

Lemma value_eqb_dict_sound a : forall b, value_eqb_dict a b = true -> value_equiv a b.
Proof.
  induction a as [|p|t l IH|cl f IH|q t tl at_ ch IH|q v ty IH|m] using value_ind'; intros b H;
    destruct b as [|p'|t' l'|cl' f'|q' t1 tl' at' ch'|q' v' ty'|m']; cbn [value_eqb_dict] in H; try discriminate.
  - constructor.
  - apply prim_eqb_true in H. subst. constructor.
  - apply andb_true_iff in H as [H1 H2]. apply Bool.eqb_prop in H1. subst t'. constructor.
    revert l' H2. induction IH as [|x l Hx _ IHl]; intros [|y l'] H2; try discriminate; constructor.
    + apply andb_true_iff in H2 as [H2 _]. apply Hx. exact H2.
    + apply andb_true_iff in H2 as [_ H2]. apply IHl. exact H2.
  - apply andb_true_iff in H as [H1 H2]. apply N.eqb_eq in H1. subst cl'. constructor.
    revert f' H2. induction IH as [|[n x] f Hx _ IHf]; intros [|[n' y] f'] H2; try discriminate; constructor.
    + apply andb_true_iff in H2 as [H2 _]. apply andb_true_iff in H2 as [H2 H3]. apply str_eqb_eq in H2.
      split; [exact H2|]. apply Hx. exact H3.
    + apply andb_true_iff in H2 as [_ H2]. apply IHf. exact H2.
  - apply andb_true_iff in H as [H H5]. apply andb_true_iff in H as [H H4]. apply andb_true_iff in H as [H H3].
    apply andb_true_iff in H as [H1 H2]. apply ostr_eqb_true in H1, H2, H3. subst q' t1 tl'.
    apply dict_equivb_sound in H4. constructor; [exact H4|].
    revert ch' H5. induction IH as [|x l Hx _ IHl]; intros [|y l'] H5; try discriminate; constructor.
    + apply andb_true_iff in H5 as [H5 _]. apply Hx. exact H5.
    + apply andb_true_iff in H5 as [_ H5]. apply IHl. exact H5.
  - apply andb_true_iff in H as [H H3]. apply andb_true_iff in H as [H1 H2].
    apply str_eqb_eq in H1. apply ostr_eqb_true in H3. subst q' ty'. constructor. apply IH. exact H2.
  - constructor. apply dict_equivb_sound. exact H.
Qed.

Definition outcome_eqb_dict (o o' : outcome) : bool :=
  match o, o' with
  | Ok v _, Ok v' _ => value_eqb_dict v v'
  | Err _, Err _ => true          (* compare the kinds with the caller's errkind equality *)
  | _, _ => false
  end.

(* ================================================================ 10. the guard: non-trivial instance, and why it is needed *)
Definition w_conv : conv :=
  mk_conv (fun _ _ _ s => Some (PStr s)) (fun _ _ => []) (fun _ _ => false) (fun _ => ([], false)) (fun _ => None).
Definition w_strict : str := [115;116;114;105;99;116].
Definition w_attr (i : N) (name : str) : xvar :=
  mk_xvar i name name name None KAttribute [TStr] None true false None None None false w_strict false false None DNone [] [] [].
Definition w_attrs (i : N) (name : str) : xvar :=
  mk_xvar i name name name None KAttributes [TStr] None true false None None None false w_strict false false None DFactoryDict [] [] [].
Definition w_meta (attrs : list (qname * xvar)) (anys : list xvar) : xmeta :=
  mk_xmeta 1 [82] (Some [82]) false None [] [] [] attrs anys [] None false.
Definition w_universe (m : xmeta) : universe := mk_universe [(1%N, m)] [(1%N, [1%N])] [(1%N, [])] [([82], [1%N])] [] [(1%N, [82])].
Definition w_doc (attrs : list (qname * str)) : list pevent := [PStart [82] attrs []; PEnd [82] None None].

(* class R: x = Attribute "a", y = Attribute "b", rest = Attributes (##any) *)
Definition u_good : universe := w_universe (w_meta [([97], w_attr 1 [120]); ([98], w_attr 2 [121])] [w_attrs 3 [114;101;115;116]]).
Definition doc_good  := w_doc [([97], [49]); ([99], [51]); ([98], [50]); ([100], [52])].
Definition doc_good' := w_doc [([100], [52]); ([98], [50]); ([99], [51]); ([97], [49])].

Example guard_nontrivial :
  universe_ok u_good = true
  /\ Forall2 ev_perm doc_good doc_good'
  /\ parse default_config w_conv u_good (Some 1%N) doc_good
     = Ok (VObj 1 [([120], VP (PStr [49])); ([121], VP (PStr [50])); ([114;101;115;116], VMap [([99], [51]); ([100], [52])])]) []
  /\ parse default_config w_conv u_good (Some 1%N) doc_good'
     = Ok (VObj 1 [([120], VP (PStr [49])); ([121], VP (PStr [50])); ([114;101;115;116], VMap [([100], [52]); ([99], [51])])]) []
  /\ outcome_equiv (parse default_config w_conv u_good (Some 1%N) doc_good) (parse default_config w_conv u_good (Some 1%N) doc_good').
Proof.
  assert (Hev : Forall2 ev_perm doc_good doc_good').
  { constructor; [|constructor; [cbn; auto|constructor]]. cbn [ev_perm]. repeat split.
    - apply NoDup_Permutation.
      + apply NoDup_of_keys. apply nodup_str_spec. vm_compute. reflexivity.
      + apply NoDup_of_keys. apply nodup_str_spec. vm_compute. reflexivity.
      + intros x. cbn [In]. tauto.
    - apply nodup_str_spec. vm_compute. reflexivity. }
  split; [vm_compute; reflexivity|]. split; [exact Hev|]. split; [vm_compute; reflexivity|]. split; [vm_compute; reflexivity|].
  apply attrs_perm_invariant; [vm_compute; reflexivity|exact Hev].
Qed.

(* Without the guard the statement is FALSE of the model (for metadata the real XmlContext never
   builds: two fields of one dataclass cannot share a name).
   Clause 1: two Attribute vars named "x": the first attribute delivered wins. *)
Definition u_bad1 : universe := w_universe (w_meta [([97], w_attr 1 [120]); ([98], w_attr 2 [120])] []).
(* Clause 2: an Attribute var and an Attributes var both named "x": `params["x"]` is a str or a dict
   depending on which attribute comes first. *)
Definition u_bad2 : universe := w_universe (w_meta [([97], w_attr 1 [120])] [w_attrs 2 [120]]).
Definition doc_bad  := w_doc [([97], [49]); ([98], [50])].
Definition doc_bad' := w_doc [([98], [50]); ([97], [49])].

Lemma doc_bad_perm : Forall2 ev_perm doc_bad doc_bad'.
Proof.
  constructor; [|constructor; [cbn; auto|constructor]]. cbn [ev_perm]. repeat split.
  - apply perm_swap.
  - apply nodup_str_spec. vm_compute. reflexivity.
Qed.

Theorem attrs_perm_invariant_refuted :
  exists cfg c u root evs evs',
    Forall2 ev_perm evs evs' /\ ~ outcome_equiv (parse cfg c u root evs) (parse cfg c u root evs').
Proof.
  exists default_config, w_conv, u_bad1, (Some 1%N), doc_bad, doc_bad'. split; [exact doc_bad_perm|].
  assert (E1 : parse default_config w_conv u_bad1 (Some 1%N) doc_bad = Ok (VObj 1 [([120], VP (PStr [49])); ([120], VP (PStr [49]))]) [])
    by (vm_compute; reflexivity).
  assert (E2 : parse default_config w_conv u_bad1 (Some 1%N) doc_bad' = Ok (VObj 1 [([120], VP (PStr [50])); ([120], VP (PStr [50]))]) [])
    by (vm_compute; reflexivity).
  rewrite E1, E2. cbn [outcome_equiv]. intros [H _].
  apply ve_inv in H. cbn [ve_shape] in H. destruct H as (f' & E & Hf). injection E as <-.
  inversion Hf as [|? ? ? ? [_ Hx] _]; subst. cbn [snd] in Hx. apply ve_inv in Hx. discriminate.
Qed.

Theorem attrs_perm_invariant_refuted_any :
  exists cfg c u root evs evs',
    Forall2 ev_perm evs evs' /\ ~ outcome_equiv (parse cfg c u root evs) (parse cfg c u root evs').
Proof.
  exists default_config, w_conv, u_bad2, (Some 1%N), doc_bad, doc_bad'. split; [exact doc_bad_perm|].
  assert (E1 : parse default_config w_conv u_bad2 (Some 1%N) doc_bad = Err ModelGap) by (vm_compute; reflexivity).
  assert (E2 : parse default_config w_conv u_bad2 (Some 1%N) doc_bad'
               = Ok (VObj 1 [([120], VMap [([98], [50]); ([97], [49])]); ([120], VMap [([98], [50]); ([97], [49])])]) []) by (vm_compute; reflexivity).
  rewrite E1, E2. cbn [outcome_equiv]. exact (fun H => H).
Qed.

Example guard_excludes_refutations : universe_ok u_bad1 = false /\ universe_ok u_bad2 = false.
Proof. split; vm_compute; reflexivity. Qed.

Print Assumptions bind_attrs_perm.
Print Assumptions attrs_perm_invariant.
Print Assumptions attrs_perm_invariant_n.
Print Assumptions attrs_perm_invariant_refuted.
Print Assumptions attrs_perm_invariant_refuted_any.
Print Assumptions dict_eq_iff_perm.
Print Assumptions value_eqb_dict_sound.
