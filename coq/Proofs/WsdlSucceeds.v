(* Proofs/WsdlSucceeds.v — generation succeeds on every document of the fragment, guard or not:
   the mapper raises nothing (no "Unknown WSDL Type", no AttributeError, no StopIteration). *)
From Coq Require Import NArith List Bool Lia.
From XV Require Import Base.Str Base.Eqb Base.PyInt Gen.WsdlTables Spec.WsdlSpec Model.Wsdl Model.WsdlCorr
  Proofs.WsdlLemmas Proofs.WsdlParts Proofs.WsdlEnvelope Proofs.WsdlSide Proofs.WsdlMapper Proofs.WsdlTheorem.
Import ListNotations.
Open Scope N_scope.

Definition has_inner (n : str) (c : aclass) : bool := existsb (inner_named n) (c_inner c).

Lemma update_first_names n f l m :
  (forall c, c_name (f c) = c_name c) ->
  existsb (inner_named m) (update_first n f l) = existsb (inner_named m) l.
Proof.
  intros Hf. induction l as [|c r IH]; [reflexivity|]. cbn [update_first].
  destruct (inner_named n c); cbn [existsb]; [|rewrite IH; reflexivity].
  unfold inner_named at 1 3. rewrite Hf. reflexivity.
Qed.

Lemma extend_attrs_name a c : c_name (extend_attrs a c) = c_name c.
Proof. destruct c; reflexivity. Qed.

Lemma build_inner_has n ns tg : has_inner n (build_inner_class tg n ns) = true.
Proof.
  unfold build_inner_class, has_inner. destruct (existsb (inner_named n) (c_inner tg)) eqn:E; [exact E|].
  destruct tg as [q m t nsx at_ inn]. cbn [set_inner set_attrs c_inner c_attrs]. rewrite existsb_app. cbn.
  unfold inner_named, c_name. cbn. rewrite str_eqb_refl. apply orb_true_r.
Qed.

Lemma build_inner_keeps n m ns tg : has_inner m tg = true -> has_inner m (build_inner_class tg n ns) = true.
Proof.
  unfold build_inner_class, has_inner. intros H. destruct (existsb (inner_named n) (c_inner tg)); [exact H|].
  destruct tg as [q mm t nsx at_ inn]. cbn [set_inner set_attrs c_inner c_attrs] in *. rewrite existsb_app, H. reflexivity.
Qed.

Lemma update_inner_has n m a tg : has_inner m (update_inner tg n (extend_attrs a)) = has_inner m tg.
Proof.
  unfold update_inner, has_inner. destruct tg as [q mm t nsx at_ inn]. cbn [set_inner c_inner].
  apply update_first_names. intros c. apply extend_attrs_name.
Qed.

Lemma existsb_partition {A} (f g : A -> bool) l :
  existsb f (filter g l ++ filter (fun x => negb (g x)) l) = existsb f l.
Proof.
  rewrite existsb_app. induction l as [|x r IH]; [reflexivity|]. cbn. destruct (g x); cbn; rewrite <- IH.
  - rewrite orb_assoc. reflexivity.
  - destruct (f x); cbn; [apply orb_true_r|reflexivity].
Qed.

Lemma sort_envelope_has n c : has_inner n (sort_envelope c) = has_inner n c.
Proof. unfold has_inner, sort_envelope. destruct c as [q m t ns at_ inn]. cbn [set_inner set_attrs c_inner]. apply existsb_partition. Qed.

Section Succeeds.
  Variables (d : definitions) (t : str).
  Hypothesis Ht : d_tns d = Some t.
  Hypothesis Htn : nonempty t = true.

  Lemma fold_steps_some style operation ptm bm exts :
    (forall e, In e exts -> exists a, ext_attrs d style operation ptm bm e = Some a) ->
    forall tg, exists tg', fold_left (envelope_step d style operation ptm bm) exts (Some tg) = Some tg'
                           /\ (has_inner m_body tg = true \/ existsb is_body exts = true -> has_inner m_body tg' = true).
  Proof.
    induction exts as [|e r IH]; intros Hall tg.
    - exists tg. split; [reflexivity|]. intros [H|H]; [exact H|discriminate].
    - destruct (Hall e (or_introl eq_refl)) as [a Ha]. cbn [fold_left]. unfold envelope_step at 2. rewrite Ha.
      destruct (IH (fun e' He' => Hall e' (or_intror He')) (update_inner (build_inner_class tg (ext_class_name e) None) (ext_class_name e) (extend_attrs a)))
        as [tg' [Ef Hb]].
      exists tg'. split; [exact Ef|]. intros H. apply Hb. rewrite update_inner_has.
      destruct H as [H|H].
      + left. apply build_inner_keeps. exact H.
      + cbn [existsb] in H. apply orb_true_iff in H as [H|H]; [|right; exact H].
        left. destruct e; [|discriminate]. apply build_inner_has.
  Qed.

  Lemma body_among bm use ns parts : the_body bm = Some (use, ns, parts) -> existsb is_body (bm_exts bm) = true.
  Proof.
    unfold the_body.
    change (fun e : soap_ext => match e with SoapBody _ _ _ => true | SoapHeader _ _ _ => false end) with is_body.
    generalize (bm_exts bm). intros l. induction l as [|e r IH]; cbn; [discriminate|].
    destruct (is_body e); [reflexivity|]. exact IH.
  Qed.

  Hypothesis Hmsgs : forallb message_ok (d_messages d) = true.

  (* parts_clean is not available without clause 10; only part_ok is needed nowhere here *)
  Lemma side_succeeds po name style suffix operation is_output bm ptm :
    b_msg_ok d style bm ptm = true ->
    (is_output = true -> forallb (fault_wf d) (pto_faults po) = true) ->
    exists cs, map_one_message d po name style (Some m_soap_env) suffix bm (Some ptm) operation is_output = Some cs.
  Proof.
    intros Hok Hfw. unfold b_msg_ok in Hok.
    destruct (the_body bm) as [[[use bodyns] parts]|] eqn:Hbody; [|discriminate].
    destruct (find_message d (ptm_ns ptm) (ptm_message ptm)) as [dm|] eqn:Hfm; [|discriminate].
    apply andb_true_iff in Hok as [Hok Hhw]. apply andb_true_iff in Hok as [Hok Hpw].
    apply andb_true_iff in Hok as [_ Hr].
    destruct (find_message_facts d t Ht Htn _ _ _ Hfm) as [Hind [Hsuf [Hbn [Hloc [prefix [Esplit Ens]]]]]].
    unfold map_one_message.
    assert (Hexts : forall e, In e (bm_exts bm) -> exists a, ext_attrs d style operation ptm bm e = Some a).
    { intros e He. rewrite forallb_forall in Hhw. specialize (Hhw e He).
      destruct e as [u n p|msg prt u].
      - (* the body: there is exactly one, so this is it *)
        destruct (str_eqb style m_rpc) eqn:Es.
        + cbn [ext_attrs ext_class_name]. rewrite Es, str_eqb_refl. cbn [andb]. eauto.
        + cbn [ext_attrs]. rewrite Es. cbn [andb]. unfold map_binding_message_parts. rewrite Hsuf. eauto.
      - cbn [ext_attrs]. apply andb_true_iff in Hhw as [_ Hhw].
        destruct (find_message d (bm_ns bm) msg) as [hm|] eqn:Ef; [|discriminate].
        destruct (find_message_facts d t Ht Htn _ _ _ Ef) as [_ [_ [Hbyname [Hl _]]]].
        unfold map_binding_message_parts. rewrite (any_attr_local_resolved d t _ _ _ Ht Htn Hl), Hbyname. eauto. }
    assert (Hmsgclass : str_eqb style m_rpc = true -> exists c, build_message_class d (Some ptm) = Some c).
    { intros Es. rewrite c_rpc in Es. rewrite Es in Hr. cbn [negb orb] in Hr.
      destruct bodyns as [u|]; [|discriminate]. apply andb_true_iff in Hr as [_ Hl].
      destruct (resolve_local d (msg_ns dm) (ptm_message ptm)) as [l|] eqn:El; [|discriminate].
      cbn in Hl. apply str_eqb_eq in Hl. subst l.
      exists (msg_class t dm). apply (message_class_rpc d t Ht Htn ptm dm Hfm El). }
    unfold build_envelope_class.
    destruct (fold_steps_some style operation ptm bm (bm_exts bm) Hexts
                (AClass (build_qname (d_tns d) (name ++ [95] ++ suffix)) (Some m_envelope) TagBindingMessage (Some m_soap_env) [] []))
      as [tg' [Ef Hb]].
    rewrite Ef. cbn [option_map].
    assert (exists ms, (if str_eqb style m_rpc
                        then match build_message_class d (Some ptm) with Some c => Some [c] | None => None end
                        else Some []) = Some ms) as [ms Ems].
    { destruct (str_eqb style m_rpc) eqn:Es; [|eauto]. destruct (Hmsgclass eq_refl) as [c ->]. eauto. }
    rewrite Ems.
    destruct is_output; [|eauto].
    unfold build_envelope_fault.
    pose proof (Hb (or_intror (body_among bm _ _ _ Hbody))) as Hhas. rewrite <- sort_envelope_has in Hhas.
    unfold has_inner in Hhas.
    destruct (find (inner_named m_body) (c_inner (sort_envelope tg'))) as [body|] eqn:Efind.
    2:{ exfalso. apply existsb_exists in Hhas as [x [Hx1 Hx2]]. pose proof (find_none _ _ Efind x Hx1). congruence. }
    assert (exists das, detail_attrs d (pto_faults po) = Some das) as [das Ed].
    { clear -Ht Htn Hfw. specialize (Hfw eq_refl). induction (pto_faults po) as [|f r IH]; [cbn; eauto|].
      cbn in Hfw. apply andb_true_iff in Hfw as [Hf Hr]. destruct (IH Hr) as [das Ed].
      unfold fault_wf in Hf. destruct (find_message d (ptm_ns f) (ptm_message f)) as [m|] eqn:Ef; [|discriminate].
      destruct (find_message_facts d t Ht Htn _ _ _ Ef) as [_ [Hsuf _]].
      cbn [detail_attrs]. rewrite Hsuf, Ed. eauto. }
    rewrite Ed. eauto.
  Qed.

  Lemma op_succeeds b pt p bo sb :
    b_soap b = Some sb -> sb_transport sb = Some SOAP_HTTP ->
    b_operation_ok d b pt bo = true ->
    exists cs, (match find_named pto_name (pt_operations pt) (bo_name bo) with
                | None => None
                | Some po => map_binding_operation d bo po (op_config (port_config b p) bo) (pt_name pt)
                end) = Some cs.
  Proof.
    intros Hsb Htr Hok. unfold b_operation_ok in Hok. rewrite find_named_eq.
    destruct (find_by pto_name (pt_operations pt) (bo_name bo)) as [po|] eqn:Epo.
    2:{ rewrite !andb_false_r in Hok. discriminate. }
    apply andb_true_iff in Hok as [_ Hrest]. apply andb_true_iff in Hrest as [Hio Hfaults].
    destruct (bo_input bo) as [bi|] eqn:Ebi; [|discriminate].
    destruct (pto_input po) as [pi|] eqn:Epi; [|discriminate].
    destruct (bo_output bo) as [bo'|] eqn:Ebo; [|discriminate].
    destruct (pto_output po) as [po'|] eqn:Epo'; [|discriminate].
    apply andb_true_iff in Hio as [Hoki Hoko].
    unfold map_binding_operation. rewrite style_eq.
    destruct (default_style_other b p bo) as [_ [Dt _]]. rewrite Dt.
    replace (operation_namespace (cf_transport (op_config (port_config b p) bo))) with (Some m_soap_env).
    2:{ unfold op_config, port_config. destruct (bo_soap bo); cbn [cf_transport]; rewrite Hsb; cbn [obind]; rewrite Htr; reflexivity. }
    unfold map_binding_operation_messages. rewrite Ebi, Ebo, Epi, Epo'.
    destruct (side_succeeds po (pt_name pt ++ [95] ++ bo_name bo) (effective_style b bo) m_input (Some (bo_name bo)) false bi pi Hoki)
      as [ci Eci]; [discriminate|].
    destruct (side_succeeds po (pt_name pt ++ [95] ++ bo_name bo) (effective_style b bo) m_output None true bo' po' Hoko)
      as [co Eco]; [intros _; exact Hfaults|].
    rewrite Eci, Eco. eauto.
  Qed.
End Succeeds.

Lemma concat_opt_some {A B} (f : A -> option (list B)) l :
  (forall x, In x l -> exists y, f x = Some y) -> exists ys, concat_opt (map f l) = Some ys.
Proof.
  induction l as [|x r IH]; intros H; [cbn; eauto|].
  destruct (H x (or_introl eq_refl)) as [y Ey]. destruct (IH (fun x' Hx' => H x' (or_intror Hx'))) as [ys Eys].
  cbn. rewrite Ey, Eys. eauto.
Qed.

Theorem generation_succeeds_wf : forall d, wf_definitions d = true -> exists cs, map_definitions d = Some cs.
Proof.
  intros d Hwf. unfold wf_definitions in Hwf.
  apply andb_true_iff in Hwf as [Hwf Hports]. apply andb_true_iff in Hwf as [Htns Hmsgs].
  destruct (d_tns d) as [t|] eqn:Et; [|discriminate].
  unfold map_definitions. apply concat_opt_some. intros p Hp.
  apply in_flat_map in Hp as [s [Hs Hp]].
  rewrite forallb_forall in Hports. specialize (Hports s Hs). rewrite forallb_forall in Hports. specialize (Hports p Hp).
  unfold port_ok in Hports. unfold map_port.
  apply andb_true_iff in Hports as [_ Hb].
  destruct (resolve_local d (port_ns p) (port_binding p)) as [lb|] eqn:Erb; [|discriminate]. cbn [obind] in Hb.
  destruct (find_by b_name (d_bindings d) lb) as [b|] eqn:Efb; [|discriminate].
  destruct (resolve_local_suffix d t _ _ _ Et Htns Erb) as [_ [_ [_ Esuf]]].
  rewrite Esuf, find_named_eq, Efb.
  unfold binding_ok in Hb. apply andb_true_iff in Hb as [Hb Hpt]. apply andb_true_iff in Hb as [Hsoap Hnodup].
  destruct (b_soap b) as [sb|] eqn:Esb; [|discriminate].
  apply andb_true_iff in Hsoap as [Htr _].
  destruct (resolve_local d (b_ns b) (b_type b)) as [lpt|] eqn:Erpt; [|discriminate]. cbn [obind] in Hpt.
  destruct (find_by pt_name (d_port_types d) lpt) as [pt|] eqn:Efpt; [|discriminate].
  destruct (resolve_local_suffix d t _ _ _ Et Htns Erpt) as [_ [_ [_ Esuf2]]].
  rewrite Esuf2, find_named_eq, Efpt.
  apply andb_true_iff in Hpt as [_ Hops].
  unfold map_binding. rewrite (unique_operations_nodup _ Hnodup).
  assert (sb_transport sb = Some SOAP_HTTP) as Htr'.
  { destruct (sb_transport sb) as [x|]; [|discriminate]. cbn in Htr. apply str_eqb_eq in Htr. subst. reflexivity. }
  apply concat_opt_some. intros bo Hbo. rewrite forallb_forall in Hops.
  apply (op_succeeds d t Et Htns b pt p bo sb Esb Htr' (Hops bo Hbo)).
Qed.
