(* Proofs/RoundtripExamples.v — the hypotheses and guards of the round-trip theorem (C01) are
   inhabited, and one witness per refuted guard clause:
   * `conv_c05`: the converter interface instantiated with property C05's models of the str,
     int and bool converters satisfies the converter law (C05_int_roundtrip, C05_bool_roundtrip);
   * metadata exported from the REAL XmlContext for a rich binding model and an instance of it
     satisfy `wf_model` / `fits`; the events the REAL handlers delivered for the REAL writers'
     output (indentation, user prefix map, both backends) read as the expected tree and are
     parsed back to the instance;
   * the nillable clause: xsi:nil conflation (known finding C01-F1);
   * the clause `seq_member` (no token list inside a sequence group): known finding C01-F7. *)
From Coq Require Import NArith ZArith List Bool.
From XV Require Import Base.Str Base.Eqb Base.PyInt Spec.XmlNs Model.Bind Model.WriterBridge Spec.Fits Model.RoundtripCorr
  Model.ConvInt Model.ConvBool Proofs.ConvInt Proofs.ConvBool Proofs.RoundtripWitness Proofs.RoundtripBase.
From XV Require Model.EventGen Model.Parser Model.ParserCorr.
Import ListNotations.
Open Scope N_scope.

(* ---------------------------------------------------------------- a converter from C05's models *)
Definition conv_c05 : conv :=
  mk_conv
    (fun tys fmt ns s =>
       match tys with
       | [TStr] => Some (PStr s)
       | [TInt] => option_map PInt (int_deser s)
       | [TBool] => option_map PBool (bool_deser s)
       | [TQName] => option_map (fun q => PQName (clark_of q)) (resolve_qname ns s)   (* XML Schema QName resolution *)
       | _ => None
       end)
    (fun fmt p =>
       match p with
       | PInt z => match int_ser z with Some s => s | None => [] end
       | PBool b => bool_ser b
       | _ => []
       end)
    (fun _ _ => false)
    (fun p => match p with PStr _ => (EventGen.XS_STRING, true) | _ => ([], false) end)   (* DataType.from_value(str) = xs:string *)
    (fun _ => None).

Definition ok_c05 (p : prim) : bool :=
  match p with
  | PStr _ | PBool _ | PQName _ => true
  | PInt z => match int_ser z with Some _ => true | None => false end
  | _ => false
  end.

Lemma conv_c05_law u : conv_roundtrips conv_c05 u ok_c05.
Proof.
  split.
  - intros fmt ns p s Hok Hs. destruct p; try discriminate Hok; cbn [ptext plain_text] in Hs; inversion Hs; subst; clear Hs.
    + reflexivity.
    + cbn [prim_ptype conv_c05 c_deser c_ser]. cbn [ok_c05] in Hok.
      destruct (int_ser z) as [s|] eqn:E; [|discriminate]. rewrite (int_roundtrip z s E). reflexivity.
    + cbn [prim_ptype conv_c05 c_deser c_ser]. rewrite bool_roundtrip. reflexivity.
  - intros fmt ns q s _ Hr. cbn [conv_c05 c_deser]. rewrite Hr. cbn [option_map]. rewrite clark_split. reflexivity.
Qed.

(* ---------------------------------------------------------------- the guards are inhabited *)
Definition cfg_strict : Parser.pconfig := Parser.mk_pconfig true true true [].

Example guards_rich :
  wf_model u_rich root_rich = true
  /\ fits conv_c05 u_rich ok_c05 py_isspace 2 root_rich o_rich = true
  /\ nodefault_free cfg_strict = true.
Proof. repeat split; vm_compute; reflexivity. Qed.

(* what the REAL handlers delivered for the REAL writers' output reads as the expected tree ... *)
Definition expected_rich (ign : bool) : option XmlNs.enode :=
  expected_of conv_c05 (EventGen.generate ign conv_c05 u_rich o_rich).

Example real_events_read_rich :
  (match expected_rich false with Some e => reads_b true e pevs_rich_native_indent | None => false end) = true
  /\ (match expected_rich true with Some e => reads_b true e pevs_rich_lxml | None => false end) = true.
Proof. split; vm_compute; reflexivity. Qed.

(* ... and is parsed back to the instance (the theorem's conclusion, computed) *)
Example real_events_parse_rich :
  Parser.parse cfg_strict conv_c05 u_rich (Some root_rich) pevs_rich_native_indent = Parser.Ok o_rich []
  /\ Parser.parse cfg_strict conv_c05 u_rich (Some root_rich) pevs_rich_lxml = Parser.Ok o_rich []
  /\ Parser.parse cfg_strict conv_c05 u_rich (Some root_rich) (pump (expected_rich false)) = Parser.Ok o_rich [].
Proof. repeat split; vm_compute; reflexivity. Qed.

(* ---------------------------------------------------------------- the nillable clause *)
(* the metadata with every nillable flag cleared *)
Fixpoint clear_nil_var (fuel : nat) (v : xvar) : xvar :=
  mk_xvar (v_index v) (v_name v) (v_local_name v) (v_qname v) (v_wrapper_qname v) (v_kind v) (v_types v)
          (v_clazz v) (v_init v) (v_mixed v) (v_factory v) (v_tokens_factory v) (v_format v) (v_any_type v)
          (v_process_contents v) (v_required v) false (v_sequence v) (v_default v) (v_namespaces v)
          (match fuel with
           | O => v_elements v
           | S f => map (fun e => (fst e, clear_nil_var f (snd e))) (v_elements v)
           end)
          (v_wildcards v).
Definition clear_nil_meta (m : xmeta) : xmeta :=
  mk_xmeta (m_clazz m) (m_qname m) (m_target_qname m) false
           (option_map (clear_nil_var 1) (m_text m)) (m_choices m)
           (map (fun e => (fst e, map (clear_nil_var 1) (snd e))) (m_elements m))
           (m_wildcards m)
           (map (fun e => (fst e, clear_nil_var 1 (snd e))) (m_attributes m))
           (m_any_attributes m) (m_wrappers m) (m_namespace m) (m_mixed_content m).
Definition clear_nil (u : universe) : universe :=
  mk_universe (map (fun e => (fst e, clear_nil_meta (snd e))) (u_metas u)) (u_mro u) (u_bases u) (u_xsi u) (u_enums u) (u_names u).

Definition composition_nil : Parser.outcome :=
  Parser.parse cfg_strict conv_c05 u_nil (Some root_nil)
    (pump (expected_of conv_c05 (EventGen.generate false conv_c05 u_nil o_nil))).

(* A(b=B(x=1)), b nillable: the instance B(x=1) has no content (an attribute only), the element keeps
   xsi:nil="true" and the round trip returns A(b=None) — in the faithful models (composition)
   and on the events the real handler delivered for the real writer's output; the only guard clause
   the case violates is has_content for an instance in a nillable field (the metadata is inside
   wf_model; with the nillable flags cleared the instance fits) *)
Theorem nil_conflation_refuted :
  wf_model u_nil root_nil = true
  /\ fits conv_c05 u_nil ok_c05 py_isspace 2 root_nil o_nil = false
  /\ wf_model (clear_nil u_nil) root_nil = true
  /\ fits conv_c05 (clear_nil u_nil) ok_c05 py_isspace 2 root_nil o_nil = true
  /\ composition_nil = Parser.Ok (VObj root_nil [([98], VNone)]) []
  /\ Parser.parse cfg_strict conv_c05 u_nil (Some root_nil) pevs_nil = Parser.Ok (VObj root_nil [([98], VNone)]) []
  /\ ParserCorr.outcome_eqb composition_nil (Parser.Ok o_nil []) = false.
Proof. repeat split; vm_compute; reflexivity. Qed.

(* ---------------------------------------------------------------- token lists inside a sequence group *)
(* the metadata with every `sequence` number removed *)
Definition clear_seq_var (v : xvar) : xvar :=
  mk_xvar (v_index v) (v_name v) (v_local_name v) (v_qname v) (v_wrapper_qname v) (v_kind v) (v_types v)
          (v_clazz v) (v_init v) (v_mixed v) (v_factory v) (v_tokens_factory v) (v_format v) (v_any_type v)
          (v_process_contents v) (v_required v) (v_nillable v) None (v_default v) (v_namespaces v)
          (v_elements v) (v_wildcards v).
Definition clear_seq_meta (m : xmeta) : xmeta :=
  mk_xmeta (m_clazz m) (m_qname m) (m_target_qname m) (m_nillable m)
           (m_text m) (m_choices m)
           (map (fun e => (fst e, map clear_seq_var (snd e))) (m_elements m))
           (m_wildcards m) (m_attributes m)
           (m_any_attributes m) (m_wrappers m) (m_namespace m) (m_mixed_content m).
Definition clear_seq (u : universe) : universe :=
  mk_universe (map (fun e => (fst e, clear_seq_meta (snd e))) (u_metas u)) (u_mro u) (u_bases u) (u_xsi u) (u_enums u) (u_names u).

Definition composition_seqtok : Parser.outcome :=
  Parser.parse cfg_strict conv_c05 u_seqtok (Some root_seqtok)
    (pump (expected_of conv_c05 (EventGen.generate false conv_c05 u_seqtok o_seqtok))).

(* S(x=['ab','cd'], y='q'), x a token list, x and y in one sequence group: next_value yields the
   tokens of x one by one, interleaved with y; the parser meets a second <x> for a field that is not
   a list.  The round trip fails in the faithful models (composition) and on the events the real
   handler delivered for the real writer's output; the only guard clause the case violates is
   seq_member (without the sequence numbers the metadata and the instance are inside the guards) *)
Theorem sequence_tokens_refuted :
  wf_model u_seqtok root_seqtok = false
  /\ wf_model (clear_seq u_seqtok) root_seqtok = true
  /\ fits conv_c05 (clear_seq u_seqtok) ok_c05 py_isspace 1 root_seqtok o_seqtok = true
  /\ ParserCorr.outcome_eqb composition_seqtok (Parser.Ok o_seqtok []) = false
  /\ ParserCorr.outcome_eqb (Parser.parse cfg_strict conv_c05 u_seqtok (Some root_seqtok) pevs_seqtok) (Parser.Ok o_seqtok []) = false
  /\ ParserCorr.outcome_eqb composition_seqtok (Parser.parse cfg_strict conv_c05 u_seqtok (Some root_seqtok) pevs_seqtok) = true.
Proof. repeat split; vm_compute; reflexivity. Qed.

(* ---------------------------------------------------------------- QName element values *)
Example guards_qn :
  wf_model u_qn root_qn = true
  /\ fits conv_c05 u_qn ok_c05 py_isspace 2 root_qn o_qn = true
  /\ noq o_qn = false.
Proof. repeat split; vm_compute; reflexivity. Qed.

Definition expected_qn : option XmlNs.enode :=
  expected_of conv_c05 (EventGen.generate false conv_c05 u_qn o_qn).

(* the events the real LxmlEventHandler delivered for the indented output of the real
   LxmlEventWriter read as the expected tree (every QName through the prefix map of its own start
   event) and are parsed back *)
Example real_events_qn :
  (match expected_qn with Some e => reads_b true e pevs_qn | None => false end) = true
  /\ Parser.parse cfg_strict conv_c05 u_qn (Some root_qn) pevs_qn = Parser.Ok o_qn [].
Proof. split; vm_compute; reflexivity. Qed.

(* known finding C01-F3: the same instance written with the user prefix map {None: urn:a}: the value
   QName('local') is written bare, <ns1:v>local</ns1:v> under xmlns="urn:a", and the reader resolves it
   to {urn:a}local: metadata and instance are inside the guards of the infoset-level theorem, but
   the events the real handler delivered for the real writer's output do NOT read as the expected
   tree, and are parsed to a different instance *)
Theorem qname_default_ns_refuted :
  wf_model u_qn root_qn = true
  /\ fits conv_c05 u_qn ok_c05 py_isspace 2 root_qn o_qn = true
  /\ (match expected_qn with Some e => reads_b true e pevs_qn_default | None => true end) = false
  /\ ParserCorr.outcome_eqb (Parser.parse cfg_strict conv_c05 u_qn (Some root_qn) pevs_qn_default) (Parser.Ok o_qn []) = false
  /\ has_local_qname o_qn = true.
Proof. repeat split; vm_compute; reflexivity. Qed.

(* ---------------------------------------------------------------- a recursive class graph *)
Example guards_tree :
  wf_model u_tree root_tree = true
  /\ fits conv_c05 u_tree ok_c05 py_isspace 4 root_tree o_tree = true
  /\ noq o_tree = true.
Proof. repeat split; vm_compute; reflexivity. Qed.

Example real_events_tree :
  (match expected_of conv_c05 (EventGen.generate false conv_c05 u_tree o_tree) with
   | Some e => reads_b true e pevs_tree | None => false end) = true
  /\ Parser.parse cfg_strict conv_c05 u_tree (Some root_tree) pevs_tree = Parser.Ok o_tree []
  /\ Parser.parse cfg_strict conv_c05 u_tree (Some root_tree)
       (pump (expected_of conv_c05 (EventGen.generate false conv_c05 u_tree o_tree))) = Parser.Ok o_tree [].
Proof. repeat split; vm_compute; reflexivity. Qed.

(* ---------------------------------------------------------------- subclass instances (xsi:type) *)
Example guards_inh :
  wf_model u_inh root_inh = true
  /\ fits conv_c05 u_inh ok_c05 py_isspace 2 root_inh o_inh = true
  /\ exact_classes u_inh 2 root_inh o_inh = false.
Proof. repeat split; vm_compute; reflexivity. Qed.

Definition expected_inh : option XmlNs.enode :=
  expected_of conv_c05 (EventGen.generate false conv_c05 u_inh o_inh).

Example real_events_inh :
  (match expected_inh with Some e => reads_b true e pevs_inh_native | None => false end) = true
  /\ (match expected_inh with Some e => reads_b true e pevs_inh_lxml | None => false end) = true
  /\ Parser.parse cfg_strict conv_c05 u_inh (Some root_inh) pevs_inh_native = Parser.Ok o_inh []
  /\ Parser.parse cfg_strict conv_c05 u_inh (Some root_inh) pevs_inh_lxml = Parser.Ok o_inh [].
Proof. repeat split; vm_compute; reflexivity. Qed.

(* known finding C01-F8: R.item : Optional[Base] holding an instance of the subclass `item`, whose type
   qname equals the element name of the field: EventGenerator.real_xsi_type drops the xsi:type
   attribute, and the parser builds the declared class (strict: ParserError, unknown attribute y).
   Metadata inside wf_model; the instance is outside fits only by the clause `t <> v_qname v` of
   derived_ok; the faithful models agree with the real parser on the real events *)
Definition composition_xdrop : Parser.outcome :=
  Parser.parse cfg_strict conv_c05 u_xdrop (Some root_xdrop)
    (pump (expected_of conv_c05 (EventGen.generate false conv_c05 u_xdrop o_xdrop))).
Definition has_xsi_type_event (r : EventGen.gres (list wevent)) : bool :=
  match r with
  | EventGen.Ok evs => existsb (fun e => match e with WAttr q _ => str_eqb q XSI_TYPE | _ => false end) evs
  | EventGen.Err _ => false
  end.
Theorem xsi_type_dropped_refuted :
  wf_model u_xdrop root_xdrop = true
  /\ fits conv_c05 u_xdrop ok_c05 py_isspace 2 root_xdrop o_xdrop = false
  /\ has_xsi_type_event (EventGen.generate false conv_c05 u_xdrop o_xdrop) = false
  /\ ParserCorr.outcome_eqb composition_xdrop (Parser.Ok o_xdrop []) = false
  /\ ParserCorr.outcome_eqb (Parser.parse cfg_strict conv_c05 u_xdrop (Some root_xdrop) pevs_xdrop) (Parser.Ok o_xdrop []) = false
  /\ ParserCorr.outcome_eqb composition_xdrop (Parser.parse cfg_strict conv_c05 u_xdrop (Some root_xdrop) pevs_xdrop) = true.
Proof. repeat split; vm_compute; reflexivity. Qed.

(* ---------------------------------------------------------------- attribute-map values of the form prefix:local *)
(* the instance with the colon removed from the value: inside the guards *)
Definition o_mapq_plain : value :=
  match o_mapq with
  | VObj k [(n0, VMap [(key, v)])] => VObj k [(n0, VMap [(key, filter (fun ch => negb (N.eqb ch 58)) v)])]
  | x => x
  end.
(* R(m={'k': 'ns0:x'}), class R in namespace urn:a: the value is written literally, the writer binds ns0 to urn:a
   itself, and ParserUtils.parse_any_attribute expands the value to '{urn:a}x'.  The metadata is inside wf_model;
   the instance is outside fits only by the clause map_value_ok (no colon in the value: with the colon removed it
   fits); the REAL handler events read as the tree the events mean (keeping the attribute order), and the faithful
   parser model returns another instance for them *)
Theorem any_attribute_prefix_refuted :
  wf_model u_mapq root_mapq = true
  /\ fits conv_c05 u_mapq ok_c05 py_isspace 1 root_mapq o_mapq = false
  /\ fits conv_c05 u_mapq ok_c05 py_isspace 1 root_mapq o_mapq_plain = true
  /\ (match expected_of conv_c05 (EventGen.generate false conv_c05 u_mapq o_mapq) with
      | Some e => reads_b true e pevs_mapq | None => false end) = true
  /\ ParserCorr.outcome_eqb (Parser.parse cfg_strict conv_c05 u_mapq (Some root_mapq) pevs_mapq) (Parser.Ok o_mapq []) = false
  /\ (match Parser.parse cfg_strict conv_c05 u_mapq (Some root_mapq) pevs_mapq with Parser.Ok _ [] => true | _ => false end) = true.
Proof. repeat split; vm_compute; reflexivity. Qed.

(* ---------------------------------------------------------------- empty instances of nillable classes *)
(* R(p=[P(x='1'), P(e=2), P()], t=T(x='2'), l=L(v=[3, 4])), classes P, T, L nillable: the empty instances P(x='1'), P(), T(x='2')
   keep xsi:nil="true" (they have no content) and ElementNode.bind builds them from their attributes all the same
   (`not self.xsi_nil or self.meta.nillable`); the Text field of T is set to None explicitly.  Inside the guards; the
   REAL handler events read as the tree the events mean and are parsed back to the instance *)
Example nil_kept_example :
  wf_model u_nilk root_nilk = true
  /\ fits conv_c05 u_nilk ok_c05 py_isspace 2 root_nilk o_nilk = true
  /\ (match expected_of conv_c05 (EventGen.generate false conv_c05 u_nilk o_nilk) with
      | Some e => reads_b true e pevs_nilk | None => false end) = true
  /\ Parser.parse cfg_strict conv_c05 u_nilk (Some root_nilk) pevs_nilk = Parser.Ok o_nilk []
  /\ Parser.parse cfg_strict conv_c05 u_nilk (Some root_nilk)
       (pump (expected_of conv_c05 (EventGen.generate false conv_c05 u_nilk o_nilk))) = Parser.Ok o_nilk [].
Proof. repeat split; vm_compute; reflexivity. Qed.

(* R(l=L(v=[], x='3')), v the Text field of the nillable class L holding a token list: the element is written
   <l x="3" xsi:nil="true"/> and under xsi:nil ElementNode.bind_text stores None: the empty list comes back as None
   (Text variant of known finding C01-F1).  The metadata is inside wf_model; the instance is outside fits (clause
   strict_empty: the Text field of an empty instance of a nillable class holds None); the REAL handler events read as
   the tree the events mean, and the faithful parser model returns another instance for them *)
Theorem nil_text_tokens_refuted :
  wf_model u_nilk root_nilk = true
  /\ fits conv_c05 u_nilk ok_c05 py_isspace 2 root_nilk o_nilk_tok = false
  /\ (match expected_of conv_c05 (EventGen.generate false conv_c05 u_nilk o_nilk_tok) with
      | Some e => reads_b true e pevs_nilk_tok | None => false end) = true
  /\ ParserCorr.outcome_eqb (Parser.parse cfg_strict conv_c05 u_nilk (Some root_nilk) pevs_nilk_tok) (Parser.Ok o_nilk_tok []) = false
  /\ (match Parser.parse cfg_strict conv_c05 u_nilk (Some root_nilk) pevs_nilk_tok with Parser.Ok _ [] => true | _ => false end) = true.
Proof. repeat split; vm_compute; reflexivity. Qed.
