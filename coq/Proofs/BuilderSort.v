(* Proofs/BuilderSort.v — sorted(..., key=index) (Bind.sort_by_index, a stable insertion sort) on the
   lists XmlMeta.get_element_vars / get_attribute_vars build from a class whose vars carry
   strictly increasing indices. *)
From Coq Require Import NArith ZArith List Bool Lia.
From XV Require Import Base.Str Base.Eqb Model.Bind.
Import ListNotations.
Open Scope N_scope.

Fixpoint incr (lo : N) (l : list xvar) : Prop :=
  match l with
  | [] => True
  | v :: r => lo < v_index v /\ incr (v_index v) r
  end.

Lemma incr_weaken lo lo' l : lo' <= lo -> incr lo l -> incr lo' l.
Proof. destruct l as [|v r]; [auto|]. cbn. intros H [H1 H2]. split; [lia|exact H2]. Qed.

Lemma incr_all lo l x : incr lo l -> In x l -> lo < v_index x.
Proof.
  revert lo. induction l as [|v r IH]; intros lo Hi Hin; [contradiction|].
  destruct Hi as [H1 H2]. destruct Hin as [->|Hin]; [exact H1|]. pose proof (IH _ H2 Hin). lia.
Qed.

Lemma incr_filter p lo l : incr lo l -> incr lo (filter p l).
Proof.
  revert lo. induction l as [|v r IH]; intros lo Hi; [exact I|]. destruct Hi as [H1 H2]. cbn [filter].
  destruct (p v).
  - split; [exact H1|apply IH; exact H2].
  - apply IH. apply (incr_weaken (v_index v)); [lia|exact H2].
Qed.

Lemma insert_head v l : (forall x, In x l -> v_index v <= v_index x) -> insert_by_index v l = v :: l.
Proof.
  destruct l as [|x r]; [reflexivity|]. intros H. cbn [insert_by_index].
  pose proof (H x (or_introl eq_refl)) as Hx. apply N.leb_le in Hx. rewrite Hx. reflexivity.
Qed.

Lemma in_insert v l x : In x (insert_by_index v l) -> x = v \/ In x l.
Proof.
  induction l as [|y r IH]; cbn [insert_by_index]; intros H.
  - destruct H as [<-|[]]. left. reflexivity.
  - destruct (v_index v <=? v_index y).
    + destruct H as [<-|H]; [left; reflexivity|right; exact H].
    + destruct H as [<-|H]; [right; left; reflexivity|]. destruct (IH H) as [->|Hr]; [left; reflexivity|right; right; exact Hr].
Qed.

Lemma in_sort l x : In x (sort_by_index l) -> In x l.
Proof.
  induction l as [|v r IH]; [auto|]. unfold sort_by_index. cbn [fold_right]. intros H.
  destruct (in_insert v _ x H) as [->|Hr]; [left; reflexivity|right; apply IH; exact Hr].
Qed.

Lemma sort_incr lo l : incr lo l -> sort_by_index l = l.
Proof.
  revert lo. induction l as [|v r IH]; intros lo Hi; [reflexivity|]. destruct Hi as [H1 H2].
  unfold sort_by_index in *. cbn [fold_right]. rewrite (IH _ H2).
  apply insert_head. intros x Hx. pose proof (incr_all _ _ x H2 Hx). lia.
Qed.

(* an element smaller than everything, in the middle of the input, comes out first *)
Lemma sort_min_middle a b v :
  (forall x, In x (a ++ b) -> v_index v < v_index x) ->
  sort_by_index (a ++ v :: b) = v :: sort_by_index (a ++ b).
Proof.
  induction a as [|x a IH]; intros H.
  - cbn [app]. unfold sort_by_index. cbn [fold_right]. apply insert_head.
    intros y Hy. apply in_sort in Hy. pose proof (H y Hy). lia.
  - cbn [app]. unfold sort_by_index in *. cbn [fold_right].
    rewrite IH by (intros y Hy; apply H; right; exact Hy).
    cbn [insert_by_index].
    pose proof (H x (or_introl eq_refl)) as Hx.
    destruct (N.leb_spec (v_index x) (v_index v)); [lia|reflexivity].
Qed.

(* two disjoint selections of a strictly increasing list, concatenated and sorted, are the
   selection of their union *)
Lemma sort_two_filters p q lo V :
  incr lo V -> (forall v, In v V -> p v && q v = false) ->
  sort_by_index (filter p V ++ filter q V) = filter (fun v => p v || q v) V.
Proof.
  revert lo. induction V as [|v r IH]; intros lo Hi Hd; [reflexivity|].
  destruct Hi as [H1 H2].
  assert (Hr : forall x, In x r -> v_index v < v_index x) by (intros x Hx; apply (incr_all _ _ x H2 Hx)).
  specialize (IH _ H2 (fun x Hx => Hd x (or_intror Hx))).
  pose proof (Hd v (or_introl eq_refl)) as Hv.
  cbn [filter]. destruct (p v) eqn:Ep, (q v) eqn:Eq; cbn [orb]; try discriminate Hv.
  - cbn [app]. unfold sort_by_index in *. cbn [fold_right]. rewrite IH.
    apply insert_head. intros x Hx. apply filter_In in Hx as [Hx _]. pose proof (Hr x Hx). lia.
  - rewrite sort_min_middle.
    + rewrite IH. reflexivity.
    + intros x Hx. apply in_app_or in Hx as [Hx|Hx]; apply filter_In in Hx as [Hx _]; apply Hr; exact Hx.
  - exact IH.
Qed.
