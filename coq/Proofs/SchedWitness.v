(* Proofs/SchedWitness.v — concrete schedules: the cold-index race, the concurrent form
   of the cache-key defect, and thread sets inside the guard of warm_context_safe. *)
From Coq Require Import String NArith List Bool.
From XV Require Import Base.Str Base.Eqb Model.Context Model.Sched Proofs.ContextWitness Proofs.SchedSafe.
Import ListNotations.
Open Scope N_scope.

Definition ftPA : script := op_script W (OCall (CFindType (lit "{urn:a}PA"))).
Definition docPA : list pevent :=
  [PStart (q "{urn:a}PA") [] None; PStart (q "{urn:a}leaf") [] None; PStart (q "{urn:a}x") [] None;
   PEnd (q "{urn:a}x") (Some (q "1")); PEnd (q "{urn:a}leaf") None; PEnd (q "{urn:a}PA") None].
Definition parsePA : script := parse W docPA None.

(* thread 0 passes the currency check and stops before clear(); thread 1 rebuilds the whole
   index (check, clear, 7 appends, record the module count) and stops before looking the
   qname up; thread 0 clears; thread 1 looks up *)
Definition race_sched : list nat := ([0] ++ repeat 1 10 ++ [0; 1; 1])%nat.

Example race_values :
  conc_run W s0 [ftPA; ftPA] race_sched = [ROk (Node (q "c:2") []); ROk (Node (q "none") [])]
  /\ solo_run W s0 ftPA = ROk (Node (q "c:2") []).
Proof. vm_compute. split; reflexivity. Qed.

Lemma cold_index_race :
  nth_error (conc_run W s0 [ftPA; ftPA] race_sched) 1 <> Some (solo_run W s0 ftPA)
  /\ conc_guard W [] [ftPA; ftPA] = true /\ warm_b W s0 = false.
Proof. vm_compute. split; [discriminate|split; reflexivity]. Qed.

(* the same schedule under a parser that has to locate the root class *)
Example race_parse :
  conc_run W s0 [parsePA; parsePA] race_sched
  = [ROk (tree_of_value vPA); RErr e_parser (q "No class found matching root: {urn:a}PA")]
  /\ solo_run W s0 parsePA = ROk (tree_of_value vPA).
Proof. vm_compute. split; reflexivity. Qed.

(* a half-built index: thread 1 looks up after thread 0 has re-appended only some classes *)
Example race_half_built :
  exists sched, nth_error (conc_run W s0 [ftPA; ftPA] sched) 0 <> Some (solo_run W s0 ftPA).
Proof.
  (* 1 builds completely and looks up `has` (true) ; 0 clears and refills nothing yet; 1 fetches the list *)
  exists ([1] ++ repeat 0 10 ++ [1; 0; 0])%nat. vm_compute. discriminate.
Qed.

(* ---- warm context ---- *)
Definition warm1 : sstate := fst (solo W s0 (expand W ftPA)).

Example warm1_is_warm : warm_b W warm1 = true.
Proof. vm_compute. reflexivity. Qed.

Definition fetchPA : script := op_script W (OCall (CFetch 2 None (Some (q "{urn:a}PA")))).
Definition good_threads : list script :=
  [serialize W vPA; parsePA; ftPA; fetchPA; serialize W vOwn; parse W docOwn None;
   serialize W (V (GObj 14) []); parse W (firstn 3 docPA ++ [PBad]) (Some 2)].

Example conc_guard_nonvacuous : conc_guard W (s_cache warm1) good_threads = true.
Proof. vm_compute. reflexivity. Qed.

(* the theorem applied: any schedule *)
Example good_threads_safe sched :
  conc_run W warm1 good_threads sched = map (ideal_run_c W) good_threads.
Proof. apply warm_context_safe; [exact warm1_is_warm|exact conc_guard_nonvacuous]. Qed.

(* the race schedule on the warm context is harmless *)
Example race_sched_warm :
  conc_run W warm1 [ftPA; ftPA] race_sched = [solo_run W warm1 ftPA; solo_run W warm1 ftPA].
Proof. vm_compute. reflexivity. Qed.

(* ---- the cache-key defect, concurrently: both threads miss Leaf, both store, the one
   that stored first reads the other's metadata back ---- *)
Definition ns_threads : list script := [serialize W vPA; serialize W vPB].
Definition ns_sched : list nat := [0; 0; 0; 0; 1; 1; 1; 1; 1; 0]%nat.

Lemma ns_race :
  nth_error (conc_run W warm1 ns_threads ns_sched) 1 <> Some (solo_run W warm1 (serialize W vPB))
  /\ warm_b W warm1 = true /\ conc_guard W (s_cache warm1) ns_threads = false.
Proof. vm_compute. split; [discriminate|split; reflexivity]. Qed.
