(* Proofs/SchedWitness.v — concrete schedules: the former cold-index race (harmless since
   the index is published with one store), the concurrent form of the cache-key defect,
   and thread sets inside the guard of context_safe on cold, warm and stale contexts. *)
From Coq Require Import String NArith List Bool.
From XV Require Import Base.Str Base.Eqb Model.Context Model.Sched Proofs.ContextWitness Proofs.SchedSafe.
Import ListNotations.
Open Scope N_scope.

Definition ftPA : script := op_script W (OCall (CFindType (lit "{urn:a}PA"))).
Definition docPA : list pevent :=
  [PStart (q "{urn:a}PA") [] None; PStart (q "{urn:a}leaf") [] None; PStart (q "{urn:a}x") [] None;
   PEnd (q "{urn:a}x") (Some (q "1")); PEnd (q "{urn:a}leaf") None; PEnd (q "{urn:a}PA") None].
Definition parsePA : script := parse W docPA None.

(* The schedule of the former race: thread 0 passes the currency check and stops before
   publishing; thread 1 rebuilds (check, publish, record the module count) and stops before
   looking the qname up; thread 0 publishes; thread 1 looks up.  Before /repo ece294b thread
   0's step was `self.xsi_cache.clear()` and thread 1 got None. *)
Definition race_sched : list nat := [0; 1; 1; 1; 0; 1; 1]%nat.

Example race_sched_harmless :
  conc_run W s0 [ftPA; ftPA] race_sched = [solo_run W s0 ftPA; solo_run W s0 ftPA]
  /\ conc_run W s0 [parsePA; parsePA] race_sched = [solo_run W s0 parsePA; solo_run W s0 parsePA]
  /\ solo_run W s0 ftPA = ROk (Node (q "c:2") []).
Proof. vm_compute. repeat split; reflexivity. Qed.

(* ---- inside the guard, on a cold context ---- *)
Definition fetchPA : script := op_script W (OCall (CFetch 2 None (Some (q "{urn:a}PA")))).
Definition good_threads : list script :=
  [serialize W vPA; parsePA; ftPA; fetchPA; serialize W vOwn; parse W docOwn None;
   serialize W (V (GObj 14) []); parse W (firstn 3 docPA ++ [PBad]) (Some 2)].

Example conc_guard_cold : conc_guard W s0 good_threads = true.
Proof. vm_compute. reflexivity. Qed.

Example good_threads_safe_cold sched :
  conc_run W s0 good_threads sched = map (solo_run W s0) good_threads.
Proof.
  destruct (context_safe W s0 good_threads sched conc_guard_cold) as [H1 H2]. congruence.
Qed.

(* ---- on a warm one ---- *)
Definition warm1 : sstate := fst (solo W s0 (expand W ftPA)).

Example warm1_is_warm : warm_b W warm1 = true.
Proof. vm_compute. reflexivity. Qed.

Example conc_guard_warm : conc_guard W warm1 good_threads = true.
Proof. vm_compute. reflexivity. Qed.

(* ---- on a context whose index is stale (C14's defect b): every thread sees the same
   stale index, and so does the solo run ---- *)
Definition stale1 : sstate := mkS [] [] (w_modules W) [].

Example conc_guard_stale : conc_guard W stale1 [ftPA; parsePA; ftPA] = true /\ warm_b W stale1 = false.
Proof. vm_compute. split; reflexivity. Qed.

Example stale_values : solo_run W stale1 ftPA = ROk (Node (q "none") []).
Proof. vm_compute. reflexivity. Qed.

(* ---- untyped dict/JSON decoding (find_type_by_fields, local_names_match over every class of the
   index, one of which cannot be built) concurrently with typed JSON work, on a cold context ---- *)
Definition untyped_threads : list script :=
  [decode_x; decode_x; encode vLeaf; names_broken; find_broken; decode_x].

Example conc_guard_untyped : conc_guard W s0 untyped_threads = true.
Proof. vm_compute. reflexivity. Qed.

Example untyped_safe sched : conc_run W s0 untyped_threads sched = map (solo_run W s0) untyped_threads.
Proof. destruct (context_safe W s0 untyped_threads sched conc_guard_untyped) as [H1 H2]. congruence. Qed.

(* the schedule of the former ValueError (/repo c28ded8): both threads fail to build Broken before
   either records it *)
Example former_value_error_schedule :
  conc_run W s0 [decode_x; decode_x] ([0; 0; 0; 1; 1; 1; 0; 1; 0; 1; 0; 0; 1; 1])%nat
  = [solo_run W s0 decode_x; solo_run W s0 decode_x].
Proof. vm_compute. reflexivity. Qed.

(* ---- build_recursive: safe when no class below its argument is unbuildable ... ---- *)
Definition recPA : script := op_script W (OCall (CBuildRecursive 2 None)).
Example conc_guard_rec : conc_guard W s0 [recPA; serialize W vPA; recPA; parsePA] = true.
Proof. vm_compute. reflexivity. Qed.

(* ... and not otherwise (C14's defect d, concurrently): Dep has a field of the unbuildable class
   Broken; alone build_recursive(Dep) raises XmlContextError; when another thread has cached Dep in
   the meantime it returns None *)
Lemma rec_race :
  nth_error (conc_run W s0 [rec_dep; serialize W vDep] [1; 1; 1]%nat) 0 <> Some (solo_run W s0 rec_dep)
  /\ conc_guard W s0 [rec_dep; serialize W vDep] = false
  /\ forallb (ref_rec_closed W (eff_index W s0)) [rec_dep; serialize W vDep] = false.
Proof. vm_compute. split; [discriminate|split; reflexivity]. Qed.

(* ---- the cache-key defect, concurrently: both threads miss Leaf, both store, the one
   that stored first reads the other's metadata back ---- *)
Definition ns_threads : list script := [serialize W vPA; serialize W vPB].
Definition ns_sched : list nat := [0; 0; 0; 0; 1; 1; 1; 1; 1; 0]%nat.

Lemma ns_race :
  nth_error (conc_run W warm1 ns_threads ns_sched) 1 <> Some (solo_run W warm1 (serialize W vPB))
  /\ conc_guard W warm1 ns_threads = false.
Proof. vm_compute. split; [discriminate|reflexivity]. Qed.
