(* Proofs/SampleAccept.v — inferred_type_accepts: no sample value can raise a converter warning when it is
   bound to the field generated for it.  The converters are those of property C05 (interface
   `conv : pytype -> str -> option V` of Model/ConvFactory.v); what build_attr_type relies on is stated as the
   hypotheses of the Section: a value that passed `converter.test(v, [tp], strict=True)` is accepted by tp's
   converter (test deserializes first), and str accepts every text.  Conclusion through C05's
   deserialize_sorted_none: ConverterFactory.deserialize over the SORTED types of the merged field is not None. *)
From Coq Require Import NArith ZArith List Bool Lia.
From XV Require Import Base.Str Base.Eqb Gen.SampleTables Model.Sample Model.SampleCorr Model.ConvFactory
  Proofs.SampleBase Proofs.SampleReduce Proofs.SampleBuild Proofs.SampleFit Proofs.SampleTypes Proofs.ConvFactory.
Import ListNotations.
Open Scope N_scope.

Lemma Forall_nodes_tree_all f : forall n p, tree_all f p n = true -> Forall_nodes (fun p' m => f p' m = true) p n.
Proof.
  induction n as [qn atts text tail kids IH] using tree_ind'. intros p H. cbn [tree_all] in H.
  apply andb_true_iff in H as [H0 Hk]. cbn [Forall_nodes]. split; [exact H0|].
  cbn [t_kids] in *. set (cns := class_ns p (T qn atts text tail kids)) in *. clearbody cns. clear H0.
  induction kids as [|k r IHr]; [exact I|]. inversion IH; subst. apply andb_true_iff in Hk as [Hk1 Hk2]. split.
  - destruct (named k && has_content k); [|exact I]. apply H1. exact Hk1.
  - apply IHr; assumption.
Qed.

Lemma Forall_nodes_impl (P Q : option str -> tree -> Prop) : (forall p m, P p m -> Q p m) ->
  forall n p, Forall_nodes P p n -> Forall_nodes Q p n.
Proof.
  intros HPQ. induction n as [qn atts text tail kids IH] using tree_ind'. intros p [H0 Hk]. cbn [Forall_nodes]. split; [auto|].
  cbn [t_kids] in *. set (cns := class_ns p (T qn atts text tail kids)) in *. clearbody cns. clear H0.
  induction kids as [|k r IHr]; [exact I|]. inversion IH; subst. destruct Hk as [Hk1 Hk2]. split.
  - destruct (named k && has_content k); [|exact I]. apply H1. exact Hk1.
  - apply IHr; assumption.
Qed.

Lemma first_true_In {A} (l : list A) row x : first_true l row = Some x -> In x l.
Proof.
  revert row. induction l as [|y l IH]; intros [|b row]; cbn; try discriminate.
  destruct b; [intros [= ->]; left; reflexivity|]. intros H. right. eapply IH. exact H.
Qed.

(* table fact: no inferable type is one of the datatypes filter_types removes *)
Lemma inferable_not_removable :
  forallb (fun tp => negb (removable_qname (from_explicit_type tp))) (map fst explicit_type_datatype)
  && negb (removable_qname DT_STRING) = true.
Proof. vm_compute. reflexivity. Qed.

Section Accepts.
  Variable V : Type.
  Variable cv : sconv.
  Variable conv : pytype -> str -> option V.
  Variable py_of : str -> pytype.              (* DataType.from_qname(qname).type *)
  Hypothesis strict_accepts : forall v row tp,
    sc_row cv v = Some row -> first_true (map fst explicit_type_datatype) row = Some tp ->
    conv (py_of (from_explicit_type tp)) v <> None.
  Hypothesis str_accepts : forall v, conv (py_of DT_STRING) v <> None.

  Definition accepted (a : attr) (v : str) : Prop :=
    deserialize_gen conv v (sort_types (map (fun t => py_of (ty_qname t)) (a_types a))) <> None.

  Lemma match_type_accepts v : sc_row cv v <> None ->
    conv (py_of (match_type_str cv v)) v <> None /\ removable_qname (match_type_str cv v) = false.
  Proof.
    unfold match_type_str. destruct (sc_row cv v) as [row|] eqn:R; [intros _|congruence].
    pose proof inferable_not_removable as T. apply andb_true_iff in T as [T1 T2].
    destruct (first_true (map fst explicit_type_datatype) row) as [tp|] eqn:F.
    - split; [eapply strict_accepts; eauto|]. rewrite forallb_forall in T1. apply negb_true_iff. apply T1. eapply first_true_In; eauto.
    - split; [apply str_accepts|]. apply negb_true_iff. exact T2.
  Qed.

  Definition node_values_accepted (cs : list fclass) (p : option str) (m : tree) : Prop :=
    forall k v, sc_row cv v <> None ->
      In (k, match_type_str cv v) (node_part_types cv (class_ns p m) m) ->
      exists c a, find_class cs (class_qname p m) = Some c /\ find_attr c k = Some a /\ accepted a v.

  Lemma node_values_accepted_of_types cs p m : node_types_ok cv cs p m = true -> node_values_accepted cs p m.
  Proof.
    unfold node_types_ok, node_values_accepted. intros H k v Hrow Hin.
    destruct (find_class cs (class_qname p m)) as [c|]; [|discriminate]. rewrite forallb_forall in H.
    specialize (H _ Hin). cbn [fst snd] in H. destruct (find_attr c k) as [a|] eqn:Fa; [|discriminate].
    exists c, a. split; [reflexivity|]. split; [exact Fa|].
    destruct (match_type_accepts v Hrow) as [Hacc Hrem]. rewrite Hrem, orb_false_r in H.
    apply existsb_exists in H as [t [Ht Et]]. apply str_eqb_eq in Et.
    unfold accepted. intros Hnone. rewrite deserialize_sorted_none in Hnone.
    apply Hacc. rewrite <- Et. apply Hnone. apply in_map_iff. exists t. split; [reflexivity|exact Ht].
  Qed.

  Theorem inferred_type_accepts : forall (S : list tree) t, In t S ->
    Forall_nodes (node_values_accepted (classes_of_xml cv S)) (root_ns t) t.
  Proof.
    intros S t Ht. pose proof (types_kept cv S) as H. rewrite forallb_forall in H. specialize (H t Ht).
    unfold tree_types_ok in H. apply Forall_nodes_tree_all in H.
    eapply Forall_nodes_impl; [|exact H]. intros p m. apply node_values_accepted_of_types.
  Qed.
End Accepts.
