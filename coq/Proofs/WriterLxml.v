(* Proofs/WriterLxml.v — the lxml sink on a well-formed SAX tree builds exactly
   `itree_of n`, the tree the XML reader resolves from the native writer's output. *)
From Coq Require Import NArith List Bool Lia.
From XV Require Import Base.Str Base.Eqb Spec.XmlNs Gen.WriterTables Model.Writer
  Proofs.WriterTree Proofs.WriterMaps Proofs.WriterEnc Proofs.WriterCtx Proofs.WriterWf Proofs.WriterNative.
Import ListNotations.
Open Scope N_scope.

(* ------------------------------------------------------------------ the modelled domain, on SAX trees *)
Fixpoint sn_ldom (n : snode) : Prop :=
  match n with
  | SText _ => True
  | SNode ds q ats ks =>
      Forall (fun d => l_uri_ok (snd d) = true) ds /\ l_qname_ok q = true
      /\ Forall (fun a => l_qname_ok (fst a) = true) ats
      /\ (fix all (l : list snode) : Prop := match l with [] => True | k :: r => sn_ldom k /\ all r end) ks
  end.
Fixpoint all_ldom (l : list snode) : Prop := match l with [] => True | k :: r => sn_ldom k /\ all_ldom r end.
Lemma sn_ldom_node ds q ats ks :
  sn_ldom (SNode ds q ats ks)
  <-> (Forall (fun d => l_uri_ok (snd d) = true) ds /\ l_qname_ok q = true
       /\ Forall (fun a => l_qname_ok (fst a) = true) ats /\ all_ldom ks).
Proof.
  cbn [sn_ldom].
  assert (H : (fix all (l : list snode) : Prop := match l with [] => True | k :: r => sn_ldom k /\ all r end) ks
              <-> all_ldom ks).
  { induction ks as [|k ks IH]; cbn [all_ldom]; [tauto|]. rewrite IH. tauto. }
  rewrite H. tauto.
Qed.
Lemma all_ldom_app a b : all_ldom a -> all_ldom b -> all_ldom (a ++ b).
Proof. induction a as [|x a IH]; cbn; [tauto|]. intros [H1 H2] Hb. split; [exact H1|exact (IH H2 Hb)]. Qed.

(* ------------------------------------------------------------------ states *)
Definition lst (d : option str) (dst : list (option str)) (nw : nsmap) (stk : list lframe) (root : option inode) : lstate :=
  {| l_default := d; l_dstack := dst; l_new := nw; l_stack := stk; l_root := root |}.

Lemma lsteps_app k a b :
  lsteps k (a ++ b) = match lsteps k a with inl k' => lsteps k' b | inr e => inr e end.
Proof.
  revert k. induction a as [|x a IH]; intros k; [reflexivity|].
  cbn [app lsteps]. destruct (lstep k x); [apply IH|reflexivity].
Qed.
Lemma lsteps_cons k x l :
  lsteps k (x :: l) = match lstep k x with inl k' => lsteps k' l | inr e => inr e end.
Proof. reflexivity. Qed.

Definition decl_recordable (d : option str * str) : bool :=
  (ostr_eqb (fst d) (Some s_xml) && str_eqb (snd d) ns_xml)
  || (l_prefix_ok (fst d) && l_uri_ok (snd d) && negb (str_eqb (snd d) ns_xml) && negb (str_eqb (snd d) ns_xmlns)).

Lemma lstep_start_prefix d dst nw stk root p u :
  decl_recordable (p, u) = true ->
  lstep (lst d dst nw stk root) (SStartPrefix p u)
  = inl (lst (match p with None => Some u | Some _ => d end)
             (match p with None => Some u :: dst | Some _ => dst end)
             (nm_set nw p u) stk root).
Proof. unfold decl_recordable. cbn [fst snd]. intros H. cbn [lstep]. rewrite H. reflexivity. Qed.

(* default namespace after the declarations of one element *)
Definition ldef (d : option str) (ds : nsmap) : option str :=
  match nm_get ds None with Some u => Some u | None => d end.
Definition lpush (dst : list (option str)) (ds : nsmap) : list (option str) :=
  match nm_get ds None with Some u => Some u :: dst | None => dst end.

Lemma lsteps_starts ds : forall d dst acc stk root,
  NoDup (map fst (acc ++ ds)) -> Forall (fun x => decl_recordable x = true) ds ->
  lsteps (lst d dst acc stk root) (map (fun x : option str * str => SStartPrefix (fst x) (snd x)) ds)
  = inl (lst (ldef d ds) (lpush dst ds) (acc ++ ds) stk root).
Proof.
  induction ds as [|[p u] ds IH]; intros d dst acc stk root Hnd Hrec.
  - cbn. rewrite app_nil_r. reflexivity.
  - inversion Hrec as [|? ? Hr Hrs]; subst. cbn [map fst snd]. rewrite lsteps_cons, lstep_start_prefix by exact Hr.
    assert (Hfresh : nm_get acc p = None).
    { destruct (nm_get acc p) eqn:G; [|reflexivity]. exfalso.
      apply nm_get_In in G. apply (in_map fst) in G. cbn [fst] in G.
      rewrite map_app in Hnd. cbn [map fst] in Hnd. apply NoDup_remove_2 in Hnd. apply Hnd.
      apply in_or_app. left. exact G. }
    rewrite (nm_set_append acc p u Hfresh).
    rewrite IH; [|rewrite <- app_assoc; exact Hnd|exact Hrs].
    rewrite <- app_assoc. cbn [app].
    (* the keys of ds are distinct from p *)
    assert (Hp : nm_get ds p = None).
    { destruct (nm_get ds p) eqn:G; [|reflexivity]. exfalso.
      apply nm_get_In in G. apply (in_map fst) in G. cbn [fst] in G.
      rewrite map_app in Hnd. apply NoDup_remove_2 in Hnd. apply Hnd. apply in_or_app. right. exact G. }
    unfold ldef, lpush. cbn [nm_get]. destruct p as [p|].
    + cbn [ostr_eqb opt_eqb]. reflexivity.
    + cbn [ostr_eqb opt_eqb]. rewrite Hp. reflexivity.
Qed.

Lemma lsteps_ends ds : forall d0 dst d1 nw stk root,
  NoDup (map fst ds) ->
  lsteps (lst d1 (lpush (d0 :: dst) ds) nw stk root) (map (fun x : option str * str => SEndPrefix (fst x)) ds)
  = inl (lst (match nm_get ds None with Some _ => d0 | None => d1 end) (d0 :: dst) nw stk root).
Proof.
  induction ds as [|[p u] ds IH]; intros d0 dst d1 nw stk root Hnd; [reflexivity|].
  cbn [map fst] in Hnd |- *. inversion Hnd as [|? ? Hni Hnd']; subst.
  rewrite lsteps_cons. unfold lpush. cbn [nm_get]. destruct p as [p|].
  - cbn [ostr_eqb opt_eqb lstep]. fold (lpush (d0 :: dst) ds). exact (IH d0 dst d1 nw stk root Hnd').
  - cbn [ostr_eqb opt_eqb].
    assert (Hn : nm_get ds None = None).
    { destruct (nm_get ds None) eqn:G; [|reflexivity]. exfalso. apply Hni.
      apply nm_get_In in G. apply (in_map fst) in G. exact G. }
    cbn [lstep lst l_dstack].
    pose proof (IH d0 dst d0 nw stk root Hnd') as H. unfold lpush in H. rewrite Hn in H.
    exact H.
Qed.

(* ------------------------------------------------------------------ the default namespace and the reader's env *)
Definition d_ok (d : option str) (e : env) : Prop :=
  match d with
  | Some ((_ :: _) as u) => default_ns e = Some u
  | _ => default_ns e = None
  end.

Lemma d_ok_step d e ds :
  NoDup (map fst ds) -> d_ok d e -> d_ok (ldef d ds) (rev ds ++ e).
Proof.
  intros Hnd Hd. unfold d_ok, ldef, default_ns in *.
  assert (E : env_get (rev ds ++ e) None
              = match nm_get ds None with Some u => Some u | None => env_get e None end).
  { rewrite !env_get_nm_get, nm_get_app, (nm_get_rev ds None Hnd). reflexivity. }
  rewrite E. destruct (nm_get ds None) as [[|x u]|]; try reflexivity. exact Hd.
Qed.

Lemma build_tag_fine d e c q : d_ok d e -> name_fine e c q -> l_build_tag d q = q.
Proof.
  intros Hd [lex [Hn He]]. destruct q as [[[|x u]|] l]; unfold l_build_tag; cbn [fst snd].
  - (* (Some "", l): not a name the reader can produce *)
    exfalso. unfold n_qname in Hn. cbn [fst snd] in Hn. inversion Hn; subst lex.
    unfold elem_name in He. destruct (split_lex l) as [[[p|] l']|]; try discriminate.
    + destruct (str_eqb p s_xmlns); [discriminate|]. destruct (lookup_prefix e p) as [u|] eqn:El; [|discriminate].
      inversion He; subst. unfold lookup_prefix in El. destruct (str_eqb p s_xml); [discriminate|].
      destruct (env_get e (Some p)) as [[|y r]|]; discriminate.
    + inversion He as [[H1 H2]]. unfold default_ns in H1. destruct (env_get e None) as [[|y r]|]; discriminate.
  - reflexivity.
  - unfold n_qname in Hn. cbn [fst snd] in Hn. inversion Hn; subst lex.
    unfold elem_name in He. destruct (split_lex l) as [[[p|] l']|]; try discriminate.
    + destruct (str_eqb p s_xmlns); [discriminate|]. destruct (lookup_prefix e p); discriminate.
    + inversion He as [[H1 H2]]. unfold d_ok in Hd. rewrite H1 in Hd.
      destruct d as [[|y r]|]; try reflexivity. discriminate.
Qed.

(* ------------------------------------------------------------------ attributes *)
Lemma l_attrs_fine e c ats :
  Forall (attr_fine e c) ats -> Forall (fun a => l_qname_ok (fst a) = true) ats ->
  l_attrs ats = inl (attr_list ats).
Proof.
  induction 1 as [|[q v] ats Ha _ IH]; intros Hd; [reflexivity|].
  inversion Hd as [|? ? Hq Hr]; subst. cbn [fst] in Hq.
  destruct Ha as [lex [val [Hn [Hv [Han Hx]]]]]. cbn [fst snd] in Hn, Hv, Han. subst v.
  assert (Hnx : negb (match fst q with None => str_eqb (snd q) s_xmlns | Some _ => false end) = true).
  { destruct q as [[u|] l]; [reflexivity|]. cbn [fst snd]. unfold n_qname in Hn. cbn [fst snd] in Hn.
    inversion Hn; subst lex. unfold attr_name in Han.
    destruct (split_lex l) as [[[p|] l']|] eqn:Es; try discriminate.
    - destruct (str_eqb p s_xmlns); [discriminate|]. destruct (lookup_prefix e p); discriminate.
    - destruct (str_eqb l' s_xmlns) eqn:E; [discriminate|]. inversion Han; subst. rewrite E. reflexivity. }
  cbn [l_attrs]. rewrite Hq. unfold l_text_ok. rewrite Hx, Hnx. cbn [andb]. rewrite (IH Hr). reflexivity.
Qed.

(* ------------------------------------------------------------------ (L) the sink *)
Definition add_kid_l (k : inode) (stk : list lframe) (root : option inode) : list lframe * option inode :=
  match stk with
  | f :: rest => ({| lf_tag := lf_tag f; lf_ns := lf_ns f; lf_attrs := lf_attrs f; lf_kids := k :: lf_kids f |} :: rest, root)
  | [] => ([], Some k)
  end.

Definition lxml_builds (n : snode) : Prop :=
  forall e c d dst stk root,
    sn_wf e c n -> sn_ldom n -> d_ok d e ->
    (stk <> [] \/ (root = None /\ match n with SNode _ _ _ _ => True | SText _ => False end)) ->
    lsteps (lst d (d :: dst) [] stk root) (sflat n)
    = inl (let (stk', root') := add_kid_l (itree_of n) stk root in lst d (d :: dst) [] stk' root').

Lemma lxml_kids ks :
  Forall lxml_builds ks ->
  forall e c d dst f stk root,
    all_wf e c ks -> all_ldom ks -> d_ok d e ->
    lsteps (lst d (d :: dst) [] (f :: stk) root) (flat_map sflat ks)
    = inl (lst d (d :: dst) []
               ({| lf_tag := lf_tag f; lf_ns := lf_ns f; lf_attrs := lf_attrs f;
                   lf_kids := rev (map itree_of ks) ++ lf_kids f |} :: stk) root).
Proof.
  induction 1 as [|k ks Hk _ IH]; intros e c d dst f stk root Hwf Hld Hd.
  - cbn. destruct f; reflexivity.
  - cbn [all_wf all_ldom] in Hwf, Hld. destruct Hwf as [Hwk Hwks]. destruct Hld as [Hlk Hlks].
    cbn [flat_map]. rewrite lsteps_app.
    rewrite (Hk e c d dst (f :: stk) root Hwk Hlk Hd) by (left; discriminate).
    cbn [add_kid_l]. rewrite (IH e c d dst _ stk root Hwks Hlks Hd).
    cbn [lf_tag lf_ns lf_attrs lf_kids map rev]. rewrite <- app_assoc. reflexivity.
Qed.

Lemma decl_fine_recordable d : decl_fine d -> l_uri_ok (snd d) = true -> decl_recordable d = true.
Proof.
  intros [_ [Hok _]] Hu. destruct d as [[p|] u]; unfold decl_recordable, decl_ok in *; cbn [fst snd] in *.
  - apply andb_true_iff in Hok as [Hok Hx]. apply andb_true_iff in Hok as [Hok _].
    apply andb_true_iff in Hok as [Hok Hnx]. apply andb_true_iff in Hok as [Hnc Hnxm].
    apply Bool.eqb_prop in Hx.
    destruct (str_eqb p s_xml) eqn:Ex.
    + apply str_eqb_eq in Ex. subst p. rewrite <- Hx. cbn. reflexivity.
    + rewrite <- Hx. cbn [negb]. unfold l_prefix_ok. rewrite Hnc, Ex, Hnxm, Hu, Hnx. cbn. apply orb_true_r.
  - apply andb_true_iff in Hok as [H1 H2]. unfold l_prefix_ok. rewrite Hu, H1, H2. reflexivity.
Qed.

Theorem lxml_builds_all n : lxml_builds n.
Proof.
  induction n as [t|ds q ats ks IH] using snode_ind2; intros e c d dst stk root Hwf Hld Hd Hs.
  - cbn [sn_wf] in Hwf. destruct Hwf as [Hne Hx].
    cbn [sflat lsteps lstep itree_of lst l_stack].
    destruct Hs as [Hs|[_ []]]. destruct stk as [|f stk]; [contradiction|].
    unfold l_text_ok. rewrite Hx. cbn [l_add_kid l_stack add_kid_l]. reflexivity.
  - apply sn_wf_node in Hwf. destruct Hwf as [Hds [Hnd [Hname [Hats [_ Hkids]]]]].
    apply sn_ldom_node in Hld. destruct Hld as [Hlds [Hlq [Hlats Hlks]]].
    assert (Hrec : Forall (fun x => decl_recordable x = true) ds).
    { apply Forall_forall. intros x Hx. rewrite Forall_forall in Hds, Hlds.
      apply decl_fine_recordable; [exact (Hds x Hx)|exact (Hlds x Hx)]. }
    cbn [sflat]. rewrite lsteps_app, (lsteps_starts ds d (d :: dst) [] stk root Hnd Hrec). cbn [app].
    pose proof (d_ok_step d e ds Hnd Hd) as Hd'.
    pose proof (build_tag_fine _ _ _ q Hd' Hname) as Htag.
    set (f := {| lf_tag := q; lf_ns := ds; lf_attrs := attr_list ats; lf_kids := [] |}).
    assert (Hse : lstep (lst (ldef d ds) (lpush (d :: dst) ds) ds stk root) (SStartElem q ats)
                  = inl (lst (ldef d ds) (lpush (d :: dst) ds) [] (f :: stk) root)).
    { cbn [lstep lst l_default l_dstack l_new l_stack l_root].
      rewrite Htag, Hlq. cbn [negb]. rewrite (l_attrs_fine _ _ _ Hats Hlats).
      destruct Hs as [Hs|[-> _]]; [destruct root, stk; try reflexivity; contradiction|destruct stk; reflexivity]. }
    rewrite lsteps_cons, Hse.
    assert (Hpush : lpush (d :: dst) ds
                    = ldef d ds :: match nm_get ds None with Some _ => d :: dst | None => dst end).
    { unfold lpush, ldef. destruct (nm_get ds None); reflexivity. }
    rewrite Hpush, lsteps_app.
    rewrite (lxml_kids ks IH _ _ (ldef d ds) _ f stk root Hkids Hlks Hd').
    cbn [lf_tag lf_ns lf_attrs lf_kids f]. rewrite app_nil_r. cbn [app].
    rewrite lsteps_cons. cbn [lstep lst l_stack l_default lf_tag lf_ns lf_attrs lf_kids].
    rewrite Htag, qname_eqb_refl, rev_involutive. rewrite <- Hpush.
    change (IElem q ds (attr_list ats) (merge_text (map itree_of ks))) with (itree_of (SNode ds q ats ks)).
    destruct stk as [|f0 stk0].
    + fold (lst (ldef d ds) (lpush (d :: dst) ds) [] [] (Some (itree_of (SNode ds q ats ks)))).
      rewrite (lsteps_ends ds d dst (ldef d ds) [] [] _ Hnd). cbn [add_kid_l].
      unfold ldef. destruct (nm_get ds None); reflexivity.
    + cbn [l_add_kid lst l_stack l_default l_dstack l_new l_root].
      fold (lst (ldef d ds) (lpush (d :: dst) ds) []
                ({| lf_tag := lf_tag f0; lf_ns := lf_ns f0; lf_attrs := lf_attrs f0;
                    lf_kids := itree_of (SNode ds q ats ks) :: lf_kids f0 |} :: stk0) root).
      rewrite (lsteps_ends ds d dst (ldef d ds) [] _ _ Hnd). cbn [add_kid_l].
      unfold ldef. destruct (nm_get ds None); reflexivity.
Qed.

(* ------------------------------------------------------------------ the writer stays inside the modelled domain *)
Definition ldom_map (m : nsmap) : Prop := forall p u, In (p, u) m -> l_uri_ok u = true.

Lemma nm_set_In_gen m p u x : In x (nm_set m p u) -> In x m \/ snd x = u.
Proof.
  induction m as [|[p' u'] m IH]; cbn.
  - intros [H|[]]. right. subst. reflexivity.
  - destruct (ostr_eqb p p').
    + intros [H|H]; [right; subst; reflexivity|left; right; exact H].
    + intros [H|H]; [left; left; exact H|]. destruct (IH H) as [H1|H1]; [left; right; exact H1|right; exact H1].
Qed.
Lemma ldom_set m p u : ldom_map m -> l_uri_ok u = true -> ldom_map (nm_set m p u).
Proof.
  intros Hm Hu p' u' Hin. apply nm_set_In_gen in Hin as [Hin|Hin]; [exact (Hm _ _ Hin)|].
  cbn in Hin. subst. exact Hu.
Qed.
Lemma ldom_generate m u : ldom_map m -> l_uri_ok u = true -> ldom_map (snd (generate_prefix u m)).
Proof. intros Hm Hu. unfold generate_prefix. cbn [snd]. apply ldom_set; assumption. Qed.

Definition ouri_lok (ou : option str) : bool := match ou with Some u => l_uri_ok u | None => true end.

Lemma ldom_add_namespace m ou : ldom_map m -> ouri_lok ou = true -> ldom_map (add_namespace ou m).
Proof.
  intros Hm Hu. unfold add_namespace. destruct ou as [[|c u]|]; try exact Hm.
  destruct (prefix_exists (c :: u) m); [exact Hm|]. apply ldom_generate; assumption.
Qed.
Lemma ldom_add_namespace_attr m ou : ldom_map m -> ouri_lok ou = true -> ldom_map (add_namespace_attr ou m).
Proof.
  intros Hm Hu. unfold add_namespace_attr. destruct ou as [[|c u]|]; try exact Hm.
  destruct (prefixed_exists (c :: u) m); [exact Hm|]. apply ldom_generate; assumption.
Qed.
Lemma ldom_load_prefix m u : ldom_map m -> l_uri_ok u = true -> ldom_map (snd (load_prefix u m)).
Proof.
  intros Hm Hu. unfold load_prefix. destruct (find_prefix u m); [exact Hm|].
  pose proof (ldom_generate m u Hm Hu) as H. destruct (generate_prefix u m). exact H.
Qed.

Definition qname_lok (q : qname) : bool := name_ok q && ouri_lok (fst q).
Definition value_lok (v : wvalue) : bool := forallb qname_lok (value_qnames v).

Lemma ldom_enc_qname m q : ldom_map m -> qname_lok q = true -> ldom_map (snd (enc_qname m q)).
Proof.
  intros Hm Hq. unfold qname_lok in Hq. apply andb_true_iff in Hq as [Hn Hu].
  unfold enc_qname. rewrite (split_build q Hn). destruct q as [[u|] l]; cbn [fst snd] in *; [|exact Hm].
  pose proof (ldom_load_prefix m u Hm Hu) as H. destruct (load_prefix u m). exact H.
Qed.
Lemma ldom_enc_atoms l : forall m, ldom_map m -> forallb qname_lok (flat_map atom_qnames l) = true ->
  ldom_map (snd (enc_atoms m l)).
Proof.
  induction l as [|a l IH]; intros m Hm Hl; [exact Hm|].
  cbn [flat_map] in Hl. rewrite forallb_app in Hl. apply andb_true_iff in Hl as [Ha Hl].
  cbn [enc_atoms].
  assert (H1 : ldom_map (snd (enc_atom m a))).
  { destruct a as [s|q]; [exact Hm|]. cbn in Ha. rewrite andb_true_r in Ha. exact (ldom_enc_qname m q Hm Ha). }
  destruct (enc_atom m a) as [s m1]. cbn [snd] in H1.
  pose proof (IH m1 H1 Hl) as H2. destruct (enc_atoms m1 l) as [ss m2]. exact H2.
Qed.
Lemma ldom_encode_data m v : ldom_map m -> value_lok v = true -> ldom_map (snd (encode_data m v)).
Proof.
  intros Hm Hv. unfold value_lok, value_qnames in Hv. destruct v as [|a|l]; cbn [encode_data value_atoms] in *.
  - exact Hm.
  - pose proof (ldom_enc_atoms [a] m Hm Hv) as H. cbn [enc_atoms] in H. destruct (enc_atom m a). exact H.
  - destruct l as [|a l]; [exact Hm|]. pose proof (ldom_enc_atoms (a :: l) m Hm Hv) as H.
    destruct (enc_atoms m (a :: l)). exact H.
Qed.

Definition lattr_ok (a : qname * wvalue) : bool := l_qname_ok (fst a) && value_lok (attr_conv a).
Lemma l_qname_ok_uri q : l_qname_ok q = true -> ouri_lok (fst q) = true.
Proof. unfold l_qname_ok. intros H. apply andb_true_iff in H as [_ H]. exact H. Qed.

Lemma ldom_fold_attrs ats : forall m am,
  ldom_map m -> Forall (fun a => l_qname_ok (fst a) = true) am -> forallb lattr_ok ats = true ->
  ldom_map (snd (fold_attrs m am ats)) /\ Forall (fun a => l_qname_ok (fst a) = true) (fst (fold_attrs m am ats)).
Proof.
  induction ats as [|[qa v] ats IH]; intros m am Hm Ham Hg; cbn [fold_attrs]; [split; assumption|].
  cbn [forallb] in Hg. apply andb_true_iff in Hg as [Ha Hg]. unfold lattr_ok, attr_conv in Ha. cbn [fst snd] in Ha.
  apply andb_true_iff in Ha as [Hq Hv].
  pose proof (ldom_encode_data m _ Hm Hv) as H1.
  destruct (encode_data m (attr_value_conv qa v)) as [enc m1]. cbn [snd] in H1.
  apply IH; [exact H1| |exact Hg].
  apply Forall_forall. intros x Hx. apply am_set_In in Hx as [Hx|Hx]; [subst; exact Hq|].
  rewrite Forall_forall in Ham. exact (Ham x Hx).
Qed.

Lemma ldom_flush_map q (attrs : attrmap) m :
  ldom_map m -> Forall (fun a => l_qname_ok (fst a) = true) attrs -> ldom_map (flush_map q attrs m).
Proof.
  intros Hm Ha. unfold flush_map.
  assert (H3 : ldom_map (fold_left (fun m a => add_namespace_attr (fst (fst a)) m) attrs m)).
  { revert m Hm. induction Ha as [|a attrs Hq _ IH]; intros m Hm; [exact Hm|]. cbn [fold_left].
    apply IH. apply ldom_add_namespace_attr; [exact Hm|apply l_qname_ok_uri, Hq]. }
  destruct (negb (truthy (fst q)) && nm_has_key _ None); [apply ldom_set; [exact H3|reflexivity]|exact H3].
Qed.

Definition lnode_ok (q : qname) (ats : list (qname * wvalue)) (ks : list item) : bool :=
  l_qname_ok q && forallb lattr_ok ats.
Definition lguard : item -> bool := all_nodes lnode_ok value_lok.

Definition kid_ldom (k : item) : Prop := forall m, ldom_map m -> lguard k = true -> all_ldom (wref m k).

Lemma kids_ldom ks m : Forall kid_ldom ks -> ldom_map m -> forallb lguard ks = true -> all_ldom (flat_map (wref m) ks).
Proof.
  intros H Hm. induction H as [|k ks Hk _ IH]; intros Hg; [exact I|].
  cbn [forallb] in Hg. apply andb_true_iff in Hg as [Hgk Hgs]. cbn [flat_map].
  apply all_ldom_app; [exact (Hk m Hm Hgk)|exact (IH Hgs)].
Qed.

Lemma all_ldom_txt enc : all_ldom (txt_of enc).
Proof. destruct enc as [[|x t]|]; cbn; tauto. Qed.

Lemma changed_entries_ldom pm m : ldom_map m -> Forall (fun d => l_uri_ok (snd d) = true) (changed_entries pm m).
Proof.
  intros Hm. apply Forall_forall. intros [p u] Hin. unfold changed_entries in Hin. apply filter_In in Hin as [Hin _].
  exact (Hm _ _ Hin).
Qed.

Lemma elem_ldom pm m q ats ks :
  Forall kid_ldom ks -> ldom_map m -> lnode_ok q ats ks = true -> forallb lguard ks = true ->
  sn_ldom (wref_elem wref pm [] m q ats ks).
Proof.
  intros HK Hm Hn Hk. unfold lnode_ok in Hn. apply andb_true_iff in Hn as [Hq Hats].
  unfold wref_elem.
  pose proof (ldom_add_namespace m (fst q) Hm (l_qname_ok_uri q Hq)) as H1.
  destruct (ldom_fold_attrs ats _ [] H1 (Forall_nil _) Hats) as [H2 A2].
  destruct (fold_attrs (add_namespace (fst q) m) [] ats) as [am m2]. cbn [fst snd] in *.
  assert (Hfl : forall nf, Forall (fun a => l_qname_ok (fst a) = true) (flush_attrs nf am)).
  { intros nf. unfold flush_attrs. destruct nf; [exact A2|].
    apply Forall_forall. intros x Hx. apply am_remove_In in Hx. rewrite Forall_forall in A2. exact (A2 x Hx). }
  destruct ks as [|[v|qc ac kc] r].
  - apply sn_ldom_node. pose proof (ldom_flush_map q _ m2 H2 (Hfl true)) as H4.
    split; [apply changed_entries_ldom, H4|split; [exact Hq|split; [apply Hfl|exact I]]].
  - cbn [forallb] in Hk. apply andb_true_iff in Hk as [Hv Hr]. cbn [lguard all_nodes] in Hv.
    pose proof (ldom_encode_data m2 v H2 Hv) as H3. destruct (encode_data m2 v) as [enc m2']. cbn [snd] in H3.
    apply sn_ldom_node. pose proof (ldom_flush_map q _ m2' H3 (Hfl (enc_is_none enc))) as H4.
    split; [apply changed_entries_ldom, H4|split; [exact Hq|split; [apply Hfl|]]].
    apply all_ldom_app; [apply all_ldom_txt|]. inversion HK; subst. apply kids_ldom; assumption.
  - apply sn_ldom_node. pose proof (ldom_flush_map q _ m2 H2 (Hfl false)) as H4.
    split; [apply changed_entries_ldom, H4|split; [exact Hq|split; [apply Hfl|]]]. apply kids_ldom; assumption.
Qed.

Theorem kid_ldom_all i : kid_ldom i.
Proof.
  induction i as [v|q ats ks IH] using item_ind2; intros m Hm Hg.
  - cbn [wref]. apply all_ldom_txt.
  - cbn [lguard all_nodes] in Hg. apply andb_true_iff in Hg as [Hn Hk]. cbn [wref all_ldom]. split; [|exact I].
    apply elem_ldom; assumption.
Qed.
