(* Proofs/WriterDenote.v — the specification's reading of a flattened event tree
   (`itree_of_events`, a stack machine) computed as a recursive function `denote`. *)
From Coq Require Import NArith List Bool Lia.
From XV Require Import Base.Str Base.Eqb Spec.XmlNs Model.Writer Proofs.WriterTree.
Import ListNotations.
Open Scope N_scope.

Definition kid_content (k : item) : bool :=
  match k with INode _ _ _ => true | IData v => negb (value_none v) end.

Fixpoint spec_attrs (acc : list (qname * list atom)) (ats : list (qname * wvalue)) : option (list (qname * list atom)) :=
  match ats with
  | [] => Some acc
  | a :: r => match attr_atoms (fst a) (snd a) with
              | Some l => spec_attrs (set_attr (fst a) l acc) r
              | None => None
              end
  end.

Definition nil_filter (content : bool) (eats : list (qname * list atom)) : list (qname * list atom) :=
  if content then filter (fun a => negb (qname_eqb (fst a) q_xsi_nil)) eats else eats.

Fixpoint denote (i : item) : list enode :=
  match i with
  | IData v => match atoms_of_value v with
               | Some l => if atoms_trivial l then [] else [EData l]
               | None => []
               end
  | INode q ats ks =>
      match spec_attrs [] ats with
      | Some eats => [EElem q (nil_filter (existsb kid_content ks) eats) (flat_map denote ks)]
      | None => []
      end
  end.

(* every attribute event carries a value *)
Definition attrs_present : item -> bool := t_attrs_present.

Definition upd_frame (f : eframe) (i : item) : eframe :=
  {| ef_name := ef_name f; ef_attrs := ef_attrs f; ef_kids := rev (denote i) ++ ef_kids f;
     ef_content := ef_content f || kid_content i; ef_started := true |}.

Lemma atoms_of_value_none v : atoms_of_value v = None <-> value_none v = true.
Proof. destruct v as [|a|[|a l]]; cbn; split; congruence. Qed.

Lemma attr_atoms_some q v : value_none v = false -> exists l, attr_atoms q v = Some l.
Proof.
  destruct v as [|a|[|a l]]; cbn [value_none]; intros H; try discriminate; unfold attr_atoms.
  - destruct a as [s|q']; [|cbn [atoms_of_value]; eauto].
    destruct (qname_eqb q q_xsi_type && startswith [c_lbrace] s); eauto.
  - cbn [atoms_of_value]. eauto.
Qed.

Lemma etree_attrs ats : forall f stack root rest acc,
  ef_started f = false -> ef_attrs f = acc ->
  forallb (fun a => negb (value_none (snd a))) ats = true ->
  exists eats, spec_attrs acc ats = Some eats
    /\ etree_go (map (fun a => WAttr (fst a) (snd a)) ats ++ rest) (f :: stack) root
       = etree_go rest ({| ef_name := ef_name f; ef_attrs := eats; ef_kids := ef_kids f;
                           ef_content := ef_content f; ef_started := false |} :: stack) root.
Proof.
  induction ats as [|[qa v] ats IH]; intros f stack root rest acc Hs Ha Hp.
  - exists acc. split; [reflexivity|]. cbn [map app]. destruct f; cbn in *; subst. reflexivity.
  - cbn [forallb snd] in Hp. apply andb_true_iff in Hp as [Hv Hp]. apply negb_true_iff in Hv.
    destruct (attr_atoms_some qa v Hv) as [l Hl].
    cbn [map app fst snd etree_go spec_attrs]. rewrite Hl, Hs.
    set (f' := {| ef_name := ef_name f; ef_attrs := set_attr qa l (ef_attrs f); ef_kids := ef_kids f;
                  ef_content := ef_content f; ef_started := false |}).
    destruct (IH f' stack root rest (set_attr qa l acc) eq_refl) as [eats [He Hg]].
    + cbn. rewrite Ha. reflexivity.
    + exact Hp.
    + exists eats. split; [exact He|]. exact Hg.
Qed.

Definition item_reads (i : item) : Prop :=
  attrs_present i = true ->
  forall f stack root rest,
    etree_go (flatten i ++ rest) (f :: stack) root = etree_go rest (upd_frame f i :: stack) root.

Lemma kids_read ks :
  Forall item_reads ks -> forallb attrs_present ks = true ->
  forall f stack root rest,
    etree_go (flat_map flatten ks ++ rest) (f :: stack) root
    = etree_go rest (fold_left upd_frame ks f :: stack) root.
Proof.
  induction 1 as [|k ks Hk _ IH]; intros Hp f stack root rest; [reflexivity|].
  cbn [forallb] in Hp. apply andb_true_iff in Hp as [Hpk Hps].
  cbn [flat_map fold_left]. rewrite <- app_assoc, (Hk Hpk), (IH Hps). reflexivity.
Qed.

Lemma fold_upd_frame ks : forall f,
  fold_left upd_frame ks f
  = {| ef_name := ef_name f; ef_attrs := ef_attrs f;
       ef_kids := rev (flat_map denote ks) ++ ef_kids f;
       ef_content := ef_content f || existsb kid_content ks;
       ef_started := match ks with [] => ef_started f | _ => true end |}.
Proof.
  induction ks as [|k ks IH]; intros f.
  - cbn. rewrite orb_false_r. destruct f; reflexivity.
  - cbn [fold_left]. rewrite IH. cbn [upd_frame ef_name ef_attrs ef_kids ef_content ef_started flat_map existsb].
    rewrite rev_app_distr, <- app_assoc, orb_assoc. destruct ks; reflexivity.
Qed.

Lemma denote_node q ats ks eats :
  spec_attrs [] ats = Some eats ->
  denote (INode q ats ks) = [EElem q (nil_filter (existsb kid_content ks) eats) (flat_map denote ks)].
Proof. intros H. cbn [denote]. rewrite H. reflexivity. Qed.

Theorem item_reads_all i : item_reads i.
Proof.
  induction i as [v|q ats ks IH] using item_ind2; intros Hp f stack root rest.
  - cbn [flatten app etree_go]. unfold upd_frame. cbn [denote kid_content].
    destruct (atoms_of_value v) as [l|] eqn:E.
    + assert (Hn : value_none v = false).
      { destruct (value_none v) eqn:Hn; [|reflexivity]. apply atoms_of_value_none in Hn. congruence. }
      rewrite Hn. cbn [negb]. rewrite orb_true_r.
      destruct (atoms_trivial l); reflexivity.
    + apply atoms_of_value_none in E. rewrite E. cbn [negb rev app]. rewrite orb_false_r. reflexivity.
  - unfold attrs_present, t_attrs_present in Hp. cbn [all_nodes] in Hp. apply andb_true_iff in Hp as [Hpa Hpk].
    cbn [flatten]. cbn [app etree_go].
    set (p := {| ef_name := ef_name f; ef_attrs := ef_attrs f; ef_kids := ef_kids f;
                 ef_content := true; ef_started := true |}).
    set (n0 := {| ef_name := q; ef_attrs := []; ef_kids := []; ef_content := false; ef_started := false |}).
    rewrite <- !app_assoc.
    destruct (etree_attrs ats n0 (p :: stack) root (flat_map flatten ks ++ [WEnd q] ++ rest) [] eq_refl eq_refl Hpa)
      as [eats [He Hg]].
    rewrite Hg. clear Hg.
    rewrite (kids_read ks IH Hpk). rewrite fold_upd_frame.
    cbn [app etree_go ef_name]. rewrite qname_eqb_refl.
    unfold upd_frame. rewrite (denote_node q ats ks eats He).
    cbn [ef_name ef_attrs ef_kids ef_content ef_started kid_content rev app p n0].
    unfold close_frame, nil_filter. cbn [ef_content ef_attrs ef_name ef_kids].
    rewrite app_nil_r, rev_involutive, orb_true_r. reflexivity.
Qed.

(* the whole document *)
Theorem itree_of_flatten q ats ks :
  attrs_present (INode q ats ks) = true ->
  exists eats, spec_attrs [] ats = Some eats
    /\ itree_of_events (flatten (INode q ats ks))
       = Some (EElem q (nil_filter (existsb kid_content ks) eats) (flat_map denote ks)).
Proof.
  intros Hp. unfold attrs_present, t_attrs_present in Hp. cbn [all_nodes] in Hp. apply andb_true_iff in Hp as [Hpa Hpk].
  unfold itree_of_events. cbn [flatten etree_go].
  set (n0 := {| ef_name := q; ef_attrs := []; ef_kids := []; ef_content := false; ef_started := false |}).
  destruct (etree_attrs ats n0 [] None (flat_map flatten ks ++ [WEnd q]) [] eq_refl eq_refl Hpa) as [eats [He Hg]].
  exists eats. split; [exact He|]. rewrite Hg.
  assert (Hks : Forall item_reads ks) by (apply Forall_forall; intros; apply item_reads_all).
  rewrite (kids_read ks Hks Hpk). rewrite fold_upd_frame.
  cbn [etree_go ef_name n0]. rewrite qname_eqb_refl. cbn [etree_go].
  unfold close_frame, nil_filter. cbn [ef_content ef_attrs ef_name ef_kids].
  rewrite app_nil_r, rev_involutive. reflexivity.
Qed.
