(* Proofs/EventGenNames.v — the qualified names XmlVarBuilder / XmlMetaBuilder compute
   (Model/Builder.v) are the names the documentation prescribes (Spec/MetaSpec.v). *)
From Coq Require Import NArith ZArith List Bool Lia.
From XV Require Import Base.Str Base.Eqb Base.PyInt Model.Bind Model.EventGen Model.DictCodec Model.DictCodecCorr
  Spec.MetaSpec Model.Builder Proofs.DictCodecBase.
Import ListNotations.
Open Scope N_scope.

Lemma build_qname_clark ns l : l <> [] -> build_qname ns l = clark (some_ns ns) l.
Proof. intros H. destruct ns as [[|x n]|], l; try contradiction; reflexivity. Qed.

Lemma some_ns_idem o : some_ns (some_ns o) = some_ns o.
Proof. destruct o as [[|]|]; reflexivity. Qed.

(* ---------------------------------------------------------------- plain namespaces *)
Record plain_facts (n : str) : Prop := {
  pf_nows : forallb (fun ch => negb (xml_ws ch)) n = true;
  pf_nobrace : forallb (fun ch => negb (N.eqb ch 123 || N.eqb ch 125)) n = true;
  pf_head : match n with x :: _ => N.eqb x 35 = false /\ N.eqb x 33 = false | [] => True end
}.

Lemma plain_ns_facts n : plain_ns n = true -> plain_facts n.
Proof.
  unfold plain_ns. intros H. apply andb_true_iff in H as [H1 H2].
  apply negb_true_iff in H1, H2.
  constructor.
  - apply forallb_forall. intros ch Hin. destruct (xml_ws ch) eqn:E; [|reflexivity].
    exfalso. assert (T : existsb (fun c0 => xml_ws c0 || N.eqb c0 123 || N.eqb c0 125) n = true).
    { apply existsb_exists. exists ch. split; [exact Hin|]. rewrite E. reflexivity. }
    congruence.
  - apply forallb_forall. intros ch Hin. destruct (N.eqb ch 123 || N.eqb ch 125) eqn:E; [|reflexivity].
    exfalso. assert (T : existsb (fun c0 => xml_ws c0 || N.eqb c0 123 || N.eqb c0 125) n = true).
    { apply existsb_exists. exists ch. split; [exact Hin|].
      apply orb_true_iff in E as [E|E]; rewrite E; [rewrite orb_true_r|]; try rewrite orb_true_r; reflexivity. }
    congruence.
  - destruct n as [|x r]; [exact I|]. apply orb_false_iff in H1. exact H1.
Qed.

(* split() of a plain, non-empty namespace string is that string *)
Lemma split_plain n : plain_ns n = true -> n <> [] -> split_ws xml_ws n = [n].
Proof.
  intros H Hne. destruct (plain_ns_facts n H).
  rewrite <- (split_join xml_ws eq_refl [n]); [reflexivity|].
  constructor; [|constructor]. split; assumption.
Qed.

(* resolve_namespaces + default_namespace for a field that states a plain namespace *)
Lemma resolve_stated k n parent :
  plain_ns n = true -> n <> [] ->
  default_namespace (resolve_namespaces k (Some n) parent) = Some n.
Proof.
  intros H Hne. destruct (plain_ns_facts n H) as [_ _ Hh].
  unfold resolve_namespaces.
  assert (E : (match k, Some n with (KElement | KWildcard), None => parent | _, _ => Some n end) = Some n)
    by (destruct k; reflexivity).
  rewrite E. destruct n as [|x r]; [contradiction|].
  rewrite split_plain by assumption. cbn [map].
  destruct Hh as [H35 H33].
  assert (T1 : str_eqb (x :: r) TARGET_NS = false) by (cbn; rewrite H35; reflexivity).
  assert (T2 : str_eqb (x :: r) LOCAL_NS = false) by (cbn; rewrite H35; reflexivity).
  assert (T3 : str_eqb (x :: r) OTHER_NS = false) by (cbn; rewrite H35; reflexivity).
  rewrite T1, T2, T3. cbn [dedupe filter default_namespace find]. rewrite H35. reflexivity.
Qed.

Lemma resolve_empty k parent : k <> KElement -> k <> KWildcard ->
  default_namespace (resolve_namespaces k None parent) = None.
Proof. intros H1 H2. destruct k; try contradiction; reflexivity. Qed.

Lemma resolve_stated_empty k parent : default_namespace (resolve_namespaces k (Some []) parent) = None.
Proof. destruct k; reflexivity. Qed.

(* an element field that states no namespace takes the (plain) class namespace *)
Lemma resolve_inherit parent :
  match parent with Some n => plain_ns n = true | None => True end ->
  default_namespace (resolve_namespaces KElement None parent) = some_ns parent.
Proof.
  intros H. destruct parent as [[|x r]|]; try reflexivity.
  change (resolve_namespaces KElement None (Some (x :: r))) with (resolve_namespaces KElement (Some (x :: r)) (Some (x :: r))).
  apply resolve_stated; [exact H|discriminate].
Qed.

(* ---------------------------------------------------------------- ns_of (clark ns l) *)
Lemma upto_brace_plain n l :
  forallb (fun ch => negb (N.eqb ch 123 || N.eqb ch 125)) n = true ->
  upto_brace (n ++ 125 :: l) = Some (n, l).
Proof.
  induction n as [|x n IH]; intros H; cbn; [reflexivity|].
  cbn in H. apply andb_true_iff in H as [Hx Hn]. apply negb_true_iff, orb_false_iff in Hx as [_ Hx].
  rewrite Hx, IH by exact Hn. reflexivity.
Qed.

Lemma ns_of_clark ns l :
  match ns with Some n => plain_ns n = true | None => True end -> plain_name l = true ->
  ns_of (clark (some_ns ns) l) = some_ns ns.
Proof.
  intros Hn Hl. destruct ns as [[|x r]|]; cbn [some_ns clark].
  - (* no namespace: the local name does not start with a brace *)
    destruct l as [|y l]; [reflexivity|]. unfold plain_name in Hl. apply negb_true_iff in Hl.
    cbn in Hl. apply orb_false_iff in Hl as [Hy _]. apply orb_false_iff in Hy as [Hy _].
    cbn [ns_of]. rewrite Hy. reflexivity.
  - destruct (plain_ns_facts _ Hn) as [_ Hb _].
    cbn [app ns_of N.eqb Pos.eqb]. change (x :: r ++ 125 :: l) with ((x :: r) ++ 125 :: l).
    rewrite upto_brace_plain by exact Hb. destruct l; [discriminate Hl|reflexivity].
  - destruct l as [|y l]; [reflexivity|]. unfold plain_name in Hl. apply negb_true_iff in Hl.
    cbn in Hl. apply orb_false_iff in Hl as [Hy _]. apply orb_false_iff in Hy as [Hy _].
    cbn [ns_of]. rewrite Hy. reflexivity.
Qed.
