(* Proofs/ConvLemmas.v — small facts shared by the C05 proofs. *)
From Coq Require Import NArith ZArith List Bool Lia.
From XV Require Import Base.Str Base.Dec Base.PyInt.
Import ListNotations.
Open Scope N_scope.

Lemma xml_ws_cases c : xml_ws c = true -> c = 32 \/ c = 9 \/ c = 10 \/ c = 13.
Proof.
  unfold xml_ws. rewrite !orb_true_iff, !N.eqb_eq. tauto.
Qed.

Lemma xml_ws_py_isspace c : xml_ws c = true -> py_isspace c = true.
Proof. intros H. apply xml_ws_cases in H as [->|[->|[->| ->]]]; vm_compute; reflexivity. Qed.

Lemma xml_ws_py_int_space c : xml_ws c = true -> py_int_space c = true.
Proof. intros H. apply xml_ws_cases in H as [->|[->|[->| ->]]]; vm_compute; reflexivity. Qed.

Lemma forallb_impl {A} (p q : A -> bool) l :
  (forall x, p x = true -> q x = true) -> forallb p l = true -> forallb q l = true.
Proof.
  intros H. induction l as [|x l IH]; cbn; [reflexivity|].
  intros E. apply andb_true_iff in E as [E1 E2]. rewrite (H _ E1), (IH E2). reflexivity.
Qed.

(* strip a whitespace-wrapped core whose first and last characters are not whitespace *)
Lemma strip_by_wrap_hd_last ws a core b :
  forallb ws a = true -> forallb ws b = true ->
  core <> [] -> ws (hd 0 core) = false -> ws (last core 0) = false ->
  strip_by ws (a ++ core ++ b) = core.
Proof.
  intros Ha Hb Hne Hh Hl. apply strip_by_wrap; try assumption.
  - intros c r E. subst core. exact Hh.
  - intros c r E. assert (core = rev (c :: r)) by (rewrite <- E, rev_involutive; reflexivity).
    subst core. cbn [rev] in Hl. rewrite last_last in Hl. exact Hl.
Qed.

Lemma last_app_nonempty {A} (a b : list A) d : b <> [] -> last (a ++ b) d = last b d.
Proof.
  intros Hb. induction a as [|x a IH]; [reflexivity|].
  cbn [app]. remember (a ++ b) as ab eqn:E. destruct ab as [|y ab'].
  - destruct a, b; cbn in E; congruence.
  - exact IH.
Qed.

Lemma last_in {A} (l : list A) d : l <> [] -> In (last l d) l.
Proof.
  induction l as [|x l IH]; [congruence|]. intros _.
  destruct l as [|y l]; [left; reflexivity|]. right. apply IH. discriminate.
Qed.

Lemma all_digits_hd s : all_digits s = true -> s <> [] -> is_ascii_digit (hd 0 s) = true.
Proof. destruct s; [congruence|]. cbn. intros H _. apply andb_true_iff in H. tauto. Qed.

Lemma all_digits_last s : all_digits s = true -> s <> [] -> is_ascii_digit (last s 0) = true.
Proof.
  intros H Hne. unfold all_digits in H. rewrite forallb_forall in H. apply H. apply last_in. exact Hne.
Qed.

Lemma all_digits_app a b : all_digits (a ++ b) = all_digits a && all_digits b.
Proof. apply forallb_app. Qed.

Lemma str_val_app a b : str_val (a ++ b) = str_val a * 10 ^ N.of_nat (length b) + str_val b.
Proof. unfold str_val. rewrite str_val_acc_app, str_val_acc_lin. reflexivity. Qed.

Lemma length_zero_iff_nil_b {A} (l : list A) : (length l =? 0)%nat = false -> l <> [].
Proof. destruct l; cbn; congruence. Qed.
