(* Proofs/DictLeakDoc.v — C15 for the dictionary / JSON decoder: for EVERY JSON value (any kind at
   any key) DictDecoder.decode returns a value or raises one of xsdata's documented errors,
   provided the exported metadata is closed (every class a field refers to has metadata). *)
From Coq Require Import NArith ZArith List Bool Arith Lia.
From XV Require Import Base.Str Base.Eqb Base.PyInt Model.Bind Model.DictCodec Model.Parser Model.ParserCorr
  Model.DictLeak Model.DictLeakCorr Proofs.ParserDoc.
Import ListNotations.

Definition dsafe {A} (r : dres A) : Prop :=
  match r with DOk _ => True | DErr k => ddocumented k = true end.

(* ================================================================ guard: closed metadata *)
Definition var_clazz_ok (u : universe) (var : xvar) : bool :=
  match v_clazz var with Some cl => has_meta u cl | None => true end.
(* a choice of a compound field: its class has metadata, and it has no choices of its own *)
Definition choice_ok (u : universe) (ch : xvar) : bool :=
  var_clazz_ok u ch && match v_elements ch with [] => true | _ => false end.
Definition var_ok2 (u : universe) (var : xvar) : bool :=
  var_clazz_ok u var && forallb (choice_ok u) (map snd (v_elements var) ++ v_wildcards var).
Definition dict_wf (u : universe) (g : generics) : bool :=
  forallb (fun cm => forallb (var_ok2 u) (get_all_vars (snd cm))) (u_metas u)
  && forallb (fun ql => forallb (has_meta u) (snd ql)) (u_xsi u)
  && has_meta u (g_any g).

(* ================================================================ generic lemmas *)
Lemma jvalue_ind2 (P : jvalue -> Prop)
  (Hnull : P JNull) (Hbool : forall b, P (JBool b)) (Hint : forall z, P (JInt z))
  (Hfloat : forall r, P (JFloat r)) (Hstr : forall s, P (JStr s))
  (Hlist : forall t l, Forall P l -> P (JList t l))
  (Hdict : forall m, Forall (fun kv => P (snd kv)) m -> P (JDict m)) :
  forall j, P j.
Proof.
  fix IH 1. intros [ |b|z|r|s|t l|m].
  - exact Hnull. - apply Hbool. - apply Hint. - apply Hfloat. - apply Hstr.
  - apply Hlist. induction l as [|x l IHl]; constructor; [apply IH|exact IHl].
  - apply Hdict. induction m as [|[k x] m IHm]; constructor; [apply IH|exact IHm].
Qed.

Lemma dsafe_of_res {A} (r : res A) : rsafe r -> dsafe (of_res r).
Proof. destruct r as [a|k]; cbn; [exact (fun H => H)|]. destruct k; cbn; try discriminate; reflexivity. Qed.

Lemma dmap_safe {A B} (f : A -> dres B) l : (forall x, In x l -> dsafe (f x)) -> dsafe (dmap f l).
Proof.
  induction l as [|x l IH]; intros H; cbn [dmap]; [exact I|].
  pose proof (H x (or_introl eq_refl)) as Hx. destruct (f x) as [y|k]; cbn [dbind]; [|exact Hx].
  assert (Hl : dsafe (dmap f l)) by (apply IH; intros z Hz; apply H; right; exact Hz).
  destruct (dmap f l); cbn [dbind]; [exact I|exact Hl].
Qed.

Lemma assoc_some_of_keys (m : list (str * jvalue)) ks k :
  keys_are m ks = true -> In k ks -> exists v, assoc k m = Some v.
Proof.
  unfold keys_are. intros H Hin. apply andb_true_iff in H as [_ H].
  rewrite forallb_forall in H. specialize (H k Hin). apply existsb_exists in H as [[k' v] [Hkv E]].
  cbn [fst] in E. apply str_eqb_eq in E. subst k'.
  clear Hin. induction m as [|[k0 v0] m IH]; [destruct Hkv|]. cbn [assoc].
  destruct (str_eqb k k0) eqn:Ek; [eauto|]. destruct Hkv as [E|Hkv]; [|exact (IH Hkv)].
  injection E as -> ->. rewrite str_eqb_refl in Ek. discriminate.
Qed.

Section Safe.
  Variable g : generics.
  Variable c : conv.
  Variable u : universe.
  Hypothesis Hwf : dict_wf u g = true.

  Lemma wf_vars cl meta var : In (cl, meta) (u_metas u) -> In var (get_all_vars meta) -> var_ok2 u var = true.
  Proof.
    intros Hm Hv. unfold dict_wf in Hwf. apply andb_true_iff in Hwf as [H _]. apply andb_true_iff in H as [H _].
    rewrite forallb_forall in H. specialize (H _ Hm). cbn [snd] in H. rewrite forallb_forall in H. exact (H _ Hv).
  Qed.
  Lemma wf_xsi q l cl : In (q, l) (u_xsi u) -> In cl l -> has_meta u cl = true.
  Proof.
    intros Hq Hc. unfold dict_wf in Hwf. apply andb_true_iff in Hwf as [H _]. apply andb_true_iff in H as [_ H].
    rewrite forallb_forall in H. specialize (H _ Hq). cbn [snd] in H. rewrite forallb_forall in H. exact (H _ Hc).
  Qed.
  Lemma wf_any : has_meta u (g_any g) = true.
  Proof. unfold dict_wf in Hwf. apply andb_true_iff in Hwf as [_ H]. exact H. Qed.

  Lemma d_meta_ok cl : has_meta u cl = true -> exists meta, d_meta u cl = DOk meta /\ In (cl, meta) (u_metas u).
  Proof.
    unfold has_meta, d_meta, u_meta. destruct (assocN cl (u_metas u)) as [m|] eqn:H; [|discriminate].
    intros _. exists m. split; [reflexivity|exact (assocN_In _ _ _ H)].
  Qed.

  Lemma find_type_ok q cl : d_find_type c u q = Some cl -> has_meta u cl = true.
  Proof.
    unfold d_find_type, ctx_find_type, ctx_find_types. destruct (c_from_qname c q); [discriminate|].
    unfold find_types. destruct (assoc q (u_xsi u)) as [l|] eqn:H; [|discriminate].
    intros Hl. destruct (assoc_In_pair _ _ _ H) as [k Hk]. exact (wf_xsi k l cl Hk (last_error_In _ _ Hl)).
  Qed.

  (* ---------------------------------------------------------------- entries *)
  Definition entry_ok (e : entry) : Prop :=
    match e with
    | EDataclass cl => has_meta u cl = true
    | EValue _ var _ | EUnwrap _ var => var_ok2 u var = true
    | EComplex _ var => var_clazz_ok u var = true
    | EText _ _ | EBest _ => True
    end.
  (* the code reaches these entries only on values of the right shape *)
  Definition entry_fits (j : jvalue) (e : entry) : Prop :=
    match e with
    | EUnwrap _ var => exists mm v, j = JDict mm /\ assoc (v_local_name var) mm = Some v
    | EComplex _ _ | EBest _ => exists mm, j = JDict mm
    | _ => True
    end.
  Definition good (j : jvalue) : Prop :=
    forall cfg e, entry_fits j e -> entry_ok e -> dsafe (dec g c u j cfg e).

  (* ---------------------------------------------------------------- leaves *)
  Lemma ser_guarded l :
    existsb (fun x => j_is_null x || j_is_array x) l = false ->
    dsafe (dmap (fun x => dbind (ser_item c x) (fun o => match o with Some s => DOk s | None => DErr KTypeError end)) l).
  Proof.
    intros H. apply dmap_safe. intros x Hx.
    assert (Hn : j_is_null x || j_is_array x = false).
    { destruct (j_is_null x || j_is_array x) eqn:E; [|reflexivity].
      assert (existsb (fun y => j_is_null y || j_is_array y) l = true) by (apply existsb_exists; eauto). congruence. }
    destruct x; cbn in Hn |- *; try discriminate; exact I || reflexivity.
  Qed.

  Lemma bind_text_plain_safe cfg m var j : (forall mm, j <> JDict mm) \/ True -> dsafe (bind_text_plain c cfg m var j).
  Proof.
    intros _. unfold bind_text_plain.
    destruct (v_any_type var || v_is KWildcard var); [exact I|].
    destruct (match j with JList _ l => existsb (fun x => j_is_null x || j_is_array x) l | _ => false end) eqn:Hg; [reflexivity|].
    assert (Hs : dsafe (j_serialize c j)).
    { unfold j_serialize. destruct j as [ |b|z|r|s|[|] l|mm]; try exact I; try reflexivity.
      pose proof (ser_guarded l Hg) as Hl.
      destruct (dmap _ l); cbn [dbind]; [exact I|exact Hl]. }
    destruct (j_serialize c j) as [s|k]; cbn [dbind]; [|exact Hs].
    pose proof (dsafe_of_res _ (parse_var_safe c (d_fail_conv cfg) m var s [] None None)) as Hp.
    destruct (of_res (Parser.parse_var c (d_fail_conv cfg) m var s [] None None)); cbn [dbind]; [exact I|exact Hp].
  Qed.

  Lemma bind_text_safe cfg m var j : dsafe (bind_text c cfg m var j).
  Proof.
    unfold bind_text. destruct (v_is KElements var); [|apply bind_text_plain_safe; right; exact I].
    destruct (find_value_choice c var j); [apply bind_text_plain_safe; right; exact I|].
    destruct (j_is_null j); [exact I|reflexivity].
  Qed.

  Lemma construct_safe cfg cl meta params : dsafe (construct cfg cl meta params).
  Proof. unfold construct. destruct (existsb _ _); [reflexivity|exact I]. Qed.

  Lemma derived_names_safe jq jt : dsafe (derived_names jq jt).
  Proof. unfold derived_names. destruct jq; try reflexivity. destruct jt; try reflexivity; exact I. Qed.

  (* ---------------------------------------------------------------- one dictionary *)
  Section DictSafe.
    Variable m : list (str * jvalue).
    Hypothesis IH : Forall (fun kv => good (snd kv)) m.
    Let kids : list (str * decoder) := map (fun kv => (fst kv, dec g c u (snd kv))) m.

    Lemma kid_assoc k : assoc k kids = option_map (dec g c u) (assoc k m).
    Proof.
      unfold kids. induction m as [|[k0 x] mm IHm]; [reflexivity|]. cbn [map assoc fst snd].
      destruct (str_eqb k k0); [reflexivity|]. apply IHm. inversion IH; assumption.
    Qed.

    Lemma good_of_assoc k x : assoc k m = Some x -> good x.
    Proof.
      intros H. destruct (assoc_In_pair _ _ _ H) as [k' Hin].
      rewrite Forall_forall in IH. exact (IH _ Hin).
    Qed.

    Lemma kid_safe k x cfg e :
      assoc k m = Some x -> entry_fits x e -> entry_ok e -> dsafe (kid kids k cfg e).
    Proof.
      intros H Hf Ho. unfold kid. rewrite kid_assoc, H. cbn [option_map]. exact (good_of_assoc k x H cfg e Hf Ho).
    Qed.

    Lemma find_var_wrapped vars key j var w :
      find_var vars key j = Some var -> v_wrapper var = Some w ->
      exists mm v, j = JDict mm /\ assoc (v_local_name var) mm = Some v.
    Proof.
      unfold find_var. intros H Hw. apply find_some in H as [_ H]. rewrite Hw in H.
      apply andb_true_iff in H as [_ H]. destruct j; try discriminate.
      destruct (assoc (v_local_name var) m0) eqn:E; [eauto|discriminate].
    Qed.

    Lemma bind_items_safe cfg cl meta : In (cl, meta) (u_metas u) ->
      forall items ks acc,
      Forall (fun kv => good (snd kv)) items -> ks = map (fun kv => (fst kv, dec g c u (snd kv))) items ->
      dsafe (bind_items c cfg meta (get_all_vars meta) items ks acc).
    Proof.
      intros Hm. induction items as [|[key j] r IHr]; intros ks acc Hg ->; cbn [map bind_items]; [exact I|].
      inversion Hg as [|x l Hj Hr]; subst. cbn [snd fst] in *.
      destruct (find_var (get_all_vars meta) key j) as [var|] eqn:Hf.
      - assert (Hv : var_ok2 u var = true).
        { apply (wf_vars cl meta var Hm). apply find_some in Hf as [Hf _]. exact Hf. }
        assert (Hd : dsafe (dec g c u j cfg (match v_wrapper var with Some _ => EUnwrap meta var | None => EValue meta var false end))).
        { destruct (v_wrapper var) as [w|] eqn:Hw.
          - apply Hj; [|exact Hv]. cbn [entry_fits]. exact (find_var_wrapped _ _ _ _ w Hf Hw).
          - apply Hj; [exact I|exact Hv]. }
        destruct (dec g c u j cfg _) as [v|k]; cbn [dbind]; [|exact Hd].
        destruct (v_init var); [exact (IHr _ _ Hr eq_refl)|].
        pose proof (dsafe_of_res _ (validate_fixed_safe c var v)) as Hvf.
        destruct (of_res (validate_fixed c var v)); cbn [dbind]; [exact (IHr _ _ Hr eq_refl)|exact Hvf].
      - destruct (d_fail_unknown cfg); [reflexivity|exact (IHr _ _ Hr eq_refl)].
    Qed.

    Lemma derived_keys_present : keys_are m DERIVED_KEYS = true ->
      exists jq jt jv, assoc Q_QNAME m = Some jq /\ assoc Q_TYPE m = Some jt /\ assoc Q_VALUE m = Some jv.
    Proof.
      intros H.
      destruct (assoc_some_of_keys m DERIVED_KEYS Q_QNAME H) as [jq Hq]; [left; reflexivity|].
      destruct (assoc_some_of_keys m DERIVED_KEYS Q_TYPE H) as [jt Ht]; [right; right; left; reflexivity|].
      destruct (assoc_some_of_keys m DERIVED_KEYS Q_VALUE H) as [jv Hv]; [right; left; reflexivity|].
      eauto 8.
    Qed.

    Lemma dict_bind_dataclass_safe cfg cl : has_meta u cl = true -> dsafe (dict_bind_dataclass g c u m kids cfg cl).
    Proof.
      intros Hcl. unfold dict_bind_dataclass. destruct (keys_are m DERIVED_KEYS) eqn:Hk.
      - destruct (derived_keys_present Hk) as [jq [jt [jv [Hq [Ht Hv]]]]].
        unfold dict_bind_derived_dataclass. rewrite Hq, Ht.
        pose proof (derived_names_safe jq jt) as Hn.
        destruct (derived_names jq jt) as [[q ty]|k]; cbn [dbind]; [|exact Hn].
        assert (Hval : dsafe (if N.eqb cl (g_derived g)
                              then match truthy_str ty with
                                   | Some t => match d_find_type c u t with
                                               | Some real => kid kids Q_VALUE cfg (EDataclass real)
                                               | None => DErr KParserError end
                                   | None => DErr KParserError end
                              else kid kids Q_VALUE cfg (EDataclass cl))).
        { destruct (N.eqb cl (g_derived g)).
          - destruct (truthy_str ty) as [t|]; [|reflexivity].
            destruct (d_find_type c u t) as [real|] eqn:Hft; [|reflexivity].
            apply (kid_safe Q_VALUE jv); [exact Hv|exact I|exact (find_type_ok t real Hft)].
          - apply (kid_safe Q_VALUE jv); [exact Hv|exact I|exact Hcl]. }
        destruct (if N.eqb cl (g_derived g) then _ else _) as [v|k]; cbn [dbind]; [exact I|exact Hval].
      - destruct (d_meta_ok cl Hcl) as [meta [-> Hin]]. cbn [dbind].
        pose proof (bind_items_safe cfg cl meta Hin m kids [] IH eq_refl) as Hb.
        destruct (bind_items c cfg meta (get_all_vars meta) m kids []); cbn [dbind]; [apply construct_safe|exact Hb].
    Qed.

    Lemma dict_bind_best_safe cfg classes : dsafe (dict_bind_best g c u m kids cfg classes).
    Proof. unfold dict_bind_best. destruct (flat_map _ classes); [reflexivity|exact I]. Qed.

    Lemma dict_bind_complex_safe cfg meta var :
      var_clazz_ok u var = true -> dsafe (dict_bind_complex g c u m kids cfg meta var).
    Proof.
      intros Hv. unfold dict_bind_complex.
      destruct (v_is_clazz_union var); [apply dict_bind_best_safe|].
      destruct (match v_elements var with [] => false | _ => true end); [apply dict_bind_best_safe|].
      destruct (v_any_type var || v_is KWildcard var); [apply dict_bind_best_safe|].
      unfold var_clazz_ok in Hv. destruct (v_clazz var) as [cl|]; [|reflexivity].
      destruct (subclasses_of u cl); [apply dict_bind_dataclass_safe; exact Hv|apply dict_bind_best_safe].
    Qed.

    Lemma dict_bind_derived_plain_safe cfg meta var q ty jv :
      assoc Q_VALUE m = Some jv -> var_clazz_ok u var = true ->
      dsafe (dict_bind_derived_plain c u m kids cfg meta var q ty).
    Proof.
      intros Hv Hc. unfold dict_bind_derived_plain. rewrite Hv.
      assert (Hval : dsafe (if negb (match jv with JDict _ => true | _ => false end) then kid kids Q_VALUE cfg (EText meta var)
                 else match truthy_str ty with
                      | Some t => match d_find_type c u t with
                                  | Some cl => kid kids Q_VALUE cfg (EDataclass cl)
                                  | None => DErr KParserError end
                      | None => match v_clazz var with
                                | Some _ => kid kids Q_VALUE cfg (EComplex meta var)
                                | None => kid kids Q_VALUE cfg (EBest (meta_element_types meta)) end
                      end)).
      { destruct jv as [ | | | | | |mm]; cbn [negb];
          try (apply (kid_safe Q_VALUE _ cfg _ Hv); exact I).
        destruct (truthy_str ty) as [t|].
        - destruct (d_find_type c u t) as [cl|] eqn:Hft; [|reflexivity].
          apply (kid_safe Q_VALUE _ cfg _ Hv); [exact I|exact (find_type_ok t cl Hft)].
        - destruct (v_clazz var) eqn:Hcl.
          + apply (kid_safe Q_VALUE _ cfg _ Hv); [cbn; eauto|exact Hc].
          + apply (kid_safe Q_VALUE _ cfg _ Hv); [cbn; eauto|exact I]. }
      destruct jv; cbn [negb] in *;
        match goal with |- dsafe (dbind ?X _) => destruct X as [v|k]; cbn [dbind]; [exact I|exact Hval] end.
    Qed.

    Lemma dict_bind_derived_value_safe cfg meta var :
      keys_are m DERIVED_KEYS = true -> var_ok2 u var = true ->
      dsafe (dict_bind_derived_value c u m kids cfg meta var).
    Proof.
      intros Hk Hv. destruct (derived_keys_present Hk) as [jq [jt [jv [Hq [Ht Hval]]]]].
      unfold dict_bind_derived_value. rewrite Hq, Ht.
      pose proof (derived_names_safe jq jt) as Hn.
      destruct (derived_names jq jt) as [[q ty]|k]; cbn [dbind]; [|exact Hn].
      unfold var_ok2 in Hv. apply andb_true_iff in Hv as [Hc He].
      destruct (v_elements var) as [|e es] eqn:Hel.
      - exact (dict_bind_derived_plain_safe cfg meta var q ty jv Hval Hc).
      - destruct (find_choice var q) as [choice|] eqn:Hf; [|reflexivity].
        pose proof (find_choice_In var q choice Hf) as Hin. rewrite Hel in Hin.
        rewrite forallb_forall in He. specialize (He _ Hin). unfold choice_ok in He.
        apply andb_true_iff in He as [Hcc Hce].
        destruct (v_elements choice); [|discriminate].
        exact (dict_bind_derived_plain_safe cfg meta choice q ty jv Hval Hcc).
    Qed.

    Lemma run_dict_safe cfg e : entry_fits (JDict m) e -> entry_ok e -> dsafe (run_dict g c u m kids cfg e).
    Proof.
      intros Hf Ho. destruct e as [cl|meta var rec|meta var|meta var|meta var|classes]; cbn [run_dict entry_ok entry_fits] in *.
      - exact (dict_bind_dataclass_safe cfg cl Ho).
      - unfold dict_bind_value. destruct (v_is KAttributes var); [exact I|].
        destruct (keys_are m ANY_KEYS); [apply dict_bind_dataclass_safe; exact wf_any|].
        destruct (keys_are m DERIVED_KEYS) eqn:Hk; [exact (dict_bind_derived_value_safe cfg meta var Hk Ho)|].
        apply dict_bind_complex_safe. unfold var_ok2 in Ho. apply andb_true_iff in Ho as [Ho _]. exact Ho.
      - destruct Hf as [mm [v [E Hv]]]. injection E as <-.
        apply (kid_safe (v_local_name var) v cfg _ Hv); [exact I|exact Ho].
      - apply bind_text_safe.
      - apply dict_bind_complex_safe. exact Ho.
      - apply dict_bind_best_safe.
    Qed.
  End DictSafe.

  (* ---------------------------------------------------------------- every JSON value *)
  Lemma dec_dict m : dec g c u (JDict m) = run_dict g c u m (map (fun kv => (fst kv, dec g c u (snd kv))) m).
  Proof.
    cbn [dec]. f_equal. induction m as [|[k x] mm IHm]; [reflexivity|]. cbn [map fst snd]. f_equal. exact IHm.
  Qed.
  Lemma dec_list t l : dec g c u (JList t l) = run_list c t l (map (dec g c u) l).
  Proof.
    cbn [dec]. f_equal. all: try (induction l as [|x l IHl]; [reflexivity|cbn [map]; f_equal; exact IHl]).
  Qed.

  Lemma run_atom_safe j cfg e :
    (forall mm, j <> JDict mm) -> entry_fits j e -> dsafe (run_atom c j cfg e).
  Proof.
    intros Hnd Hf. destruct e as [cl|meta var rec|meta var|meta var|meta var|classes]; cbn [run_atom entry_fits] in *.
    - reflexivity.
    - destruct (v_is KAttributes var); [reflexivity|apply bind_text_safe].
    - destruct Hf as [mm [v [E _]]]. exfalso. exact (Hnd mm E).
    - apply bind_text_safe.
    - destruct Hf as [mm E]. exfalso. exact (Hnd mm E).
    - destruct Hf as [mm E]. exfalso. exact (Hnd mm E).
  Qed.

  Theorem dec_good : forall j, good j.
  Proof.
    apply jvalue_ind2; try (intros; intros cfg e Hf Ho; cbn [dec]; apply run_atom_safe; [discriminate|exact Hf]).
    - (* list *)
      intros t l IH cfg e Hf Ho. rewrite dec_list.
      destruct e as [cl|meta var rec|meta var|meta var|meta var|classes]; cbn [run_list entry_fits entry_ok] in *.
      + reflexivity.
      + destruct (v_is KAttributes var); [reflexivity|].
        destruct (negb rec && v_list_element var); [|apply bind_text_safe].
        assert (Hl : dsafe (dmap (fun d : decoder => d cfg (EValue meta var true)) (map (dec g c u) l))).
        { apply dmap_safe. intros d Hd. apply in_map_iff in Hd as [x [<- Hx]].
          rewrite Forall_forall in IH. exact (IH x Hx cfg (EValue meta var true) I Ho). }
        destruct (dmap _ (map (dec g c u) l)); cbn [dbind]; [exact I|exact Hl].
      + destruct Hf as [mm [v [E _]]]. discriminate.
      + apply bind_text_safe.
      + destruct Hf as [mm E]. discriminate.
      + destruct Hf as [mm E]. discriminate.
    - (* dictionary *)
      intros m IH cfg e Hf Ho. rewrite dec_dict. exact (run_dict_safe m IH cfg e Hf Ho).
  Qed.

  (* ---------------------------------------------------------------- decode *)
  Lemma find_type_by_fields_ok keys cl : find_type_by_fields u keys = Some cl -> has_meta u cl = true.
  Proof.
    unfold find_type_by_fields.
    set (choices := filter (local_names_match u keys) (flat_map snd (u_xsi u))).
    assert (Hc : forall x, In x choices -> has_meta u x = true).
    { intros x Hx. unfold choices in Hx. apply filter_In in Hx as [Hx _]. apply in_flat_map in Hx as [[q l] [Hq Hl]].
      exact (wf_xsi q l x Hq Hl). }
    assert (Hfold : forall l acc r,
               (forall x, In x l -> has_meta u x = true) -> (forall a, acc = Some a -> has_meta u a = true) ->
               fold_left (fun acc cl0 => match acc with None => Some cl0
                                         | Some best => if better u keys cl0 best then Some cl0 else Some best end) l acc = Some r ->
               has_meta u r = true).
    { induction l as [|x l IHl]; intros acc r Hl Ha; cbn [fold_left]; [exact (Ha r)|].
      apply IHl; [intros y Hy; apply Hl; right; exact Hy|].
      intros a. destruct acc as [best|].
      - destruct (better u keys x best); intros E; injection E as <-; [apply Hl; left; reflexivity|exact (Ha best eq_refl)].
      - intros E. injection E as <-. apply Hl. left. reflexivity. }
    apply Hfold; [exact Hc|discriminate].
  Qed.

  Theorem decode_documented : forall cfg clazz is_list j,
    match clazz with Some cl => has_meta u cl = true | None => True end ->
    dsafe (decode g c u cfg clazz is_list j).
  Proof.
    intros cfg clazz is_list j Hroot. unfold decode.
    assert (Htp : match (match clazz with
                         | None => detect_type u j
                         | Some cl => if Bool.eqb is_list (j_is_array j) then DOk cl else DErr KParserError end) with
                  | DOk tp => has_meta u tp = true | DErr k => ddocumented k = true end).
    { destruct clazz as [cl|].
      - destruct (Bool.eqb is_list (j_is_array j)); [exact Hroot|reflexivity].
      - unfold detect_type. destruct (j_falsy j); [reflexivity|].
        destruct (match j with JList _ (x :: _) => x | _ => j end) as [ | | | | | |mm]; try reflexivity.
        destruct (find_type_by_fields u (map fst mm)) as [cl|] eqn:Hf; [exact (find_type_by_fields_ok _ _ Hf)|reflexivity]. }
    destruct (match clazz with None => _ | Some cl => _ end) as [tp|k]; cbn [dbind]; [|exact Htp].
    destruct j as [ | | | | |t l|mm]; try (apply dec_good; [exact I|exact Htp]).
    assert (Hl : dsafe (dmap (fun x => dec g c u x cfg (EDataclass tp)) l)).
    { apply dmap_safe. intros x _. apply dec_good; [exact I|exact Htp]. }
    destruct (dmap _ l); cbn [dbind]; [exact I|exact Hl].
  Qed.
End Safe.

(* ---------------------------------------------------------------- the oracle of the harness *)
(* bits 0,1: dict_code; bit 2: the hypotheses of decode_documented hold for this case; bit 3: the
   exported metadata is not closed *)
Definition dict_guards (x : dict_case) : bool :=
  let '(_, _, u, g, clazz, _, _) := x in
  dict_wf u g && match clazz with Some cl => has_meta u cl | None => true end.
Definition dict_code_guarded (x : dict_case) : N :=
  (dict_code x + (if dict_guards x then 4 else 8))%N.
