(* Proofs/DictCodecBase.v — general lemmas used by the C04 proofs: the gres monad,
   insertion-ordered dictionaries, whitespace splitting of joined tokens. *)
From Coq Require Import NArith ZArith List Bool Lia.
From XV Require Import Base.Str Base.Eqb Base.PyInt Model.Bind Model.EventGen Model.DictCodec Model.DictCodecCorr.
Import ListNotations.
Open Scope N_scope.

(* ---------------------------------------------------------------- mapM / concatM *)
Lemma mapM_ok {A B} (f : A -> gres B) (h : A -> B) (l : list A) :
  (forall x, In x l -> f x = Ok (h x)) -> mapM f l = Ok (map h l).
Proof.
  induction l as [|x l IH]; intros H; cbn; [reflexivity|].
  rewrite (H x (or_introl eq_refl)). cbn. rewrite IH by (intros y Hy; apply H; right; exact Hy).
  reflexivity.
Qed.

Lemma concatM_ok {A B} (f : A -> gres (list B)) (h : A -> list B) (l : list A) :
  (forall x, In x l -> f x = Ok (h x)) -> concatM f l = Ok (concat (map h l)).
Proof. intros H. unfold concatM. rewrite (mapM_ok f h l H). reflexivity. Qed.

Lemma concat_map_singleton {A B} (h : A -> B) (l : list A) :
  concat (map (fun x => [h x]) l) = map h l.
Proof. induction l as [|x l IH]; cbn; [reflexivity|]. rewrite IH. reflexivity. Qed.

(* ---------------------------------------------------------------- strings *)
Lemma str_eqb_sym a b : str_eqb a b = str_eqb b a.
Proof.
  destruct (str_eqb_spec a b) as [->|Hn]; [symmetry; apply str_eqb_refl|].
  destruct (str_eqb_spec b a) as [->|_]; [congruence|reflexivity].
Qed.

(* ---------------------------------------------------------------- dictionaries *)
Lemma existsb_str_false k (l : list str) :
  existsb (str_eqb k) l = false -> forall x, In x l -> str_eqb k x = false.
Proof.
  induction l as [|y l IH]; cbn; intros H x Hin; [contradiction|].
  apply orb_false_iff in H as [Hy Hl]. destruct Hin as [->|Hin]; [exact Hy|apply IH; assumption].
Qed.

Lemma dict_set_fresh {A} k (v : A) (l : list (str * A)) :
  existsb (str_eqb k) (map fst l) = false -> dict_set k v l = l ++ [(k, v)].
Proof.
  induction l as [|[k' v'] l IH]; cbn; intros H; [reflexivity|].
  apply orb_false_iff in H as [Hk Hl]. rewrite Hk, IH by exact Hl. reflexivity.
Qed.

Lemma distinct_keys_app_r (a : list str) k :
  distinct_keys (a ++ [k]) = true -> distinct_keys a = true /\ existsb (str_eqb k) a = false.
Proof.
  induction a as [|x a IH]; cbn; intros H; [auto|].
  apply andb_true_iff in H as [Hx Ha]. destruct (IH Ha) as [Hd Hk].
  rewrite existsb_app in Hx. cbn in Hx. rewrite orb_false_r in Hx.
  apply negb_true_iff, orb_false_iff in Hx as [Hxa Hxk].
  rewrite Hxa, Hd, Hk. cbn. rewrite str_eqb_sym, Hxk. auto.
Qed.

Lemma distinct_keys_cons_app (a : list str) k r :
  distinct_keys (a ++ k :: r) = true -> distinct_keys ((a ++ [k]) ++ r) = true.
Proof. rewrite <- app_assoc. cbn. auto. Qed.

Lemma distinct_keys_app_l (a b : list str) : distinct_keys (a ++ b) = true -> distinct_keys a = true.
Proof.
  induction a as [|x a IH]; cbn; intros H; [reflexivity|].
  apply andb_true_iff in H as [Hx Ha]. rewrite existsb_app in Hx.
  apply negb_true_iff, orb_false_iff in Hx as [Hxa _]. rewrite Hxa, IH by exact Ha. reflexivity.
Qed.

Lemma fold_dict_set_distinct {A} (l acc : list (str * A)) :
  distinct_keys (map fst (acc ++ l)) = true ->
  fold_left (fun a kv => dict_set (fst kv) (snd kv) a) l acc = acc ++ l.
Proof.
  revert acc; induction l as [|[k v] l IH]; intros acc H; cbn; [rewrite app_nil_r; reflexivity|].
  rewrite map_app in H. cbn in H.
  assert (H' := distinct_keys_cons_app _ _ _ H).
  assert (Hk : existsb (str_eqb k) (map fst acc) = false).
  { apply distinct_keys_app_l in H'. apply distinct_keys_app_r in H'. tauto. }
  rewrite dict_set_fresh by exact Hk.
  rewrite IH; [rewrite <- app_assoc; reflexivity|].
  rewrite !map_app. cbn. exact H'.
Qed.

Lemma dict_of_distinct {A} (l : list (str * A)) :
  distinct_keys (map fst l) = true -> dict_of l = l.
Proof. intros H. unfold dict_of. rewrite fold_dict_set_distinct; [reflexivity|exact H]. Qed.

(* lookups in a list of pairs with distinct keys *)
Lemma assoc_map_self {A} (f : str -> A) (names : list str) n :
  In n names -> assoc n (map (fun k => (k, f k)) names) = Some (f n).
Proof.
  induction names as [|k names IH]; cbn; intros Hin; [contradiction|].
  destruct (str_eqb_spec n k) as [->|Hn]; [reflexivity|].
  destruct Hin as [->|Hin]; [congruence|auto].
Qed.

Lemma fields_rebuild (fs : list (str * value)) :
  distinct_keys (map fst fs) = true ->
  map (fun n => (n, match assoc n fs with Some v => v | None => VNone end)) (map fst fs) = fs.
Proof.
  induction fs as [|[k v] fs IH]; cbn; intros H; [reflexivity|].
  apply andb_true_iff in H as [Hk Hd]. rewrite str_eqb_refl. f_equal.
  rewrite <- (IH Hd) at 2. apply map_ext_in. intros n Hn.
  destruct (str_eqb_spec n k) as [E|_]; [|reflexivity].
  subst n. apply negb_true_iff in Hk.
  pose proof (existsb_str_false _ _ Hk k Hn) as E. rewrite str_eqb_refl in E. discriminate.
Qed.

(* ---------------------------------------------------------------- split of joined tokens *)
Section Split.
  Variable ws : N -> bool.
  Hypothesis ws_space : ws 32 = true.

  Definition clean (t : str) : Prop := t <> [] /\ forallb (fun ch => negb (ws ch)) t = true.

  Lemma split_aux_word t cur s :
    forallb (fun ch => negb (ws ch)) t = true ->
    split_ws_aux ws cur (t ++ s) = split_ws_aux ws (rev t ++ cur) s.
  Proof.
    revert cur; induction t as [|ch t IH]; intros cur H; cbn; [reflexivity|].
    cbn in H. apply andb_true_iff in H as [Hc Ht]. apply negb_true_iff in Hc. rewrite Hc.
    rewrite IH by exact Ht. rewrite <- app_assoc. reflexivity.
  Qed.

  Lemma split_join_aux texts :
    Forall clean texts ->
    forall t, clean t -> split_ws_aux ws [] (join [32] (t :: texts)) = t :: texts.
  Proof.
    induction texts as [|t2 texts IH]; intros HF t [Hne Hc].
    - cbn [join]. rewrite <- (app_nil_r t) at 1. rewrite split_aux_word by exact Hc. cbn.
      rewrite app_nil_r. destruct (rev t) eqn:E.
      + apply (f_equal (@rev N)) in E. rewrite rev_involutive in E. cbn in E. congruence.
      + rewrite <- E, rev_involutive. reflexivity.
    - inversion HF as [|? ? H2 HF']; subst.
      change (join [32] (t :: t2 :: texts)) with (t ++ [32] ++ join [32] (t2 :: texts)).
      rewrite split_aux_word by exact Hc. cbn [app]. cbn [split_ws_aux]. rewrite ws_space.
      rewrite app_nil_r. destruct (rev t) eqn:E.
      + apply (f_equal (@rev N)) in E. rewrite rev_involutive in E. cbn in E. congruence.
      + rewrite <- E, rev_involutive. f_equal. apply IH; assumption.
  Qed.

  Lemma split_join texts : Forall clean texts -> split_ws ws (join [32] texts) = texts.
  Proof.
    intros HF. destruct texts as [|t texts]; [reflexivity|].
    inversion HF; subst. apply split_join_aux; assumption.
  Qed.
End Split.
