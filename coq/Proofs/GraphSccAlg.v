(* Proofs/GraphSccAlg.v — correctness of the path-based strongly-connected-components
   algorithm of xsdata/utils/graphs.py (model: Model.Graph.dfs / scc_loop / scc_run):
   whenever it returns, the components it yields are exactly the mutual-reachability
   classes, emitted in reverse topological order.  Hence (GraphScc.scc_spec_unique) the
   result, as a set of sets, does not depend on the iteration order of set(edges) nor on
   the order of the adjacency lists. *)
From Coq Require Import NArith List Bool Arith Lia Permutation Sorted.
From XV Require Import Base.Str Spec.GraphSpec Model.Graph Proofs.GraphBase Proofs.GraphScc.
Import ListNotations.

Section Alg.
  Context {A : Type}.
  Variable eqb : A -> A -> bool.
  Hypothesis eqb_eq : forall x y, eqb x y = true <-> x = y.
  Variable E : @dict A.

  Notation R := (edge eqb E).
  Notation reachE := (reach (edge eqb E)).
  Let memb_In := memb_In eqb eqb_eq.
  Let memb_false := memb_false eqb eqb_eq.

  Definition ipos (st : @scc_state A) (x : A) : option nat := idx_get eqb (st_index st) x.

  (* start of the segment (between two boundaries) that holds stack position p *)
  Fixpoint seg_start (bounds : list nat) (p : nat) : nat :=
    match bounds with
    | [] => 0
    | b :: r => if b <=? p then b else seg_start r p
    end.

  Definition desc (l : list nat) : Prop := StronglySorted gt l.

  Lemma seg_start_le bounds p : seg_start bounds p <= p.
  Proof. induction bounds as [|b r IH]; cbn; [lia|]. destruct (Nat.leb_spec b p); [lia | exact IH]. Qed.

  Lemma seg_start_In bounds p : seg_start bounds p = 0 \/ In (seg_start bounds p) bounds.
  Proof.
    induction bounds as [|b r IH]; cbn; [left; reflexivity|].
    destruct (Nat.leb_spec b p); [right; left; reflexivity | destruct IH; [left | right; right]; assumption].
  Qed.

  Lemma seg_start_app_skip pre rest p :
    (forall b, In b pre -> p < b) -> seg_start (pre ++ rest) p = seg_start rest p.
  Proof.
    induction pre as [|b pre IH]; cbn; intros H; [reflexivity|].
    assert (p < b) by (apply H; left; reflexivity).
    destruct (Nat.leb_spec b p); [lia|]. apply IH. intros b' Hb'. apply H. right. exact Hb'.
  Qed.

  Lemma desc_app_r pre rest : desc (pre ++ rest) -> desc rest.
  Proof. induction pre as [|b pre IH]; cbn; intros H; [exact H|]. inversion H; subst. apply IH. assumption. Qed.

  Lemma desc_app_gt pre rest : desc (pre ++ rest) -> forall a b, In a pre -> In b rest -> a > b.
  Proof.
    induction pre as [|c pre IH]; cbn; intros H a b Ha Hb; [contradiction|].
    inversion H as [|? ? Hs Hf]; subst. destruct Ha as [->|Ha].
    - rewrite Forall_forall in Hf. apply Hf. apply in_or_app. right. exact Hb.
    - apply (IH Hs a b Ha Hb).
  Qed.

  (* a suffix of the boundaries can only move segment starts down *)
  Lemma seg_start_suffix pre rest p : desc (pre ++ rest) -> seg_start rest p <= seg_start (pre ++ rest) p.
  Proof.
    induction pre as [|b pre IH]; cbn; intros H; [lia|].
    inversion H as [|? ? Hs Hf]; subst.
    destruct (Nat.leb_spec b p); [|apply IH; exact Hs].
    destruct (seg_start_In rest p) as [Hz|Hin]; [lia|].
    rewrite Forall_forall in Hf. assert (b > seg_start rest p) by (apply Hf; apply in_or_app; right; exact Hin). lia.
  Qed.

  Lemma seg_start_head t r p : t <= p -> seg_start (t :: r) p = t.
  Proof. intros H. cbn. destruct (Nat.leb_spec t p); [reflexivity | lia]. Qed.

  Lemma seg_start_below t r p : p < t -> seg_start (t :: r) p = seg_start r p.
  Proof. intros H. cbn. destruct (Nat.leb_spec t p); [lia | reflexivity]. Qed.

  Lemma pop_while_char iw bounds b' :
    pop_while iw bounds = Ok b' ->
    exists pre t r, bounds = pre ++ t :: r /\ b' = t :: r /\ (forall b, In b pre -> iw < b) /\ t <= iw.
  Proof.
    revert b'. induction bounds as [|t r IH]; intros b' H; [discriminate|].
    cbn [pop_while] in H. destruct (Nat.ltb_spec iw t) as [Hlt|Hge].
    - destruct (IH _ H) as [pre [t' [r' [E1 [E2 [Hp Ht]]]]]].
      exists (t :: pre), t', r'. split; [cbn; rewrite E1; reflexivity|]. split; [exact E2|]. split; [|exact Ht].
      intros b [<-|Hb]; [exact Hlt | apply Hp; exact Hb].
    - inversion H; subst. exists [], t, r. repeat split; [intros b [] | exact Hge].
  Qed.

  Lemma idx_get_cons ix v i x :
    idx_get eqb ((v, i) :: ix) x = if eqb x v then Some i else idx_get eqb ix x.
  Proof. reflexivity. Qed.

  Lemma get_Some_key (d : @dict A) k v : get eqb d k = Some v -> In k (keys d).
  Proof.
    induction d as [|[k0 v0] d IH]; cbn; [discriminate|].
    destruct (eqb k k0) eqn:Ek; [intros _; left; symmetry; apply eqb_eq; exact Ek | intros H; right; apply IH; exact H].
  Qed.

  (* ------------------------------------------------------------------ invariants *)
  Definition onstack (st : @scc_state A) (x : A) : Prop := In x (st_stack st).

  Record Inv (st : @scc_state A) : Prop := {
    v_nodup : NoDup (st_stack st);
    v_pos : forall above x below, st_stack st = above ++ x :: below -> ipos st x = Some (length below);
    v_indexed : forall x, (exists i, ipos st x = Some i) <-> (In x (st_stack st) \/ In x (st_ident st));
    v_disj : forall x, In x (st_stack st) -> ~ In x (st_ident st);
    v_desc : desc (st_bounds st);
    v_lt : forall b, In b (st_bounds st) -> b < length (st_stack st);
    v_zero : st_stack st <> [] -> In 0 (st_bounds st);
    (* every stack vertex reaches every stack vertex at or above the start of its own segment *)
    v_reach : forall x y p q, onstack st x -> onstack st y -> ipos st x = Some p -> ipos st y = Some q ->
               seg_start (st_bounds st) p <= q -> reachE x y;
    v_closed : forall x w, In x (st_ident st) -> R x w -> In w (st_ident st);
    v_keys : forall x, In x (st_ident st) \/ In x (st_stack st) -> In x (keys E);
    v_out : st_ident st = concat (st_out st);
    v_nodup_id : NoDup (st_ident st);
    v_comp : forall c, In c (st_out st) -> c <> [] /\ forall x y, In x c -> In y c -> reachE x y;
    (* reverse topological order: edges out of a component end in it or in an older one *)
    v_order : forall pre c post, st_out st = pre ++ c :: post ->
               forall x w, In x c -> R x w -> In w (c ++ concat post)
  }.

  (* all edges of x lead to identified vertices or to stack vertices at/above the start of x's segment *)
  Definition complete (st : @scc_state A) (x : A) : Prop :=
    forall w, R x w ->
      In w (st_ident st) \/
      (onstack st w /\ exists p q, ipos st x = Some p /\ ipos st w = Some q /\ seg_start (st_bounds st) p <= q).

  (* st' extends st *)
  Record ext (st st' : @scc_state A) : Prop := {
    e_stack : exists new, st_stack st' = new ++ st_stack st;
    e_pos : forall x i, ipos st x = Some i -> ipos st' x = Some i;
    e_ident : forall x, In x (st_ident st) -> In x (st_ident st');
    e_bounds : exists pre, st_bounds st = pre ++ st_bounds st'
  }.

  Lemma ext_refl st : ext st st.
  Proof. split; [exists []; reflexivity | auto | auto | exists []; reflexivity]. Qed.

  Lemma ext_trans a b c : ext a b -> ext b c -> ext a c.
  Proof.
    intros [[n1 H1] H2 H3 [p1 H4]] [[n2 G1] G2 G3 [p2 G4]]. split.
    - exists (n2 ++ n1). rewrite G1, H1, app_assoc. reflexivity.
    - intros x i Hx. apply G2. apply H2. exact Hx.
    - intros x Hx. apply G3. apply H3. exact Hx.
    - exists (p1 ++ p2). rewrite H4, G4, app_assoc. reflexivity.
  Qed.

  Lemma complete_ext st st' x :
    Inv st -> ext st st' -> onstack st x -> complete st x -> complete st' x.
  Proof.
    intros HI [[new Hs] Hp Hi [pre Hb]] Hx Hc w Hw.
    destruct (Hc w Hw) as [Hid | [Hon [p [q [Hpx [Hpw Hle]]]]]].
    - left. apply Hi. exact Hid.
    - right. split; [unfold onstack; rewrite Hs; apply in_or_app; right; exact Hon|].
      exists p, q. split; [apply Hp; exact Hpx|]. split; [apply Hp; exact Hpw|].
      assert (Hd := v_desc st HI). rewrite Hb in Hd, Hle.
      assert (H := seg_start_suffix pre (st_bounds st') p Hd). lia.
  Qed.

  (* ------------------------------------------------------------------ positions *)
  Lemma pos_exists st x : Inv st -> onstack st x -> exists p, ipos st x = Some p /\ p < length (st_stack st).
  Proof.
    intros HI Hx. destruct (in_split _ _ Hx) as [above [below Hs]].
    exists (length below). split; [apply (v_pos st HI above x below Hs)|].
    rewrite Hs, app_length. cbn. lia.
  Qed.

  Lemma pos_old st new old x p :
    Inv st -> st_stack st = new ++ old -> In x old -> ipos st x = Some p -> p < length old.
  Proof.
    intros HI Hs Hx Hp. destruct (in_split _ _ Hx) as [a [b Ho]].
    assert (H := v_pos st HI (new ++ a) x b). rewrite Hs, Ho, <- app_assoc in H. specialize (H eq_refl).
    rewrite H in Hp. inversion Hp; subst. rewrite app_length. cbn. lia.
  Qed.

  Lemma pos_new st new old x p :
    Inv st -> st_stack st = new ++ old -> In x new -> ipos st x = Some p -> length old <= p.
  Proof.
    intros HI Hs Hx Hp. destruct (in_split _ _ Hx) as [a [b Hn]].
    assert (H := v_pos st HI a x (b ++ old)). rewrite Hs, Hn, <- app_assoc in H. specialize (H eq_refl).
    rewrite H in Hp. inversion Hp; subst. rewrite app_length. lia.
  Qed.

  Lemma pos_ge_new st new old x p :
    Inv st -> st_stack st = new ++ old -> onstack st x -> ipos st x = Some p -> length old <= p -> In x new.
  Proof.
    intros HI Hs Hx Hp Hle. unfold onstack in Hx. rewrite Hs in Hx. apply in_app_or in Hx.
    destruct Hx as [Hx|Hx]; [exact Hx|]. assert (H := pos_old st new old x p HI Hs Hx Hp). lia.
  Qed.

  Lemma not_indexed_not_on st v : Inv st -> ipos st v = None -> ~ In v (st_stack st) /\ ~ In v (st_ident st).
  Proof.
    intros HI Hn. split; intros H.
    - destruct (proj2 (v_indexed st HI v) (or_introl H)) as [i Hi]. congruence.
    - destruct (proj2 (v_indexed st HI v) (or_intror H)) as [i Hi]. congruence.
  Qed.

  Lemma desc_head_max t r b : desc (t :: r) -> In b r -> b < t.
  Proof. intros H Hb. inversion H as [|? ? _ Hf]; subst. rewrite Forall_forall in Hf. apply Hf in Hb. lia. Qed.

  (* ------------------------------------------------------------------ push *)
  Lemma ipos_push st v x :
    ipos (push v st) x = if eqb x v then Some (length (st_stack st)) else ipos st x.
  Proof. reflexivity. Qed.

  Lemma push_inv st v :
    Inv st -> ipos st v = None -> In v (keys E) -> (forall x, onstack st x -> reachE x v) -> Inv (push v st).
  Proof.
    intros HI Hn Hk Hpre. destruct (not_indexed_not_on st v HI Hn) as [Hns Hni].
    set (iv := length (st_stack st)).
    assert (Hne : forall x, In x (st_stack st) -> eqb x v = false).
    { intros x Hx. apply (eqb_neq eqb eqb_eq). intros ->. contradiction. }
    split; cbn [push st_stack st_ident st_bounds st_out st_index].
    - constructor; [exact Hns | apply (v_nodup st HI)].
    - intros above x below Hs. rewrite ipos_push. destruct above as [|a above]; cbn in Hs; inversion Hs; subst.
      + rewrite (eqb_refl eqb eqb_eq). reflexivity.
      + rewrite Hne by (rewrite H1; apply in_or_app; right; left; reflexivity). apply (v_pos st HI above x below). exact H1.
    - intros x. rewrite ipos_push. destruct (eqb x v) eqn:Ex.
      + apply eqb_eq in Ex. subst. split; [intros _; left; left; reflexivity | intros _; eexists; reflexivity].
      + rewrite (v_indexed st HI x). apply (eqb_neq eqb eqb_eq) in Ex. cbn. split; [tauto|]. intros [[->|H]|H]; [contradiction | tauto | tauto].
    - intros x [<-|Hx]; [exact Hni | apply (v_disj st HI); exact Hx].
    - constructor; [apply (v_desc st HI)|]. rewrite Forall_forall. intros b Hb. apply (v_lt st HI) in Hb. unfold iv. lia.
    - intros b [<-|Hb]; cbn; [lia | apply (v_lt st HI) in Hb; lia].
    - intros _. destruct (st_stack st) as [|y s] eqn:Es.
      + left. reflexivity.
      + right. apply (v_zero st HI). rewrite Es. discriminate.
    - intros x y p q Hx Hy. unfold onstack in Hx, Hy. cbn [push st_stack] in Hx, Hy. rewrite !ipos_push.
      destruct Hx as [<-|Hx], Hy as [<-|Hy].
      + intros _ _ _. constructor.
      + rewrite (eqb_refl eqb eqb_eq), (Hne y Hy). intros Hp Hq Hle. inversion Hp; subst p.
        fold iv in Hle. rewrite seg_start_head in Hle by lia.
        destruct (pos_exists st y HI Hy) as [q' [Hq' Hlt]]. rewrite Hq in Hq'. inversion Hq'; subst. fold iv in Hlt. lia.
      + intros _ _ _. apply Hpre. exact Hx.
      + rewrite (Hne x Hx), (Hne y Hy). intros Hp Hq Hle.
        destruct (pos_exists st x HI Hx) as [p' [Hp' Hlt]]. rewrite Hp in Hp'. inversion Hp'; subst p'. fold iv in Hlt.
        rewrite seg_start_below in Hle by (fold iv; lia).
        apply (v_reach st HI x y p q); assumption.
    - apply (v_closed st HI).
    - intros x [Hx|[<-|Hx]]; [apply (v_keys st HI); left; exact Hx | exact Hk | apply (v_keys st HI); right; exact Hx].
    - apply (v_out st HI).
    - apply (v_nodup_id st HI).
    - apply (v_comp st HI).
    - apply (v_order st HI).
  Qed.

  (* ------------------------------------------------------------------ the current vertex *)
  (* v is on the stack at position |stack0| and everything above it is in its segment *)
  Definition cur (st : @scc_state A) (v : A) (stack0 new : list A) : Prop :=
    st_stack st = new ++ v :: stack0 /\ exists t br, st_bounds st = t :: br /\ t <= length stack0.

  Lemma cur_pos st v stack0 new : Inv st -> cur st v stack0 new -> ipos st v = Some (length stack0).
  Proof. intros HI [Hs _]. apply (v_pos st HI new v stack0 Hs). Qed.

  Lemma cur_seg st v stack0 new p :
    Inv st -> cur st v stack0 new -> seg_start (st_bounds st) p <= length stack0 \/ p < length stack0.
  Proof.
    intros HI [_ [t [br [Hb Ht]]]]. rewrite Hb.
    destruct (Nat.le_gt_cases t p); [left; rewrite seg_start_head by assumption; exact Ht | right; lia].
  Qed.

  Lemma reach_to_cur st v stack0 new x : Inv st -> cur st v stack0 new -> onstack st x -> reachE x v.
  Proof.
    intros HI Hc Hx. destruct (pos_exists st x HI Hx) as [p [Hp _]].
    assert (Hv := cur_pos st v stack0 new HI Hc).
    apply (v_reach st HI x v p (length stack0)); try assumption.
    - destruct Hc as [Hs _]. unfold onstack. rewrite Hs. apply in_or_app. right. left. reflexivity.
    - destruct (cur_seg st v stack0 new p HI Hc) as [H|H]; [exact H|]. assert (H' := seg_start_le (st_bounds st) p). lia.
  Qed.

  (* ------------------------------------------------------------------ merge (back edge) *)
  Lemma ipos_set_bounds st b x : ipos (set_bounds st b) x = ipos st x.
  Proof. reflexivity. Qed.

  Lemma merge_inv st v stack0 new w iw b' :
    Inv st -> cur st v stack0 new -> R v w -> onstack st w -> ipos st w = Some iw ->
    pop_while iw (st_bounds st) = Ok b' ->
    Inv (set_bounds st b') /\ ext st (set_bounds st b') /\ cur (set_bounds st b') v stack0 new /\
    (exists t r, b' = t :: r /\ t <= iw).
  Proof.
    intros HI Hc Hvw Hw Hiw Hpw.
    destruct (pop_while_char iw _ _ Hpw) as [pre [t [r [Eb [Eb' [Hpre Ht]]]]]].
    assert (Hd := v_desc st HI). rewrite Eb in Hd.
    assert (Hseg_w : seg_start (st_bounds st) iw = t).
    { rewrite Eb, seg_start_app_skip by exact Hpre. apply seg_start_head. exact Ht. }
    assert (Hcur' : cur (set_bounds st b') v stack0 new).
    { destruct Hc as [Hs [t0 [br0 [Hb0 Ht0]]]]. split; [exact Hs|]. exists t, r. split; [exact Eb'|].
      rewrite Hb0 in Eb. destruct pre as [|a pre']; cbn in Eb; injection Eb as E1 E2; [lia|].
      assert (a > t) by (apply (desc_app_gt (a :: pre') (t :: r) Hd); [left | left]; reflexivity). lia. }
    split; [|split; [|split]].
    - split; cbn [set_bounds st_stack st_ident st_bounds st_out st_index];
        try (first [apply (v_nodup st HI) | apply (v_pos st HI) | apply (v_indexed st HI) | apply (v_disj st HI)
                   | apply (v_closed st HI) | apply (v_keys st HI) | apply (v_out st HI) | apply (v_nodup_id st HI)
                   | apply (v_comp st HI) | apply (v_order st HI)]).
      + rewrite Eb'. apply (desc_app_r pre). exact Hd.
      + intros b Hb. apply (v_lt st HI). rewrite Eb, <- Eb'. apply in_or_app. right. exact Hb.
      + intros Hne. assert (H0 := v_zero st HI Hne). rewrite Eb in H0. apply in_app_or in H0.
        destruct H0 as [H0|H0]; [apply Hpre in H0; lia | rewrite Eb'; exact H0].
      + intros x y p q Hx Hy Hp Hq Hle. unfold onstack in Hx, Hy. cbn in Hx, Hy.
        rewrite ipos_set_bounds in Hp, Hq. rewrite Eb' in Hle.
        destruct (Nat.le_gt_cases t p) as [Htp|Htp].
        * rewrite seg_start_head in Hle by exact Htp.
          (* x ->* v -> w ->* y *)
          apply (reach_trans _ x v y); [apply (reach_to_cur st v stack0 new x HI Hc Hx)|].
          apply (reach_step _ v w y Hvw).
          apply (v_reach st HI w y iw q); try assumption. rewrite Hseg_w. exact Hle.
        * rewrite seg_start_below in Hle by exact Htp.
          apply (v_reach st HI x y p q); try assumption.
          rewrite Eb. rewrite seg_start_app_skip.
          -- rewrite seg_start_below by exact Htp. exact Hle.
          -- intros b Hb. assert (b > t) by (apply (desc_app_gt pre (t :: r) Hd); [exact Hb | left; reflexivity]). lia.
    - split; cbn [set_bounds st_stack st_ident st_bounds]; [exists []; reflexivity | auto | auto | exists pre; rewrite Eb, Eb'; reflexivity].
    - exact Hcur'.
    - exists t, r. split; [exact Eb' | exact Ht].
  Qed.

  (* what is known about an already processed edge v -> w of the current vertex *)
  Definition edge_done (st : @scc_state A) (iv : nat) (w : A) : Prop :=
    In w (st_ident st) \/ (onstack st w /\ exists q, ipos st w = Some q /\ seg_start (st_bounds st) iv <= q).

  Lemma edge_done_ext st st' iv w : Inv st -> ext st st' -> edge_done st iv w -> edge_done st' iv w.
  Proof.
    intros HI [[new Hs] Hp Hi [pre Hb]] [Hid | [Hon [q [Hq Hle]]]].
    - left. apply Hi. exact Hid.
    - right. split; [unfold onstack; rewrite Hs; apply in_or_app; right; exact Hon|].
      exists q. split; [apply Hp; exact Hq|].
      assert (Hd := v_desc st HI). rewrite Hb in Hd, Hle.
      assert (H := seg_start_suffix pre (st_bounds st') iv Hd). lia.
  Qed.

  (* ------------------------------------------------------------------ the loop over edges[v] *)
  Definition rec_spec (rec : A -> @scc_state A -> result (@scc_state A)) : Prop :=
    forall w st st',
      Inv st -> ipos st w = None -> (forall x, onstack st x -> reachE x w) -> rec w st = Ok st' ->
      Inv st' /\ ext st st' /\ (exists i, ipos st' w = Some i) /\
      (forall x, onstack st' x -> ~ onstack st x -> complete st' x).

  Lemma cur_ext st st' v stack0 new n' :
    Inv st -> Inv st' -> cur st v stack0 new -> ext st st' -> st_stack st' = n' ++ st_stack st ->
    cur st' v stack0 (n' ++ new).
  Proof.
    intros HI HI' [Hs [t [br [Hb Ht]]]] [_ _ _ [pre Hpre]] Hs'. split.
    - rewrite Hs', Hs, app_assoc. reflexivity.
    - assert (Hne : st_stack st' <> []).
      { rewrite Hs', Hs. intros H. apply app_eq_nil in H. destruct H as [_ H]. apply app_eq_nil in H. destruct H; discriminate. }
      assert (H0 := v_zero st' HI' Hne).
      destruct (st_bounds st') as [|t' br'] eqn:Eb'; [contradiction|].
      exists t', br'. split; [reflexivity|].
      assert (Hd := v_desc st HI). rewrite Hpre in Hd, Hb.
      destruct pre as [|a pre']; cbn in Hb; injection Hb as E1 E2; [lia|].
      assert (a > t') by (apply (desc_app_gt (a :: pre') (t' :: br') Hd); left; reflexivity). lia.
  Qed.

  Section VisitSpec.
    Variable rec : A -> @scc_state A -> result (@scc_state A).
    Hypothesis Hrec : rec_spec rec.

    Lemma visit_spec : forall ws st st2 v stack0 new,
      Inv st -> cur st v stack0 new -> (forall x, In x new -> complete st x) -> (forall w, In w ws -> R v w) ->
      visit eqb rec ws st = Ok st2 ->
      Inv st2 /\ ext st st2 /\
      (exists new2, cur st2 v stack0 new2 /\ forall x, In x new2 -> complete st2 x) /\
      (forall w, In w ws -> edge_done st2 (length stack0) w).
    Proof.
      induction ws as [|w r IH]; intros st st2 v stack0 new HI Hc Hnew Hedges Hv.
      - cbn in Hv. inversion Hv; subst. split; [exact HI|]. split; [apply ext_refl|]. split; [exists new; split; assumption|]. intros w [].
      - cbn [visit] in Hv.
        assert (Hvw : R v w) by (apply Hedges; left; reflexivity).
        assert (Hedges' : forall w', In w' r -> R v w') by (intros w' Hw'; apply Hedges; right; exact Hw').
        change (idx_get eqb (st_index st) w) with (ipos st w) in Hv.
        destruct (ipos st w) as [iw|] eqn:Ei.
        + destruct (memb eqb w (st_ident st)) eqn:Em.
          * destruct (IH st st2 v stack0 new HI Hc Hnew Hedges' Hv) as [HI2 [He2 [Hn2 Hd2]]].
            split; [exact HI2|]. split; [exact He2|]. split; [exact Hn2|].
            intros w' [<-|Hw']; [|apply Hd2; exact Hw'].
            apply (edge_done_ext st st2 _ _ HI He2). left. apply memb_In. exact Em.
          * destruct (pop_while iw (st_bounds st)) as [b'| |] eqn:Ep; try discriminate.
            assert (Hon : onstack st w).
            { destruct (proj1 (v_indexed st HI w) (ex_intro _ iw Ei)) as [H|H]; [exact H|].
              apply memb_In in H. congruence. }
            destruct (merge_inv st v stack0 new w iw b' HI Hc Hvw Hon Ei Ep) as [HIm [Hem [Hcm [t [r' [Eb' Ht]]]]]].
            assert (Hnewm : forall x, In x new -> complete (set_bounds st b') x).
            { intros x Hx. apply (complete_ext st); try assumption; [|apply Hnew; exact Hx].
              destruct Hc as [Hs _]. unfold onstack. rewrite Hs. apply in_or_app. left. exact Hx. }
            destruct (IH _ st2 v stack0 new HIm Hcm Hnewm Hedges' Hv) as [HI2 [He2 [Hn2 Hd2]]].
            split; [exact HI2|]. split; [apply (ext_trans _ _ _ Hem He2)|]. split; [exact Hn2|].
            intros w' [<-|Hw']; [|apply Hd2; exact Hw'].
            apply (edge_done_ext _ st2 _ _ HIm He2). right. split; [exact Hon|].
            exists iw. split; [exact Ei|]. cbn [set_bounds st_bounds]. rewrite Eb'.
            destruct Hcm as [_ [t2 [br2 [Hb2 Ht2]]]]. cbn [set_bounds st_bounds] in Hb2. rewrite Eb' in Hb2. injection Hb2 as E1 E2. subst t2.
            rewrite seg_start_head by exact Ht2. exact Ht.
        + destruct (rec w st) as [st'| |] eqn:Er; try discriminate.
          assert (Hpre : forall x, onstack st x -> reachE x w).
          { intros x Hx. apply (reach_trans _ x v w); [apply (reach_to_cur st v stack0 new x HI Hc Hx)|].
            apply (reach_step _ v w w Hvw). constructor. }
          destruct (Hrec w st st' HI Ei Hpre Er) as [HI' [He' [[i Hi] Hcmp']]].
          assert (He'' := He'). destruct He'' as [[n' Hs'] _ _ _].
          assert (Hc' := cur_ext st st' v stack0 new n' HI HI' Hc He' Hs').
          assert (Hdisj : forall x, In x n' -> ~ onstack st x).
          { intros x Hx Hon. assert (Hnd := v_nodup st' HI'). rewrite Hs' in Hnd.
            apply (NoDup_app_disjoint n' (st_stack st) x Hnd Hx Hon). }
          assert (Hnew' : forall x, In x (n' ++ new) -> complete st' x).
          { intros x Hx. apply in_app_or in Hx. destruct Hx as [Hx|Hx].
            - apply Hcmp'; [unfold onstack; rewrite Hs'; apply in_or_app; left; exact Hx | apply Hdisj; exact Hx].
            - apply (complete_ext st); try assumption; [|apply Hnew; exact Hx].
              destruct Hc as [Hs _]. unfold onstack. rewrite Hs. apply in_or_app. left. exact Hx. }
          destruct (IH st' st2 v stack0 (n' ++ new) HI' Hc' Hnew' Hedges' Hv) as [HI2 [He2 [Hn2 Hd2]]].
          split; [exact HI2|]. split; [apply (ext_trans _ _ _ He' He2)|]. split; [exact Hn2|].
          intros w' [<-|Hw']; [|apply Hd2; exact Hw'].
          apply (edge_done_ext st' st2 _ _ HI' He2).
          destruct (proj1 (v_indexed st' HI' w) (ex_intro _ i Hi)) as [Hst|Hid]; [|left; exact Hid].
          right. split; [exact Hst|]. exists i. split; [exact Hi|].
          assert (Hwn : In w n').
          { unfold onstack in Hst. rewrite Hs' in Hst. apply in_app_or in Hst. destruct Hst as [H|H]; [exact H|].
            exfalso. apply (proj1 (not_indexed_not_on st w HI Ei)). exact H. }
          assert (Hge := pos_new st' n' (st_stack st) w i HI' Hs' Hwn Hi).
          destruct Hc as [Hs _]. rewrite Hs, app_length in Hge. cbn in Hge.
          assert (Hle := seg_start_le (st_bounds st') (length stack0)). lia.
    Qed.
  End VisitSpec.

  (* ------------------------------------------------------------------ dfs *)
  Lemma nodup_app_l (a b : list A) : NoDup (a ++ b) -> NoDup a.
  Proof.
    induction a as [|x a IH]; cbn; intros H; [constructor|]. inversion H; subst.
    constructor; [intros Hx; apply H2; apply in_or_app; left; exact Hx | apply IH; assumption].
  Qed.

  Lemma nodup_app_intro (a b : list A) : NoDup a -> NoDup b -> (forall x, In x a -> ~ In x b) -> NoDup (a ++ b).
  Proof.
    induction a as [|y a IH]; cbn; intros Ha Hb Hd; [exact Hb|].
    inversion Ha; subst. constructor.
    - intros Hy. apply in_app_or in Hy. destruct Hy as [Hy|Hy]; [contradiction|]. apply (Hd y); [left; reflexivity|exact Hy].
    - apply IH; try assumption. intros x Hx. apply Hd. right. exact Hx.
  Qed.

  Lemma firstn_skipn_exact (a b : list A) : firstn (length (a ++ b) - length b) (a ++ b) = a /\ skipn (length (a ++ b) - length b) (a ++ b) = b.
  Proof.
    rewrite app_length. replace (length a + length b - length b) with (length a) by lia.
    split.
    - rewrite firstn_app, Nat.sub_diag, firstn_all. cbn. apply app_nil_r.
    - rewrite skipn_app, Nat.sub_diag, skipn_all. reflexivity.
  Qed.

  Lemma dfs_spec : forall f, rec_spec (dfs eqb f E).
  Proof.
    induction f as [|f IH]; intros v st st' HI Hn Hpre Hd; [cbn in Hd; discriminate|].
    cbn [dfs] in Hd.
    destruct (get eqb E v) as [ws|] eqn:Eg; [|discriminate].
    destruct (visit eqb (dfs eqb f E) ws (push v st)) as [st2| |] eqn:Ev; try discriminate.
    assert (Hk : In v (keys E)) by (apply (get_Some_key E v ws Eg)).
    assert (HI1 := push_inv st v HI Hn Hk Hpre).
    set (S0 := st_stack st) in *. set (iv := length S0) in *.
    assert (Hc1 : cur (push v st) v S0 []).
    { split; [reflexivity|]. exists iv, (st_bounds st). split; [reflexivity | lia]. }
    assert (Hedges : forall w, In w ws <-> R v w).
    { intros w. unfold edge, get_or_nil. rewrite Eg. tauto. }
    destruct (visit_spec (dfs eqb f E) IH ws (push v st) st2 v S0 [] HI1 Hc1
                (fun x (H : In x []) => match H with end) (fun w Hw => proj1 (Hedges w) Hw) Ev)
      as [HI2 [He2 [[new2 [Hc2 Hcmp2]] Hdone]]].
    assert (Hv2 := cur_pos st2 v S0 new2 HI2 Hc2).
    destruct Hc2 as [Hs2 [t [br [Hb2 Ht]]]]. fold iv in Ht, Hv2.
    (* v itself is complete after the loop *)
    assert (Hvc : complete st2 v).
    { intros w Hw. destruct (Hdone w (proj2 (Hedges w) Hw)) as [Hid|[Hon [q [Hq Hle]]]]; [left; exact Hid|].
      right. split; [exact Hon|]. exists iv, q. repeat split; assumption. }
    set (scc := new2 ++ [v]).
    assert (Hs2' : st_stack st2 = scc ++ S0) by (unfold scc; rewrite <- app_assoc; exact Hs2).
    assert (Hscc_c : forall x, In x scc -> complete st2 x).
    { intros x Hx. apply in_app_or in Hx. destruct Hx as [Hx|[<-|[]]]; [apply Hcmp2; exact Hx | exact Hvc]. }
    (* positions of old entries survive *)
    assert (Hpos : forall x i, ipos st x = Some i -> ipos st2 x = Some i).
    { intros x i Hx. apply (e_pos _ _ He2). rewrite ipos_push.
      destruct (eqb x v) eqn:Ex; [apply eqb_eq in Ex; subst; congruence | exact Hx]. }
    assert (Hid : forall x, In x (st_ident st) -> In x (st_ident st2)) by (intros x Hx; apply (e_ident _ _ He2); exact Hx).
    destruct (e_bounds _ _ He2) as [pre Hpre2]. cbn [push st_bounds] in Hpre2. rewrite Hb2 in Hpre2. fold S0 in Hpre2. fold iv in Hpre2.
    assert (Hd1 := v_desc _ HI1). cbn [push st_bounds] in Hd1. fold S0 in Hd1. fold iv in Hd1.
    unfold finish in Hd. rewrite Hb2 in Hd. fold S0 in Hd. fold iv in Hd.
    destruct (Nat.eqb_spec t iv) as [Eti|Nti].
    - (* the component is popped *)
      subst t.
      assert (Hbr : br = st_bounds st).
      { destruct pre as [|a pre']; cbn in Hpre2; [congruence|]. injection Hpre2 as E1 E2.
        exfalso. assert (Hin : In iv (st_bounds st)) by (rewrite E2; apply in_or_app; right; left; reflexivity).
        apply (v_lt st HI) in Hin. fold S0 in Hin. fold iv in Hin. lia. }
      destruct (firstn_skipn_exact scc S0) as [Hf Hk']. rewrite <- Hs2' in Hf, Hk'. fold iv in Hf, Hk'.
      rewrite Hf, Hk' in Hd. inversion Hd; subst st'. clear Hd.
      assert (Hnd2 := v_nodup st2 HI2). rewrite Hs2' in Hnd2.
      assert (Hpge : forall x p, In x scc -> ipos st2 x = Some p -> iv <= p).
      { intros x p Hx Hp. apply (pos_new st2 scc S0 x p HI2 Hs2' Hx Hp). }
      assert (Hplt : forall x p, In x S0 -> ipos st2 x = Some p -> p < iv).
      { intros x p Hx Hp. apply (pos_old st2 scc S0 x p HI2 Hs2' Hx Hp). }
      (* edges out of the popped segment stay in it or go to identified vertices *)
      assert (Hclo : forall x w, In x scc -> R x w -> In w (scc ++ st_ident st2)).
      { intros x w Hx Hw. destruct (Hscc_c x Hx w Hw) as [Hi|[Hon [p [q [Hp [Hq Hle]]]]]]; [apply in_or_app; right; exact Hi|].
        apply in_or_app. left. assert (Hge := Hpge x p Hx Hp). rewrite Hb2, seg_start_head in Hle by exact Hge.
        apply (pos_ge_new st2 scc S0 w q HI2 Hs2' Hon Hq Hle). }
      split; [|split; [|split]].
      + split; cbn [st_stack st_ident st_bounds st_out st_index].
        * apply (v_nodup st HI).
        * intros above x below Hs. unfold ipos. cbn [st_index].
          apply (v_pos st2 HI2 (scc ++ above) x below). rewrite Hs2', Hs, app_assoc. reflexivity.
        * intros x. unfold ipos. cbn [st_index]. fold (ipos st2 x). rewrite (v_indexed st2 HI2 x), Hs2', !in_app_iff. tauto.
        * intros x Hx Hin. apply in_app_or in Hin. destruct Hin as [Hin|Hin].
          -- apply (NoDup_app_disjoint scc S0 x Hnd2 Hin Hx).
          -- apply (v_disj st2 HI2 x); [rewrite Hs2'; apply in_or_app; right; exact Hx | exact Hin].
        * rewrite Hbr. apply (v_desc st HI).
        * rewrite Hbr. apply (v_lt st HI).
        * rewrite Hbr. apply (v_zero st HI).
        * intros x y p q Hx Hy Hp Hq Hle. unfold onstack in Hx, Hy. cbn [st_stack] in Hx, Hy.
          unfold ipos in Hp, Hq. cbn [st_index] in Hp, Hq. fold (ipos st2 x) in Hp. fold (ipos st2 y) in Hq.
          apply (v_reach st2 HI2 x y p q); try assumption.
          -- unfold onstack. rewrite Hs2'. apply in_or_app. right. exact Hx.
          -- unfold onstack. rewrite Hs2'. apply in_or_app. right. exact Hy.
          -- rewrite Hb2, seg_start_below by (apply (Hplt x p Hx Hp)). exact Hle.
        * intros x w Hx Hw. apply in_app_or in Hx. destruct Hx as [Hx|Hx]; [apply (Hclo x w Hx Hw)|].
          apply in_or_app. right. apply (v_closed st2 HI2 x w Hx Hw).
        * intros x Hx. apply (v_keys st2 HI2). rewrite Hs2'. rewrite !in_app_iff in *. tauto.
        * cbn. rewrite (v_out st2 HI2). reflexivity.
        * apply nodup_app_intro; [apply (nodup_app_l scc S0 Hnd2) | apply (v_nodup_id st2 HI2)|].
          intros x Hx. apply (v_disj st2 HI2). rewrite Hs2'. apply in_or_app. left. exact Hx.
        * intros c [<-|Hc]; [|apply (v_comp st2 HI2 c Hc)]. split.
          -- unfold scc. intros H. apply app_eq_nil in H. destruct H; discriminate.
          -- intros x y Hx Hy.
             assert (Hox : onstack st2 x) by (unfold onstack; rewrite Hs2'; apply in_or_app; left; exact Hx).
             assert (Hoy : onstack st2 y) by (unfold onstack; rewrite Hs2'; apply in_or_app; left; exact Hy).
             destruct (pos_exists st2 x HI2 Hox) as [p [Hp _]]. destruct (pos_exists st2 y HI2 Hoy) as [q [Hq _]].
             apply (v_reach st2 HI2 x y p q); try assumption.
             rewrite Hb2, seg_start_head by (apply (Hpge x p Hx Hp)). apply (Hpge y q Hy Hq).
        * intros pre0 c post Ho x w Hx Hw. destruct pre0 as [|c0 pre0']; cbn in Ho; injection Ho as E1 E2.
          -- subst c. subst post. rewrite <- (v_out st2 HI2). apply (Hclo x w Hx Hw).
          -- apply (v_order st2 HI2 pre0' c post E2 x w Hx Hw).
      + split; cbn [st_stack st_ident st_bounds st_index].
        * exists []. reflexivity.
        * intros x i Hx. unfold ipos. cbn [st_index]. apply Hpos. exact Hx.
        * intros x Hx. apply in_or_app. right. apply Hid. exact Hx.
        * exists []. cbn. symmetry. exact Hbr.
      + exists iv. unfold ipos. cbn [st_index]. exact Hv2.
      + intros x Hx Hnx. contradiction.
    - (* v stays on the stack, inside a lower segment *)
      inversion Hd; subst st'. clear Hd.
      assert (Hlt : t < iv) by lia.
      split; [exact HI2|]. split; [|split].
      + split.
        * exists scc. exact Hs2'.
        * exact Hpos.
        * exact Hid.
        * destruct pre as [|a pre']; cbn in Hpre2; injection Hpre2 as E1 E2; [lia|].
          exists pre'. rewrite Hb2. exact E2.
      + exists iv. exact Hv2.
      + intros x Hx Hnx. unfold onstack in Hx. rewrite Hs2' in Hx. apply in_app_or in Hx.
        destruct Hx as [Hx|Hx]; [apply Hscc_c; exact Hx | contradiction].
  Qed.

  (* ------------------------------------------------------------------ the outer loop *)
  Lemma inv_init : Inv (@st_init A).
  Proof.
    split; cbn.
    - constructor.
    - intros above x below H. destruct above; discriminate.
    - intros x. split; [intros [i H]; discriminate | intros [[]|[]]].
    - intros x [].
    - constructor.
    - intros b [].
    - intros H. exfalso. apply H. reflexivity.
    - intros x y p q [].
    - intros x w [].
    - intros x [[]|[]].
    - reflexivity.
    - constructor.
    - intros c [].
    - intros pre c post H. destruct pre; discriminate.
  Qed.

  Lemma scc_loop_spec fuel : forall vs st st',
    Inv st -> st_stack st = [] -> scc_loop eqb fuel E vs st = Ok st' ->
    Inv st' /\ st_stack st' = [] /\
    (forall x i, ipos st x = Some i -> exists j, ipos st' x = Some j) /\
    (forall v, In v vs -> exists j, ipos st' v = Some j).
  Proof.
    induction vs as [|v r IH]; intros st st' HI Hs Hl.
    - cbn in Hl. inversion Hl; subst. split; [exact HI|]. split; [exact Hs|]. split; [intros x i H; exists i; exact H | intros v []].
    - cbn [scc_loop] in Hl. change (idx_get eqb (st_index st) v) with (ipos st v) in Hl.
      destruct (ipos st v) as [i|] eqn:Ei.
      + destruct (IH st st' HI Hs Hl) as [HI' [Hs' [Hk Hv]]]. split; [exact HI'|]. split; [exact Hs'|]. split; [exact Hk|].
        intros v' [<-|Hv']; [apply (Hk v i Ei) | apply Hv; exact Hv'].
      + destruct (dfs eqb fuel E v st) as [st1| |] eqn:Ed; try discriminate.
        assert (Hpre : forall x, onstack st x -> reachE x v) by (intros x Hx; unfold onstack in Hx; rewrite Hs in Hx; contradiction).
        destruct (dfs_spec fuel v st st1 HI Ei Hpre Ed) as [HI1 [He1 [[j Hj] _]]].
        assert (Hs1 : st_stack st1 = []).
        { destruct (st_stack st1) as [|y s] eqn:Es1; [reflexivity|]. exfalso.
          assert (H0 : In 0 (st_bounds st1)) by (apply (v_zero st1 HI1); rewrite Es1; discriminate).
          destruct (e_bounds _ _ He1) as [pre Hp].
          assert (Hb : st_bounds st = []).
          { destruct (st_bounds st) as [|b bs] eqn:Eb; [reflexivity|]. exfalso.
            assert (Hlt := v_lt st HI b). rewrite Eb, Hs in Hlt. specialize (Hlt (or_introl eq_refl)). cbn in Hlt. lia. }
          rewrite Hb in Hp. symmetry in Hp. apply app_eq_nil in Hp. destruct Hp as [_ Hp]. rewrite Hp in H0. contradiction. }
        destruct (IH st1 st' HI1 Hs1 Hl) as [HI' [Hs' [Hk Hv]]]. split; [exact HI'|]. split; [exact Hs'|]. split.
        * intros x i Hx. apply (Hk x i). apply (e_pos _ _ He1). exact Hx.
        * intros v' [<-|Hv']; [apply (Hk v j Hj) | apply Hv; exact Hv'].
  Qed.

  (* ------------------------------------------------------------------ from the invariant to the specification *)
  Lemma in_concat_rev (l : list (list A)) x : In x (concat (rev l)) <-> In x (concat l).
  Proof.
    rewrite !in_concat. split; intros [c [Hc Hx]]; exists c; (split; [|exact Hx]); [apply in_rev; exact Hc | apply in_rev in Hc; exact Hc].
  Qed.

  Lemma concat_rev_perm (l : list (list A)) : Permutation (concat (rev l)) (concat l).
  Proof.
    induction l as [|a l IH]; cbn; [constructor|].
    rewrite concat_app. cbn. rewrite app_nil_r. rewrite IH. apply Permutation_app_comm.
  Qed.

  Lemma order_ok_of_prop : forall comps earlier,
    (forall pre c post, comps = pre ++ c :: post ->
       forall x w, In x c -> R x w -> In w c \/ In w (concat pre) \/ In w earlier) ->
    order_ok eqb E earlier comps = true.
  Proof.
    induction comps as [|c r IH]; intros earlier H; [reflexivity|]. cbn [order_ok]. apply andb_true_iff. split.
    - apply forallb_forall. intros x Hx. apply forallb_forall. intros w Hw. apply memb_In.
      destruct (H [] c r eq_refl x w Hx Hw) as [H1|[[]|H1]]; apply in_or_app; [left | right]; exact H1.
    - apply IH. intros pre c' post Hr x w Hx Hw.
      destruct (H (c :: pre) c' post) with (x := x) (w := w) as [H1|[H1|H1]]; try assumption.
      + cbn. rewrite Hr. reflexivity.
      + left. exact H1.
      + cbn in H1. apply in_app_or in H1. destruct H1 as [H1|H1]; [right; right; apply in_or_app; left; exact H1 | right; left; exact H1].
      + right. right. apply in_or_app. right. exact H1.
  Qed.

  Theorem scc_run_correct vorder out :
    (forall k, In k (keys E) -> In k vorder) ->
    scc_run eqb vorder E = Ok out ->
    scc_spec (isvertex E) (edge eqb E) out.
  Proof.
    intros Hcov Hrun. unfold scc_run in Hrun.
    destruct (scc_loop eqb (S (length E)) E vorder st_init) as [st| |] eqn:El; cbn in Hrun; try discriminate.
    inversion Hrun; subst out. clear Hrun.
    destruct (scc_loop_spec _ vorder st_init st inv_init eq_refl El) as [HI [Hs [_ Hall]]].
    assert (Hid : forall x, In x (st_ident st) <-> In x (concat (rev (st_out st)))).
    { intros x. rewrite in_concat_rev, <- (v_out st HI). tauto. }
    assert (Hord : order_ok eqb E [] (rev (st_out st)) = true).
    { apply order_ok_of_prop. intros pre c post Hr x w Hx Hw.
      assert (Ho : st_out st = rev post ++ c :: rev pre).
      { rewrite <- (rev_involutive (st_out st)), Hr, rev_app_distr. cbn. rewrite <- app_assoc. reflexivity. }
      assert (H := v_order st HI (rev post) c (rev pre) Ho x w Hx Hw). apply in_app_or in H.
      destruct H as [H|H]; [left; exact H | right; left; apply in_concat_rev; exact H]. }
    split; [|split; [|split]].
    - intros v. unfold isvertex. rewrite <- Hid. split.
      + intros Hk. destruct (Hall v (Hcov v Hk)) as [j Hj].
        destruct (proj1 (v_indexed st HI v) (ex_intro _ j Hj)) as [H|H]; [rewrite Hs in H; contradiction | exact H].
      + intros H. apply (v_keys st HI). left. exact H.
    - eapply Permutation_NoDup; [symmetry; apply concat_rev_perm|]. rewrite <- (v_out st HI). apply (v_nodup_id st HI).
    - intros c Hc. apply in_rev in Hc. apply (v_comp st HI c Hc).
    - intros u v Hu Hv. split.
      + intros [c [Hc [Huc Hvc]]]. apply in_rev in Hc. destruct (v_comp st HI c Hc) as [_ Hr]. split; apply Hr; assumption.
      + intros [Huv Hvu].
        assert (Hcu : In u (concat (rev (st_out st)))).
        { apply Hid. destruct (Hall u (Hcov u Hu)) as [j Hj].
          destruct (proj1 (v_indexed st HI u) (ex_intro _ j Hj)) as [H|H]; [rewrite Hs in H; contradiction | exact H]. }
        assert (Hcv : In v (concat (rev (st_out st)))).
        { apply Hid. destruct (Hall v (Hcov v Hv)) as [j Hj].
          destruct (proj1 (v_indexed st HI v) (ex_intro _ j Hj)) as [H|H]; [rewrite Hs in H; contradiction | exact H]. }
        destruct (order_ok_reach eqb eqb_eq E _ Hord u v Huv Hcu) as [H1 _].
        destruct (order_ok_reach eqb eqb_eq E _ Hord v u Hvu Hcv) as [H2 _].
        assert (Er : rank eqb (rev (st_out st)) u = rank eqb (rev (st_out st)) v) by lia.
        destruct (rank_nth eqb eqb_eq _ u Hcu) as [Hu1 Hu2]. destruct (rank_nth eqb eqb_eq _ v Hcv) as [Hv1 _].
        exists (nth (rank eqb (rev (st_out st)) u) (rev (st_out st)) []). split; [exact Hu2|]. split; [exact Hu1|].
        rewrite Er. exact Hv1.
  Qed.

  (* the full statement: any two iteration orders of set(edges) and of the adjacency lists
     give the same set of components *)
End Alg.

Theorem scc_partition_perm_invariant {A : Type} (eqb : A -> A -> bool)
  (eqb_eq : forall x y, eqb x y = true <-> x = y) (E E' : @dict A) vo vo' out out' :
  graph_equiv (isvertex E) (isvertex E') (edge eqb E) (edge eqb E') ->
  (forall k, In k (keys E) -> In k vo) -> (forall k, In k (keys E') -> In k vo') ->
  scc_run eqb vo E = Ok out -> scc_run eqb vo' E' = Ok out' ->
  partition_equiv out out'.
Proof.
  intros Hg Hc Hc' H1 H2.
  eapply scc_spec_unique; [exact Hg | apply (scc_run_correct eqb eqb_eq E vo out Hc H1) | apply (scc_run_correct eqb eqb_eq E' vo' out' Hc' H2)].
Qed.

(* ---------------------------------------------------------------------- fuel
   scc_run never runs out of fuel: the recursion depth is bounded by the number of keys
   that are not indexed yet. *)
Section Fuel.
  Context {A : Type}.
  Variable eqb : A -> A -> bool.
  Hypothesis eqb_eq : forall x y, eqb x y = true <-> x = y.
  Variable E : @dict A.

  Definition is_idx (st : @scc_state A) (x : A) : bool :=
    match idx_get eqb (st_index st) x with Some _ => true | None => false end.
  Definition unindexed (st : @scc_state A) : nat := length (filter (fun k => negb (is_idx st k)) (keys E)).
  Definition mono (st st' : @scc_state A) : Prop := forall x, is_idx st x = true -> is_idx st' x = true.

  Lemma mono_refl st : mono st st.
  Proof. intros x H. exact H. Qed.
  Lemma mono_trans a b c : mono a b -> mono b c -> mono a c.
  Proof. intros H1 H2 x H. apply H2. apply H1. exact H. Qed.

  Lemma filter_length_mono {T} (p q : T -> bool) (l : list T) :
    (forall x, p x = true -> q x = true) -> length (filter p l) <= length (filter q l).
  Proof.
    intros H. induction l as [|x l IH]; cbn; [lia|].
    destruct (p x) eqn:Ep; [rewrite (H x Ep); cbn; lia | destruct (q x); cbn; lia].
  Qed.

  Lemma unindexed_mono st st' : mono st st' -> unindexed st' <= unindexed st.
  Proof.
    intros H. unfold unindexed. apply filter_length_mono. intros x Hx.
    apply negb_true_iff in Hx. apply negb_true_iff. destruct (is_idx st x) eqn:Ex; [rewrite (H x Ex) in Hx; discriminate | reflexivity].
  Qed.

  Lemma is_idx_push st v x : is_idx (push v st) x = eqb x v || is_idx st x.
  Proof. unfold is_idx. cbn [push st_index idx_get]. destruct (eqb x v); reflexivity. Qed.

  Lemma mono_push st v : mono st (push v st).
  Proof. intros x H. rewrite is_idx_push, H. apply orb_true_r. Qed.

  Lemma filter_length_lt' {T} (p q : T -> bool) (l : list T) x :
    (forall y, p y = true -> q y = true) -> In x l -> q x = true -> p x = false ->
    length (filter p l) < length (filter q l).
  Proof.
    intros H. induction l as [|y l IH]; cbn; intros Hx Hq Hp; [contradiction|].
    destruct Hx as [->|Hx].
    - rewrite Hq, Hp. cbn. assert (Hm := filter_length_mono p q l H). lia.
    - specialize (IH Hx Hq Hp). destruct (p y) eqn:Ep; [rewrite (H y Ep); cbn; lia | destruct (q y); cbn; lia].
  Qed.

  Lemma unindexed_push st v ws :
    get eqb E v = Some ws -> is_idx st v = false -> unindexed (push v st) < unindexed st.
  Proof.
    intros Hg Hn. unfold unindexed.
    apply (filter_length_lt' _ _ (keys E) v).
    - intros y Hy. apply negb_true_iff in Hy. apply negb_true_iff. rewrite is_idx_push in Hy. apply orb_false_iff in Hy. apply Hy.
    - apply (get_Some_key eqb eqb_eq E v ws Hg).
    - rewrite Hn. reflexivity.
    - rewrite is_idx_push. rewrite (proj2 (eqb_eq v v) eq_refl). reflexivity.
  Qed.

  Lemma pop_while_not_oof iw b : pop_while iw b <> OutOfFuel.
  Proof. induction b as [|t r IH]; cbn [pop_while]; [discriminate|]. destruct (Nat.ltb iw t); [exact IH | discriminate]. Qed.

  Lemma finish_mono iv (st st' : @scc_state A) : finish iv st = Ok st' -> mono st st'.
  Proof.
    unfold finish. destruct (st_bounds st) as [|t br]; [discriminate|].
    destruct (t =? iv); intros H; inversion H; subst; intros x Hx; exact Hx.
  Qed.

  Lemma finish_not_oof iv (st : @scc_state A) : finish iv st <> OutOfFuel.
  Proof. unfold finish. destruct (st_bounds st) as [|t br]; [discriminate|]. destruct (t =? iv); discriminate. Qed.

  Section VisitMono.
    Variable rec : A -> @scc_state A -> result (@scc_state A).
    Hypothesis rec_mono : forall w st st', rec w st = Ok st' -> mono st st'.

    Lemma visit_mono : forall ws st st', visit eqb rec ws st = Ok st' -> mono st st'.
    Proof.
      induction ws as [|w r IH]; intros st st' H; cbn [visit] in H.
      - inversion H; subst. apply mono_refl.
      - destruct (idx_get eqb (st_index st) w) as [iw|].
        + destruct (memb eqb w (st_ident st)); [apply IH; exact H|].
          destruct (pop_while iw (st_bounds st)) as [b'| |]; try discriminate.
          apply (mono_trans st (set_bounds st b') st'); [intros x Hx; exact Hx | apply IH; exact H].
        + destruct (rec w st) as [st1| |] eqn:Er; try discriminate.
          apply (mono_trans st st1 st'); [apply (rec_mono w st st1 Er) | apply IH; exact H].
    Qed.

    Variable bound : nat.
    Hypothesis rec_fuel : forall w st, is_idx st w = false -> unindexed st < bound -> rec w st <> OutOfFuel.

    Lemma visit_not_oof : forall ws st, unindexed st < bound -> visit eqb rec ws st <> OutOfFuel.
    Proof.
      induction ws as [|w r IH]; intros st Hb; cbn [visit]; [discriminate|].
      destruct (idx_get eqb (st_index st) w) as [iw|] eqn:Ei.
      - destruct (memb eqb w (st_ident st)); [apply IH; exact Hb|].
        destruct (pop_while iw (st_bounds st)) as [b'| |] eqn:Ep; [apply IH; exact Hb | discriminate | exfalso; apply (pop_while_not_oof iw _ Ep)].
      - destruct (rec w st) as [st1| |] eqn:Er; [|discriminate|].
        + apply IH. assert (H := unindexed_mono st st1 (rec_mono w st st1 Er)). lia.
        + exfalso. apply (rec_fuel w st); [unfold is_idx; rewrite Ei; reflexivity | exact Hb | exact Er].
    Qed.
  End VisitMono.

  Lemma dfs_mono : forall f v st st', dfs eqb f E v st = Ok st' -> mono st st'.
  Proof.
    induction f as [|f IH]; intros v st st' H; [discriminate|]. cbn [dfs] in H.
    destruct (get eqb E v) as [ws|]; [|discriminate].
    destruct (visit eqb (dfs eqb f E) ws (push v st)) as [st2| |] eqn:Ev; try discriminate.
    apply (mono_trans st (push v st) st'); [apply mono_push|].
    apply (mono_trans _ st2 st'); [apply (visit_mono (dfs eqb f E) (fun w s s' => IH w s s') ws _ _ Ev) | apply (finish_mono _ _ _ H)].
  Qed.

  Lemma dfs_not_oof : forall f v st, is_idx st v = false -> unindexed st < f -> dfs eqb f E v st <> OutOfFuel.
  Proof.
    induction f as [|f IH]; intros v st Hn Hb; [lia|]. cbn [dfs].
    destruct (get eqb E v) as [ws|] eqn:Eg; [|discriminate].
    assert (Hlt := unindexed_push st v ws Eg Hn).
    destruct (visit eqb (dfs eqb f E) ws (push v st)) as [st2| |] eqn:Ev; [apply finish_not_oof | discriminate |].
    exfalso. apply (visit_not_oof (dfs eqb f E) (fun w s s' => dfs_mono f w s s') f (fun w s Hi Hu => IH w s Hi Hu) ws (push v st)); [lia | exact Ev].
  Qed.

  Lemma scc_loop_not_oof fuel : forall vs st, unindexed st < fuel -> scc_loop eqb fuel E vs st <> OutOfFuel.
  Proof.
    induction vs as [|v r IH]; intros st Hb; cbn [scc_loop]; [discriminate|].
    destruct (idx_get eqb (st_index st) v) as [i|] eqn:Ei; [apply IH; exact Hb|].
    destruct (dfs eqb fuel E v st) as [st1| |] eqn:Ed; [|discriminate|].
    - apply IH. assert (H := unindexed_mono st st1 (dfs_mono fuel v st st1 Ed)). lia.
    - exfalso. apply (dfs_not_oof fuel v st); [unfold is_idx; rewrite Ei; reflexivity | exact Hb | exact Ed].
  Qed.

  Theorem scc_run_fuel_sufficient vorder : scc_run eqb vorder E <> OutOfFuel.
  Proof.
    unfold scc_run.
    assert (H := scc_loop_not_oof (S (length E)) vorder st_init).
    destruct (scc_loop eqb (S (length E)) E vorder st_init) eqn:El; cbn [rmap]; try discriminate.
    exfalso. apply H; [|reflexivity].
    unfold unindexed.
    assert (Hl : forall (p : A -> bool) l, length (filter p l) <= length l).
    { intros p l. induction l as [|y l IHl]; cbn; [lia|]. destruct (p y); cbn; lia. }
    specialize (Hl (fun k => negb (is_idx (@st_init A) k)) (keys E)).
    unfold keys in *. rewrite map_length in Hl. lia.
  Qed.
End Fuel.
