(* Proofs/DictCodecRefute.v — the refutation witnesses of Properties/C04.v, decided by vm_compute on the
   witnesses exported from the implementation (Proofs/DictCodecWitness.v, generated). *)
From Coq Require Import NArith ZArith List Bool.
From XV Require Import Base.Str Base.Eqb Model.Bind Model.EventGen Model.DictCodec Model.DictCodecCorr Proofs.DictCodecWitness.
Import ListNotations.
Open Scope N_scope.

Lemma key_collision_refuted :
  is_typed (w_json_key_collision_u, w_json_key_collision_k) = true
  /\ clauses_failing (w_json_key_collision_u, w_json_key_collision_k) = [1]
  /\ model_roundtrip (w_json_key_collision_u, w_json_key_collision_k) = false.
Proof. vm_compute. repeat split. Qed.

Lemma null_default_refuted :
  is_typed (w_null_decodes_to_default_u, w_null_decodes_to_default_k) = true
  /\ clauses_failing (w_null_decodes_to_default_u, w_null_decodes_to_default_k) = [2]
  /\ model_roundtrip (w_null_decodes_to_default_u, w_null_decodes_to_default_k) = false.
Proof. vm_compute. repeat split. Qed.

Lemma best_match_tie_refuted :
  is_typed (w_best_match_tie_u, w_best_match_tie_k) = true
  /\ clauses_failing (w_best_match_tie_u, w_best_match_tie_k) = [3]
  /\ decode_ambiguous (w_best_match_tie_u, w_best_match_tie_k) = true.
Proof. vm_compute. repeat split. Qed.

Lemma compound_shadowed_refuted :
  is_typed (w_compound_choice_shadowed_in_json_u, w_compound_choice_shadowed_in_json_k) = true
  /\ clauses_failing (w_compound_choice_shadowed_in_json_u, w_compound_choice_shadowed_in_json_k) = [4]
  /\ model_roundtrip (w_compound_choice_shadowed_in_json_u, w_compound_choice_shadowed_in_json_k) = false.
Proof. vm_compute. repeat split. Qed.

Lemma generic_keys_filtered_refuted :
  is_typed (w_generic_keys_filtered_u, w_generic_keys_filtered_k) = true
  /\ clauses_failing (w_generic_keys_filtered_u, w_generic_keys_filtered_k) = [7]
  /\ model_roundtrip (w_generic_keys_filtered_u, w_generic_keys_filtered_k) = false.
Proof. vm_compute. repeat split. Qed.

Lemma best_match_guess_refuted :
  is_typed (w_best_match_guess_u, w_best_match_guess_k) = true
  /\ clauses_failing (w_best_match_guess_u, w_best_match_guess_k) = [3]
  /\ decode_ambiguous (w_best_match_guess_u, w_best_match_guess_k) = false
  /\ model_roundtrip (w_best_match_guess_u, w_best_match_guess_k) = false.
Proof. vm_compute. repeat split. Qed.

Lemma guard_inhabited :
  in_proved_slice (w_inside_slice_u, w_inside_slice_k) = true
  /\ in_proved_slice (w_inside_slice_filter_none_u, w_inside_slice_filter_none_k) = true
  /\ theorem_instance (w_inside_slice_u, w_inside_slice_k) = true
  /\ theorem_instance (w_inside_slice_filter_none_u, w_inside_slice_filter_none_k) = true
  (* the witness of the repaired finding "wrapper field under best-match" round-trips *)
  /\ model_roundtrip (w_wrapper_under_best_match_u, w_wrapper_under_best_match_k) = true
  /\ roundtrip_ok (w_wrapper_under_best_match_u, w_wrapper_under_best_match_k) = true.
Proof. vm_compute. repeat split. Qed.

Lemma json_native_all : forall j, json_native j = true.
Proof.
  fix IH 1. intros [| | | | | t l | m]; try reflexivity.
  - cbn. induction l as [|x l IHl]; [reflexivity|]. rewrite (IH x). exact IHl.
  - cbn. induction m as [|[k x] m IHm]; [reflexivity|]. rewrite (IH x). exact IHm.
Qed.

Lemma encode_json_native : forall g fac ign c u o j,
  encode g fac ign c u o = Ok j -> json_native j = true.
Proof. intros. apply json_native_all. Qed.
