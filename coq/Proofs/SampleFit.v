(* Proofs/SampleFit.v — samples_fit / attrs_fit: every part of every sample node has a slot in the merged
   class (capacity >= occurrences), and parts the node lacks are optional.  Unbounded over all sample sets and
   all converter behaviours. *)
From Coq Require Import NArith ZArith List Bool Lia Permutation.
From XV Require Import Base.Str Base.Eqb Gen.SampleTables Model.Sample Model.SampleCorr
  Proofs.SampleBase Proofs.SampleReduce Proofs.SampleBuild.
Import ListNotations.
Open Scope N_scope.

Lemma maxsize_is_list : 1 < sys_maxsize.
Proof. unfold sys_maxsize. lia. Qed.

(* count_key is the number of element parts with that key *)
Lemma count_key_cnt cns a kids :
  count_key cns a kids = cnt (key a) (map (fun k => key (part_key tag_ELEMENT cns (t_qn k))) (filter named kids)).
Proof.
  unfold count_key, cnt. induction kids as [|k r IH]; [reflexivity|]. cbn [filter].
  destruct (named k) eqn:N; cbn [andb map filter].
  - cbn [count_occ]. destruct (key_eq_dec (key (part_key tag_ELEMENT cns (t_qn k))) (key a)) as [E|E].
    + apply attr_eqb_key in E. rewrite E. cbn [length]. f_equal. exact IH.
    + apply attr_eqb_false_key in E. rewrite E. exact IH.
  - exact IH.
Qed.

Lemma cnt_app k l1 l2 : cnt k (l1 ++ l2) = (cnt k l1 + cnt k l2)%nat.
Proof. unfold cnt. apply count_occ_app. Qed.

Lemma count_key_le_parts cns n a :
  (count_key cns a (t_kids n) <= cnt (key a) (keys (node_part_keys cns n)))%nat.
Proof.
  rewrite count_key_cnt. unfold node_part_keys. rewrite !keys_app, !cnt_app, !keys_map_key. lia.
Qed.

Lemma count_key_congr cns a b kids : key a = key b -> count_key cns a kids = count_key cns b kids.
Proof. intros E. rewrite !count_key_cnt, E. reflexivity. Qed.

Section Fit.
  Variable cv : sconv.
  Variable all : list fclass.
  Hypothesis all_nodes : forall x, In x all -> exists p m, x = node_class cv p m.

  Lemma all_nodup : Forall (fun c => NoDup (keys (c_attrs c))) all.
  Proof. apply Forall_forall. intros x Hx. destruct (all_nodes x Hx) as [p [m ->]]. apply node_class_nodup. Qed.

  Theorem node_fits_of_member p m : In (node_class cv p m) all -> node_fits (reduce_classes all) p m = true.
  Proof.
    intros Hin. destruct (reduce_classes_spec all all_nodup _ Hin) as [r [Fr [NDr [Mr [Cov [Opt _]]]]]].
    unfold node_class in *. destruct (build_class_spec cv m p) as [mixed [nilb [attrs [E [A [Mx _]]]]]]. rewrite E in *.
    cbn [c_qname c_attrs c_mixed] in *. unfold node_fits. rewrite Fr.
    set (cns := class_ns p m) in *. set (parts := node_part_keys cns m) in *.
    assert (Kattrs : forall k, In k (keys attrs) <-> In k (keys parts)).
    { intros k. rewrite (added_keys _ _ _ A k). cbn. tauto. }
    assert (Slot : forall k, In k parts -> exists y ry, In y attrs /\ key y = key k /\ find_attr r k = Some ry
                                                  /\ key ry = key k /\ a_max y <= a_max ry).
    { intros k Hk. assert (Hk' : In (key k) (keys attrs)) by (apply Kattrs; apply in_map; exact Hk).
      apply in_keys in Hk' as [y [Hy Ky]].
      destruct (Cov (flatten_attr y)) as [ry [I1 [K1 [D1 _]]]]; [apply in_map; exact Hy|].
      exists y, ry. repeat split; auto.
      - apply find_attr_in_nodup; auto. rewrite K1, flatten_attr_key. exact Ky.
      - rewrite K1, flatten_attr_key. exact Ky. }
    apply andb_true_iff. split; [apply andb_true_iff; split; [apply andb_true_iff; split|]|].
    - (* children *)
      apply forallb_forall. intros k Hk. destruct (named k) eqn:N; [|reflexivity]. cbn [negb orb].
      assert (Hp : In (part_key tag_ELEMENT cns (t_qn k)) parts).
      { unfold parts, node_part_keys. apply in_or_app. right. apply in_or_app. left. apply in_map_iff. exists k. split; [reflexivity|]. apply filter_In. auto. }
      destruct (Slot _ Hp) as [y [ry [Hy [Ky [Fy [Kry Dy]]]]]]. rewrite Fy.
      destruct (count_key cns ry (t_kids m) <=? 1)%nat eqn:C; [reflexivity|]. cbn [orb].
      apply Nat.leb_gt in C. unfold is_list. apply N.ltb_lt.
      assert (a_max y = sys_maxsize).
      { eapply added_max; [exact A|constructor|exact Hy|]. left.
        pose proof (count_key_le_parts cns m ry) as Hc. rewrite (count_key_congr cns ry y) in C by congruence.
        rewrite (count_key_congr cns ry y) in Hc by congruence. fold parts in Hc.
        replace (key ry) with (key y) in Hc by congruence. lia. }
      pose proof maxsize_is_list. lia.
    - (* attributes and text *)
      apply forallb_forall. intros k Hk. destruct (Slot _ Hk) as [y [ry [_ [_ [Fy _]]]]]. rewrite Fy. reflexivity.
    - (* parts the node lacks are optional *)
      apply forallb_forall. intros ry Hry.
      destruct (in_dec key_eq_dec (key ry) (keys parts)) as [Hk|Hk].
      + apply in_map_iff in Hk as [k [Ek Hk]]. apply orb_true_iff. left. apply existsb_exists. exists k. split; [exact Hk|].
        apply attr_eqb_key. congruence.
      + apply orb_true_iff. right. apply N.eqb_eq. apply Opt; [exact Hry|]. rewrite keys_flatten. intros H. apply Hk. apply Kattrs. exact H.
    - (* mixed *)
      destruct (node_mixed m) eqn:NM; [|reflexivity]. cbn [negb orb]. apply Mr. apply Mx. reflexivity.
  Qed.
End Fit.

(* ------------------------------------------------------------------ the theorem *)
Lemma all_of_samples cv (S : list tree) x : In x (concat (map (map_tree cv) S)) -> exists p m, x = node_class cv p m.
Proof.
  intros H. apply in_concat in H as [l [Hl Hx]]. apply in_map_iff in Hl as [t [<- Ht]].
  unfold map_tree in Hx. eapply flatten_from. exact Hx.
Qed.

Lemma for_all_class_nodes cv (S : list tree) (f : option str -> tree -> bool) :
  (forall p m, In (node_class cv p m) (concat (map (map_tree cv) S)) -> f p m = true) ->
  forall t, In t S -> tree_all f (root_ns t) t = true.
Proof.
  intros Hf t Ht. set (all := concat (map (map_tree cv) S)) in *.
  apply tree_all_Forall_nodes.
  assert (Hn : Forall_nodes (fun p m => In (node_class cv p m) all) (root_ns t) t).
  { apply flatten_nodes. intros x Hx. unfold all. apply in_concat. exists (map_tree cv t). split; [apply in_map; exact Ht|exact Hx]. }
  clear Ht. revert Hn. generalize (root_ns t). revert t.
  induction t as [qn atts text tail kids IH] using tree_ind'. intros p [H0 Hk]. cbn [Forall_nodes]. split.
  - apply Hf. exact H0.
  - cbn [t_kids] in *. set (cns := class_ns p (T qn atts text tail kids)) in *. clearbody cns. clear H0.
    induction kids as [|k r IHr]; [exact I|]. inversion IH; subst. destruct Hk as [Hk1 Hk2]. split.
    + destruct (named k && has_content k); [|exact I]. apply H1. exact Hk1.
    + apply IHr; assumption.
Qed.

Theorem samples_fit : forall cv (S : list tree), forallb (tree_fits (classes_of_xml cv S)) S = true.
Proof.
  intros cv S. apply forallb_forall. intros t Ht. unfold tree_fits, classes_of_xml.
  apply (for_all_class_nodes cv S); [|exact Ht].
  apply (node_fits_of_member cv _ (all_of_samples cv S)).
Qed.
