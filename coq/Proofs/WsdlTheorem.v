(* Proofs/WsdlTheorem.v — one bound operation, one port, the whole document. *)
From Coq Require Import NArith List Bool Lia.
From XV Require Import Base.Str Base.Eqb Base.PyInt Gen.WsdlTables Spec.WsdlSpec Model.Wsdl Model.WsdlCorr
  Proofs.WsdlLemmas Proofs.WsdlParts Proofs.WsdlEnvelope Proofs.WsdlSide Proofs.WsdlMapper Proofs.WsdlRefute.
Import ListNotations.
Open Scope N_scope.

(* ---- name.split("_")[-1] *)
Lemma split_chr_aux_noc c s : forall cur, existsb (N.eqb c) s = false -> split_chr_aux c cur s = [rev cur ++ s].
Proof.
  induction s as [|x r IH]; intros cur H; cbn.
  - rewrite app_nil_r. reflexivity.
  - cbn in H. apply orb_false_iff in H as [H1 H2]. rewrite N.eqb_sym in H1. rewrite H1.
    rewrite (IH (x :: cur) H2). cbn. rewrite <- app_assoc. reflexivity.
Qed.

Lemma split_chr_aux_nonnil c s : forall cur, split_chr_aux c cur s <> [].
Proof. induction s as [|x r IH]; intros cur; cbn; [discriminate|]. destruct (x =? c); [discriminate|apply IH]. Qed.

Lemma last_cons {A} (h : A) l dflt : l <> [] -> last (h :: l) dflt = last l dflt.
Proof. destruct l; [congruence|reflexivity]. Qed.

Lemma last_piece_aux s : existsb (N.eqb 95) s = false ->
  forall x cur, last (split_chr_aux 95 cur (x ++ 95 :: s)) [] = s.
Proof.
  intros Hs. induction x as [|a x' IH]; intros cur.
  - cbn [app split_chr_aux]. change (95 =? 95) with true. cbv iota.
    rewrite last_cons by apply split_chr_aux_nonnil. rewrite (split_chr_aux_noc 95 s [] Hs). reflexivity.
  - cbn [app split_chr_aux]. destruct (a =? 95).
    + rewrite last_cons by apply split_chr_aux_nonnil. apply IH.
    + apply IH.
Qed.

Lemma last_piece_suffix x s : existsb (N.eqb 95) s = false -> last_piece (x ++ [95] ++ s) = s.
Proof. intros Hs. unfold last_piece, split_chr. apply (last_piece_aux s Hs). Qed.

(* ---- guard clauses of one operation *)
Lemma clause_list_nil cs : clause_list cs = [] -> forallb snd cs = true.
Proof.
  unfold clause_list. induction cs as [|[k b] r IH]; [reflexivity|]. cbn.
  destruct b; cbn; [exact IH | discriminate].
Qed.

Lemma style_eq b p bo :
  (match cf_style (set_default_style (op_config (port_config b p) bo)) with Some s => s | None => m_default_style end)
  = effective_style b bo.
Proof.
  unfold set_default_style, op_config, port_config, effective_style. rewrite c_document.
  destruct (bo_soap bo) as [so|]; cbn; [destruct (so_style so); cbn|]; destruct (obind (b_soap b) sb_style); reflexivity.
Qed.

Lemma style_published b p bo :
  cf_style (set_default_style (op_config (port_config b p) bo)) = Some (effective_style b bo).
Proof.
  unfold set_default_style, op_config, port_config, effective_style. rewrite c_document.
  destruct (bo_soap bo) as [so|]; cbn; [destruct (so_style so); cbn|]; destruct (obind (b_soap b) sb_style); reflexivity.
Qed.

Lemma default_style_other b p bo :
  cf_location (set_default_style (op_config (port_config b p) bo)) = cf_location (op_config (port_config b p) bo)
  /\ cf_transport (set_default_style (op_config (port_config b p) bo)) = cf_transport (op_config (port_config b p) bo)
  /\ cf_action (set_default_style (op_config (port_config b p) bo)) = cf_action (op_config (port_config b p) bo).
Proof. unfold set_default_style. destruct (cf_style _); repeat split; reflexivity. Qed.

Lemma action_eq b p bo : cf_action (op_config (port_config b p) bo) = obind (bo_soap bo) so_action.
Proof. unfold op_config, port_config. destruct (bo_soap bo) as [so|]; cbn; [destruct (so_action so)|]; reflexivity. Qed.

(* ---- results of mapping, bundled *)
Record op_res := mk_op_res { or_msgs : list aclass; or_svc : aclass; or_sd : service_desc }.
Definition flat (rs : list op_res) : list aclass := flat_map (fun r => or_msgs r ++ [or_svc r]) rs.

Section Ops.
  Variables (te : tenv) (d : definitions) (t : str).
  Hypothesis Ht : d_tns d = Some t.
  Hypothesis Htn : nonempty t = true.
  Hypothesis Hmsgs : forallb message_ok (d_messages d) = true.
  Hypothesis Hsh : no_shadow d = true.

  Definition op_res_ok (r : op_res) : Prop :=
    is_tag TagBindingOperation (or_svc r) = true
    /\ forallb (fun c => negb (is_tag TagBindingOperation c)) (or_msgs r) = true
    /\ (forall c, In c (or_msgs r) -> is_tag TagElement c = true ->
                  exists dm, find_message_by_name d (msg_name dm) = Some dm /\ c = msg_class t dm)
    /\ forall all, inv d t all -> incl (or_msgs r) all -> decode_service te all (or_svc r) = or_sd r.

  Lemma style_cases s : style_ok (Some s) = true -> s = s_document \/ s = s_rpc.
  Proof. cbn. intros H. apply orb_true_iff in H as [H|H]; apply str_eqb_eq in H; auto. Qed.

  Lemma op_correct b pt p bo sb loc :
    b_soap b = Some sb -> sb_transport sb = Some SOAP_HTTP -> style_ok (sb_style sb) = true ->
    port_address p = Some loc -> nonempty loc = true ->
    b_operation_ok d b pt bo = true ->
    forallb (fun l : list nat => match l with [] => true | _ => false end) (findings_op te d b pt bo) = true ->
    exists po r,
      find_named pto_name (pt_operations pt) (bo_name bo) = Some po
      /\ map_binding_operation d bo po (op_config (port_config b p) bo) (pt_name pt) = Some (or_msgs r ++ [or_svc r])
      /\ expected_op te d p b pt bo = [or_sd r]
      /\ op_res_ok r.
  Proof.
    intros Hsb Htr Hsty Hloc Hlocn Hok Hfind.
    unfold b_operation_ok in Hok. unfold findings_op in Hfind. unfold expected_op.
    destruct (find_by pto_name (pt_operations pt) (bo_name bo)) as [po|] eqn:Epo.
    2:{ rewrite !andb_false_r in Hok. discriminate. }
    apply andb_true_iff in Hok as [Hok Hrest]. apply andb_true_iff in Hok as [_ Hostyle].
    apply andb_true_iff in Hrest as [Hio Hfaults].
    destruct (bo_input bo) as [bi|] eqn:Ebi; [|discriminate].
    destruct (pto_input po) as [pi|] eqn:Epi; [|discriminate].
    destruct (bo_output bo) as [bo'|] eqn:Ebo; [|discriminate].
    destruct (pto_output po) as [po'|] eqn:Epo'; [|discriminate].
    apply andb_true_iff in Hio as [Hoki Hoko].
    cbn [forallb] in Hfind. rewrite andb_true_r in Hfind.
    unfold op_findings in Hfind. rewrite Ebi, Epi, Ebo, Epo' in Hfind.
    destruct (clause_list _) eqn:Ecl in Hfind; [|discriminate]. clear Hfind.
    apply clause_list_nil in Ecl. cbn [forallb snd] in Ecl.
    apply andb_true_iff in Ecl as [C2 Ecl].
    apply andb_true_iff in Ecl as [C5 Ecl]. apply andb_true_iff in Ecl as [C6 Ecl].
    apply andb_true_iff in Ecl as [C7 _].
    set (style := effective_style b bo) in *.
    set (name := pt_name pt ++ [95] ++ bo_name bo).
    (* both sides *)
    assert (Hrpc_common : forall bm ptm, str_eqb style s_rpc = true ->
              negb (str_eqb style s_rpc) || forallb (fun p => negb (element_part p)) (selected_of d bm ptm) = true ->
              forallb (fun p => negb (element_part p)) (selected_of d bm ptm) = true).
    { intros bm ptm Hs H. rewrite Hs in H. exact H. }
    destruct (side_correct te d t Ht Htn Hmsgs Hsh po name style m_input (Some (bo_name bo)) (bo_name bo) false bi pi
                Hoki) as [msi [ti [itemi [Emi [Eei [Hmi [Hqi [Htagi [Hmsi Hdeci]]]]]]]]].
    { discriminate. }
    { intros Hs. destruct (str_eqb style s_rpc); [discriminate|]. cbn in C5. apply andb_true_iff in C5 as [C5 _]. exact C5. }
    { intros Hs. rewrite Hs in C6, C7. cbn [negb orb] in C6, C7.
      apply andb_true_iff in C6 as [C6 _]. apply andb_true_iff in C7 as [C7 _].
      apply negb_true_iff in C7. split; [exact C6|]. split; [destruct (body_parts_of bi); [discriminate|reflexivity]|].
      intros; reflexivity. }
    destruct (side_correct te d t Ht Htn Hmsgs Hsh po name style m_output None (bo_name bo ++ s_Response) true bo' po'
                Hoko) as [mso [to [itemo [Emo [Eeo [Hmo [Hqo [Htago [Hmso Hdeco]]]]]]]]].
    { intros _. exact Hfaults. }
    { intros Hs. destruct (str_eqb style s_rpc); [discriminate|]. cbn in C5. apply andb_true_iff in C5 as [_ C5]. exact C5. }
    { intros Hs. rewrite Hs in C6, C7, C2. cbn [negb orb] in C6, C7, C2.
      apply andb_true_iff in C6 as [_ C6]. apply andb_true_iff in C7 as [_ C7].
      apply negb_true_iff in C7. split; [exact C6|]. split; [destruct (body_parts_of bo'); [discriminate|reflexivity]|].
      intros dm Hdm. destruct (find_message_facts d t Ht Htn _ _ _ Hdm) as [_ [_ [_ [Hl _]]]].
      rewrite Hl in C2. cbn in C2. apply str_eqb_eq in C2. exact C2. }
    exists po.
    exists (mk_op_res ((msi ++ [ti]) ++ (mso ++ [to]))
                      (AClass (t, name) None TagBindingOperation None
                         (const_attrs (set_default_style (op_config (port_config b p) bo))
                          ++ [build_attr m_input (c_qname ti) false false None None (Some ti);
                              build_attr m_output (c_qname to) false false None None (Some to)]) [])
                      (mk_sd (pt_name pt ++ s_underscore ++ bo_name bo) (Some style) (port_address p)
                             (obind (b_soap b) sb_transport) (obind (bo_soap bo) so_action)
                             (Some itemi) (Some itemo))).
    cbn [or_msgs or_svc or_sd].
    split; [rewrite find_named_eq; exact Epo|].
    split.
    { (* the mapper's output *)
      unfold map_binding_operation. rewrite style_eq. fold style. fold name.
      destruct (default_style_other b p bo) as [Dl [Dt Da]]. rewrite Dt.
      replace (operation_namespace (cf_transport (op_config (port_config b p) bo))) with (Some m_soap_env).
      2:{ unfold op_config, port_config. destruct (bo_soap bo); cbn [cf_transport]; rewrite Hsb; cbn [obind]; rewrite Htr; reflexivity. }
      unfold map_binding_operation_messages. rewrite Ebi, Ebo, Epi, Epo', Emi, Emo.
      rewrite Ht. unfold build_qname. f_equal. f_equal. f_equal. f_equal.
      (* the references to the two envelope classes *)
      rewrite !flat_map_app. cbn [flat_map].
      rewrite Hmi, Hmo. replace m_envelope with (69 :: tl m_envelope) by reflexivity.
      cbv beta iota.
      assert (forall ms, (forall c, In c ms -> is_tag TagElement c = true /\ exists dm, find_message_by_name d (msg_name dm) = Some dm /\ c = msg_class t dm) ->
                flat_map (fun mc : aclass => match c_meta_name mc with
                                             | Some (_ :: _) => [build_attr (last_piece (c_name mc)) (c_qname mc) false false None None (Some mc)]
                                             | _ => [] end) ms = []) as Hnone.
      { induction ms as [|c r IH]; intros H; [reflexivity|]. cbn [flat_map].
        destruct (H c (or_introl eq_refl)) as [_ [dm [_ ->]]]. cbn [msg_class c_meta_name app].
        apply IH. intros c' Hc'. apply H. right. exact Hc'. }
      rewrite (Hnone msi Hmsi), (Hnone mso Hmso). cbn [app].
      unfold c_name. rewrite Hqi, Hqo. cbn [snd].
      rewrite !last_piece_suffix by reflexivity. reflexivity. }
    split.
    { (* the specification *)
      rewrite (envelope_input_faults te d style (bo_name bo) (Some bi) (Some pi) [] (pto_faults po)).
      rewrite Eei, Eeo. reflexivity. }
    (* the bundle *)
    unfold op_res_ok. cbn [or_msgs or_svc or_sd].
    split; [reflexivity|]. split.
    { rewrite !forallb_app. cbn [forallb].
      assert (forall ms, (forall c, In c ms -> is_tag TagElement c = true /\ exists dm, find_message_by_name d (msg_name dm) = Some dm /\ c = msg_class t dm) ->
                forallb (fun c => negb (is_tag TagBindingOperation c)) ms = true) as Hne.
      { intros ms H. apply forallb_forall. intros c Hc. destruct (H c Hc) as [_ [dm [_ ->]]]. reflexivity. }
      rewrite (Hne _ Hmsi), (Hne _ Hmso).
      destruct ti as [? ? tgi ? ? ?], to as [? ? tgo ? ? ?]. cbn in Htagi, Htago.
      destruct tgi, tgo; try discriminate. reflexivity. }
    split.
    { intros c Hc Hel. rewrite !in_app_iff in Hc. cbn [In] in Hc.
      destruct Hc as [[Hc|[<-|[]]]|[Hc|[<-|[]]]].
      - destruct (Hmsi c Hc) as [_ H]. exact H.
      - destruct ti as [? ? tgi ? ? ?]. cbn in Htagi, Hel. destruct tgi; discriminate.
      - destruct (Hmso c Hc) as [_ H]. exact H.
      - destruct to as [? ? tgo ? ? ?]. cbn in Htago, Hel. destruct tgo; discriminate. }
    intros all Hinv Hincl.
    assert (incl msi all) as Hinci by (intros c Hc; apply Hincl; rewrite !in_app_iff; auto).
    assert (incl mso all) as Hinco by (intros c Hc; apply Hincl; rewrite !in_app_iff; cbn; auto).
    pose proof (Hdeci all Hinv Hinci) as Di. pose proof (Hdeco all Hinv Hinco) as Do.
    (* constants: style, location, transport are set; soapAction when it is a non-empty string *)
    unfold decode_service. cbn [c_name c_qname snd].
    destruct (default_style_other b p bo) as [Dl [Dt Da]].
    unfold const_attrs. rewrite (style_published b p bo), Dl, Dt, Da, action_eq. fold style.
    replace (cf_location (op_config (port_config b p) bo)) with (Some loc)
      by (unfold op_config, port_config; destruct (bo_soap bo); cbn; rewrite Hloc; reflexivity).
    replace (cf_transport (op_config (port_config b p) bo)) with (Some SOAP_HTTP)
      by (unfold op_config, port_config; destruct (bo_soap bo); cbn [cf_transport]; rewrite Hsb; cbn [obind]; rewrite Htr; reflexivity).
    replace (obind (b_soap b) sb_transport) with (Some SOAP_HTTP) by (rewrite Hsb; cbn; rewrite Htr; reflexivity).
    rewrite Hloc.
    cbn [flat_map snd fst].
    unfold const_of, envelope_of.
    destruct (obind (bo_soap bo) so_action) as [act|] eqn:Eact.
    - cbn. rewrite Di, Do. reflexivity.
    - cbn. rewrite Di, Do. reflexivity.
  Qed.
End Ops.

(* ---- assembling operations, ports, the document *)
Lemma tag_excl c : is_tag TagBindingOperation c = true -> is_tag TagElement c = false.
Proof. destruct c as [? ? tg ? ? ?]. destruct tg; cbn; congruence. Qed.

Lemma filter_none {A} (f : A -> bool) l : forallb (fun x => negb (f x)) l = true -> filter f l = [].
Proof.
  induction l as [|x r IH]; cbn; [reflexivity|]. intros H. apply andb_true_iff in H as [H1 H2].
  apply negb_true_iff in H1. rewrite H1. auto.
Qed.

Lemma flat_app a b : flat (a ++ b) = flat a ++ flat b.
Proof. unfold flat. apply flat_map_app. Qed.

Lemma str_eqb_sym a b : str_eqb a b = str_eqb b a.
Proof.
  destruct (str_eqb_spec a b) as [->|Hn]; [rewrite str_eqb_refl; reflexivity|].
  destruct (str_eqb_spec b a) as [->|_]; [congruence|reflexivity].
Qed.

Lemma keep_last_nodup l : nodup_str (map sd_name l) = true -> keep_last l = l.
Proof.
  induction l as [|x r IH]; [reflexivity|]. cbn. intros H. apply andb_true_iff in H as [H1 H2].
  apply negb_true_iff in H1.
  replace (existsb (fun y => str_eqb (sd_name y) (sd_name x)) r) with (existsb (str_eqb (sd_name x)) (map sd_name r)).
  - rewrite H1, (IH H2). reflexivity.
  - clear. induction r as [|y r IH]; cbn; [reflexivity|]. rewrite IH, str_eqb_sym. reflexivity.
Qed.

(* Binding.unique_operations is the identity on operations with distinct names *)
Lemma filter_unique (ops : list b_operation) o :
  nodup_str (map bo_name ops) = true -> In o ops ->
  filter (fun x => str_eqb (bo_name x) (bo_name o)) ops = [o].
Proof.
  induction ops as [|x r IH]; intros Hn Hin; [destruct Hin|]. cbn in Hn. apply andb_true_iff in Hn as [Hx Hr].
  apply negb_true_iff in Hx. cbn [filter]. destruct Hin as [->|Hin].
  - rewrite str_eqb_refl. f_equal.
    assert (forall l, existsb (str_eqb (bo_name o)) (map bo_name l) = false ->
                      filter (fun x => str_eqb (bo_name x) (bo_name o)) l = []) as Hf.
    { induction l as [|y l IHl]; cbn; [reflexivity|]. intros H. apply orb_false_iff in H as [H1 H2].
      rewrite str_eqb_sym, H1. auto. }
    apply Hf. exact Hx.
  - destruct (str_eqb (bo_name x) (bo_name o)) eqn:E.
    + exfalso. apply str_eqb_eq in E.
      assert (existsb (str_eqb (bo_name x)) (map bo_name r) = true); [|congruence].
      apply existsb_exists. exists (bo_name o). split; [apply in_map; exact Hin | rewrite E; apply str_eqb_refl].
    + apply IH; assumption.
Qed.

Lemma dedup_first_nodup l : forall seen,
  nodup_str l = true -> (forall x, In x l -> existsb (str_eqb x) seen = false) -> dedup_first seen l = l.
Proof.
  induction l as [|x r IH]; intros seen Hn Hs; [reflexivity|]. cbn in Hn. apply andb_true_iff in Hn as [Hx Hr].
  apply negb_true_iff in Hx. cbn. rewrite (Hs x (or_introl eq_refl)). f_equal. apply IH; [exact Hr|].
  intros y Hy. cbn. rewrite (Hs y (or_intror Hy)), orb_false_r.
  destruct (str_eqb_spec y x) as [->|_]; [|reflexivity].
  exfalso. assert (existsb (str_eqb x) r = true); [|congruence].
  apply existsb_exists. exists x. split; [exact Hy|apply str_eqb_refl].
Qed.

Lemma unique_operations_nodup ops : nodup_str (map bo_name ops) = true -> unique_operations ops = ops.
Proof.
  intros Hn. unfold unique_operations. rewrite dedup_first_nodup; [|exact Hn|intros; reflexivity].
  assert (forall sub, incl sub ops ->
            flat_map (fun k => match rev (filter (fun o => str_eqb (bo_name o) k) ops) with x :: _ => [x] | [] => [] end)
                     (map bo_name sub) = sub) as H.
  { induction sub as [|o r IH]; intros Hi; [reflexivity|]. cbn [map flat_map].
    rewrite (filter_unique ops o Hn (Hi o (or_introl eq_refl))). cbn. f_equal. apply IH.
    intros x Hx. apply Hi. right. exact Hx. }
  apply H. apply incl_refl.
Qed.

Definition is_nil (l : list nat) : bool := match l with [] => true | _ => false end.

Section Global.
  Variables (te : tenv) (d : definitions) (t : str).
  Hypothesis Ht : d_tns d = Some t.
  Hypothesis Htn : nonempty t = true.
  Hypothesis Hmsgs : forallb message_ok (d_messages d) = true.
  Hypothesis Hsh : no_shadow d = true.

  Notation ok := (op_res_ok te d t).

  Lemma inv_flat rs : Forall ok rs -> inv d t (flat rs).
  Proof.
    intros Hrs c Hin Hel. unfold flat in Hin. apply in_flat_map in Hin as [r [Hr Hc]].
    rewrite Forall_forall in Hrs. destruct (Hrs r Hr) as [Hsvc [_ [Hm _]]].
    apply in_app_iff in Hc as [Hc|[<-|[]]].
    - apply Hm; assumption.
    - rewrite (tag_excl _ Hsvc) in Hel. discriminate.
  Qed.

  Lemma services_flat rs : Forall ok rs -> filter (is_tag TagBindingOperation) (flat rs) = map or_svc rs.
  Proof.
    induction rs as [|r rs IH]; intros H; [reflexivity|]. inversion H as [|? ? Hr Hrs]; subst.
    change (flat (r :: rs)) with ((or_msgs r ++ [or_svc r]) ++ flat rs).
    destruct Hr as [Hsvc [Hno _]]. rewrite !filter_app, (filter_none _ _ Hno), (IH Hrs). cbn [filter app]. rewrite Hsvc. reflexivity.
  Qed.

  Lemma shapes_flat rs : Forall ok rs -> shapes te (flat rs) = map or_sd rs.
  Proof.
    intros H. unfold shapes. rewrite (services_flat rs H), map_map. apply map_ext_in. intros r Hr.
    pose proof (inv_flat rs H) as Hinv. rewrite Forall_forall in H. destruct (H r Hr) as [_ [_ [_ Hd]]].
    apply Hd; [exact Hinv|]. intros c Hc. unfold flat. apply in_flat_map. exists r. split; [exact Hr|].
    apply in_app_iff. left. exact Hc.
  Qed.

  Lemma ops_correct b pt p sb loc ops :
    b_soap b = Some sb -> sb_transport sb = Some SOAP_HTTP -> style_ok (sb_style sb) = true ->
    port_address p = Some loc -> nonempty loc = true ->
    forallb (b_operation_ok d b pt) ops = true ->
    forallb is_nil (flat_map (findings_op te d b pt) ops) = true ->
    exists rs,
      concat_opt (map (fun bo => match find_named pto_name (pt_operations pt) (bo_name bo) with
                                 | None => None
                                 | Some po => map_binding_operation d bo po (op_config (port_config b p) bo) (pt_name pt)
                                 end) ops) = Some (flat rs)
      /\ flat_map (expected_op te d p b pt) ops = map or_sd rs /\ Forall ok rs.
  Proof.
    intros Hsb Htr Hsty Hloc Hlocn. induction ops as [|bo r IH]; intros Hok Hf.
    - exists []. repeat split. constructor.
    - cbn in Hok. apply andb_true_iff in Hok as [Hok1 Hok2].
      cbn [flat_map] in Hf. rewrite forallb_app in Hf. apply andb_true_iff in Hf as [Hf1 Hf2].
      destruct (IH Hok2 Hf2) as [rs [Em [Ee Hrs]]].
      destruct (op_correct te d t Ht Htn Hmsgs Hsh b pt p bo sb loc Hsb Htr Hsty Hloc Hlocn Hok1 Hf1)
        as [po [res [Efind [Emap [Eexp Hres]]]]].
      exists (res :: rs). cbn [map concat_opt flat_map]. rewrite Efind, Emap, Em, Eexp, Ee.
      repeat split. constructor; assumption.
  Qed.

  Lemma port_correct p :
    port_ok d p = true -> forallb is_nil (findings_port te d p) = true ->
    exists rs, map_port d p = Some (flat rs) /\ expected_port te d p = map or_sd rs /\ Forall ok rs.
  Proof.
    unfold port_ok, findings_port, expected_port, map_port. intros Hok Hf.
    apply andb_true_iff in Hok as [Haddr Hb].
    destruct (port_address p) as [loc|] eqn:Eloc; [|discriminate].
    destruct (resolve_local d (port_ns p) (port_binding p)) as [lb|] eqn:Erb; [|discriminate]. cbn [obind] in *.
    destruct (find_by b_name (d_bindings d) lb) as [b|] eqn:Efb; [|discriminate].
    destruct (resolve_local_suffix d t _ _ _ Ht Htn Erb) as [_ [_ [_ Esuf]]].
    rewrite Esuf, find_named_eq, Efb.
    unfold binding_ok in Hb. apply andb_true_iff in Hb as [Hb Hpt]. apply andb_true_iff in Hb as [Hsoap Hnodup].
    destruct (b_soap b) as [sb|] eqn:Esb; [|discriminate].
    apply andb_true_iff in Hsoap as [Htr Hsty].
    destruct (resolve_local d (b_ns b) (b_type b)) as [lpt|] eqn:Erpt; [|discriminate]. cbn [obind] in *.
    destruct (find_by pt_name (d_port_types d) lpt) as [pt|] eqn:Efpt; [|discriminate].
    destruct (resolve_local_suffix d t _ _ _ Ht Htn Erpt) as [_ [_ [_ Esuf2]]].
    rewrite Esuf2, find_named_eq, Efpt.
    apply andb_true_iff in Hpt as [_ Hops].
    unfold map_binding. rewrite (unique_operations_nodup _ Hnodup).
    assert (sb_transport sb = Some SOAP_HTTP) as Htr'.
    { destruct (sb_transport sb) as [x|]; [|discriminate]. cbn in Htr. apply str_eqb_eq in Htr. subst. reflexivity. }
    apply (ops_correct b pt p sb loc (b_operations b) Esb Htr' Hsty Eloc Haddr Hops Hf).
  Qed.

  Lemma ports_correct ports :
    forallb (port_ok d) ports = true -> forallb is_nil (flat_map (findings_port te d) ports) = true ->
    exists rs, concat_opt (map (map_port d) ports) = Some (flat rs)
               /\ flat_map (expected_port te d) ports = map or_sd rs /\ Forall ok rs.
  Proof.
    induction ports as [|p r IH]; intros Hok Hf.
    - exists []. repeat split. constructor.
    - cbn in Hok. apply andb_true_iff in Hok as [Hok1 Hok2].
      cbn [flat_map] in Hf. rewrite forallb_app in Hf. apply andb_true_iff in Hf as [Hf1 Hf2].
      destruct (IH Hok2 Hf2) as [rs [Em [Ee Hrs]]].
      destruct (port_correct p Hok1 Hf1) as [rp [Emp [Eep Hrp]]].
      exists (rp ++ rs). cbn [map concat_opt flat_map]. rewrite Emp, Em, Eep, Ee, flat_app, map_app.
      repeat split. apply Forall_app. split; assumption.
  Qed.
End Global.

Lemma forallb_flat_map {A B} (f : B -> bool) (g : A -> list B) l :
  forallb f (flat_map g l) = forallb (fun x => forallb f (g x)) l.
Proof. induction l as [|x r IH]; cbn; [reflexivity|]. rewrite forallb_app, IH. reflexivity. Qed.

(* the mapper theorem *)
Theorem mapper_matches_expected : forall te d,
  wf_definitions d = true -> guard te d = true -> mapper_matches te d.
Proof.
  intros te d Hwf Hg. unfold wf_definitions in Hwf. unfold guard in Hg.
  apply andb_true_iff in Hwf as [Hwf Hports]. apply andb_true_iff in Hwf as [Htns Hmsgs].
  apply andb_true_iff in Hg as [Hg Hsh]. apply andb_true_iff in Hg as [Hfind Hnames].
  destruct (d_tns d) as [t|] eqn:Et; [|discriminate].
  assert (forallb (port_ok d) (flat_map svc_ports (d_services d)) = true) as Hp.
  { rewrite forallb_flat_map. exact Hports. }
  assert (forallb is_nil (flat_map (findings_port te d) (flat_map svc_ports (d_services d))) = true) as Hf.
  { rewrite flat_map_flat_map. exact Hfind. }
  destruct (ports_correct te d t Et Htns Hmsgs Hsh _ Hp Hf) as [rs [Em [Ee Hrs]]].
  unfold mapper_matches, map_definitions. rewrite Em. cbn [option_map]. f_equal.
  unfold final_shapes. rewrite (shapes_flat te d t rs Hrs).
  assert (expected te d = map or_sd rs) as Eexp.
  { unfold expected. rewrite <- flat_map_flat_map. exact Ee. }
  rewrite Eexp. apply keep_last_nodup. unfold names_distinct in Hnames. rewrite Eexp in Hnames. exact Hnames.
Qed.

(* generation succeeds on the fragment (guard or not the mapper raises nothing): partial —
   stated under the guard, which is where it is proved *)
Corollary generation_succeeds : forall te d,
  wf_definitions d = true -> guard te d = true -> exists cs, map_definitions d = Some cs.
Proof.
  intros te d Hwf Hg. pose proof (mapper_matches_expected te d Hwf Hg) as H. unfold mapper_matches in H.
  destruct (map_definitions d) as [cs|]; [eauto|discriminate].
Qed.
