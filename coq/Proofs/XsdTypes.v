(* Proofs/XsdTypes.v — "not retyped": what Model/XsdCorr.v's type_compat buys, stated against the
   converter model of C05 (Model/ConvFactory.v: deserialize over the candidate types in converter
   priority order) and C05's theorems.
     type_compat_first_type   a compatible atomic field has exactly one candidate type, the expected one, so
                              converter priority has nothing to choose (any list of candidates, any converter)
     not_retyped_atomic       under `conv_faithful` for the builtin (an explicit hypothesis: what C05 has to
                              provide per type) every lexical form is accepted by that type and written back
                              as an XSD-equal value
     conv_faithful_boolean    the hypothesis discharged from C05's theorems for xs:boolean
     conv_faithful_string     ... and for the string family with white space preserved (xs:string)
   also: attribute defaults / fixed values re-materialise (from Proofs/Cm.v: check_attrs_sound). *)
From Coq Require Import NArith ZArith List Bool Arith Lia.
From XV Require Import Base.Str Base.Eqb Spec.Cm Spec.XsdVal Spec.XsdCm Spec.XsdPrims
  Model.ConvBool Model.ConvFactory Model.XsdCorr Proofs.Cm Proofs.ConvBool.
Import ListNotations.
Local Close Scope N_scope.
Local Open Scope nat_scope.

Lemma sort_types_singleton t : sort_types [t] = [t].
Proof. reflexivity. Qed.

Lemma list_eqb_str_eq : forall a b, list_eqb str_eqb a b = true -> a = b.
Proof. intros a b H. apply (list_eqb_spec str_eqb str_eqb_eq). exact H. Qed.

Lemma opt_eqb_str_eq : forall a b, opt_eqb str_eqb a b = true -> a = b.
Proof. intros a b H. apply (opt_eqb_spec str_eqb str_eqb_eq). exact H. Qed.

(* a compatible atomic field (no enumeration): its candidate list is [expected type], its format the expected one *)
Lemma type_compat_atom b ws f py fmt :
  type_compat (STAtom b None ws) f = true -> expected_py b = Some (py, fmt) ->
  ft_types f = [py] /\ ft_format f = fmt /\ ft_tokens f = false.
Proof.
  cbn [type_compat]. intros H He. apply andb_true_iff in H as [Ht H]. apply negb_true_iff in Ht.
  unfold atom_compat in H. rewrite He in H. apply andb_true_iff in H as [H _]. apply andb_true_iff in H as [H1 H2].
  apply list_eqb_str_eq in H1. apply opt_eqb_str_eq in H2. auto.
Qed.

Section NotRetyped.
  Context {V : Type}.
  Variable conv : pytype -> str -> option V.       (* one converter: None = ConverterError / no converter *)
  Variable ser : V -> option str -> option str.    (* serialize with a format *)

  Theorem type_compat_first_type b ws f py fmt s v :
    type_compat (STAtom b None ws) f = true -> expected_py b = Some (py, fmt) ->
    conv (TName py) s = Some v ->
    deserialize_gen conv s (sort_types (map TName (ft_types f))) = Some (TName py, v).
  Proof.
    intros Hc He Hv. destruct (type_compat_atom _ _ _ _ _ Hc He) as [Ht _]. rewrite Ht. cbn [map].
    rewrite sort_types_singleton. cbn [deserialize_gen]. rewrite Hv. reflexivity.
  Qed.

  (* what C05 has to establish for the Python type bound to builtin b: every lexical form of b is accepted
     and its serialization denotes the same value *)
  Definition conv_faithful (b : str) (ws : wsmode) (py : str) (fmt : option str) : Prop :=
    forall s, value_valid (STAtom b None ws) s = true ->
      exists v out, conv (TName py) s = Some v /\ ser v fmt = Some out /\ value_eqb (STAtom b None ws) s out = true.

  Theorem not_retyped_atomic b ws f py fmt :
    type_compat (STAtom b None ws) f = true -> expected_py b = Some (py, fmt) ->
    conv_faithful b ws py fmt ->
    forall s, value_valid (STAtom b None ws) s = true ->
      exists v out, deserialize_gen conv s (sort_types (map TName (ft_types f))) = Some (TName py, v)
                    /\ ser v (ft_format f) = Some out /\ value_eqb (STAtom b None ws) s out = true.
  Proof.
    intros Hc He Hf s Hs. destruct (Hf s Hs) as [v [out [Hv [Ho Heq]]]]. exists v, out.
    destruct (type_compat_atom _ _ _ _ _ Hc He) as [_ [Hfmt _]]. rewrite Hfmt.
    split; [eapply type_compat_first_type; eauto|split; assumption].
  Qed.
End NotRetyped.

(* ------------------------------------------------------------------ instances from C05 *)
Lemma canon_boolean_xsd core c : canon_boolean core = Some c ->
  exists v, xsd_boolean core = Some v /\ c = (if v then L_true else L_false).
Proof.
  unfold canon_boolean, xsd_boolean, L_true, L_false.
  change [116; 114; 117; 101]%N with [116%N; 114%N; 117%N; 101%N].
  destruct (str_eqb core [116%N; 114%N; 117%N; 101%N]) eqn:E1; cbn [orb].
  - intros H; inversion H. exists true. split; reflexivity.
  - destruct (str_eqb core [49%N]) eqn:E2; cbn [orb].
    + intros H; inversion H. exists true. split; reflexivity.
    + destruct (str_eqb core [102%N; 97%N; 108%N; 115%N; 101%N]) eqn:E3; cbn [orb].
      * intros H; inversion H. exists false. split; reflexivity.
      * destruct (str_eqb core [48%N]) eqn:E4; cbn [orb]; [|discriminate].
        intros H; inversion H. exists false. split; reflexivity.
Qed.

(* xs:boolean: a lexical form with XML white space around it is accepted by bool, and what the converter writes
   back is the same boolean (C05_bool_accepts_xsd, C05_bool_ser_valid) *)
Theorem not_retyped_boolean core c a b :
  canon_builtin B_boolean core = Some c -> forallb xml_ws a = true -> forallb xml_ws b = true ->
  exists v, bool_deser (a ++ core ++ b) = Some v /\ canon_builtin B_boolean (bool_ser v) = Some c.
Proof.
  intros Hc Ha Hb. change (canon_builtin B_boolean core) with (canon_boolean core) in Hc.
  destruct (canon_boolean_xsd core c Hc) as [v [Hx Hcv]]. exists v. split.
  - apply bool_accepts_xsd; assumption.
  - subst c. destruct v; vm_compute; reflexivity.
Qed.

(* xs:string: the text is the value *)
Theorem not_retyped_string s :
  exists v, string_deser s = Some v /\ value_eqb (STAtom B_string None WsPreserve) s (string_ser v) = true.
Proof.
  exists s. split; [reflexivity|]. unfold string_ser. cbn [value_eqb value_eqb_gen].
  change (canon_value (STAtom B_string None WsPreserve) s) with (Some s). apply str_eqb_refl.
Qed.

(* ------------------------------------------------------------------ attributes: defaults and fixed values re-materialise *)
Theorem xattrs_sound d k :
  attrs_check d k = true ->
  forall x, In x (td_attrs d) -> forall present, valid_attr (attr_decl_canon x) present = true ->
    exists f, afield_roundtrip f present = Some (effective (attr_decl_canon x) present).
Proof.
  unfold attrs_check. intros H x Hx present Hv. apply andb_true_iff in H as [H _].
  destruct (check_attrs_sound _ _ H (attr_decl_canon x) (in_map attr_decl_canon _ _ Hx) present Hv) as [f [_ Hf]].
  exists f. exact Hf.
Qed.

(* ------------------------------------------------------------------ further instances, by citation of C05 / C06
   Stated over the generative lexical spaces of Spec/XsdPrims.v and Spec/XsdDates.v (the specifications C05 and C06 are
   proved against), not over Spec/XsdVal.v's canon functions: every lexical form of the type (with XML white space around
   it) is accepted by the Python type bound to it, and what the converter writes back is again a lexical form of the type
   that denotes the same value (and reads back to the same Python value).  The guards are the ones of C05 / C06. *)
From XV Require Import Base.Dec Base.PyInt Gen.ConvTables Model.ConvInt Model.ConvBytes Model.ConvDecimal Model.ConvGuards Model.Dates Model.DatesCorr
  Spec.XsdDates Proofs.ConvInt Proofs.ConvBytes Proofs.ConvDecimal Proofs.DatesParse Proofs.DatesFormat.

(* xs:integer and the types derived from it (bound to int) *)
Theorem not_retyped_integer i a b :
  wf_integer i = true -> int_sp_in_limit i = true ->
  forallb xml_ws a = true -> forallb xml_ws b = true ->
  (int_ndigits (val_integer i) <= int_max_str_digits)%N ->
  exists out i', int_deser (a ++ lex_integer i ++ b) = Some (val_integer i)
    /\ int_ser (val_integer i) = Some out
    /\ wf_integer i' = true /\ lex_integer i' = out /\ val_integer i' = val_integer i
    /\ int_deser out = Some (val_integer i).
Proof.
  intros W L A B N. pose proof (int_ser_defined _ N) as S.
  destruct (int_ser_valid _ _ S) as [i' [W' [Lx [V' _]]]].
  exists (py_str_of_Z (val_integer i)), i'.
  split; [apply int_accepts_xsd; assumption|]. split; [exact S|]. split; [exact W'|]. split; [exact Lx|].
  split; [exact V'|]. apply int_roundtrip. exact S.
Qed.

(* xs:decimal (bound to Decimal) *)
Theorem not_retyped_decimal d a b :
  wf_decimal d = true -> dec_sp_fits d = true ->
  forallb xml_ws a = true -> forallb xml_ws b = true ->
  let v := val_decimal d in
  let py := DFin (dn_neg v) (dn_coeff v) (dn_exp v) in
  exists d', dec_deser (a ++ lex_decimal d ++ b) = Some py
    /\ wf_decimal d' = true /\ lex_decimal d' = dec_ser py
    /\ decnum_eq (val_decimal d') (mk_decnum (dn_neg v) (dn_coeff v) (dn_exp v)) = true.
Proof.
  intros W F A B v py.
  destruct (dec_ser_valid (dn_neg v) (dn_coeff v) (dn_exp v)) as [d' [W' [Lx E]]].
  exists d'. split; [apply dec_accepts_xsd; assumption|]. split; [exact W'|]. split; [exact Lx|exact E].
Qed.

(* xs:hexBinary (bound to bytes, format base16) *)
Theorem not_retyped_hexBinary k core v a b :
  xsd_hexBinary core = Some v -> bytes_ok v = true ->
  forallb xml_ws a = true -> forallb xml_ws b = true ->
  exists out, bytes_deser (Some bytes_fmt_base16) (a ++ core ++ b) = Some v
    /\ bytes_ser k (Some bytes_fmt_base16) v = Some out /\ xsd_hexBinary out = Some v.
Proof.
  intros X O A B. exists (b16encode v).
  split; [apply hex_accepts_xsd; assumption|]. split; [|apply hex_ser_valid; exact O].
  unfold bytes_ser. replace (fmt_is (Some bytes_fmt_base16) bytes_fmt_base16) with true by (vm_compute; reflexivity).
  rewrite orb_true_r. reflexivity.
Qed.

(* xs:base64Binary (bound to bytes, format base64) *)
Theorem not_retyped_base64Binary s v :
  xsd_base64Binary s = Some v -> bytes_ok v = true ->
  exists out, bytes_deser (Some bytes_fmt_base64) s = Some v
    /\ bytes_ser BPlain (Some bytes_fmt_base64) v = Some out /\ xsd_base64Binary out = Some v.
Proof.
  intros X O. exists (b64encode v).
  split; [apply b64_accepts_xsd; exact X|]. split; [vm_compute; reflexivity|apply b64_ser_valid; exact O].
Qed.

(* xs:date (bound to XmlDate) *)
Theorem not_retyped_date sp a b :
  wf_date sp = true -> year_len_ok (ds_year sp) ->
  forallb xml_ws a = true -> forallb xml_ws b = true ->
  let v := mk_xdate (val_year (ds_year sp)) (ds_month sp) (ds_day sp) (val_tz (ds_tz sp)) in
  valid_date_value v = true -> year_fits (d_year v) ->
  date_from_string (a ++ lex_date sp ++ b) = Some v
  /\ date_str v = lex_date (canon_date v) /\ wf_date (canon_date v) = true
  /\ date_from_string (date_str v) = Some v.
Proof.
  intros W Y A B v V F. split; [apply date_accepts; assumption|].
  destruct (date_str_canonical v V) as [E Wc]. split; [exact E|]. split; [exact Wc|]. apply date_roundtrip; assumption.
Qed.

(* xs:time (bound to XmlTime) *)
Theorem not_retyped_time sp a b :
  wf_time sp = true -> forallb xml_ws a = true -> forallb xml_ws b = true ->
  let v := mk_xtime (ts_hour sp) (ts_minute sp) (ts_second sp) (val_frac (ts_frac sp)) (val_tz (ts_tz sp)) in
  valid_time_value v = true ->
  time_from_string (a ++ lex_time sp ++ b) = Some v
  /\ time_str v = lex_time (canon_time v) /\ wf_time (canon_time v) = true
  /\ time_from_string (time_str v) = Some v.
Proof.
  intros W A B v V. split; [apply time_accepts; assumption|].
  destruct (time_str_canonical v V) as [E [Wc _]]. split; [exact E|]. split; [exact Wc|]. apply time_roundtrip; assumption.
Qed.

(* xs:dateTime (bound to XmlDateTime) *)
Theorem not_retyped_dateTime sp a b :
  wf_datetime sp = true -> year_len_ok (dts_year sp) ->
  forallb xml_ws a = true -> forallb xml_ws b = true ->
  let v := mk_xdatetime (val_year (dts_year sp)) (dts_month sp) (dts_day sp)
             (dts_hour sp) (dts_minute sp) (dts_second sp) (val_frac (dts_frac sp)) (val_tz (dts_tz sp)) in
  valid_datetime_value v = true -> year_fits (dt_year v) ->
  datetime_from_string (a ++ lex_datetime sp ++ b) = Some v
  /\ datetime_str v = lex_datetime (canon_datetime v) /\ wf_datetime (canon_datetime v) = true
  /\ datetime_from_string (datetime_str v) = Some v.
Proof.
  intros W Y A B v V F. split; [apply datetime_accepts; assumption|].
  destruct (datetime_str_canonical v V) as [E [Wc _]]. split; [exact E|]. split; [exact Wc|].
  apply datetime_roundtrip; assumption.
Qed.
