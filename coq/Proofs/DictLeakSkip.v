(* Proofs/DictLeakSkip.v — C10 for the dictionary decoder: with fail_on_unknown_properties off, a
   key that matches no field and no wrapper of the class (DictDecoder.find_var answers None) can be
   added to a dictionary bound by bind_dataclass without changing the outcome. *)
From Coq Require Import NArith ZArith List Bool Arith Lia.
From XV Require Import Base.Str Base.Eqb Base.PyInt Model.Bind Model.DictCodec Model.Parser
  Model.DictLeak Model.DictLeakCorr Proofs.DictLeakDoc.
Import ListNotations.

Section Skip.
  Variable g : generics.
  Variable c : conv.
  Variable u : universe.

  Lemma bind_items_app cfg meta vars i1 : forall k1 i2 k2 acc,
    length i1 = length k1 ->
    bind_items c cfg meta vars (i1 ++ i2) (k1 ++ k2) acc
    = dbind (bind_items c cfg meta vars i1 k1 acc) (fun acc' => bind_items c cfg meta vars i2 k2 acc').
  Proof.
    induction i1 as [|[key j] r IH]; intros k1 i2 k2 acc Hl.
    - destruct k1; [|discriminate]. cbn [app bind_items dbind].
      destruct i2; reflexivity.
    - destruct k1 as [|[kk d] kr]; [discriminate|]. cbn [app bind_items length] in *. injection Hl as Hl.
      destruct (find_var vars key j) as [var|].
      + destruct (d cfg _) as [v|k]; cbn [dbind]; [|reflexivity].
        destruct (v_init var); [apply IH; exact Hl|].
        destruct (of_res (validate_fixed c var v)); cbn [dbind]; [apply IH; exact Hl|reflexivity].
      + destruct (d_fail_unknown cfg); [reflexivity|apply IH; exact Hl].
  Qed.

  Lemma bind_items_unknown cfg meta vars key j (d : decoder) r kr acc :
    d_fail_unknown cfg = false -> find_var vars key j = None ->
    bind_items c cfg meta vars ((key, j) :: r) ((key, d) :: kr) acc = bind_items c cfg meta vars r kr acc.
  Proof. intros Hf Hv. cbn [bind_items]. rewrite Hv, Hf. reflexivity. Qed.

  (* the unknown key, anywhere in the dictionary *)
  Theorem dict_unknown_key_transparent : forall cfg cl meta m1 k x m2,
    d_fail_unknown cfg = false ->
    u_meta u cl = Some meta ->
    find_var (get_all_vars meta) k x = None ->
    keys_are (m1 ++ m2) DERIVED_KEYS = false ->
    keys_are (m1 ++ (k, x) :: m2) DERIVED_KEYS = false ->
    dec g c u (JDict (m1 ++ (k, x) :: m2)) cfg (EDataclass cl) = dec g c u (JDict (m1 ++ m2)) cfg (EDataclass cl).
  Proof.
    intros cfg cl meta m1 k x m2 Hf Hm Hv Hd Hd'.
    rewrite !dec_dict. cbn [run_dict]. unfold dict_bind_dataclass. rewrite Hd, Hd'.
    unfold d_meta. rewrite Hm. cbn [dbind]. f_equal.
    rewrite !map_app. cbn [map fst snd].
    rewrite !bind_items_app by (rewrite map_length; reflexivity).
    destruct (bind_items c cfg meta (get_all_vars meta) m1 _ []) as [acc|kk]; cbn [dbind]; [|reflexivity].
    apply bind_items_unknown; assumption.
  Qed.

  (* DictDecoder.decode on an object document *)
  Corollary decode_unknown_key_transparent : forall cfg cl meta m1 k x m2,
    d_fail_unknown cfg = false ->
    u_meta u cl = Some meta ->
    find_var (get_all_vars meta) k x = None ->
    keys_are (m1 ++ m2) DERIVED_KEYS = false ->
    keys_are (m1 ++ (k, x) :: m2) DERIVED_KEYS = false ->
    decode g c u cfg (Some cl) false (JDict (m1 ++ (k, x) :: m2)) = decode g c u cfg (Some cl) false (JDict (m1 ++ m2)).
  Proof.
    intros. unfold decode. cbn [j_is_array Bool.eqb dbind].
    apply dict_unknown_key_transparent with (meta := meta); assumption.
  Qed.

  (* strict default: the same key is a ParserError, whatever follows it *)
  Theorem dict_unknown_key_strict : forall cfg cl meta m1 k x m2 acc,
    d_fail_unknown cfg = true ->
    u_meta u cl = Some meta ->
    find_var (get_all_vars meta) k x = None ->
    keys_are (m1 ++ (k, x) :: m2) DERIVED_KEYS = false ->
    bind_items c cfg meta (get_all_vars meta) m1 (map (fun kv => (fst kv, dec g c u (snd kv))) m1) [] = DOk acc ->
    dec g c u (JDict (m1 ++ (k, x) :: m2)) cfg (EDataclass cl) = DErr KParserError.
  Proof.
    intros cfg cl meta m1 k x m2 acc Hf Hm Hv Hd Hpre.
    rewrite dec_dict. cbn [run_dict]. unfold dict_bind_dataclass. rewrite Hd.
    unfold d_meta. rewrite Hm. cbn [dbind].
    rewrite map_app. cbn [map fst snd].
    rewrite bind_items_app by (rewrite map_length; reflexivity). rewrite Hpre. cbn [dbind bind_items].
    rewrite Hv, Hf. reflexivity.
  Qed.
End Skip.

(* ---------------------------------------------------------------- the oracle of harness/c10.py *)
Fixpoint remove_key (k : str) (m : list (str * jvalue)) : list (str * jvalue) :=
  match m with
  | [] => []
  | (k', x) :: r => if str_eqb k k' then r else (k', x) :: remove_key k r
  end.

(* hypotheses of decode_unknown_key_transparent for "document j' = plain document + key k" *)
Definition unknown_key_guard (u : universe) (cfg : dconfig) (clazz : option cls) (j' : jvalue) (k : str) : bool :=
  match clazz, j' with
  | Some cl, JDict m' =>
      match u_meta u cl, assoc k m' with
      | Some meta, Some x =>
          negb (d_fail_unknown cfg)
          && negb (is_some (find_var (get_all_vars meta) k x))
          && negb (keys_are m' DERIVED_KEYS) && negb (keys_are (remove_key k m') DERIVED_KEYS)
      | _, _ => false
      end
  | _, _ => false
  end.
