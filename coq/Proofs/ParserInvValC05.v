(* Proofs/ParserInvValC05.v — the converter law of C09(d) (`reads_alike_single`'s two premises)
   for the converters property C05 models: the padded XSD lexical form is read to the same
   value as the bare one.  Corollaries of the C05 `*_accepts_xsd` lemmas; and a non-vacuity
   example of `val_invariant` with a converter built on the modelled int() / bool readers. *)
From Coq Require Import NArith ZArith List Bool.
From XV Require Import Base.Str Base.Eqb Base.PyInt Spec.XsdPrims Model.Bind Model.Parser
  Model.ConvBool Model.ConvInt Model.ConvDecimal Model.ConvFloat Model.ConvBytes Model.ConvGuards Gen.ConvTables
  Proofs.ConvBool Proofs.ConvInt Proofs.ConvDecimal Proofs.ConvFloat Proofs.ConvBytes Proofs.ConvQName
  Proofs.ParserSkip Proofs.ParserWitness Proofs.ParserInvVal.
From XV Require Model.ConvQName.
Import ListNotations.

Lemma bool_padding s v a b :
  xsd_boolean s = Some v -> forallb xml_ws a = true -> forallb xml_ws b = true ->
  bool_deser (a ++ s ++ b) = Some v /\ bool_deser s = Some v.
Proof.
  intros H Ha Hb. split; [exact (bool_accepts_xsd s v a b H Ha Hb)|].
  pose proof (bool_accepts_xsd s v [] [] H eq_refl eq_refl) as E. cbn [app] in E. rewrite app_nil_r in E. exact E.
Qed.

Lemma int_padding i a b :
  wf_integer i = true -> int_sp_in_limit i = true -> forallb xml_ws a = true -> forallb xml_ws b = true ->
  int_deser (a ++ lex_integer i ++ b) = Some (val_integer i) /\ int_deser (lex_integer i) = Some (val_integer i).
Proof.
  intros H1 H2 Ha Hb. split; [exact (int_accepts_xsd i a b H1 H2 Ha Hb)|].
  pose proof (int_accepts_xsd i [] [] H1 H2 eq_refl eq_refl) as E. cbn [app] in E. rewrite app_nil_r in E. exact E.
Qed.

Lemma decimal_padding d a b :
  wf_decimal d = true -> dec_sp_fits d = true -> forallb xml_ws a = true -> forallb xml_ws b = true ->
  dec_deser (a ++ lex_decimal d ++ b) = dec_deser (lex_decimal d).
Proof.
  intros H1 H2 Ha Hb. rewrite (dec_accepts_xsd d a b H1 H2 Ha Hb).
  pose proof (dec_accepts_xsd d [] [] H1 H2 eq_refl eq_refl) as E. cbn [app] in E. rewrite app_nil_r in E. rewrite E. reflexivity.
Qed.

Lemma float_padding d a b :
  wf_double d = true -> forallb xml_ws a = true -> forallb xml_ws b = true ->
  float_syntax (a ++ lex_double d ++ b) = float_syntax (lex_double d).
Proof.
  intros H1 Ha Hb. rewrite (float_syntax_spelled d a b H1 Ha Hb).
  pose proof (float_syntax_spelled d [] [] H1 eq_refl eq_refl) as E. cbn [app] in E. rewrite app_nil_r in E. rewrite E. reflexivity.
Qed.

Lemma hex_padding core v a b :
  xsd_hexBinary core = Some v -> forallb xml_ws a = true -> forallb xml_ws b = true ->
  bytes_deser (Some bytes_fmt_base16) (a ++ core ++ b) = bytes_deser (Some bytes_fmt_base16) core.
Proof.
  intros H Ha Hb. rewrite (hex_accepts_xsd core v a b H Ha Hb).
  pose proof (hex_accepts_xsd core v [] [] H eq_refl eq_refl) as E. cbn [app] in E. rewrite app_nil_r in E. rewrite E. reflexivity.
Qed.

Lemma qname_padding q env a b v :
  wf_qname q = true -> val_qname env q = Some v -> qname_sp_edge_guard q = true ->
  forallb xml_ws a = true -> forallb xml_ws b = true ->
  ConvQName.qname_deser (a ++ lex_qname q ++ b) (Some env) = ConvQName.qname_deser (lex_qname q) (Some env).
Proof.
  intros H1 H2 H3 Ha Hb. rewrite (qname_accepts_xsd q env a b v H1 H2 H3 Ha Hb).
  pose proof (qname_accepts_xsd q env [] [] v H1 H2 H3 eq_refl eq_refl) as E. cbn [app] in E. rewrite app_nil_r in E.
  rewrite E. reflexivity.
Qed.

(* ---------------------------------------------------------------- non-vacuity *)
(* a converter on the modelled int() / bool readers *)
Definition conv_intbool : conv :=
  mk_conv (fun tys _ _ s => if existsb (ptype_eqb TInt) tys then option_map PInt (int_deser s)
                            else if existsb (ptype_eqb TBool) tys then option_map PBool (bool_deser s)
                            else Some (PStr s))
          (fun _ p => match p with PStr s => s | _ => [] end)
          (fun _ _ => false) (fun _ => ([], false)) (fun _ => None).

(* <R><a>17</a><b>x</b></R>   vs   <R><a>\n 17\t</a><b>x</b></R>   (R.a : int, R.b : str) *)
Definition ev_val_plain : list pevent :=
  [PStart [82] [] []; PStart [97] [] []; PEnd [97] (Some [49;55]) None;
   PStart [98] [] []; PEnd [98] (Some [120]) None; PEnd [82] None None]%N.
Definition ev_val_padded : list pevent :=
  [PStart [82] [] []; PStart [97] [] []; PEnd [97] (Some [10;32;49;55;9]) None;
   PStart [98] [] []; PEnd [98] (Some [120]) None; PEnd [82] None None]%N.

Example val_variant_nonvacuous :
  val_variant (cfg_of true false false nodefault_required) conv_intbool u_required
              (replay_n 6 conv_intbool u_required) (Some root_required) init_state ev_val_plain ev_val_padded
  /\ ev_val_plain <> ev_val_padded
  /\ exists v, parse (cfg_of true false false nodefault_required) conv_intbool u_required (Some root_required) ev_val_padded = Ok v [].
Proof.
  split; [|split; [discriminate|eexists; vm_compute; reflexivity]].
  cbn [val_variant ev_val_plain ev_val_padded]. split; [reflexivity|].
  vm_compute. repeat split; try reflexivity.
  - right. eexists. split; reflexivity.
  - left. reflexivity.
  - left. reflexivity.
Qed.

(* the guard is needed: padding the text of a str field changes the object *)
Theorem val_padding_str_refuted :
  exists cfg c u root evs evs',
    parse cfg c u root evs <> parse cfg c u root evs'
    /\ evs' = [PStart [82] [] []; PStart [97] [] []; PEnd [97] (Some [49;55]) None;
               PStart [98] [] []; PEnd [98] (Some [32;120]) None; PEnd [82] None None]%N
    /\ evs = ev_val_plain.
Proof.
  do 6 eexists. split; [|split; reflexivity].
  instantiate (1 := Some root_required). instantiate (1 := u_required). instantiate (1 := conv_intbool).
  instantiate (1 := cfg_of true false false nodefault_required).
  vm_compute. discriminate.
Qed.
Print Assumptions val_variant_nonvacuous.
