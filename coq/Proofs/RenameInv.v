(* Proofs/RenameInv.v — after rename_duplicate_attributes the slugs of a class's attrs are
   pairwise distinct (unconditionally since the by-preference rename goes through unique_name). *)
From Coq Require Import NArith PeanoNat List Bool Lia String.
From XV Require Import Base.Str Base.Dec Gen.SafeTables Model.Safe Model.Rename
  Proofs.SafeText Proofs.RenameUnique.
Import ListNotations.
Open Scope N_scope.

(* ------------------------------------------------------------------ group_by facts *)
Lemma In_positions keys k i :
  In i (positions_of keys k) <-> (i < List.length keys)%nat /\ nth i keys [] = k.
Proof.
  unfold positions_of. rewrite filter_In, in_seq, str_eqb_eq. cbn. split; intros [H1 H2]; split; auto; lia.
Qed.

Lemma positions_NoDup keys k : NoDup (positions_of keys k).
Proof. unfold positions_of. apply NoDup_filter. apply seq_NoDup. Qed.

Lemma dedup_In l : forall seen k, In k (dedup l seen) <-> In k l /\ ~ In k seen.
Proof.
  induction l as [|x l IH]; intros seen k; cbn [dedup]; [cbn; tauto|].
  destruct (str_in x seen) eqn:E.
  - apply str_in_In in E. rewrite IH. cbn. split; [tauto|]. intros [[<-|H] Hn]; [tauto|tauto].
  - apply str_in_false in E. cbn [In]. rewrite IH. cbn [In]. split.
    + intros [<-|[H1 H2]]; [tauto|]. split; [tauto|]. intros H3. apply H2. right. exact H3.
    + intros [[<-|H1] H2]; [tauto|]. destruct (str_eqb_spec x k) as [->|Hne]; [tauto|].
      right. split; [exact H1|]. intros [H3|H3]; [congruence|tauto].
Qed.

Lemma dedup_NoDup l : forall seen, NoDup (dedup l seen).
Proof.
  induction l as [|x l IH]; intros seen; cbn [dedup]; [constructor|].
  destruct (str_in x seen); [apply IH|]. constructor; [|apply IH].
  rewrite dedup_In. cbn. tauto.
Qed.

(* ------------------------------------------------------------------ the invariant *)
Section Rename.
  Variable l0 : list attr.
  Let n := List.length l0.
  Let keys := map attr_key l0.
  Let key0 (i : nat) : str := nth i keys [].

  Lemma keys_length : List.length keys = n.
  Proof. unfold keys. apply map_length. Qed.

  Lemma key0_get i : (i < n)%nat -> key0 i = attr_key (get l0 i).
  Proof.
    intros H. unfold key0, keys, get.
    rewrite (nth_indep _ [] (attr_key dummy_attr)) by (rewrite map_length; exact H).
    apply map_nth.
  Qed.

  Lemma slug_key a b : a_slug a = a_slug b -> attr_key a = attr_key b.
  Proof. unfold attr_key. intros ->. reflexivity. Qed.

  Definition Inv (K : list str) (l : list attr) : Prop :=
    List.length l = n /\
    (forall i, (i < n)%nat -> In (key0 i) K -> distinct_from l i) /\
    (forall i, (i < n)%nat -> ~ In (key0 i) K -> get l i = get l0 i).

  (* the member of a group that keeps its name ends up distinct from everybody *)
  Lemma keeper_distinct K k l p0 :
    List.length l = n -> ~ In k K -> (p0 < n)%nat -> key0 p0 = k ->
    (forall i, (i < n)%nat -> In (key0 i) K -> distinct_from l i) ->
    (forall i, (i < n)%nat -> key0 i = k -> i <> p0 -> distinct_from l i) ->
    (forall i, (i < n)%nat -> ~ In (key0 i) K -> (key0 i <> k \/ i = p0) -> get l i = get l0 i) ->
    distinct_from l p0.
  Proof.
    intros Hl Hk Hp Hkp HK Hg Hu j Hj Hn E. rewrite Hl in Hj.
    destruct (in_dec (list_eq_dec N.eq_dec) (key0 j) K) as [HjK|HjK].
    - apply (HK j Hj HjK p0); [rewrite Hl; exact Hp|congruence|symmetry; exact E].
    - destruct (list_eq_dec N.eq_dec (key0 j) k) as [Ejk|Ejk].
      + apply (Hg j Hj Ejk Hn p0); [rewrite Hl; exact Hp|congruence|symmetry; exact E].
      + rewrite (Hu j Hj HjK (or_introl Ejk)) in E.
        rewrite (Hu p0 Hp) in E by (try (rewrite Hkp; exact Hk); right; reflexivity).
        apply Ejk. rewrite <- Hkp, (key0_get j Hj), (key0_get p0 Hp). apply slug_key. exact E.
  Qed.

  (* rename_attributes_by_index over the tail r of a group *)
  Lemma by_index_inv K k p0 : forall r l,
    ~ In k K -> List.length l = n ->
    (forall i, (i < n)%nat -> In (key0 i) K -> distinct_from l i) ->
    (forall i, (i < n)%nat -> key0 i = k -> ~ In i r -> i <> p0 -> distinct_from l i) ->
    (forall i, (i < n)%nat -> ~ In (key0 i) K -> (key0 i <> k \/ In i r \/ i = p0) -> get l i = get l0 i) ->
    (forall p, In p r -> (p < n)%nat /\ key0 p = k /\ p <> p0) -> NoDup r ->
    let l' := rename_by_index l r in
    List.length l' = n /\
    (forall i, (i < n)%nat -> In (key0 i) K -> distinct_from l' i) /\
    (forall i, (i < n)%nat -> key0 i = k -> i <> p0 -> distinct_from l' i) /\
    (forall i, (i < n)%nat -> ~ In (key0 i) K -> (key0 i <> k \/ i = p0) -> get l' i = get l0 i).
  Proof.
    induction r as [|p r IH]; intros l Hk Hl HK Hg Hu Hr Hnd; cbn [rename_by_index].
    - cbn zeta. split; [exact Hl|split; [exact HK|split]].
      + intros i Hi Ek Hn. apply Hg; auto.
      + intros i Hi HiK Hc. apply Hu; auto. destruct Hc; auto.
    - destruct (Hr p (or_introl eq_refl)) as [Hp [Hkp Hpp0]].
      inversion Hnd as [|x xs Hnin Hnd']; subst x xs.
      set (nm := unique_name (a_name (get l p)) (map a_slug l)).
      assert (Hfresh : ~ In (alnum nm) (slugs_except p l)).
      { intros Hin. apply In_slugs_except in Hin as [j [Hj [_ E]]].
        pose proof (unique_name_fresh (a_name (get l p)) (map a_slug l)) as F. fold nm in F.
        apply str_in_false in F. apply F. apply In_slugs. exists j. auto. }
      assert (Hpl : (p < List.length l)%nat) by (rewrite Hl; exact Hp).
      destruct (fresh_set p nm l Hpl Hfresh) as [F1 F2].
      apply IH; clear IH.
      + exact Hk.
      + rewrite set_name_length. exact Hl.
      + intros i Hi HiK. apply F2; [rewrite Hl; exact Hi| |apply HK; auto].
        intros ->. rewrite Hkp in HiK. contradiction.
      + intros i Hi Ek Hni Hn0. destruct (Nat.eq_dec i p) as [->|Hne]; [exact F1|].
        apply F2; [rewrite Hl; exact Hi|exact Hne|]. apply Hg; auto. intros [->|H]; [congruence|contradiction].
      + intros i Hi HiK Hc. rewrite get_set_other.
        * apply Hu; auto. destruct Hc as [Hc|[Hc|Hc]]; auto. right. left. right. exact Hc.
        * intros ->. destruct Hc as [Hc|[Hc|Hc]]; [congruence|contradiction|congruence].
      + intros q Hq. apply Hr. right. exact Hq.
      + exact Hnd'.
  Qed.

  Lemma preference_pos a b i j : fst (preference a b i j) = i \/ fst (preference a b i j) = j.
  Proof.
    unfold preference.
    destruct (str_eqb (a_tag a) (a_tag b) && (ns_truthy (a_ns a) || ns_truthy (a_ns b))).
    - destruct (ns_truthy (a_ns b)); cbn; auto.
    - destruct (a_is_attribute b); cbn; auto.
  Qed.

  (* one group *)
  Lemma group_step K k l :
    Inv K l -> ~ In k K ->
    Inv (k :: K) (rename_group l (positions_of keys k)).
  Proof.
    intros [Hl [HK Hu]] Hk.
    pose proof (positions_NoDup keys k) as Hnd.
    assert (Hmem : forall i, In i (positions_of keys k) <-> (i < n)%nat /\ key0 i = k).
    { intros i. rewrite In_positions, keys_length. reflexivity. }
    set (g := positions_of keys k) in *.
    (* by-index on the tail of g, for every shape that takes that branch *)
    assert (ByIndex : forall p0 r, g = p0 :: r -> Inv (k :: K) (rename_by_index l r)).
    { intros p0 r Eg.
      assert (Hp0 : (p0 < n)%nat /\ key0 p0 = k) by (apply Hmem; rewrite Eg; left; reflexivity).
      destruct Hp0 as [Hp0 Hkp0]. rewrite Eg in Hnd. inversion Hnd as [|? ? Hnin Hnd']; subst.
      destruct (by_index_inv K (key0 p0) p0 r l Hk Hl HK) as [L1 [L2 [L3 L4]]].
      - intros i Hi Ek Hni Hn0. exfalso.
        assert (Hin : In i g) by (apply Hmem; auto). rewrite Eg in Hin. destruct Hin; [congruence|contradiction].
      - intros i Hi HiK _. apply Hu; auto.
      - intros p Hp. assert (Hin : In p g) by (rewrite Eg; right; exact Hp).
        apply Hmem in Hin as [H1 H2]. repeat split; auto. intros ->. contradiction.
      - exact Hnd'.
      - split; [exact L1|split].
        + intros i Hi [Ek|HiK]; [|apply L2; auto].
          destruct (Nat.eq_dec i p0) as [->|Hne]; [|apply L3; auto].
          apply (keeper_distinct K (key0 p0) _ p0); auto.
        + intros i Hi HiK. apply L4; auto.
          * intros H. apply HiK. right. exact H.
          * left. intros E. apply HiK. left. symmetry. exact E. }
    unfold rename_group. fold g.
    destruct g as [|i [|j [|j2 r]]] eqn:Eg.
    - (* empty group: nothing has this key *)
      split; [exact Hl|split].
      + intros i Hi [Ek|HiK]; [|apply HK; auto]. exfalso.
        assert (Hin : In i []) by (apply Hmem; auto). destruct Hin.
      + intros i Hi HiK. apply Hu; auto. intros H. apply HiK. right. exact H.
    - apply (ByIndex i []). reflexivity.
    - destruct (negb (a_is_enumeration (get l i))) eqn:Een.
      + (* by preference *)
        unfold rename_by_preference.
        pose proof (preference_pos (get l i) (get l j) i j) as Hpos.
        destruct (preference (get l i) (get l j) i j) as [p nm0] eqn:Ep. cbn [fst] in Hpos.
        set (nm := unique_name nm0 (slugs_except p l)).
        assert (Hpf : ~ In (alnum nm) (slugs_except p l))
          by (apply str_in_false; apply unique_name_fresh).
        assert (Hi : (i < n)%nat /\ key0 i = k) by (apply Hmem; left; reflexivity).
        assert (Hj : (j < n)%nat /\ key0 j = k) by (apply Hmem; right; left; reflexivity).
        assert (Hij : i <> j) by (inversion Hnd as [|? ? Hnin _]; subst; intros ->; apply Hnin; left; reflexivity).
        destruct Hi as [Hi Hki], Hj as [Hj Hkj].
        assert (Hp : (p < n)%nat /\ key0 p = k) by (destruct Hpos as [->| ->]; auto).
        destruct Hp as [Hp Hkp].
        assert (Hpl : (p < List.length l)%nat) by (rewrite Hl; exact Hp).
        destruct (fresh_set p nm l Hpl Hpf) as [F1 F2].
        assert (Only : forall x, (x < n)%nat -> key0 x = k -> x = i \/ x = j).
        { intros x Hx Ex. assert (Hin : In x [i; j]) by (apply Hmem; auto). cbn in Hin. intuition. }
        set (q := if Nat.eqb p i then j else i).
        assert (Hq : (q < n)%nat /\ key0 q = k /\ q <> p /\ (forall x, (x < n)%nat -> key0 x = k -> x = p \/ x = q)).
        { unfold q. destruct (Nat.eqb_spec p i) as [->|Hne].
          - split; [exact Hj|split; [exact Hkj|split; [congruence|]]].
            intros x Hx Ex. destruct (Only x Hx Ex); auto.
          - destruct Hpos as [->| ->]; [congruence|].
            split; [exact Hi|split; [exact Hki|split; [congruence|]]].
            intros x Hx Ex. destruct (Only x Hx Ex); auto. }
        destruct Hq as [Hq [Hkq [Hqp Hpq]]]. clearbody q.
        split; [rewrite set_name_length; exact Hl|split].
        * intros x Hx [Ek|HxK].
          -- destruct (Hpq x Hx (eq_sym Ek)) as [->| ->]; [exact F1|].
             apply (keeper_distinct K k _ q); auto.
             ++ rewrite set_name_length; exact Hl.
             ++ intros y Hy HyK. apply F2; [rewrite Hl; exact Hy| |apply HK; auto].
                intros ->. rewrite Hkp in HyK. contradiction.
             ++ intros y Hy Ey Hyq. destruct (Hpq y Hy Ey) as [->| ->]; [exact F1|congruence].
             ++ intros y Hy HyK Hc. rewrite get_set_other; [apply Hu; auto|].
                intros ->. destruct Hc as [Hc|Hc]; congruence.
          -- apply F2; [rewrite Hl; exact Hx| |apply HK; auto].
             intros ->. rewrite Hkp in HxK. contradiction.
        * intros x Hx HxK. rewrite get_set_other.
          -- apply Hu; auto. intros H. apply HxK. right. exact H.
          -- intros ->. apply HxK. left. symmetry. exact Hkp.
      + apply (ByIndex i [j]). reflexivity.
    - apply (ByIndex i (j :: j2 :: r)). reflexivity.
  Qed.

  (* the whole fold *)
  Lemma fold_inv : forall ks K l,
    Inv K l -> NoDup ks -> (forall k, In k ks -> ~ In k K) ->
    Inv (rev ks ++ K) (fold_left rename_group (map (positions_of keys) ks) l).
  Proof.
    induction ks as [|k ks IH]; intros K l HI Hnd Hks.
    - exact HI.
    - cbn [map fold_left].
      inversion Hnd as [|x xs Hnin Hnd']; subst x xs.
      assert (HI' := group_step K k l HI (Hks k (or_introl eq_refl))).
      assert (Hks' : forall k', In k' ks -> ~ In k' (k :: K)).
      { intros k' Hk' [<-|H]; [contradiction|]. apply (Hks k'); [right; exact Hk'|exact H]. }
      pose proof (IH (k :: K) _ HI' Hnd' Hks') as I.
      cbn [rev]. rewrite <- app_assoc. exact I.
  Qed.

  Theorem rename_slugs_distinct : NoDup (map a_slug (rename_duplicate_attributes l0)).
  Proof.
    unfold rename_duplicate_attributes, group_by. fold keys.
    assert (I0 : Inv [] l0).
    { split; [reflexivity|split]; [intros i _ []|reflexivity]. }
    destruct (fold_inv (dedup keys []) [] l0 I0 (dedup_NoDup keys []) (fun _ _ H => H)) as [Hl [HK _]].
    set (l' := fold_left rename_group (map (positions_of keys) (dedup keys [])) l0) in *.
    apply (NoDup_nth _ (a_slug dummy_attr)). intros i j Hi Hj E.
    rewrite map_length in Hi, Hj. rewrite !map_nth in E. fold (get l' i) in E. fold (get l' j) in E.
    destruct (Nat.eq_dec i j) as [->|Hne]; [reflexivity|]. exfalso.
    rewrite Hl in Hi, Hj.
    assert (HiK : In (key0 i) (rev (dedup keys []) ++ [])).
    { rewrite app_nil_r. apply -> in_rev. apply dedup_In. split; [|tauto].
      unfold key0. apply nth_In. rewrite keys_length. exact Hi. }
    apply (HK i Hi HiK j); [rewrite Hl; exact Hj|congruence|symmetry; exact E].
  Qed.
End Rename.
