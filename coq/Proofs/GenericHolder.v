(* Proofs/GenericHolder.v — C11 for typed classes that hold a wildcard field
   (single value, list, mixed list, compound field with a wildcard choice): what
   the field captures is what the stand-alone TreeParser builds for each child,
   and generating events from the holder denotes the document again. *)
From Coq Require Import NArith ZArith List Bool Lia.
From XV Require Import Base.Str Base.Eqb Base.PyInt Gen.GenericTables Spec.Infoset Model.Generic
  Proofs.GenericParse Proofs.GenericWrite Proofs.GenericRoundtrip.
Import ListNotations.
Open Scope N_scope.

(* ---- preconditions ---------------------------------------------------------------- *)
(* a first-level child that reaches a WildcardNode of the holder's wildcard *)
Definition not_in_reg (reg : list wcfg) (q : str) : bool :=
  match find (fun n => str_eqb (c_rq n) q) reg with Some _ => false | None => true end.
Definition child_ok (reg : list wcfg) (c : wcfg) (m' : nsmap) (k : itree) : bool :=
  negb (existsb (str_eqb (i_name k)) (c_typed c)) && match_namespace (c_nss c) (i_name k) && fl_generic m' k
  && not_in_reg reg (i_name k).

(* the wildcard var matches its own synthetic qname (bind_object looks it up again) *)
Definition cfg_ok (c : wcfg) : bool :=
  match_namespace (c_nss c) (c_vq c) && negb (existsb (str_eqb (c_vq c)) (c_typed c)).

Definition holder_pre (reg : list wcfg) (c : wcfg) (t : itree) : bool :=
  let m' := i_nsd t ++ [] in
  cfg_ok c
  && str_eqb (i_name t) (c_rq c)
  && negb (has_xsi (i_atts t))
  && all_ws (i_tail t)
  && ws_consistent (i_text t)
  && forallb (child_ok reg c m') (i_kids t)
  && (match c_kind c with
      | KSingle => match i_atts t with [] => true | _ => false end
      | KChoice => all_ws (i_text t) && (c_amap c || match i_atts t with [] => true | _ => false end)
      | _ => c_amap c || match i_atts t with [] => true | _ => false end
      end)
  && g_wf [] t && guard_any [] t.

Lemma child_of_root_ok reg c m' k pos :
  child_ok reg c m' k = true ->
  child_of_root reg c (i_name k) (i_atts k) (i_nsd k ++ m') pos
  = Ok (NWild (c_vq c) (i_atts k) (i_nsd k ++ m') pos).
Proof.
  unfold child_ok, child_of_root, fl_generic, generic_or_class, not_in_reg. intros H.
  apply andb_true_iff in H as [H H4]. apply andb_true_iff in H as [H H3]. apply andb_true_iff in H as [H1 H2].
  apply negb_true_iff in H1. rewrite H1, H2. cbn [negb].
  destruct (find (fun n => str_eqb (c_rq n) (i_name k)) reg); [discriminate|].
  destruct (xsi_type (i_atts k) (i_nsd k ++ m')) as [[t|]|e]; try discriminate; [|reflexivity].
  destruct (datatype_of_qname t); [discriminate|reflexivity].
Qed.

(* ---- parsing the children of the holder --------------------------------------------- *)
Lemma root_forest reg c o ra m' p ks : forall i objs rest,
  forallb (child_ok reg c m') ks = true ->
  prun (MTyped reg c) (flat_mapi (fun i k => pump o m' (i :: p) k) i ks ++ rest) (mkP [NRoot ra m'] objs None)
  = prun (MTyped reg c) rest (mkP [NRoot ra m'] (objs ++ keyed (c_vq c) (any_kids o m' p i ks)) None).
Proof.
  induction ks as [|k ks IH]; intros i objs rest H.
  - cbn. rewrite app_nil_r. reflexivity.
  - cbn in H. apply andb_true_iff in H as [Hk Hks].
    cbn [flat_mapi]. rewrite <- app_assoc.
    pose proof (child_of_root_ok reg c m' k (length objs) Hk) as C.
    destruct k as [kn ka kd kx kks kl]. cbn [i_name i_atts i_nsd] in C.
    cbn [pump]. cbn [app prun pstep pstart p_queue p_objs p_done]. rewrite C.
    rewrite <- app_assoc. cbn [app].
    assert (F : Forall wild_ok kks) by (apply Forall_forall; intros; apply wild_ok_all).
    rewrite (wild_body kks F).
    rewrite IH by exact Hks.
    unfold any_kids. cbn [mapi keyed map]. rewrite <- app_assoc. reflexivity.
Qed.

Lemma holder_parse reg c o rq ra rd rx ks rl :
  has_xsi ra = false -> forallb (child_ok reg c (rd ++ [])) ks = true ->
  wild_parse reg c (pump o [] [] (INode rq ra rd rx ks rl))
  = bind_root c ra (rd ++ []) (cut (o_text o []) rx) (cut (o_tail o []) rl)
              (keyed (c_vq c) (any_kids o (rd ++ []) [] 0 ks)).
Proof.
  intros Hx Hk. unfold wild_parse. cbn [pump].
  cbn [prun pstep pstart pinit p_queue p_objs p_done]. rewrite Hx.
  rewrite (root_forest reg c o ra (rd ++ []) [] ks 0 [] _ Hk).
  cbn [app prun pstep pend p_queue p_objs p_done].
  destruct (bind_root c ra (rd ++ []) (cut (o_text o []) rx) (cut (o_tail o []) rl)
                      (keyed (c_vq c) (any_kids o (rd ++ []) [] 0 ks))); reflexivity.
Qed.

(* the stand-alone TreeParser builds the same values, child by child *)
Lemma any_kids_tree_parse o m' p ks : forall i,
  map Some (any_kids o m' p i ks) = mapi (fun i k => tree_parse (pump o m' (i :: p) k)) i ks.
Proof.
  induction ks as [|k ks IH]; intros i; [reflexivity|].
  unfold any_kids in *. cbn [mapi map]. rewrite tree_parse_pump. f_equal. apply IH.
Qed.

(* ---- binding ---------------------------------------------------------------------------- *)
Section Bind.
  Variable c : wcfg.
  Hypothesis Hc : cfg_ok c = true.

  Lemma bind_object_key w v :
    bind_object c (Ok w) (Some (c_vq c), v) = Ok (bind_wild_var (c_kind c) w v).
  Proof.
    unfold cfg_ok in Hc. apply andb_true_iff in Hc as [H1 H2]. apply negb_true_iff in H2.
    unfold bind_object. cbn [fst snd]. rewrite H2, H1. reflexivity.
  Qed.

  Lemma fold_many (Hk : c_kind c <> KSingle) vs : forall acc,
    fold_left (bind_object c) (keyed (c_vq c) vs) (Ok (WMany acc)) = Ok (WMany (acc ++ vs)).
  Proof.
    induction vs as [|v vs IH]; intros acc; cbn [keyed map fold_left].
    - rewrite app_nil_r. reflexivity.
    - rewrite bind_object_key.
      assert (E : bind_wild_var (c_kind c) (WMany acc) v = WMany (acc ++ [v])) by (destruct (c_kind c); reflexivity).
      rewrite E. fold (keyed (c_vq c) vs). rewrite IH, <- app_assoc. reflexivity.
  Qed.

  Lemma fold_list (Hk : c_kind c <> KSingle) vs :
    fold_left (bind_object c) (keyed (c_vq c) vs) (Ok WNone)
    = Ok (match vs with [] => WNone | _ => WMany vs end).
  Proof.
    destruct vs as [|v vs]; [reflexivity|].
    cbn [keyed map fold_left]. rewrite bind_object_key.
    assert (E : bind_wild_var (c_kind c) WNone v = WMany [v]) by (destruct (c_kind c); congruence || reflexivity).
    rewrite E. fold (keyed (c_vq c) vs). rewrite (fold_many Hk). reflexivity.
  Qed.

  Lemma fold_wrapper (Hk : c_kind c = KSingle) vs : forall acc,
    fold_left (bind_object c) (keyed (c_vq c) vs) (Ok (WOne (GAny None None None acc [])))
    = Ok (WOne (GAny None None None (acc ++ vs) [])).
  Proof.
    induction vs as [|v vs IH]; intros acc; cbn [keyed map fold_left].
    - rewrite app_nil_r. reflexivity.
    - rewrite bind_object_key, Hk. cbn [bind_wild_var]. fold (keyed (c_vq c) vs).
      rewrite IH, <- app_assoc. reflexivity.
  Qed.
End Bind.

Definition is_elem (v : gval) : bool :=
  match v with GAny (Some _) _ _ _ _ => true | GDerived _ _ => true | GHolder _ _ _ _ => true | _ => false end.

Lemma any_kids_elem o m' p ks : forall i, forallb is_elem (any_kids o m' p i ks) = true.
Proof.
  induction ks as [|[n a d x kk l] ks IH]; intros i; [reflexivity|].
  unfold any_kids in *. cbn [mapi forallb]. rewrite any_of_eq. cbn zeta. cbn [is_elem]. apply IH.
Qed.

Lemma fold_single c (Hc : cfg_ok c = true) (Hk : c_kind c = KSingle) vs :
  forallb is_elem vs = true ->
  fold_left (bind_object c) (keyed (c_vq c) vs) (Ok WNone)
  = Ok (match vs with
        | [] => WNone
        | [v] => WOne v
        | _ => WOne (GAny None None None vs [])
        end).
Proof.
  intros He. destruct vs as [|v1 [|v2 vs]]; [reflexivity| |].
  - cbn [keyed map fold_left]. rewrite (bind_object_key c Hc), Hk. reflexivity.
  - cbn in He. apply andb_true_iff in He as [H1 _].
    assert (E : bind_wild_var KSingle (WOne v1) v2 = WOne (GAny None None None [v1; v2] [])).
    { destruct v1 as [[q|] ? ? ? ?| | |]; try discriminate; reflexivity. }
    cbn [keyed map fold_left]. rewrite (bind_object_key c Hc), Hk.
    change (bind_wild_var KSingle WNone v1) with (WOne v1).
    rewrite (bind_object_key c Hc), Hk, E. fold (keyed (c_vq c) vs).
    rewrite (fold_wrapper c Hc Hk). reflexivity.
Qed.

(* ---- what the holder field holds ------------------------------------------------------------ *)
Definition text_item (tx : option str) : list gval :=
  match tx with Some s => [GText (Some s)] | None => [] end.

Definition single_value (tx : option str) (vs : list gval) : wval :=
  let w := match vs with [] => WNone | [v] => WOne v | _ => WOne (GAny None None None vs []) end in
  match tx with
  | None => w
  | Some s => WOne (GAny None (Some s) None (match w with WOne p => [p] | WMany l => l | WNone => [] end) [])
  end.

Definition holder_value (c : wcfg) (tx : option str) (vs : list gval) : wval :=
  match c_kind c with
  | KSingle => single_value tx vs
  | KChoice => WMany vs
  | _ => WMany (text_item tx ++ vs)
  end.

Lemma normalize_all_ws l : all_ws l = true -> normalize_content (cut None l) = None.
Proof.
  intros H. unfold cut. destruct l as [|c l]; [reflexivity|].
  cbn [normalize_content]. rewrite (all_ws_py _ H). reflexivity.
Qed.

Theorem holder_captures reg c o t :
  is_full o -> holder_pre reg c t = true ->
  wild_parse reg c (pump o [] [] t)
  = Ok (mkRobj (if c_amap c then parse_any_attributes (i_nsd t ++ []) (i_atts t) else [])
               (holder_value c (normalize_content (cut None (i_text t)))
                             (any_kids o (i_nsd t ++ []) [] 0 (i_kids t)))).
Proof.
  intros [Hot Hol] H. destruct t as [rq ra rd rx ks rl]. unfold holder_pre in H. cbn [i_name i_atts i_nsd i_text i_kids i_tail] in *.
  apply andb_true_iff in H as [H Hg]. apply andb_true_iff in H as [H Hwf]. apply andb_true_iff in H as [H Hkind].
  apply andb_true_iff in H as [H Hkids]. apply andb_true_iff in H as [H Hws]. apply andb_true_iff in H as [H Htl].
  apply andb_true_iff in H as [H Hxsi]. apply andb_true_iff in H as [Hc Hname].
  apply negb_true_iff in Hxsi.
  rewrite (holder_parse reg c o rq ra rd rx ks rl Hxsi Hkids). rewrite Hot, Hol.
  unfold bind_root, bind_core, finish_w, holder_atts.
  rewrite (normalize_all_ws rl Htl). cbn [truthy andb].
  set (vs := any_kids o (rd ++ []) [] 0 ks).
  set (tx := normalize_content (cut None rx)).
  unfold holder_value.
  destruct (c_kind c) eqn:K.
  - (* single *)
    rewrite (fold_single c Hc K vs (any_kids_elem o (rd ++ []) [] ks 0)).
    destruct ra as [|? ?]; [|discriminate Hkind].
    unfold bind_wild_text. rewrite K, ?(normalize_all_ws rl Htl). fold tx. unfold single_value.
    destruct tx as [s|]; cbn [parse_any_attributes map].
    + destruct (c_amap c); reflexivity.
    + destruct (c_amap c); destruct vs as [|v1 [|v2 vs']]; reflexivity.
  - (* list *)
    assert (Kn : c_kind c <> KSingle) by congruence.
    rewrite (fold_list c Hc Kn vs).
    unfold bind_wild_text. rewrite K, ?(normalize_all_ws rl Htl). fold tx. unfold text_item.
    destruct tx as [s|]; destruct vs as [|v vs']; reflexivity.
  - (* mixed *)
    rewrite keyed_snd.
    unfold bind_wild_text. rewrite K, ?(normalize_all_ws rl Htl). fold tx. unfold text_item.
    destruct tx as [s|]; reflexivity.
  - (* compound field *)
    assert (Kn : c_kind c <> KSingle) by congruence.
    rewrite (fold_list c Hc Kn vs).
    destruct vs as [|v vs']; reflexivity.
Qed.

(* C11: "the stand-alone tree parser builds the same generic tree" — a class with a
   single wildcard field and one child element holds exactly what the TreeParser
   builds for that element in the same context *)
Theorem tree_parser_eq_wildcard_capture reg c o rq rd rx k rl :
  is_full o -> c_kind c = KSingle -> all_ws rx = true ->
  holder_pre reg c (INode rq [] rd rx [k] rl) = true ->
  exists v, tree_parse (pump o (rd ++ []) [O] k) = Some v /\
            wild_parse reg c (pump o [] [] (INode rq [] rd rx [k] rl)) = Ok (mkRobj [] (WOne v)).
Proof.
  intros Ho K Hx H. exists (any_of o (rd ++ []) [O] k). split; [apply tree_parse_pump|].
  rewrite (holder_captures reg c o _ Ho H). cbn [i_nsd i_atts i_text i_kids].
  rewrite (normalize_all_ws rx Hx). unfold holder_value. rewrite K.
  cbn [parse_any_attributes map]. destruct (c_amap c); reflexivity.
Qed.

(* and, for list-valued placements, child by child *)
Theorem wildcard_list_captures_tree_parser reg c o t :
  is_full o -> c_kind c <> KSingle -> holder_pre reg c t = true ->
  exists vs,
    map Some vs = mapi (fun i k => tree_parse (pump o (i_nsd t ++ []) [i] k)) 0 (i_kids t) /\
    exists pre ra, wild_parse reg c (pump o [] [] t) = Ok (mkRobj ra (WMany (pre ++ vs))).
Proof.
  intros Ho K H. exists (any_kids o (i_nsd t ++ []) [] 0 (i_kids t)). split; [apply any_kids_tree_parse|].
  rewrite (holder_captures reg c o t Ho H). unfold holder_value.
  destruct (c_kind c); [congruence| | |]; eexists; eexists; try reflexivity.
  instantiate (1 := []). reflexivity.
Qed.

(* ---- generating from the holder ---------------------------------------------------------------- *)
Lemma opt_concat_some {A} (l : list (list A)) : opt_concat (map Some l) = Some (concat l).
Proof. induction l as [|x l IH]; cbn; [reflexivity| rewrite IH; reflexivity]. Qed.

Lemma gen_choice_kids reg c o m' p ks : forall i,
  forallb (child_ok reg c m') ks = true ->
  map (gen_choice c) (any_kids o m' p i ks) = map Some (map gen_val (any_kids o m' p i ks)).
Proof.
  induction ks as [|k ks IH]; intros i H; [reflexivity|].
  cbn in H. apply andb_true_iff in H as [Hk Hks].
  unfold any_kids in *. cbn [mapi map]. rewrite (IH (S i) Hks). f_equal.
  destruct k as [n a d x kk l]. rewrite any_of_eq. cbn zeta. cbn [gen_choice].
  unfold child_ok in Hk. cbn [i_name] in Hk.
  apply andb_true_iff in Hk as [Hk _]. apply andb_true_iff in Hk as [Hk _]. apply andb_true_iff in Hk as [_ Hm]. rewrite Hm, orb_true_r. reflexivity.
Qed.

Lemma flat_map_concat {A B} (f : A -> list B) l : flat_map f l = concat (map f l).
Proof. induction l as [|x l IH]; cbn; [reflexivity| rewrite IH; reflexivity]. Qed.

(* the events for the content of the holder: optional text, then the children *)
Definition content_ok (evs : list wevent) (tx : option str) (vs : list gval) : Prop :=
  forall q a stk rest,
    wrun (evs ++ rest) (mkF q a [] [] true :: stk)
    = wrun rest (let f1 := match tx, vs with
                           | None, [] => mkF q a [] [] true
                           | _, _ => mkF q a (ostr tx) [] false
                           end in
                 add_kids f1 (map tree_of vs) :: stk).

Lemma content_list tx vs :
  forallb elem_ok vs = true ->
  (match tx with Some [] => False | _ => True end) ->
  content_ok (flat_map gen_val (text_item tx ++ vs)) tx vs.
Proof.
  intros He Hne q a stk rest. rewrite flat_map_app, <- app_assoc.
  destruct tx as [[|c s]|]; [contradiction| |].
  - cbn [text_item flat_map gen_val app option_map wrun add_text data_text prim_text f_kids f_name f_atts f_text].
    rewrite (spec_forest_gen vs He). reflexivity.
  - cbn [text_item flat_map app]. rewrite (spec_forest_gen vs He).
    destruct vs as [|v vs]; [reflexivity|].
    cbn [map add_kids fold_left]. reflexivity.
Qed.

Lemma gen_wrapper t kids :
  gen_val (GAny None t None kids []) = WData (option_map PStr t) :: flat_map gen_val kids.
Proof. cbn [gen_val opt_ev option_map map app truthy]. rewrite app_nil_r. reflexivity. Qed.

Definition single_events (tx : option str) (vs : list gval) : list wevent :=
  match single_value tx vs with WNone => [] | WOne v => gen_val v | WMany l => flat_map gen_val l end.

Lemma single_events_eq tx vs :
  single_events tx vs
  = (match tx with Some s => [WData (Some (PStr s))] | None => [] end)
      ++ (match vs with _ :: _ :: _ => [WData None] | _ => [] end)
      ++ flat_map gen_val vs.
Proof.
  unfold single_events, single_value.
  destruct tx as [s|]; destruct vs as [|v1 [|v2 vs]];
    rewrite ?gen_wrapper; cbn [flat_map app option_map]; rewrite ?gen_wrapper, ?app_nil_r; reflexivity.
Qed.

Lemma content_single tx vs :
  forallb elem_ok vs = true ->
  (match tx with Some [] => False | _ => True end) ->
  content_ok (single_events tx vs) tx vs.
Proof.
  intros He Hne q a stk rest. rewrite single_events_eq, <- !app_assoc.
  destruct tx as [[|c s]|]; [contradiction| |].
  - cbn [app wrun add_text data_text prim_text f_kids f_name f_atts f_text].
    destruct vs as [|v1 [|v2 vs]]; cbn [app wrun add_text data_text f_kids f_name f_atts f_text];
      rewrite (spec_forest_gen _ He); reflexivity.
  - destruct vs as [|v1 [|v2 vs]]; cbn [app wrun add_text data_text f_kids f_name f_atts f_text];
      rewrite (spec_forest_gen _ He); reflexivity.
Qed.

Lemma wrun_holder rq ratts evs tx vs :
  nodup_keys ratts = true -> content_ok evs tx vs ->
  itree_of_wevents (WStart rq :: map attr_ev ratts ++ evs ++ [WEnd rq])
  = Some (INode rq ratts [] (ostr tx) (map tree_of vs) []).
Proof.
  intros Hn Hc. unfold itree_of_wevents. cbn [wrun].
  rewrite (wrun_attrs ratts [] rq [] [] [close_attrs bottom]) by exact Hn.
  cbn [app]. rewrite (Hc rq ratts [close_attrs bottom] [WEnd rq]).
  cbn [wrun]. rewrite add_kids_name.
  assert (N : forall f1 : frame, f1 = match tx, vs with
                                      | None, [] => mkF rq ratts [] [] true
                                      | _, _ => mkF rq ratts (ostr tx) [] false
                                      end -> f_name f1 = rq /\ f_atts f1 = ratts /\ f_text f1 = ostr tx /\ f_kids f1 = []).
  { intros f1 ->. destruct tx as [s|]; destruct vs; repeat split; reflexivity. }
  specialize (N _ eq_refl) as (N1 & N2 & N3 & N4).
  rewrite N1, str_eqb_refl. rewrite frame_tree_add_kids. rewrite N1, N2, N3, N4. reflexivity.
Qed.

Lemma normalize_nonempty v : normalize_content v <> Some [].
Proof. destruct v as [[|c s]|]; cbn [normalize_content forallb]; try congruence. destruct (py_isspace c && forallb py_isspace s); congruence. Qed.

(* C11 for holder classes (specification reading of the writer events) *)
Theorem holder_roundtrip_ok reg c o t :
  is_full o -> holder_pre reg c t = true ->
  holder_roundtrip reg c o t = Some (norm_ws_root (canon [] t)).
Proof.
  intros Ho H. unfold holder_roundtrip. rewrite (holder_captures reg c o t Ho H).
  destruct t as [rq ra rd rx ks rl]. unfold holder_pre in H. cbn [i_name i_atts i_nsd i_text i_kids i_tail] in *.
  apply andb_true_iff in H as [H Hg]. apply andb_true_iff in H as [H Hwf]. apply andb_true_iff in H as [H Hkind].
  apply andb_true_iff in H as [H Hkids]. apply andb_true_iff in H as [H Hws]. apply andb_true_iff in H as [H Htl].
  apply andb_true_iff in H as [H Hxsi]. apply andb_true_iff in H as [Hc Hname].
  apply str_eqb_eq in Hname. subst rq.
  apply guard_any_node in Hg as (Gr & Gx & Gs & Gk). rewrite app_nil_r in *.
  apply g_wf_node_split in Hwf as [Wa Wk]. rewrite app_nil_r in Wk.
  unfold g_rewrite_node, g_xsitype_node in *. cbn [i_atts] in *.
  set (vs := any_kids o rd [] 0 ks).
  set (tx := normalize_content (cut None rx)).
  assert (Hvs : forallb elem_ok vs = true) by (apply elem_kids; [apply Forall_forall; intros; apply elem_all | exact Wk]).
  assert (Htx : match tx with Some [] => False | _ => True end).
  { pose proof (normalize_nonempty (cut None rx)) as N. fold tx in N. destruct tx as [[|? ?]|]; auto. }
  set (ratts := if c_amap c then parse_any_attributes rd ra else []).
  assert (Hra : ratts = map (canon_attr rd) ra).
  { unfold ratts. destruct (c_amap c).
    - apply parse_attrs_canon; assumption.
    - destruct (c_kind c); cbn in Hkind; try (rewrite andb_true_iff in Hkind; destruct Hkind as [_ Hkind]);
        destruct ra; try discriminate; reflexivity. }
  assert (Hnd : nodup_keys ratts = true).
  { unfold ratts. destruct (c_amap c); [|reflexivity].
    rewrite (nodup_keys_fst _ ra (parse_attrs_keys rd ra)). exact Wa. }
  (* the generated events *)
  assert (G : exists evs, gen_root c (mkRobj ratts (holder_value c tx vs)) = Some (WStart (c_rq c) :: map attr_ev ratts ++ evs ++ [WEnd (c_rq c)])
                          /\ content_ok evs tx vs).
  { unfold gen_root, holder_value. cbn [r_w r_atts].
    destruct (c_kind c) eqn:K.
    - exists (single_events tx vs). split; [|apply content_single; assumption].
      unfold single_events, single_value.
      destruct tx as [s|]; destruct vs as [|v1 [|v2 vs']]; reflexivity.
    - exists (flat_map gen_val (text_item tx ++ vs)). split; [reflexivity|apply content_list; assumption].
    - exists (flat_map gen_val (text_item tx ++ vs)). split; [reflexivity|apply content_list; assumption].
    - assert (T : tx = None).
      { cbn in Hkind. apply andb_true_iff in Hkind as [Hx _]. unfold tx. apply normalize_all_ws. exact Hx. }
      exists (flat_map gen_val (text_item tx ++ vs)). split; [|apply content_list; assumption].
      rewrite T. cbn [text_item app].
      unfold vs. rewrite (gen_choice_kids reg c o rd [] ks 0 Hkids), opt_concat_some, <- flat_map_concat. reflexivity. }
  destruct G as (evs & Ge & Gc).
  fold ratts. fold vs. fold tx. rewrite Ge.
  rewrite (wrun_holder (c_rq c) ratts evs tx vs Hnd Gc).
  (* against the specification *)
  unfold norm_ws_root. cbn [canon norm_ws]. rewrite app_nil_r.
  f_equal. rewrite Hra. unfold vs.
  rewrite (denotes_kids ks (proj2 (Forall_forall _ _) (fun k _ => denotes_all k)) o rd [] 0 Ho Gk).
  rewrite Htl.
  assert (Etx : ostr tx = if all_ws rx then [] else rx) by (apply normalize_ws_consistent; exact Hws).
  rewrite Etx.
  f_equal.
  destruct (map (canon rd) ks); destruct (all_ws rx) eqn:A; cbn; rewrite ?A; reflexivity.
Qed.

(* ---- the preconditions are satisfiable (non-vacuity) ------------------------------------------- *)
From XV Require Import Proofs.GenericRefute.

Definition w_ok_amap : itree :=
  match w_ok_holder with INode n _ d x k l => INode n [([122], [49]); ([121], [113; 58; 49])] d x k l end.

Example holder_pre_nonvacuous :
  holder_pre reg_w cfg_single w_ok_holder = true /\ holder_pre reg_w cfg_list w_ok_holder = true /\
  holder_pre reg_w cfg_mixed w_ok_holder = true /\ holder_pre reg_w cfg_choice w_ok_choice = true /\
  holder_pre reg_w cfg_list_amap w_ok_amap = true.
Proof. repeat split; vm_compute; reflexivity. Qed.

Example holder_roundtrip_computed :
  holder_roundtrip reg_w cfg_single full_oracle w_ok_holder = expect_root w_ok_holder /\
  holder_written reg_w cfg_single full_oracle w_ok_holder = expect_root w_ok_holder /\
  holder_written reg_w cfg_list_amap full_oracle w_ok_amap = expect_root w_ok_amap /\
  holder_written reg_w cfg_choice full_oracle w_ok_choice = expect_root w_ok_choice.
Proof. repeat split; vm_compute; reflexivity. Qed.
