(* Proofs/DatesFormat.v — str() of a valid value is the canonical XSD spelling of
   that value (hence XSD-valid), and parses back to the value. *)
From Coq Require Import NArith ZArith List Bool Lia ZifyBool.
From XV Require Import Base.Str Base.Dec Base.PyInt Base.Eqb Gen.DatesTables Model.Dates Model.DatesCorr
  Spec.XsdDates Proofs.DatesCal Proofs.DatesParse.
Import ListNotations.
Open Scope Z_scope.
Ltac Zify.zify_post_hook ::= Z.to_euclidean_division_equations.

(* ---- %02d on 0..99 is the two-digit field ------------------------------ *)
Fixpoint upto (n : nat) : list N := match n with O => [] | S k => upto k ++ [N.of_nat k] end.

Lemma upto_In n k : (k < n)%nat -> In (N.of_nat k) (upto n).
Proof.
  induction n as [|n IH]; [lia|]. intros H. cbn. apply in_or_app.
  destruct (Nat.eq_dec k n) as [->|]; [right; left; reflexivity| left; apply IH; lia].
Qed.

Lemma fmt02_sweep :
  forallb (fun n => str_eqb (zfill 2 (to_dec n)) (d2 (Z.of_N n))) (upto 100) = true.
Proof. vm_compute. reflexivity. Qed.

Lemma fmt_0wd_2 n : 0 <= n <= 99 -> fmt_0wd 2 n = d2 n.
Proof.
  intros H. pose proof fmt02_sweep as S. rewrite forallb_forall in S.
  specialize (S (Z.to_N n)). rewrite Z2N.id in S by lia.
  assert (I : In (Z.to_N n) (upto 100)).
  { replace (Z.to_N n) with (N.of_nat (Z.to_nat n)) by lia. apply upto_In. lia. }
  specialize (S I). apply str_eqb_eq in S.
  unfold fmt_0wd. destruct n; try lia; exact S.
Qed.

(* ---- the year ----------------------------------------------------------- *)
Lemma format_year_lex y :
  (if y <? 0 then [45%N] ++ fmt_0wd 4 (- y) else fmt_0wd 4 y) = lex_year (canon_year y).
Proof.
  unfold lex_year, canon_year. cbn [y_neg y_digits].
  destruct (y <? 0) eqn:E.
  - f_equal. unfold fmt_0wd. destruct y; try lia. cbn [Z.opp Z.abs]. reflexivity.
  - cbn [app]. unfold fmt_0wd. destruct y; try lia; reflexivity.
Qed.

Lemma hd_zfill_big w s : (w <= length s)%nat -> zfill w s = s.
Proof. intros H. unfold zfill, rjust. replace (w - length s)%nat with 0%nat by lia. reflexivity. Qed.

Lemma wf_canon_year y : wf_year (canon_year y) = true.
Proof.
  unfold wf_year, canon_year. cbn [y_neg y_digits].
  set (n := Z.to_N (Z.abs y)).
  rewrite zfill_digits by apply to_dec_digits. cbn [andb].
  rewrite zfill_length.
  destruct (Nat.le_gt_cases (length (to_dec n)) 4) as [L|L].
  - replace (Nat.max 4 (length (to_dec n))) with 4%nat by lia. reflexivity.
  - replace (Nat.max 4 (length (to_dec n))) with (length (to_dec n)) by lia.
    assert (Hn : n <> 0%N).
    { intro E. rewrite E in L. cbn in L. lia. }
    pose proof (to_dec_no_leading_zero n Hn) as Z0.
    rewrite hd_zfill_big by lia.
    destruct (to_dec n) as [|c r] eqn:E; [cbn in L; lia|].
    cbn in Z0. cbn [hd]. destruct (N.eqb c 48); [discriminate|].
    apply orb_true_iff. right. apply andb_true_iff. split; [apply Nat.ltb_lt; exact L|reflexivity].
Qed.

Lemma val_canon_year y : val_year (canon_year y) = y.
Proof.
  unfold val_year, canon_year. cbn [y_neg y_digits]. rewrite str_val_zfill, str_val_to_dec.
  destruct (y <? 0) eqn:E; lia.
Qed.

(* ---- the time zone -------------------------------------------------------- *)
Lemma format_offset_lex o : real_offset o = true -> format_offset o = lex_tz (canon_tz o).
Proof.
  intros R. destruct o as [z|]; [|reflexivity]. cbn [real_offset] in R.
  unfold format_offset, canon_tz. destruct (z =? 0) eqn:E0; [reflexivity|].
  unfold lex_tz.
  assert (A : (if z <? 0 then - z else z) = Z.abs z) by (destruct (z <? 0) eqn:E; lia).
  rewrite A. rewrite !fmt_0wd_2 by lia. destruct (z <? 0); reflexivity.
Qed.

Lemma wf_canon_tz o : real_offset o = true -> wf_tz (canon_tz o) = true.
Proof.
  intros R. destruct o as [z|]; [|reflexivity]. cbn [real_offset] in R.
  unfold canon_tz. destruct (z =? 0) eqn:E0; [reflexivity|]. cbn [wf_tz]. lia.
Qed.

Lemma val_canon_tz o : val_tz (canon_tz o) = o.
Proof.
  destruct o as [z|]; [|reflexivity]. unfold canon_tz.
  destruct (z =? 0) eqn:E0; cbn [val_tz]; [f_equal; lia|].
  destruct (z <? 0) eqn:E; f_equal; lia.
Qed.

(* ---- fractional seconds ------------------------------------------------------ *)
Lemma zfill_exact w n : (n < 10 ^ N.of_nat w)%N -> (0 < w)%nat -> length (zfill w (to_dec n)) = w.
Proof.
  intros H Hw. rewrite zfill_length. pose proof (to_dec_length_le n w H Hw). lia.
Qed.

Lemma zfill_nonempty w s : (0 < w)%nat -> zfill w s <> [].
Proof.
  intros H E. apply (f_equal (@length N)) in E. rewrite zfill_length in E. cbn in E. lia.
Qed.

Lemma val_frac_zfill w k :
  (0 < w <= 9)%nat -> 0 <= k -> (Z.to_N k < 10 ^ N.of_nat w)%N ->
  val_frac (zfill w (to_dec (Z.to_N k))) = k * 10 ^ (9 - Z.of_nat w).
Proof.
  intros Hw Hk H. unfold val_frac. rewrite str_val_zfill, str_val_to_dec.
  rewrite zfill_exact by (try exact H; lia). rewrite Z2N.id by lia. reflexivity.
Qed.

Lemma wf_frac_zfill w n : (0 < w <= 9)%nat -> (n < 10 ^ N.of_nat w)%N -> wf_frac (zfill w (to_dec n)) = true.
Proof.
  intros Hw H. unfold wf_frac. rewrite zfill_digits by apply to_dec_digits.
  rewrite zfill_exact by (try exact H; lia). apply Nat.leb_le. lia.
Qed.

Lemma trim_frac_spec f :
  0 <= f <= 999999999 -> wf_frac (trim_frac f) = true /\ val_frac (trim_frac f) = f.
Proof.
  intros H. unfold trim_frac.
  destruct (f =? 0) eqn:E0; [split; [reflexivity|cbn; lia]|].
  destruct (f mod 1000 =? 0) eqn:E1; cbn [negb].
  - destruct ((f / 1000) mod 1000 =? 0) eqn:E2; cbn [negb].
    + split; [apply wf_frac_zfill; [lia|]|rewrite val_frac_zfill; [|lia|lia|]].
      * change (10 ^ N.of_nat 3)%N with 1000%N. lia.
      * change (10 ^ (9 - Z.of_nat 3)) with 1000000. lia.
      * change (10 ^ N.of_nat 3)%N with 1000%N. lia.
    + split; [apply wf_frac_zfill; [lia|]|rewrite val_frac_zfill; [|lia|lia|]].
      * change (10 ^ N.of_nat 6)%N with 1000000%N. lia.
      * change (10 ^ (9 - Z.of_nat 6)) with 1000. lia.
      * change (10 ^ N.of_nat 6)%N with 1000000%N. lia.
  - split; [apply wf_frac_zfill; [lia|]|rewrite val_frac_zfill; [|lia|lia|]].
    + change (10 ^ N.of_nat 9)%N with 1000000000%N. lia.
    + change (10 ^ (9 - Z.of_nat 9)) with 1. lia.
    + change (10 ^ N.of_nat 9)%N with 1000000000%N. lia.
Qed.

Lemma fmt_0wd_nonneg w z : 0 <= z -> fmt_0wd w z = zfill w (to_dec (Z.to_N z)).
Proof. intros H. unfold fmt_0wd. destruct z; try lia; reflexivity. Qed.

Lemma lex_frac_cons fs : fs <> [] -> lex_frac fs = 46%N :: fs.
Proof. destruct fs; [congruence|reflexivity]. Qed.

Lemma format_time_lex h mi s f :
  real_time h mi s f = true -> format_time h mi s f = lex_hmsf h mi s (trim_frac f).
Proof.
  intros R. destruct (real_time_bounds _ _ _ _ R) as [Bh [Bm Bs]].
  assert (Hf : 0 <= f <= 999999999) by (unfold real_time in R; lia).
  unfold format_time, lex_hmsf, hms, trim_frac.
  rewrite !fmt_0wd_2 by assumption.
  replace (f / 1000000) with (f / 1000 / 1000) by lia.
  destruct (f =? 0) eqn:E0.
  - cbn [lex_frac]. rewrite ?app_nil_r. rewrite <- ?app_assoc. reflexivity.
  - destruct (f mod 1000 =? 0) eqn:E1; cbn [negb].
    + destruct ((f / 1000) mod 1000 =? 0) eqn:E2; cbn [negb].
      * rewrite fmt_0wd_nonneg by lia. rewrite lex_frac_cons by (apply zfill_nonempty; lia).
        rewrite <- ?app_assoc. reflexivity.
      * rewrite fmt_0wd_nonneg by lia. rewrite lex_frac_cons by (apply zfill_nonempty; lia).
        rewrite <- ?app_assoc. reflexivity.
    + rewrite fmt_0wd_nonneg by lia. rewrite lex_frac_cons by (apply zfill_nonempty; lia).
      rewrite <- ?app_assoc. reflexivity.
Qed.

(* ---- values: str() is the canonical XSD spelling, and it parses back ------- *)
(* CPython refuses int<->str conversions beyond 4300 digits (sys.int_max_str_digits);
   years are otherwise unbounded *)
Definition year_fits (y : Z) : Prop := Z.abs y < 10 ^ 4300.

Lemma canon_year_len_ok y : year_fits y -> year_len_ok (canon_year y).
Proof.
  unfold year_fits, year_len_ok, canon_year. cbn [y_digits]. intros H.
  rewrite zfill_length.
  assert (L : (length (to_dec (Z.to_N (Z.abs y))) <= 4300)%nat).
  { apply to_dec_length_le; [|lia].
    change (N.of_nat 4300) with (Z.to_N 4300).
    replace (10 ^ Z.to_N 4300)%N with (Z.to_N (10 ^ 4300)).
    - apply Z2N.inj_lt; lia.
    - rewrite Z2N.inj_pow by lia. reflexivity. }
  unfold py_max_str_digits. lia.
Qed.

Theorem date_str_canonical v :
  valid_date_value v = true ->
  date_str v = lex_date (canon_date v) /\ wf_date (canon_date v) = true.
Proof.
  intros V. unfold valid_date_value in V. apply andb_true_iff in V as [Vd Vo].
  destruct (real_date_bounds _ _ _ Vd) as [Bm Bd].
  split.
  - unfold date_str, format_date, lex_date, canon_date. cbn [ds_year ds_month ds_day ds_tz].
    rewrite format_year_lex, format_offset_lex by exact Vo. rewrite !fmt_0wd_2 by assumption.
    rewrite <- ?app_assoc. reflexivity.
  - unfold wf_date, canon_date. cbn [ds_year ds_month ds_day ds_tz].
    rewrite wf_canon_year, val_canon_year, Vd, wf_canon_tz by exact Vo. reflexivity.
Qed.

Theorem date_roundtrip v :
  valid_date_value v = true -> year_fits (d_year v) -> date_from_string (date_str v) = Some v.
Proof.
  intros V Y. destruct (date_str_canonical v V) as [E W]. rewrite E.
  pose proof (date_accepts (canon_date v) [] [] W) as A. cbn [app] in A. rewrite app_nil_r in A.
  rewrite A; [|apply canon_year_len_ok; exact Y|reflexivity|reflexivity].
  unfold canon_date. cbn [ds_year ds_month ds_day ds_tz]. rewrite val_canon_year, val_canon_tz.
  destruct v; reflexivity.
Qed.

Theorem time_str_canonical v :
  valid_time_value v = true ->
  time_str v = lex_time (canon_time v) /\ wf_time (canon_time v) = true
  /\ val_frac (ts_frac (canon_time v)) = t_frac v.
Proof.
  intros V. unfold valid_time_value in V. apply andb_true_iff in V as [Vt Vo].
  assert (Hf : 0 <= t_frac v <= 999999999) by (unfold real_time in Vt; lia).
  destruct (trim_frac_spec _ Hf) as [Wf Ef].
  split; [|split].
  - unfold time_str, lex_time, canon_time. cbn [ts_hour ts_minute ts_second ts_frac ts_tz].
    rewrite format_time_lex by exact Vt. rewrite format_offset_lex by exact Vo. reflexivity.
  - unfold wf_time, canon_time. cbn [ts_hour ts_minute ts_second ts_frac ts_tz].
    rewrite Wf, Ef, Vt, wf_canon_tz by exact Vo. reflexivity.
  - exact Ef.
Qed.

Theorem time_roundtrip v :
  valid_time_value v = true -> time_from_string (time_str v) = Some v.
Proof.
  intros V. destruct (time_str_canonical v V) as [E [W Ef]]. rewrite E.
  pose proof (time_accepts (canon_time v) [] [] W) as A. cbn [app] in A. rewrite app_nil_r in A.
  rewrite A by reflexivity. rewrite Ef.
  unfold canon_time. cbn [ts_hour ts_minute ts_second ts_frac ts_tz]. rewrite val_canon_tz.
  destruct v; reflexivity.
Qed.

Theorem datetime_str_canonical v :
  valid_datetime_value v = true ->
  datetime_str v = lex_datetime (canon_datetime v) /\ wf_datetime (canon_datetime v) = true
  /\ val_frac (dts_frac (canon_datetime v)) = dt_frac v.
Proof.
  intros V. unfold valid_datetime_value in V. apply andb_true_iff in V as [V Vo].
  apply andb_true_iff in V as [Vd Vt].
  destruct (real_date_bounds _ _ _ Vd) as [Bm Bd].
  assert (Hf : 0 <= dt_frac v <= 999999999) by (unfold real_time in Vt; lia).
  destruct (trim_frac_spec _ Hf) as [Wf Ef].
  split; [|split].
  - unfold datetime_str, format_date, lex_datetime, canon_datetime.
    cbn [dts_year dts_month dts_day dts_hour dts_minute dts_second dts_frac dts_tz].
    rewrite format_year_lex, format_time_lex by exact Vt. rewrite format_offset_lex by exact Vo.
    rewrite !fmt_0wd_2 by assumption. rewrite <- ?app_assoc. reflexivity.
  - unfold wf_datetime, canon_datetime.
    cbn [dts_year dts_month dts_day dts_hour dts_minute dts_second dts_frac dts_tz].
    rewrite wf_canon_year, val_canon_year, Vd, Wf, Ef, Vt, wf_canon_tz by exact Vo. reflexivity.
  - exact Ef.
Qed.

Theorem datetime_roundtrip v :
  valid_datetime_value v = true -> year_fits (dt_year v) ->
  datetime_from_string (datetime_str v) = Some v.
Proof.
  intros V Y. destruct (datetime_str_canonical v V) as [E [W Ef]]. rewrite E.
  pose proof (datetime_accepts (canon_datetime v) [] [] W) as A. cbn [app] in A. rewrite app_nil_r in A.
  rewrite A; [|apply canon_year_len_ok; exact Y|reflexivity|reflexivity]. rewrite Ef.
  unfold canon_datetime. cbn [dts_year dts_month dts_day dts_hour dts_minute dts_second dts_frac dts_tz].
  rewrite val_canon_year, val_canon_tz. destruct v; reflexivity.
Qed.
