(* Proofs/GraphPlan.v — DesignateClassPackages.group_by_strong_components end to end:
   given ANY two presentations of the component partition (other yield order, other set
   orders, other dependency iteration orders), every class gets the same module. *)
From Coq Require Import NArith List Bool Arith Lia Permutation.
From XV Require Import Base.Str Spec.GraphSpec Model.Graph Proofs.GraphBase Proofs.GraphTopo Proofs.GraphMisc.
Import ListNotations.

Section Plan.
  Context {A M : Type}.
  Variable eqb : A -> A -> bool.
  Hypothesis eqb_eq : forall x y, eqb x y = true <-> x = y.
  Variable leb : A -> A -> bool.
  Hypothesis leb_total : forall x y, leb x y = false -> leb y x = true.
  Hypothesis leb_trans : forall x y z, leb x y = true -> leb y z = true -> leb x z = true.
  Hypothesis leb_antisym : forall x y, leb x y = true -> leb y x = true -> x = y.
  Variable modname : A -> M.

  Definition entry_of (deps : A -> list A) (c : list A) : option (list A * M) :=
    match sort_classes eqb leb deps c with
    | Ok (h :: t) => Some (h :: t, modname h)
    | _ => None
    end.

  Lemma cluster_plan_entries deps : forall comps p,
    cluster_plan eqb leb modname deps comps = Ok p ->
    Forall2 (fun c e => entry_of deps c = Some e) comps p.
  Proof.
    induction comps as [|c r IH]; cbn; intros p H.
    - inversion H. constructor.
    - destruct (sort_classes eqb leb deps c) as [[|h t]| |] eqn:Es; try discriminate.
      destruct (cluster_plan eqb leb modname deps r) as [p0| |] eqn:Er; cbn in H; try discriminate.
      inversion H; subst. constructor; [unfold entry_of; rewrite Es; reflexivity | apply IH; reflexivity].
  Qed.

  Lemma NoDup_concat_member (l : list (list A)) c : NoDup (concat l) -> In c l -> NoDup c.
  Proof.
    induction l as [|a l IH]; cbn; intros Hn Hc; [contradiction|].
    destruct Hc as [->|Hc].
    - clear IH. induction c as [|x c IHc]; [constructor|]. cbn in Hn. inversion Hn; subst.
      constructor; [intros Hx; apply H1; apply in_or_app; left; exact Hx | apply IHc; assumption].
    - apply IH; [|exact Hc]. clear -Hn. induction a as [|x a IHa]; cbn in Hn; [exact Hn|]. inversion Hn; subst. apply IHa. assumption.
  Qed.

  Lemma entry_members deps c e :
    NoDup c -> entry_of deps c = Some e -> Permutation (fst e) c.
  Proof.
    unfold entry_of. intros Hn H.
    destruct (sort_classes eqb leb deps c) as [[|h t]| |] eqn:Es; try discriminate.
    inversion H; subst. cbn.
    apply (sort_classes_members eqb eqb_eq leb deps c (h :: t) Hn Es).
  Qed.

  Lemma plan_concat_perm deps : forall comps p,
    NoDup (concat comps) ->
    Forall2 (fun c e => entry_of deps c = Some e) comps p ->
    Permutation (concat (map fst p)) (concat comps).
  Proof.
    intros comps p Hn H. induction H as [|c e comps p He _ IH]; cbn; [constructor|].
    apply Permutation_app.
    - apply (entry_members deps c e); [|exact He]. apply (NoDup_concat_member (c :: comps)); [exact Hn | left; reflexivity].
    - apply IH. cbn in Hn. clear -Hn. induction c as [|x c IHc]; cbn in Hn; [exact Hn|]. inversion Hn; subst. apply IHc. assumption.
  Qed.

  Lemma Forall2_In_l {T U} (R : T -> U -> Prop) l l' x : Forall2 R l l' -> In x l -> exists y, In y l' /\ R x y.
  Proof.
    induction 1 as [|a b l l' Hab _ IH]; cbn; [tauto|]. intros [->|Hx].
    - exists b. split; [left; reflexivity | exact Hab].
    - destruct (IH Hx) as [y [Hy Hr]]. exists y. split; [right; exact Hy | exact Hr].
  Qed.

  Lemma Forall2_In_r {T U} (R : T -> U -> Prop) l l' y : Forall2 R l l' -> In y l' -> exists x, In x l /\ R x y.
  Proof.
    induction 1 as [|a b l l' Hab _ IH]; cbn; [tauto|]. intros [->|Hy].
    - exists a. split; [left; reflexivity | exact Hab].
    - destruct (IH Hy) as [x [Hx Hr]]. exists x. split; [right; exact Hx | exact Hr].
  Qed.

  Theorem cluster_assignment_deterministic deps deps' comps comps' p p' (m : @amap A M) :
    (forall q, seteq (deps q) (deps' q)) ->
    NoDup (concat comps) -> NoDup (concat comps') -> partition_equiv comps comps' ->
    cluster_plan eqb leb modname deps comps = Ok p ->
    cluster_plan eqb leb modname deps' comps' = Ok p' ->
    forall q, assign_all eqb p m q = assign_all eqb p' m q.
  Proof.
    intros Hd Hn Hn' [Hpe1 Hpe2] Hp Hp' q.
    apply cluster_plan_entries in Hp, Hp'.
    assert (Hc : consistent p).
    { apply disjoint_consistent. eapply Permutation_NoDup; [symmetry; apply (plan_concat_perm deps comps p Hn Hp) | exact Hn]. }
    assert (Hc' : consistent p').
    { apply disjoint_consistent. eapply Permutation_NoDup; [symmetry; apply (plan_concat_perm deps' comps' p' Hn' Hp') | exact Hn']. }
    destruct (assign_all_char eqb eqb_eq p m q Hc) as [H1 H2].
    destruct (assign_all_char eqb eqb_eq p' m q Hc') as [H1' H2'].
    (* transport of an entry from one presentation to the other *)
    assert (Htr : forall cs cs' ps ps' dp dp',
              (forall x, seteq (dp x) (dp' x)) -> NoDup (concat cs) -> NoDup (concat cs') ->
              (forall c, In c cs -> exists c', In c' cs' /\ seteq c c') ->
              Forall2 (fun c e => entry_of dp c = Some e) cs ps ->
              Forall2 (fun c e => entry_of dp' c = Some e) cs' ps' ->
              forall e, In e ps -> In e ps').
    { intros cs cs' ps ps' dp dp' Hdd Hnc Hnc' Hsub Hf Hf' e He.
      destruct (Forall2_In_r _ _ _ _ Hf He) as [c [Hcin Hce]].
      destruct (Hsub c Hcin) as [c' [Hc'in Hcc']].
      destruct (Forall2_In_l _ _ _ _ Hf' Hc'in) as [e' [He' Hce']].
      assert (Es : sort_classes eqb leb dp c = sort_classes eqb leb dp' c').
      { apply (sort_classes_perm_invariant eqb eqb_eq leb leb_total leb_trans leb_antisym); try assumption.
        - apply (NoDup_concat_member cs); assumption.
        - apply (NoDup_concat_member cs'); assumption. }
      unfold entry_of in Hce, Hce'. rewrite Es in Hce. rewrite Hce in Hce'. inversion Hce'; subst. exact He'. }
    destruct (existsb (holds eqb q) p) eqn:Ex.
    - apply existsb_exists in Ex. destruct Ex as [e [He Hh]]. unfold holds in Hh. apply (memb_In eqb eqb_eq) in Hh.
      rewrite (H1 e He Hh). symmetry. apply H1'; [|exact Hh].
      apply (Htr comps comps' p p' deps deps'); assumption.
    - assert (Hno : forall e, In e p -> ~ In q (fst e)).
      { intros e He Hin. apply (memb_In eqb eqb_eq) in Hin.
        assert (existsb (holds eqb q) p = true) by (apply existsb_exists; exists e; split; assumption). congruence. }
      rewrite (H2 Hno). symmetry. apply H2'. intros e He Hin. apply (Hno e); [|exact Hin].
      apply (Htr comps' comps p' p deps' deps); try assumption.
      intros x y. symmetry. apply Hd.
  Qed.
End Plan.
