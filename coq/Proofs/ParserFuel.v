(* Proofs/ParserFuel.v — the fuel of `parse` (length of the stream) is enough: a UnionNode
   replays a strictly shorter stream than the one being parsed, so any larger fuel gives the
   same outcome.  Lets the C10 theorems (stated for every fuel) be read for `parse` itself. *)
From Coq Require Import NArith ZArith List Bool Arith Lia.
From XV Require Import Base.Str Base.Eqb Base.PyInt Model.Bind Model.Parser Model.ParserCorr Spec.Inject
  Proofs.ParserSkip Proofs.ParserAttrs Proofs.ParserDoc.
Import ListNotations.
Local Open Scope nat_scope.

Definition replay_t := pconfig -> option cls -> list pevent -> outcome.

Definition agree_upto (K : nat) (r1 r2 : replay_t) : Prop :=
  forall cfg' root' evs', length evs' <= K -> r1 cfg' root' evs' = r2 cfg' root' evs'.

Definition unions_small (K : nat) (Q : list node) (rest : nat) : Prop :=
  forall un, In (NUnion un) Q -> length (un_events un) + 1 + rest <= K.

Definition finv (K : nat) (st : pstate) (rest : nat) : Prop :=
  match st_queue st with [] => rest <= S K | _ => rest <= K end /\ unions_small K (st_queue st) rest.

Lemma fold_left_ext {A B} (f g : A -> B -> A) l a : (forall x y, f x y = g x y) -> fold_left f l a = fold_left g l a.
Proof. intros H. revert a. induction l as [|y l IH]; intros a; cbn [fold_left]; [reflexivity|]. rewrite H. apply IH. Qed.

Section Fuel.
  Variable cfg : pconfig.
  Variable c : conv.
  Variable u : universe.
  Variable root : option cls.
  Variables r1 r2 : replay_t.
  Variable K : nat.
  Hypothesis Hagree : agree_upto K r1 r2.

  Lemma union_bind_agree un q t tl objs :
    length (un_events un) + 2 <= K ->
    union_bind cfg c r1 un q t tl objs = union_bind cfg c r2 un q t tl objs.
  Proof.
    intros Hlen. unfold union_bind.
    rewrite (fold_left_ext _
      (fun (acc : value * Z) cand =>
         let result :=
           match cand with
           | TClass cl => match r2 (with_fail_conv cfg) (Some cl) (PStart q (un_attrs un) (un_ns un) :: un_events un ++ [PEnd q t tl]) with
                          | Ok v _ => v | Err _ => VNone end
           | ty => match parse_var c true (un_meta un) (un_var un) t (un_ns un) (Some [ty]) None with
                   | ROk (v, _) => v | RErr _ => VNone end
           end in
         let score := score_object result in
         if (snd acc <? score)%Z then (result, score) else acc)); [reflexivity|].
    intros acc cand. destruct cand; try reflexivity.
    rewrite Hagree; [reflexivity|]. cbn [length]. rewrite app_length. cbn [length]. lia.
  Qed.

  Lemma step_agree st ev rest :
    finv K st (S rest) -> step cfg c u r1 root st ev = step cfg c u r2 root st ev.
  Proof.
    intros [_ Hu]. destruct ev as [q a ns|q t tl|p uri]; cbn [step]; try reflexivity.
    unfold pend. destruct (st_queue st) as [|n Q] eqn:Hq; [reflexivity|].
    destruct n; try reflexivity.
    destruct (un_level un); [|reflexivity].
    rewrite union_bind_agree; [reflexivity|].
    specialize (Hu un (or_introl eq_refl)). lia.
  Qed.

  (* where the union nodes of the next queue come from *)
  Lemma small_weaken Q rest : unions_small K Q (S rest) -> unions_small K Q rest.
  Proof. intros H un Hin. specialize (H un Hin). lia. Qed.

  Lemma small_cons n Q rest :
    (forall un, n = NUnion un -> length (un_events un) + 1 + rest <= K) ->
    unions_small K Q rest -> unions_small K (n :: Q) rest.
  Proof. intros Hn HQ un [E|Hin]; [exact (Hn un E)|exact (HQ un Hin)]. Qed.

  Lemma small_tail n Q rest : unions_small K (n :: Q) rest -> unions_small K Q rest.
  Proof. intros H un Hin. apply H. right. exact Hin. Qed.

  Lemma element_child_union en q a ns pos w n en2 :
    element_child cfg c u en q a ns pos w = ROk (n, en2) ->
    forall un, n = NUnion un -> un_events un = [].
  Proof.
    unfold element_child.
    destruct (child_loop c u en q a ns pos w (find_children (en_meta en) q)) as [[[n0 e0]|]|k] eqn:Hl; cbn [rbind];
      [| |discriminate].
    - intros H un E. injection H as <- _. exact (proj2 (child_loop_fresh c u _ _ _ _ _ _ _ _ _ Hl un E)).
    - destruct (fail_unknown_props cfg); [discriminate|]. intros H un E. injection H as <- _. discriminate.
  Qed.

  Lemma step_finv (r : replay_t) st ev rest st' :
    finv K st (S rest) -> step cfg c u r root st ev = ROk st' -> finv K st' rest.
  Proof.
    intros [Hlen Hu] Hs.
    destruct ev as [q a ns|q t tl|p uri]; cbn [step] in Hs.
    - (* start *)
      unfold start in Hs. destruct (st_queue st) as [|n Q] eqn:Hq.
      + destruct (root_node c u root q a ns) as [nd|k] eqn:Hr; cbn [rbind] in Hs; [|discriminate].
        injection Hs as <-. unfold finv, push. rewrite Hq. cbn [st_queue].
        split; [lia|]. intros un [E|[]]. exfalso.
        unfold root_node in Hr. destruct (xsi_type_of c a ns); cbn [rbind] in Hr; [|discriminate].
        destruct (match root with Some r0 => Some r0 | None => _ end); [|discriminate].
        destruct (fetch c u c0 a0); cbn [rbind] in Hr; [|discriminate]. injection Hr as <-. discriminate.
      + assert (HuQ : unions_small K (n :: Q) rest) by (apply small_weaken; exact Hu).
        assert (Hfresh : forall nd, (forall un, nd = NUnion un -> un_events un = []) ->
                   forall un, nd = NUnion un -> length (un_events un) + 1 + rest <= K).
        { intros nd H un E. rewrite (H un E). cbn [length]. lia. }
        destruct n as [en|m var ns0|m var ty fmt wr ns0 nl dv|var at_ ns0 pos|wq| |un0].
        * destruct (is_some (assoc q (m_wrappers (en_meta en)))).
          -- injection Hs as <-. unfold finv, push. rewrite Hq. cbn [st_queue]. split; [lia|].
             apply small_cons; [intros; discriminate|exact HuQ].
          -- destruct (element_child cfg c u en q a ns (length (st_objects st)) None) as [[nd en2]|k] eqn:Hc;
               cbn [rbind] in Hs; [|discriminate].
             injection Hs as <-. unfold finv. cbn [st_queue fst snd]. split; [lia|].
             apply small_cons; [apply Hfresh; exact (element_child_union _ _ _ _ _ _ _ _ Hc)|].
             apply small_cons; [intros; discriminate|exact (small_tail _ _ _ HuQ)].
        * discriminate.
        * discriminate.
        * injection Hs as <-. unfold finv, push. rewrite Hq. cbn [st_queue]. split; [lia|].
          apply small_cons; [intros; discriminate|exact HuQ].
        * destruct Q as [|n2 Q2]; [discriminate|]. destruct n2 as [en| | | | | |]; try discriminate.
          destruct (element_child cfg c u en q a ns (length (st_objects st)) (Some wq)) as [[nd en2]|k] eqn:Hc;
            cbn [rbind] in Hs; [|discriminate].
          injection Hs as <-. unfold finv. cbn [st_queue fst snd]. split; [lia|].
          apply small_cons; [apply Hfresh; exact (element_child_union _ _ _ _ _ _ _ _ Hc)|].
          apply small_cons; [intros; discriminate|].
          apply small_cons; [intros; discriminate|exact (small_tail _ _ _ (small_tail _ _ _ HuQ))].
        * injection Hs as <-. unfold finv, push. rewrite Hq. cbn [st_queue]. split; [lia|].
          apply small_cons; [intros; discriminate|exact HuQ].
        * injection Hs as <-. unfold finv. cbn [st_queue]. split; [lia|].
          apply small_cons; [|exact (small_tail _ _ _ HuQ)].
          intros un E. injection E as <-. cbn [un_events]. rewrite app_length. cbn [length].
          specialize (Hu un0 (or_introl eq_refl)). lia.
    - (* end *)
      unfold pend in Hs. destruct (st_queue st) as [|n Q] eqn:Hq; [discriminate|].
      assert (HuQ : unions_small K Q rest) by (apply small_weaken; exact (small_tail _ _ _ Hu)).
      assert (Hpop : forall objs ws, finv K (mk_pstate Q objs ws) rest).
      { intros objs ws. unfold finv. cbn [st_queue]. split; [destruct Q; lia|exact HuQ]. }
      assert (Hfin : forall x, finish_end Q st x = ROk st' -> finv K st' rest).
      { intros x. unfold finish_end. destruct x as [y|k]; cbn [rbind]; [|discriminate].
        intros E. injection E as <-. apply Hpop. }
      destruct n as [en|m var ns0|m var ty fmt wr ns0 nl dv|var at_ ns0 pos|wq| |un0];
        try exact (Hfin _ Hs); try (injection Hs as <-; apply Hpop).
      destruct (un_level un0) as [|l].
      + destruct (union_bind cfg c r un0 q t tl (st_objects st)); cbn [rbind] in Hs; [|discriminate].
        injection Hs as <-. apply Hpop.
      + injection Hs as <-. unfold finv. cbn [st_queue]. split; [lia|].
        apply small_cons; [|exact HuQ].
        intros un E. injection E as <-. cbn [un_events]. rewrite app_length. cbn [length].
        specialize (Hu un0 (or_introl eq_refl)). lia.
    - injection Hs as <-. unfold finv. revert Hlen Hu. destruct (st_queue st); intros Hlen Hu;
        (split; [lia|apply small_weaken; exact Hu]).
  Qed.

  Lemma run_agree evs : forall st,
    finv K st (length evs) -> run cfg c u r1 root st evs = run cfg c u r2 root st evs.
  Proof.
    induction evs as [|ev evs IH]; intros st Hf; cbn [run]; [reflexivity|].
    cbn [length] in Hf. rewrite <- (step_agree st ev (length evs) Hf).
    destruct (step cfg c u r1 root st ev) as [st'|k] eqn:Hs; cbn [rbind]; [|reflexivity].
    apply IH. exact (step_finv r1 st ev (length evs) st' Hf Hs).
  Qed.
End Fuel.

(* ---------------------------------------------------------------- the configuration of a UnionNode replay *)
(* UnionNode.bind replays with `replace(self.config, fail_on_converter_warnings=True)`: the
   user's unknown-property / unknown-attribute options (and the class factory) are kept *)
Lemma with_fail_conv_spec k :
  fail_unknown_props (with_fail_conv k) = fail_unknown_props k
  /\ fail_unknown_attrs (with_fail_conv k) = fail_unknown_attrs k
  /\ cf_nodefault (with_fail_conv k) = cf_nodefault k
  /\ fail_conv_warnings (with_fail_conv k) = true.
Proof. repeat split. Qed.

(* ... and that is the ONLY configuration the replay is ever called with *)
Lemma union_bind_replay_config cfg c (r1 r2 : replay_t) un q t tl objs :
  (forall root' evs', r1 (with_fail_conv cfg) root' evs' = r2 (with_fail_conv cfg) root' evs') ->
  union_bind cfg c r1 un q t tl objs = union_bind cfg c r2 un q t tl objs.
Proof.
  intros H. unfold union_bind.
  rewrite (fold_left_ext _
    (fun (acc : value * Z) cand =>
       let result :=
         match cand with
         | TClass cl => match r2 (with_fail_conv cfg) (Some cl) (PStart q (un_attrs un) (un_ns un) :: un_events un ++ [PEnd q t tl]) with
                        | Ok v _ => v | Err _ => VNone end
         | ty => match parse_var c true (un_meta un) (un_var un) t (un_ns un) (Some [ty]) None with
                 | ROk (v, _) => v | RErr _ => VNone end
         end in
       let score := score_object result in
       if (snd acc <? score)%Z then (result, score) else acc)); [reflexivity|].
  intros acc cand. destruct cand; try reflexivity. rewrite H. reflexivity.
Qed.

(* an unknown element inside an element bound through a union: if it is transparent for the
   replay of every candidate it is transparent for the union *)
Corollary union_bind_transparent cfg c (r : replay_t) un un' q t tl objs :
  un_attrs un' = un_attrs un -> un_ns un' = un_ns un -> un_meta un' = un_meta un -> un_var un' = un_var un ->
  un_candidates un' = un_candidates un ->
  (forall cl, r (with_fail_conv cfg) (Some cl) (PStart q (un_attrs un) (un_ns un) :: un_events un' ++ [PEnd q t tl])
              = r (with_fail_conv cfg) (Some cl) (PStart q (un_attrs un) (un_ns un) :: un_events un ++ [PEnd q t tl])) ->
  union_bind cfg c r un' q t tl objs = union_bind cfg c r un q t tl objs.
Proof.
  intros Ha Hn Hm Hv Hc H. unfold union_bind. rewrite Ha, Hn, Hm, Hv, Hc.
  rewrite (fold_left_ext _
    (fun (acc : value * Z) cand =>
       let result :=
         match cand with
         | TClass cl => match r (with_fail_conv cfg) (Some cl) (PStart q (un_attrs un) (un_ns un) :: un_events un ++ [PEnd q t tl]) with
                        | Ok v _ => v | Err _ => VNone end
         | ty => match parse_var c true (un_meta un) (un_var un) t (un_ns un) (Some [ty]) None with
                 | ROk (v, _) => v | RErr _ => VNone end
         end in
       let score := score_object result in
       if (snd acc <? score)%Z then (result, score) else acc)); [reflexivity|].
  intros acc cand. destruct cand; try reflexivity. rewrite H. reflexivity.
Qed.

Theorem parse_n_fuel : forall n c u cfg root evs,
  length evs <= n -> parse_n (S n) cfg c u root evs = parse_n n cfg c u root evs.
Proof.
  induction n as [n IH] using lt_wf_ind. intros c u cfg root evs Hlen.
  rewrite !parse_n_unfold. f_equal.
  destruct n as [|k].
  - destruct evs; [reflexivity|cbn [length] in Hlen; lia].
  - apply (run_agree cfg c u root (replay_n (S (S k)) c u) (replay_n (S k) c u) k).
    + intros cfg' root' evs' Hl. cbn [replay_n]. apply IH; [lia|exact Hl].
    + unfold finv, init_state. cbn [st_queue]. split; [exact Hlen|]. intros un [].
Qed.

Corollary parse_n_enough : forall m c u cfg root evs,
  parse_n (length evs + m) cfg c u root evs = parse cfg c u root evs.
Proof.
  induction m as [|m IH]; intros c u cfg root evs.
  - rewrite Nat.add_0_r. reflexivity.
  - rewrite Nat.add_succ_r. rewrite parse_n_fuel by lia. apply IH.
Qed.

Corollary parse_n_ge : forall n c u cfg root evs,
  length evs <= n -> parse_n n cfg c u root evs = parse cfg c u root evs.
Proof.
  intros n c u cfg root evs H. replace n with (length evs + (n - length evs)) by lia. apply parse_n_enough.
Qed.

(* ---------------------------------------------------------------- C10 for `parse` itself *)
Lemma undo_step_length d' s d : undo_step d' s = Some d -> length d <= length d'.
Proof.
  destruct s as [i k|i k]; unfold undo_step.
  - destruct (i + k <=? length d') eqn:E; [|discriminate]. intros H. injection H as <-.
    apply Nat.leb_le in E. rewrite app_length, firstn_length, skipn_length. lia.
  - destruct (nth_error d' i) as [[q attrs ns| |]|] eqn:Hi; try discriminate.
    destruct (k <? length attrs); [|discriminate]. intros H. injection H as <-.
    assert (Hlt : i < length d') by (apply nth_error_Some; rewrite Hi; discriminate).
    rewrite app_length, firstn_length.
    pose proof (skipn_length (S i) d') as Hsk. cbn [skipn] in Hsk.
    match goal with |- _ + length (_ :: ?l) <= _ => change (length (PStart q (remove_nth k attrs) ns :: l)) with (S (length l)) end.
    rewrite Hsk. lia.
Qed.

Lemma undo_admissible_length n cfg c u root steps : forall d' d,
  undo_admissible n cfg c u root d' steps = Some d -> length d <= length d'.
Proof.
  induction steps as [|s rest IH]; intros d' d H; cbn [undo_admissible] in H.
  - injection H as ->. lia.
  - destruct (undo_step d' s) as [d1|] eqn:Hu; [|discriminate].
    destruct (admissible_step n cfg c u root d' s); [|discriminate].
    pose proof (undo_step_length _ _ _ Hu). pose proof (IH _ _ H). lia.
Qed.

Theorem skip_transparent_parse : forall cfg c u root steps d' d,
  undo_admissible (length d') cfg c u root d' steps = Some d ->
  parse cfg c u root d' = parse cfg c u root d.
Proof.
  intros cfg c u root steps d' d H.
  unfold parse at 1. rewrite (Proofs.ParserAttrs.undo_admissible_transparent _ _ _ _ _ _ _ _ H).
  apply parse_n_ge. exact (undo_admissible_length _ _ _ _ _ _ _ _ H).
Qed.
