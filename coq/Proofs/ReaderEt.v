(* Proofs/ReaderEt.v — ElementTree sources (native.iterwalk).  xml.etree keeps no prefixes and
   iterwalk regenerates one per ELEMENT-name namespace: QName content and any-attribute values
   that use the document's own prefixes are lost (finding C08-F1, Proofs/ReaderRefute.v).  For a
   document without namespaces (no declarations, unqualified element names) the walk delivers
   exactly the events of the text source: guarded agreement. *)
From Coq Require Import NArith ZArith List Bool.
From XV Require Import Base.Str Base.Eqb Model.Bind Model.Parser Model.Reader Model.ReaderCorr Proofs.ReaderMaps
  Proofs.ReaderWitness Proofs.ReaderConv Proofs.ReaderRefute.
Import ListNotations.

Fixpoint no_namespaces (e : xelem) : bool :=
  match e with
  | XE q d _ _ ks _ => match d with [] => true | _ => false end
                       && match target_uri q with None => true | Some _ => false end
                       && forallb no_namespaces ks
  end.

Definition strip_chain (t : tok) : tok := match t with TStart q a _ => TStart q a [] | _ => t end.

Lemma native_loop_strip cfg c u replay root toks : forall s,
  native_loop cfg c u replay root s (map strip_chain toks) = native_loop cfg c u replay root s toks.
Proof.
  induction toks as [|t r IH]; intros s; cbn [map native_loop]; [reflexivity|].
  assert (E : native_step cfg c u replay root s (strip_chain t) = native_step cfg c u replay root s t) by (destruct t; reflexivity).
  rewrite E. destruct (native_step cfg c u replay root s t); [apply IH|reflexivity].
Qed.

Lemma et_flatten_plain : forall e ch m, no_namespaces e = true ->
  et_flatten m e = (map strip_chain (flatten ch e), m).
Proof.
  induction e as [q d a t ks tl IH] using xelem_ind'. intros ch m H. cbn [no_namespaces] in H.
  apply andb_true_iff in H as [H Hks]. apply andb_true_iff in H as [Hd Hq].
  destruct d; [|discriminate]. destruct (target_uri q) eqn:Eq; [discriminate|].
  cbn [et_flatten flatten map app]. rewrite Eq.
  assert (Hgo : forall m0,
    (fix go (ks0 : list xelem) (m1 : nsmap) {struct ks0} : list tok * nsmap :=
       match ks0 with
       | [] => ([], m1)
       | k :: r => let '(a1, ma) := et_flatten m1 k in let '(a2, mb) := go r ma in (a1 ++ a2, mb)
       end) ks m0 = (map strip_chain (flat_map (flatten ([] :: ch)) ks), m0)).
  { induction ks as [|k ks IHks]; intros m0; [reflexivity|].
    cbn [forallb] in Hks. apply andb_true_iff in Hks as [Hk Hr]. inversion IH as [|? ? IHk IHr]; subst.
    rewrite (IHk ([] :: ch) m0 Hk). rewrite (IHks IHr Hr m0). cbn [flat_map]. rewrite map_app. reflexivity. }
  rewrite Hgo. cbn [app strip_chain]. rewrite map_app. reflexivity.
Qed.

Theorem et_source_agrees : forall cfg c u root e, no_namespaces e = true ->
  native_parse cfg c u root (et_tokens e) = native_parse cfg c u root (doc_tokens e).
Proof.
  intros cfg c u root e H. unfold et_tokens, doc_tokens, native_parse, native_parse_n.
  rewrite (et_flatten_plain e [] [] H). cbn [fst]. rewrite map_length, native_loop_strip. reflexivity.
Qed.

(* <SK><a>x</a><zz><yy/></zz><b>y</b></SK>-like: a document without namespaces, with a skipped subtree *)
Definition doc_plain : xelem :=
  XE [83;75] [] [] None
     [XE [97] [] [] (Some [120]) [] None; XE [122;122] [] [([107], [118])] None [XE [121;121] [] [] None [] None] (Some [10]);
      XE [98] [] [] (Some [121]) [] None] None.

Example et_source_agrees_nonvacuous :
  no_namespaces doc_plain = true
  /\ exists v, native_parse lenient_cfg qconv u_skip_qname (Some root_skip_qname) (et_tokens doc_plain) = Ok v [].
Proof. split; [reflexivity|]. eexists. vm_compute. reflexivity. Qed.
Print Assumptions et_source_agrees.
