(* Proofs/ReaderMaps.v — prefix maps: what the native handler's merge_parent_namespaces and
   lxml's element.nsmap answer to a lookup, and the agreement of the two pumps for every
   document against a parser that keeps the maps (C08_pumps_agree_plain). *)
From Coq Require Import NArith ZArith List Bool Arith Lia.
From XV Require Import Base.Str Base.Eqb Base.PyInt Model.Bind Model.Parser Model.Reader Model.ReaderCorr.
Import ListNotations.

(* ---------------------------------------------------------------- keys *)
Lemma ostr_eqb_eq a b : ostr_eqb a b = true <-> a = b.
Proof. apply opt_eqb_spec. apply str_eqb_eq. Qed.
Lemma ostr_eqb_refl a : ostr_eqb a a = true.
Proof. apply ostr_eqb_eq. reflexivity. Qed.
Lemma ostr_eqb_neq a b : ostr_eqb a b = false <-> a <> b.
Proof.
  split.
  - intros H E. apply ostr_eqb_eq in E. congruence.
  - intros H. destruct (ostr_eqb a b) eqn:E; [apply ostr_eqb_eq in E; contradiction|reflexivity].
Qed.
Lemma ostr_eqb_sym a b : ostr_eqb a b = ostr_eqb b a.
Proof.
  destruct (ostr_eqb a b) eqn:E.
  - apply ostr_eqb_eq in E. subst. symmetry. apply ostr_eqb_refl.
  - symmetry. apply ostr_eqb_neq. apply ostr_eqb_neq in E. congruence.
Qed.

(* ---------------------------------------------------------------- dict operations *)
Lemma ns_get_set k k' v m :
  ns_get k (ns_set k' v m) = if ostr_eqb k' k then Some v else ns_get k m.
Proof.
  induction m as [|[k0 v0] m IH]; cbn [ns_set ns_get fst snd].
  - destruct (ostr_eqb k' k); reflexivity.
  - destruct (ostr_eqb k0 k') eqn:E0; cbn [ns_get].
    + apply ostr_eqb_eq in E0. subst k0. destruct (ostr_eqb k' k); reflexivity.
    + destruct (ostr_eqb k0 k) eqn:E1.
      * apply ostr_eqb_eq in E1. subst k0. rewrite ostr_eqb_sym, E0. reflexivity.
      * exact IH.
Qed.

Lemma ns_get_app k a b :
  ns_get k (a ++ b) = match ns_get k a with Some v => Some v | None => ns_get k b end.
Proof.
  induction a as [|[k0 v0] a IH]; cbn [app ns_get]; [reflexivity|].
  destruct (ostr_eqb k0 k); [reflexivity|exact IH].
Qed.

Lemma ns_mem_false k m : ns_mem k m = false <-> ns_get k m = None.
Proof. unfold ns_mem. destruct (ns_get k m); split; congruence. Qed.

(* for k, v in d.items(): m[k] = v   when d has no duplicate key *)
Lemma ns_get_update k d : forall m, nodup_keys d = true ->
  ns_get k (ns_update m d) = match ns_get k d with Some v => Some v | None => ns_get k m end.
Proof.
  unfold ns_update. induction d as [|[k1 v1] d IH]; intros m Hd; cbn [fold_left ns_get fst snd]; [reflexivity|].
  cbn [nodup_keys] in Hd. apply andb_true_iff in Hd as [Hk Hd]. apply negb_true_iff, ns_mem_false in Hk.
  rewrite (IH _ Hd). rewrite ns_get_set.
  destruct (ostr_eqb k1 k) eqn:E.
  - apply ostr_eqb_eq in E. subst k1. rewrite Hk. reflexivity.
  - reflexivity.
Qed.

Lemma nodup_keys_set k v m : nodup_keys m = true -> nodup_keys (ns_set k v m) = true.
Proof.
  induction m as [|[k0 v0] m IH]; intros H; cbn [ns_set]; [reflexivity|].
  cbn [nodup_keys] in H. apply andb_true_iff in H as [H0 H1]. apply negb_true_iff, ns_mem_false in H0.
  destruct (ostr_eqb k0 k) eqn:E; cbn [nodup_keys].
  - apply andb_true_iff. split; [apply negb_true_iff, ns_mem_false; exact H0|exact H1].
  - apply andb_true_iff. split; [|exact (IH H1)].
    apply negb_true_iff, ns_mem_false. rewrite ns_get_set. rewrite ostr_eqb_sym, E. exact H0.
Qed.

Lemma nodup_keys_update d : forall m, nodup_keys m = true -> nodup_keys (ns_update m d) = true.
Proof.
  unfold ns_update. induction d as [|[k v] d IH]; intros m H; cbn [fold_left]; [exact H|].
  apply IH. apply nodup_keys_set. exact H.
Qed.

Lemma ns_update_nil_empty d : ns_update [] d = [] -> d = [].
Proof.
  destruct d as [|[k v] d]; [reflexivity|]. unfold ns_update. cbn [fold_left ns_set fst snd].
  assert (H : forall d0 m, m <> [] -> fold_left (fun acc kv => ns_set (fst kv) (snd kv) acc) d0 m <> []).
  { induction d0 as [|[k0 v0] d0 IH]; intros m Hm; cbn [fold_left]; [exact Hm|].
    apply IH. destruct m as [|[k1 v1] m]; [contradiction|]. cbn [ns_set fst snd]. destruct (ostr_eqb k1 k0); discriminate. }
  intros E. exfalso. apply (H d [(k, v)]); [discriminate|exact E].
Qed.

(* merge_parent_namespaces over the dict the start-ns events built *)
Lemma merge_parent_cons a rest p : merge_parent (a :: rest) p = ns_update a p.
Proof. unfold merge_parent. destruct p; reflexivity. Qed.

Lemma ns_get_merge k a d : nodup_keys d = true ->
  ns_get k (ns_update a (ns_update [] d)) = match ns_get k d with Some v => Some v | None => ns_get k a end.
Proof.
  intros Hd. rewrite ns_get_update by (apply nodup_keys_update; reflexivity).
  rewrite (ns_get_update k d [] Hd). cbn [ns_get]. destruct (ns_get k d); reflexivity.
Qed.

(* ---------------------------------------------------------------- element.nsmap *)
Lemma ns_get_add_new k d : forall acc,
  ns_get k (nsmap_add_new acc d) = match ns_get k acc with Some v => Some v | None => ns_get k d end.
Proof.
  unfold nsmap_add_new. induction d as [|[k1 v1] d IH]; intros acc; cbn [fold_left ns_get fst snd].
  - destruct (ns_get k acc); reflexivity.
  - rewrite IH. unfold ns_mem. destruct (ns_get k1 acc) as [w|] eqn:E1.
    + destruct (ns_get k acc) eqn:E; [reflexivity|].
      destruct (ostr_eqb k1 k) eqn:E2; [|reflexivity]. apply ostr_eqb_eq in E2. subst. congruence.
    + rewrite ns_get_app. cbn [ns_get]. destruct (ns_get k acc); [reflexivity|].
      destruct (ostr_eqb k1 k); reflexivity.
Qed.

Lemma ns_get_fold_add_new k chain : forall acc,
  ns_get k (fold_left nsmap_add_new chain acc)
  = match ns_get k acc with Some v => Some v | None => ns_get k (fold_left nsmap_add_new chain []) end.
Proof.
  induction chain as [|d chain IH]; intros acc; cbn [fold_left].
  - cbn [ns_get]. destruct (ns_get k acc); reflexivity.
  - rewrite (IH (nsmap_add_new acc d)), (IH (nsmap_add_new [] d)). rewrite !ns_get_add_new. cbn [ns_get].
    destruct (ns_get k acc); [reflexivity|]. destruct (ns_get k d); reflexivity.
Qed.

Lemma ns_get_lxml_cons k d ch :
  ns_get k (lxml_nsmap (d :: ch)) = match ns_get k d with Some v => Some v | None => ns_get k (lxml_nsmap ch) end.
Proof.
  unfold lxml_nsmap. cbn [fold_left]. rewrite ns_get_fold_add_new, ns_get_add_new. cbn [ns_get]. reflexivity.
Qed.

(* ---------------------------------------------------------------- lookup-equivalence *)
Lemma ns_equiv_refl a : ns_equiv a a.
Proof. intros k. reflexivity. Qed.
Lemma ns_equiv_sym a b : ns_equiv a b -> ns_equiv b a.
Proof. intros H k. symmetry. apply H. Qed.
Lemma ns_equiv_trans a b c : ns_equiv a b -> ns_equiv b c -> ns_equiv a c.
Proof. intros H1 H2 k. rewrite H1. apply H2. Qed.

(* two maps that answer `get` by "own declarations first, else the outer map" are equivalent
   when the outer maps are *)
Lemma ns_equiv_layer x y a b d :
  (forall k, ns_get k x = match ns_get k d with Some v => Some v | None => ns_get k a end) ->
  (forall k, ns_get k y = match ns_get k d with Some v => Some v | None => ns_get k b end) ->
  ns_equiv a b -> ns_equiv x y.
Proof.
  intros Hx Hy Hab k. unfold ns_read. destruct k as [p|].
  - rewrite Hx, Hy. destruct (ns_get (Some p) d); [reflexivity|]. exact (Hab (Some p)).
  - rewrite Hx, Hy. destruct (ns_get None d); [reflexivity|]. exact (Hab None).
Qed.

(* the map the native handler passes = the map lxml passes, up to lookups *)
Lemma merge_equiv_lxml a d ch : nodup_keys d = true -> ns_equiv a (lxml_nsmap ch) ->
  ns_equiv (ns_update a (ns_update [] d)) (lxml_nsmap (d :: ch)).
Proof.
  intros Hd Ha. apply (ns_equiv_layer _ _ a (lxml_nsmap ch) d); [|intros k; apply ns_get_lxml_cons|exact Ha].
  intros k. apply ns_get_merge. exact Hd.
Qed.

Lemma lxml_nsmap_nil_decls ch : ns_equiv (lxml_nsmap ch) (lxml_nsmap ([] :: ch)).
Proof. intros k. unfold ns_read. rewrite !ns_get_lxml_cons. cbn [ns_get]. reflexivity. Qed.

(* how Parser.v looks a prefix up *)
Lemma ns_lookup_get p m : ns_lookup p m = ns_get (Some p) m.
Proof.
  unfold ns_lookup. induction m as [|[k v] m IH]; cbn [find ns_get fst]; [reflexivity|].
  destruct (ostr_eqb k (Some p)); [reflexivity|exact IH].
Qed.

Lemma ns_equiv_lookup a b p : ns_equiv a b -> ns_lookup p a = ns_lookup p b.
Proof. intros H. rewrite !ns_lookup_get. exact (H (Some p)). Qed.

(* ns_equivb decides it on the keys that occur *)
Lemma ns_get_not_key k m : ~ In k (map fst m) -> ns_get k m = None.
Proof.
  induction m as [|[k0 v0] m IH]; intros H; cbn [ns_get]; [reflexivity|].
  destruct (ostr_eqb k0 k) eqn:E.
  - apply ostr_eqb_eq in E. subst. exfalso. apply H. left. reflexivity.
  - apply IH. intros Hin. apply H. right. exact Hin.
Qed.

Lemma ostr_opt_eqb_eq (a b : option str) : opt_eqb str_eqb a b = true <-> a = b.
Proof. apply opt_eqb_spec. apply str_eqb_eq. Qed.

Lemma ns_equivb_sound a b : ns_equivb a b = true -> ns_equiv a b.
Proof.
  unfold ns_equivb. intros H k. rewrite forallb_forall in H.
  destruct (in_dec (fun x y => match ostr_eqb x y as r return (ostr_eqb x y = r -> _) with
                               | true => fun E => left (proj1 (ostr_eqb_eq x y) E)
                               | false => fun E => right (proj1 (ostr_eqb_neq x y) E)
                               end eq_refl) k (None :: map fst a ++ map fst b)) as [Hin|Hnin].
  - apply ostr_opt_eqb_eq. apply H. exact Hin.
  - assert (Ha : ~ In k (map fst a)) by (intros X; apply Hnin; right; apply in_or_app; left; exact X).
    assert (Hb : ~ In k (map fst b)) by (intros X; apply Hnin; right; apply in_or_app; right; exact X).
    destruct k as [p|]; [|exfalso; apply Hnin; left; reflexivity].
    unfold ns_read. rewrite (ns_get_not_key _ _ Ha), (ns_get_not_key _ _ Hb). reflexivity.
Qed.

(* ---------------------------------------------------------------- the induction principle of xelem *)
Section XelemInd.
  Variable P : xelem -> Prop.
  Hypothesis H : forall q d a t ks tl, Forall P ks -> P (XE q d a t ks tl).
  Fixpoint xelem_ind' (e : xelem) : P e :=
    match e with
    | XE q d a t ks tl =>
        H q d a t ks tl
          ((fix go (ks : list xelem) : Forall P ks :=
              match ks with
              | [] => Forall_nil P
              | k :: r => Forall_cons k (xelem_ind' k) (go r)
              end) ks)
    end.
End XelemInd.

(* ---------------------------------------------------------------- the two pumps, every document *)
Lemma plain_loop_ns d : forall pending stack rest,
  plain_loop pending stack (map (fun kv => TNs (fst kv) (snd kv)) d ++ rest)
  = map (fun kv => PStartNs (fst kv) (snd kv)) d ++ plain_loop (ns_update pending d) stack rest.
Proof.
  induction d as [|[k v] d IH]; intros pending stack rest; cbn [map app plain_loop fst snd]; [reflexivity|].
  rewrite IH. reflexivity.
Qed.

Lemma lxml_pump_ns d rest :
  lxml_pump (map (fun kv => TNs (fst kv) (snd kv)) d ++ rest)
  = map (fun kv => PStartNs (fst kv) (snd kv)) d ++ lxml_pump rest.
Proof.
  unfold lxml_pump. rewrite map_app, map_map. reflexivity.
Qed.

Lemma Forall2_refl_ns d : Forall2 pevent_equiv (map (fun kv => PStartNs (fst kv) (snd kv)) d)
                                              (map (fun kv => PStartNs (fst kv) (snd kv)) d).
Proof. induction d as [|kv d IH]; cbn [map]; constructor; [cbn; auto|exact IH]. Qed.

(* the stack of maps the plain loop holds while the elements of chain `ch` are open *)
Definition stack_ok (ch : list nsmap) (stack : list nsmap) : Prop :=
  match stack with
  | [] => ch = []
  | a :: _ => ns_equiv a (lxml_nsmap ch)
  end.

Lemma merge_parent_equiv ch stack d : nodup_keys d = true -> stack_ok ch stack ->
  ns_equiv (merge_parent stack (ns_update [] d)) (lxml_nsmap (d :: ch)).
Proof.
  intros Hd Hs. destruct stack as [|a rest].
  - cbn [stack_ok] in Hs. subst ch. unfold merge_parent.
    apply (merge_equiv_lxml [] d [] Hd). apply ns_equiv_refl.
  - rewrite merge_parent_cons. apply merge_equiv_lxml; assumption.
Qed.

Lemma elem_plain : forall e ch stack rest, decls_wf e = true -> stack_ok ch stack ->
  exists evs, plain_loop [] stack (flatten ch e ++ rest) = evs ++ plain_loop [] stack rest
              /\ Forall2 pevent_equiv evs (lxml_pump (flatten ch e)).
Proof.
  induction e as [q d a t ks tl IH] using xelem_ind'. intros ch stack rest Hwf Hs.
  cbn [decls_wf] in Hwf. apply andb_true_iff in Hwf as [Hd Hks].
  cbn [flatten]. rewrite <- app_assoc. rewrite plain_loop_ns. cbn [app plain_loop].
  set (ns := merge_parent stack (ns_update [] d)).
  assert (Hns : ns_equiv ns (lxml_nsmap (d :: ch))) by (apply merge_parent_equiv; assumption).
  (* the children *)
  assert (Hkids : forall rest0, exists evs,
             plain_loop [] (ns :: stack) (flat_map (flatten (d :: ch)) ks ++ rest0) = evs ++ plain_loop [] (ns :: stack) rest0
             /\ Forall2 pevent_equiv evs (lxml_pump (flat_map (flatten (d :: ch)) ks))).
  { clear Hd. induction ks as [|k ks IHks]; intros rest0.
    - exists []. split; [reflexivity|constructor].
    - cbn [forallb] in Hks. apply andb_true_iff in Hks as [Hk Hks]. inversion IH as [|? ? IHk IHr]; subst.
      cbn [flat_map]. rewrite <- app_assoc.
      destruct (IHk (d :: ch) (ns :: stack) (flat_map (flatten (d :: ch)) ks ++ rest0) Hk Hns) as (e1 & E1 & F1).
      destruct (IHks IHr Hks rest0) as (e2 & E2 & F2).
      exists (e1 ++ e2). split.
      + rewrite E1, E2, app_assoc. reflexivity.
      + unfold lxml_pump. rewrite map_app. apply Forall2_app; assumption. }
  destruct (Hkids (TEnd q t tl :: rest)) as (ek & Ek & Fk).
  exists (map (fun kv => PStartNs (fst kv) (snd kv)) d ++ PStart q a ns :: ek ++ [PEnd q t tl]). split.
  - rewrite <- (app_assoc (flat_map _ ks)). cbn [app]. rewrite Ek. cbn [plain_loop List.tl].
    rewrite <- app_assoc. cbn [app]. f_equal. f_equal. rewrite <- app_assoc. reflexivity.
  - rewrite lxml_pump_ns. apply Forall2_app; [apply Forall2_refl_ns|].
    unfold lxml_pump. cbn [map lxml_event]. constructor; [cbn; auto|].
    rewrite map_app. apply Forall2_app; [exact Fk|]. cbn [map lxml_event]. constructor; [cbn; auto|constructor].
Qed.

Theorem pumps_agree_plain : forall e, decls_wf e = true ->
  Forall2 pevent_equiv (native_pump_plain (doc_tokens e)) (lxml_pump (doc_tokens e)).
Proof.
  intros e Hwf. unfold native_pump_plain, doc_tokens.
  destruct (elem_plain e [] [] [] Hwf eq_refl) as (evs & E & F).
  rewrite app_nil_r in E. rewrite E. cbn [plain_loop]. rewrite app_nil_r. exact F.
Qed.
