(* Proofs/DatesDuration.v — XmlDuration accepts every xs:duration lexical form with the
   components XSD assigns (the seconds as their decimal text; float() is CPython's). *)
From Coq Require Import NArith ZArith List Bool Lia ZifyBool.
From XV Require Import Base.Str Base.Dec Base.PyInt Gen.DatesTables Model.Dates Spec.XsdDates Proofs.DatesParse.
Import ListNotations.
Open Scope Z_scope.

Lemma isdecimal_ascii c : is_ascii_digit c = true -> py_isdecimal c = true.
Proof. intros H. unfold py_isdecimal. rewrite nd_value_ascii by exact H. reflexivity. Qed.

Lemma forallb_isdecimal ds : all_digits ds = true -> forallb py_isdecimal ds = true.
Proof.
  induction ds as [|c ds IH]; cbn [forallb all_digits]; [reflexivity|]. intros H.
  apply andb_true_iff in H as [Hc Hs]. rewrite (isdecimal_ascii c Hc). auto.
Qed.

Definition letter (c : N) : Prop := py_isdecimal c = false.
Lemma letter_Y : letter 89. Proof. vm_compute; reflexivity. Qed.
Lemma letter_M : letter 77. Proof. vm_compute; reflexivity. Qed.
Lemma letter_D : letter 68. Proof. vm_compute; reflexivity. Qed.
Lemma letter_H : letter 72. Proof. vm_compute; reflexivity. Qed.
Lemma letter_S : letter 83. Proof. vm_compute; reflexivity. Qed.
Lemma letter_T : letter 84. Proof. vm_compute; reflexivity. Qed.
Lemma letter_dot : letter 46. Proof. vm_compute; reflexivity. Qed.

Lemma span_digits_stop ds c r :
  all_digits ds = true -> letter c -> span py_isdecimal (ds ++ c :: r) = (ds, c :: r).
Proof. intros D L. apply span_app_stop; [apply forallb_isdecimal; exact D|exact L]. Qed.

Lemma take_slot_hit L ds r :
  all_digits ds = true -> ds <> [] -> letter L -> take_slot L (ds ++ L :: r) = (Some ds, r).
Proof.
  intros D Hne HL. unfold take_slot. rewrite span_digits_stop by assumption.
  destruct ds as [|x ds']; [congruence|]. rewrite N.eqb_refl. reflexivity.
Qed.

Lemma take_slot_miss L ds c r :
  all_digits ds = true -> letter c -> c <> L -> take_slot L (ds ++ c :: r) = (None, ds ++ c :: r).
Proof.
  intros D Hc Hn. unfold take_slot. rewrite span_digits_stop by assumption.
  destruct ds as [|x ds']; [reflexivity|]. apply N.eqb_neq in Hn. rewrite Hn. reflexivity.
Qed.

Lemma take_slot_nil L : take_slot L [] = (None, []).
Proof. reflexivity. Qed.

Lemma take_seconds_nil : take_seconds [] = (None, []).
Proof. reflexivity. Qed.

Lemma take_seconds_int i : all_digits i = true -> i <> [] -> take_seconds (i ++ [83%N]) = (Some i, []).
Proof.
  intros D Hne. unfold take_seconds. rewrite span_digits_stop by (try exact D; exact letter_S).
  destruct i as [|x i']; [congruence|]. cbn [span]. reflexivity.
Qed.

Lemma take_seconds_frac i f :
  all_digits i = true -> i <> [] -> all_digits f = true -> f <> [] ->
  take_seconds (i ++ 46%N :: f ++ [83%N]) = (Some (i ++ 46%N :: f), []).
Proof.
  intros D Hne Df Hf. unfold take_seconds. rewrite span_digits_stop by (try exact D; exact letter_dot).
  destruct i as [|x i'] eqn:E; [congruence|]. rewrite <- E.
  rewrite span_digits_stop by (try exact Df; exact letter_S).
  destruct f as [|y f']; [congruence|]. reflexivity.
Qed.

Definition comp_fits (o : option str) : Prop :=
  match o with Some ds => (N.of_nat (length ds) <= py_max_str_digits)%N | None => True end.
Definition digits_fit (d : duration_sp) : Prop :=
  comp_fits (du_sp_y d) /\ comp_fits (du_sp_mo d) /\ comp_fits (du_sp_d d) /\ comp_fits (du_sp_h d) /\ comp_fits (du_sp_mi d).

Lemma oint_comp o : wf_digits o = true -> comp_fits o -> oint o = Some (val_comp o).
Proof.
  destruct o as [ds|]; [|reflexivity]. cbn [wf_digits comp_fits oint val_comp option_map].
  intros W F. apply andb_true_iff in W as [D N0].
  rewrite py_int_digits; [reflexivity|exact D| |exact F].
  destruct ds; [cbn in N0; discriminate|discriminate].
Qed.

Lemma pattern_ok : str_eqb xml_duration_re_pattern expected_duration_pattern = true.
Proof. vm_compute. reflexivity. Qed.

(* shape facts used to normalise the text *)
Lemma wf_digits_some ds : wf_digits (Some ds) = true -> all_digits ds = true /\ ds <> [].
Proof.
  cbn. intros W. apply andb_true_iff in W as [D N0]. split; [exact D|].
  destruct ds; [cbn in N0; discriminate|discriminate].
Qed.

(* ---- compositional slot reasoning ---------------------------------------- *)
(* a remaining text that cannot be mistaken for a component with letter L *)
Definition safe (L : N) (s : str) : Prop :=
  s = [] \/ exists ds c r, s = ds ++ c :: r /\ all_digits ds = true /\ letter c /\ c <> L.

Lemma safe_nil L : safe L []. Proof. left; reflexivity. Qed.

Lemma safe_letter L c r : letter c -> c <> L -> safe L (c :: r).
Proof. intros Hc Hn. right. exists [], c, r. repeat split; auto. Qed.

Lemma safe_comp L L' o s :
  wf_digits o = true -> letter L' -> L' <> L -> safe L s -> safe L (lex_comp o L' ++ s).
Proof.
  intros W HL Hn Hs. destruct o as [ds|]; [|exact Hs].
  destruct (wf_digits_some ds W) as [D _]. right. exists ds, L', s.
  cbn [lex_comp]. rewrite <- app_assoc. repeat split; auto.
Qed.

Lemma safe_secs L o : wf_seconds o = true -> L <> 83%N -> L <> 46%N -> safe L (lex_secs o).
Proof.
  intros W H1 H2. destruct o as [[i f]|]; [|apply safe_nil].
  cbn [wf_seconds] in W. apply andb_true_iff in W as [W Df]. apply andb_true_iff in W as [Di _].
  right. destruct f as [|y f'].
  - exists i, 83%N, []. cbn [lex_secs]. repeat split; auto using letter_S.
  - exists i, 46%N, ((y :: f') ++ [83%N]). cbn [lex_secs app]. repeat split; auto using letter_dot.
Qed.

Lemma slot_step L o s :
  wf_digits o = true -> letter L -> safe L s -> take_slot L (lex_comp o L ++ s) = (o, s).
Proof.
  intros W HL Hs. destruct o as [ds|].
  - destruct (wf_digits_some ds W) as [D Hne]. cbn [lex_comp]. rewrite <- app_assoc. cbn [app].
    apply take_slot_hit; assumption.
  - cbn [lex_comp app]. destruct Hs as [->|[ds [c [r [-> [D [Hc Hn]]]]]]].
    + apply take_slot_nil.
    + apply take_slot_miss; assumption.
Qed.

Lemma secs_step o : wf_seconds o = true -> take_seconds (lex_secs o) = (secs_text o, []).
Proof.
  intros W. destruct o as [[i f]|]; [|reflexivity].
  cbn [wf_seconds] in W. apply andb_true_iff in W as [W Df]. apply andb_true_iff in W as [Di N0].
  assert (Hne : i <> []) by (destruct i; [cbn in N0; discriminate|discriminate]).
  destruct f as [|y f'].
  - cbn [lex_secs secs_text]. apply take_seconds_int; assumption.
  - cbn [lex_secs secs_text]. change ([46%N] ++ (y :: f') ++ [83%N]) with (46%N :: (y :: f') ++ [83%N]).
    change ([46%N] ++ y :: f') with (46%N :: y :: f').
    apply (take_seconds_frac i (y :: f')); try assumption; discriminate.
Qed.

(* ---- the text as a whole ---------------------------------------------------- *)
Definition time_part (d : duration_sp) : str :=
  if has_time d
  then [84%N] ++ lex_comp (du_sp_h d) 72 ++ lex_comp (du_sp_mi d) 77 ++ lex_secs (du_sp_s d)
  else [].
Definition body (d : duration_sp) : str :=
  lex_comp (du_sp_y d) 89 ++ lex_comp (du_sp_mo d) 77 ++ lex_comp (du_sp_d d) 68 ++ time_part d.

Lemma lex_duration_body d : lex_duration d = (if du_sp_neg d then [45%N] else []) ++ 80%N :: body d.
Proof. reflexivity. Qed.

Lemma safe_time_part L d : L <> 84%N -> safe L (time_part d).
Proof.
  intros H. unfold time_part. destruct (has_time d); [|apply safe_nil].
  cbn [app]. apply safe_letter; [exact letter_T|congruence].
Qed.

(* the body is not empty, does not end with T, and its last character is not whitespace *)
Definition comp_letter (c : N) : Prop := c = 89%N \/ c = 77%N \/ c = 68%N \/ c = 72%N \/ c = 83%N.

Lemma lex_comp_last o L tl : (exists p c, tl = p ++ [c] /\ comp_letter c) ->
  exists p c, lex_comp o L ++ tl = p ++ [c] /\ comp_letter c.
Proof. intros [p [c [-> H]]]. exists (lex_comp o L ++ p), c. rewrite app_assoc. auto. Qed.

Lemma lex_comp_some_last ds L : comp_letter L -> exists p c, lex_comp (Some ds) L = p ++ [c] /\ comp_letter c.
Proof. intros H. exists ds, L. auto. Qed.

Lemma lex_secs_last o : is_some o = true -> exists p c, lex_secs o = p ++ [c] /\ comp_letter c.
Proof.
  destruct o as [[i f]|]; [|discriminate]. intros _. destruct f as [|y f'].
  - exists i, 83%N. split; [reflexivity|]. unfold comp_letter; tauto.
  - exists (i ++ 46%N :: y :: f'), 83%N. cbn [lex_secs app]. split.
    + rewrite <- app_assoc. reflexivity.
    + unfold comp_letter; tauto.
Qed.

Lemma ends_from_suffix a tl : (exists p c, tl = p ++ [c] /\ comp_letter c) ->
  exists p c, a ++ tl = p ++ [c] /\ comp_letter c.
Proof. intros [p [c [-> H]]]. exists (a ++ p), c. rewrite app_assoc. auto. Qed.

Lemma body_last d : wf_duration d = true -> exists p c, body d = p ++ [c] /\ comp_letter c.
Proof.
  intros W. unfold wf_duration in W. apply andb_true_iff in W as [_ Hsome].
  unfold body, time_part, has_time.
  destruct (du_sp_s d) as [sv|] eqn:Es.
  - rewrite !orb_true_r. do 3 apply ends_from_suffix. cbn [app]. apply (ends_from_suffix [84%N]).
    do 2 apply ends_from_suffix. apply lex_secs_last. reflexivity.
  - destruct (du_sp_mi d) as [mi|] eqn:Emi.
    + cbn [is_some orb]. rewrite !orb_true_r. do 3 apply ends_from_suffix. apply (ends_from_suffix [84%N]).
      apply ends_from_suffix. cbn [lex_secs]. rewrite app_nil_r. apply lex_comp_some_last. unfold comp_letter; tauto.
    + destruct (du_sp_h d) as [h|] eqn:Eh.
      * cbn [is_some orb]. do 3 apply ends_from_suffix. apply (ends_from_suffix [84%N]).
        cbn [lex_comp lex_secs]. rewrite !app_nil_r. apply lex_comp_some_last. unfold comp_letter; tauto.
      * cbn [is_some orb lex_comp lex_secs app]. rewrite !app_nil_r.
        destruct (du_sp_d d) as [dd|] eqn:Ed.
        -- do 2 apply ends_from_suffix. apply lex_comp_some_last. unfold comp_letter; tauto.
        -- cbn [lex_comp]. rewrite app_nil_r. destruct (du_sp_mo d) as [mo|] eqn:Emo.
           ++ apply ends_from_suffix. apply lex_comp_some_last. unfold comp_letter; tauto.
           ++ cbn [lex_comp]. rewrite app_nil_r. destruct (du_sp_y d) as [y|] eqn:Ey.
              ** apply lex_comp_some_last. unfold comp_letter; tauto.
              ** cbn in Hsome. discriminate.
Qed.

Lemma comp_letter_facts c : comp_letter c -> py_isspace c = false /\ c <> 84%N.
Proof.
  intros [-> | [-> | [-> | [-> | ->]]]]; split; try (vm_compute; reflexivity); discriminate.
Qed.

Lemma wf_parts d : wf_duration d = true ->
  wf_digits (du_sp_y d) = true /\ wf_digits (du_sp_mo d) = true /\ wf_digits (du_sp_d d) = true /\
  wf_digits (du_sp_h d) = true /\ wf_digits (du_sp_mi d) = true /\ wf_seconds (du_sp_s d) = true.
Proof.
  unfold wf_duration. intros W. repeat (apply andb_true_iff in W as [W ?]). repeat split; assumption.
Qed.

Lemma body_parse d :
  wf_duration d = true ->
  let '(y, s2) := take_slot 89 (body d) in
  let '(mo, s3) := take_slot 77 s2 in
  let '(dd, s4) := take_slot 68 s3 in
  (y, mo, dd, s4) = (du_sp_y d, du_sp_mo d, du_sp_d d, time_part d).
Proof.
  intros W. destruct (wf_parts d W) as [Wy [Wmo [Wd [Wh [Wmi Ws]]]]].
  unfold body.
  rewrite (slot_step 89 (du_sp_y d)); [|exact Wy|exact letter_Y|].
  2:{ apply safe_comp; [exact Wmo|exact letter_M|discriminate|].
      apply safe_comp; [exact Wd|exact letter_D|discriminate|]. apply safe_time_part; discriminate. }
  rewrite (slot_step 77 (du_sp_mo d)); [|exact Wmo|exact letter_M|].
  2:{ apply safe_comp; [exact Wd|exact letter_D|discriminate|]. apply safe_time_part; discriminate. }
  rewrite (slot_step 68 (du_sp_d d)); [|exact Wd|exact letter_D|apply safe_time_part; discriminate].
  reflexivity.
Qed.

Lemma time_parse d :
  wf_duration d = true ->
  time_slots (time_part d) = (du_sp_h d, du_sp_mi d, secs_text (du_sp_s d), []).
Proof.
  intros W. destruct (wf_parts d W) as [Wy [Wmo [Wd [Wh [Wmi Ws]]]]].
  unfold time_part, time_slots. destruct (has_time d) eqn:HT.
  - cbn [app]. rewrite N.eqb_refl.
    rewrite (slot_step 72 (du_sp_h d)); [|exact Wh|exact letter_H|].
    2:{ apply safe_comp; [exact Wmi|exact letter_M|discriminate|]. apply safe_secs; [exact Ws|discriminate|discriminate]. }
    rewrite (slot_step 77 (du_sp_mi d)); [|exact Wmi|exact letter_M|apply safe_secs; [exact Ws|discriminate|discriminate]].
    rewrite secs_step by exact Ws. reflexivity.
  - unfold has_time in HT. destruct (du_sp_h d); [discriminate|]. destruct (du_sp_mi d); [discriminate|].
    destruct (du_sp_s d); [discriminate|]. reflexivity.
Qed.

Theorem duration_accepts d :
  wf_duration d = true -> digits_fit d ->
  duration_parse (lex_duration d)
  = Some (mk_xduration (du_sp_neg d) (val_comp (du_sp_y d)) (val_comp (du_sp_mo d)) (val_comp (du_sp_d d))
            (val_comp (du_sp_h d)) (val_comp (du_sp_mi d)) (secs_text (du_sp_s d))).
Proof.
  intros W [Fy [Fmo [Fd [Fh Fmi]]]].
  destruct (wf_parts d W) as [Wy [Wmo [Wd [Wh [Wmi Ws]]]]].
  destruct (body_last d W) as [p [c [Eb Hc]]].
  destruct (comp_letter_facts c Hc) as [Cs CT].
  unfold duration_parse.
  (* stripping is the identity *)
  assert (Hstrip : py_strip (lex_duration d) = lex_duration d).
  { pose proof (py_strip_wrap [] (lex_duration d) []) as S. cbn [app] in S. rewrite app_nil_r in S.
    apply S; try reflexivity. split.
    - rewrite lex_duration_body. destruct (du_sp_neg d); cbn [app]; eexists; eexists; (split; [reflexivity|vm_compute; reflexivity]).
    - rewrite lex_duration_body, Eb. exists ((if du_sp_neg d then [45%N] else []) ++ 80%N :: p), c.
      split; [|exact Cs]. rewrite <- app_assoc. reflexivity. }
  rewrite Hstrip, pattern_ok. cbn [negb].
  (* length and the trailing-T test *)
  assert (Hlen : (length (lex_duration d) <? 3)%nat = false).
  { apply Nat.ltb_ge. rewrite lex_duration_body, Eb. rewrite app_length. cbn [length]. rewrite app_length. cbn [length].
    (* p is not empty: the last component has at least one digit before its letter *)
    assert (Hp : p <> []).
    { intro E. subst p. cbn [app] in Eb.
      pose proof (body_parse d W) as BP. rewrite Eb in BP.
      destruct Hc as [-> | [-> | [-> | [-> | ->]]]]; cbn in BP; inversion BP as [[E1 E2 E3 E4]];
        unfold time_part in E4; destruct (has_time d) eqn:HT; try discriminate;
        unfold has_time in HT; rewrite <- ?E1, <- ?E2, <- ?E3 in *;
        unfold wf_duration in W; rewrite <- E1, <- E2, <- E3 in W;
        destruct (du_sp_h d); try discriminate; destruct (du_sp_mi d); try discriminate;
        destruct (du_sp_s d); try discriminate; cbn in W; rewrite ?andb_false_r in W; discriminate. }
    destruct p; [congruence|]. cbn [length]. destruct (du_sp_neg d); cbn [length]; lia. }
  rewrite Hlen. cbn [orb].
  assert (Hend : endswith [84%N] (lex_duration d) = false).
  { unfold endswith. rewrite lex_duration_body, Eb.
    replace ((if du_sp_neg d then [45%N] else []) ++ 80%N :: p ++ [c])
      with (((if du_sp_neg d then [45%N] else []) ++ 80%N :: p) ++ [c]) by (rewrite <- app_assoc; reflexivity).
    rewrite rev_app_distr. cbn [rev app startswith].
    destruct (N.eqb_spec 84 c) as [E|_]; [congruence|reflexivity]. }
  rewrite Hend.
  (* sign and P *)
  rewrite lex_duration_body.
  assert (Hsplit : (let '(neg, s0) := match (if du_sp_neg d then [45%N] else []) ++ 80%N :: body d with
                                       | 45%N :: r => (true, r) | _ => (false, (if du_sp_neg d then [45%N] else []) ++ 80%N :: body d) end in (neg, s0))
                   = (du_sp_neg d, 80%N :: body d)) by (destruct (du_sp_neg d); reflexivity).
  destruct (du_sp_neg d) eqn:En; cbn [app];
    pose proof (body_parse d W) as BP; pose proof (time_parse d W) as TP;
    destruct (take_slot 89 (body d)) as [y s2]; destruct (take_slot 77 s2) as [mo s3];
    destruct (take_slot 68 s3) as [dd s4]; inversion BP; subst y mo dd s4;
    rewrite TP; cbn [at_end];
    rewrite (oint_comp _ Wy Fy), (oint_comp _ Wmo Fmo), (oint_comp _ Wd Fd), (oint_comp _ Wh Fh), (oint_comp _ Wmi Fmi);
    reflexivity.
Qed.
