(* Proofs/WsdlLemmas.v — groundwork for the mapper theorem: the model's text/namespace
   utilities against the specification's QName resolution, Python's split() against XML
   white space, message parts, the classes made from rpc messages. *)
From Coq Require Import NArith List Bool Lia.
From XV Require Import Base.Str Base.Eqb Base.PyInt Gen.PyUnicode Gen.WsdlTables Spec.WsdlSpec Model.Wsdl Model.WsdlCorr.
Import ListNotations.
Open Scope N_scope.

(* ---- the constants of the code are those of the specification (break when a table changes) *)
Lemma c_soap_env : m_soap_env = SOAP_ENV. Proof. reflexivity. Qed.
Lemma c_soap_http : m_soap_http = SOAP_HTTP. Proof. reflexivity. Qed.
Lemma c_xs : m_xs_uri = XSD_NS. Proof. reflexivity. Qed.
Lemma c_rpc : m_rpc = s_rpc. Proof. reflexivity. Qed.
Lemma c_document : m_default_style = s_document. Proof. reflexivity. Qed.
Lemma c_envelope : m_envelope = s_Envelope. Proof. reflexivity. Qed.
Lemma c_body : m_body = s_Body. Proof. reflexivity. Qed.
Lemma c_header : s_Header_title = s_Header. Proof. reflexivity. Qed.
Lemma c_fault : m_fault = s_Fault. Proof. reflexivity. Qed.
Lemma c_detail : m_detail = s_detail. Proof. reflexivity. Qed.
Lemma c_string : m_string = s_string. Proof. reflexivity. Qed.
Lemma c_required : m_required_fields = [s_faultcode; s_faultstring]. Proof. reflexivity. Qed.
Lemma c_optional : m_optional_fields = [s_faultactor]. Proof. reflexivity. Qed.

(* ---- same functions written twice (Model is not allowed to borrow from Spec) *)
Lemma partition_colon_eq s : partition_colon s = split_colon s.
Proof. induction s as [|c r IH]; cbn; [reflexivity|]. rewrite IH. reflexivity. Qed.

Lemma ns_get_eq m p : ns_get m p = ns_lookup m p.
Proof. induction m as [|[k u] r IH]; cbn; [reflexivity|]. rewrite IH. reflexivity. Qed.

Lemma find_named_eq {A} (name : A -> str) l n : find_named name l n = find_by name l n.
Proof. unfold find_by. induction l as [|x r IH]; cbn; [reflexivity|]. rewrite IH. reflexivity. Qed.

Lemma find_by_name {A} (name : A -> str) l n x : find_by name l n = Some x -> name x = n /\ In x l.
Proof.
  unfold find_by. intros H. apply find_some in H as [Hin He]. apply str_eqb_eq in He. auto.
Qed.

(* ---- QNames *)
Lemma nonempty_cons (s : str) : nonempty s = true -> exists c r, s = c :: r.
Proof. destruct s as [|c r]; [discriminate|]. eauto. Qed.

Lemma uri_ok_nonempty u : uri_ok u = true -> exists c r, u = c :: r.
Proof. destruct u as [|c r]; [discriminate|]. eauto. Qed.

Lemma uri_ok_var u : uri_ok u = true -> var_namespace u = u.
Proof.
  destruct u as [|c r]; [discriminate|]. cbn. intros H.
  destruct (N.eqb_spec c 35) as [->|Hn]; [discriminate|].
  destruct c as [|p]; [reflexivity|].
  do 6 (destruct p as [p|p|]; try reflexivity). all: try (exfalso; apply Hn; reflexivity).
Qed.

Lemma uri_ok_not_lazy u : uri_ok u = true -> str_eqb u m_lazy = false.
Proof.
  destruct u as [|c r]; [discriminate|]. cbn. intros H.
  destruct (N.eqb_spec c 35) as [->|Hn]; [discriminate|].
  destruct (N.eqb_spec c 35); [contradiction|reflexivity].
Qed.

Lemma uri_ok_truthy u : uri_ok u = true -> truthy (Some u) = true.
Proof. destruct u; [discriminate|reflexivity]. Qed.

(* a resolved QName with a usable namespace is what text.split + ns_map.get compute *)
Lemma resolve_text_split m s u l :
  resolve_qname m s = Some (u, l) -> nonempty u = true ->
  exists prefix, text_split s = (prefix, l) /\ ns_get m prefix = Some u /\ nonempty l = true.
Proof.
  intros H Hu. unfold resolve_qname in H.
  destruct (qname_lexical s) eqn:Hlex; cbn [negb] in H; [|discriminate].
  unfold qname_lexical in Hlex. unfold text_split. rewrite partition_colon_eq.
  destruct (split_colon s) as [[p l']|] eqn:Es.
  - destruct (ns_lookup m (Some p)) as [u'|] eqn:En; [|discriminate]. inversion H; subst u' l'.
    destruct p as [|pc pr]; [discriminate|]. destruct l as [|lc lr]; [discriminate|].
    exists (Some (pc :: pr)). rewrite ns_get_eq. auto.
  - inversion H; subst. exists None. rewrite ns_get_eq.
    destruct l as [|lc lr]; [discriminate|].
    destruct (ns_lookup m None) as [u'|]; [auto| discriminate].
Qed.

Lemma resolve_no_slash m s u l : resolve_qname m s = Some (u, l) -> has_slash l = false.
Proof.
  intros H. unfold resolve_qname in H.
  destruct (qname_lexical s) eqn:Hlex; cbn [negb] in H; [|discriminate].
  unfold qname_lexical in Hlex.
  destruct (split_colon s) as [[p l']|] eqn:Es.
  - destruct (ns_lookup m (Some p)) as [u'|] eqn:En; [|discriminate]. inversion H; subst u' l'.
    destruct p as [|pc pr]; [discriminate|]. destruct l as [|lc lr]; [discriminate|].
    cbn [negb andb] in Hlex. apply andb_true_iff in Hlex as [_ Hs]. apply negb_true_iff in Hs. exact Hs.
  - inversion H; subst. apply andb_true_iff in Hlex as [_ Hs]. apply negb_true_iff in Hs. exact Hs.
Qed.

Lemma resolve_local_some d m s l :
  resolve_local d m s = Some l ->
  exists t, d_tns d = Some t /\ resolve_qname m s = Some (t, l).
Proof.
  unfold resolve_local. destruct (resolve_qname m s) as [[u l']|]; [|discriminate].
  destruct (d_tns d) as [t|]; [|discriminate].
  destruct (str_eqb_spec u t) as [->|]; [|discriminate]. intros H; inversion H; subst. eauto.
Qed.

Lemma resolve_local_suffix d t m s l :
  d_tns d = Some t -> nonempty t = true -> resolve_local d m s = Some l ->
  exists prefix, text_split s = (prefix, l) /\ ns_get m prefix = Some t /\ text_suffix s = l.
Proof.
  intros Ht Hn H. apply resolve_local_some in H as [t' [Ht' Hr]]. rewrite Ht in Ht'; inversion Ht'; subst t'.
  destruct (resolve_text_split _ _ _ _ Hr Hn) as [p [E [G _]]].
  exists p. unfold text_suffix. rewrite E. auto.
Qed.

Lemma no_slash_no_dslash l : has_slash l = false -> startswith [47; 47] l = false.
Proof.
  destruct l as [|a r]; [reflexivity|]. unfold has_slash. cbn [existsb startswith].
  destruct (47 =? a); cbn [orb andb]; [intros; discriminate | reflexivity].
Qed.

(* the mapper's reading of soap:header/@message *)
Lemma any_attr_local_resolved d t m s l :
  d_tns d = Some t -> nonempty t = true -> resolve_local d m s = Some l -> any_attr_local m s = l.
Proof.
  intros Ht Hn H. pose proof H as H0. apply resolve_local_some in H0 as [t' [Ht' Hr]].
  rewrite Ht in Ht'; inversion Ht'; subst t'.
  pose proof (resolve_no_slash _ _ _ _ Hr) as Hs.
  destruct (resolve_text_split _ _ _ _ Hr Hn) as [p [E [G Hl]]].
  unfold any_attr_local. rewrite E.
  destruct p as [[|c p]|].
  - (* prefix "" cannot come from a lexical QName *)
    exfalso. unfold resolve_qname, qname_lexical, text_split in *. rewrite partition_colon_eq in E.
    destruct (split_colon s) as [[p' l']|].
    + destruct p'; cbn in Hr; [discriminate|]. destruct l'; inversion E.
    + inversion E.
  - match goal with |- match ?x with _ => _ end = _ => assert (x = Some t) as -> by exact G end.
    rewrite (no_slash_no_dslash _ Hs). reflexivity.
  - (* unprefixed: raw = local *)
    unfold text_split in E. rewrite partition_colon_eq in E.
    unfold resolve_qname, qname_lexical in Hr.
    destruct (split_colon s) as [[p' l']|]; [|inversion E; reflexivity].
    destruct l'; [|inversion E]. destruct p'; cbn in Hr; discriminate.
Qed.

(* ---- Python's str.split() on an NMTOKENS value *)
Lemma split_ws_aux_agree ws1 ws2 s : (forall c, In c s -> ws1 c = ws2 c) ->
  forall cur, split_ws_aux ws1 cur s = split_ws_aux ws2 cur s.
Proof.
  induction s as [|x r IH]; intros H cur; cbn; [reflexivity|].
  rewrite (H x) by (left; reflexivity).
  destruct (ws2 x); [destruct cur|]; rewrite IH; auto; intros; apply H; right; assumption.
Qed.

Lemma py_space_ascii c : 33 <= c -> c <= 126 -> py_isspace c = false.
Proof.
  intros H1 H2. destruct (py_isspace c) eqn:E; [|reflexivity]. exfalso.
  unfold py_isspace in E. apply mem_In in E. unfold py_space_tbl in E.
  repeat (destruct E as [E|E]; [subst; lia|]). exact E.
Qed.

Lemma py_space_xml c : xml_ws c = true -> py_isspace c = true.
Proof.
  unfold xml_ws. intros H. repeat rewrite orb_true_iff in H.
  destruct H as [[[H|H]|H]|H]; apply N.eqb_eq in H; subst; reflexivity.
Qed.

Lemma split_py_xml s : tokens_ascii s = true -> split_ws py_isspace s = split_ws xml_ws s.
Proof.
  intros H. unfold split_ws. apply split_ws_aux_agree. intros c Hin.
  unfold tokens_ascii in H. rewrite forallb_forall in H. specialize (H c Hin).
  destruct (xml_ws c) eqn:E.
  - apply py_space_xml; exact E.
  - cbn in H. apply andb_true_iff in H as [H1 H2]. apply N.leb_le in H1, H2. apply py_space_ascii; assumption.
Qed.

(* ---- simple types *)
Lemma simple_base_tenv te u l :
  simple_base te u l = match tenv_get te (u, l) with Some b => b | None => None end.
Proof.
  induction te as [|[[u' l'] b] r IH]; cbn; [reflexivity|].
  unfold qn_eqb; cbn. destruct (str_eqb u' u && str_eqb l' l); [reflexivity | exact IH].
Qed.

(* ---- classes made from rpc messages *)
Definition msg_class (t : str) (dm : message) : aclass :=
  AClass (t, msg_name dm) None TagElement (Some t) (build_parts_attributes (msg_parts dm)) [].

(* every class of tag Element among `all` is the class of a message of the document (the
   first of that name) *)
Definition inv (d : definitions) (t : str) (all : list aclass) : Prop :=
  forall c, In c all -> is_tag TagElement c = true ->
            exists dm, find_message_by_name d (msg_name dm) = Some dm /\ c = msg_class t dm.

Lemma find_message_by_name_some d n dm :
  find_message_by_name d n = Some dm -> msg_name dm = n /\ In dm (d_messages d).
Proof. unfold find_message_by_name. rewrite find_named_eq. apply find_by_name. Qed.

Lemma fec_none d t all q :
  inv d t all -> d_tns d = Some t -> is_message_qname d q = false -> find_element_class all q = None.
Proof.
  intros Hinv Ht Hq. unfold find_element_class.
  destruct (find _ (rev all)) as [c|] eqn:E; [|reflexivity]. exfalso.
  apply find_some in E as [Hin Hc]. apply in_rev in Hin. apply andb_true_iff in Hc as [Htag Hqn].
  destruct (Hinv c Hin Htag) as [dm [Hf ->]].
  apply find_message_by_name_some in Hf as [_ Hin'].
  unfold qn_eqb in Hqn; cbn in Hqn. apply andb_true_iff in Hqn as [H1 H2].
  apply str_eqb_eq in H1, H2. destruct q as [qu ql]; cbn in *; subst.
  unfold is_message_qname in Hq; cbn in Hq. rewrite Ht in Hq. cbn in Hq. rewrite str_eqb_refl in Hq. cbn in Hq.
  assert (existsb (fun m => str_eqb (msg_name m) (msg_name dm)) (d_messages d) = true) as Hx.
  { apply existsb_exists. exists dm. split; [assumption|apply str_eqb_refl]. }
  congruence.
Qed.

Lemma fec_some d t all dm :
  inv d t all -> find_message_by_name d (msg_name dm) = Some dm -> In (msg_class t dm) all ->
  find_element_class all (t, msg_name dm) = Some (msg_class t dm).
Proof.
  intros Hinv Hf Hin. unfold find_element_class.
  destruct (find _ (rev all)) as [c|] eqn:E.
  - apply find_some in E as [Hin' Hc]. apply in_rev in Hin'. apply andb_true_iff in Hc as [Htag Hqn].
    destruct (Hinv c Hin' Htag) as [dm' [Hf' ->]].
    unfold qn_eqb in Hqn; cbn in Hqn. apply andb_true_iff in Hqn as [_ H2]. apply str_eqb_eq in H2.
    rewrite H2 in Hf'. rewrite Hf in Hf'. inversion Hf'; subst. reflexivity.
  - exfalso. assert (In (msg_class t dm) (rev all)) as Hin' by (apply in_rev; rewrite rev_involutive; exact Hin).
    pose proof (find_none _ _ E (msg_class t dm) Hin') as Hx.
    cbn in Hx. unfold qn_eqb in Hx; cbn in Hx. rewrite !str_eqb_refl in Hx. discriminate.
Qed.

(* ---- list plumbing *)
Lemma flat_map_flat_map {A B C} (f : B -> list C) (g : A -> list B) l :
  flat_map f (flat_map g l) = flat_map (fun x => flat_map f (g x)) l.
Proof. induction l as [|x r IH]; cbn; [reflexivity|]. rewrite flat_map_app, IH. reflexivity. Qed.

Lemma concat_opt_app {A} (x : list A) l y : concat_opt l = Some y -> concat_opt (Some x :: l) = Some (x ++ y).
Proof. intros H. cbn. rewrite H. reflexivity. Qed.

Lemma map_flat_map {A B C} (f : B -> C) (g : A -> list B) l :
  map f (flat_map g l) = flat_map (fun x => map f (g x)) l.
Proof. induction l as [|x r IH]; cbn; [reflexivity|]. rewrite map_app, IH. reflexivity. Qed.

Lemma flat_map_ext_in {A B} (f g : A -> list B) l :
  (forall x, In x l -> f x = g x) -> flat_map f l = flat_map g l.
Proof.
  induction l as [|x r IH]; intros H; cbn; [reflexivity|].
  rewrite H by (left; reflexivity). rewrite IH; [reflexivity|]. intros; apply H; right; assumption.
Qed.
