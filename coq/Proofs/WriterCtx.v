(* Proofs/WriterCtx.v — how the declarations of one element (`changed_entries`) update
   (a) the XML-Namespaces environment of the reader (`env`, Spec/XmlNs.v) and
   (b) XMLGenerator's uri->prefix context (`nctx`),
   and the two relations the soundness proof carries down the tree:
     env_is e m  : the reader's environment is the writer's prefix map, as a function
     ctx_maps c m: for every bound namespace the sink's context names a prefix that the
                   writer's map binds to that namespace. *)
From Coq Require Import NArith List Bool Lia.
From XV Require Import Base.Str Base.Eqb Spec.XmlNs Model.Writer Proofs.WriterMaps.
Import ListNotations.
Open Scope N_scope.

Lemma env_get_nm_get e p : env_get e p = nm_get e p.
Proof. induction e as [|[p' u] e IH]; cbn; [reflexivity|]. rewrite IH. reflexivity. Qed.

Lemma nm_get_app a b p :
  nm_get (a ++ b) p = match nm_get a p with Some u => Some u | None => nm_get b p end.
Proof.
  induction a as [|[p' u] a IH]; cbn; [reflexivity|].
  destruct (ostr_eqb p p'); [reflexivity|exact IH].
Qed.

Lemma In_map_fst_nm_get m p : In p (map fst m) -> nm_get m p <> None.
Proof.
  induction m as [|[p' u] m IH]; cbn; [tauto|].
  destruct (ostr_eqb p p') eqn:E; [discriminate|].
  intros [H|H]; [subst; rewrite ostr_eqb_refl in E; discriminate|exact (IH H)].
Qed.

(* with unique keys, lookup does not depend on the order *)
Lemma nm_get_rev m p : NoDup (map fst m) -> nm_get (rev m) p = nm_get m p.
Proof.
  induction m as [|[p' u] m IH]; cbn [rev map fst]; [reflexivity|].
  intros H. inversion H as [|? ? Hni Hnd]; subst.
  rewrite nm_get_app, (IH Hnd). cbn [nm_get].
  destruct (ostr_eqb p p') eqn:E.
  - apply ostr_eqb_eq in E. subst p'.
    destruct (nm_get m p) eqn:G; [|reflexivity].
    exfalso. apply Hni. apply nm_get_In in G. apply (in_map fst) in G. exact G.
  - destruct (nm_get m p); reflexivity.
Qed.

Lemma filter_keys_nodup (f : option str * str -> bool) m :
  NoDup (map fst m) -> NoDup (map fst (filter f m)).
Proof.
  induction m as [|x m IH]; cbn; [tauto|]. intros H. inversion H as [|? ? Hni Hnd]; subst.
  destruct (f x); cbn; [|exact (IH Hnd)].
  constructor; [|exact (IH Hnd)]. intros Hin. apply Hni.
  clear -Hin. induction m as [|y m IH]; cbn in *; [tauto|].
  destruct (f y); cbn in Hin; [destruct Hin as [H|H]; [left; exact H|right; exact (IH H)]|right; exact (IH Hin)].
Qed.

Lemma nm_get_filter (f : option str * str -> bool) m p :
  NoDup (map fst m) ->
  nm_get (filter f m) p = match nm_get m p with
                          | Some u => if f (p, u) then Some u else None
                          | None => None
                          end.
Proof.
  induction m as [|[p' u] m IH]; cbn [filter nm_get map fst]; [reflexivity|].
  intros H. inversion H as [|? ? Hni Hnd]; subst.
  destruct (ostr_eqb p p') eqn:E.
  - apply ostr_eqb_eq in E. subst p'.
    destruct (f (p, u)); cbn [nm_get].
    + rewrite ostr_eqb_refl. reflexivity.
    + rewrite (IH Hnd). destruct (nm_get m p) eqn:G; [|reflexivity].
      exfalso. apply Hni. apply nm_get_In in G. apply (in_map fst) in G. exact G.
  - destruct (f (p', u)); cbn [nm_get]; [rewrite E|]; exact (IH Hnd).
Qed.

(* ------------------------------------------------------------------ env *)
Definition env_is (e : env) (m : nsmap) : Prop := forall p, env_get e p = nm_get m p.

Lemma env_is_nil : env_is [] [].
Proof. intros p. reflexivity. Qed.

Lemma env_is_step e pm m :
  env_is e pm -> NoDup (map fst m) ->
  (forall p, nm_get pm p <> None -> nm_get m p <> None) ->
  env_is (rev (changed_entries pm m) ++ e) m.
Proof.
  intros He Hnd Hk p. rewrite env_get_nm_get, nm_get_app.
  unfold changed_entries.
  rewrite nm_get_rev by (apply filter_keys_nodup, Hnd).
  rewrite nm_get_filter by exact Hnd. cbn [fst snd].
  destruct (nm_get m p) as [u|] eqn:G.
  - destruct (ostr_eqb (nm_get pm p) (Some u)) eqn:E; cbn [negb]; [|reflexivity].
    apply ostr_eqb_eq in E. rewrite <- env_get_nm_get, He. exact E.
  - rewrite <- env_get_nm_get, He. destruct (nm_get pm p) eqn:G2; [|reflexivity].
    exfalso. apply (Hk p); [congruence|exact G].
Qed.

(* ------------------------------------------------------------------ XMLGenerator's context *)
Definition nc_sets (c : nctx) (ds : nsmap) : nctx :=
  fold_left (fun c d => nc_set c (snd d) (fst d)) ds c.

Lemma nc_get_set_same c u p : nc_get (nc_set c u p) u = Some p.
Proof.
  induction c as [|[u' p'] c IH]; cbn.
  - rewrite str_eqb_refl. reflexivity.
  - destruct (str_eqb u u') eqn:E; cbn; rewrite E; [reflexivity|exact IH].
Qed.
Lemma nc_get_set_other c u p u' : u' <> u -> nc_get (nc_set c u p) u' = nc_get c u'.
Proof.
  intros Hn. induction c as [|[u0 p0] c IH]; cbn.
  - rewrite str_eqb_neq by exact Hn. reflexivity.
  - destruct (str_eqb u u0) eqn:E; cbn.
    + apply str_eqb_eq in E. subst u0. rewrite str_eqb_neq by exact Hn. reflexivity.
    + destruct (str_eqb u' u0); [reflexivity|exact IH].
Qed.

Lemma nc_sets_untouched ds : forall c u,
  (forall d, In d ds -> snd d <> u) -> nc_get (nc_sets c ds) u = nc_get c u.
Proof.
  induction ds as [|d ds IH]; intros c u H; [reflexivity|].
  cbn [nc_sets fold_left]. fold (nc_sets (nc_set c (snd d) (fst d)) ds).
  rewrite IH by (intros d' Hd; apply H; right; exact Hd).
  apply nc_get_set_other. intros E. exact (H d (or_introl eq_refl) (eq_sym E)).
Qed.
Lemma nc_sets_touched ds : forall c u,
  (exists d, In d ds /\ snd d = u) -> exists p, In (p, u) ds /\ nc_get (nc_sets c ds) u = Some p.
Proof.
  induction ds as [|d ds IH]; intros c u [d0 [Hin Hu]]; [destruct Hin|].
  cbn [nc_sets fold_left]. fold (nc_sets (nc_set c (snd d) (fst d)) ds).
  destruct (existsb (fun d' => str_eqb (snd d') u) ds) eqn:Ex.
  - apply existsb_exists in Ex as [d1 [Hin1 He]]. apply str_eqb_eq in He.
    destruct (IH (nc_set c (snd d) (fst d)) u (ex_intro _ d1 (conj Hin1 He))) as [p [Hp Hg]].
    exists p. split; [right; exact Hp|exact Hg].
  - assert (Hnone : forall d', In d' ds -> snd d' <> u).
    { intros d' Hd' E. assert (existsb (fun d' => str_eqb (snd d') u) ds = true); [|congruence].
      apply existsb_exists. exists d'. split; [exact Hd'|apply str_eqb_eq, E]. }
    rewrite nc_sets_untouched by exact Hnone.
    destruct Hin as [Hin|Hin]; [|exfalso; exact (Hnone _ Hin Hu)].
    subst d0. exists (fst d). split; [left; destruct d; cbn in *; subst; reflexivity|].
    rewrite <- Hu. apply nc_get_set_same.
Qed.

Definition ctx_maps (c : nctx) (m : nsmap) : Prop :=
  forall p u, nm_get m p = Some u -> u <> [] ->
              exists p', nc_get c u = Some p' /\ nm_get m p' = Some u.

Lemma ctx_maps_nil : ctx_maps [] [].
Proof. intros p u H. discriminate. Qed.

(* the map of an element extends the map of its parent; only the default namespace may
   have been reset to "" *)
Definition ext_reset (pm m : nsmap) : Prop :=
  forall p u, nm_get pm p = Some u ->
              nm_get m p = Some u \/ (p = None /\ nm_get m None = Some []).

Lemma ctx_maps_step u0 c pm m :
  ctx_maps c pm -> minv u0 pm -> NoDup (map fst m) -> ext_reset pm m ->
  ctx_maps (nc_sets c (changed_entries pm m)) m.
Proof.
  intros Hc Hpm Hnd Hext p u Hg Hu.
  set (ch := changed_entries pm m).
  destruct (existsb (fun d => str_eqb (snd d) u) ch) eqn:Ex.
  - apply existsb_exists in Ex as [d [Hin He]]. apply str_eqb_eq in He.
    destruct (nc_sets_touched ch c u (ex_intro _ d (conj Hin He))) as [p' [Hp' Hg']].
    exists p'. split; [exact Hg'|].
    unfold ch, changed_entries in Hp'. apply filter_In in Hp' as [Hp' _].
    apply In_nm_get; assumption.
  - assert (Hnone : forall d, In d ch -> snd d <> u).
    { intros d Hd E. assert (existsb (fun d => str_eqb (snd d) u) ch = true); [|congruence].
      apply existsb_exists. exists d. split; [exact Hd|apply str_eqb_eq, E]. }
    rewrite nc_sets_untouched by exact Hnone.
    (* (p,u) is not a changed entry: the parent had it *)
    assert (Hpar : nm_get pm p = Some u).
    { destruct (ostr_eqb (nm_get pm p) (Some u)) eqn:E; [apply ostr_eqb_eq in E; exact E|].
      exfalso. apply (Hnone (p, u)); [|reflexivity].
      unfold ch, changed_entries. apply filter_In. split; [apply nm_get_In, Hg|].
      cbn [fst snd]. rewrite E. reflexivity. }
    destruct (Hc p u Hpar Hu) as [p' [Hc' Hp']].
    exists p'. split; [exact Hc'|].
    destruct (Hext p' u Hp') as [H|[Hn Hr]]; [exact H|].
    (* the parent's default namespace was u and has been reset: then u had no other prefix *)
    subst p'. pose proof (mi_default_alone _ _ Hpm u p Hu Hp' Hpar) as ->.
    rewrite Hr in Hg. inversion Hg; subst. contradiction.
Qed.
