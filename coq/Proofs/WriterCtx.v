(* Proofs/WriterCtx.v — how the declarations of one element (`changed_entries`) update
   (a) the XML-Namespaces environment of the reader (`env`, Spec/XmlNs.v) and
   (b) XMLGenerator's uri->prefix context (`nctx`),
   and the two relations the soundness proof carries down the tree:
     env_is e m  : the reader's environment is the writer's prefix map, as a function
     ctx_maps c m: for every bound namespace the sink's context names a prefix that the
                   writer's map binds to that namespace. *)
From Coq Require Import NArith List Bool Lia.
From XV Require Import Base.Str Base.Eqb Spec.XmlNs Model.Writer Proofs.WriterMaps.
Import ListNotations.
Open Scope N_scope.

Lemma env_get_nm_get e p : env_get e p = nm_get e p.
Proof. induction e as [|[p' u] e IH]; cbn; [reflexivity|]. rewrite IH. reflexivity. Qed.

Lemma nm_get_app a b p :
  nm_get (a ++ b) p = match nm_get a p with Some u => Some u | None => nm_get b p end.
Proof.
  induction a as [|[p' u] a IH]; cbn; [reflexivity|].
  destruct (ostr_eqb p p'); [reflexivity|exact IH].
Qed.

Lemma In_map_fst_nm_get m p : In p (map fst m) -> nm_get m p <> None.
Proof.
  induction m as [|[p' u] m IH]; cbn; [tauto|].
  destruct (ostr_eqb p p') eqn:E; [discriminate|].
  intros [H|H]; [subst; rewrite ostr_eqb_refl in E; discriminate|exact (IH H)].
Qed.

(* with unique keys, lookup does not depend on the order *)
Lemma nm_get_rev m p : NoDup (map fst m) -> nm_get (rev m) p = nm_get m p.
Proof.
  induction m as [|[p' u] m IH]; cbn [rev map fst]; [reflexivity|].
  intros H. inversion H as [|? ? Hni Hnd]; subst.
  rewrite nm_get_app, (IH Hnd). cbn [nm_get].
  destruct (ostr_eqb p p') eqn:E.
  - apply ostr_eqb_eq in E. subst p'.
    destruct (nm_get m p) eqn:G; [|reflexivity].
    exfalso. apply Hni. apply nm_get_In in G. apply (in_map fst) in G. exact G.
  - destruct (nm_get m p); reflexivity.
Qed.

Lemma filter_keys_nodup (f : option str * str -> bool) m :
  NoDup (map fst m) -> NoDup (map fst (filter f m)).
Proof.
  induction m as [|x m IH]; cbn; [tauto|]. intros H. inversion H as [|? ? Hni Hnd]; subst.
  destruct (f x); cbn; [|exact (IH Hnd)].
  constructor; [|exact (IH Hnd)]. intros Hin. apply Hni.
  clear -Hin. induction m as [|y m IH]; cbn in *; [tauto|].
  destruct (f y); cbn in Hin; [destruct Hin as [H|H]; [left; exact H|right; exact (IH H)]|right; exact (IH Hin)].
Qed.

Lemma nm_get_filter (f : option str * str -> bool) m p :
  NoDup (map fst m) ->
  nm_get (filter f m) p = match nm_get m p with
                          | Some u => if f (p, u) then Some u else None
                          | None => None
                          end.
Proof.
  induction m as [|[p' u] m IH]; cbn [filter nm_get map fst]; [reflexivity|].
  intros H. inversion H as [|? ? Hni Hnd]; subst.
  destruct (ostr_eqb p p') eqn:E.
  - apply ostr_eqb_eq in E. subst p'.
    destruct (f (p, u)); cbn [nm_get].
    + rewrite ostr_eqb_refl. reflexivity.
    + rewrite (IH Hnd). destruct (nm_get m p) eqn:G; [|reflexivity].
      exfalso. apply Hni. apply nm_get_In in G. apply (in_map fst) in G. exact G.
  - destruct (f (p', u)); cbn [nm_get]; [rewrite E|]; exact (IH Hnd).
Qed.

(* ------------------------------------------------------------------ env *)
Definition env_is (e : env) (m : nsmap) : Prop := forall p, env_get e p = nm_get m p.

Lemma env_is_nil : env_is [] [].
Proof. intros p. reflexivity. Qed.

Lemma env_is_step e pm m :
  env_is e pm -> NoDup (map fst m) ->
  (forall p, nm_get pm p <> None -> nm_get m p <> None) ->
  env_is (rev (changed_entries pm m) ++ e) m.
Proof.
  intros He Hnd Hk p. rewrite env_get_nm_get, nm_get_app.
  unfold changed_entries.
  rewrite nm_get_rev by (apply filter_keys_nodup, Hnd).
  rewrite nm_get_filter by exact Hnd. cbn [fst snd].
  destruct (nm_get m p) as [u|] eqn:G.
  - destruct (ostr_eqb (nm_get pm p) (Some u)) eqn:E; cbn [negb]; [|reflexivity].
    apply ostr_eqb_eq in E. rewrite <- env_get_nm_get, He. exact E.
  - rewrite <- env_get_nm_get, He. destruct (nm_get pm p) eqn:G2; [|reflexivity].
    exfalso. apply (Hk p); [congruence|exact G].
Qed.

(* ------------------------------------------------------------------ XMLGenerator's context *)
Definition nc_sets (c : nctx) (ds : nsmap) : nctx :=
  fold_left (fun c d => nc_set c (snd d) (fst d)) ds c.

Lemma nc_get_set_same c u p : nc_get (nc_set c u p) u = Some p.
Proof.
  induction c as [|[u' p'] c IH]; cbn.
  - rewrite str_eqb_refl. reflexivity.
  - destruct (str_eqb u u') eqn:E; cbn; rewrite E; [reflexivity|exact IH].
Qed.
Lemma nc_get_set_other c u p u' : u' <> u -> nc_get (nc_set c u p) u' = nc_get c u'.
Proof.
  intros Hn. induction c as [|[u0 p0] c IH]; cbn.
  - rewrite str_eqb_neq by exact Hn. reflexivity.
  - destruct (str_eqb u u0) eqn:E; cbn.
    + apply str_eqb_eq in E. subst u0. rewrite str_eqb_neq by exact Hn. reflexivity.
    + destruct (str_eqb u' u0); [reflexivity|exact IH].
Qed.

Lemma nc_sets_untouched ds : forall c u,
  (forall d, In d ds -> snd d <> u) -> nc_get (nc_sets c ds) u = nc_get c u.
Proof.
  induction ds as [|d ds IH]; intros c u H; [reflexivity|].
  cbn [nc_sets fold_left]. fold (nc_sets (nc_set c (snd d) (fst d)) ds).
  rewrite IH by (intros d' Hd; apply H; right; exact Hd).
  apply nc_get_set_other. intros E. exact (H d (or_introl eq_refl) (eq_sym E)).
Qed.
Lemma nc_sets_touched ds : forall c u,
  (exists d, In d ds /\ snd d = u) -> exists p, In (p, u) ds /\ nc_get (nc_sets c ds) u = Some p.
Proof.
  induction ds as [|d ds IH]; intros c u [d0 [Hin Hu]]; [destruct Hin|].
  cbn [nc_sets fold_left]. fold (nc_sets (nc_set c (snd d) (fst d)) ds).
  destruct (existsb (fun d' => str_eqb (snd d') u) ds) eqn:Ex.
  - apply existsb_exists in Ex as [d1 [Hin1 He]]. apply str_eqb_eq in He.
    destruct (IH (nc_set c (snd d) (fst d)) u (ex_intro _ d1 (conj Hin1 He))) as [p [Hp Hg]].
    exists p. split; [right; exact Hp|exact Hg].
  - assert (Hnone : forall d', In d' ds -> snd d' <> u).
    { intros d' Hd' E. assert (existsb (fun d' => str_eqb (snd d') u) ds = true); [|congruence].
      apply existsb_exists. exists d'. split; [exact Hd'|apply str_eqb_eq, E]. }
    rewrite nc_sets_untouched by exact Hnone.
    destruct Hin as [Hin|Hin]; [|exfalso; exact (Hnone _ Hin Hu)].
    subst d0. exists (fst d). split; [left; destruct d; cbn in *; subst; reflexivity|].
    rewrite <- Hu. apply nc_get_set_same.
Qed.

Definition ctx_maps (c : nctx) (m : nsmap) : Prop :=
  forall p u, nm_get m p = Some u -> u <> [] ->
              exists p', nc_get c u = Some p' /\ nm_get m p' = Some u.

Lemma ctx_maps_nil : ctx_maps [] [].
Proof. intros p u H. discriminate. Qed.

(* the map of an element extends the map of its parent; only the default namespace may
   have been reset to "" *)
Definition ext_reset (pm m : nsmap) : Prop :=
  forall p u, nm_get pm p = Some u ->
              nm_get m p = Some u \/ (p = None /\ nm_get m None = Some []).

(* the sink's context never names the default prefix for a namespace that has a prefixed binding *)
Definition ctx_pref (c : nctx) (m : nsmap) : Prop :=
  forall p u, nm_get m (Some p) = Some u -> nc_get c u <> Some None.
Lemma ctx_pref_nil : ctx_pref [] [].
Proof. intros p u H. discriminate. Qed.

(* what nc_sets computes: the last declaration of the namespace wins *)
Definition last_decl (u : str) (acc : option (option str)) (ds : nsmap) : option (option str) :=
  fold_left (fun acc d => if str_eqb (snd d) u then Some (fst d) else acc) ds acc.
Lemma nc_get_sets ds : forall c u, nc_get (nc_sets c ds) u = last_decl u (nc_get c u) ds.
Proof.
  induction ds as [|d ds IH]; intros c u; [reflexivity|].
  cbn [nc_sets fold_left]. fold (nc_sets (nc_set c (snd d) (fst d)) ds).
  rewrite IH. unfold last_decl. cbn [fold_left].
  assert (E : nc_get (nc_set c (snd d) (fst d)) u = if str_eqb (snd d) u then Some (fst d) else nc_get c u).
  { destruct (str_eqb_spec (snd d) u) as [E|E].
    - subst u. apply nc_get_set_same.
    - apply nc_get_set_other. intros H. apply E. symmetry. exact H. }
  rewrite E. reflexivity.
Qed.

Lemma nodup_app_disjoint {A} (l1 l2 : list A) x : NoDup (l1 ++ l2) -> In x l1 -> In x l2 -> False.
Proof.
  induction l1 as [|a l1 IH]; cbn; [tauto|]. intros Hnd [H1|H1] H2; inversion Hnd as [|? ? Hni Hnd']; subst.
  - apply Hni. apply in_or_app. right. exact H2.
  - exact (IH Hnd' H1 H2).
Qed.
Lemma last_decl_none u ds : forall acc,
  last_decl u acc ds = Some None ->
  (acc = Some None /\ forall d, In d ds -> snd d <> u)
  \/ exists l1 l2, ds = l1 ++ (None, u) :: l2 /\ forall d, In d l2 -> snd d <> u.
Proof.
  induction ds as [|d ds IH]; intros acc H; cbn [last_decl fold_left] in H.
  - left. split; [exact H|intros d []].
  - fold (last_decl u (if str_eqb (snd d) u then Some (fst d) else acc) ds) in H.
    destruct (IH _ H) as [[Ha Hn]|[l1 [l2 [Hs Hn]]]].
    + destruct (str_eqb_spec (snd d) u) as [E|E].
      * right. exists [], ds. split; [|exact Hn]. inversion Ha as [Hf]. destruct d as [p x]. cbn in *. subst. reflexivity.
      * left. split; [exact Ha|]. intros d' [Hd|Hd]; [subst; exact E|exact (Hn d' Hd)].
    + right. exists (d :: l1), l2. split; [rewrite Hs; reflexivity|exact Hn].
Qed.

Lemma changed_entries_nil m : changed_entries [] m = m.
Proof.
  unfold changed_entries.
  set (f := fun e : option str * str => negb (ostr_eqb (nm_get [] (fst e)) (Some (snd e)))).
  induction m as [|x m IH]; [reflexivity|].
  change (filter f (x :: m)) with (if f x then x :: filter f m else filter f m).
  assert (Hf : f x = true) by reflexivity. rewrite Hf, IH. reflexivity.
Qed.

Lemma ctx_step u0 c pm m :
  ctx_maps c pm -> ctx_pref c pm -> minv u0 m -> ext_reset pm m ->
  (forall u, u <> [] -> nm_get m None = Some u -> pm = [] \/ nm_get pm None = Some u) ->
  ctx_maps (nc_sets c (changed_entries pm m)) m /\ ctx_pref (nc_sets c (changed_entries pm m)) m.
Proof.
  intros Hc Hcp Hm Hext Hnone.
  pose proof (mi_uniq _ _ Hm) as Hnd.
  set (ch := changed_entries pm m).
  assert (Hunch : forall p u, nm_get m p = Some u -> (forall d, In d ch -> snd d <> u) -> nm_get pm p = Some u).
  { intros p u Hg Hn. destruct (ostr_eqb (nm_get pm p) (Some u)) eqn:E; [apply ostr_eqb_eq in E; exact E|].
    exfalso. apply (Hn (p, u)); [|reflexivity].
    unfold ch, changed_entries. apply filter_In. split; [apply nm_get_In, Hg|]. cbn [fst snd]. rewrite E. reflexivity. }
  split.
  - intros p u Hg Hu.
    destruct (existsb (fun d => str_eqb (snd d) u) ch) eqn:Ex.
    + apply existsb_exists in Ex as [d [Hin He]]. apply str_eqb_eq in He.
      destruct (nc_sets_touched ch c u (ex_intro _ d (conj Hin He))) as [p' [Hp' Hg']].
      exists p'. split; [exact Hg'|].
      unfold ch, changed_entries in Hp'. apply filter_In in Hp' as [Hp' _]. apply In_nm_get; assumption.
    + assert (Hn : forall d, In d ch -> snd d <> u).
      { intros d Hd E. assert (existsb (fun d => str_eqb (snd d) u) ch = true); [|congruence].
        apply existsb_exists. exists d. split; [exact Hd|apply str_eqb_eq, E]. }
      rewrite nc_sets_untouched by exact Hn.
      pose proof (Hunch p u Hg Hn) as Hpar.
      destruct (Hc p u Hpar Hu) as [p' [Hc' Hp']]. exists p'. split; [exact Hc'|].
      destruct (Hext p' u Hp') as [H|[Hp0 Hr]]; [exact H|]. subst p'.
      (* the parent's default namespace u was reset here *)
      destruct p as [q|].
      * exfalso. exact (Hcp q u Hpar Hc').
      * rewrite Hr in Hg. inversion Hg; subst. contradiction.
  - intros p u Hg Hcn. rewrite nc_get_sets in Hcn.
    assert (Hu : u <> []).
    { pose proof (mi_legal _ _ Hm _ _ (nm_get_In _ _ _ Hg)) as Hl. cbn in Hl. destruct Hl as [_ [_ [Hl _]]].
      intros ->. discriminate. }
    destruct (last_decl_none u ch _ Hcn) as [[Ha Hn]|[l1 [l2 [Hs Hn]]]].
    + exact (Hcp p u (Hunch _ _ Hg Hn) Ha).
    + (* the default declaration of u is the last one for u *)
      assert (Hin : In (None, u) ch) by (rewrite Hs; apply in_or_app; right; left; reflexivity).
      unfold ch, changed_entries in Hin. apply filter_In in Hin as [Hin Hchg]. cbn [fst snd] in Hchg.
      pose proof (In_nm_get _ _ _ Hnd Hin) as Hd.
      destruct (Hnone u Hu Hd) as [Hroot|Hpd].
      * subst pm. unfold ch in Hs. rewrite changed_entries_nil in Hs.
        (* both entries are declared here; the prefixed one must come later *)
        assert (Hpin : In (Some p, u) m) by apply nm_get_In, Hg.
        rewrite Hs in Hpin. apply in_app_or in Hpin as [Hpin|[Hpin|Hpin]]; [|discriminate|exact (Hn _ Hpin eq_refl)].
        apply in_split in Hpin as [a [b Hl1]].
        pose proof (mi_default_first _ _ Hm u a p (b ++ (None, u) :: l2) Hu Hd) as Hf.
        assert (Hm' : m = a ++ (Some p, u) :: (b ++ (None, u) :: l2)).
        { rewrite Hs, Hl1, <- app_assoc. reflexivity. }
        specialize (Hf Hm').
        rewrite Hm' in Hnd. rewrite map_app in Hnd.
        apply (nodup_app_disjoint _ _ None Hnd Hf).
        cbn [map fst]. right. rewrite map_app. apply in_or_app. right. left. reflexivity.
      * rewrite Hpd, ostr_eqb_refl in Hchg. discriminate.
Qed.
