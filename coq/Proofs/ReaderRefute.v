(* Proofs/ReaderRefute.v — witnesses: the unguarded agreement of the handlers is false of the
   faithful models (finding C08-F7: declarations below a union element; finding C08-F1:
   ElementTree sources), and the guards are satisfiable by non-trivial documents.  All by
   computation with the executable converter `qconv` (which satisfies conv_lookup_only). *)
From Coq Require Import NArith ZArith List Bool.
From XV Require Import Base.Str Base.Eqb Model.Bind Model.Parser Model.ParserCorr Model.Reader Model.ReaderCorr
  Proofs.ReaderMaps Proofs.ReaderAgree Proofs.ReaderConv Proofs.ReaderWitness.
Import ListNotations.

Definition strict_cfg : pconfig := mk_pconfig true false false [].
Definition lenient_cfg : pconfig := mk_pconfig false false false [].

(* <A xmlns:r="urn:r"><u xmlns:p="urn:p"><d xmlns:z="urn:z" xmlns:r="urn:r2"><x>r:k</x></d></u></A>
   with A.u : Union[B, C]: the native handler resolves r:k against the OUTER binding of r *)
Lemma union_witness_values :
  native_parse strict_cfg qconv u_union_qname (Some root_union_qname) (doc_tokens doc_union_qname_0)
  = Ok (VObj 4 [([117], VObj 2 [([100], VObj 1 [([120], VP (PQName [123;117;114;110;58;114;125;107]))])])]) []
  /\ lxml_parse strict_cfg qconv u_union_qname (Some root_union_qname) (doc_tokens doc_union_qname_0)
  = Ok (VObj 4 [([117], VObj 2 [([100], VObj 1 [([120], VP (PQName [123;117;114;110;58;114;50;125;107]))])])]) [].
Proof. split; vm_compute; reflexivity. Qed.

Theorem handlers_agree_refuted :
  exists cfg c u root e,
    conv_lookup_only c /\ decls_wf e = true
    /\ union_decl_free cfg c u root (doc_tokens e) = false
    /\ native_parse cfg c u root (doc_tokens e) <> lxml_parse cfg c u root (doc_tokens e).
Proof.
  exists strict_cfg, qconv, u_union_qname, (Some root_union_qname), doc_union_qname_0.
  split; [exact qconv_lookup_only|]. split; [vm_compute; reflexivity|]. split; [vm_compute; reflexivity|].
  destruct union_witness_values as [-> ->]. discriminate.
Qed.

(* the other face of the same defect: the prefix is not found at all -> ParserError *)
Lemma union_witness_error :
  native_parse strict_cfg qconv u_union_qname (Some root_union_qname) (doc_tokens doc_union_qname_1) = Err ParserError
  /\ exists v, lxml_parse strict_cfg qconv u_union_qname (Some root_union_qname) (doc_tokens doc_union_qname_1) = Ok v [].
Proof. split; [vm_compute; reflexivity|eexists; vm_compute; reflexivity]. Qed.

(* non-vacuity of C08_handlers_agree: documents with nested redeclarations, xmlns="", a skipped
   subtree, a wrapper, and a union element whose declarations sit ON the union element *)
Lemma guard_nonvacuous_skip :
  decls_wf doc_skip_qname_0 = true
  /\ union_decl_free lenient_cfg qconv u_skip_qname (Some root_skip_qname) (doc_tokens doc_skip_qname_0) = true
  /\ exists v, native_parse lenient_cfg qconv u_skip_qname (Some root_skip_qname) (doc_tokens doc_skip_qname_0) = Ok v [].
Proof. split; [vm_compute; reflexivity|]. split; [vm_compute; reflexivity|]. eexists. vm_compute. reflexivity. Qed.

Lemma guard_nonvacuous_wrapper :
  decls_wf doc_wrapper_qname_0 = true
  /\ union_decl_free strict_cfg qconv u_wrapper_qname (Some root_wrapper_qname) (doc_tokens doc_wrapper_qname_0) = true
  /\ exists v, native_parse strict_cfg qconv u_wrapper_qname (Some root_wrapper_qname) (doc_tokens doc_wrapper_qname_0) = Ok v [].
Proof. split; [vm_compute; reflexivity|]. split; [vm_compute; reflexivity|]. eexists. vm_compute. reflexivity. Qed.

Lemma guard_nonvacuous_union :
  decls_wf doc_union_qname_4 = true
  /\ union_decl_free strict_cfg qconv u_union_qname (Some root_union_qname) (doc_tokens doc_union_qname_4) = true
  /\ native_parse strict_cfg qconv u_union_qname (Some root_union_qname) (doc_tokens doc_union_qname_4)
     = Ok (VObj 4 [([117], VObj 2 [([100], VObj 1 [([120], VP (PQName [123;117;114;110;58;122;125;107]))])])]) [].
Proof. split; [vm_compute; reflexivity|]. split; vm_compute; reflexivity. Qed.

(* the events themselves: under a SkipNode the native maps are NOT equivalent to lxml's (and need
   not be); the plain pump's are *)
Lemma skip_maps_differ :
  forallb2_pe (native_events lenient_cfg qconv u_skip_qname (Some root_skip_qname) (doc_tokens doc_skip_qname_0))
              (lxml_pump (doc_tokens doc_skip_qname_0)) = false
  /\ forallb2_pe (native_pump_plain (doc_tokens doc_skip_qname_0)) (lxml_pump (doc_tokens doc_skip_qname_0)) = true.
Proof. split; vm_compute; reflexivity. Qed.

(* ElementTree sources (finding C08-F1): prefixes are regenerated, QName content no longer resolves *)
Theorem et_source_agrees_refuted :
  exists cfg c u root e,
    conv_lookup_only c /\ decls_wf e = true
    /\ union_decl_free cfg c u root (doc_tokens e) = true
    /\ native_parse cfg c u root (et_tokens e) <> native_parse cfg c u root (doc_tokens e).
Proof.
  exists strict_cfg, qconv, u_wrapper_qname, (Some root_wrapper_qname), doc_wrapper_qname_0.
  split; [exact qconv_lookup_only|]. split; [vm_compute; reflexivity|]. split; [vm_compute; reflexivity|].
  vm_compute. discriminate.
Qed.
