(* Proofs/GraphScc.v — strongly connected components:
   (1) the partition into mutual-reachability classes is unique, hence independent of
       the order in which vertices and edges are presented (scc_spec_unique);
   (2) the executable checker Model.Graph.scc_check is sound for that specification
       (scc_check_sound): components are validated by a forward/backward reachability
       certificate and by the "edges only lead to earlier components" order that the
       path-based algorithm emits. *)
From Coq Require Import NArith List Bool Arith Lia Permutation.
From XV Require Import Base.Str Spec.GraphSpec Model.Graph Proofs.GraphBase.
Import ListNotations.

Section SpecUnique.
  Context {A : Type}.

  Lemma reach_mono (R R' : A -> A -> Prop) :
    (forall u w, R u w -> R' u w) -> forall u v, reach R u v -> reach R' u v.
  Proof.
    intros H u v Hr. induction Hr as [u|u w v Huw _ IH]; [constructor|].
    econstructor; [apply H; exact Huw | exact IH].
  Qed.

  Lemma reach_trans (R : A -> A -> Prop) u v w : reach R u v -> reach R v w -> reach R u w.
  Proof.
    intros H1 H2. induction H1 as [u|u x v Hux _ IH]; [exact H2|].
    econstructor; [exact Hux | apply IH; exact H2].
  Qed.

  Lemma NoDup_app_disjoint (a b : list A) x : NoDup (a ++ b) -> In x a -> In x b -> False.
  Proof.
    induction a as [|y a IH]; cbn; intros Hn Ha Hb; [contradiction|].
    inversion Hn as [|? ? Hy Hn']; subst. destruct Ha as [->|Ha].
    - apply Hy. apply in_or_app. right. exact Hb.
    - apply IH; assumption.
  Qed.

  Lemma NoDup_app_r (a b : list A) : NoDup (a ++ b) -> NoDup b.
  Proof.
    induction a as [|y a IH]; cbn; intros Hn; [exact Hn|].
    inversion Hn; subst. apply IH. assumption.
  Qed.

  Lemma concat_unique (l : list (list A)) c c' u :
    NoDup (concat l) -> In c l -> In c' l -> In u c -> In u c' -> c = c'.
  Proof.
    induction l as [|a l IH]; cbn; intros Hn Hc Hc' Hu Hu'; [contradiction|].
    destruct Hc as [->|Hc], Hc' as [->|Hc'].
    - reflexivity.
    - exfalso. apply (NoDup_app_disjoint _ _ u Hn Hu). apply in_concat. exists c'. split; assumption.
    - exfalso. apply (NoDup_app_disjoint _ _ u Hn Hu'). apply in_concat. exists c. split; assumption.
    - apply IH; try assumption. apply NoDup_app_r in Hn. exact Hn.
  Qed.

  Lemma scc_spec_sub (V V' : A -> Prop) (R R' : A -> A -> Prop) comps comps' :
    graph_equiv V V' R R' -> scc_spec V R comps -> scc_spec V' R' comps' ->
    forall c, In c comps -> exists c', In c' comps' /\ seteq c c'.
  Proof.
    intros [HV HR] [Hv [Hn [Hne Hs]]] [Hv' [Hn' [Hne' Hs']]] c Hc.
    destruct c as [|u c0] eqn:Ec; [exfalso; apply (Hne [] Hc); reflexivity|]. rewrite <- Ec in *.
    assert (Hu : In u c) by (rewrite Ec; left; reflexivity).
    assert (HVu : V u) by (apply Hv; apply in_concat; exists c; split; assumption).
    assert (HVu' : V' u) by (apply HV; exact HVu).
    destruct (proj1 (in_concat _ _) (proj1 (Hv' u) HVu')) as [c' [Hc' Hu']].
    exists c'. split; [exact Hc'|]. intros x. split; intros Hx.
    - assert (HVx : V x) by (apply Hv; apply in_concat; exists c; split; assumption).
      assert (Hm : mreach R u x) by (apply Hs; try assumption; exists c; repeat split; assumption).
      assert (Hm' : mreach R' u x).
      { destruct Hm as [H1 H2]. split; eapply reach_mono; try eassumption; intros a b; apply HR. }
      destruct (proj2 (Hs' u x HVu' (proj1 (HV x) HVx)) Hm') as [c'' [Hc'' [Hu'' Hx'']]].
      rewrite (concat_unique comps' c' c'' u Hn' Hc' Hc'' Hu' Hu''). exact Hx''.
    - assert (HVx' : V' x) by (apply Hv'; apply in_concat; exists c'; split; assumption).
      assert (Hm' : mreach R' u x) by (apply Hs'; try assumption; exists c'; repeat split; assumption).
      assert (Hm : mreach R u x).
      { destruct Hm' as [H1 H2]. split; eapply reach_mono; try eassumption; intros a b; apply HR. }
      destruct (proj2 (Hs u x HVu (proj2 (HV x) HVx')) Hm) as [c'' [Hc'' [Hu'' Hx'']]].
      rewrite (concat_unique comps c c'' u Hn Hc Hc'' Hu Hu''). exact Hx''.
  Qed.

  Theorem scc_spec_unique (V V' : A -> Prop) (R R' : A -> A -> Prop) comps comps' :
    graph_equiv V V' R R' -> scc_spec V R comps -> scc_spec V' R' comps' ->
    partition_equiv comps comps'.
  Proof.
    intros Hg H1 H2. split.
    - exact (scc_spec_sub V V' R R' comps comps' Hg H1 H2).
    - apply (scc_spec_sub V' V R' R comps' comps); [|exact H2|exact H1].
      destruct Hg as [HV HR]. split; [intros v; split; apply HV | intros u w; split; apply HR].
  Qed.
End SpecUnique.

Section Checker.
  Context {A : Type}.
  Variable eqb : A -> A -> bool.
  Hypothesis eqb_eq : forall x y, eqb x y = true <-> x = y.

  Definition isvertex (E : dict) (v : A) : Prop := In v (keys E).
  Definition edge (E : dict) (u w : A) : Prop := In w (get_or_nil eqb E u).

  Let memb_In := memb_In eqb eqb_eq.

  (* ---- soundness of the reachability certificate ---- *)
  Lemma reach_iter_sound E n : forall S x,
    In x (reach_iter eqb n E S) -> exists s, In s S /\ reach (edge E) s x.
  Proof.
    induction n as [|n IH]; cbn; intros S x Hx.
    - exists x. split; [exact Hx | constructor].
    - destruct (IH _ _ Hx) as [s [Hs Hr]].
      apply (proj1 (dedup_In eqb eqb_eq _ _)) in Hs. apply in_app_or in Hs. destruct Hs as [Hs|Hs].
      + exists s. split; assumption.
      + unfold succs in Hs. apply in_flat_map in Hs. destruct Hs as [s0 [Hs0 Hin]].
        exists s0. split; [exact Hs0|]. econstructor; [exact Hin | exact Hr].
  Qed.

  Lemma get_of_In (E : @dict A) k v : NoDup (keys E) -> In (k, v) E -> get eqb E k = Some v.
  Proof.
    induction E as [|[k0 v0] E IH]; cbn; intros Hn H; [contradiction|].
    inversion Hn as [|? ? Hk Hn']; subst. destruct H as [H|H].
    - inversion H; subst. rewrite (eqb_refl eqb eqb_eq). reflexivity.
    - destruct (eqb k k0) eqn:Ek.
      + apply eqb_eq in Ek. subst. exfalso. apply Hk. apply in_map_iff. exists (k0, v). split; [reflexivity | exact H].
      + apply IH; assumption.
  Qed.

  Lemma preds_sound E S x : NoDup (keys E) -> In x (preds eqb E S) -> exists w, In w S /\ edge E x w.
  Proof.
    intros Hn H. unfold preds in H. apply in_map_iff in H. destruct H as [[k v] [Ek H]]. cbn in Ek. subst k.
    apply filter_In in H. destruct H as [H Hex]. cbn in Hex. apply existsb_exists in Hex. destruct Hex as [w [Hw Hm]].
    exists w. split; [apply memb_In; exact Hm|]. unfold edge, get_or_nil. rewrite (get_of_In E x v Hn H). exact Hw.
  Qed.

  Lemma coreach_iter_sound E n : NoDup (keys E) -> forall S x,
    In x (coreach_iter eqb n E S) -> exists s, In s S /\ reach (edge E) x s.
  Proof.
    intros Hn. induction n as [|n IH]; cbn; intros S x Hx.
    - exists x. split; [exact Hx | constructor].
    - destruct (IH _ _ Hx) as [s [Hs Hr]].
      apply (proj1 (dedup_In eqb eqb_eq _ _)) in Hs. apply in_app_or in Hs. destruct Hs as [Hs|Hs].
      + exists s. split; assumption.
      + destruct (preds_sound E S s Hn Hs) as [w [Hw He]].
        exists w. split; [exact Hw|]. eapply reach_trans; [exact Hr|]. econstructor; [exact He | constructor].
  Qed.

  (* ---- rank = position of the component holding a vertex ---- *)
  Fixpoint rank (comps : list (list A)) (x : A) : nat :=
    match comps with [] => 0 | c :: r => if memb eqb x c then 0 else S (rank r x) end.

  Lemma rank_nth comps x :
    In x (concat comps) -> In x (nth (rank comps x) comps []) /\ In (nth (rank comps x) comps []) comps.
  Proof.
    induction comps as [|c r IH]; cbn; intros H; [contradiction|].
    destruct (memb eqb x c) eqn:E.
    - apply memb_In in E. split; [exact E | left; reflexivity].
    - apply in_app_or in H. destruct H as [H|H].
      + apply memb_In in H. congruence.
      + destruct (IH H) as [H1 H2]. split; [exact H1 | right; exact H2].
  Qed.

  Lemma order_ok_edge E : forall comps earlier,
    order_ok eqb E earlier comps = true ->
    forall u w, In u (concat comps) -> edge E u w ->
      In w earlier \/ (rank comps w <= rank comps u /\ In w (concat comps)).
  Proof.
    induction comps as [|c r IH]; cbn; intros earlier Ho u w Hu He; [contradiction|].
    apply andb_true_iff in Ho. destruct Ho as [Hc Hr].
    destruct (memb eqb u c) eqn:Eu.
    - apply memb_In in Eu. rewrite forallb_forall in Hc. specialize (Hc u Eu).
      rewrite forallb_forall in Hc. specialize (Hc w He). apply memb_In in Hc.
      apply in_app_or in Hc. destruct Hc as [Hc|Hc]; [|left; exact Hc].
      right. apply memb_In in Hc. rewrite Hc. split; [lia|]. apply in_or_app. left. apply memb_In. exact Hc.
    - apply in_app_or in Hu. destruct Hu as [Hu|Hu]; [apply memb_In in Hu; congruence|].
      destruct (IH _ Hr u w Hu He) as [Hw|[Hle Hw]].
      + apply in_app_or in Hw. destruct Hw as [Hw|Hw]; [|left; exact Hw].
        right. assert (Hm := Hw). apply memb_In in Hm. rewrite Hm. split; [lia|]. apply in_or_app. left. exact Hw.
      + right. destruct (memb eqb w c); [split; [lia|] | split; [lia|]]; apply in_or_app; right; exact Hw.
  Qed.

  Lemma order_ok_reach E comps :
    order_ok eqb E [] comps = true ->
    forall u v, reach (edge E) u v -> In u (concat comps) ->
      rank comps v <= rank comps u /\ In v (concat comps).
  Proof.
    intros Ho u v Hr. induction Hr as [u|u w v Huw _ IH]; intros Hu; [split; [lia | exact Hu]|].
    destruct (order_ok_edge E comps [] Ho u w Hu Huw) as [[]|[Hle Hw]].
    destruct (IH Hw) as [Hle' Hv]. split; [lia | exact Hv].
  Qed.

  Theorem scc_check_sound E comps :
    scc_check eqb E comps = true -> scc_spec (isvertex E) (edge E) comps.
  Proof.
    unfold scc_check. intros H.
    repeat (apply andb_true_iff in H; destruct H as [H ?]).
    rename H into Hnk, H4 into Hna, H3 into Hk1, H2 into Hk2, H1 into Hconn, H0 into Hord.
    rewrite forallb_forall in Hk1, Hk2, Hconn.
    assert (Hv : forall v, isvertex E v <-> In v (concat comps)).
    { intros v. split; intros Hx.
      - apply memb_In. apply Hk1. exact Hx.
      - apply memb_In. apply Hk2. exact Hx. }
    split; [exact Hv|]. split; [apply (nodupb_NoDup eqb eqb_eq); exact Hna|].
    split.
    { intros c Hc Ec. specialize (Hconn c Hc). subst c. discriminate. }
    intros u v Hu Hv'. split.
    - intros [c [Hc [Huc Hvc]]]. specialize (Hconn c Hc).
      unfold comp_connected in Hconn. destruct c as [|r c0]; [discriminate|].
      rewrite forallb_forall in Hconn.
      assert (HnE : NoDup (keys E)) by (apply (nodupb_NoDup eqb eqb_eq); exact Hnk).
      assert (Hboth : forall x, In x (r :: c0) -> reach (edge E) r x /\ reach (edge E) x r).
      { intros x Hx. specialize (Hconn x Hx). apply andb_true_iff in Hconn. destruct Hconn as [Hf Hb].
        apply memb_In in Hf, Hb. split.
        - destruct (reach_iter_sound _ _ _ _ Hf) as [s [[<-|[]] Hr]]. exact Hr.
        - destruct (coreach_iter_sound _ _ HnE _ _ Hb) as [s [[<-|[]] Hr]]. exact Hr. }
      destruct (Hboth u Huc) as [Hru Hur]. destruct (Hboth v Hvc) as [Hrv Hvr].
      split; eapply reach_trans; eassumption.
    - intros [Huv Hvu].
      apply Hv in Hu. apply Hv in Hv'.
      destruct (order_ok_reach E comps Hord u v Huv Hu) as [H1 _].
      destruct (order_ok_reach E comps Hord v u Hvu Hv') as [H2 _].
      assert (Er : rank comps u = rank comps v) by lia.
      destruct (rank_nth comps u Hu) as [Hu1 Hu2]. destruct (rank_nth comps v Hv') as [Hv1 _].
      exists (nth (rank comps u) comps []). split; [exact Hu2|]. split; [exact Hu1|].
      rewrite Er. exact Hv1.
  Qed.

  (* Outputs that pass the checker do not depend on the presentation of the graph.
     PARTIAL w.r.t. the algorithm: what is NOT proved here is
       forall vorder E out, Permutation vorder (keys E) -> scc_run eqb vorder E = Ok out ->
         scc_check eqb E out = true
     (correctness of the path-based algorithm); the harness evaluates scc_check on every
     output of the model and of the implementation instead. *)
  Theorem scc_checked_outputs_agree E E' vo vo' out out' :
    graph_equiv (isvertex E) (isvertex E') (edge E) (edge E') ->
    scc_run eqb vo E = Ok out -> scc_run eqb vo' E' = Ok out' ->
    scc_check eqb E out = true -> scc_check eqb E' out' = true ->
    partition_equiv out out'.
  Proof.
    intros Hg _ _ H1 H2.
    eapply scc_spec_unique; [exact Hg | apply scc_check_sound; exact H1 | apply scc_check_sound; exact H2].
  Qed.
End Checker.
