(* Proofs/WsdlEnvelope.v — build_envelope_class / build_envelope_fault in closed form for
   extension lists "headers then one body", and what decode_root makes of the result. *)
From Coq Require Import NArith List Bool Lia.
From XV Require Import Base.Str Base.Eqb Base.PyInt Gen.WsdlTables Spec.WsdlSpec Model.Wsdl Model.WsdlCorr
  Proofs.WsdlLemmas Proofs.WsdlParts.
Import ListNotations.
Open Scope N_scope.

(* forward reference to an inner class, and an inner class *)
Definition fwd (t name : str) (ns : option str) (mn : option nat) : attr :=
  Attr name ns None (t, name) false true None mn None.
Definition inner0 (t name : str) (attrs : list attr) (inner : list aclass) : aclass :=
  AClass (t, name) None TagBindingMessage None attrs inner.

Definition is_header (e : soap_ext) : bool := match e with SoapHeader _ _ _ => true | _ => false end.

(* ---- shape of the extension list under wf (exactly one soap:body, anywhere) *)
Definition is_body (e : soap_ext) : bool := match e with SoapBody _ _ _ => true | _ => false end.

Lemma no_body_headers r : filter is_body r = [] -> forallb is_header r = true.
Proof.
  induction r as [|e r IH]; [reflexivity|]. destruct e; cbn; [discriminate|]. exact IH.
Qed.

Lemma exts_shape bm use ns parts :
  the_body bm = Some (use, ns, parts) ->
  exists hs1 hs2, bm_exts bm = hs1 ++ SoapBody use ns parts :: hs2
                  /\ forallb is_header hs1 = true /\ forallb is_header hs2 = true.
Proof.
  unfold the_body.
  change (fun e : soap_ext => match e with SoapBody _ _ _ => true | SoapHeader _ _ _ => false end) with is_body.
  generalize (bm_exts bm) as l. intros l.
  induction l as [|e r IH]; [cbn; discriminate|].
  destruct e as [u n p|m prt u].
  - cbn [filter is_body]. intros Hb.
    destruct (filter is_body r) as [|x y] eqn:Ef; [|destruct x; discriminate].
    inversion Hb; subst. exists [], r. repeat split. apply no_body_headers. exact Ef.
  - cbn [filter is_body]. intros Hb.
    destruct (IH Hb) as [hs1 [hs2 [E [F1 F2]]]]. exists (SoapHeader m prt u :: hs1), hs2. rewrite E. cbn. rewrite F1. auto.
Qed.

Lemma has_header_shape hs1 hs2 use ns parts :
  forallb is_header hs1 = true -> forallb is_header hs2 = true ->
  existsb (fun e => match e with SoapHeader _ _ _ => true | _ => false end) (hs1 ++ SoapBody use ns parts :: hs2)
  = match hs1 ++ hs2 with [] => false | _ => true end.
Proof.
  intros H1 H2. rewrite existsb_app. cbn [existsb orb].
  destruct hs1 as [|h r]; cbn.
  - destruct hs2 as [|h r]; [reflexivity|]. cbn in H2. apply andb_true_iff in H2 as [H _]. destruct h; [discriminate|reflexivity].
  - cbn in H1. apply andb_true_iff in H1 as [H _]. destruct h; [discriminate|reflexivity].
Qed.

(* ---- the envelope under construction: no Header yet / a Header with the attrs so far *)
Definition hstate (q : qn) (m : option str) (ns : option str) (o : option (list attr)) : aclass :=
  match o with
  | None => AClass q m TagBindingMessage ns [] []
  | Some acc => AClass q m TagBindingMessage ns [fwd (fst q) s_Header_title None None]
                       [inner0 (fst q) s_Header_title acc []]
  end.
Definition oapp (o : option (list attr)) (ah : list attr) : option (list attr) :=
  Some (match o with None => ah | Some acc => acc ++ ah end).

Definition env_closed (q : qn) (m : option str) (ns : option str) (hmn : option nat) (o : option (list attr)) (body : aclass) : aclass :=
  match o with
  | None => AClass q m TagBindingMessage ns [fwd (fst q) m_body None None] [body]
  | Some h => AClass q m TagBindingMessage ns [fwd (fst q) s_Header_title None hmn; fwd (fst q) m_body None None]
                     [inner0 (fst q) s_Header_title h []; body]
  end.

Section Steps.
  Variables (d : definitions) (style : str) (operation : option str) (ptm : pt_msg) (bm : b_msg).

  Lemma step_header q m ns o e ah :
    is_header e = true -> ext_attrs d style operation ptm bm e = Some ah ->
    envelope_step d style operation ptm bm (Some (hstate q m ns o)) e = Some (hstate q m ns (oapp o ah)).
  Proof.
    intros He Ha. destruct e as [? ? ?|msg prt u]; [discriminate|].
    unfold envelope_step. rewrite Ha. destruct q as [t n]. destruct o as [acc|]; reflexivity.
  Qed.

  Lemma fold_headers q m ns hs : forall o ahs,
    forallb is_header hs = true ->
    Forall2 (fun e ah => ext_attrs d style operation ptm bm e = Some ah) hs ahs ->
    fold_left (envelope_step d style operation ptm bm) hs (Some (hstate q m ns o))
    = Some (hstate q m ns (match hs with [] => o | _ => oapp o (concat ahs) end)).
  Proof.
    induction hs as [|h r IH]; intros o ahs Hh HF.
    - reflexivity.
    - inversion HF as [|? ah ? ahs' Hah HF']; subst. cbn in Hh. apply andb_true_iff in Hh as [Hh1 Hh2].
      cbn [fold_left]. rewrite (step_header q m ns o h ah Hh1 Hah).
      rewrite (IH (oapp o ah) ahs' Hh2 HF').
      destruct r as [|h2 r2].
      + inversion HF'; subst. cbn. rewrite app_nil_r. reflexivity.
      + f_equal. f_equal. unfold oapp. cbn [concat]. destruct o; rewrite ?app_assoc; reflexivity.
  Qed.

  Lemma step_body q m ns o use bodyns parts ab :
    ext_attrs d style operation ptm bm (SoapBody use bodyns parts) = Some ab ->
    envelope_step d style operation ptm bm (Some (hstate q m ns o)) (SoapBody use bodyns parts)
    = Some (env_closed q m ns None o (inner0 (fst q) m_body ab [])).
  Proof.
    intros Ha. unfold envelope_step. rewrite Ha. destruct q as [t n]. destruct o as [acc|]; reflexivity.
  Qed.

  (* Body created before any Header *)
  Definition bstate (q : qn) (m : option str) (ns : option str) (body : aclass) (h : list attr) : aclass :=
    AClass q m TagBindingMessage ns [fwd (fst q) m_body None None; fwd (fst q) s_Header_title None None]
           [body; inner0 (fst q) s_Header_title h []].

  Lemma step_header_closed q m ns o ab e ah :
    is_header e = true -> ext_attrs d style operation ptm bm e = Some ah ->
    envelope_step d style operation ptm bm (Some (env_closed q m ns None o (inner0 (fst q) m_body ab []))) e
    = Some (match o with
            | Some h => env_closed q m ns None (Some (h ++ ah)) (inner0 (fst q) m_body ab [])
            | None => bstate q m ns (inner0 (fst q) m_body ab []) ah
            end).
  Proof.
    intros He Ha. destruct e as [? ? ?|msg prt u]; [discriminate|].
    unfold envelope_step. rewrite Ha. destruct q as [t n]. destruct o as [acc|]; reflexivity.
  Qed.

  Lemma step_header_bstate q m ns ab h e ah :
    is_header e = true -> ext_attrs d style operation ptm bm e = Some ah ->
    envelope_step d style operation ptm bm (Some (bstate q m ns (inner0 (fst q) m_body ab []) h)) e
    = Some (bstate q m ns (inner0 (fst q) m_body ab []) (h ++ ah)).
  Proof.
    intros He Ha. destruct e as [? ? ?|msg prt u]; [discriminate|].
    unfold envelope_step. rewrite Ha. destruct q as [t n]. reflexivity.
  Qed.

  Lemma fold_headers_closed_some q m ns ab hs : forall h ahs,
    forallb is_header hs = true ->
    Forall2 (fun e ah => ext_attrs d style operation ptm bm e = Some ah) hs ahs ->
    fold_left (envelope_step d style operation ptm bm) hs (Some (env_closed q m ns None (Some h) (inner0 (fst q) m_body ab [])))
    = Some (env_closed q m ns None (Some (h ++ concat ahs)) (inner0 (fst q) m_body ab [])).
  Proof.
    induction hs as [|e r IH]; intros h ahs Hh HF.
    - inversion HF; subst. cbn. rewrite app_nil_r. reflexivity.
    - inversion HF as [|? ah ? ahs' Hah HF']; subst. cbn in Hh. apply andb_true_iff in Hh as [Hh1 Hh2].
      cbn [fold_left]. rewrite (step_header_closed q m ns (Some h) ab e ah Hh1 Hah).
      rewrite (IH _ _ Hh2 HF'). cbn [concat]. rewrite app_assoc. reflexivity.
  Qed.

  Lemma fold_headers_bstate q m ns ab hs : forall h ahs,
    forallb is_header hs = true ->
    Forall2 (fun e ah => ext_attrs d style operation ptm bm e = Some ah) hs ahs ->
    fold_left (envelope_step d style operation ptm bm) hs (Some (bstate q m ns (inner0 (fst q) m_body ab []) h))
    = Some (bstate q m ns (inner0 (fst q) m_body ab []) (h ++ concat ahs)).
  Proof.
    induction hs as [|e r IH]; intros h ahs Hh HF.
    - inversion HF; subst. cbn. rewrite app_nil_r. reflexivity.
    - inversion HF as [|? ah ? ahs' Hah HF']; subst. cbn in Hh. apply andb_true_iff in Hh as [Hh1 Hh2].
      cbn [fold_left]. rewrite (step_header_bstate q m ns ab h e ah Hh1 Hah).
      rewrite (IH _ _ Hh2 HF'). cbn [concat]. rewrite app_assoc. reflexivity.
  Qed.

  Lemma sort_closed q m ns o ab :
    sort_envelope (env_closed q m ns None o (inner0 (fst q) m_body ab [])) = env_closed q m ns None o (inner0 (fst q) m_body ab []).
  Proof. destruct q as [t n]. destruct o; reflexivity. Qed.

  Lemma sort_bstate q m ns ab h :
    sort_envelope (bstate q m ns (inner0 (fst q) m_body ab []) h) = env_closed q m ns None (Some h) (inner0 (fst q) m_body ab []).
  Proof. destruct q as [t n]. reflexivity. Qed.

  (* headers anywhere around the one body: after the sort the Header comes first *)
  Lemma fold_envelope q m ns hs1 hs2 ahs1 ahs2 use bodyns parts ab :
    forallb is_header hs1 = true -> forallb is_header hs2 = true ->
    Forall2 (fun e ah => ext_attrs d style operation ptm bm e = Some ah) hs1 ahs1 ->
    Forall2 (fun e ah => ext_attrs d style operation ptm bm e = Some ah) hs2 ahs2 ->
    ext_attrs d style operation ptm bm (SoapBody use bodyns parts) = Some ab ->
    option_map sort_envelope
      (fold_left (envelope_step d style operation ptm bm) (hs1 ++ SoapBody use bodyns parts :: hs2) (Some (hstate q m ns None)))
    = Some (env_closed q m ns None (match hs1 ++ hs2 with [] => None | _ => Some (concat (ahs1 ++ ahs2)) end)
                       (inner0 (fst q) m_body ab [])).
  Proof.
    intros H1 H2 F1 F2 Hb. rewrite fold_left_app, (fold_headers q m ns hs1 None ahs1 H1 F1). cbn [fold_left].
    rewrite (step_body _ _ _ _ _ _ _ ab Hb). rewrite concat_app.
    destruct hs1 as [|a1 r1].
    - inversion F1; subst. cbn [app concat].
      destruct hs2 as [|a2 r2].
      + inversion F2; subst. cbn [fold_left option_map]. rewrite sort_closed. reflexivity.
      + inversion F2 as [|? ah ? ahs' Hah HF']; subst. cbn in H2. apply andb_true_iff in H2 as [H2a H2b].
        cbn [fold_left]. rewrite (step_header_closed q m ns None ab a2 ah H2a Hah).
        rewrite (fold_headers_bstate q m ns ab r2 ah ahs' H2b HF'). cbn [option_map]. rewrite sort_bstate. reflexivity.
    - cbn [app]. unfold oapp.
      rewrite (fold_headers_closed_some q m ns ab hs2 _ ahs2 H2 F2). cbn [option_map]. rewrite sort_closed. reflexivity.
  Qed.
End Steps.

(* ---- build_envelope_fault on the closed form *)
Definition fault_class (t : str) (das : list attr) : aclass :=
  finish_fault_class das (inner0 t m_fault [] []).

Definition body_out (t : str) (ns : option str) (ab das : list attr) : aclass :=
  AClass (t, m_body) None TagBindingMessage None
         (map set_min0 (ab ++ [fwd t m_fault ns None])) [fault_class t das].

Lemma envelope_fault_closed d po t n m ns o ab das :
  detail_attrs d (pto_faults po) = Some das ->
  build_envelope_fault d po (env_closed (t, n) m ns None o (inner0 t m_body ab []))
  = Some (env_closed (t, n) m ns (Some O) o (body_out t ns ab das)).
Proof.
  intros Hd. unfold build_envelope_fault. destruct o as [h|]; cbn [env_closed fst c_inner find].
  - replace (inner_named m_body (inner0 t s_Header_title h [])) with false by reflexivity.
    replace (inner_named m_body (inner0 t m_body ab [])) with true by reflexivity.
    rewrite Hd. reflexivity.
  - replace (inner_named m_body (inner0 t m_body ab [])) with true by reflexivity.
    rewrite Hd. reflexivity.
Qed.

(* ---- decoding *)
Lemma decode_fwd rec te all owner nsch t name ns mn ic :
  find (fun i => qn_eqb (c_qname i) (t, name)) (c_inner owner) = Some ic ->
  decode_attr rec te all owner nsch (fwd t name ns mn)
  = Node (match ns with Some n => var_namespace n | None => nsch end) name (req_of mn) (rec ic nsch).
Proof. intros H. unfold decode_attr, fwd. cbn [a_native a_forward a_type]. rewrite H. reflexivity. Qed.

Lemma qn_eqb_refl q : qn_eqb q q = true.
Proof. unfold qn_eqb. rewrite !str_eqb_refl. reflexivity. Qed.

Lemma qn_eqb_diff t a b : str_eqb a b = false -> qn_eqb (t, a) (t, b) = false.
Proof. intros H. unfold qn_eqb. cbn. rewrite H. apply andb_false_r. Qed.

Lemma decode_class_S fuel te all c inh :
  decode_class (S fuel) te all c inh
  = map (decode_attr (decode_class fuel te all) te all c (children_ns c inh)) (c_attrs c).
Proof. reflexivity. Qed.

Lemma set_min0_fwd t n ns mn : set_min0 (fwd t n ns mn) = fwd t n ns (Some O).
Proof. reflexivity. Qed.

(* the Fault class: its four members *)
Definition nat_attr (name : str) (mn : option nat) : attr := Attr name (Some []) None string_qn true false None mn None.

Lemma decode_native rec te all owner nsch name ns dflt q mn mx :
  decode_attr rec te all owner nsch (Attr name (Some ns) dflt q true false None mn mx)
  = Leaf (var_namespace ns) name (req_of mn) (TNative (snd q)).
Proof. reflexivity. Qed.

Lemma fault_class_nil t :
  fault_class t [] = AClass (t, m_fault) None TagBindingMessage None
    [nat_attr s_faultcode None; nat_attr s_faultstring None; nat_attr s_faultactor (Some O); nat_attr m_detail (Some O)] [].
Proof. reflexivity. Qed.

Lemma fault_class_cons t a r :
  fault_class t (a :: r) = AClass (t, m_fault) None TagBindingMessage None
    [nat_attr s_faultcode None; nat_attr s_faultstring None; nat_attr s_faultactor (Some O);
     fwd t m_detail (Some []) (Some O)]
    [inner0 t m_detail (map set_min0 (a :: r)) []].
Proof. reflexivity. Qed.

Lemma decode_fault_class fuel te all t das (ditems : list item) inh :
  (forall f owner, map (decode_attr (decode_class f te all) te all owner inh) (map set_min0 das) = ditems) ->
  (das = [] <-> ditems = []) ->
  decode_class (S (S fuel)) te all (fault_class t das) inh
  = match fault_item ditems with Node _ _ _ cs => cs | _ => [] end.
Proof.
  intros Hd Hnil. destruct das as [|a0 dr].
  - assert (ditems = []) as -> by (apply Hnil; reflexivity).
    rewrite fault_class_nil, decode_class_S. cbn [c_attrs map]. unfold nat_attr. rewrite !decode_native.
    reflexivity.
  - destruct ditems as [|i0 ir]. { exfalso. destruct Hnil as [_ Hn]. specialize (Hn eq_refl). discriminate. }
    rewrite fault_class_cons, decode_class_S. cbn [c_attrs map]. unfold nat_attr. rewrite !decode_native.
    erewrite decode_fwd.
    2:{ cbn [c_inner find c_qname inner0]. rewrite qn_eqb_refl. reflexivity. }
    rewrite decode_class_S. unfold children_ns. cbn [c_namespace inner0 c_attrs].
    rewrite Hd. reflexivity.
Qed.
