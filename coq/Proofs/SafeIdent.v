(* Proofs/SafeIdent.v — the names produced by Filters.safe_name are Python identifiers,
   never one of xsdata's reserved words and hence never a Python keyword (every keyword is
   reserved since the fix for C07-F1). *)
From Coq Require Import NArith PeanoNat List Bool Lia String.
From XV Require Import Base.Str Base.PyInt Gen.SafeTables Model.Safe Spec.PyIdent
  Proofs.SafeText Proofs.SafeCase Proofs.SafeTerm.
Import ListNotations.
Open Scope N_scope.

Definition minus_lit : str := Safe.lit "_minus_".

(* shape of a successful call: the result is the convention applied to an adjusted name
   whose slug starts with a letter, and is not reserved *)
Lemma safe_name_result p (case : str -> option str) fuel : forall name r,
  safe_name fuel p case name = SOk r ->
  exists adj, slug_alpha adj = true /\ case adj = Some r /\ is_reserved r = false /\
              (forall c, In c adj -> In c name \/ In c p \/ In c minus_lit).
Proof.
  induction fuel as [|fuel IH]; intros name r H; [discriminate|].
  cbn [safe_name] in H.
  assert (Hsub : forall name', safe_name fuel p case name' = SOk r ->
                 (forall c, In c name' -> In c name \/ In c p \/ In c minus_lit) ->
                 exists adj, slug_alpha adj = true /\ case adj = Some r /\ is_reserved r = false /\
                   (forall c, In c adj -> In c name \/ In c p \/ In c minus_lit)).
  { intros name' H' Hin. destruct (IH name' r H') as [adj [A1 [A2 [A3 A4]]]].
    exists adj. repeat split; try assumption. intros c Hc.
    destruct (A4 c Hc) as [Hc'|[Hc'|Hc']]; auto. }
  destruct name as [|c0 name0].
  - apply (Hsub p H). auto.
  - remember (c0 :: name0) as name eqn:En.
    destruct (minus_number name).
    + apply (Hsub _ H). intros c Hc. apply in_app_or in Hc as [Hc|Hc]; [auto|].
      apply in_app_or in Hc as [Hc|Hc]; auto.
    + destruct (slug_alpha name) eqn:Ea; cbn [negb] in H.
      * destruct (case name) as [x|] eqn:Ec; [|discriminate].
        destruct (is_reserved x) eqn:Er.
        -- apply (Hsub _ H). intros c Hc. apply in_app_or in Hc as [Hc|Hc]; [auto|].
           apply in_app_or in Hc as [Hc|Hc]; [|auto]. cbn in Hc. destruct Hc as [<-|[]].
           right. right. unfold minus_lit. cbn. auto.
        -- injection H as <-. exists name. repeat split; auto.
      * apply (Hsub _ H). intros c Hc. apply in_app_or in Hc as [Hc|Hc]; [auto|].
        apply in_app_or in Hc as [Hc|Hc]; [|auto]. cbn in Hc. destruct Hc as [<-|[]].
        right. right. unfold minus_lit. cbn. auto.
Qed.

Lemma wordchar_id_continue c : wordchar c = true -> id_continue c = true.
Proof.
  unfold wordchar, id_continue, id_start, is_ascii_alnum. intros H.
  destruct (is_ascii_digit c), (is_ascii_alpha c), (c =? 95); cbn in *; congruence.
Qed.

Theorem safe_name_split_identifier p k fuel name r :
  split_based k = true -> safe_name fuel p (apply_case k) name = SOk r ->
  ascii_identifier r = true /\ is_reserved r = false.
Proof.
  intros Hk H. destruct (safe_name_result p _ fuel name r H) as [adj [Ha [Ec [Er _]]]].
  split; [|exact Er].
  destruct (case_good k adj r Hk Ec) as [W [_ F]]. destruct (F Ha) as [c [t [-> Hc]]].
  cbn in W. apply andb_true_iff in W as [_ Wt].
  cbn [ascii_identifier]. unfold id_start at 1. rewrite Hc. cbn [orb andb].
  rewrite forallb_forall in *. intros d Hd. apply wordchar_id_continue. apply Wt. exact Hd.
Qed.

(* ---- keywords ------------------------------------------------------------------ *)
Definition missing_keywords : list str := filter (fun w => negb (is_reserved w)) keywords.

(* every Python keyword is one of xsdata's reserved words (since `await` was added: C07-F1) *)
Lemma missing_keywords_none : missing_keywords = [].
Proof. vm_compute. reflexivity. Qed.

Lemma keyword_is_reserved r : is_keyword r = true -> is_reserved r = true.
Proof.
  intros Hk. destruct (is_reserved r) eqn:Hr; [reflexivity|]. exfalso.
  assert (Hin : In r missing_keywords).
  { unfold missing_keywords. apply filter_In. split; [|rewrite Hr; reflexivity].
    unfold is_keyword in Hk. apply existsb_exists in Hk as [w [Hw He]].
    apply str_eqb_eq in He. subst. exact Hw. }
  rewrite missing_keywords_none in Hin. destruct Hin.
Qed.

Theorem safe_name_is_identifier p k fuel name r :
  split_based k = true -> safe_name fuel p (apply_case k) name = SOk r -> usable_name r.
Proof.
  intros Hk H. destruct (safe_name_split_identifier p k fuel name r Hk H) as [Hi Hr].
  split; [exact Hi|]. intros Hkw. apply keyword_is_reserved in Hkw. congruence.
Qed.

(* ---- original_case: Unicode word characters pass through ------------------------ *)
Lemma ascii_word_id_continue c : c < 128 -> py_word c = true -> id_continue c = true.
Proof.
  assert (T : forallb (fun n => let c := N.of_nat n in implb (py_word c) (id_continue c)) (seq 0 128) = true)
    by (vm_compute; reflexivity).
  intros R H.
  assert (Hin : In (N.to_nat c) (seq 0 128)) by (apply in_seq; lia).
  rewrite forallb_forall in T. specialize (T _ Hin). cbv beta zeta in T.
  rewrite N2Nat.id, H in T. exact T.
Qed.

Lemma minus_lit_ascii c : In c minus_lit -> c < 128.
Proof. unfold minus_lit. cbn. intros H. repeat (destruct H as [<-|H]; [lia|]). destruct H. Qed.

(* guard: every non-ASCII word character of the name and of the prefix may continue an identifier *)
Definition original_guard (xc : N -> bool) (s : str) : bool :=
  forallb (fun c => negb (py_word c) || (c <? 128) || xc c) s.

Theorem safe_name_original_identifier xs xc p fuel name r :
  original_guard xc name = true -> original_guard xc p = true ->
  safe_name fuel p (apply_case Original) name = SOk r ->
  identifier_with xs xc r = true /\ is_reserved r = false.
Proof.
  intros Gn Gp H. destruct (safe_name_result p _ fuel name r H) as [adj [Ha [Ec [Er Hin]]]].
  split; [|exact Er]. cbn in Ec. injection Ec as <-.
  destruct (original_head adj Ha) as [c [t [E Hc]]].
  assert (All : forall d, In d (original_case adj) -> id_continue d = true \/ xc d = true).
  { intros d Hd. apply original_chars in Hd as [Hd Hw].
    assert (Hcase : d < 128 \/ xc d = true).
    { unfold original_guard in *. rewrite forallb_forall in Gn, Gp.
      destruct (Hin d Hd) as [H1|[H1|H1]].
      - specialize (Gn d H1). rewrite Hw in Gn. cbn in Gn. apply orb_true_iff in Gn as [G|G]; [left; apply N.ltb_lt; exact G|auto].
      - specialize (Gp d H1). rewrite Hw in Gp. cbn in Gp. apply orb_true_iff in Gp as [G|G]; [left; apply N.ltb_lt; exact G|auto].
      - left. apply minus_lit_ascii; exact H1. }
    destruct Hcase as [R|X]; [left; apply ascii_word_id_continue; assumption|right; exact X]. }
  rewrite E in *. cbn [identifier_with].
  assert (Hs : id_start c = true) by exact Hc. rewrite Hs. cbn [orb andb].
  rewrite forallb_forall. intros d Hd. apply orb_true_iff. apply All. right. exact Hd.
Qed.

Lemma identifier_with_false s : identifier_with (fun _ => false) (fun _ => false) s = ascii_identifier s.
Proof.
  destruct s as [|c r]; [reflexivity|]. cbn. rewrite orb_false_r. f_equal.
  induction r as [|d r IH]; [reflexivity|]. cbn. rewrite orb_false_r, IH. reflexivity.
Qed.

(* ASCII-only statement: no non-ASCII word characters in name and prefix *)
Theorem safe_name_original_ascii p fuel name r :
  original_guard (fun _ => false) name = true -> original_guard (fun _ => false) p = true ->
  safe_name fuel p (apply_case Original) name = SOk r -> usable_name r.
Proof.
  intros Gn Gp H.
  destruct (safe_name_original_identifier (fun _ => false) (fun _ => false) p fuel name r Gn Gp H) as [Hi Hr].
  rewrite identifier_with_false in Hi. split; [exact Hi|].
  intros K. apply keyword_is_reserved in K. congruence.
Qed.

(* "a²": SUPERSCRIPT TWO is alphanumeric for `re` (\w) but not XID_Continue *)
Theorem original_case_identifier_refuted :
  exists name r, safe_name safe_fuel (Safe.lit "value") (apply_case Original) name = SOk r /\
                 identifier_with py_xid_start py_xid_continue r = false.
Proof. exists [97; 178], [97; 178]. split; vm_compute; reflexivity. Qed.

Example original_guard_nonvacuous :
  original_guard py_xid_continue [233; 99; 111; 108; 101; 95; 49] = true /\     (* "école_1" *)
  original_guard py_xid_continue [97; 178] = false.
Proof. split; vm_compute; reflexivity. Qed.

(* the Spec keyword list and the interpreter's keyword.kwlist are the same set *)
Lemma keywords_match_interpreter :
  forallb (fun w => str_in w keywords) py_kwlist && forallb (fun w => str_in w py_kwlist) keywords = true.
Proof. vm_compute. reflexivity. Qed.
