(* Proofs/ContextHist.v — scripts and histories: every client of the context gets
   the answers of the stateless reference semantics as long as the guard clauses
   hold; history independence follows. *)
From Coq Require Import NArith List Bool Lia.
From XV Require Import Base.Str Base.Eqb Model.Context Proofs.ContextEq Proofs.ContextInv.
Import ListNotations.
Open Scope N_scope.

Lemma exec_call_sound w canon x c x' a t :
  0 < w_modules w -> Inv w canon x -> exec_call w x c = (x', a, t) -> canon_ok canon t -> quiet t = true ->
  a = ideal_call w c /\ Inv w canon x'.
Proof.
  intros Hw I E Hc Q. destruct c as [c pns|c pns xt|q|q|c q|names|names c|c pns| | |p u]; unfold exec_call in E.
  - destruct (ctx_build w x c pns) as [[x1 om] t1] eqn:E1. inversion E; subst.
    destruct (ctx_build_sound _ _ _ _ _ _ _ _ I E1 Hc) as [-> [I1 _]]. split; auto.
  - destruct (ctx_fetch w x c pns xt) as [[x1 om] t1] eqn:E1. inversion E; subst.
    destruct (ctx_fetch_sound _ _ _ _ _ _ _ _ _ I E1 Hc) as [-> [I1 _]]. split; auto.
  - destruct (ctx_find_type w x q) as [[x1 oc] t1] eqn:E1. inversion E; subst.
    destruct (ctx_find_type_sound _ _ _ _ _ _ _ I E1) as [H [I1 _]]. split; auto.
  - destruct (ctx_find_types w x q) as [[x1 l] t1] eqn:E1. inversion E; subst.
    destruct (ctx_find_types_sound _ _ _ _ _ _ _ I E1) as [-> [I1 _]]. split; auto.
  - destruct (ctx_find_subclass w x c q) as [[x1 oc] t1] eqn:E1. inversion E; subst.
    destruct (ctx_find_subclass_sound _ _ _ _ _ _ _ _ I E1) as [-> [I1 _]]. split; auto.
  - destruct (ctx_find_by_fields w x names) as [[x1 oc] t1] eqn:E1. inversion E; subst.
    destruct (ctx_find_by_fields_sound _ _ _ _ _ _ _ I E1 Hc) as [-> [I1 _]]. split; auto.
  - destruct (ctx_local_names_match w x names c) as [[x1 b] t1] eqn:E1. inversion E; subst.
    destruct (lnm_sound _ _ _ _ _ _ _ _ I E1 Hc) as [-> [I1 _]]. split; auto.
  - destruct (ctx_build_rec _ false w x c pns) as [[x1 ok] t1] eqn:E1. inversion E; subst.
    destruct (build_rec_sound _ _ _ _ _ _ _ _ _ _ I E1 Hc Q) as [[I1 _] [Hf Ht]]. split; auto.
    cbn [ideal_call]. destruct ok.
    + destruct (ideal_build w c pns) eqn:Eb; [reflexivity|].
      destruct (cache_get (cache x) c) as [m|] eqn:G.
      * destruct (inv_known _ _ _ I _ _ G) as [cd [Hfc Hok]]. unfold ideal_build in Eb.
        rewrite Hfc, Hok in Eb. discriminate.
      * assert (true = false) by (apply Ht; auto). discriminate.
    + destruct (Hf eq_refl) as [_ [_ ->]]. reflexivity.
  - inversion E; subst. destruct (ctx_build_xsi_sound w canon x I) as [I1 _]. split; auto.
  - inversion E; subst. split; auto. constructor; cbn; try discriminate.
    + lia.
    + intros H0. lia.
    + intros c [].
  - inversion E; subst. split; auto. unfold ctx_register.
    match goal with |- context [if ?b then _ else _] => destruct b end; [exact I|]. constructor; cbn; apply I.
Qed.

Lemma run_script_sound s : forall w canon x x' r t,
  0 < w_modules w -> Inv w canon x -> run_script w x s = (x', r, t) -> canon_ok canon t -> quiet t = true ->
  r = ideal_run w s /\ Inv w canon x'.
Proof.
  induction s as [r0|c k IH]; intros w canon x x' r t Hw I E Hc Q; cbn in E.
  - inversion E; subst. split; auto.
  - destruct (exec_call w x c) as [[x1 a] t1] eqn:E1.
    destruct (run_script w x1 (k a)) as [[x2 r2] t2] eqn:E2. inversion E; subst; clear E.
    apply canon_ok_app in Hc as [Hc1 Hc2]. rewrite quiet_app in Q. apply andb_true_iff in Q as [Q1 Q2].
    destruct (exec_call_sound _ _ _ _ _ _ _ Hw I E1 Hc1 Q1) as [-> I1].
    cbn. eapply IH; eauto.
Qed.

(* ------------------------------------------------------------- environment *)
Lemma find_class_in_app l cd c :
  find_class_in (l ++ [cd]) c =
  match find_class_in l c with Some v => Some v | None => if N.eqb (c_id cd) c then Some cd else None end.
Proof.
  induction l as [|d l IH]; cbn; [reflexivity|]. destruct (N.eqb (c_id d) c); auto.
Qed.

Definition env_ok (e : envop) : bool := match e with EDefine _ b => b | EImport => true end.

Lemma env_step_inv w canon x e :
  env_ok e = true -> Inv w canon x -> Inv (env_step w e) canon x /\ (0 < w_modules w -> 0 < w_modules (env_step w e)).
Proof.
  intros He I. destruct e as [cd b|]; cbn in He; [subst b|]; cbn.
  - split; [|lia]. constructor; cbn.
    + apply I.
    + intros c m G. destruct (inv_known _ _ _ I _ _ G) as [d [Hf Hok]].
      exists d. split; auto. unfold find_class in *. cbn. rewrite find_class_in_app, Hf. reflexivity.
    + pose proof (inv_seen _ _ _ I). lia.
    + pose proof (inv_seen _ _ _ I). lia.
    + intros c Hin. destruct (inv_unsup _ _ _ I _ Hin) as [d [Hf Hok]].
      exists d. split; auto. unfold find_class in *. cbn. rewrite find_class_in_app, Hf. reflexivity.
  - split; [|lia]. constructor; cbn.
    + apply I.
    + apply I.
    + pose proof (inv_seen _ _ _ I). lia.
    + pose proof (inv_seen _ _ _ I). lia.
    + apply I.
Qed.

Lemma hist_ext h : forall w x t0 w' x' t,
  fold_left hist_step h (w, x, t0) = (w', x', t) -> exists tr, t = t0 ++ tr.
Proof.
  induction h as [|o h IH]; intros w x t0 w' x' t E; cbn in E.
  - inversion E; subst. exists []. rewrite app_nil_r. reflexivity.
  - destruct o as [e|s].
    + exact (IH _ _ _ _ _ _ E).
    + destruct (run_script w x s) as [[x1 r1] t1]. destruct (IH _ _ _ _ _ _ E) as [tr ->].
      exists (t1 ++ tr). rewrite app_assoc. reflexivity.
Qed.

Lemma modules_stable_cons o h : modules_stable (o :: h) = true ->
  (match o with HEnv e => env_ok e = true | HRun _ => True end) /\ modules_stable h = true.
Proof.
  unfold modules_stable. cbn. intros H. apply andb_true_iff in H as [H1 H2]. split; [|exact H2].
  destruct o as [[cd b|]|s]; cbn in *; auto.
Qed.

Lemma run_hist_sound h : forall w x t0 w' x' t canon,
  0 < w_modules w -> Inv w canon x -> modules_stable h = true ->
  fold_left hist_step h (w, x, t0) = (w', x', t) -> canon_ok canon t -> quiet t = true ->
  Inv w' canon x' /\ 0 < w_modules w'.
Proof.
  induction h as [|o h IH]; intros w x t0 w' x' t canon Hw I Hs E Hc Q; cbn in E.
  - inversion E; subst. split; auto.
  - apply modules_stable_cons in Hs as [Ho Hs]. destruct o as [e|s].
    + destruct (env_step_inv w canon x e Ho I) as [I1 Hw1].
      exact (IH _ _ _ _ _ _ _ (Hw1 Hw) I1 Hs E Hc Q).
    + destruct (run_script w x s) as [[x1 r1] t1] eqn:E1.
      destruct (hist_ext _ _ _ _ _ _ _ E) as [tr Ht].
      assert (Hc1 : canon_ok canon t1).
      { rewrite Ht in Hc. apply canon_ok_app in Hc as [Hc _]. apply canon_ok_app in Hc. tauto. }
      assert (Q1 : quiet t1 = true).
      { rewrite Ht in Q. rewrite !quiet_app in Q. apply andb_true_iff in Q as [Q _].
        apply andb_true_iff in Q. tauto. }
      destruct (run_script_sound _ _ _ _ _ _ _ Hw I E1 Hc1 Q1) as [_ I1].
      exact (IH _ _ _ _ _ _ _ Hw I1 Hs E Hc Q).
Qed.

(* ------------------------------------------- from the computable guard to canon *)
Fixpoint first_build (b : list (cid * meta)) (c : cid) : option meta :=
  match b with
  | [] => None
  | (k, m) :: r => if N.eqb k c then Some m else first_build r c
  end.

Lemma first_build_in b c m : first_build b c = Some m -> In (c, m) b.
Proof.
  induction b as [|[k v] b IH]; cbn; [discriminate|].
  destruct (N.eqb_spec k c) as [->|_]; intros H; [inversion H; left; reflexivity|right; auto].
Qed.

Lemma first_build_some b c m : In (c, m) b -> exists m', first_build b c = Some m'.
Proof.
  induction b as [|[k v] b IH]; intros Hin; [destruct Hin|]. cbn.
  destruct (N.eqb_spec k c) as [->|Hn]; [eauto|].
  destruct Hin as [E|Hin]; [inversion E; congruence|auto].
Qed.

Lemma consistent_spec b : consistent b = true ->
  forall c m1 m2, In (c, m1) b -> In (c, m2) b -> m1 = m2.
Proof.
  unfold consistent. intros H c m1 m2 H1 H2. rewrite forallb_forall in H.
  specialize (H _ H1). rewrite forallb_forall in H. specialize (H _ H2). cbn in H.
  rewrite N.eqb_refl in H. cbn in H. apply meta_eqb_eq. exact H.
Qed.

Lemma builds_of_in t c p i g : In (TBuild c p (Some i) g) t -> In (c, i) (builds_of t).
Proof.
  intros H. unfold builds_of. apply in_flat_map. exists (TBuild c p (Some i) g). split; [exact H|left; reflexivity].
Qed.

Lemma ns_closed_canon t : ns_closed t = true -> canon_ok (first_build (builds_of t)) t.
Proof.
  intros H c p i g Hin. apply builds_of_in in Hin.
  destruct (first_build_some _ _ _ Hin) as [m' Hm']. rewrite Hm'. f_equal.
  eapply consistent_spec; eauto using first_build_in.
Qed.

Lemma inv_init w canon x :
  0 < w_modules w -> cache x = [] -> seen x = 0 -> unsup x = [] -> Inv w canon x.
Proof.
  intros Hw Hc Hs Hu. constructor; try (rewrite Hc; cbn; discriminate); try (rewrite Hs; lia).
  rewrite Hu. intros c [].
Qed.

(* ------------------------------------------------------------ the theorems *)
(* under the guard, shared instances answer exactly as the stateless reference
   semantics does *)
Theorem shared_is_ideal w0 h s :
  world_ok w0 = true -> modules_stable h = true ->
  let '(w, x, t) := run_hist w0 ctx0 h in
  let '(_, r, ts) := run_script w x s in
  ns_closed (t ++ ts) = true -> quiet (t ++ ts) = true -> r = ideal_run w s.
Proof.
  intros Hw Hs. unfold run_hist.
  destruct (fold_left hist_step h (w0, ctx0, [])) as [[w x] t] eqn:E.
  destruct (run_script w x s) as [[x1 r] ts] eqn:E1. intros Hn Q.
  apply N.ltb_lt in Hw.
  pose proof (ns_closed_canon _ Hn) as Hc. set (canon := first_build (builds_of (t ++ ts))) in *.
  apply canon_ok_app in Hc as [Hc Hcs]. rewrite quiet_app in Q. apply andb_true_iff in Q as [Q Qs].
  assert (I0 : Inv w0 canon ctx0) by (apply inv_init; auto).
  destruct (run_hist_sound _ _ _ _ _ _ _ _ Hw I0 Hs E Hc Q) as [I Hw'].
  destruct (run_script_sound _ _ _ _ _ _ _ Hw' I E1 Hcs Qs) as [-> _]. reflexivity.
Qed.

Theorem history_independent_guarded w0 h s :
  hist_guard w0 h s = true ->
  let '(w, x, _) := run_hist w0 ctx0 h in result w x s = result w ctx0 s.
Proof.
  unfold hist_guard. intros G.
  pose proof (shared_is_ideal w0 h s) as S.
  destruct (run_hist w0 ctx0 h) as [[w x] t] eqn:E.
  unfold result. destruct (run_script w x s) as [[x1 r] ts] eqn:E1. cbn [snd fst] in *.
  destruct (run_script w ctx0 s) as [[x2 r2] tf] eqn:E2. cbn [snd fst] in *.
  repeat (apply andb_true_iff in G as [G ?]).
  rewrite S by assumption.
  (* the fresh run: an empty history *)
  pose proof (shared_is_ideal w [] s) as F. cbn in F. rewrite E2 in F. symmetry. apply F; auto.
  (* world_ok of the final world *)
  apply N.ltb_lt. apply N.ltb_lt in G.
  assert (Hm : forall h w x t w' x' t', fold_left hist_step h (w, x, t) = (w', x', t') ->
            w_modules w <= w_modules w').
  { clear. induction h as [|o h IH]; intros w x t w' x' t' E; cbn in E.
    - inversion E; subst. lia.
    - destruct o as [e|s].
      + apply IH in E. destruct e as [cd [|]|]; cbn in E; lia.
      + destruct (run_script w x s) as [[x1 r1] t1]. apply IH in E. exact E. }
  unfold run_hist in E. apply Hm in E. lia.
Qed.
