(* Proofs/XsdExamples.v — non-vacuity: concrete content models and metadata on which the hypotheses of the C02
   theorems hold (and fail), decided by computation. *)
From Coq Require Import NArith List Bool Arith.
From XV Require Import Base.Str Base.Eqb Spec.Cm Spec.XsdVal Spec.XsdCm Model.XsdCorr Proofs.XsdCm.
Import ListNotations.
Local Close Scope N_scope.
Local Open Scope nat_scope.

Definition nA : name := [123;117;125;97]%N.
Definition nB : name := [123;117;125;98]%N.
Definition nW : name := [123;118;125;119]%N.
Definition nsU : ns := Some [117%N].

(* sequence: a repeated; optional choice of b or a; any ##other repeated *)
Definition ex_cm : xcm :=
  XSeq [XOcc 0 None (XEl nA); XOcc 0 (Some 1) (XChoice [XEl nB; XEl nA]); XOcc 0 None (XAny (WOther nsU))].
(* a: list, b: optional, wildcard list "!u" *)
Definition ex_meta : xmeta :=
  mk_xmeta [mk_xfield [nA] None false false 0; mk_xfield [nB] None true false 1;
            mk_xfield [] (Some [FNot [117%N]]) false false 2] false false.
(* the same with a single-valued `a`: one `a` too few *)
Definition ex_meta_small : xmeta :=
  mk_xmeta [mk_xfield [nA] None true false 0; mk_xfield [nB] None true false 1;
            mk_xfield [] (Some [FNot [117%N]]) false false 2] false false.

Example ex_check : xcheck_children ex_cm ex_meta = true.
Proof. vm_compute. reflexivity. Qed.

Example ex_word_valid : xlang ex_cm [nA; nA; nB; nW].
Proof.
  apply (XL_seq_cons _ _ [nA; nA] [nB; nW]).
  - apply (XL_occ 0 None (XEl nA) [[nA]; [nA]]); [cbn; auto|exact I|repeat constructor].
  - apply (XL_seq_cons _ _ [nB] [nW]).
    + apply (XL_occ 0 (Some 1) _ [[nB]]); [cbn; auto|cbn; auto|repeat constructor].
    + apply (XL_seq_cons _ _ [nW] []); [|constructor].
      apply (XL_occ 0 None _ [[nW]]); [cbn; auto|exact I|].
      constructor; [|constructor]. constructor. vm_compute. reflexivity.
Qed.

Example ex_word_accepted : xaccepts_word ex_meta [nA; nA; nB; nW] = true.
Proof. exact (xcheck_sound _ _ _ ex_check ex_word_valid). Qed.

Example ex_rejects : xcheck_children ex_cm ex_meta_small = false /\ xrejected_word ex_cm ex_meta_small = Some [nA; nA; nA].
Proof. vm_compute. split; reflexivity. Qed.

(* order: a repeated choice of single elements bound to ONE compound list field keeps document order;
   bound to two list fields it does not *)
Definition ex_choice : xcm := XOcc 0 None (XChoice [XEl nA; XEl nB]).
Definition ex_compound : xmeta := mk_xmeta [mk_xfield [nA; nB] None false false 0] false false.
Definition ex_plain : xmeta := mk_xmeta [mk_xfield [nA] None false false 0; mk_xfield [nB] None false false 1] false false.

Example ex_order : xorder_safe ex_choice ex_compound = true /\ xorder_safe ex_choice ex_plain = false
                   /\ xorder_claimed ex_choice = true
                   /\ emit_order (xrank_of (xm_fields ex_plain)) [nB; nA] = [nA; nB].
Proof. vm_compute. repeat split; reflexivity. Qed.

(* not retyped: xs:int bound to int is compatible, bound to str or to int|str it is not *)
Example ex_type_compat :
  type_compat (STAtom B_int None WsCollapse) (mk_ftype [py_int] None false None) = true
  /\ type_compat (STAtom B_int None WsCollapse) (mk_ftype [py_str] None false None) = false
  /\ type_compat (STAtom B_int None WsCollapse) (mk_ftype [py_int; py_str] None false None) = false
  /\ type_compat (STAtom B_hexBinary None WsCollapse) (mk_ftype [py_bytes] None false None) = false
  /\ type_compat (STAtom B_hexBinary None WsCollapse) (mk_ftype [py_bytes] (Some fmt_base16) false None) = true.
Proof. vm_compute. repeat split; reflexivity. Qed.

(* options: list vs tuple collections and class nesting are not part of the abstract; a different rank is *)
Example ex_meta_equiv :
  meta_equiv ex_meta ex_meta = true /\ meta_equiv ex_meta ex_meta_small = false.
Proof. vm_compute. split; reflexivity. Qed.
