(* Proofs/WriterTree.v — well-nested event lists as trees, the SAX call stream as a tree,
   and the writer re-expressed as a recursive function over trees (`wref_*`).
   Proofs/WriterStep.v shows that the state machine `wstep` of Model/Writer.v computes
   exactly this function on flattened trees. *)
From Coq Require Import NArith List Bool Lia.
From XV Require Import Base.Str Base.Eqb Spec.XmlNs Model.Writer.
Import ListNotations.
Open Scope N_scope.

(* ------------------------------------------------------------------ event trees *)
Section ItemInd.
  Variable P : item -> Prop.
  Hypothesis Hd : forall v, P (IData v).
  Hypothesis Hn : forall q ats ks, Forall P ks -> P (INode q ats ks).
  Fixpoint item_ind2 (i : item) : P i :=
    match i with
    | IData v => Hd v
    | INode q ats ks =>
        Hn q ats ks ((fix go (l : list item) : Forall P l :=
                        match l with
                        | [] => Forall_nil P
                        | x :: r => Forall_cons x (item_ind2 x) (go r)
                        end) ks)
    end.
End ItemInd.

(* a well-nested event list: one document element *)
Definition well_nested (evs : list wevent) : Prop :=
  exists q ats ks, evs = flatten (INode q ats ks).

Lemma qname_eqb_eq a b : qname_eqb a b = true -> a = b.
Proof.
  destruct a as [u l], b as [u' l']. unfold qname_eqb. cbn [fst snd].
  intros H. apply andb_true_iff in H as [H1 H2].
  apply str_eqb_eq in H2. subst.
  assert (u = u') as ->; [|reflexivity].
  destruct u as [u|], u' as [u'|]; cbn in H1; try discriminate; try reflexivity.
  apply str_eqb_eq in H1. subst. reflexivity.
Qed.
Lemma qname_eqb_refl a : qname_eqb a a = true.
Proof.
  destruct a as [[u|] l]; unfold qname_eqb; cbn; rewrite ?str_eqb_refl; reflexivity.
Qed.

Lemma take_attrs_sound evs ats r :
  take_attrs evs = (ats, r) -> evs = map (fun a => WAttr (fst a) (snd a)) ats ++ r.
Proof.
  revert ats r. induction evs as [|e evs IH]; intros ats r H; cbn in H.
  - inversion H; reflexivity.
  - destruct e; try (inversion H; reflexivity).
    destruct (take_attrs evs) as [a r'] eqn:E. inversion H; subst.
    cbn. f_equal. apply IH. reflexivity.
Qed.

Lemma parse_sound fuel :
  (forall evs i r, parse_item fuel evs = Some (i, r) -> evs = flatten i ++ r)
  /\ (forall evs ks r, parse_items fuel evs = Some (ks, r) -> evs = flat_map flatten ks ++ r).
Proof.
  induction fuel as [|f [IHi IHs]]; [split; intros; discriminate|].
  split.
  - intros evs i r H. cbn [parse_item] in H.
    destruct evs as [|e evs]; [discriminate|].
    destruct e as [q|q v|v|q]; try discriminate.
    + destruct (take_attrs evs) as [ats r1] eqn:Ea.
      destruct (parse_items f r1) as [[ks r2]|] eqn:Ep; [|discriminate].
      destruct r2 as [|e2 r2]; [discriminate|].
      destruct e2 as [|?|?|q']; try discriminate.
      destruct (qname_eqb q q') eqn:Eq; [|discriminate].
      inversion H; subst. apply qname_eqb_eq in Eq. subst q'.
      apply take_attrs_sound in Ea. apply IHs in Ep. subst.
      cbn [flatten]. rewrite <- app_comm_cons. f_equal.
      rewrite <- !app_assoc. reflexivity.
    + inversion H; subst. reflexivity.
  - intros evs ks r H. cbn [parse_items] in H.
    destruct evs as [|e evs]; [inversion H; reflexivity|].
    destruct e as [q|q v|v|q]; try (inversion H; reflexivity).
    + destruct (parse_item f (WStart q :: evs)) as [[i r1]|] eqn:Ei; [|discriminate].
      destruct (parse_items f r1) as [[ks' r2]|] eqn:Ep; [|discriminate].
      inversion H; subst. apply IHi in Ei. apply IHs in Ep. rewrite Ei, Ep.
      cbn [flat_map]. rewrite app_assoc. reflexivity.
    + destruct (parse_item f (WData v :: evs)) as [[i r1]|] eqn:Ei; [|discriminate].
      destruct (parse_items f r1) as [[ks' r2]|] eqn:Ep; [|discriminate].
      inversion H; subst. apply IHi in Ei. apply IHs in Ep. rewrite Ei, Ep.
      cbn [flat_map]. rewrite app_assoc. reflexivity.
Qed.

Lemma doc_tree_sound evs t : doc_tree evs = Some t -> evs = flatten t /\ exists q ats ks, t = INode q ats ks.
Proof.
  unfold doc_tree. intros H.
  destruct (parse_item (S (length evs)) evs) as [[i r]|] eqn:E; [|discriminate].
  destruct i as [|q ats ks]; [discriminate|]. destruct r; [|discriminate].
  inversion H; subst. apply (proj1 (parse_sound _)) in E. rewrite app_nil_r in E. eauto.
Qed.
Lemma well_nested_b_sound evs : well_nested_b evs = true -> well_nested evs.
Proof.
  unfold well_nested_b, well_nested. intros H.
  destruct (doc_tree evs) as [t|] eqn:E; [|discriminate].
  apply doc_tree_sound in E as [E [q [ats [ks Et]]]]. subst. eauto.
Qed.

(* ------------------------------------------------------------------ SAX trees *)
Inductive snode :=
| SText (s : str)
| SNode (decls : nsmap) (q : qname) (attrs : attrmap) (kids : list snode).

Fixpoint sflat (n : snode) : list sax :=
  match n with
  | SText s => [SChars s]
  | SNode ds q ats ks =>
      map (fun d => SStartPrefix (fst d) (snd d)) ds ++ [SStartElem q ats]
      ++ flat_map sflat ks ++ [SEndElem q] ++ map (fun d => SEndPrefix (fst d)) ds
  end.

(* ------------------------------------------------------------------ the writer as a function *)
Definition txt_of (enc : option str) : list snode :=
  match enc with Some ((_ :: _) as t) => [SText t] | _ => [] end.
Definition enc_is_none (enc : option str) : bool := match enc with None => true | Some _ => false end.

(* the attribute events of one element *)
Fixpoint fold_attrs (m : nsmap) (am : attrmap) (ats : list (qname * wvalue)) : attrmap * nsmap :=
  match ats with
  | [] => (am, m)
  | (q, v) :: r => let (enc, m') := encode_data m (attr_value_conv q v) in fold_attrs m' (am_set am q enc) r
  end.

(* flush_start on a pending element: final attributes, final map, declarations *)
Definition flush_attrs (is_nil : bool) (am : attrmap) : attrmap :=
  if is_nil then am else am_remove am q_xsi_nil_m.
Definition flush_map (tag : qname) (attrs : attrmap) (m : nsmap) : nsmap :=
  let m1 := fold_left (fun m a => add_namespace_attr (fst (fst a)) m) attrs m in
  if negb (truthy (fst tag)) && nm_has_key m1 None then nm_set m1 None [] else m1.

Definition data_plain (v : wvalue) : bool :=
  forallb (fun a => match a with
                    | AText _ => true
                    | AQName q => match fst (split_qname (build_qname q)) with None => true | Some _ => false end
                    end) (value_atoms v).

(* one element: `pm` = the map of the enclosing element (what is already declared),
   `a0` = attributes already queued (root attributes of the configuration),
   `m` = the inherited map, `W` = the function for the content *)
Definition wref_elem (W : nsmap -> item -> list snode) (pm : nsmap) (a0 : attrmap) (m : nsmap)
           (q : qname) (ats : list (qname * wvalue)) (ks : list item) : snode :=
  let m1 := add_namespace (fst q) m in
  let (am, m2) := fold_attrs m1 a0 ats in
  match ks with
  | IData v :: r =>
      let (enc, m2') := encode_data m2 v in
      let attrs := flush_attrs (enc_is_none enc) am in
      let m4 := flush_map q attrs m2' in
      SNode (changed_entries pm m4) q attrs (txt_of enc ++ flat_map (W m4) r)
  | _ =>
      let attrs := flush_attrs (match ks with [] => true | _ => false end) am in
      let m4 := flush_map q attrs m2 in
      SNode (changed_entries pm m4) q attrs (flat_map (W m4) ks)
  end.

(* content of an element once its start tag is out: map `m` is fixed *)
Fixpoint wref (m : nsmap) (i : item) : list snode :=
  match i with
  | IData v => txt_of (fst (encode_data m v))
  | INode q ats ks => [wref_elem wref m [] m q ats ks]
  end.

(* the document element: root attributes `a0` are already queued, nothing is declared above *)
Definition wref_root (user : nsmap) (a0 : attrmap) (q : qname) (ats : list (qname * wvalue)) (ks : list item) : snode :=
  wref_elem wref [] a0 user q ats ks.

(* ------------------------------------------------------------------ control-flow guards on trees *)
(* `it` = a data event came just before (in_tail) *)
Definition kids_ok_with (F : item -> bool) : bool -> list item -> bool :=
  fix go (it : bool) (ks : list item) : bool :=
    match ks with
    | [] => true
    | IData v :: r => data_plain v && go true r
    | (INode _ _ _ as e) :: r => F e && go false r
    end.
Fixpoint item_ok (i : item) : bool :=
  match i with
  | IData _ => true
  | INode q ats ks =>
      match ks with
      | IData v :: r => kids_ok_with item_ok true r
      | _ => kids_ok_with item_ok false ks
      end
  end.
