(* Proofs/ConvEnum.v — EnumConverter round trips for enumerations over str and over
   int values, and the refutations for the whitespace cases and tuple values. *)
From Coq Require Import NArith ZArith List Bool Lia.
From XV Require Import Base.Str Base.Dec Base.PyInt Gen.ConvTables
  Model.ConvBool Model.ConvInt Model.ConvDecimal Model.ConvQName Model.ConvEnum Model.ConvGuards
  Proofs.ConvLemmas Proofs.ConvInt Proofs.ConvBytes.
Import ListNotations.
Open Scope N_scope.

(* ---- first index of a value ---------------------------------------------------- *)
Fixpoint index_by {A} (eqb : A -> A -> bool) (v : A) (l : list A) (k : nat) : option nat :=
  match l with
  | [] => None
  | x :: r => if eqb x v then Some k else index_by eqb v r (S k)
  end.

Lemma index_by_nth {A} (eqb : A -> A -> bool) (Heq : forall x y, eqb x y = true <-> x = y) l :
  NoDup l -> forall i v k, nth_error l i = Some v -> index_by eqb v l k = Some (k + i)%nat.
Proof.
  induction l as [|x r IH]; intros Hnd i v k Hn; [destruct i; discriminate|].
  inversion Hnd as [|? ? Hx Hr]; subst. destruct i as [|i]; cbn in Hn.
  - inversion Hn; subst. cbn. rewrite (proj2 (Heq v v) eq_refl). f_equal. lia.
  - cbn [index_by]. destruct (eqb x v) eqn:E.
    + apply Heq in E. subst. exfalso. apply Hx. eapply nth_error_In; eauto.
    + rewrite (IH Hr i v (S k) Hn). f_equal. lia.
Qed.

(* ---- str-valued enumerations ------------------------------------------------------ *)
Fixpoint str_values (d : enum_def) : option (list str) :=
  match d with
  | [] => Some []
  | (_, EvAtom (AStr v)) :: r => option_map (cons v) (str_values r)
  | _ => None
  end.

Lemma find_exact_str v d : forall vs k,
  str_values d = Some vs -> find_exact v k d = index_by str_eqb v vs k.
Proof.
  induction d as [|[n ev] r IH]; intros vs k Hs; cbn in Hs.
  - inversion Hs; reflexivity.
  - destruct ev as [[x| | | |]| |]; try discriminate.
    destruct (str_values r) as [vr|] eqn:Er; [|discriminate]. inversion Hs; subst vs.
    cbn [find_exact index_by]. destruct (str_eqb x v); [reflexivity|]. apply IH. reflexivity.
Qed.

(* every member of a str-valued enumeration reads back as itself — whatever
   whitespace its value contains (since repo fix 64a4ace: exact match first) *)
Theorem enum_str_roundtrip m d vs i v :
  str_values d = Some vs -> NoDup vs -> nth_error vs i = Some v ->
  enum_ser m (EvAtom (AStr v)) = Some (v, m) /\ enum_deser m d v = Some i.
Proof.
  intros Hs Hnd Hn. split; [reflexivity|].
  unfold enum_deser. rewrite (find_exact_str v d vs 0 Hs).
  rewrite (index_by_nth str_eqb str_eqb_eq vs Hnd i v 0 Hn). reflexivity.
Qed.

(* the former refutation witnesses now round trip *)
Example enum_str_ws_witnesses :
  enum_deser None [([65], EvAtom (AStr [32;108]))] [32;108] = Some 0%nat
  /\ enum_deser None [([88], EvAtom (AStr [97;32;98])); ([89], EvAtom (AStr [97;9;98]))] [97;9;98] = Some 1%nat
  /\ enum_deser None [([88], EvAtom (AStr [97;32;98])); ([89], EvAtom (AStr [97;9;98]))] [32;97;10;32;98] = Some 0%nat.
Proof. repeat split; vm_compute; reflexivity. Qed.

Lemma py_strip_id_local s :
  s <> [] -> py_isspace (hd 0 s) = false -> py_isspace (last s 0) = false -> py_strip s = s.
Proof.
  intros Hne Hh Hl. pose proof (strip_by_wrap_hd_last py_isspace [] s [] eq_refl eq_refl Hne Hh Hl) as A.
  cbn [app] in A. rewrite app_nil_r in A. exact A.
Qed.

(* ---- token-list enumerations (tuple values, what the generator emits for list types;
   serializable since /repo f0dd6fc) ------------------------------------------------------- *)
Fixpoint tok_values (d : enum_def) : option (list (list str)) :=
  match d with
  | [] => Some []
  | (_, EvTuple l) :: r =>
      match tok_values r with
      | Some ls => Some (map (fun a => match a with AStr s => s | _ => [] end) l :: ls)
      | None => None
      end
  | _ => None
  end.

Definition strs (toks : list str) : list atom := map AStr toks.
(* a token: non-empty, no whitespace *)
Definition token_ok (t : str) : bool := negb (length t =? 0)%nat && forallb not_space t.

Lemma atoms_ser_strs m toks : atoms_ser m (strs toks) = Some (toks, m).
Proof. induction toks as [|t r IH]; [reflexivity|]. cbn. unfold strs in IH. rewrite IH. reflexivity. Qed.

Lemma split_ws_aux_token ws t rest : forall cur,
  forallb (fun c => negb (ws c)) t = true ->
  split_ws_aux ws cur (t ++ rest) = split_ws_aux ws (rev t ++ cur) rest.
Proof.
  induction t as [|c r IH]; intros cur H; [reflexivity|].
  cbn [forallb] in H. apply andb_true_iff in H as [Hc Hr]. apply negb_true_iff in Hc.
  cbn [app split_ws_aux]. rewrite Hc, (IH (c :: cur) Hr). cbn [rev]. rewrite <- app_assoc. reflexivity.
Qed.

Lemma split_join_tokens toks :
  forallb token_ok toks = true -> split_ws py_isspace (join [32] toks) = toks.
Proof.
  unfold split_ws. induction toks as [|t r IH]; intros H; [reflexivity|].
  cbn [forallb] in H. apply andb_true_iff in H as [Ht Hr]. unfold token_ok in Ht.
  apply andb_true_iff in Ht as [Hn Hw]. apply negb_true_iff in Hn.
  assert (Hw' : forallb (fun c => negb (py_isspace c)) t = true) by exact Hw.
  destruct r as [|t2 r2].
  - cbn [join]. pose proof (split_ws_aux_token py_isspace t [] [] Hw') as Q. rewrite app_nil_r in Q. rewrite Q.
    cbn [split_ws_aux]. rewrite app_nil_r. destruct (rev t) eqn:E; [destruct t; [discriminate|]; apply (f_equal (@length N)) in E;
      rewrite rev_length in E; discriminate|]. rewrite <- E, rev_involutive. reflexivity.
  - change (join [32] (t :: t2 :: r2)) with (t ++ [32] ++ join [32] (t2 :: r2)).
    rewrite split_ws_aux_token by exact Hw'. cbn [app split_ws_aux].
    replace (py_isspace 32) with true by reflexivity. rewrite app_nil_r.
    destruct (rev t) eqn:E; [destruct t; [discriminate|]; apply (f_equal (@length N)) in E;
      rewrite rev_length in E; discriminate|]. rewrite <- E, rev_involutive, (IH Hr). reflexivity.
Qed.

Lemma join_tokens_strip toks :
  forallb token_ok toks = true -> py_strip (join [32] toks) = join [32] toks.
Proof.
  intros H. destruct toks as [|t r]; [reflexivity|].
  assert (Ne : join [32] (t :: r) <> []).
  { cbn [forallb] in H. apply andb_true_iff in H as [Ht _]. unfold token_ok in Ht. apply andb_true_iff in Ht as [Hn _].
    destruct t; [discriminate|]. destruct r; cbn; discriminate. }
  assert (Hd : forall toks, forallb token_ok toks = true -> toks <> [] ->
               py_isspace (hd 0 (join [32] toks)) = false /\ py_isspace (last (join [32] toks) 0) = false).
  { clear. induction toks as [|t r IH]; intros H Hne; [congruence|].
    cbn [forallb] in H. apply andb_true_iff in H as [Ht Hr]. unfold token_ok in Ht. apply andb_true_iff in Ht as [Hn Hw].
    assert (Tn : t <> []) by (destruct t; [discriminate|discriminate]).
    rewrite forallb_forall in Hw.
    assert (Hh : py_isspace (hd 0 t) = false).
    { destruct t as [|c t']; [congruence|]. apply negb_true_iff. apply (Hw c). left. reflexivity. }
    assert (Hl : py_isspace (last t 0) = false) by (apply negb_true_iff; apply (Hw _ (last_in t 0 Tn))).
    destruct r as [|t2 r2]; [cbn [join]; split; assumption|].
    change (join [32] (t :: t2 :: r2)) with (t ++ [32] ++ join [32] (t2 :: r2)).
    destruct (IH Hr ltac:(discriminate)) as [_ L2]. split.
    - destruct t; [congruence|exact Hh].
    - assert (J : join [32] (t2 :: r2) <> []).
      { cbn [forallb] in Hr. apply andb_true_iff in Hr as [H2 _]. unfold token_ok in H2. apply andb_true_iff in H2 as [N2 _].
        destruct t2; [discriminate|]. destruct r2; cbn; discriminate. }
      rewrite last_app_nonempty by (destruct (join [32] (t2 :: r2)); discriminate).
      rewrite last_app_nonempty by exact J. exact L2. }
  destruct (Hd (t :: r) H ltac:(discriminate)) as [A B]. apply py_strip_id_local; assumption.
Qed.

Lemma find_exact_tok v d : forall ls k, tok_values d = Some ls -> find_exact v k d = None.
Proof.
  induction d as [|[n ev] r IH]; intros ls k Hs; cbn in Hs; [reflexivity|].
  destruct ev as [x|l|l]; try discriminate.
  destruct (tok_values r) as [lr|] eqn:Er; [|discriminate]. cbn [find_exact]. eapply IH. reflexivity.
Qed.

Definition lstr_eqb (a b : list str) : bool :=
  (length b =? length a)%nat && (fix go (x y : list str) := match x, y with
     | [], [] => true | p :: x', q :: y' => str_eqb p q && go x' y' | _, _ => false end) a b.

Lemma match_list_strs m vals toks :
  match_list m vals (strs toks) = true <-> vals = toks.
Proof.
  revert toks; induction vals as [|v r IH]; intros [|t ts]; cbn; try (split; congruence).
  rewrite andb_true_iff, str_eqb_eq. unfold strs in IH. rewrite IH. split; [intros [-> ->]; reflexivity|intros E; inversion E; auto].
Qed.

Definition all_strs (l : list atom) : bool := forallb (fun a => match a with AStr _ => true | _ => false end) l.

Lemma find_member_tok m toks d : forall ls k,
  tok_values d = Some ls ->
  forallb (fun e => match snd e with EvTuple l => all_strs l | _ => false end) d = true ->
  find_member m (join [32] toks) toks k d
  = index_by (fun a b => if list_eq_dec (list_eq_dec N.eq_dec) a b then true else false) toks ls k.
Proof.
  induction d as [|[n ev] r IH]; intros ls k Hs Ha; cbn in Hs.
  - inversion Hs; reflexivity.
  - destruct ev as [x|l|l]; try discriminate.
    destruct (tok_values r) as [lr|] eqn:Er; [|discriminate]. inversion Hs; subst ls.
    cbn [forallb snd] in Ha. apply andb_true_iff in Ha as [Hl Hr].
    set (tl := map (fun a => match a with AStr s0 => s0 | _ => [] end) l).
    assert (El : l = strs tl).
    { subst tl. unfold strs. clear -Hl. induction l as [|a l IH]; [reflexivity|]. cbn in Hl.
      destruct a; try discriminate. cbn. f_equal. apply IH, Hl. }
    cbn [find_member enum_match index_by].
    destruct (list_eq_dec (list_eq_dec N.eq_dec) tl toks) as [E|NE].
    + assert (M : match_list m toks l = true) by (rewrite El; apply match_list_strs; auto).
      rewrite M. rewrite El. unfold strs. rewrite map_length, E, Nat.eqb_refl. reflexivity.
    + assert (M : match_list m toks l = false).
      { destruct (match_list m toks l) eqn:X; [|reflexivity]. rewrite El in X. apply match_list_strs in X. congruence. }
      rewrite M, andb_false_r. apply IH; [reflexivity|exact Hr].
Qed.

(* a member of a token-tuple enumeration serializes to its tokens joined by spaces
   and reads back as itself *)
Theorem enum_tokens_roundtrip m d ls i toks :
  tok_values d = Some ls ->
  forallb (fun e => match snd e with EvTuple l => all_strs l | _ => false end) d = true ->
  NoDup ls -> nth_error ls i = Some toks -> forallb token_ok toks = true ->
  enum_ser m (EvTuple (strs toks)) = Some (join [32] toks, m)
  /\ enum_deser m d (join [32] toks) = Some i.
Proof.
  intros Hs Ha Hnd Hn Ht. split; [cbn [enum_ser]; rewrite atoms_ser_strs; reflexivity|].
  unfold enum_deser. rewrite (find_exact_tok _ d ls 0 Hs). cbv zeta.
  rewrite (join_tokens_strip toks Ht), (find_exact_tok _ d ls 0 Hs), (split_join_tokens toks Ht).
  rewrite (find_member_tok m toks d ls 0 Hs Ha).
  set (f := fun a b : list str => if list_eq_dec (list_eq_dec N.eq_dec) a b then true else false).
  assert (Hf : forall x y, f x y = true <-> x = y).
  { intros x y. unfold f. destruct (list_eq_dec (list_eq_dec N.eq_dec) x y); split; congruence. }
  transitivity (index_by f toks ls 0); [reflexivity|].
  rewrite (index_by_nth f Hf ls Hnd i toks 0 Hn). reflexivity.
Qed.

(* the former refutation witness *)
Example enum_tuple_witness :
  let v := EvTuple [AStr [97]; AStr [98]] in
  enum_ser None v = Some ([97;32;98], None) /\ enum_deser None [([65], v)] [97;32;98] = Some 0%nat.
Proof. cbv zeta. split; vm_compute; reflexivity. Qed.

(* ---- int-valued enumerations --------------------------------------------------------- *)
Fixpoint int_values (d : enum_def) : option (list Z) :=
  match d with
  | [] => Some []
  | (_, EvAtom (AInt z)) :: r => option_map (cons z) (int_values r)
  | _ => None
  end.

Lemma find_member_int m v z d : forall zs k,
  int_values d = Some zs -> int_deser v = Some z ->
  find_member m v [v] k d = index_by Z.eqb z zs k.
Proof.
  induction d as [|[n ev] r IH]; intros zs k Hs Hv; cbn in Hs.
  - inversion Hs; reflexivity.
  - destruct ev as [[|x| | |]| |]; try discriminate.
    destruct (int_values r) as [zr|] eqn:Er; [|discriminate]. inversion Hs; subst zs.
    cbn [find_member enum_match match_atomic index_by length Nat.eqb andb]. rewrite Hv.
    rewrite Z.eqb_sym. destruct (Z.eqb x z); [reflexivity|]. apply IH; [reflexivity|exact Hv].
Qed.

Lemma split_ws_aux_nows ws s : forall cur,
  forallb (fun c => negb (ws c)) s = true -> rev cur ++ s <> [] ->
  split_ws_aux ws cur s = [rev cur ++ s].
Proof.
  induction s as [|c r IH]; intros cur H Hne.
  - cbn. rewrite app_nil_r in *. destruct cur; [cbn in Hne; congruence|reflexivity].
  - cbn [forallb] in H. apply andb_true_iff in H as [Hc Hr]. apply negb_true_iff in Hc.
    cbn [split_ws_aux]. rewrite Hc. rewrite (IH (c :: cur) Hr).
    + cbn [rev]. rewrite <- app_assoc. reflexivity.
    + cbn [rev]. rewrite <- app_assoc. cbn. destruct (rev cur); discriminate.
Qed.

Lemma nows_strip_split s :
  forallb not_space s = true -> s <> [] -> py_strip s = s /\ split_ws py_isspace s = [s].
Proof.
  intros H Hne. split.
  - pose proof (strip_by_wrap_hd_last py_isspace [] s [] eq_refl eq_refl Hne) as A.
    cbn [app] in A. rewrite app_nil_r in A. apply A.
    + rewrite forallb_forall in H. destruct s as [|c r]; [congruence|]. cbn.
      apply negb_true_iff. apply (H c). left. reflexivity.
    + rewrite forallb_forall in H. apply negb_true_iff. apply (H (last s 0)). apply last_in, Hne.
  - unfold split_ws. apply (split_ws_aux_nows py_isspace s []); assumption.
Qed.

Lemma py_str_of_Z_nows z : forallb not_space (py_str_of_Z z) = true /\ py_str_of_Z z <> [].
Proof.
  assert (D : forall n, forallb not_space (to_dec n) = true).
  { intros n. eapply forallb_impl; [|apply to_dec_digits]. intros c Hc. unfold not_space.
    rewrite (ascii_digit_not_space c Hc). reflexivity. }
  destruct z; cbn [py_str_of_Z]; (split; [|try apply to_dec_nonempty; try discriminate]).
  - apply D.
  - apply D.
  - cbn [forallb]. rewrite D. reflexivity.
Qed.

Lemma find_exact_int v d : forall zs k, int_values d = Some zs -> find_exact v k d = None.
Proof.
  induction d as [|[n ev] r IH]; intros zs k Hs; cbn in Hs; [reflexivity|].
  destruct ev as [[|x| | |]| |]; try discriminate.
  destruct (int_values r) as [zr|] eqn:Er; [|discriminate]. cbn [find_exact]. eapply IH. reflexivity.
Qed.

Theorem enum_int_roundtrip m d zs i z s :
  int_values d = Some zs -> NoDup zs -> nth_error zs i = Some z -> int_ser z = Some s ->
  enum_ser m (EvAtom (AInt z)) = Some (s, m) /\ enum_deser m d s = Some i.
Proof.
  intros Hs Hnd Hn Hser. split; [cbn; rewrite Hser; reflexivity|].
  pose proof (int_roundtrip z s Hser) as RT.
  assert (E : s = py_str_of_Z z).
  { unfold int_ser in Hser. destruct (int_max_str_digits <? int_ndigits z); [discriminate|]. inversion Hser; reflexivity. }
  destruct (py_str_of_Z_nows z) as [Nw Ne]. rewrite <- E in Nw, Ne.
  destruct (nows_strip_split s Nw Ne) as [St Sp].
  unfold enum_deser. rewrite (find_exact_int s d zs 0 Hs). cbv zeta. rewrite St.
  rewrite (find_exact_int s d zs 0 Hs). rewrite Sp.
  transitivity (index_by Z.eqb z zs 0); [apply (find_member_int m s z d zs 0 Hs RT)|].
  assert (Heq : forall x y, Z.eqb x y = true <-> x = y) by (intros; apply Z.eqb_eq).
  rewrite (index_by_nth Z.eqb Heq zs Hnd i z 0 Hn). reflexivity.
Qed.
