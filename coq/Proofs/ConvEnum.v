(* Proofs/ConvEnum.v — EnumConverter round trips for enumerations over str and over
   int values, and the refutations for the whitespace cases and tuple values. *)
From Coq Require Import NArith ZArith List Bool Lia.
From XV Require Import Base.Str Base.Dec Base.PyInt Gen.ConvTables
  Model.ConvBool Model.ConvInt Model.ConvDecimal Model.ConvQName Model.ConvEnum Model.ConvGuards
  Proofs.ConvLemmas Proofs.ConvInt Proofs.ConvBytes.
Import ListNotations.
Open Scope N_scope.

(* ---- first index of a value ---------------------------------------------------- *)
Fixpoint index_by {A} (eqb : A -> A -> bool) (v : A) (l : list A) (k : nat) : option nat :=
  match l with
  | [] => None
  | x :: r => if eqb x v then Some k else index_by eqb v r (S k)
  end.

Lemma index_by_nth {A} (eqb : A -> A -> bool) (Heq : forall x y, eqb x y = true <-> x = y) l :
  NoDup l -> forall i v k, nth_error l i = Some v -> index_by eqb v l k = Some (k + i)%nat.
Proof.
  induction l as [|x r IH]; intros Hnd i v k Hn; [destruct i; discriminate|].
  inversion Hnd as [|? ? Hx Hr]; subst. destruct i as [|i]; cbn in Hn.
  - inversion Hn; subst. cbn. rewrite (proj2 (Heq v v) eq_refl). f_equal. lia.
  - cbn [index_by]. destruct (eqb x v) eqn:E.
    + apply Heq in E. subst. exfalso. apply Hx. eapply nth_error_In; eauto.
    + rewrite (IH Hr i v (S k) Hn). f_equal. lia.
Qed.

(* ---- str-valued enumerations ------------------------------------------------------ *)
Fixpoint str_values (d : enum_def) : option (list str) :=
  match d with
  | [] => Some []
  | (_, EvAtom (AStr v)) :: r => option_map (cons v) (str_values r)
  | _ => None
  end.

Lemma find_exact_str v d : forall vs k,
  str_values d = Some vs -> find_exact v k d = index_by str_eqb v vs k.
Proof.
  induction d as [|[n ev] r IH]; intros vs k Hs; cbn in Hs.
  - inversion Hs; reflexivity.
  - destruct ev as [[x| | | |]| |]; try discriminate.
    destruct (str_values r) as [vr|] eqn:Er; [|discriminate]. inversion Hs; subst vs.
    cbn [find_exact index_by]. destruct (str_eqb x v); [reflexivity|]. apply IH. reflexivity.
Qed.

(* every member of a str-valued enumeration reads back as itself — whatever
   whitespace its value contains (since repo fix 64a4ace: exact match first) *)
Theorem enum_str_roundtrip m d vs i v :
  str_values d = Some vs -> NoDup vs -> nth_error vs i = Some v ->
  enum_ser m (EvAtom (AStr v)) = Some (v, m) /\ enum_deser m d v = Some i.
Proof.
  intros Hs Hnd Hn. split; [reflexivity|].
  unfold enum_deser. rewrite (find_exact_str v d vs 0 Hs).
  rewrite (index_by_nth str_eqb str_eqb_eq vs Hnd i v 0 Hn). reflexivity.
Qed.

(* the former refutation witnesses now round trip *)
Example enum_str_ws_witnesses :
  enum_deser None [([65], EvAtom (AStr [32;108]))] [32;108] = Some 0%nat
  /\ enum_deser None [([88], EvAtom (AStr [97;32;98])); ([89], EvAtom (AStr [97;9;98]))] [97;9;98] = Some 1%nat
  /\ enum_deser None [([88], EvAtom (AStr [97;32;98])); ([89], EvAtom (AStr [97;9;98]))] [32;97;10;32;98] = Some 0%nat.
Proof. repeat split; vm_compute; reflexivity. Qed.

(* tuple values (token-list enumerations): serialize raises, deserialize accepts *)
Lemma enum_tuple_ser_refuted :
  let v := EvTuple [AStr [97]; AStr [98]] in
  enum_ser None v = None /\ enum_deser None [([65], v)] [97;32;98] = Some 0%nat.
Proof. cbv zeta. split; vm_compute; reflexivity. Qed.

(* ---- int-valued enumerations --------------------------------------------------------- *)
Fixpoint int_values (d : enum_def) : option (list Z) :=
  match d with
  | [] => Some []
  | (_, EvAtom (AInt z)) :: r => option_map (cons z) (int_values r)
  | _ => None
  end.

Lemma find_member_int m v z d : forall zs k,
  int_values d = Some zs -> int_deser v = Some z ->
  find_member m v [v] k d = index_by Z.eqb z zs k.
Proof.
  induction d as [|[n ev] r IH]; intros zs k Hs Hv; cbn in Hs.
  - inversion Hs; reflexivity.
  - destruct ev as [[|x| | |]| |]; try discriminate.
    destruct (int_values r) as [zr|] eqn:Er; [|discriminate]. inversion Hs; subst zs.
    cbn [find_member enum_match match_atomic index_by length Nat.eqb andb]. rewrite Hv.
    rewrite Z.eqb_sym. destruct (Z.eqb x z); [reflexivity|]. apply IH; [reflexivity|exact Hv].
Qed.

Lemma split_ws_aux_nows ws s : forall cur,
  forallb (fun c => negb (ws c)) s = true -> rev cur ++ s <> [] ->
  split_ws_aux ws cur s = [rev cur ++ s].
Proof.
  induction s as [|c r IH]; intros cur H Hne.
  - cbn. rewrite app_nil_r in *. destruct cur; [cbn in Hne; congruence|reflexivity].
  - cbn [forallb] in H. apply andb_true_iff in H as [Hc Hr]. apply negb_true_iff in Hc.
    cbn [split_ws_aux]. rewrite Hc. rewrite (IH (c :: cur) Hr).
    + cbn [rev]. rewrite <- app_assoc. reflexivity.
    + cbn [rev]. rewrite <- app_assoc. cbn. destruct (rev cur); discriminate.
Qed.

Lemma nows_strip_split s :
  forallb not_space s = true -> s <> [] -> py_strip s = s /\ split_ws py_isspace s = [s].
Proof.
  intros H Hne. split.
  - pose proof (strip_by_wrap_hd_last py_isspace [] s [] eq_refl eq_refl Hne) as A.
    cbn [app] in A. rewrite app_nil_r in A. apply A.
    + rewrite forallb_forall in H. destruct s as [|c r]; [congruence|]. cbn.
      apply negb_true_iff. apply (H c). left. reflexivity.
    + rewrite forallb_forall in H. apply negb_true_iff. apply (H (last s 0)). apply last_in, Hne.
  - unfold split_ws. apply (split_ws_aux_nows py_isspace s []); assumption.
Qed.

Lemma py_str_of_Z_nows z : forallb not_space (py_str_of_Z z) = true /\ py_str_of_Z z <> [].
Proof.
  assert (D : forall n, forallb not_space (to_dec n) = true).
  { intros n. eapply forallb_impl; [|apply to_dec_digits]. intros c Hc. unfold not_space.
    rewrite (ascii_digit_not_space c Hc). reflexivity. }
  destruct z; cbn [py_str_of_Z]; (split; [|try apply to_dec_nonempty; try discriminate]).
  - apply D.
  - apply D.
  - cbn [forallb]. rewrite D. reflexivity.
Qed.

Lemma find_exact_int v d : forall zs k, int_values d = Some zs -> find_exact v k d = None.
Proof.
  induction d as [|[n ev] r IH]; intros zs k Hs; cbn in Hs; [reflexivity|].
  destruct ev as [[|x| | |]| |]; try discriminate.
  destruct (int_values r) as [zr|] eqn:Er; [|discriminate]. cbn [find_exact]. eapply IH. reflexivity.
Qed.

Theorem enum_int_roundtrip m d zs i z s :
  int_values d = Some zs -> NoDup zs -> nth_error zs i = Some z -> int_ser z = Some s ->
  enum_ser m (EvAtom (AInt z)) = Some (s, m) /\ enum_deser m d s = Some i.
Proof.
  intros Hs Hnd Hn Hser. split; [cbn; rewrite Hser; reflexivity|].
  pose proof (int_roundtrip z s Hser) as RT.
  assert (E : s = py_str_of_Z z).
  { unfold int_ser in Hser. destruct (int_max_str_digits <? int_ndigits z); [discriminate|]. inversion Hser; reflexivity. }
  destruct (py_str_of_Z_nows z) as [Nw Ne]. rewrite <- E in Nw, Ne.
  destruct (nows_strip_split s Nw Ne) as [St Sp].
  unfold enum_deser. rewrite (find_exact_int s d zs 0 Hs). cbv zeta. rewrite St.
  rewrite (find_exact_int s d zs 0 Hs). rewrite Sp.
  transitivity (index_by Z.eqb z zs 0); [apply (find_member_int m s z d zs 0 Hs RT)|].
  assert (Heq : forall x y, Z.eqb x y = true <-> x = y) by (intros; apply Z.eqb_eq).
  rewrite (index_by_nth Z.eqb Heq zs Hnd i z 0 Hn). reflexivity.
Qed.
