(* Proofs/SampleReduce.v — ClassUtils.sorted_attrs / reduce_attributes / reduce_classes:
   every attr of every merged class instance is covered by exactly one merged attr whose max_occurs is at
   least as large, and a part missing from some instance is optional. *)
From Coq Require Import NArith ZArith List Bool Lia Permutation.
From XV Require Import Base.Str Base.Eqb Gen.SampleTables Model.Sample Model.SampleCorr Proofs.SampleBase.
Import ListNotations.
Open Scope N_scope.

(* ------------------------------------------------------------------ sorted_attrs *)
Lemma scan_incl_attrs attrs pending rest x : In x attrs -> In x (scan attrs pending rest).
Proof.
  revert attrs pending. induction rest as [|y r IH]; intros attrs pending H; cbn.
  - apply in_or_app. left. exact H.
  - destruct (find_idx attrs y) as [pos|].
    + apply IH. apply (Permutation_in _ (Permutation_sym (insert_at_perm pos pending attrs))). apply in_or_app. right. exact H.
    + apply IH. exact H.
Qed.

Lemma scan_incl_pending attrs pending rest x : In x pending -> In x (scan attrs pending rest).
Proof.
  revert attrs pending. induction rest as [|y r IH]; intros attrs pending H; cbn.
  - apply in_or_app. right. exact H.
  - destruct (find_idx attrs y) as [pos|].
    + apply scan_incl_attrs. apply (Permutation_in _ (Permutation_sym (insert_at_perm pos pending attrs))). apply in_or_app. left. exact H.
    + apply IH. apply in_or_app. left. exact H.
Qed.

Lemma scan_cover_rest attrs pending rest x : In x rest -> In (key x) (keys (scan attrs pending rest)).
Proof.
  revert attrs pending. induction rest as [|y r IH]; intros attrs pending H; [contradiction|]. cbn.
  destruct H as [->|H].
  - destruct (find_idx attrs x) as [pos|] eqn:F.
    + apply find_idx_Some in F as [z [Hz Ez]]. apply nth_error_In in Hz. apply in_keys. exists z. split; [|exact Ez].
      apply scan_incl_attrs. apply (Permutation_in _ (Permutation_sym (insert_at_perm pos pending attrs))). apply in_or_app. right. exact Hz.
    + apply in_map. apply scan_incl_pending. apply in_or_app. right. left. reflexivity.
  - destruct (find_idx attrs y); apply IH; exact H.
Qed.

Lemma scan_from attrs pending rest x : In x (scan attrs pending rest) -> In x attrs \/ In x pending \/ In x rest.
Proof.
  revert attrs pending. induction rest as [|y r IH]; intros attrs pending; cbn.
  - rewrite in_app_iff. tauto.
  - destruct (find_idx attrs y) as [pos|].
    + intros H. apply IH in H as [H|[H|H]]; [|contradiction|auto].
      apply (Permutation_in _ (insert_at_perm pos pending attrs)) in H. apply in_app_iff in H. tauto.
    + intros H. apply IH in H as [H|[H|H]]; auto. apply in_app_iff in H as [H|[->|[]]]; auto.
Qed.

Lemma scan_nodup attrs pending rest :
  NoDup (keys attrs) -> NoDup (keys (pending ++ rest)) -> (forall k, In k (keys pending) -> ~ In k (keys attrs)) ->
  NoDup (keys (scan attrs pending rest)).
Proof.
  revert attrs pending. induction rest as [|y r IH]; intros attrs pending Ha Hp D; cbn.
  - rewrite app_nil_r in Hp. apply NoDup_keys_app; auto. intros k H1 H2. eapply D; eauto.
  - destruct (find_idx attrs y) as [pos|] eqn:F.
    + apply IH.
      * apply (NoDup_keys_perm _ _ (Permutation_sym (insert_at_perm pos pending attrs))).
        apply NoDup_keys_app_inv in Hp as [Hp _]. apply NoDup_keys_app; auto.
      * cbn [app]. apply NoDup_keys_app_inv in Hp as [_ [Hp _]]. unfold keys in *. cbn [map] in Hp. inversion Hp; assumption.
      * intros k [].
    + apply find_idx_None in F. apply IH; auto.
      * rewrite <- app_assoc. exact Hp.
      * intros k Hk. unfold keys in Hk. rewrite map_app in Hk. apply in_app_iff in Hk as [Hk|[<-|[]]]; auto.
Qed.

Lemma sorted_attrs_cover_aux cs : forall acc x,
  (In (key x) (keys acc) \/ exists c, In c cs /\ In x c) ->
  In (key x) (keys (fold_left (fun acc c => scan acc [] c) cs acc)).
Proof.
  induction cs as [|c cs IH]; intros acc x H; cbn.
  - destruct H as [H|[c [[] _]]]. exact H.
  - apply IH. destruct H as [H|[c' [[<-|Hc] Hx]]].
    + left. apply in_keys in H as [z [Hz Ez]]. apply in_keys. exists z. split; [|exact Ez]. apply scan_incl_attrs. exact Hz.
    + left. apply scan_cover_rest. exact Hx.
    + right. exists c'. auto.
Qed.

Lemma sorted_attrs_cover cs c x : In c cs -> In x c -> In (key x) (keys (sorted_attrs cs)).
Proof. intros Hc Hx. unfold sorted_attrs. apply sorted_attrs_cover_aux. right. exists c. auto. Qed.

Lemma sorted_attrs_nodup_aux cs : forall acc,
  NoDup (keys acc) -> Forall (fun c => NoDup (keys c)) cs ->
  NoDup (keys (fold_left (fun acc c => scan acc [] c) cs acc)).
Proof.
  induction cs as [|c cs IH]; intros acc Ha Hc; cbn; [exact Ha|].
  inversion Hc; subst. apply IH; [|assumption]. apply scan_nodup; auto; try (intros k []); cbn; assumption.
Qed.

Lemma sorted_attrs_nodup cs : Forall (fun c => NoDup (keys c)) cs -> NoDup (keys (sorted_attrs cs)).
Proof. intros H. unfold sorted_attrs. apply sorted_attrs_nodup_aux; [constructor|exact H]. Qed.

(* ------------------------------------------------------------------ sort_desc *)
Lemma insert_desc_perm x l : Permutation (insert_desc x l) (x :: l).
Proof.
  induction l as [|y r IH]; cbn; [reflexivity|].
  destruct (length y <=? length x)%nat; [reflexivity|]. rewrite IH. apply perm_swap.
Qed.

Lemma sort_desc_perm cs : Permutation (sort_desc cs) cs.
Proof.
  induction cs as [|c cs IH]; cbn; [reflexivity|]. rewrite insert_desc_perm. constructor. exact IH.
Qed.

(* ------------------------------------------------------------------ merge_attributes *)
Definition dominates (r y : attr) : Prop :=
  a_max y <= a_max r /\ a_min r <= a_min y /\ tsub (a_types y) (a_types r).

Lemma dominates_refl a : dominates a a.
Proof. split; [lia|]. split; [lia|apply tsub_refl]. Qed.

Lemma dominates_trans a b c : dominates a b -> dominates b c -> dominates a c.
Proof.
  unfold dominates. intros [? [? T1]] [? [? T2]]. split; [lia|]. split; [lia|]. eapply tsub_trans; eauto.
Qed.

Lemma or_default_ge x : x <= or_default 1 x.
Proof. unfold or_default. destruct (N.eqb_spec x 0); lia. Qed.

Lemma merge_key t s : key (merge_attributes t s) = key t.
Proof. reflexivity. Qed.

Lemma merge_types_fold q : forall src acc,
  tmem q (fold_left (fun acc tp => if existsb (atype_eqb tp) acc then acc else acc ++ [tp]) src acc)
  = tmem q acc || tmem q src.
Proof.
  induction src as [|t r IH]; intros acc; cbn [fold_left]; [cbn; rewrite orb_false_r; reflexivity|].
  rewrite IH, (tmem_cons q t r). destruct (existsb (atype_eqb t) acc) eqn:E.
  - apply existsb_exists in E as [u [Hu Eu]]. unfold atype_eqb in Eu.
    apply andb_true_iff in Eu as [Eu _]. apply andb_true_iff in Eu as [Eu _]. apply str_eqb_eq in Eu.
    destruct (str_eqb (ty_qname t) q) eqn:Q; [|reflexivity]. apply str_eqb_eq in Q.
    assert (tmem q acc = true) as ->; [|reflexivity].
    apply existsb_exists. exists u. split; [exact Hu|]. apply str_eqb_eq. congruence.
  - rewrite tmem_app. cbn. rewrite orb_false_r, orb_assoc. reflexivity.
Qed.

Lemma merge_dominates_l t s : dominates (merge_attributes t s) t.
Proof.
  unfold dominates, merge_attributes; cbn. pose proof (or_default_ge (a_max t)). split; [lia|]. split; [lia|].
  intros q H0. rewrite merge_types_fold, H0. reflexivity.
Qed.

Lemma merge_dominates_r t s : dominates (merge_attributes t s) s.
Proof.
  unfold dominates, merge_attributes; cbn. pose proof (or_default_ge (a_max s)). split; [lia|]. split; [lia|].
  intros q H0. rewrite merge_types_fold, H0. apply orb_true_r.
Qed.

(* ------------------------------------------------------------------ reduce_pass *)
Lemma reduce_pass_spec a : forall cs cur opt cs' cur' opt',
  reduce_pass a cs cur opt = (cs', cur', opt') ->
  Forall2 (fun c' c => (forall y, In y c' -> In y c) /\ (forall y, In y c -> key y <> key a -> In y c')
                       /\ (NoDup (keys c) -> NoDup (keys c'))) cs' cs
  /\ (forall t, cur = Some t -> exists t', cur' = Some t' /\ key t' = key t /\ dominates t' t)
  /\ (forall c y, In c cs -> In y c -> key y = key a -> NoDup (keys c) -> exists t', cur' = Some t' /\ dominates t' y)
  /\ (cur = None -> forall t', cur' = Some t' -> key t' = key a)
  /\ (opt = true -> opt' = true)
  /\ ((exists c, In c cs /\ ~ In (key a) (keys c)) -> opt' = true).
Proof.
  induction cs as [|c r IH]; intros cur opt cs' cur' opt' H; cbn in H.
  - inversion H; subst. split; [constructor|]. split; [intros t E; exists t; split; [exact E|]; split; [reflexivity|apply dominates_refl]|].
    split; [intros c y []|]. split; [intros E t' E'; congruence|]. split; [auto|]. intros [c [[] _]].
  - destruct (find_idx c a) as [pos|] eqn:F.
    + destruct (nth_error c pos) as [x|] eqn:N.
      * destruct (reduce_pass a r (Some (match cur with None => x | Some t => merge_attributes t x end)) opt)
          as [[r' cur1] o1] eqn:R. inversion H; subst. clear H.
        destruct (IH _ _ _ _ _ R) as [F2 [Hc [Hy [_ [Ho Hl]]]]].
        pose proof (find_idx_Some _ _ _ F) as [x' [N' Ex]]. rewrite N in N'. inversion N'; subst x'. clear N'.
        destruct (Hc _ eq_refl) as [t' [Et' [Kt' Dt']]].
        repeat split.
        -- constructor; [|exact F2]. repeat split.
           ++ intros y Hy'. eapply remove_at_incl. exact Hy'.
           ++ intros y Hy' Ne. eapply remove_at_keep; eauto. intros ->. contradiction.
           ++ apply remove_at_sublist_keys.
        -- intros t ->. exists t'. split; [exact Et'|]. split.
           ++ rewrite Kt'. apply merge_key.
           ++ eapply dominates_trans; [exact Dt'|]. apply merge_dominates_l.
        -- intros c0 y [<-|Hc0] Hyc Ey ND.
           ++ assert (y = x) as ->.
              { eapply NoDup_keys_inj; eauto. eapply nth_error_In; eauto. congruence. }
              exists t'. split; [exact Et'|]. eapply dominates_trans; [exact Dt'|].
              destruct cur as [t|]; [apply merge_dominates_r|apply dominates_refl].
           ++ eapply Hy; eauto.
        -- intros -> t'' E. rewrite Et' in E. inversion E; subst. rewrite Kt'. exact Ex.
        -- exact Ho.
        -- intros [c0 [[<-|Hc0] Hn]].
           ++ exfalso. apply Hn. apply in_keys. exists x. split; [eapply nth_error_In; eauto|exact Ex].
           ++ apply Hl. exists c0. auto.
      * exfalso. apply find_idx_Some in F as [x [N' _]]. congruence.
    + destruct (reduce_pass a r cur true) as [[r' cur1] o1] eqn:R. inversion H; subst. clear H.
      destruct (IH _ _ _ _ _ R) as [F2 [Hc [Hy [Hn [Ho Hl]]]]].
      apply find_idx_None in F.
      split; [constructor; [repeat split; auto|exact F2]|].
      split; [exact Hc|].
      split; [intros c0 y [<-|Hc0] Hyc Ey ND; [exfalso; apply F; apply in_keys; exists y; auto|eapply Hy; eauto]|].
      split; [exact Hn|]. split; [intros _; apply Ho; reflexivity|]. intros _. apply Ho. reflexivity.
Qed.

(* ------------------------------------------------------------------ reduce_loop *)
Lemma set_last_min0_spec l :
  l = [] /\ set_last_min0 l = [] \/ exists r a, l = r ++ [a] /\ set_last_min0 l = r ++ [set_min0 a].
Proof.
  unfold set_last_min0. destruct (rev l) as [|a r] eqn:E.
  - left. split; [|reflexivity]. apply (f_equal (@rev attr)) in E. rewrite rev_involutive in E. exact E.
  - right. exists (rev r), a. split; [|reflexivity].
    apply (f_equal (@rev attr)) in E. rewrite rev_involutive in E. cbn in E. exact E.
Qed.

Lemma set_last_min0_keys l : keys (set_last_min0 l) = keys l.
Proof.
  destruct (set_last_min0_spec l) as [[-> ->]|[r [a [-> ->]]]]; [reflexivity|].
  unfold keys. rewrite !map_app. reflexivity.
Qed.

(* every entry survives, possibly with a smaller min_occurs *)
Definition persists (res out : list attr) : Prop :=
  forall r, In r res -> exists r', In r' out /\ key r' = key r /\ a_max r' = a_max r /\ a_min r' <= a_min r /\ a_types r' = a_types r.

Lemma persists_refl l : persists l l.
Proof. intros r H. exists r. repeat split; auto; lia. Qed.

Lemma persists_trans a b c : persists a b -> persists b c -> persists a c.
Proof.
  intros H1 H2 r Hr. destruct (H1 r Hr) as [r1 [I1 [K1 [M1 [L1 T1]]]]]. destruct (H2 r1 I1) as [r2 [I2 [K2 [M2 [L2 T2]]]]].
  exists r2. split; [exact I2|]. split; [congruence|]. split; [congruence|]. split; [lia|congruence].
Qed.

Lemma persists_min0 l : persists l (set_last_min0 l).
Proof.
  destruct (set_last_min0_spec l) as [[-> ->]|[r [a [-> ->]]]]; [apply persists_refl|].
  intros x Hx. apply in_app_iff in Hx as [Hx|[<-|[]]].
  - exists x. repeat split; auto; try lia. apply in_or_app. left. exact Hx.
  - exists (set_min0 a). repeat split; cbn; try lia. apply in_or_app. right. left. reflexivity.
Qed.

Lemma persists_app l x : persists l (l ++ [x]).
Proof. intros r H. exists r. repeat split; auto; try lia. apply in_or_app. left. exact H. Qed.

Lemma set_last_min0_last r a x : In x (set_last_min0 (r ++ [a])) -> In x r \/ x = set_min0 a.
Proof.
  destruct (set_last_min0_spec (r ++ [a])) as [[E _]|[r' [a' [E ->]]]].
  - destruct r; discriminate.
  - apply app_inj_tail in E as [<- <-]. rewrite in_app_iff. cbn. intros [H|[H|[]]]; [left; exact H|right; symmetry; exact H].
Qed.

Lemma lacks_forall2 (cs' cs : list (list attr)) k :
  Forall2 (fun c' c => (forall y, In y c' -> In y c) /\ (forall y, In y c -> key y <> k -> In y c')
                       /\ (NoDup (keys c) -> NoDup (keys c'))) cs' cs ->
  forall k', (exists c, In c cs /\ ~ In k' (keys c)) -> exists c', In c' cs' /\ ~ In k' (keys c').
Proof.
  induction 1 as [|c' c l' l [Hs _] _ IH]; intros k' [c0 [Hin Hn]]; [contradiction|].
  destruct Hin as [<-|Hin].
  - exists c'. split; [left; reflexivity|]. intros Hk. apply Hn. unfold keys in *. apply in_map_iff in Hk as [y [E Hy]].
    apply in_map_iff. exists y. split; [exact E|]. apply Hs. exact Hy.
  - destruct (IH k') as [c1 [H1 H2]]; [exists c0; auto|]. exists c1. split; [right; exact H1|exact H2].
Qed.

Lemma reduce_loop_spec : forall srt cs res,
  NoDup (keys srt) ->
  Forall (fun c => NoDup (keys c)) cs ->
  (forall r, In r res -> ~ In (key r) (keys srt)) ->
  NoDup (keys res) ->
  let out := reduce_loop srt cs res in
  NoDup (keys out)
  /\ persists res out
  /\ (forall c y, In c cs -> In y c -> In (key y) (keys srt) ->
        exists r', In r' out /\ key r' = key y /\ dominates r' y)
  /\ (forall r', In r' out ->
        (exists r, In r res /\ key r = key r') \/
        (In (key r') (keys srt) /\ ((exists c, In c cs /\ ~ In (key r') (keys c)) -> a_min r' = 0))).
Proof.
  induction srt as [|a srt IH]; intros cs res NDs NDc Dis NDr; cbn.
  - repeat split; auto.
    + apply persists_refl.
    + intros c y _ _ [].
    + intros r' H. left. exists r'. auto.
  - destruct (reduce_pass a cs None false) as [[cs' cur] opt] eqn:R.
    destruct (reduce_pass_spec a _ _ _ _ _ _ R) as [F2 [_ [Hy [Hn [_ Hl]]]]].
    inversion NDs as [|? ? Ha NDs']; subst.
    set (res1 := match cur with Some x => res ++ [x] | None => res end).
    set (res2 := if opt then set_last_min0 res1 else res1).
    assert (Kcur : forall x, cur = Some x -> key x = key a) by (intros x E; apply (Hn eq_refl x E)).
    assert (K2 : keys res2 = keys res1) by (unfold res2; destruct opt; [apply set_last_min0_keys|reflexivity]).
    assert (ND1 : NoDup (keys res1)).
    { unfold res1. destruct cur as [x|]; [|exact NDr]. apply NoDup_keys_app; auto.
      - cbn. constructor; [intros []|constructor].
      - intros k Hk [E|[]]. apply in_map_iff in Hk as [r [Er Hr]]. apply (Dis r Hr). left. rewrite <- (Kcur x eq_refl). cbn in E. congruence. }
    assert (P12 : persists res res2).
    { eapply persists_trans with (b := res1).
      - unfold res1. destruct cur; [apply persists_app|apply persists_refl].
      - unfold res2. destruct opt; [apply persists_min0|apply persists_refl]. }
    assert (NDc' : Forall (fun c => NoDup (keys c)) cs').
    { clear - F2 NDc. induction F2 as [|c' c l' l [_ [_ Hnd]] _ IHf]; [constructor|]. inversion NDc; subst. constructor; auto. }
    assert (Dis2 : forall r, In r res2 -> ~ In (key r) (keys srt)).
    { intros r Hr Hk. assert (In (key r) (keys res1)) by (rewrite <- K2; apply in_map; exact Hr).
      unfold res1 in H. destruct cur as [x|].
      - unfold keys in H. rewrite map_app in H. apply in_app_iff in H as [H|[E|[]]].
        + apply in_keys in H as [r0 [H0 E0]]. apply (Dis r0 H0). right. rewrite E0. exact Hk.
        + apply Ha. rewrite <- (Kcur x eq_refl). cbn in E. rewrite E. exact Hk.
      - apply in_keys in H as [r0 [H0 E0]]. apply (Dis r0 H0). right. rewrite E0. exact Hk. }
    assert (ND2 : NoDup (keys res2)) by (rewrite K2; exact ND1).
    destruct (IH cs' res2 NDs' NDc' Dis2 ND2) as [O1 [O2 [O3 O4]]].
    fold res1. fold res2. split; [exact O1|]. split; [eapply persists_trans; eauto|]. split.
    + intros c y Hc Hyc [Ek|Hk].
      * (* the key handled now *)
        assert (NDy : NoDup (keys c)) by (rewrite Forall_forall in NDc; apply NDc; exact Hc).
        destruct (Hy c y Hc Hyc (eq_sym Ek) NDy) as [t' [Et' Dt']].
        assert (In t' res1) by (unfold res1; rewrite Et'; apply in_or_app; right; left; reflexivity).
        assert (P1 : persists res1 res2) by (unfold res2; destruct opt; [apply persists_min0|apply persists_refl]).
        destruct (P1 t' H) as [t2 [I2 [K2' [M2 [L2 T2]]]]]. destruct (O2 t2 I2) as [t3 [I3 [K3 [M3 [L3 T3]]]]].
        exists t3. split; [exact I3|]. split; [rewrite K3, K2', (Kcur t' Et'); exact Ek|].
        destruct Dt' as [D1 [D2 D3]]. split; [lia|]. split; [lia|]. rewrite T3, T2. exact D3.
      * (* a later key: the attr is still in its class *)
        assert (Ne : key y <> key a) by (intros E; apply Ha; rewrite <- E; exact Hk).
        assert (Hc' : exists c', In c' cs' /\ In y c').
        { clear - F2 Hc Hyc Ne.
          induction F2 as [|c' c0 l' l [_ [Hkeep _]] F2' IHf]; [contradiction|].
          destruct Hc as [<-|Hc].
          - exists c'. split; [left; reflexivity|apply Hkeep; auto].
          - destruct (IHf Hc) as [c1 [H1 H2]]. exists c1. split; [right; exact H1|exact H2]. }
        destruct Hc' as [c' [Hc1 Hc2]]. apply (O3 c' y Hc1 Hc2 Hk).
    + intros r' Hr'. destruct (O4 r' Hr') as [[r [Hr Er]]|[Hk Hm]].
      * (* came from res2 *)
        assert (Hr1 : In (key r) (keys res1)) by (rewrite <- K2; apply in_map; exact Hr).
        unfold res1 in Hr1. destruct cur as [x|] eqn:Ecur.
        -- unfold keys in Hr1. rewrite map_app in Hr1. apply in_app_iff in Hr1 as [H|[E|[]]].
           ++ left. apply in_keys in H as [r0 [H0 E0]]. exists r0. split; [exact H0|congruence].
           ++ right. split; [left; rewrite <- (Kcur x eq_refl); cbn in E; congruence|].
              intros Hlack. assert (opt = true) as ->.
              { apply Hl. destruct Hlack as [c [Hc Hn']]. exists c. split; [exact Hc|].
                rewrite <- (Kcur x eq_refl). cbn in E. rewrite E, Er. exact Hn'. }
              (* r is the last entry, whose min was set to 0; later steps only lower *)
              unfold res2, res1 in Hr. apply set_last_min0_last in Hr as [Hr | ->].
              ** exfalso. apply (Dis r Hr). left. rewrite <- (Kcur x eq_refl). cbn in E. congruence.
              ** destruct (O2 (set_min0 x)) as [r2 [I2 [K2' [_ L2]]]].
                 { unfold res2, res1. destruct (set_last_min0_spec (res ++ [x])) as [[E' _]|[r0 [a0 [E' ->]]]].
                   - destruct res; discriminate.
                   - apply app_inj_tail in E' as [<- <-]. apply in_or_app. right. left. reflexivity. }
                 destruct L2 as [L2 _]. cbn in L2. assert (r2 = r').
                 { eapply NoDup_keys_inj; [exact O1|exact I2|exact Hr'|]. rewrite K2'. exact Er. }
                 subst. lia.
        -- left. apply in_keys in Hr1 as [r0 [H0 E0]]. exists r0. split; [exact H0|congruence].
      * right. split; [right; exact Hk|]. intros Hlack. apply Hm. eapply lacks_forall2; eauto.
Qed.

(* ------------------------------------------------------------------ reduce_attributes *)
Theorem reduce_attributes_spec cs :
  Forall (fun c => NoDup (keys c)) cs ->
  let out := reduce_attributes cs in
  NoDup (keys out)
  /\ (forall c y, In c cs -> In y c -> exists r, In r out /\ key r = key y /\ dominates r y)
  /\ (forall r, In r out -> forall c, In c cs -> ~ In (key r) (keys c) -> a_min r = 0)
  /\ (forall r, In r out -> exists c y, In c cs /\ In y c /\ key y = key r).
Proof.
  intros ND. unfold reduce_attributes. set (cs' := sort_desc cs).
  assert (P : Permutation cs' cs) by apply sort_desc_perm.
  assert (ND' : Forall (fun c => NoDup (keys c)) cs') by (eapply Permutation_Forall; [apply Permutation_sym; exact P|exact ND]).
  destruct (reduce_loop_spec (sorted_attrs cs') cs' [] (sorted_attrs_nodup _ ND') ND') as [O1 [_ [O3 O4]]];
    [intros r []|constructor|].
  split; [exact O1|]. split; [|split].
  - intros c y Hc Hy. apply (Permutation_in _ (Permutation_sym P)) in Hc.
    apply (O3 c y Hc Hy). eapply sorted_attrs_cover; eauto.
  - intros r Hr c Hc Hn. destruct (O4 r Hr) as [[r0 [[] _]]|[_ Hm]]. apply Hm. exists c. split; [|exact Hn].
    apply (Permutation_in _ (Permutation_sym P)). exact Hc.
  - intros r Hr. destruct (O4 r Hr) as [[r0 [[] _]]|[Hk _]].
    unfold sorted_attrs in Hk.
    assert (G : forall l acc k, In k (keys (fold_left (fun acc c => scan acc [] c) l acc)) ->
                  In k (keys acc) \/ exists c y, In c l /\ In y c /\ key y = k).
    { clear. induction l as [|c l IH]; intros acc k H; cbn in H; [left; exact H|].
      apply IH in H as [H|[c0 [y [H1 [H2 H3]]]]].
      - apply in_map_iff in H as [y [E Hy]]. apply scan_from in Hy as [Hy|[[]|Hy]].
        + left. rewrite <- E. apply in_map. exact Hy.
        + right. exists c, y. repeat split; auto. left. reflexivity.
      - right. exists c0, y. repeat split; auto. right. exact H1. }
    apply G in Hk as [[]|[c [y [H1 [H2 H3]]]]]. exists c, y. repeat split; auto.
    apply (Permutation_in _ P). exact H1.
Qed.

(* ------------------------------------------------------------------ group_by_qname *)
Lemma str_eqb_neq a b : str_eqb a b = false <-> a <> b.
Proof. destruct (str_eqb_spec a b); split; congruence. Qed.

Lemma group_add_fst gs c :
  map fst (group_add gs c) = if existsb (fun q => str_eqb q (c_qname c)) (map fst gs) then map fst gs else map fst gs ++ [c_qname c].
Proof.
  induction gs as [|[q l] r IH]; cbn; [reflexivity|].
  destruct (str_eqb q (c_qname c)) eqn:E; cbn; [reflexivity|]. rewrite IH.
  destruct (existsb _ (map fst r)); reflexivity.
Qed.

Lemma group_add_nodup gs c : NoDup (map fst gs) -> NoDup (map fst (group_add gs c)).
Proof.
  intros ND. rewrite group_add_fst. destruct (existsb _ (map fst gs)) eqn:E; [exact ND|].
  assert (~ In (c_qname c) (map fst gs)).
  { intros H. assert (existsb (fun q => str_eqb q (c_qname c)) (map fst gs) = true); [|congruence].
    apply existsb_exists. exists (c_qname c). split; [exact H|apply str_eqb_refl]. }
  clear E. induction (map fst gs) as [|k r IH]; cbn; [constructor; [intros []|constructor]|].
  inversion ND; subst. constructor.
  - rewrite in_app_iff. intros [Hk|[Hk|[]]]; [contradiction|]. apply H. left. symmetry. exact Hk.
  - apply IH; auto. intros Hk. apply H. right. exact Hk.
Qed.

Lemma group_add_from gs c q g : In (q, g) (group_add gs c) ->
  In (q, g) gs \/ (q = c_qname c /\ (g = [c] \/ exists g0, In (q, g0) gs /\ g = g0 ++ [c])).
Proof.
  induction gs as [|[q' l] r IH]; cbn.
  - intros [[= <- <-]|[]]. right. split; [reflexivity|left; reflexivity].
  - destruct (str_eqb q' (c_qname c)) eqn:E; cbn.
    + apply str_eqb_eq in E. intros [[= <- <-]|H]; [|left; right; exact H].
      right. split; [exact E|]. right. exists l. split; [left; reflexivity|reflexivity].
    + intros [[= <- <-]|H]; [left; left; reflexivity|].
      apply IH in H as [H|[E1 [E2|[g0 [H0 E2]]]]]; [left; right; exact H|right; auto|].
      right. split; [exact E1|]. right. exists g0. split; [right; exact H0|exact E2].
Qed.

Lemma group_add_keep gs c q g : In (q, g) gs -> NoDup (map fst gs) ->
  (q <> c_qname c -> In (q, g) (group_add gs c)) /\ (q = c_qname c -> In (q, g ++ [c]) (group_add gs c)).
Proof.
  induction gs as [|[q' l] r IH]; cbn; [contradiction|]. intros [[= -> ->]|H] ND; inversion ND; subst.
  - destruct (str_eqb q (c_qname c)) eqn:E.
    + apply str_eqb_eq in E. split; [contradiction|]. intros _. left. reflexivity.
    + apply str_eqb_neq in E. split; [intros _; left; reflexivity|contradiction].
  - destruct (IH H H3) as [I1 I2]. destruct (str_eqb q' (c_qname c)) eqn:E.
    + apply str_eqb_eq in E. split.
      * intros _. right. exact H.
      * intros ->. exfalso. apply H2. rewrite E. change (c_qname c) with (fst (c_qname c, g)). apply in_map. exact H.
    + split; intros Hq; right; auto.
Qed.

Lemma group_add_has gs c : exists g, In (c_qname c, g) (group_add gs c) /\ In c g.
Proof.
  induction gs as [|[q' l] r IH]; cbn.
  - exists [c]. split; left; reflexivity.
  - destruct (str_eqb q' (c_qname c)) eqn:E.
    + apply str_eqb_eq in E. subst. exists (l ++ [c]). split; [left; reflexivity|apply in_or_app; right; left; reflexivity].
    + destruct IH as [g [H1 H2]]. exists g. split; [right; exact H1|exact H2].
Qed.

Lemma group_by_spec_aux cs : forall gs done,
  NoDup (map fst gs) ->
  (forall q g, In (q, g) gs -> g <> [] /\ forall c, In c g -> c_qname c = q /\ In c done) ->
  (forall c, In c done -> exists g, In (c_qname c, g) gs /\ In c g) ->
  let out := fold_left group_add cs gs in
  NoDup (map fst out)
  /\ (forall q g, In (q, g) out -> g <> [] /\ forall c, In c g -> c_qname c = q /\ In c (done ++ cs))
  /\ (forall c, In c (done ++ cs) -> exists g, In (c_qname c, g) out /\ In c g).
Proof.
  induction cs as [|c cs IH]; intros gs done ND I2 I3; cbn.
  - rewrite app_nil_r. auto.
  - replace (done ++ c :: cs) with ((done ++ [c]) ++ cs) by (rewrite <- app_assoc; reflexivity).
    apply IH.
    + apply group_add_nodup. exact ND.
    + intros q g H. apply group_add_from in H as [H|[-> [->|[g0 [H0 ->]]]]].
      * destruct (I2 q g H) as [Hne Hc]. split; [exact Hne|]. intros c0 Hc0. destruct (Hc c0 Hc0). split; auto.
        apply in_or_app. left. assumption.
      * split; [discriminate|]. intros c0 [<-|[]]. split; [reflexivity|apply in_or_app; right; left; reflexivity].
      * destruct (I2 _ _ H0) as [_ Hc]. split; [destruct g0; discriminate|]. intros c0 Hc0.
        apply in_app_iff in Hc0 as [Hc0|[<-|[]]].
        -- destruct (Hc c0 Hc0). split; auto. apply in_or_app. left. assumption.
        -- split; [reflexivity|apply in_or_app; right; left; reflexivity].
    + intros c0 Hc0. apply in_app_iff in Hc0 as [Hc0|[<-|[]]]; [|apply group_add_has].
      destruct (I3 c0 Hc0) as [g [H1 H2]]. destruct (group_add_keep gs c _ _ H1 ND) as [K1 K2].
      destruct (str_eqb_spec (c_qname c0) (c_qname c)) as [E|E].
      * exists (g ++ [c]). split; [apply K2; exact E|apply in_or_app; left; exact H2].
      * exists g. split; [apply K1; exact E|exact H2].
Qed.

Lemma group_by_spec cs :
  let out := group_by_qname cs in
  NoDup (map fst out)
  /\ (forall q g, In (q, g) out -> g <> [] /\ forall c, In c g -> c_qname c = q /\ In c cs)
  /\ (forall c, In c cs -> exists g, In (c_qname c, g) out /\ In c g).
Proof.
  unfold group_by_qname. apply (group_by_spec_aux cs [] []); [constructor|intros q g []|intros c []].
Qed.

(* ------------------------------------------------------------------ reduce_classes *)
Lemma cleanup_keys l : keys (map cleanup_attr l) = keys l.
Proof. unfold keys. rewrite map_map. reflexivity. Qed.

Lemma reduce_group_qname q g r :
  (forall c, In c g -> c_qname c = q) -> reduce_group g = Some r -> c_qname r = q.
Proof.
  destruct g as [|f g]; cbn; [discriminate|]. intros H [= <-]. cbn. apply H. left. reflexivity.
Qed.

Lemma reduce_classes_qnames cs : map c_qname (reduce_classes cs) = map fst (group_by_qname cs).
Proof.
  unfold reduce_classes. destruct (group_by_spec cs) as [_ [H _]].
  induction (group_by_qname cs) as [|[q g] r IH]; cbn; [reflexivity|].
  destruct (H q g (or_introl eq_refl)) as [Hne Hq].
  destruct g as [|f g]; [contradiction|]. cbn. f_equal.
  - apply Hq. left. reflexivity.
  - apply IH. intros q' g' H'. apply H. right. exact H'.
Qed.

Lemma find_class_unique cs r : NoDup (map c_qname cs) -> In r cs -> find_class cs (c_qname r) = Some r.
Proof.
  unfold find_class. induction cs as [|x cs IH]; cbn; [contradiction|]. intros ND [->|H]; inversion ND; subst.
  - rewrite str_eqb_refl. reflexivity.
  - destruct (str_eqb (c_qname x) (c_qname r)) eqn:E.
    + apply str_eqb_eq in E. exfalso. apply H2. rewrite E. apply in_map. exact H.
    + apply IH; assumption.
Qed.

(* cleanup_class / filter_types: a type survives unless its name is one of the removable datatypes *)
Notation removable_q := removable_qname.

Definition dominates_c (r y : attr) : Prop :=
  a_max y <= a_max r /\ a_min r <= a_min y
  /\ (forall q, tmem q (a_types y) = true -> tmem q (a_types r) = true \/ removable_q q = true).

Lemma tmem_filter_keep q p l :
  (forall u, In u l -> ty_qname u = q -> p u = true) -> tmem q l = true -> tmem q (filter p l) = true.
Proof.
  intros Hp H. unfold tmem in *. apply existsb_exists in H as [u [Hu Eu]]. apply existsb_exists. exists u.
  split; [|exact Eu]. apply filter_In. split; [exact Hu|]. apply Hp; [exact Hu|]. apply str_eqb_eq. exact Eu.
Qed.

Lemma is_datatype_in_removable members u :
  (forall m, In m members -> In m (filter_always ++ filter_when_many)) ->
  is_datatype_in members u = true -> removable_q (ty_qname u) = true.
Proof.
  intros Hm H. unfold is_datatype_in in H. apply andb_true_iff in H as [_ H]. apply existsb_exists in H as [m [H1 H2]].
  unfold removable_qname. apply existsb_exists. exists m. split; [apply Hm; exact H1|exact H2].
Qed.

Lemma filter_types_keeps q l : tmem q l = true -> tmem q (filter_types l) = true \/ removable_q q = true.
Proof.
  intros H. destruct (removable_q q) eqn:R; [right; reflexivity|left].
  unfold filter_types.
  set (t1 := unique_types l).
  set (t2 := filter (fun t => negb (is_datatype_in filter_always t)) t1).
  set (t3 := if (1 <? length t2)%nat then filter (fun t => negb (is_datatype_in filter_when_many t)) t2 else t2).
  assert (H1 : tmem q t1 = true) by (unfold t1; rewrite tmem_unique; exact H).
  assert (H2 : tmem q t2 = true).
  { unfold t2. apply tmem_filter_keep; [|exact H1]. intros u _ Eu. apply negb_true_iff.
    destruct (is_datatype_in filter_always u) eqn:D; [|reflexivity].
    apply is_datatype_in_removable in D; [congruence|]. intros m Hm. apply in_or_app. left. exact Hm. }
  assert (H3 : tmem q t3 = true).
  { unfold t3. destruct (1 <? length t2)%nat; [|exact H2]. apply tmem_filter_keep; [|exact H2]. intros u _ Eu. apply negb_true_iff.
    destruct (is_datatype_in filter_when_many u) eqn:D; [|reflexivity].
    apply is_datatype_in_removable in D; [congruence|]. intros m Hm. apply in_or_app. right. exact Hm. }
  destruct t3 as [|u r]; [discriminate|exact H3].
Qed.

Lemma dominates_cleanup r y : dominates r y -> dominates_c (cleanup_attr r) y.
Proof.
  intros [D1 [D2 D3]]. split; [exact D1|]. split; [exact D2|]. intros q Hq. cbn. apply filter_types_keeps. apply D3. exact Hq.
Qed.

Theorem reduce_classes_spec all :
  Forall (fun c => NoDup (keys (c_attrs c))) all ->
  forall c, In c all ->
  exists r, find_class (reduce_classes all) (c_qname c) = Some r
    /\ NoDup (keys (c_attrs r))
    /\ (c_mixed c = true -> c_mixed r = true)
    /\ (forall y, In y (c_attrs c) -> exists ry, In ry (c_attrs r) /\ key ry = key y /\ dominates_c ry y)
    /\ (forall ry, In ry (c_attrs r) -> ~ In (key ry) (keys (c_attrs c)) -> a_min ry = 0)
    /\ (forall ry, In ry (c_attrs r) -> exists c' y, In c' all /\ c_qname c' = c_qname c /\ In y (c_attrs c') /\ key y = key ry)
    /\ (exists f, In f all /\ c_qname f = c_qname c
                 /\ (c_ns r = c_ns f \/ (c_ns f = None /\ c_ns r = Some []))
                 /\ (c_ns r = None -> c_ns c <> Some []))
    /\ (c_nillable c = true -> c_nillable r = true).
Proof.
  intros ND c Hc. destruct (group_by_spec all) as [G1 [G2 G3]].
  destruct (G3 c Hc) as [g [Hg Hcg]]. destruct (G2 _ _ Hg) as [Hne Hq].
  destruct g as [|f g']; [contradiction|]. set (g := f :: g') in *.
  set (r := mk_fclass (c_qname f) (group_ns g f) (existsb c_mixed g) (existsb c_nillable g)
                      (map cleanup_attr (reduce_attributes (map c_attrs g)))).
  assert (Hr : In r (reduce_classes all)).
  { unfold reduce_classes. apply in_flat_map. exists (c_qname c, g). split; [exact Hg|]. cbn. left. reflexivity. }
  assert (Eq : c_qname r = c_qname c) by (cbn; apply Hq; left; reflexivity).
  exists r. split.
  { rewrite <- Eq. apply find_class_unique; [|exact Hr]. rewrite reduce_classes_qnames. exact G1. }
  assert (NDg : Forall (fun c0 => NoDup (keys c0)) (map c_attrs g)).
  { apply Forall_forall. intros l Hl. apply in_map_iff in Hl as [c0 [<- H0]]. rewrite Forall_forall in ND. apply ND.
    apply (Hq c0 H0). }
  destruct (reduce_attributes_spec _ NDg) as [R1 [R2 [R3 R4]]].
  split; [cbn; rewrite cleanup_keys; exact R1|]. split; [|split; [|split; [|split; [|split]]]].
  - intros Hm. change (existsb c_mixed g = true). apply existsb_exists. exists c. auto.
  - intros y Hy. destruct (R2 (c_attrs c) y) as [ry [I1 [K1 D1]]]; [apply in_map; exact Hcg|exact Hy|].
    exists (cleanup_attr ry). split; [cbn; apply in_map; exact I1|]. split; [exact K1|apply dominates_cleanup; exact D1].
  - intros ry Hry Hn. cbn in Hry. apply in_map_iff in Hry as [r0 [<- H0]]. cbn.
    apply (R3 r0 H0 (c_attrs c)); [apply in_map; exact Hcg|exact Hn].
  - intros ry Hry. cbn in Hry. apply in_map_iff in Hry as [r0 [<- H0]].
    destruct (R4 r0 H0) as [l [y [Hl [Hy Ky]]]]. apply in_map_iff in Hl as [c' [<- Hc']].
    exists c', y. destruct (Hq c' Hc') as [Q1 Q2]. repeat split; auto.
  - exists f. destruct (Hq f (or_introl eq_refl)) as [Q1 Q2]. split; [exact Q2|]. split; [exact Q1|].
    change (c_ns r) with (group_ns g f). unfold group_ns. split.
    + destruct (c_ns f) as [u|]; [left; reflexivity|].
      destruct (existsb (fun c0 => match c_ns c0 with Some [] => true | _ => false end) g); [right; auto|left; reflexivity].
    + destruct (c_ns f) as [u|]; [discriminate|].
      destruct (existsb (fun c0 => match c_ns c0 with Some [] => true | _ => false end) g) eqn:Ex; [discriminate|].
      intros _ Hc0. assert (existsb (fun c0 => match c_ns c0 with Some [] => true | _ => false end) g = true); [|congruence].
      apply existsb_exists. exists c. split; [exact Hcg|]. rewrite Hc0. reflexivity.
  - intros Hn. change (existsb c_nillable g = true). apply existsb_exists. exists c. auto.
Qed.
