(* Proofs/ReaderAgree.v — the two handlers produce the same outcome (C08_handlers_agree):
   `native_parse` (the native handler's loop coupled with the parser it feeds, Model/Reader.v)
   equals `lxml_parse` on every document whose elements do not declare a prefix twice and in
   which no namespace declaration occurs below an element bound through a UnionNode.

   Proof: structural induction over the document.  The native loop and the parser fed by the
   lxml pump are kept in the simulation relation of Proofs/ParserNs.v instantiated with
   lookup-equivalence; the stack of maps the native handler reads (`n_aux`) is tied to the
   parser's queue by `base` (one entry per entry of the REAL queue: a UnionNode counts
   level+1 times), which start / end push and pop like a stack. *)
From Coq Require Import NArith ZArith List Bool Arith Lia.
From XV Require Import Base.Str Base.Eqb Base.PyInt Model.Bind Model.Parser Model.ParserCorr Spec.Inject
  Model.Reader Model.ReaderCorr Proofs.ParserSkip Proofs.ParserNs Proofs.ReaderMaps.
Import ListNotations.

(* the converter reads a prefix map only through lookups (QNameConverter.resolve: ns_map.get) *)
Definition conv_lookup_only (c : conv) : Prop :=
  forall a b tys fmt s, ns_equiv a b -> c_deser c tys fmt a s = c_deser c tys fmt b s.

(* ---------------------------------------------------------------- the real queue, by kind *)
Inductive kind := KSkip | KUnion (ns : nsmap) | KOther.

Definition node_kinds (n : node) : list kind :=
  match n with
  | NSkip => [KSkip]
  | NUnion un => repeat (KUnion (un_ns un)) (S (un_level un))
  | _ => [KOther]
  end.
Definition base (q : list node) : list kind := flat_map node_kinds q.
Definition kind_top (q : list node) : kind :=
  match q with
  | NSkip :: _ => KSkip
  | NUnion un :: _ => KUnion (un_ns un)
  | _ => KOther
  end.

Lemma base_cons n q : base (n :: q) = node_kinds n ++ base q.
Proof. reflexivity. Qed.

Lemma base_top n q : exists r, base (n :: q) = kind_top (n :: q) :: r.
Proof. rewrite base_cons. destruct n; cbn [node_kinds kind_top repeat app]; eauto. Qed.

Section Fresh.
  Variable c : conv.
  Variable u : universe.

  Lemma build_element_node_not_union p cl d nl attrs ns pos df xt xn un0 :
    build_element_node c u p cl d nl attrs ns pos df xt xn <> ROk (Some (NUnion un0)).
  Proof.
    unfold build_element_node. destruct (fetch c u cl xt); cbn [rbind]; [|discriminate].
    destruct (match xn with Some b => negb (Bool.eqb (nl || m_nillable a) b) | None => false end); discriminate.
  Qed.

  Lemma build_node_fresh en q var attrs ns pos un :
    build_node c u en q var attrs ns pos = ROk (Some (NUnion un)) -> un_level un = O /\ un_ns un = ns.
  Proof.
    intros Hb. unfold build_node in Hb. destruct (v_is_clazz_union var).
    - destruct (filter_candidates c u attrs (v_types var)); cbn [rbind] in Hb; [|discriminate].
      injection Hb as <-. split; reflexivity.
    - exfalso. destruct (xsi_type_of c attrs ns) as [xt|]; cbn [rbind] in Hb; [|discriminate].
      destruct (v_clazz var); [exact (build_element_node_not_union _ _ _ _ _ _ _ _ _ _ _ Hb)|].
      destruct (negb (v_any_type var) && negb (v_is KWildcard var)); [discriminate|].
      destruct (match xt with Some x => c_from_qname c x | None => None end) as [[[ty fmt] wr]|]; [discriminate|].
      destruct (match xt with Some x => ctx_find_type c u x | None => None end) as [cl|].
      + destruct (build_element_node c u en cl (v_is KWildcard var) (v_nillable var) attrs ns pos true xt (xsi_nil_of attrs))
          as [[n1|]|k] eqn:H1; cbn [rbind] in Hb;
          [injection Hb as ->; exact (build_element_node_not_union _ _ _ _ _ _ _ _ _ _ _ H1)| |discriminate].
        destruct (if negb (str_eqb (v_process_contents var) s_skip) then ctx_find_type c u q else Some cl) as [cl'|];
          cbn [rbind] in Hb; [|discriminate].
        destruct (build_element_node c u en cl' false (v_nillable var) attrs ns pos false xt (xsi_nil_of attrs))
          as [[n2|]|k] eqn:H2; cbn [rbind] in Hb;
          [injection Hb as ->; exact (build_element_node_not_union _ _ _ _ _ _ _ _ _ _ _ H2)|discriminate|discriminate].
      + cbn [rbind] in Hb.
        destruct (if negb (str_eqb (v_process_contents var) s_skip) then ctx_find_type c u q else None) as [cl'|];
          cbn [rbind] in Hb; [|discriminate].
        destruct (build_element_node c u en cl' false (v_nillable var) attrs ns pos false xt (xsi_nil_of attrs))
          as [[n2|]|k] eqn:H2; cbn [rbind] in Hb;
          [injection Hb as ->; exact (build_element_node_not_union _ _ _ _ _ _ _ _ _ _ _ H2)|discriminate|discriminate].
  Qed.

  Lemma child_loop_fresh_ns en q attrs ns pos w vars n en2 :
    child_loop c u en q attrs ns pos w vars = ROk (Some (n, en2)) ->
    forall un, n = NUnion un -> un_level un = O /\ un_ns un = ns.
  Proof.
    induction vars as [|var rest IH]; cbn [child_loop]; [discriminate|].
    destruct (wrapper_mismatch w var); [exact IH|].
    match goal with |- context [if ?x then _ else _] => destruct x end; [|exact IH].
    destruct (build_node c u en q var attrs ns pos) as [[n0|]|k] eqn:Hb; cbn [rbind]; [|exact IH|discriminate].
    intros H un E. injection H as <- _. subst n0. exact (build_node_fresh _ _ _ _ _ _ _ Hb).
  Qed.

  Lemma element_child_fresh_ns cfg en q attrs ns pos w n en2 :
    element_child cfg c u en q attrs ns pos w = ROk (n, en2) ->
    node_kinds n = [kind_top [n]] /\ (forall un, n = NUnion un -> un_ns un = ns).
  Proof.
    unfold element_child.
    destruct (child_loop c u en q attrs ns pos w (find_children (en_meta en) q)) as [[[n0 e0]|]|k] eqn:Hl; cbn [rbind];
      [| |discriminate].
    - intros H. injection H as <- _. split.
      + destruct n0; try reflexivity. cbn [node_kinds kind_top].
        rewrite (proj1 (child_loop_fresh_ns _ _ _ _ _ _ _ _ _ Hl un eq_refl)). reflexivity.
      + intros un E. exact (proj2 (child_loop_fresh_ns _ _ _ _ _ _ _ _ _ Hl un E)).
    - destruct (fail_unknown_props cfg); [discriminate|]. intros H. injection H as <- _.
      split; [reflexivity|intros; discriminate].
  Qed.
End Fresh.

Section Base.
  Variable cfg : pconfig.
  Variable c : conv.
  Variable u : universe.
  Variable replay : pconfig -> option cls -> list pevent -> outcome.
  Variable root : option cls.

  (* NodeParser.start pushes exactly one entry on the real queue; a new UnionNode carries the
     map of the start event, a UnionNode that receives a child keeps its own *)
  Lemma start_base st q a ns st' :
    start cfg c u root st q a ns = ROk st' ->
    base (st_queue st') = kind_top (st_queue st') :: base (st_queue st)
    /\ (forall un Q, st_queue st' = NUnion un :: Q ->
          un_ns un = ns \/ exists un0 Q0, st_queue st = NUnion un0 :: Q0 /\ un_ns un = un_ns un0).
  Proof.
    unfold start. destruct (st_queue st) as [|n Q] eqn:Hq.
    - destruct (root_node c u root q a ns) as [nd|k] eqn:Hr; cbn [rbind]; [|discriminate].
      intros H. injection H as <-. unfold push. rewrite Hq. cbn [st_queue].
      unfold root_node in Hr. destruct (xsi_type_of c a ns); cbn [rbind] in Hr; [|discriminate].
      destruct (match root with Some r0 => Some r0 | None => _ end); [|discriminate].
      destruct (fetch c u c0 a0); cbn [rbind] in Hr; [|discriminate]. injection Hr as <-.
      split; [reflexivity|intros; discriminate].
    - destruct n as [en|m var ns0|m var ty fmt wr ns0 nl dv|var at_ ns0 pos|wq| |un0].
      + destruct (is_some (assoc q (m_wrappers (en_meta en)))).
        * intros H. injection H as <-. unfold push. rewrite Hq. cbn [st_queue]. split; [reflexivity|intros; discriminate].
        * destruct (element_child cfg c u en q a ns (length (st_objects st)) None) as [[nd en2]|k] eqn:Hc;
            cbn [rbind]; [|discriminate].
          intros H. injection H as <-. cbn [st_queue fst snd].
          destruct (element_child_fresh_ns c u cfg _ _ _ _ _ _ _ _ Hc) as [Hk Hu].
          split.
          -- rewrite base_cons, Hk. destruct nd; reflexivity.
          -- intros un Q0 E. injection E as E _. left. exact (Hu un E).
      + discriminate.
      + discriminate.
      + intros H. injection H as <-. unfold push. rewrite Hq. cbn [st_queue]. split; [reflexivity|intros; discriminate].
      + destruct Q as [|n2 Q2]; [discriminate|]. destruct n2 as [en| | | | | |]; try discriminate.
        destruct (element_child cfg c u en q a ns (length (st_objects st)) (Some wq)) as [[nd en2]|k] eqn:Hc;
          cbn [rbind]; [|discriminate].
        intros H. injection H as <-. cbn [st_queue fst snd].
        destruct (element_child_fresh_ns c u cfg _ _ _ _ _ _ _ _ Hc) as [Hk Hu].
        split.
        * rewrite base_cons, Hk. destruct nd; reflexivity.
        * intros un Q0 E. injection E as E _. left. exact (Hu un E).
      + intros H. injection H as <-. unfold push. rewrite Hq. cbn [st_queue]. split; [reflexivity|intros; discriminate].
      + intros H. injection H as <-. cbn [st_queue]. split.
        * rewrite !base_cons. cbn [node_kinds kind_top un_ns un_level repeat app]. reflexivity.
        * intros un Q0 E. injection E as <- _. right. exists un0, Q. split; reflexivity.
  Qed.

  (* NodeParser.end pops exactly one *)
  Lemma pend_base st q t tl st' :
    pend cfg c replay st q t tl = ROk st' ->
    base (st_queue st) = kind_top (st_queue st) :: base (st_queue st').
  Proof.
    unfold pend. destruct (st_queue st) as [|n Q] eqn:Hq; [discriminate|].
    assert (Hfin : forall x, finish_end Q st x = ROk st' -> st_queue st' = Q).
    { intros x. unfold finish_end. destruct x as [y|k]; cbn [rbind]; [|discriminate].
      intros E. injection E as <-. reflexivity. }
    destruct n as [en|m var ns0|m var ty fmt wr ns0 nl dv|var at_ ns0 pos|wq| |un0];
      try (intros H; rewrite (Hfin _ H); reflexivity);
      try (intros H; injection H as <-; reflexivity).
    destruct (un_level un0) as [|l] eqn:El.
    - destruct (union_bind cfg c replay un0 q t tl (st_objects st)); cbn [rbind]; [|discriminate].
      intros H. injection H as <-. cbn [st_queue]. rewrite base_cons. cbn [node_kinds kind_top]. rewrite El. reflexivity.
    - intros H. injection H as <-. cbn [st_queue]. rewrite !base_cons. cbn [node_kinds kind_top un_ns un_level].
      rewrite El. reflexivity.
  Qed.
End Base.

(* ---------------------------------------------------------------- the main induction *)
Section Agree.
  Variable cfg : pconfig.
  Variable c : conv.
  Variable u : universe.
  Variable root : option cls.
  Variable n : nat.
  Hypothesis Hconv : conv_lookup_only c.

  Local Notation replay := (replay_n n c u).
  Local Notation lrun := (run cfg c u replay root).
  Local Notation nloop := (native_loop cfg c u replay root).
  Local Notation nstep := (native_step cfg c u replay root).
  Local Notation gloop := (udf_loop cfg c u replay root).
  Local Notation srel := (st_rel ns_equiv).

  Lemma replay_equiv : forall cfg0 root0 evs evs',
    Forall2 (ev_rel ns_equiv) evs evs' -> replay cfg0 root0 evs = replay cfg0 root0 evs'.
  Proof. intros. apply (replay_n_R c u ns_equiv ns_equiv_lookup Hconv). assumption. Qed.

  Definition top_ok (ch : list nsmap) (aux : list nsmap) (b : list kind) : Prop :=
    match b with
    | [] => aux = [] /\ ch = []
    | KSkip :: _ => True
    | KUnion ns :: _ => (exists rest, aux = ns :: rest) /\ ns_equiv ns (lxml_nsmap ch)
    | KOther :: _ => exists a rest, aux = a :: rest /\ ns_equiv a (lxml_nsmap ch)
    end.

  Lemma top_ok_stack ch aux q : top_ok ch aux (base q) -> kind_top q <> KSkip -> stack_ok ch aux.
  Proof.
    destruct q as [|nd Q].
    - cbn [base flat_map top_ok]. intros [-> ->] _. reflexivity.
    - destruct (base_top nd Q) as [r ->]. destruct (kind_top (nd :: Q)) as [|ns|]; cbn [top_ok].
      + intros _ H. contradiction.
      + intros [[rest ->] H] _. exact H.
      + intros (a & rest & -> & H) _. exact H.
  Qed.

  Definition post (s s' : nstate) (pl' : pstate) : Prop :=
    n_pending s' = [] /\ srel (n_ps s') pl' /\ n_aux s' = n_aux s
    /\ base (st_queue (n_ps s')) = base (st_queue (n_ps s)).

  Definition agree_on (toks rest : list tok) (s : nstate) (pl : pstate) : Prop :=
    gloop s (toks ++ rest) = true ->
    (exists k out, nloop s (toks ++ rest) = inr (k, out) /\ lrun pl (lxml_pump (toks ++ rest)) = RErr k)
    \/ (exists s' pl', nloop s (toks ++ rest) = nloop s' rest
                       /\ lrun pl (lxml_pump (toks ++ rest)) = lrun pl' (lxml_pump rest)
                       /\ post s s' pl' /\ gloop s' rest = true).

  (* ---- the start-ns events of one element *)
  Definition ns_step (s : nstate) (kv : option str * str) : nstate :=
    mk_nstate (ns_set (fst kv) (snd kv) (n_pending s)) (n_aux s) (n_ps s)
              (register_ns (n_rec s) (fst kv) (snd kv)) (PStartNs (fst kv) (snd kv) :: n_out s).
  Definition after_ns (s : nstate) (d : nsmap) : nstate := fold_left ns_step d s.

  Lemma after_ns_fields d : forall s,
    n_pending (after_ns s d) = ns_update (n_pending s) d /\ n_aux (after_ns s d) = n_aux s /\ n_ps (after_ns s d) = n_ps s.
  Proof.
    unfold after_ns, ns_update. induction d as [|kv d IH]; intros s; cbn [fold_left]; [auto|].
    destruct (IH (ns_step s kv)) as (H1 & H2 & H3). rewrite H1, H2, H3. cbn [ns_step n_pending n_aux n_ps]. auto.
  Qed.

  Lemma nloop_ns d rest : forall s,
    nloop s (map (fun kv => TNs (fst kv) (snd kv)) d ++ rest) = nloop (after_ns s d) rest.
  Proof.
    unfold after_ns. induction d as [|kv d IH]; intros s; cbn [map app native_loop native_step fold_left]; [reflexivity|].
    apply IH.
  Qed.

  Lemma gloop_ns d rest : forall s,
    gloop s (map (fun kv => TNs (fst kv) (snd kv)) d ++ rest) = gloop (after_ns s d) rest.
  Proof.
    unfold after_ns. induction d as [|kv d IH]; intros s; cbn [map app udf_loop native_step fold_left andb]; [reflexivity|].
    apply IH.
  Qed.

  Lemma lrun_ns d rest pl :
    lrun pl (lxml_pump (map (fun kv => TNs (fst kv) (snd kv)) d ++ rest)) = lrun pl (lxml_pump rest).
  Proof.
    induction d as [|kv d IH]; cbn [map app]; [reflexivity|].
    unfold lxml_pump in *. cbn [map lxml_event run step rbind]. exact IH.
  Qed.

  (* ---- one start event *)
  Lemma pushed_ns_plain q ns : kind_top q = KOther -> q <> [] -> pushed_ns q ns = ns.
  Proof. destruct q as [|nd Q]; [contradiction|]. destruct nd; cbn [kind_top pushed_ns]; intros; try discriminate; reflexivity. Qed.

  Lemma start_agree ch d q a ps pl aux pend :
    pend = ns_update [] d -> nodup_keys d = true ->
    srel ps pl -> top_ok ch aux (base (st_queue ps)) ->
    negb (nonempty pend && top_is_union (st_queue ps)) = true ->
    match start cfg c u root ps q a (merge_parent aux pend), start cfg c u root pl q a (lxml_nsmap (d :: ch)) with
    | ROk ps', ROk pl' =>
        srel ps' pl'
        /\ base (st_queue ps') = kind_top (st_queue ps') :: base (st_queue ps)
        /\ top_ok (d :: ch) (pushed_ns (st_queue ps') (merge_parent aux pend) :: aux) (base (st_queue ps'))
    | RErr k, RErr k' => k = k'
    | _, _ => False
    end.
  Proof.
    intros Epend Hd Hs Htop Hg.
    destruct (st_queue ps) as [|nd Q] eqn:Hq.
    - (* root *)
      cbn [base flat_map top_ok] in Htop. destruct Htop as [-> ->].
      assert (Hns : ns_equiv (merge_parent [] pend) (lxml_nsmap [d])).
      { subst pend. apply merge_parent_equiv; [exact Hd|reflexivity]. }
      pose proof (start_R c u ns_equiv Hconv cfg root ps pl q a _ _ Hs Hns) as H.
      destruct (start cfg c u root ps q a (merge_parent [] pend)) as [ps'|k] eqn:E1,
               (start cfg c u root pl q a (lxml_nsmap [d])) as [pl'|k'] eqn:E2; cbn [res_rel] in H; try contradiction; [|exact H].
      split; [exact H|]. destruct (start_base cfg c u root ps q a _ ps' E1) as [Hb Hu]. rewrite Hq in Hb. cbn [base flat_map] in Hb.
      split; [exact Hb|]. rewrite Hb.
      destruct (st_queue ps') as [|nd' Q'] eqn:Hq'; [cbn [base flat_map] in Hb; discriminate|].
      destruct nd'; cbn [kind_top top_ok pushed_ns]; try (eexists _, _; split; [reflexivity|exact Hns]); [exact I|].
      split; [eauto|]. destruct (Hu _ _ eq_refl) as [->|(un0 & Q0 & E & _)]; [exact Hns|rewrite Hq in E; discriminate].
    - destruct (match nd with NSkip => true | _ => false end) eqn:Eskip.
      + (* inside a skipped subtree: the map is not read *)
        destruct nd; try discriminate.
        rewrite (start_on_skip cfg c u root ps q a _ Q Hq).
        assert (Hq2 : exists Q2, st_queue pl = NSkip :: Q2).
        { destruct Hs as (HQ & _ & _). rewrite Hq in HQ. inversion HQ as [|? nd2 ? Q2 Hn _]; subst.
          destruct nd2; cbn [node_rel] in Hn; try contradiction. eauto. }
        destruct Hq2 as [Q2 Hq2]. rewrite (start_on_skip cfg c u root pl q a _ Q2 Hq2).
        split; [apply st_rel_push; [exact I|exact Hs]|].
        unfold push. cbn [st_queue kind_top pushed_ns]. rewrite Hq. split; [reflexivity|]. rewrite base_cons. exact I.
      + assert (Hnskip : kind_top (nd :: Q) <> KSkip) by (destruct nd; cbn [kind_top]; discriminate).
        pose proof (top_ok_stack ch aux (nd :: Q) Htop Hnskip) as Hst.
        assert (Hns : ns_equiv (merge_parent aux pend) (lxml_nsmap (d :: ch))).
        { subst pend. apply merge_parent_equiv; assumption. }
        pose proof (start_R c u ns_equiv Hconv cfg root ps pl q a _ _ Hs Hns) as H.
        destruct (start cfg c u root ps q a (merge_parent aux pend)) as [ps'|k] eqn:E1,
                 (start cfg c u root pl q a (lxml_nsmap (d :: ch))) as [pl'|k'] eqn:E2; cbn [res_rel] in H; try contradiction; [|exact H].
        split; [exact H|]. destruct (start_base cfg c u root ps q a _ ps' E1) as [Hb Hu]. rewrite Hq in Hb.
        split; [exact Hb|]. rewrite Hb.
        destruct (st_queue ps') as [|nd' Q'] eqn:Hq'; [cbn [base flat_map] in Hb; discriminate|].
        destruct nd'; cbn [kind_top top_ok pushed_ns]; try (eexists _, _; split; [reflexivity|exact Hns]); [exact I|].
        split; [eauto|]. destruct (Hu _ _ eq_refl) as [->|(un0 & Q0 & E & Eun)]; [exact Hns|].
        (* a child of a union element: no declarations here *)
        rewrite Hq in E. injection E as -> ->. rewrite Eun.
        destruct (base_top (NUnion un0) Q0) as [r Er]. rewrite Er in Htop. cbn [kind_top top_ok] in Htop.
        destruct Htop as [_ Hun]. cbn [top_is_union] in Hg. rewrite andb_true_r in Hg. apply negb_true_iff in Hg.
        assert (Ed : d = []).
        { apply ns_update_nil_empty. rewrite <- Epend. destruct pend; [reflexivity|discriminate]. }
        subst d. eapply ns_equiv_trans; [exact Hun|apply lxml_nsmap_nil_decls].
  Qed.

  Definition elem_goal (e : xelem) : Prop :=
    forall ch rest s pl, decls_wf e = true -> n_pending s = [] -> srel (n_ps s) pl ->
      top_ok ch (n_aux s) (base (st_queue (n_ps s))) -> agree_on (flatten ch e) rest s pl.

  Lemma kids_agree ch' : forall ks, Forall elem_goal ks -> forallb decls_wf ks = true ->
    forall rest s pl, n_pending s = [] -> srel (n_ps s) pl ->
      top_ok ch' (n_aux s) (base (st_queue (n_ps s))) -> agree_on (flat_map (flatten ch') ks) rest s pl.
  Proof.
    induction ks as [|k ks IH]; intros HF Hwf rest s pl Hp Hs Ht Hg.
    - right. exists s, pl. cbn [flat_map app] in *. split; [reflexivity|]. split; [reflexivity|]. split; [|exact Hg].
      unfold post. auto.
    - inversion HF as [|? ? Hk HFr]; subst. cbn [forallb] in Hwf. apply andb_true_iff in Hwf as [Hwk Hwr].
      cbn [flat_map] in *. rewrite <- app_assoc in *.
      destruct (Hk ch' (flat_map (flatten ch') ks ++ rest) s pl Hwk Hp Hs Ht Hg) as [(k0 & out & E1 & E2)|(s1 & pl1 & E1 & E2 & Hpost & Hg1)].
      + left. eauto.
      + destruct Hpost as (Hp1 & Hs1 & Ha1 & Hb1).
        assert (Ht1 : top_ok ch' (n_aux s1) (base (st_queue (n_ps s1)))) by (rewrite Ha1, Hb1; exact Ht).
        destruct (IH HFr Hwr rest s1 pl1 Hp1 Hs1 Ht1 Hg1) as [(k0 & out & E3 & E4)|(s2 & pl2 & E3 & E4 & Hpost2 & Hg2)].
        * left. exists k0, out. rewrite E1, E2. auto.
        * right. exists s2, pl2. rewrite E1, E2. split; [exact E3|]. split; [exact E4|]. split; [|exact Hg2].
          destruct Hpost2 as (P1 & P2 & P3 & P4). unfold post.
          split; [exact P1|]. split; [exact P2|]. split; [rewrite P3; exact Ha1|rewrite P4; exact Hb1].
  Qed.

  Lemma elem_agree : forall e, elem_goal e.
  Proof.
    induction e as [q d a t ks tl IH] using xelem_ind'. intros ch rest s pl Hwf Hp Hs Ht Hg.
    cbn [decls_wf] in Hwf. apply andb_true_iff in Hwf as [Hd Hks].
    cbn [flatten] in *. rewrite <- app_assoc in *. cbn [app] in *. rewrite <- app_assoc in *. cbn [app] in *.
    rewrite nloop_ns, lrun_ns. rewrite gloop_ns in Hg.
    destruct (after_ns_fields d s) as (Ep & Ea & Eps). rewrite Hp in Ep.
    set (s1 := after_ns s d) in *.
    cbn [native_loop native_step]. unfold lxml_pump. cbn [map lxml_event run step]. fold (lxml_pump (flat_map (flatten (d :: ch)) ks ++ TEnd q t tl :: rest)).
    cbn [udf_loop native_step] in Hg. apply andb_true_iff in Hg as [Hbit Hg].
    assert (Hs1 : srel (n_ps s1) pl) by (rewrite Eps; exact Hs).
    assert (Ht1 : top_ok ch (n_aux s1) (base (st_queue (n_ps s1)))) by (rewrite Ea, Eps; exact Ht).
    pose proof (start_agree ch d q a (n_ps s1) pl (n_aux s1) (n_pending s1) Ep Hd Hs1 Ht1 Hbit) as Hst.
    destruct (start cfg c u root (n_ps s1) q a (merge_parent (n_aux s1) (n_pending s1))) as [ps'|k] eqn:E1,
             (start cfg c u root pl q a (lxml_nsmap (d :: ch))) as [pl'|k'] eqn:E2; try contradiction.
    2:{ left. subst k'. cbn [rbind]. eauto. }
    destruct Hst as (Hs' & Hb' & Ht'). cbn [rbind].
    set (s2 := mk_nstate [] (pushed_ns (st_queue ps') (merge_parent (n_aux s1) (n_pending s1)) :: n_aux s1) ps' (n_rec s1)
                         (PStart q a (merge_parent (n_aux s1) (n_pending s1)) :: n_out s1)) in *.
    destruct (kids_agree (d :: ch) ks IH Hks (TEnd q t tl :: rest) s2 pl' eq_refl Hs' Ht' Hg)
      as [(k0 & out & E3 & E4)|(s3 & pl3 & E3 & E4 & Hpost & Hg3)].
    - left. eauto.
    - rewrite E3, E4. destruct Hpost as (Hp3 & Hs3 & Ha3 & Hb3). cbn [n_aux n_ps s2] in Ha3, Hb3.
      cbn [native_loop native_step]. unfold lxml_pump. cbn [map lxml_event run step]. fold (lxml_pump rest).
      cbn [udf_loop native_step] in Hg3.
      pose proof (pend_R c ns_equiv ns_equiv_lookup Hconv cfg replay replay replay_equiv (n_ps s3) pl3 q t tl Hs3) as Hpe.
      destruct (pend cfg c replay (n_ps s3) q t tl) as [ps4|k] eqn:E5, (pend cfg c replay pl3 q t tl) as [pl4|k'] eqn:E6;
        cbn [res_rel] in Hpe; try contradiction.
      2:{ left. subst k'. cbn [rbind]. eauto. }
      right. cbn [rbind]. eexists _, pl4. split; [reflexivity|]. split; [reflexivity|]. split; [|exact Hg3].
      unfold post. cbn [n_pending n_ps n_aux]. split; [exact Hp3|]. split; [exact Hpe|]. split.
      + rewrite Ha3. cbn [List.tl]. exact Ea.
      + pose proof (pend_base cfg c replay (n_ps s3) q t tl ps4 E5) as Hpb. rewrite Hb3, Hb' in Hpb.
        injection Hpb as _ Hpb. rewrite <- Hpb, Eps. reflexivity.
  Qed.
End Agree.

(* ---------------------------------------------------------------- parse level *)
Theorem handlers_agree_n : forall n cfg c u root e,
  conv_lookup_only c -> decls_wf e = true ->
  union_decl_free_n n cfg c u root (doc_tokens e) = true ->
  native_parse_n n cfg c u root (doc_tokens e)
  = finish (run cfg c u (replay_n n c u) root init_state (lxml_pump (doc_tokens e))).
Proof.
  intros n cfg c u root e Hc Hwf Hg. unfold native_parse_n, union_decl_free_n, doc_tokens in *.
  assert (Hs : st_rel ns_equiv (n_ps native_init) init_state) by (repeat split; constructor).
  assert (Ht : top_ok [] (n_aux native_init) (base (st_queue (n_ps native_init)))) by (split; reflexivity).
  pose proof (elem_agree cfg c u root n Hc e [] [] native_init init_state Hwf eq_refl Hs Ht) as H.
  unfold agree_on in H. rewrite !app_nil_r in H.
  destruct (H Hg) as [(k & out & E1 & E2)|(s' & pl' & E1 & E2 & Hpost & _)].
  - rewrite E1, E2. reflexivity.
  - rewrite E1, E2. cbn [native_loop run lxml_pump map]. apply (finish_R ns_equiv). exact (proj1 (proj2 Hpost)).
Qed.

Theorem handlers_agree : forall cfg c u root e,
  conv_lookup_only c -> decls_wf e = true ->
  union_decl_free cfg c u root (doc_tokens e) = true ->
  native_parse cfg c u root (doc_tokens e) = lxml_parse cfg c u root (doc_tokens e).
Proof.
  intros cfg c u root e Hc Hwf Hg. unfold native_parse, lxml_parse, union_decl_free in *.
  rewrite (handlers_agree_n _ cfg c u root e Hc Hwf Hg).
  unfold parse. rewrite parse_n_unfold. unfold lxml_pump. rewrite map_length. reflexivity.
Qed.

(* the parser reads prefix maps only through lookups *)
Theorem parser_uses_lookup_only : forall cfg c u root evs evs',
  conv_lookup_only c ->
  Forall2 pevent_equiv evs evs' ->
  parse cfg c u root evs = parse cfg c u root evs'.
Proof.
  intros cfg c u root evs evs' Hc H. apply (parse_R c u ns_equiv ns_equiv_lookup Hc).
  induction H as [|x y l l' Hxy _ IH]; constructor; [|exact IH].
  destruct x, y; cbn [pevent_equiv ev_rel] in *; try contradiction; try exact Hxy. exact I.
Qed.

(* ---------------------------------------------------------------- what the correspondence compares *)
(* the outcome of the native handler IS NodeParser run on the events it handed over
   (`native_events`, the list RecordParser records and harness/c08.py compares) *)
Section Events.
  Variable cfg : pconfig.
  Variable c : conv.
  Variable u : universe.
  Variable replay : pconfig -> option cls -> list pevent -> outcome.
  Variable root : option cls.
  Local Notation run0 := (run cfg c u replay root init_state).

  Lemma run_snoc evs ev : run0 (evs ++ [ev]) = rbind (run0 evs) (fun st => step cfg c u replay root st ev).
  Proof.
    rewrite (run_app cfg c u replay root). destruct (run0 evs) as [st|k]; cbn [rbind run]; [|reflexivity].
    destruct (step cfg c u replay root st ev); reflexivity.
  Qed.

  Lemma native_loop_events toks : forall s,
    run0 (rev (n_out s)) = ROk (n_ps s) ->
    match native_loop cfg c u replay root s toks with
    | inl s' => run0 (rev (n_out s')) = ROk (n_ps s')
    | inr (k, out) => run0 (rev out) = RErr k
    end.
  Proof.
    induction toks as [|t r IH]; intros s Hs; cbn [native_loop]; [exact Hs|].
    destruct t as [p uri|q a ch|q t tl]; cbn [native_step].
    - apply IH. cbn [n_out n_ps rev]. rewrite run_snoc, Hs. reflexivity.
    - destruct (start cfg c u root (n_ps s) q a (merge_parent (n_aux s) (n_pending s))) as [ps'|k] eqn:E.
      + apply IH. cbn [n_out n_ps rev]. rewrite run_snoc, Hs. cbn [rbind step]. exact E.
      + cbn [rev]. rewrite run_snoc, Hs. cbn [rbind step]. exact E.
    - destruct (pend cfg c replay (n_ps s) q t tl) as [ps'|k] eqn:E.
      + apply IH. cbn [n_out n_ps rev]. rewrite run_snoc, Hs. cbn [rbind step]. exact E.
      + cbn [rev]. rewrite run_snoc, Hs. cbn [rbind step]. exact E.
  Qed.
End Events.

Theorem native_parse_of_events : forall n cfg c u root toks,
  native_parse_n n cfg c u root toks
  = finish (run cfg c u (replay_n n c u) root init_state (native_events_n n cfg c u root toks)).
Proof.
  intros n cfg c u root toks. unfold native_parse_n, native_events_n.
  pose proof (native_loop_events cfg c u (replay_n n c u) root toks native_init eq_refl) as H.
  destruct (native_loop cfg c u (replay_n n c u) root native_init toks) as [s|[k out]]; rewrite H; reflexivity.
Qed.
