(* Proofs/SampleTypes.v — the type inferred for every value of every sample node is among the types of the
   merged attr (unless it is one of the datatypes filter_types removes), through add_attribute,
   ClassUtils.flatten, merge_attributes and cleanup_class. *)
From Coq Require Import NArith ZArith List Bool Lia.
From XV Require Import Base.Str Base.Eqb Gen.SampleTables Model.Sample Model.SampleCorr
  Proofs.SampleBase Proofs.SampleReduce Proofs.SampleBuild Proofs.SampleFit.
Import ListNotations.
Open Scope N_scope.

Lemma add_attribute_types l a :
  (forall y, In y l -> exists y', In y' (add_attribute l a) /\ key y' = key y /\ tsub (a_types y) (a_types y'))
  /\ (exists x, In x (add_attribute l a) /\ key x = key a /\ tsub (a_types a) (a_types x)).
Proof.
  induction l as [|e r [IH1 IH2]]; cbn [add_attribute].
  - split; [intros y []|]. exists a. split; [left; reflexivity|]. split; [reflexivity|apply tsub_refl].
  - destruct (attr_eqb e a) eqn:E.
    + apply attr_eqb_key in E.
      set (e' := mk_attr (a_tag e) (a_name e) (a_ns e) (unique_types (a_types e ++ a_types a)) (a_min e) sys_maxsize (a_seq e) (a_index e)).
      split.
      * intros y [<-|Hy].
        -- exists e'. split; [left; reflexivity|]. split; [reflexivity|]. intros q Hq. change (a_types e') with (unique_types (a_types e ++ a_types a)). rewrite tmem_unique, tmem_app, Hq. reflexivity.
        -- exists y. split; [right; exact Hy|]. split; [reflexivity|apply tsub_refl].
      * exists e'. split; [left; reflexivity|]. split; [exact E|]. intros q Hq. change (a_types e') with (unique_types (a_types e ++ a_types a)). rewrite tmem_unique, tmem_app, Hq. apply orb_true_r.
    + split.
      * intros y [<-|Hy].
        -- exists e. split; [left; reflexivity|]. split; [reflexivity|apply tsub_refl].
        -- destruct (IH1 y Hy) as [y' [H1 [H2 H3]]]. exists y'. split; [right; exact H1|auto].
      * destruct IH2 as [x [H1 [H2 H3]]]. exists x. split; [right; exact H1|auto].
Qed.

Inductive added_q : list attr -> list (K3 * str) -> list attr -> Prop :=
| aq_nil l : added_q l [] l
| aq_cons l a q kqs l' : tmem q (a_types a) = true -> added_q (add_attribute l a) kqs l' -> added_q l ((key a, q) :: kqs) l'.

Lemma added_q_app a k1 b k2 c : added_q a k1 b -> added_q b k2 c -> added_q a (k1 ++ k2) c.
Proof. induction 1; cbn; intros H2; [exact H2|]. constructor; [assumption|]. apply IHadded_q. exact H2. Qed.

Lemma added_q_spec l kqs l' : added_q l kqs l' ->
  (forall y, In y l -> exists y', In y' l' /\ key y' = key y /\ tsub (a_types y) (a_types y'))
  /\ (forall k q, In (k, q) kqs -> exists x, In x l' /\ key x = k /\ tmem q (a_types x) = true).
Proof.
  induction 1 as [l|l a q kqs l' Hq H [IH1 IH2]].
  - split; [|intros k q []]. intros y Hy. exists y. split; [exact Hy|]. split; [reflexivity|apply tsub_refl].
  - destruct (add_attribute_types l a) as [A1 [x [X1 [X2 X3]]]]. split.
    + intros y Hy. destruct (A1 y Hy) as [y1 [H1 [H2 H3]]]. destruct (IH1 y1 H1) as [y2 [H4 [H5 H6]]].
      exists y2. split; [exact H4|]. split; [congruence|eapply tsub_trans; eauto].
    + intros k q0 [[= <- <-]|Hin]; [|apply IH2; exact Hin].
      destruct (IH1 x X1) as [x2 [H4 [H5 H6]]]. exists x2. split; [exact H4|]. split; [congruence|]. apply H6, X3, Hq.
Qed.

Lemma build_attr_added_q attrs q ty ns tag seq none :
  exists a, build_attr attrs q ty ns tag seq none = add_attribute attrs a /\ key a = key (part_key tag ns q)
            /\ tmem (ty_qname ty) (a_types a) = true.
Proof.
  unfold build_attr, part_key. destruct (split_qname q) as [n0 name]. eexists. split; [reflexivity|]. split; [reflexivity|].
  cbn. rewrite str_eqb_refl. reflexivity.
Qed.

Lemma build_attributes_q cv ns atts : forall nilb attrs,
  added_q attrs (map (fun kv => (key (part_key tag_ATTRIBUTE ns (fst kv)), ty_qname (build_attr_type_str cv (fst kv) (Some (snd kv)))))
                     (attr_parts atts))
          (snd (build_attributes cv atts ns (nilb, attrs))).
Proof.
  induction atts as [|[k v] r IH]; intros nilb attrs; cbn [build_attributes attr_parts filter].
  - constructor.
  - cbn [fst]. destruct (str_eqb k qn_xsi_nil) eqn:E; cbn [negb].
    + apply IH.
    + cbn [map fst snd].
      destruct (build_attr_added_q attrs k (build_attr_type_str cv k (Some v)) ns tag_ATTRIBUTE 0 false) as [a [Ea [Ka Ta]]].
      rewrite <- Ka. constructor; [exact Ta|]. rewrite <- Ea. apply IH.
Qed.

Lemma elements_loop_q cv ns groups rec ks : forall i attrs inner mixed,
  added_q attrs
    (map (fun k => (key (part_key tag_ELEMENT ns (t_qn k)),
                    if has_content k then k_qname (rec k) else ty_qname (build_attr_type_str cv (t_qn k) (t_text k))))
         (filter named ks))
    (fst (fst (elements_loop cv ns groups rec i ks (attrs, inner, mixed)))).
Proof.
  induction ks as [|k r IH]; intros i attrs inner mixed; cbn [elements_loop].
  - constructor.
  - cbn [filter]. unfold named. destruct (t_qn k) as [|c0 q0] eqn:Q; cbv beta iota zeta.
    + apply IH.
    + cbn [map]. rewrite Q. destruct (has_content k) eqn:HC; cbv beta iota zeta.
      * destruct (build_attr_added_q attrs (c0 :: q0) (mk_atype (k_qname (rec k)) false true) ns tag_ELEMENT (sequence_of groups i 1) false) as [a [Ea [Ka Ta]]].
        rewrite <- Ka. constructor; [exact Ta|]. rewrite <- Ea. apply IH.
      * destruct (build_attr_added_q attrs (c0 :: q0) (build_attr_type_str cv (c0 :: q0) (t_text k)) ns tag_ELEMENT (sequence_of groups i 1) false) as [a [Ea [Ka Ta]]].
        rewrite <- Ka. constructor; [exact Ta|]. rewrite <- Ea. apply IH.
Qed.

Lemma k_qname_build cv k ns : k_qname (build_class cv k ns) = class_qname ns k.
Proof. destruct (build_class_spec cv k ns) as [mixed [nilb [attrs [E _]]]]. rewrite E. reflexivity. Qed.

Lemma build_class_types cv n p q ns mixed nilb attrs inner :
  build_class cv n p = K q ns mixed nilb attrs inner ->
  added_q [] (map (fun kq => (key (fst kq), snd kq)) (node_part_types cv (class_ns p n) n)) attrs.
Proof.
  destruct n as [qn atts text tail kids]. rewrite build_class_unfold.
  unfold class_ns, node_part_types. cbn [t_qn t_atts t_kids t_text fst snd].
  destruct (split_qname qn) as [ns0 name]. cbn [fst snd]. set (cns := select_namespace ns0 p tag_ELEMENT).
  pose proof (build_attributes_q cv cns atts false []) as A1.
  destruct (build_attributes cv atts cns (false, [])) as [nilb0 attrs1]. cbn [snd] in A1.
  pose proof (elements_loop_q cv cns (sequential_groups (map t_qn kids)) (fun k => build_class cv k cns) kids O attrs1 [] false) as A2.
  destruct (elements_loop cv cns (sequential_groups (map t_qn kids)) (fun k => build_class cv k cns) O kids (attrs1, [], false))
    as [[attrs2 inner2] mixed1]. cbn [fst] in A2.
  rewrite !map_app, !map_map. cbn [fst snd]. fold (attr_parts atts).
  assert (A2' : added_q attrs1
            (map (fun k => (key (part_key tag_ELEMENT cns (t_qn k)),
                            if has_content k then class_qname cns k else ty_qname (build_attr_type_str cv (t_qn k) (t_text k))))
                 (filter named kids)) attrs2).
  { erewrite map_ext; [exact A2|]. intros k. cbn. rewrite k_qname_build. reflexivity. }
  destruct (truthy text) eqn:TT.
  - intros [= _ _ _ _ <- _].
    destruct (build_attr_added_q attrs2 text_attr_name (build_attr_type_str cv text_attr_name text) None tag_SIMPLE_TYPE 0 false) as [a [Ea [Ka Ta]]].
    eapply added_q_app; [exact A1|]. eapply added_q_app; [exact A2'|]. cbn [map fst snd]. rewrite Ea.
    replace (key (key_attr tag_SIMPLE_TYPE text_attr_name None)) with (key a). constructor; [exact Ta|constructor].
  - intros [= _ _ _ _ <- _]. cbn [map]. rewrite app_nil_r. eapply added_q_app; [exact A1|exact A2'].
Qed.

Theorem node_types_of_member cv all :
  (forall x, In x all -> exists p m, x = node_class cv p m) ->
  forall p m, In (node_class cv p m) all -> node_types_ok cv (reduce_classes all) p m = true.
Proof.
  intros Hall p m Hin.
  destruct (reduce_classes_spec all (all_nodup cv all Hall) _ Hin) as [r [Fr [NDr [_ [Cov _]]]]].
  unfold node_class in *. destruct (build_class cv m p) as [q ns mixed nilb attrs inner] eqn:E.
  pose proof (build_class_types cv m p _ _ _ _ _ _ E) as AQ.
  destruct (build_class_spec cv m p) as [mixed' [nilb' [attrs' [E' _]]]]. rewrite E in E'. inversion E'; subst. clear E'.
  cbn [c_qname c_attrs] in *. unfold node_types_ok. rewrite Fr.
  apply forallb_forall. intros [k q] Hkq. cbn [fst snd].
  destruct (added_q_spec _ _ _ AQ) as [_ S2].
  destruct (S2 (key k) q) as [y [Hy [Ky Ty]]]; [apply in_map_iff; exists (k, q); split; [reflexivity|exact Hkq]|].
  destruct (Cov (flatten_attr y)) as [ry [I1 [K1 [_ [_ D3]]]]]; [apply in_map; exact Hy|].
  rewrite (find_attr_in_nodup r k ry NDr I1) by (rewrite K1, flatten_attr_key; exact Ky).
  destruct (D3 q) as [H|H].
  - unfold flatten_attr. cbn [a_types]. rewrite tmem_map_forward, tmem_unique. exact Ty.
  - unfold tmem in H. rewrite H. reflexivity.
  - rewrite H. apply orb_true_r.
Qed.

Theorem types_kept : forall cv (S : list tree), forallb (tree_types_ok cv (classes_of_xml cv S)) S = true.
Proof.
  intros cv S. apply forallb_forall. intros t Ht. unfold tree_types_ok, classes_of_xml.
  apply (for_all_class_nodes cv S); [|exact Ht].
  apply (node_types_of_member cv _ (all_of_samples cv S)).
Qed.
