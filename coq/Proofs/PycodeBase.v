(* Proofs/PycodeBase.v — induction principle for [value], named versions of the nested
   fixpoints of Spec/PyEval.v and Model/Pycode.v with their unfolding equations, and
   small list/string lemmas. *)
From Coq Require Import NArith ZArith List Bool Lia.
From XV Require Import Base.Str Base.Eqb Spec.PyEval Model.Pycode.
Import ListNotations.
Notation length := List.length.

(* ------------------------------------------------------------ induction on values *)
Definition is_container (v : value) : bool :=
  match v with VList _ | VTuple _ | VSet _ _ | VDict _ | VObj _ _ => true | _ => false end.

Section ValueInd.
  Variable P : value -> Prop.
  Hypothesis HScalar : forall v, is_container v = false -> P v.
  Hypothesis HList : forall l, Forall P l -> P (VList l).
  Hypothesis HTuple : forall l, Forall P l -> P (VTuple l).
  Hypothesis HSet : forall f l, Forall P l -> P (VSet f l).
  Hypothesis HDict : forall kv, Forall (fun p => P (fst p) /\ P (snd p)) kv -> P (VDict kv).
  Hypothesis HObj : forall c fs, Forall (fun p => P (snd p)) fs -> P (VObj c fs).

  Fixpoint value_ind' (v : value) : P v :=
    match v as v0 return P v0 with
    | VList l =>
        HList l ((fix go (l : list value) : Forall P l :=
                    match l with [] => Forall_nil _ | x :: r => Forall_cons x (value_ind' x) (go r) end) l)
    | VTuple l =>
        HTuple l ((fix go (l : list value) : Forall P l :=
                     match l with [] => Forall_nil _ | x :: r => Forall_cons x (value_ind' x) (go r) end) l)
    | VSet f l =>
        HSet f l ((fix go (l : list value) : Forall P l :=
                     match l with [] => Forall_nil _ | x :: r => Forall_cons x (value_ind' x) (go r) end) l)
    | VDict kv =>
        HDict kv ((fix go (l : list (value * value)) : Forall (fun p => P (fst p) /\ P (snd p)) l :=
                     match l with
                     | [] => Forall_nil _
                     | (k, x) :: r => Forall_cons (k, x) (conj (value_ind' k) (value_ind' x)) (go r)
                     end) kv)
    | VObj c fs =>
        HObj c fs ((fix go (l : list (str * value)) : Forall (fun p => P (snd p)) l :=
                      match l with
                      | [] => Forall_nil _
                      | (n, x) :: r => Forall_cons (n, x) (value_ind' x) (go r)
                      end) fs)
    | VNone => HScalar VNone eq_refl
    | VBool b => HScalar (VBool b) eq_refl
    | VInt z => HScalar (VInt z) eq_refl
    | VFloat b => HScalar (VFloat b) eq_refl
    | VStr s => HScalar (VStr s) eq_refl
    | VBytes k b => HScalar (VBytes k b) eq_refl
    | VDecimal s => HScalar (VDecimal s) eq_refl
    | VQName t => HScalar (VQName t) eq_refl
    | VXml k a o => HScalar (VXml k a o) eq_refl
    | VDuration d => HScalar (VDuration d) eq_refl
    | VPeriod d => HScalar (VPeriod d) eq_refl
    | VStd k a => HScalar (VStd k a) eq_refl
    | VEnum c m => HScalar (VEnum c m) eq_refl
    | VFlag c z => HScalar (VFlag c z) eq_refl
    end.
End ValueInd.

(* ------------------------------------------------------------ strings *)
Lemma str_eqb_true a b : str_eqb a b = true -> a = b.
Proof. apply str_eqb_eq. Qed.

Lemma path_eqb_refl p : path_eqb p p = true.
Proof. unfold path_eqb. induction p as [|x p IH]; cbn; [reflexivity|]. rewrite str_eqb_refl, IH. reflexivity. Qed.

Lemma path_eqb_true p q : path_eqb p q = true -> p = q.
Proof. unfold path_eqb. apply list_eqb_spec. intros x y. apply str_eqb_eq. Qed.

Lemma cref_eqb_refl c : cref_eqb c c = true.
Proof. unfold cref_eqb. rewrite str_eqb_refl, path_eqb_refl. reflexivity. Qed.

Lemma cref_eqb_true a b : cref_eqb a b = true -> a = b.
Proof.
  destruct a as [m p], b as [m' p']. unfold cref_eqb. cbn. intros H.
  apply andb_true_iff in H as [H1 H2]. apply str_eqb_true in H1. apply path_eqb_true in H2. congruence.
Qed.

(* ------------------------------------------------------------ named nested fixpoints *)
(* evaluator *)
Definition eval_list (W : world) (E : env) : list pyexpr -> option (list value) :=
  fix go (l : list pyexpr) : option (list value) :=
    match l with
    | [] => Some []
    | x :: r => match eval W E x, go r with Some v, Some vs => Some (v :: vs) | _, _ => None end
    end.
Definition eval_kws (W : world) (E : env) : list (str * pyexpr) -> option (list (str * value)) :=
  fix gk (l : list (str * pyexpr)) : option (list (str * value)) :=
    match l with
    | [] => Some []
    | (n, x) :: r => match eval W E x, gk r with Some v, Some vs => Some ((n, v) :: vs) | _, _ => None end
    end.
Definition eval_pairs (W : world) (E : env) : list (pyexpr * pyexpr) -> option (list (value * value)) :=
  fix go (l : list (pyexpr * pyexpr)) : option (list (value * value)) :=
    match l with
    | [] => Some []
    | (k, x) :: r =>
        match eval W E k, eval W E x, go r with
        | Some vk, Some vx, Some vs => Some ((vk, vx) :: vs)
        | _, _, _ => None
        end
    end.

Lemma eval_EList W E l : eval W E (EList l) = option_map VList (eval_list W E l).
Proof. reflexivity. Qed.
Lemma eval_ETuple W E l : eval W E (ETuple l) = option_map VTuple (eval_list W E l).
Proof. reflexivity. Qed.
Lemma eval_ESet W E l :
  eval W E (ESet l) =
  match eval_list W E l with
  | Some vs => if forallb (hashable W) vs then Some (VSet false (set_of vs)) else None
  | None => None
  end.
Proof. reflexivity. Qed.
Lemma eval_EDict W E kv :
  eval W E (EDict kv) =
  match eval_pairs W E kv with
  | Some ps => if forallb (fun p => hashable W (fst p)) ps then Some (VDict (dict_of ps)) else None
  | None => None
  end.
Proof. reflexivity. Qed.
Lemma eval_ECall W E f args kws :
  eval W E (ECall f args kws) =
  match eval_list W E args, eval_kws W E kws with
  | Some vargs, Some vkws => apply_call W E f vargs vkws
  | _, _ => None
  end.
Proof. reflexivity. Qed.

(* serializer *)
Definition repr_pairs (W : world) : list (value * value) -> list (pyexpr * pyexpr) :=
  fix go (l : list (value * value)) : list (pyexpr * pyexpr) :=
    match l with [] => [] | (k, x) :: r => (repr W k, repr W x) :: go r end.
Definition repr_fields (W : world) : list fdesc -> list (str * value) -> list (str * pyexpr) :=
  fix go (fds : list fdesc) (fs : list (str * value)) {struct fs} : list (str * pyexpr) :=
    match fds, fs with
    | fd :: fds', (_, x) :: fs' =>
        if printed fd x then (f_name fd, repr W x) :: go fds' fs' else go fds' fs'
    | _, _ => []
    end.
Lemma repr_VDict W kv : repr W (VDict kv) = EDict (repr_pairs W kv).
Proof. reflexivity. Qed.
Lemma repr_VObj W c fs :
  repr W (VObj c fs) =
  match find_data W c with Some fds => ECall (snd c) [] (repr_fields W fds fs) | None => EGarbled [] end.
Proof. reflexivity. Qed.

Definition subs_pairs (W : world) : list (value * value) -> list value :=
  fix go (l : list (value * value)) : list value :=
    match l with [] => [] | (k, x) :: r => subs W k ++ subs W x ++ go r end.
Definition subs_fields (W : world) : list fdesc -> list (str * value) -> list value :=
  fix go (fds : list fdesc) (fs : list (str * value)) {struct fs} : list value :=
    match fds, fs with
    | fd :: fds', (_, x) :: fs' =>
        if printed fd x then subs W x ++ go fds' fs' else go fds' fs'
    | _, _ => []
    end.
Lemma subs_VDict W kv : subs W (VDict kv) = VDict kv :: subs_pairs W kv.
Proof. reflexivity. Qed.
Lemma subs_VObj W c fs :
  subs W (VObj c fs) =
  VObj c fs :: match find_data W c with Some fds => subs_fields W fds fs | None => [] end.
Proof. reflexivity. Qed.

Definition norm_pairs (W : world) : list (value * value) -> list (value * value) :=
  fix go (l : list (value * value)) : list (value * value) :=
    match l with [] => [] | (k, x) :: r => (norm W k, norm W x) :: go r end.
Definition norm_fields (W : world) : list fdesc -> list (str * value) -> list (str * value) :=
  fix go (fds : list fdesc) (fs : list (str * value)) {struct fs} : list (str * value) :=
    match fds, fs with
    | fd :: fds', (_, x) :: fs' =>
        (f_name fd, if printed fd x then norm W x
                    else match default_of fd with Some d => d | None => x end) :: go fds' fs'
    | _, _ => []
    end.
Lemma norm_VDict W kv : norm W (VDict kv) = VDict (norm_pairs W kv).
Proof. reflexivity. Qed.
Lemma norm_VObj W c fs :
  norm W (VObj c fs) =
  match find_data W c with Some fds => VObj c (norm_fields W fds fs) | None => VObj c fs end.
Proof. reflexivity. Qed.

(* equality *)
Definition veq_list (nan_ok : bool) : list value -> list value -> bool :=
  fix go (l l' : list value) : bool :=
    match l, l' with
    | [], [] => true
    | x :: r, y :: r' => veq nan_ok x y && go r r'
    | _, _ => false
    end.
Definition veq_pairs (nan_ok : bool) : list (value * value) -> list (value * value) -> bool :=
  fix go (l : list (value * value)) (l' : list (value * value)) : bool :=
    match l, l' with
    | [], [] => true
    | (k, x) :: r, (k', x') :: r' => veq nan_ok k k' && veq nan_ok x x' && go r r'
    | _, _ => false
    end.
Definition veq_fields (nan_ok : bool) : list (str * value) -> list (str * value) -> bool :=
  fix go (l : list (str * value)) (l' : list (str * value)) : bool :=
    match l, l' with
    | [], [] => true
    | (n, x) :: r, (n', x') :: r' => str_eqb n n' && veq nan_ok x x' && go r r'
    | _, _ => false
    end.
Lemma veq_VList b l l' : veq b (VList l) (VList l') = veq_list b l l'.
Proof. reflexivity. Qed.
Lemma veq_VTuple b l l' : veq b (VTuple l) (VTuple l') = veq_list b l l'.
Proof. reflexivity. Qed.
Lemma veq_VSet b f f' l l' :
  veq b (VSet f l) (VSet f' l') = Nat.eqb (length l) (length l') && forallb (fun x => existsb (veq b x) l') l.
Proof. reflexivity. Qed.
Lemma veq_VDict b l l' : veq b (VDict l) (VDict l') = veq_pairs b l l'.
Proof. reflexivity. Qed.
Lemma veq_VObj b c c' l l' : veq b (VObj c l) (VObj c' l') = cref_eqb c c' && veq_fields b l l'.
Proof. reflexivity. Qed.

(* g_init_local's loop *)
Definition init_fields_ok : list fdesc -> list (str * value) -> bool :=
  fix go (fds : list fdesc) (fs : list (str * value)) {struct fs} : bool :=
    match fds, fs with
    | fd :: fds', (_, x) :: fs' =>
        (if f_init fd then true
         else match default_of fd with Some d => veq true d x | None => false end)
        && go fds' fs'
    | _, _ => true
    end.
Lemma g_init_local_VObj W c fs :
  g_init_local W (VObj c fs) =
  match find_data W c with Some fds => init_fields_ok fds fs | None => true end.
Proof. reflexivity. Qed.

(* ------------------------------------------------------------ membership in subs *)
Lemma subs_self W v : In v (subs W v).
Proof. destruct v; cbn; auto. Qed.

Lemma subs_list_in W l x u : In x l -> In u (subs W x) -> In u (flat_map (subs W) l).
Proof. intros Hx Hu. apply in_flat_map. exists x. auto. Qed.

Lemma subs_VList_in W l x u : In x l -> In u (subs W x) -> In u (subs W (VList l)).
Proof. intros Hx Hu. cbn. right. eapply subs_list_in; eauto. Qed.
Lemma subs_VTuple_in W l x u : In x l -> In u (subs W x) -> In u (subs W (VTuple l)).
Proof. intros Hx Hu. cbn. right. eapply subs_list_in; eauto. Qed.
Lemma subs_VSet_in W f l x u : In x l -> In u (subs W x) -> In u (subs W (VSet f l)).
Proof. intros Hx Hu. cbn. right. eapply subs_list_in; eauto. Qed.

Lemma subs_pairs_in W kv k x u :
  In (k, x) kv -> In u (subs W k) \/ In u (subs W x) -> In u (subs_pairs W kv).
Proof.
  induction kv as [|[k' x'] r IH]; cbn; [tauto|].
  intros [E|Hin] Hu.
  - inversion E; subst. rewrite !in_app_iff. tauto.
  - rewrite !in_app_iff. right. right. auto.
Qed.

(* ------------------------------------------------------------ assoc *)
Lemma assoc_notin {A} n (l : list (str * A)) : ~ In n (map fst l) -> assoc n l = None.
Proof.
  induction l as [|[k v] r IH]; cbn; [reflexivity|].
  intros H. destruct (str_eqb_spec k n) as [->|Hn]; [tauto|]. apply IH. tauto.
Qed.

Lemma names_nodup_NoDup l : names_nodup l = true -> NoDup l.
Proof.
  induction l as [|x r IH]; cbn; intros H; [constructor|].
  apply andb_true_iff in H as [H1 H2]. constructor; [|auto].
  intros Hin. apply negb_true_iff in H1.
  assert (E : existsb (str_eqb x) r = true).
  { apply existsb_exists. exists x. split; [exact Hin| apply str_eqb_refl]. }
  congruence.
Qed.

Lemma NoDup_names_nodup l : NoDup l -> names_nodup l = true.
Proof.
  induction 1 as [|x r Hn Hd IH]; cbn; [reflexivity|].
  rewrite IH, andb_true_r. apply negb_true_iff.
  destruct (existsb (str_eqb x) r) eqn:E; [|reflexivity].
  apply existsb_exists in E as [y [Hy Hxy]]. apply str_eqb_true in Hxy. subst. tauto.
Qed.
