(* Proofs/WriterSound.v — assembling the pieces: from `writer_guard` on an event list to
   the document the native writer prints and the tree the lxml writer builds. *)
From Coq Require Import NArith List Bool Lia.
From XV Require Import Base.Str Base.Eqb Spec.XmlNs Gen.WriterTables Model.Writer
  Proofs.WriterTree Proofs.WriterStep Proofs.WriterMaps Proofs.WriterEnc Proofs.WriterCtx
  Proofs.WriterEscape Proofs.WriterWf Proofs.WriterNative Proofs.WriterDenote Proofs.WriterSays Proofs.WriterLxml.
Import ListNotations.
Open Scope N_scope.

(* ------------------------------------------------------------------ run_events = wrun + sink *)
Section RunSink.
  Context {S : Type} (step : S -> sax -> S + perr).
  Fixpoint steps (k : S) (l : list sax) : S + perr :=
    match l with
    | [] => inl k
    | c :: r => match step k c with inl k' => steps k' r | inr e => inr e end
    end.
  Lemma steps_app k a b :
    steps k (a ++ b) = match steps k a with inl k' => steps k' b | inr e => inr e end.
  Proof.
    revert k. induction a as [|x a IH]; intros k; [reflexivity|].
    cbn [app steps]. destruct (step k x); [apply IH|reflexivity].
  Qed.

  Lemma run_events_wrun evs : forall w k w' out,
    wrun w evs = (w', out, None) ->
    run_events steps w k evs = match steps k out with inl k' => inl (w', k') | inr e => inr e end.
  Proof.
    induction evs as [|ev evs IH]; intros w k w' out H; cbn [wrun run_events] in *.
    - inversion H; subst. reflexivity.
    - destruct (wstep w ev) as [[w1 o1] err]. destruct err as [x|]; [discriminate|].
      destruct (wrun w1 evs) as [[w2 o2] e2] eqn:E. inversion H; subst.
      rewrite steps_app. destruct (steps k o1) as [k1|x]; [|reflexivity].
      exact (IH w1 k1 w' o2 E).
  Qed.
End RunSink.

Lemma nsteps_is_steps k l : nsteps k l = steps nstep k l.
Proof. revert k. induction l as [|x l IH]; intros k; [reflexivity|]. cbn. destruct (nstep k x); [apply IH|reflexivity]. Qed.
Lemma lsteps_is_steps k l : lsteps k l = steps lstep k l.
Proof. revert k. induction l as [|x l IH]; intros k; [reflexivity|]. cbn. destruct (lstep k x); [apply IH|reflexivity]. Qed.
Lemma run_events_ext {S} (f g : S -> list sax -> S + perr) :
  (forall k l, f k l = g k l) -> forall evs w k, run_events f w k evs = run_events g w k evs.
Proof.
  intros H evs. induction evs as [|e evs IH]; intros w k; [reflexivity|].
  cbn [run_events]. destruct (wstep w e) as [[w' out] err]. rewrite H.
  destruct (g k out); [|reflexivity]. destruct err; [reflexivity|apply IH].
Qed.

(* ------------------------------------------------------------------ the initial state *)
Definition cfg_attrs (cfg : wconfig) : attrmap :=
  let a1 := match cfg_schema_location cfg with
            | Some v => am_set [] (split_qname qn_xsi_schema_location) (Some v)
            | None => [] end in
  match cfg_no_ns_schema_location cfg with
  | Some v => am_set a1 (split_qname qn_xsi_no_namespace_schema_location) (Some v)
  | None => a1
  end.

Lemma conv_plain_text q s : startswith [c_lbrace] s = false -> attr_value_conv q (VAtom (AText s)) = VAtom (AText s).
Proof. intros H. unfold attr_value_conv, is_xsi_type. rewrite H. reflexivity. Qed.

Lemma winit_idle cfg m :
  cfg_texts_ok cfg = true -> winit cfg m = idle [] false m (cfg_attrs cfg) false [].
Proof.
  unfold cfg_texts_ok, winit, cfg_attrs. cbn [forallb]. intros H.
  apply andb_true_iff in H as [H1 H2]. apply andb_true_iff in H2 as [H2 _].
  destruct (cfg_schema_location cfg) as [v1|]; destruct (cfg_no_ns_schema_location cfg) as [v2|];
    repeat match goal with
           | H : _ && negb _ = true |- _ => apply andb_true_iff in H as [_ H]; apply negb_true_iff in H
           end;
    unfold add_attribute; cbn [w_pending w_map w_attrs w_parents w_open w_in_tail w_tail w_pp fst];
    rewrite ?conv_plain_text by assumption; reflexivity.
Qed.

Lemma cfg_attrs_ok cfg user :
  cfg_texts_ok cfg = true ->
  Forall (am_entry_ok (user_default user)) (cfg_attrs cfg) /\ NoDup (map fst (cfg_attrs cfg)).
Proof.
  intros Ht. unfold cfg_texts_ok in Ht. cbn [forallb] in Ht.
  apply andb_true_iff in Ht as [H1 H2]. apply andb_true_iff in H2 as [H2 _].
  assert (Hentry : forall q v, attr_name_ok q = true ->
                               forallb is_xml_char v = true -> am_entry_ok (user_default user) (q, Some v)).
  { intros q v Hq Hv. split; [exact Hq|exists v; split; [reflexivity|exact Hv]]. }
  unfold cfg_attrs in *.
  destruct (cfg_schema_location cfg) as [v1|]; destruct (cfg_no_ns_schema_location cfg) as [v2|];
    repeat match goal with
           | H : _ && negb _ = true |- _ => apply andb_true_iff in H as [H _]
           end.
  - split.
    + apply Forall_forall. intros x Hx. apply am_set_In in Hx as [Hx|Hx].
      * subst x. apply Hentry; [reflexivity|exact H2].
      * apply am_set_In in Hx as [Hx|[]]. subst x. apply Hentry; [reflexivity|exact H1].
    + apply am_set_nodup, am_set_nodup. constructor.
  - split.
    + apply Forall_forall. intros x Hx. apply am_set_In in Hx as [Hx|[]]. subst x.
      apply Hentry; [reflexivity|exact H1].
    + apply am_set_nodup. constructor.
  - split.
    + apply Forall_forall. intros x Hx. apply am_set_In in Hx as [Hx|[]]. subst x.
      apply Hentry; [reflexivity|exact H2].
    + apply am_set_nodup. constructor.
  - split; constructor.
Qed.

(* ------------------------------------------------------------------ from the guard to the tree facts *)
Lemma all_nodes_conj P1 D1 P2 D2 i :
  all_nodes P1 D1 i = true -> all_nodes P2 D2 i = true ->
  all_nodes (fun q a k => P1 q a k && P2 q a k) (fun v => D1 v && D2 v) i = true.
Proof.
  induction i as [v|q ats ks IH] using item_ind2; cbn [all_nodes]; intros H1 H2.
  - rewrite H1, H2. reflexivity.
  - apply andb_true_iff in H1 as [A1 B1]. apply andb_true_iff in H2 as [A2 B2].
    rewrite A1, A2. cbn [andb]. apply forallb_forall. intros k Hk.
    rewrite Forall_forall in IH. apply (IH k Hk).
    + rewrite forallb_forall in B1. exact (B1 k Hk).
    + rewrite forallb_forall in B2. exact (B2 k Hk).
Qed.
Lemma all_nodes_impl (P Q : qname -> list (qname * wvalue) -> list item -> bool) (D E : wvalue -> bool) i :
  (forall q a k, P q a k = true -> Q q a k = true) -> (forall v, D v = true -> E v = true) ->
  all_nodes P D i = true -> all_nodes Q E i = true.
Proof.
  intros HP HD. induction i as [v|q ats ks IH] using item_ind2; cbn [all_nodes]; intros H.
  - apply HD, H.
  - apply andb_true_iff in H as [A B]. rewrite (HP _ _ _ A). cbn [andb].
    apply forallb_forall. intros k Hk. rewrite Forall_forall in IH. apply (IH k Hk).
    rewrite forallb_forall in B. exact (B k Hk).
Qed.

Lemma forallb_flat_map {A B} (f : B -> bool) (g : A -> list B) l :
  forallb f (flat_map g l) = forallb (fun x => forallb f (g x)) l.
Proof. induction l as [|x l IH]; [reflexivity|]. cbn [flat_map forallb]. rewrite forallb_app, IH. reflexivity. Qed.

Lemma value_names_ok_qnames v : forallb name_ok (value_qnames v) = value_names_ok v.
Proof. unfold value_qnames, value_names_ok, atom_names_ok. apply forallb_flat_map. Qed.

Lemma forallb_and {A} (f g : A -> bool) l : forallb f l = true -> forallb g l = true -> forallb (fun x => f x && g x) l = true.
Proof.
  intros H1 H2. apply forallb_forall. intros x Hx. rewrite forallb_forall in H1, H2.
  rewrite (H1 x Hx), (H2 x Hx). reflexivity.
Qed.

Lemma all_nodes_true i : all_nodes (fun _ _ _ => true) (fun _ => true) i = true.
Proof.
  induction i as [v|q ats ks IH] using item_ind2; cbn [all_nodes]; [reflexivity|].
  apply forallb_forall. intros k Hk. rewrite Forall_forall in IH. exact (IH k Hk).
Qed.

Lemma wf_guard_of u0 t :
  t_names_ok t = true -> t_texts_ok t = true -> t_attrs_present t = true -> wf_guard u0 t = true.
Proof.
  intros H1 H2 H4.
  pose proof (all_nodes_conj _ _ _ _ _ H1 (all_nodes_conj _ _ _ _ _ H2 H4)) as H.
  unfold wf_guard. revert H. apply all_nodes_impl.
  - intros q ats ks Hn. unfold node_wf.
    apply andb_true_iff in Hn as [Hn1 Hn]. apply andb_true_iff in Hn as [Hn2 Hn4].
    apply andb_true_iff in Hn1 as [Hn1 A3]. apply andb_true_iff in Hn1 as [A1 A2].
    rewrite A1. cbn [andb]. apply forallb_forall. intros a Ha.
    rewrite forallb_forall in A2, A3, Hn2, Hn4.
    apply andb_true_iff; split; [apply andb_true_iff; split; [apply andb_true_iff; split|]|].
    + exact (A2 a Ha).
    + rewrite <- value_names_ok_qnames. exact (A3 a Ha).
    + exact (Hn2 a Ha).
    + exact (Hn4 a Ha).
  - intros v Hv. unfold data_wf.
    apply andb_true_iff in Hv as [Hv1 Hv]. apply andb_true_iff in Hv as [Hv2 _].
    rewrite <- value_names_ok_qnames, Hv1. unfold value_texts_ok. rewrite Hv2. reflexivity.
Qed.

(* ------------------------------------------------------------------ control-flow guard of WriterStep *)
Lemma kids_ok_of ks : forall it,
  (forall v, In (IData v) ks -> data_plain v = true) ->
  (forall q a k, In (INode q a k) ks -> item_ok (INode q a k) = true) ->
  kids_ok_with item_ok it ks = true.
Proof.
  induction ks as [|k ks IH]; intros it Hd Hn; [reflexivity|].
  destruct k as [v|q a kk].
  - change (kids_ok_with item_ok it (IData v :: ks))
      with (data_plain v && kids_ok_with item_ok true ks).
    rewrite (Hd v (or_introl eq_refl)), (IH true); [reflexivity| |].
    + intros v' Hv'. apply Hd. right. exact Hv'.
    + intros q' a' k' H'. apply Hn. right. exact H'.
  - change (kids_ok_with item_ok it (INode q a kk :: ks))
      with (item_ok (INode q a kk) && kids_ok_with item_ok false ks).
    rewrite (Hn q a kk (or_introl eq_refl)), (IH false); [reflexivity| |].
    + intros v' Hv'. apply Hd. right. exact Hv'.
    + intros q' a' k' H'. apply Hn. right. exact H'.
Qed.

Lemma item_ok_of t :
  t_no_late_qname t = true -> t_names_ok t = true -> item_ok t = true.
Proof.
  induction t as [v|q ats ks IH] using item_ind2; intros Hl Hn; [reflexivity|].
  unfold t_no_late_qname, t_names_ok in *. cbn [all_nodes] in Hl, Hn.
  apply andb_true_iff in Hl as [Hl Hlk]. apply andb_true_iff in Hn as [_ Hnk].
  rewrite forallb_forall in Hlk, Hnk. rewrite Forall_forall in IH.
  assert (Hnodes : forall q' a' k', In (INode q' a' k') ks -> item_ok (INode q' a' k') = true).
  { intros q' a' k' Hin. apply (IH _ Hin); [exact (Hlk _ Hin)|exact (Hnk _ Hin)]. }
  assert (Hdata : forall r, (forall x, In x r -> In x ks) ->
                            forallb (fun k => match k with IData v => negb (has_ns_qname v) | INode _ _ _ => true end) r = true ->
                            forall v, In (IData v) r -> data_plain v = true).
  { intros r Hsub Hlate v Hv. apply data_plain_of.
    - pose proof (Hnk _ (Hsub _ Hv)) as H. cbn [all_nodes] in H. rewrite value_names_ok_qnames in H. exact H.
    - rewrite forallb_forall in Hlate. pose proof (Hlate _ Hv) as H. apply negb_true_iff in H. exact H. }
  cbn [item_ok].
  destruct ks as [|k r].
  - reflexivity.
  - destruct k as [v|qc ac kc].
    + cbn [late_ok] in Hl. apply kids_ok_of.
      * apply (Hdata r); [intros x Hx; right; exact Hx|exact Hl].
      * intros q' a' k' H'. apply Hnodes. right. exact H'.
    + apply kids_ok_of.
      * intros v Hv. destruct Hv as [Hv|Hv]; [discriminate|].
        cbn [late_ok] in Hl. apply (Hdata r); [intros x Hx; right; exact Hx|exact Hl|exact Hv].
      * exact Hnodes.
Qed.

(* ------------------------------------------------------------------ unpacking the guard *)
Record guard_facts (cfg : wconfig) (user : nsmap) (evs : list wevent) (t : item) : Prop := {
  gf_tree : doc_tree evs = Some t;
  gf_user : minv (user_default user) (serializer_ns_map user);
  gf_cfg : cfg_texts_ok cfg = true;
  gf_a0 : Forall (am_entry_ok (user_default user)) (cfg_attrs cfg) /\ NoDup (map fst (cfg_attrs cfg));
  gf_item : item_ok t = true;
  gf_wf : wf_guard (user_default user) t = true;
  gf_nil : t_nil_ok t = true;
  gf_clark : t_no_clark t = true;
  gf_late : t_no_late_qname t = true;
  gf_dq : match user_default user with Some u => t_default_qname_ok u t = true | None => True end
}.

Lemma guard_unpack cfg user evs :
  writer_guard cfg user evs = true -> exists t, guard_facts cfg user evs t.
Proof.
  unfold writer_guard, user_map_ok, events_ok. intros H.
  apply andb_true_iff in H as [Hu He].
  apply andb_true_iff in Hu as [Hleg Hdq].
  apply andb_true_iff in He as [He Hwf]. apply andb_true_iff in He as [He Hck].
  apply andb_true_iff in He as [He Hnil]. apply andb_true_iff in He as [He Hlate].
  apply andb_true_iff in He as [Hnames Htexts].
  unfold events_wf in Hwf. apply andb_true_iff in Hwf as [Hwn Hpres].
  unfold well_nested_b in Hwn. destruct (doc_tree evs) as [t|] eqn:Et; [|discriminate].
  unfold texts_ok in Htexts. apply andb_true_iff in Htexts as [Htexts Hcfg].
  unfold names_ok, no_late_qname_data, nil_content_ok,
    no_clark_datatype_text, on_tree in *. rewrite Et in *.
  exists t. constructor.
  - exact Et.
  - apply user_minv; assumption.
  - exact Hcfg.
  - apply cfg_attrs_ok. exact Hcfg.
  - apply item_ok_of; assumption.
  - apply wf_guard_of; assumption.
  - exact Hnil.
  - exact Hck.
  - exact Hlate.
  - unfold default_qname_ok in Hdq. destruct (user_default user) as [u|]; [|exact I].
    unfold on_tree in Hdq. rewrite Et in Hdq. exact Hdq.
Qed.

Lemma wref_elem_is_node W pm a0 m q ats ks :
  match wref_elem W pm a0 m q ats ks with SText _ => False | SNode _ _ _ _ => True end.
Proof.
  unfold wref_elem. destruct (fold_attrs (add_namespace (fst q) m) a0 ats) as [am m2].
  destruct ks as [|[v|qc ac kc] r]; try exact I.
  destruct (encode_data m2 v). exact I.
Qed.

(* ------------------------------------------------------------------ native writer: well-formed output *)
Lemma native_from_facts cfg user evs q ats ks :
  guard_facts cfg user evs (INode q ats ks) -> evs = flatten (INode q ats ks) ->
  exists d, run_native cfg user evs = inl d
            /\ resolve d = Some (itree_of (wref_root (serializer_ns_map user) (cfg_attrs cfg) q ats ks)).
Proof.
  intros F Hev.
  destruct (document_runs (serializer_ns_map user) (cfg_attrs cfg) q ats ks (gf_item _ _ _ _ F)) as [s' Hrun].
  destruct (gf_a0 _ _ _ _ F) as [Ha0 Hnd0].
  pose proof (wref_root_wf (user_default user) (serializer_ns_map user) (cfg_attrs cfg) q ats ks
                (gf_user _ _ _ _ F) Ha0 Hnd0 (gf_wf _ _ _ _ F)) as Hwf.
  destruct (native_document _ Hwf (wref_elem_is_node _ _ _ _ _ _ _)) as [k [r [Hs [Hout Hres]]]].
  exists (rtoks r).
  unfold run_native. rewrite (winit_idle cfg _ (gf_cfg _ _ _ _ F)).
  rewrite (run_events_ext nsteps (steps nstep) nsteps_is_steps).
  rewrite Hev. rewrite (run_events_wrun nstep _ _ _ _ _ Hrun).
  rewrite <- nsteps_is_steps, Hs. rewrite Hout. split; [reflexivity|exact Hres].
Qed.

Theorem writer_wellformed_native cfg user evs :
  writer_guard cfg user evs = true ->
  exists q ats ks d,
    evs = flatten (INode q ats ks)
    /\ run_native cfg user evs = inl d
    /\ resolve d = Some (itree_of (wref_root (serializer_ns_map user) (cfg_attrs cfg) q ats ks)).
Proof.
  intros Hg. destruct (guard_unpack cfg user evs Hg) as [t F].
  destruct (doc_tree_sound evs t (gf_tree _ _ _ _ F)) as [Hev [q [ats [ks Ht]]]]. subst t.
  exists q, ats, ks. destruct (native_from_facts cfg user evs q ats ks F Hev) as [d [H1 H2]].
  exists d. split; [exact Hev|split; assumption].
Qed.

(* ------------------------------------------------------------------ the configured root attributes as events *)
Definition cfg_xats (cfg : wconfig) : list (qname * wvalue) :=
  (match cfg_schema_location cfg with
   | Some v => [(split_qname qn_xsi_schema_location, VAtom (AText v))] | None => [] end)
  ++ (match cfg_no_ns_schema_location cfg with
      | Some v => [(split_qname qn_xsi_no_namespace_schema_location, VAtom (AText v))] | None => [] end).

Lemma with_root_attrs_flatten cfg q ats ks :
  with_root_attrs (root_extra (cfg_schema_location cfg) (cfg_no_ns_schema_location cfg)) (flatten (INode q ats ks))
  = flatten (INode q (cfg_xats cfg ++ ats) ks).
Proof.
  cbn [flatten with_root_attrs]. f_equal. rewrite map_app, <- app_assoc. f_equal.
  unfold root_extra, cfg_xats.
  destruct (cfg_schema_location cfg); destruct (cfg_no_ns_schema_location cfg); reflexivity.
Qed.

Lemma fold_attrs_app m am a b :
  fold_attrs m am (a ++ b) = let (am1, m1) := fold_attrs m am a in fold_attrs m1 am1 b.
Proof.
  revert m am. induction a as [|[qa v] a IH]; intros m am; [reflexivity|].
  cbn [app fold_attrs]. destruct (encode_data m (attr_value_conv qa v)) as [enc m']. apply IH.
Qed.

Lemma cfg_fold cfg m :
  cfg_texts_ok cfg = true -> fold_attrs m [] (cfg_xats cfg) = (cfg_attrs cfg, m).
Proof.
  unfold cfg_texts_ok, cfg_xats, cfg_attrs. cbn [forallb]. intros H.
  apply andb_true_iff in H as [H1 H2]. apply andb_true_iff in H2 as [H2 _].
  destruct (cfg_schema_location cfg) as [v1|]; destruct (cfg_no_ns_schema_location cfg) as [v2|];
    repeat match goal with
           | H : _ && negb _ = true |- _ => apply andb_true_iff in H as [_ H]; apply negb_true_iff in H
           end;
    cbn [app fold_attrs]; rewrite ?conv_plain_text by assumption; reflexivity.
Qed.

Lemma wref_root_as_events cfg user q ats ks :
  cfg_texts_ok cfg = true ->
  wref_root user (cfg_attrs cfg) q ats ks = wref_elem wref [] [] user q (cfg_xats cfg ++ ats) ks.
Proof.
  intros H. unfold wref_root, wref_elem. rewrite fold_attrs_app, (cfg_fold cfg _ H). reflexivity.
Qed.

(* ------------------------------------------------------------------ the guard of the `says` proof *)
Lemma in_datatype_clark s : existsb (str_eqb s) datatype_qnames = true -> startswith [c_lbrace] s = true.
Proof.
  intros H. apply existsb_exists in H as [d [Hd He]]. apply str_eqb_eq in He. subst d.
  pose proof datatype_qnames_clark as Hall. rewrite forallb_forall in Hall. exact (Hall s Hd).
Qed.

Lemma cfg_xats_ok cfg user :
  cfg_texts_ok cfg = true ->
  forallb (sattr_ok (user_default user)) (cfg_xats cfg) = true
  /\ has_nil (cfg_xats cfg) = false
  /\ forallb (fun a => negb (value_none (snd a))) (cfg_xats cfg) = true
  /\ (forall q, forallb (fun a => dq_value (user_default user) q (attr_conv a)) (cfg_xats cfg) = true).
Proof.
  intros Ht. unfold cfg_texts_ok in Ht. cbn [forallb] in Ht.
  apply andb_true_iff in Ht as [H1 H2]. apply andb_true_iff in H2 as [H2 _].
  assert (Hone : forall qa v, attr_name_ok qa = true -> qname_eqb qa q_xsi_nil_m = false ->
                              forallb is_xml_char v = true -> startswith [c_lbrace] v = false ->
                              sattr_ok (user_default user) (qa, VAtom (AText v)) = true
                              /\ (forall q, dq_value (user_default user) q (attr_conv (qa, VAtom (AText v))) = true)).
  { intros qa v Hq _ Hv Hb. unfold sattr_ok, attr_conv. cbn [fst snd]. rewrite (conv_plain_text qa v Hb).
    split.
    - rewrite Hq. cbn [value_names_ok value_atoms forallb atom_names_ok atom_qnames value_texts_ok value_texts flat_map app value_none negb andb].
      rewrite Hv. cbn [andb]. unfold clark_ok. cbn [fst snd].
      destruct (existsb (str_eqb v) datatype_qnames) eqn:Ed; [|rewrite orb_true_r; reflexivity].
      apply in_datatype_clark in Ed. congruence.
    - intros q. unfold dq_value. destruct (user_default user); [|reflexivity].
      destruct (fst q) as [[|x r]|]; reflexivity. }
  set (q1 := split_qname qn_xsi_schema_location) in *.
  set (q2 := split_qname qn_xsi_no_namespace_schema_location) in *.
  unfold cfg_xats in *. fold q1 q2.
  destruct (cfg_schema_location cfg) as [v1|]; destruct (cfg_no_ns_schema_location cfg) as [v2|];
    cbn [app forallb has_nil existsb fst snd].
  - apply andb_true_iff in H1 as [C1 B1]. apply negb_true_iff in B1.
    apply andb_true_iff in H2 as [C2 B2]. apply negb_true_iff in B2.
    destruct (Hone q1 v1 eq_refl eq_refl C1 B1) as [A1 A2].
    destruct (Hone q2 v2 eq_refl eq_refl C2 B2) as [A3 A4].
    rewrite A1, A3. repeat split; try reflexivity. intros q. rewrite A2, A4. reflexivity.
  - apply andb_true_iff in H1 as [C1 B1]. apply negb_true_iff in B1.
    destruct (Hone q1 v1 eq_refl eq_refl C1 B1) as [A1 A2].
    rewrite A1. repeat split; try reflexivity. intros q. rewrite A2. reflexivity.
  - apply andb_true_iff in H2 as [C2 B2]. apply negb_true_iff in B2.
    destruct (Hone q2 v2 eq_refl eq_refl C2 B2) as [A1 A2].
    rewrite A1. repeat split; try reflexivity. intros q. rewrite A2. reflexivity.
  - repeat split; reflexivity.
Qed.

Definition t_dq (u0 : option str) : item -> bool :=
  match u0 with Some u => t_default_qname_ok u | None => fun _ => true end.


Lemma forallb_const_true {A} (l : list A) : forallb (fun _ => true) l = true.
Proof. induction l; [reflexivity|exact IHl]. Qed.

Lemma dq_node_of u0 t : t_dq u0 t = true -> all_nodes (dq_node u0) (fun _ => true) t = true.
Proof.
  unfold t_dq. destruct u0 as [u|].
  - apply all_nodes_impl; [|tauto]. intros [ou l] ats ks H. unfold dq_node, dq_value. cbn [fst] in *.
    destruct ou as [[|x r]|].
    + exact H.
    + rewrite forallb_const_true. cbn [andb]. apply forallb_forall. intros k _. destruct k; reflexivity.
    + exact H.
  - intros _. induction t as [v|q ats ks IH] using item_ind2; cbn [all_nodes]; [reflexivity|].
    apply andb_true_iff. split.
    + unfold dq_node, dq_value. rewrite forallb_const_true. cbn [andb].
      apply forallb_forall. intros k _. destruct k; reflexivity.
    + apply forallb_forall. intros k Hk. rewrite Forall_forall in IH. exact (IH k Hk).
Qed.

Lemma sguard_of u0 t :
  wf_guard u0 t = true -> t_nil_ok t = true -> t_no_clark t = true ->
  t_no_late_qname t = true -> t_dq u0 t = true -> sguard u0 t = true.
Proof.
  intros H1 H2 H3 H5 H6. apply dq_node_of in H6.
  pose proof (all_nodes_conj _ _ _ _ _ H1 (all_nodes_conj _ _ _ _ _ H2 (all_nodes_conj _ _ _ _ _ H3
                (all_nodes_conj _ _ _ _ _ H5 H6)))) as H.
  unfold sguard. revert H. apply all_nodes_impl.
  - intros q ats ks Hn. unfold sg_node.
    apply andb_true_iff in Hn as [Hwf Hn]. apply andb_true_iff in Hn as [Hnil Hn].
    apply andb_true_iff in Hn as [Hck Hn].
    apply andb_true_iff in Hn as [Hlate Hdq].
    unfold node_wf in Hwf. apply andb_true_iff in Hwf as [Hq Hats].
    rewrite Hq, Hnil, Hlate, Hdq. rewrite !andb_true_r. cbn [andb].
    apply forallb_forall. intros a Ha. rewrite forallb_forall in Hats, Hck.
    unfold sattr_ok. rewrite (Hats a Ha). cbn [andb]. exact (Hck a Ha).
  - intros v Hv. apply andb_true_iff in Hv as [Hv _]. exact Hv.
Qed.

Lemma has_nil_app a b : has_nil (a ++ b) = has_nil a || has_nil b.
Proof. unfold has_nil. apply existsb_app. Qed.

Lemma sg_node_extra u0 q xats ats ks :
  forallb (sattr_ok u0) xats = true -> has_nil xats = false ->
  forallb (fun a => dq_value u0 q (attr_conv a)) xats = true ->
  sg_node u0 q ats ks = true -> sg_node u0 q (xats ++ ats) ks = true.
Proof.
  intros Hx Hn Hd Hg. unfold sg_node in *.
  apply andb_true_iff in Hg as [Hg Hdq]. apply andb_true_iff in Hg as [Hg Hlate].
  apply andb_true_iff in Hg as [Hg Hnil].
  apply andb_true_iff in Hg as [Hq Hats].
  rewrite Hq, Hlate. rewrite forallb_app, Hx, Hats. cbn [andb].
  unfold dq_node in *. apply andb_true_iff in Hdq as [Hd1 Hd2]. rewrite forallb_app, Hd, Hd1, Hd2. cbn [andb].
  rewrite !andb_true_r. unfold nil_ok in *. rewrite has_nil_app, Hn. exact Hnil.
Qed.

(* ------------------------------------------------------------------ C03, native writer *)
(* what the guard gives for the document element with the configured attributes in front *)
Lemma root_sguard cfg user evs q ats ks :
  guard_facts cfg user evs (INode q ats ks) ->
  writer_guard cfg user evs = true ->
  sguard (user_default user) (INode q (cfg_xats cfg ++ ats) ks) = true
  /\ attrs_present (INode q (cfg_xats cfg ++ ats) ks) = true.
Proof.
  intros F Hg.
  destruct (cfg_xats_ok cfg user (gf_cfg _ _ _ _ F)) as [X1 [X2 [X3 X4]]].
  assert (Hdq : t_dq (user_default user) (INode q ats ks) = true).
  { unfold t_dq. pose proof (gf_dq _ _ _ _ F) as H. destruct (user_default user); [exact H|reflexivity]. }
  pose proof (sguard_of _ _ (gf_wf _ _ _ _ F) (gf_nil _ _ _ _ F) (gf_clark _ _ _ _ F)
                (gf_late _ _ _ _ F) Hdq) as Hs.
  cbn [sguard all_nodes] in Hs |- *. apply andb_true_iff in Hs as [Hn Hk].
  split.
  - rewrite (sg_node_extra _ q _ ats ks X1 X2 (X4 q) Hn). exact Hk.
  - pose proof (gf_wf _ _ _ _ F) as Hwf. unfold wf_guard in Hwf. cbn [all_nodes] in Hwf.
    apply andb_true_iff in Hwf as [Hnw Hkw].
    unfold attrs_present, t_attrs_present. cbn [all_nodes]. apply andb_true_iff. split.
    + rewrite forallb_app, X3. cbn [andb]. unfold node_wf in Hnw. apply andb_true_iff in Hnw as [_ Hnw].
      apply forallb_forall. intros a Ha. rewrite forallb_forall in Hnw. specialize (Hnw a Ha).
      apply andb_true_iff in Hnw as [_ Hnw]. exact Hnw.
    + apply forallb_forall. intros k Hin. rewrite forallb_forall in Hkw. specialize (Hkw k Hin).
      revert Hkw. apply all_nodes_impl; [|tauto]. intros q' a' k' H. unfold node_wf in H.
      apply andb_true_iff in H as [_ H]. apply forallb_forall. intros a Ha. rewrite forallb_forall in H.
      specialize (H a Ha). apply andb_true_iff in H as [_ H]. exact H.
Qed.

(* ------------------------------------------------------------------ C03, native writer *)
Theorem writer_sound_native cfg user evs :
  writer_guard cfg user evs = true ->
  exists e d t,
    expected cfg evs = Some e /\ run_native cfg user evs = inl d
    /\ resolve d = Some t /\ doc_says e t = true.
Proof.
  intros Hg. destruct (guard_unpack cfg user evs Hg) as [t F].
  destruct (doc_tree_sound evs t (gf_tree _ _ _ _ F)) as [Hev [q [ats [ks Ht]]]]. subst t.
  destruct (native_from_facts cfg user evs q ats ks F Hev) as [d [Hrun Hres]].
  destruct (root_sguard cfg user evs q ats ks F Hg) as [Hsg Hpres].
  destruct (root_says (user_default user) (serializer_ns_map user) q (cfg_xats cfg ++ ats) ks
              (gf_user _ _ _ _ F) Hsg) as [x [ds [a [k [Hden [Hw Hsays]]]]]].
  destruct (itree_of_flatten q (cfg_xats cfg ++ ats) ks Hpres) as [eats [Hsa Hit]].
  exists x, d, (itree_of (SNode ds q a k)).
  split; [|split; [exact Hrun|split; [|exact Hsays]]].
  - unfold expected, expected_tree. rewrite Hev, with_root_attrs_flatten, Hit.
    rewrite (denote_node q _ ks eats Hsa) in Hden. inversion Hden. reflexivity.
  - rewrite Hres, (wref_root_as_events cfg _ q ats ks (gf_cfg _ _ _ _ F)), Hw. reflexivity.
Qed.

(* ------------------------------------------------------------------ lxml writer *)
Lemma lguard_of t : t_names_ok t = true -> t_lxml_uris t = true -> lguard t = true.
Proof.
  intros H1 H2. pose proof (all_nodes_conj _ _ _ _ _ H1 H2) as H. unfold lguard. revert H.
  apply all_nodes_impl.
  - intros q ats ks Hn. apply andb_true_iff in Hn as [Hn Hl].
    apply andb_true_iff in Hn as [Hn A3]. apply andb_true_iff in Hn as [A1 A2].
    apply andb_true_iff in Hl as [Hl B3]. apply andb_true_iff in Hl as [B1 B2].
    unfold lnode_ok. apply andb_true_iff. split.
    + unfold l_qname_ok. unfold name_ok in A1. apply andb_true_iff in A1 as [A1 _]. rewrite A1. exact B1.
    + apply forallb_forall. intros a Ha. rewrite forallb_forall in A2, A3, B2, B3.
      unfold lattr_ok. apply andb_true_iff. split.
      * unfold l_qname_ok. pose proof (A2 a Ha) as Hq. unfold attr_name_ok, name_ok in Hq.
        apply andb_true_iff in Hq as [Hq _]. apply andb_true_iff in Hq as [Hq _]. rewrite Hq. exact (B2 a Ha).
      * unfold value_lok, qname_lok. apply forallb_and; [exact (A3 a Ha)|exact (B3 a Ha)].
  - intros v Hv. apply andb_true_iff in Hv as [V1 V2]. unfold value_lok, qname_lok. apply forallb_and; assumption.
Qed.

Lemma cfg_xats_lok cfg : cfg_texts_ok cfg = true -> forallb lattr_ok (cfg_xats cfg) = true.
Proof.
  unfold cfg_texts_ok, cfg_xats. cbn [forallb]. intros H.
  apply andb_true_iff in H as [H1 H2]. apply andb_true_iff in H2 as [H2 _].
  destruct (cfg_schema_location cfg) as [v1|]; destruct (cfg_no_ns_schema_location cfg) as [v2|];
    repeat match goal with
           | H : _ && negb _ = true |- _ => apply andb_true_iff in H as [_ H]; apply negb_true_iff in H
           end;
    cbn [app forallb]; unfold lattr_ok, attr_conv; cbn [fst snd];
    rewrite ?conv_plain_text by assumption; reflexivity.
Qed.

Lemma lnode_extra q xats ats ks :
  forallb lattr_ok xats = true -> lnode_ok q ats ks = true -> lnode_ok q (xats ++ ats) ks = true.
Proof.
  unfold lnode_ok. intros Hx H. apply andb_true_iff in H as [Hq Ha]. rewrite Hq, forallb_app, Hx, Ha. reflexivity.
Qed.

Lemma lxml_from_facts cfg user evs q ats ks :
  guard_facts cfg user evs (INode q ats ks) -> evs = flatten (INode q ats ks) ->
  lxml_domain cfg user evs = true -> t_names_ok (INode q ats ks) = true ->
  run_lxml cfg user evs
  = inl (itree_of (wref_root (serializer_ns_map user) (cfg_attrs cfg) q ats ks)).
Proof.
  intros F Hev Hdom Hnames.
  destruct (document_runs (serializer_ns_map user) (cfg_attrs cfg) q ats ks (gf_item _ _ _ _ F)) as [s' Hrun].
  destruct (gf_a0 _ _ _ _ F) as [Ha0 Hnd0].
  pose proof (wref_root_wf (user_default user) (serializer_ns_map user) (cfg_attrs cfg) q ats ks
                (gf_user _ _ _ _ F) Ha0 Hnd0 (gf_wf _ _ _ _ F)) as Hwf.
  (* the modelled domain *)
  unfold lxml_domain in Hdom. apply andb_true_iff in Hdom as [Hdu Hdt].
  unfold on_tree in Hdt. rewrite (gf_tree _ _ _ _ F) in Hdt.
  assert (Hmap : ldom_map (serializer_ns_map user)).
  { intros p u Hin. rewrite forallb_forall in Hdu. exact (Hdu _ Hin). }
  pose proof (lguard_of _ Hnames Hdt) as Hlg. cbn [lguard all_nodes] in Hlg. apply andb_true_iff in Hlg as [Hln Hlk].
  assert (Hld : sn_ldom (wref_root (serializer_ns_map user) (cfg_attrs cfg) q ats ks)).
  { rewrite (wref_root_as_events cfg _ q ats ks (gf_cfg _ _ _ _ F)).
    apply elem_ldom; [apply Forall_forall; intros; apply kid_ldom_all|exact Hmap| |exact Hlk].
    apply lnode_extra; [apply cfg_xats_lok, (gf_cfg _ _ _ _ F)|exact Hln]. }
  pose proof (lxml_builds_all _ [] [] None [] [] None Hwf Hld eq_refl
                (or_intror (conj eq_refl (wref_elem_is_node _ _ _ _ _ _ _)))) as Hs.
  unfold run_lxml. rewrite (winit_idle cfg _ (gf_cfg _ _ _ _ F)).
  rewrite (run_events_ext lsteps (steps lstep) lsteps_is_steps).
  rewrite Hev. rewrite (run_events_wrun lstep _ _ _ _ _ Hrun).
  rewrite <- lsteps_is_steps. unfold linit. fold (lst None [None] [] [] None). rewrite Hs.
  cbn [add_kid_l lst l_root]. reflexivity.
Qed.

Lemma guard_names cfg user evs t : writer_guard cfg user evs = true -> doc_tree evs = Some t -> t_names_ok t = true.
Proof.
  unfold writer_guard, events_ok. intros H Ht. apply andb_true_iff in H as [_ He].
  repeat (apply andb_true_iff in He as [He _]).
  unfold names_ok, on_tree in He. rewrite Ht in He. exact He.
Qed.

(* both writers produce the same infoset: the tree lxml builds IS the tree the XML reader
   resolves from the native writer's text (also the writer half of C08) *)
Theorem sinks_agree cfg user evs :
  writer_guard cfg user evs = true -> lxml_domain cfg user evs = true ->
  exists d t, run_native cfg user evs = inl d /\ resolve d = Some t /\ run_lxml cfg user evs = inl t.
Proof.
  intros Hg Hdom. destruct (guard_unpack cfg user evs Hg) as [t F].
  pose proof (guard_names cfg user evs t Hg (gf_tree _ _ _ _ F)) as Hnames.
  destruct (doc_tree_sound evs t (gf_tree _ _ _ _ F)) as [Hev [q [ats [ks Ht]]]]. subst t.
  destruct (native_from_facts cfg user evs q ats ks F Hev) as [d [Hrun Hres]].
  exists d, (itree_of (wref_root (serializer_ns_map user) (cfg_attrs cfg) q ats ks)).
  split; [exact Hrun|split; [exact Hres|]]. exact (lxml_from_facts cfg user evs q ats ks F Hev Hdom Hnames).
Qed.

Theorem writer_sound_lxml cfg user evs :
  writer_guard cfg user evs = true -> lxml_domain cfg user evs = true ->
  exists e t, expected cfg evs = Some e /\ run_lxml cfg user evs = inl t /\ doc_says e t = true.
Proof.
  intros Hg Hdom.
  destruct (writer_sound_native cfg user evs Hg) as [e [d [t [He [Hrun [Hres Hsays]]]]]].
  destruct (sinks_agree cfg user evs Hg Hdom) as [d' [t' [Hrun' [Hres' Hl]]]].
  rewrite Hrun in Hrun'. inversion Hrun'; subst d'. rewrite Hres in Hres'. inversion Hres'; subst t'.
  exists e, t. split; [exact He|split; [exact Hl|exact Hsays]].
Qed.
