(* Proofs/WriterSound.v — assembling the pieces: from `writer_guard` on an event list to
   the document the native writer prints and the tree the lxml writer builds. *)
From Coq Require Import NArith List Bool Lia.
From XV Require Import Base.Str Base.Eqb Spec.XmlNs Gen.WriterTables Model.Writer
  Proofs.WriterTree Proofs.WriterStep Proofs.WriterMaps Proofs.WriterEnc Proofs.WriterCtx
  Proofs.WriterEscape Proofs.WriterWf Proofs.WriterNative.
Import ListNotations.
Open Scope N_scope.

(* ------------------------------------------------------------------ run_events = wrun + sink *)
Section RunSink.
  Context {S : Type} (step : S -> sax -> S + perr).
  Fixpoint steps (k : S) (l : list sax) : S + perr :=
    match l with
    | [] => inl k
    | c :: r => match step k c with inl k' => steps k' r | inr e => inr e end
    end.
  Lemma steps_app k a b :
    steps k (a ++ b) = match steps k a with inl k' => steps k' b | inr e => inr e end.
  Proof.
    revert k. induction a as [|x a IH]; intros k; [reflexivity|].
    cbn [app steps]. destruct (step k x); [apply IH|reflexivity].
  Qed.

  Lemma run_events_wrun evs : forall w k w' out,
    wrun w evs = (w', out, None) ->
    run_events steps w k evs = match steps k out with inl k' => inl (w', k') | inr e => inr e end.
  Proof.
    induction evs as [|ev evs IH]; intros w k w' out H; cbn [wrun run_events] in *.
    - inversion H; subst. reflexivity.
    - destruct (wstep w ev) as [[w1 o1] err]. destruct err as [x|]; [discriminate|].
      destruct (wrun w1 evs) as [[w2 o2] e2] eqn:E. inversion H; subst.
      rewrite steps_app. destruct (steps k o1) as [k1|x]; [|reflexivity].
      exact (IH w1 k1 w' o2 E).
  Qed.
End RunSink.

Lemma nsteps_is_steps k l : nsteps k l = steps nstep k l.
Proof. revert k. induction l as [|x l IH]; intros k; [reflexivity|]. cbn. destruct (nstep k x); [apply IH|reflexivity]. Qed.
Lemma lsteps_is_steps k l : lsteps k l = steps lstep k l.
Proof. revert k. induction l as [|x l IH]; intros k; [reflexivity|]. cbn. destruct (lstep k x); [apply IH|reflexivity]. Qed.
Lemma run_events_ext {S} (f g : S -> list sax -> S + perr) :
  (forall k l, f k l = g k l) -> forall evs w k, run_events f w k evs = run_events g w k evs.
Proof.
  intros H evs. induction evs as [|e evs IH]; intros w k; [reflexivity|].
  cbn [run_events]. destruct (wstep w e) as [[w' out] err]. rewrite H.
  destruct (g k out); [|reflexivity]. destruct err; [reflexivity|apply IH].
Qed.

(* ------------------------------------------------------------------ the initial state *)
Definition cfg_attrs (cfg : wconfig) : attrmap :=
  let a1 := match cfg_schema_location cfg with
            | Some v => am_set [] (split_qname qn_xsi_schema_location) (Some v)
            | None => [] end in
  match cfg_no_ns_schema_location cfg with
  | Some v => am_set a1 (split_qname qn_xsi_no_namespace_schema_location) (Some v)
  | None => a1
  end.

Lemma conv_plain_text q s : startswith [c_lbrace] s = false -> attr_value_conv q (VAtom (AText s)) = VAtom (AText s).
Proof. intros H. unfold attr_value_conv, is_xsi_type. rewrite H. reflexivity. Qed.

Lemma winit_idle cfg m :
  cfg_texts_ok cfg = true -> winit cfg m = idle [] false m (cfg_attrs cfg) false [].
Proof.
  unfold cfg_texts_ok, winit, cfg_attrs. cbn [forallb]. intros H.
  apply andb_true_iff in H as [H1 H2]. apply andb_true_iff in H2 as [H2 _].
  destruct (cfg_schema_location cfg) as [v1|]; destruct (cfg_no_ns_schema_location cfg) as [v2|];
    repeat match goal with
           | H : _ && negb _ = true |- _ => apply andb_true_iff in H as [_ H]; apply negb_true_iff in H
           end;
    unfold add_attribute; cbn [w_pending w_map w_attrs w_parents w_open w_in_tail w_tail w_pp fst];
    rewrite ?conv_plain_text by assumption; reflexivity.
Qed.

Lemma cfg_attrs_ok cfg user :
  cfg_texts_ok cfg = true ->
  (forall u, user_default user = Some u ->
             forallb (fun q => negb (ostr_eqb (fst q) (Some u))) (root_attr_qnames cfg) = true) ->
  Forall (am_entry_ok (user_default user)) (cfg_attrs cfg) /\ NoDup (map fst (cfg_attrs cfg)).
Proof.
  intros Ht Hd. unfold cfg_texts_ok in Ht. cbn [forallb] in Ht.
  apply andb_true_iff in Ht as [H1 H2]. apply andb_true_iff in H2 as [H2 _].
  assert (Hentry : forall q v, attr_name_ok q = true -> In q (root_attr_qnames cfg) ->
                               forallb is_xml_char v = true -> am_entry_ok (user_default user) (q, Some v)).
  { intros q v Hq Hin Hv. split; [exact Hq|split; [|exists v; split; [reflexivity|exact Hv]]].
    cbn [fst]. unfold u0_differs. destruct (user_default user) as [u|] eqn:Eu; [|reflexivity].
    specialize (Hd u eq_refl). rewrite forallb_forall in Hd. exact (Hd q Hin). }
  unfold cfg_attrs, root_attr_qnames in *.
  destruct (cfg_schema_location cfg) as [v1|]; destruct (cfg_no_ns_schema_location cfg) as [v2|];
    repeat match goal with
           | H : _ && negb _ = true |- _ => apply andb_true_iff in H as [H _]
           end.
  - split.
    + apply Forall_forall. intros x Hx. apply am_set_In in Hx as [Hx|Hx].
      * subst x. apply Hentry; [reflexivity|right; left; reflexivity|exact H2].
      * apply am_set_In in Hx as [Hx|[]]. subst x. apply Hentry; [reflexivity|left; reflexivity|exact H1].
    + apply am_set_nodup, am_set_nodup. constructor.
  - split.
    + apply Forall_forall. intros x Hx. apply am_set_In in Hx as [Hx|[]]. subst x.
      apply Hentry; [reflexivity|left; reflexivity|exact H1].
    + apply am_set_nodup. constructor.
  - split.
    + apply Forall_forall. intros x Hx. apply am_set_In in Hx as [Hx|[]]. subst x.
      apply Hentry; [reflexivity|left; reflexivity|exact H2].
    + apply am_set_nodup. constructor.
  - split; constructor.
Qed.

(* ------------------------------------------------------------------ from the guard to the tree facts *)
Lemma all_nodes_conj P1 D1 P2 D2 i :
  all_nodes P1 D1 i = true -> all_nodes P2 D2 i = true ->
  all_nodes (fun q a k => P1 q a k && P2 q a k) (fun v => D1 v && D2 v) i = true.
Proof.
  induction i as [v|q ats ks IH] using item_ind2; cbn [all_nodes]; intros H1 H2.
  - rewrite H1, H2. reflexivity.
  - apply andb_true_iff in H1 as [A1 B1]. apply andb_true_iff in H2 as [A2 B2].
    rewrite A1, A2. cbn [andb]. apply forallb_forall. intros k Hk.
    rewrite Forall_forall in IH. apply (IH k Hk).
    + rewrite forallb_forall in B1. exact (B1 k Hk).
    + rewrite forallb_forall in B2. exact (B2 k Hk).
Qed.
Lemma all_nodes_impl (P Q : qname -> list (qname * wvalue) -> list item -> bool) (D E : wvalue -> bool) i :
  (forall q a k, P q a k = true -> Q q a k = true) -> (forall v, D v = true -> E v = true) ->
  all_nodes P D i = true -> all_nodes Q E i = true.
Proof.
  intros HP HD. induction i as [v|q ats ks IH] using item_ind2; cbn [all_nodes]; intros H.
  - apply HD, H.
  - apply andb_true_iff in H as [A B]. rewrite (HP _ _ _ A). cbn [andb].
    apply forallb_forall. intros k Hk. rewrite Forall_forall in IH. apply (IH k Hk).
    rewrite forallb_forall in B. exact (B k Hk).
Qed.

Lemma forallb_flat_map {A B} (f : B -> bool) (g : A -> list B) l :
  forallb f (flat_map g l) = forallb (fun x => forallb f (g x)) l.
Proof. induction l as [|x l IH]; [reflexivity|]. cbn [flat_map forallb]. rewrite forallb_app, IH. reflexivity. Qed.

Lemma value_names_ok_qnames v : forallb name_ok (value_qnames v) = value_names_ok v.
Proof. unfold value_qnames, value_names_ok, atom_names_ok. apply forallb_flat_map. Qed.

Lemma forallb_and {A} (f g : A -> bool) l : forallb f l = true -> forallb g l = true -> forallb (fun x => f x && g x) l = true.
Proof.
  intros H1 H2. apply forallb_forall. intros x Hx. rewrite forallb_forall in H1, H2.
  rewrite (H1 x Hx), (H2 x Hx). reflexivity.
Qed.

Definition t_u0 (u0 : option str) : item -> bool :=
  match u0 with Some u => t_default_not_on_attr u | None => fun _ => true end.

Lemma wf_guard_of u0 t :
  t_names_ok t = true -> t_texts_ok t = true -> t_no_cr t = true -> t_attrs_present t = true ->
  t_u0 u0 t = true -> wf_guard u0 t = true.
Proof.
  intros H1 H2 H3 H4 H5.
  assert (H5' : all_nodes (fun _ ats _ => forallb (fun a => u0_differs u0 (fst (fst a))) ats) (fun _ => true) t = true).
  { unfold t_u0 in H5. destruct u0 as [u|]; [exact H5|].
    clear. induction t as [v|q ats ks IH] using item_ind2; cbn [all_nodes]; [reflexivity|].
    apply andb_true_iff. split; [apply forallb_forall; intros; reflexivity|].
    apply forallb_forall. intros k Hk. rewrite Forall_forall in IH. exact (IH k Hk). }
  pose proof (all_nodes_conj _ _ _ _ _ H1 (all_nodes_conj _ _ _ _ _ H2 (all_nodes_conj _ _ _ _ _ H3
                (all_nodes_conj _ _ _ _ _ H4 H5')))) as H.
  unfold wf_guard. revert H. apply all_nodes_impl.
  - intros q ats ks Hn. unfold node_wf.
    apply andb_true_iff in Hn as [Hn1 Hn]. apply andb_true_iff in Hn as [Hn2 Hn].
    apply andb_true_iff in Hn as [_ Hn]. apply andb_true_iff in Hn as [Hn4 Hn5].
    apply andb_true_iff in Hn1 as [Hn1 A3]. apply andb_true_iff in Hn1 as [A1 A2].
    rewrite A1. cbn [andb]. apply forallb_forall. intros a Ha.
    rewrite forallb_forall in A2, A3, Hn2, Hn4, Hn5.
    apply andb_true_iff; split; [apply andb_true_iff; split; [apply andb_true_iff; split; [apply andb_true_iff; split|]|]|].
    + exact (A2 a Ha).
    + rewrite <- value_names_ok_qnames. exact (A3 a Ha).
    + exact (Hn2 a Ha).
    + exact (Hn4 a Ha).
    + exact (Hn5 a Ha).
  - intros v Hv. unfold data_wf.
    apply andb_true_iff in Hv as [Hv1 Hv]. apply andb_true_iff in Hv as [Hv2 Hv].
    apply andb_true_iff in Hv as [Hv3 _].
    rewrite <- value_names_ok_qnames, Hv1. unfold value_texts_ok. rewrite Hv2, Hv3. reflexivity.
Qed.

(* ------------------------------------------------------------------ control-flow guard of WriterStep *)
Lemma data_plain_of v : value_names_ok v = true -> has_ns_qname v = false -> data_plain v = true.
Proof.
  unfold value_names_ok, has_ns_qname, value_qnames, data_plain. intros Hn Hq.
  apply forallb_forall. intros a Ha. destruct a as [s|q]; [reflexivity|].
  rewrite forallb_forall in Hn. pose proof (Hn _ Ha) as Hqn. unfold atom_names_ok in Hqn. cbn in Hqn.
  rewrite andb_true_r in Hqn. rewrite (split_build q Hqn).
  destruct (fst q) as [[|x u]|] eqn:E; [| |reflexivity].
  - unfold name_ok in Hqn. rewrite E in Hqn. cbn in Hqn. rewrite andb_false_r in Hqn. discriminate.
  - exfalso. refine (eq_true_false_abs _ _ Hq).
    apply existsb_exists. exists q. split; [|destruct q as [ou l]; cbn [fst] in *; subst ou; reflexivity].
    apply in_flat_map. exists (AQName q). split; [exact Ha|left; reflexivity].
Qed.

Lemma kids_ok_of ks : forall it,
  adj_ok it ks = true ->
  (forall v, In (IData v) ks -> data_plain v = true) ->
  (forall q a k, In (INode q a k) ks -> item_ok (INode q a k) = true) ->
  kids_ok_with item_ok it ks = true.
Proof.
  induction ks as [|k ks IH]; intros it Ha Hd Hn; [reflexivity|].
  destruct k as [v|q a kk].
  - cbn [adj_ok] in Ha. apply andb_true_iff in Ha as [Ha1 Ha2].
    change (kids_ok_with item_ok it (IData v :: ks))
      with ((negb it || value_falsy v) && data_plain v && kids_ok_with item_ok true ks).
    rewrite (Hd v (or_introl eq_refl)), (IH true Ha2).
    + rewrite andb_true_r, andb_true_r. destruct it; [|reflexivity]. cbn in Ha1 |- *.
      apply negb_true_iff in Ha1. apply negb_false_iff in Ha1. exact Ha1.
    + intros v' Hv'. apply Hd. right. exact Hv'.
    + intros q' a' k' H'. apply Hn. right. exact H'.
  - cbn [adj_ok] in Ha.
    change (kids_ok_with item_ok it (INode q a kk :: ks))
      with (item_ok (INode q a kk) && kids_ok_with item_ok false ks).
    rewrite (Hn q a kk (or_introl eq_refl)), (IH false Ha); [reflexivity| |].
    + intros v' Hv'. apply Hd. right. exact Hv'.
    + intros q' a' k' H'. apply Hn. right. exact H'.
Qed.

Lemma item_ok_of t :
  t_no_adjacent t = true -> t_no_late_qname t = true -> t_names_ok t = true -> item_ok t = true.
Proof.
  induction t as [v|q ats ks IH] using item_ind2; intros Ha Hl Hn; [reflexivity|].
  unfold t_no_adjacent, t_no_late_qname, t_names_ok in *. cbn [all_nodes] in Ha, Hl, Hn.
  apply andb_true_iff in Ha as [Ha Hak]. apply andb_true_iff in Hl as [Hl Hlk]. apply andb_true_iff in Hn as [_ Hnk].
  rewrite forallb_forall in Hak, Hlk, Hnk. rewrite Forall_forall in IH.
  assert (Hnodes : forall q' a' k', In (INode q' a' k') ks -> item_ok (INode q' a' k') = true).
  { intros q' a' k' Hin. apply (IH _ Hin); [exact (Hak _ Hin)|exact (Hlk _ Hin)|exact (Hnk _ Hin)]. }
  assert (Hdata : forall r, (forall x, In x r -> In x ks) ->
                            forallb (fun k => match k with IData v => negb (has_ns_qname v) | INode _ _ _ => true end) r = true ->
                            forall v, In (IData v) r -> data_plain v = true).
  { intros r Hsub Hlate v Hv. apply data_plain_of.
    - pose proof (Hnk _ (Hsub _ Hv)) as H. cbn [all_nodes] in H. rewrite value_names_ok_qnames in H. exact H.
    - rewrite forallb_forall in Hlate. pose proof (Hlate _ Hv) as H. apply negb_true_iff in H. exact H. }
  cbn [item_ok].
  destruct ks as [|k r].
  - reflexivity.
  - destruct k as [v|qc ac kc].
    + cbn [adj_ok andb negb] in Ha. cbn [late_ok] in Hl.
      apply kids_ok_of; [exact Ha| |].
      * apply (Hdata r); [intros x Hx; right; exact Hx|exact Hl].
      * intros q' a' k' H'. apply Hnodes. right. exact H'.
    + apply kids_ok_of; [exact Ha| |].
      * intros v Hv. destruct Hv as [Hv|Hv]; [discriminate|].
        cbn [late_ok] in Hl. apply (Hdata r); [intros x Hx; right; exact Hx|exact Hl|exact Hv].
      * exact Hnodes.
Qed.

(* ------------------------------------------------------------------ unpacking the guard *)
Record guard_facts (cfg : wconfig) (user : nsmap) (evs : list wevent) (t : item) : Prop := {
  gf_tree : doc_tree evs = Some t;
  gf_user : minv (user_default user) (serializer_ns_map user);
  gf_cfg : cfg_texts_ok cfg = true;
  gf_a0 : Forall (am_entry_ok (user_default user)) (cfg_attrs cfg) /\ NoDup (map fst (cfg_attrs cfg));
  gf_item : item_ok t = true;
  gf_wf : wf_guard (user_default user) t = true;
  gf_nil : t_nil_ok t = true;
  gf_clark : t_no_clark t = true;
  gf_adj : t_no_adjacent t = true;
  gf_late : t_no_late_qname t = true;
  gf_dq : match user_default user with Some u => t_default_qname_ok u t = true | None => True end
}.

Lemma guard_unpack cfg user evs :
  writer_guard cfg user evs = true -> exists t, guard_facts cfg user evs t.
Proof.
  unfold writer_guard, user_map_ok, events_ok. intros H.
  apply andb_true_iff in H as [Hu He].
  apply andb_true_iff in Hu as [Hu Hdq]. apply andb_true_iff in Hu as [Hu Hda].
  apply andb_true_iff in Hu as [Hleg Hcol].
  apply andb_true_iff in He as [He Hwf]. apply andb_true_iff in He as [He Hck].
  apply andb_true_iff in He as [He Hnil]. apply andb_true_iff in He as [He Hlate].
  apply andb_true_iff in He as [He Hadj]. apply andb_true_iff in He as [He Hcr].
  apply andb_true_iff in He as [Hnames Htexts].
  unfold events_wf in Hwf. apply andb_true_iff in Hwf as [Hwn Hpres].
  unfold well_nested_b in Hwn. destruct (doc_tree evs) as [t|] eqn:Et; [|discriminate].
  unfold texts_ok in Htexts. apply andb_true_iff in Htexts as [Htexts Hcfg].
  unfold names_ok, no_cr_in_data, no_adjacent_data, no_late_qname_data, nil_content_ok,
    no_clark_datatype_text, on_tree in *. rewrite Et in *.
  exists t. constructor.
  - exact Et.
  - apply user_minv; assumption.
  - exact Hcfg.
  - apply cfg_attrs_ok; [exact Hcfg|]. intros u Hud. unfold default_not_on_attr in Hda. rewrite Hud in Hda.
    apply andb_true_iff in Hda as [_ Hda]. exact Hda.
  - apply item_ok_of; assumption.
  - apply wf_guard_of; try assumption.
    unfold t_u0, default_not_on_attr in *. destruct (user_default user) as [u|]; [|reflexivity].
    apply andb_true_iff in Hda as [Hda _]. unfold on_tree in Hda. rewrite Et in Hda. exact Hda.
  - exact Hnil.
  - exact Hck.
  - exact Hadj.
  - exact Hlate.
  - unfold default_qname_ok in Hdq. destruct (user_default user) as [u|]; [|exact I].
    unfold on_tree in Hdq. rewrite Et in Hdq. exact Hdq.
Qed.

Lemma wref_elem_is_node W pm a0 m q ats ks :
  match wref_elem W pm a0 m q ats ks with SText _ => False | SNode _ _ _ _ => True end.
Proof.
  unfold wref_elem. destruct (fold_attrs (add_namespace (fst q) m) a0 ats) as [am m2].
  destruct ks as [|[v|qc ac kc] r]; try exact I.
  destruct (encode_data m2 v). exact I.
Qed.

(* ------------------------------------------------------------------ native writer: well-formed output *)
Theorem writer_wellformed_native cfg user evs :
  writer_guard cfg user evs = true ->
  exists q ats ks d,
    evs = flatten (INode q ats ks)
    /\ run_native cfg user evs = inl d
    /\ resolve d = Some (itree_of (wref_root (serializer_ns_map user) (cfg_attrs cfg) q ats ks)).
Proof.
  intros Hg. destruct (guard_unpack cfg user evs Hg) as [t F].
  destruct (doc_tree_sound evs t (gf_tree _ _ _ _ F)) as [Hev [q [ats [ks Ht]]]]. subst t.
  exists q, ats, ks.
  destruct (document_runs (serializer_ns_map user) (cfg_attrs cfg) q ats ks (gf_item _ _ _ _ F)) as [s' Hrun].
  destruct (gf_a0 _ _ _ _ F) as [Ha0 Hnd0].
  pose proof (wref_root_wf (user_default user) (serializer_ns_map user) (cfg_attrs cfg) q ats ks
                (gf_user _ _ _ _ F) Ha0 Hnd0 (gf_wf _ _ _ _ F)) as Hwf.
  destruct (native_document _ Hwf (wref_elem_is_node _ _ _ _ _ _ _)) as [k [r [Hs [Hout Hres]]]].
  exists (rtoks r). split; [exact Hev|].
  unfold run_native. rewrite (winit_idle cfg _ (gf_cfg _ _ _ _ F)).
  rewrite (run_events_ext nsteps (steps nstep) nsteps_is_steps).
  rewrite Hev. rewrite (run_events_wrun nstep _ _ _ _ _ Hrun).
  rewrite <- nsteps_is_steps, Hs. rewrite Hout. split; [reflexivity|exact Hres].
Qed.
