(* Proofs/EventGenNil.v — lemmas about the writer's xsi:nil rule (Spec.MetaSpec.norm_nil)
   over concatenations of complete sub-streams. *)
From Coq Require Import NArith ZArith List Bool Lia.
From XV Require Import Base.Str Base.Eqb Model.Bind Spec.MetaSpec.
Import ListNotations.
Open Scope N_scope.

Definition is_attr (e : wevent) : bool := match e with WAttr _ _ => true | _ => false end.

(* a stream that is empty or ends with something that is not an attribute: every pending
   attribute run inside it is decided inside it *)
Fixpoint closed (l : list wevent) : bool :=
  match l with
  | [] => true
  | [e] => negb (is_attr e)
  | _ :: r => closed r
  end.

Lemma closed_app a b : closed b = true -> b <> [] -> closed (a ++ b) = true.
Proof.
  intros Hb Hne. induction a as [|e a IH]; [exact Hb|].
  cbn [app]. destruct (a ++ b) eqn:E.
  - destruct a; [cbn in E; contradiction|discriminate E].
  - cbn. cbn in IH. exact IH.
Qed.

Lemma closed_app_nil a b : closed a = true -> closed b = true -> closed (a ++ b) = true.
Proof.
  intros Ha Hb. destruct b as [|e b]; [rewrite app_nil_r; exact Ha|].
  apply closed_app; [exact Hb|discriminate].
Qed.

Lemma closed_concat ls : (forall l, In l ls -> closed l = true) -> closed (concat ls) = true.
Proof.
  induction ls as [|l ls IH]; intros H; [reflexivity|]. cbn.
  apply closed_app_nil; [apply H; left; reflexivity|apply IH; intros l' Hl; apply H; right; exact Hl].
Qed.

(* the decision for a nil attribute does not look beyond a non-empty closed stream *)
Lemma stays_empty_app a b : a <> [] -> closed a = true -> stays_empty (a ++ b) = stays_empty a.
Proof.
  induction a as [|e a IH]; intros Hne Hc; [contradiction|].
  destruct a as [|e2 a].
  - cbn in Hc. destruct e; try discriminate Hc; reflexivity.
  - destruct e; try reflexivity.
    cbn [app stays_empty]. apply IH; [discriminate|exact Hc].
Qed.

Lemma norm_nil_app a b : closed a = true -> norm_nil (a ++ b) = norm_nil a ++ norm_nil b.
Proof.
  induction a as [|e a IH]; intros Hc; [reflexivity|].
  assert (Hca : closed a = true) by (destruct a; [reflexivity|exact Hc]).
  cbn [app norm_nil]. rewrite (IH Hca).
  destruct a as [|e2 a].
  - cbn in Hc. destruct e; try discriminate Hc; reflexivity.
  - rewrite (stays_empty_app (e2 :: a) b) by (try discriminate; exact Hca).
    destruct (is_nil_attr e && negb (stays_empty (e2 :: a))); reflexivity.
Qed.

Lemma norm_nil_concat ls :
  (forall l, In l ls -> closed l = true) -> norm_nil (concat ls) = concat (map norm_nil ls).
Proof.
  induction ls as [|l ls IH]; intros H; [reflexivity|]. cbn.
  rewrite norm_nil_app by (apply H; left; reflexivity).
  rewrite IH by (intros l' Hl; apply H; right; exact Hl). reflexivity.
Qed.

(* attributes that are not xsi:nil pass through *)
Definition plain_attrs (l : list wevent) : bool :=
  forallb (fun e => is_attr e && negb (is_nil_attr e)) l.

Lemma norm_nil_attrs a r : plain_attrs a = true -> norm_nil (a ++ r) = a ++ norm_nil r.
Proof.
  induction a as [|e a IH]; intros H; [reflexivity|].
  cbn in H. apply andb_true_iff in H as [He Ha]. apply andb_true_iff in He as [_ Hn].
  apply negb_true_iff in Hn. cbn [app norm_nil]. rewrite Hn, IH by exact Ha. reflexivity.
Qed.

Lemma stays_empty_attrs a r : forallb is_attr a = true -> stays_empty (a ++ r) = stays_empty r.
Proof.
  induction a as [|e a IH]; intros H; [reflexivity|].
  cbn in H. apply andb_true_iff in H as [He Ha]. destruct e; try discriminate He.
  cbn [app stays_empty]. apply IH. exact Ha.
Qed.

(* content = what follows the attributes of an element; it never starts with an attribute *)
Definition starts_content (l : list wevent) : bool :=
  match l with [] | WStart _ :: _ | WData _ :: _ => true | _ => false end.

Lemma stays_empty_content body q :
  starts_content body = true -> closed body = true ->
  stays_empty (body ++ [WEnd q]) = no_content (norm_nil body).
Proof.
  intros Hs Hc. destruct body as [|e body]; [reflexivity|].
  destruct e; try discriminate Hs; cbn [app stays_empty norm_nil is_nil_attr andb no_content]; try reflexivity.
Qed.
