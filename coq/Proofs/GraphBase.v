(* Proofs/GraphBase.v — list-as-set and sorting lemmas for the C12 models. *)
From Coq Require Import NArith List Bool Arith Lia Permutation Sorted.
From XV Require Import Base.Str Spec.GraphSpec Model.Graph.
Import ListNotations.

Section Base.
  Context {A : Type}.
  Variable eqb : A -> A -> bool.
  Hypothesis eqb_eq : forall x y, eqb x y = true <-> x = y.

  Lemma eqb_refl x : eqb x x = true.
  Proof. apply eqb_eq. reflexivity. Qed.

  Lemma eqb_neq x y : eqb x y = false <-> x <> y.
  Proof.
    split.
    - intros H E. apply eqb_eq in E. congruence.
    - intros H. destruct (eqb x y) eqn:E; [apply eqb_eq in E; contradiction | reflexivity].
  Qed.

  Lemma eq_dec : forall x y : A, {x = y} + {x <> y}.
  Proof.
    intros x y. destruct (eqb x y) eqn:E.
    - left. apply eqb_eq. exact E.
    - right. apply eqb_neq. exact E.
  Qed.

  Lemma memb_In x l : memb eqb x l = true <-> In x l.
  Proof.
    unfold memb. rewrite existsb_exists. split.
    - intros [y [Hy E]]. apply eqb_eq in E. subst. exact Hy.
    - intros H. exists x. split; [exact H | apply eqb_refl].
  Qed.

  Lemma memb_false x l : memb eqb x l = false <-> ~ In x l.
  Proof.
    split.
    - intros H HI. apply memb_In in HI. congruence.
    - intros H. destruct (memb eqb x l) eqn:E; [apply memb_In in E; contradiction | reflexivity].
  Qed.

  Lemma dedup_In x l : In x (dedup eqb l) <-> In x l.
  Proof.
    induction l as [|y l IH]; cbn; [tauto|].
    destruct (memb eqb y l) eqn:E.
    - rewrite IH. split; [tauto|]. intros [->|H]; [apply memb_In; exact E | exact H].
    - cbn. rewrite IH. tauto.
  Qed.

  Lemma dedup_NoDup l : NoDup (dedup eqb l).
  Proof.
    induction l as [|y l IH]; cbn; [constructor|].
    destruct (memb eqb y l) eqn:E; [exact IH|].
    constructor; [|exact IH]. rewrite dedup_In. apply memb_false. exact E.
  Qed.

  Lemma nodupb_NoDup l : nodupb eqb l = true <-> NoDup l.
  Proof.
    induction l as [|y l IH]; cbn.
    - split; [constructor | reflexivity].
    - rewrite andb_true_iff, negb_true_iff, memb_false, IH. split.
      + intros [H1 H2]. constructor; assumption.
      + intros H. inversion H; subst. split; assumption.
  Qed.

  Lemma seteq_refl (l : list A) : seteq l l.
  Proof. intros x; tauto. Qed.
  Lemma seteq_sym (a b : list A) : seteq a b -> seteq b a.
  Proof. intros H x. symmetry. apply H. Qed.
  Lemma seteq_trans (a b c : list A) : seteq a b -> seteq b c -> seteq a c.
  Proof. intros H1 H2 x. rewrite (H1 x). apply H2. Qed.

  Lemma seteq_dedup_perm l l' : seteq l l' -> Permutation (dedup eqb l) (dedup eqb l').
  Proof.
    intros H. apply NoDup_Permutation; try apply dedup_NoDup.
    intros x. rewrite !dedup_In. apply H.
  Qed.

  Lemma seteq_nil_l (l : list A) : seteq [] l -> l = [].
  Proof. intros H. destruct l as [|x l]; [reflexivity|]. destruct (proj2 (H x)). left; reflexivity. Qed.

  (* ---------------- sorting ---------------- *)
  Section Sorting.
    Variable leb : A -> A -> bool.
    Let le x y := leb x y = true.

    Lemma insert_perm x l : Permutation (insert leb x l) (x :: l).
    Proof.
      induction l as [|y l IH]; cbn; [reflexivity|].
      destruct (leb x y); [reflexivity|].
      rewrite IH. apply perm_swap.
    Qed.

    Lemma isort_perm l : Permutation (isort leb l) l.
    Proof.
      induction l as [|x l IH]; cbn; [reflexivity|].
      rewrite insert_perm. constructor. exact IH.
    Qed.

    Lemma isort_In x l : In x (isort leb l) <-> In x l.
    Proof. split; apply Permutation_in; [|symmetry]; apply isort_perm. Qed.

    (* order axioms only needed on the members of the list being sorted *)
    Definition total_on (l : list A) := forall x y, In x l -> In y l -> leb x y = false -> leb y x = true.
    Definition trans_on (l : list A) :=
      forall x y z, In x l -> In y l -> In z l -> leb x y = true -> leb y z = true -> leb x z = true.
    Definition antisym_on (l : list A) :=
      forall x y, In x l -> In y l -> leb x y = true -> leb y x = true -> x = y.

    Lemma insert_sorted x l :
      total_on (x :: l) -> trans_on (x :: l) ->
      StronglySorted le l -> StronglySorted le (insert leb x l).
    Proof.
      intros Ht Htr Hs. induction Hs as [|y l Hs IH Hy]; cbn.
      - repeat constructor.
      - destruct (leb x y) eqn:E.
        + constructor; [constructor; assumption|].
          constructor; [exact E|].
          rewrite Forall_forall in *. intros z Hz. unfold le.
          apply (Htr x y z); cbn; auto. apply Hy. exact Hz.
        + constructor.
          * apply IH.
            -- intros a b Ha Hb. apply Ht; cbn in *; tauto.
            -- intros a b c Ha Hb Hc. apply Htr; cbn in *; tauto.
          * rewrite Forall_forall in *. intros z Hz.
            apply (Permutation_in _ (insert_perm x l)) in Hz. destruct Hz as [<-|Hz].
            -- apply Ht; cbn; auto.
            -- apply Hy. exact Hz.
    Qed.

    Lemma isort_sorted l : total_on l -> trans_on l -> StronglySorted le (isort leb l).
    Proof.
      induction l as [|x l IH]; intros Ht Htr; cbn; [constructor|].
      assert (Hsub : forall a, In a (x :: isort leb l) -> In a (x :: l)).
      { intros a [<-|Ha]; [left; reflexivity | right; apply (proj1 (isort_In a l)); exact Ha]. }
      apply insert_sorted.
      - intros a b Ha Hb. apply Ht; apply Hsub; assumption.
      - intros a b c Ha Hb Hc. apply Htr; apply Hsub; assumption.
      - apply IH.
        + intros a b Ha Hb. apply Ht; right; assumption.
        + intros a b c Ha Hb Hc. apply Htr; right; assumption.
    Qed.

    Lemma sorted_perm_eq l l' :
      antisym_on l -> StronglySorted le l -> StronglySorted le l' -> Permutation l l' -> l = l'.
    Proof.
      revert l'. induction l as [|a l IH]; intros l' Ha Hs Hs' Hp.
      - apply Permutation_nil in Hp. subst. reflexivity.
      - destruct l' as [|b l'].
        + symmetry in Hp. apply Permutation_nil in Hp. discriminate.
        + inversion Hs as [|? ? Hs1 Hf1]; subst. inversion Hs' as [|? ? Hs2 Hf2]; subst.
          rewrite Forall_forall in Hf1, Hf2.
          assert (Hab : a = b).
          { assert (Hb_in : In b (a :: l)) by (apply (Permutation_in _ (Permutation_sym Hp)); left; reflexivity).
            assert (Ha_in : In a (b :: l')) by (apply (Permutation_in _ Hp); left; reflexivity).
            destruct Ha_in as [->|Ha_in]; [reflexivity|].
            destruct Hb_in as [->|Hb_in]; [reflexivity|].
            apply Ha; [left; reflexivity | right; exact Hb_in | apply Hf1; exact Hb_in | apply Hf2; exact Ha_in]. }
          subst b. f_equal. apply IH.
          * intros x y Hx Hy. apply Ha; right; assumption.
          * exact Hs1.
          * exact Hs2.
          * apply Permutation_cons_inv in Hp. exact Hp.
    Qed.

    (* sorted() of two presentations of the same duplicate-free collection *)
    Lemma isort_perm_eq l l' :
      total_on l -> trans_on l -> antisym_on l -> Permutation l l' -> isort leb l = isort leb l'.
    Proof.
      intros Ht Htr Ha Hp.
      assert (Hin : forall x, In x l' -> In x l) by (intros x; apply Permutation_in; symmetry; exact Hp).
      apply sorted_perm_eq.
      - intros x y Hx Hy. apply (proj1 (isort_In x l)) in Hx. apply (proj1 (isort_In y l)) in Hy. apply Ha; assumption.
      - apply isort_sorted; assumption.
      - apply isort_sorted.
        + intros x y Hx Hy. apply Ht; apply Hin; assumption.
        + intros x y z Hx Hy Hz. apply Htr; apply Hin; assumption.
      - rewrite isort_perm. rewrite Hp. symmetry. apply isort_perm.
    Qed.

    Lemma isort_NoDup l : NoDup l -> NoDup (isort leb l).
    Proof. intros H. eapply Permutation_NoDup; [symmetry; apply isort_perm | exact H]. Qed.

    (* a global total order *)
    Hypothesis leb_total : forall x y, leb x y = false -> leb y x = true.
    Hypothesis leb_trans : forall x y z, leb x y = true -> leb y z = true -> leb x z = true.
    Hypothesis leb_antisym : forall x y, leb x y = true -> leb y x = true -> x = y.

    Lemma sort_set_seteq l l' : seteq l l' -> sort_set eqb leb l = sort_set eqb leb l'.
    Proof.
      intros H. unfold sort_set. apply isort_perm_eq.
      - intros x y _ _. apply leb_total.
      - intros x y z _ _ _. apply leb_trans.
      - intros x y _ _. apply leb_antisym.
      - apply seteq_dedup_perm. exact H.
    Qed.

    Lemma sort_set_In x l : In x (sort_set eqb leb l) <-> In x l.
    Proof. unfold sort_set. rewrite isort_In. apply dedup_In. Qed.

    Lemma sort_set_NoDup l : NoDup (sort_set eqb leb l).
    Proof. apply isort_NoDup. apply dedup_NoDup. Qed.
  End Sorting.
End Base.

(* ---- Python's str order (by code point) is a total order ---- *)
Lemma str_leb_total : forall x y, str_leb x y = false -> str_leb y x = true.
Proof.
  induction x as [|a x IH]; intros [|b y]; cbn; try congruence.
  destruct (N.ltb_spec a b), (N.ltb_spec b a); try congruence; try lia.
  apply IH.
Qed.

Lemma str_leb_refl : forall x, str_leb x x = true.
Proof. induction x as [|a x IH]; cbn; [reflexivity|]. rewrite N.ltb_irrefl. exact IH. Qed.

Lemma str_leb_trans : forall x y z, str_leb x y = true -> str_leb y z = true -> str_leb x z = true.
Proof.
  induction x as [|a x IH]; intros [|b y] [|c z]; cbn; try congruence.
  destruct (N.ltb_spec a b), (N.ltb_spec b a), (N.ltb_spec b c), (N.ltb_spec c b),
    (N.ltb_spec a c), (N.ltb_spec c a); try congruence; try lia.
  apply IH.
Qed.

Lemma str_leb_antisym : forall x y, str_leb x y = true -> str_leb y x = true -> x = y.
Proof.
  induction x as [|a x IH]; intros [|b y]; cbn; try congruence.
  destruct (N.ltb_spec a b), (N.ltb_spec b a); try congruence; try lia.
  intros H1 H2. assert (a = b) by lia. subst. f_equal. apply IH; assumption.
Qed.
