(* Proofs/GenericRoundtrip.v — C11 for the stand-alone generic tree: parsing the
   event stream of any infoset tree with the TreeParser and generating writer
   events from the result denotes the same tree up to the whitespace exception,
   at any depth, provided the guard clauses hold and every text and tail was
   fully visible. *)
From Coq Require Import NArith ZArith List Bool Lia.
From XV Require Import Base.Str Base.Eqb Base.PyInt Gen.GenericTables Spec.Infoset Model.Generic
  Proofs.GenericParse Proofs.GenericWrite.
Import ListNotations.
Open Scope N_scope.

(* ---- whitespace ------------------------------------------------------------ *)
Lemma xml_ws_py c : xml_ws c = true -> py_isspace c = true.
Proof.
  unfold xml_ws. intros H.
  repeat (apply orb_true_iff in H as [H|H]); apply N.eqb_eq in H; subst c; vm_compute; reflexivity.
Qed.

Lemma all_ws_py s : all_ws s = true -> forallb py_isspace s = true.
Proof.
  unfold all_ws. rewrite !forallb_forall. intros H c Hc. apply xml_ws_py, H, Hc.
Qed.

Lemma normalize_ws_consistent s :
  ws_consistent s = true ->
  ostr (normalize_content (cut None s)) = if all_ws s then [] else s.
Proof.
  unfold ws_consistent, cut. intros H.
  destruct s as [|c s]; [reflexivity|].
  cbn [normalize_content].
  destruct (all_ws (c :: s)) eqn:A.
  - rewrite (all_ws_py _ A). reflexivity.
  - cbn [orb] in H. apply negb_true_iff in H. rewrite H. reflexivity.
Qed.

Lemma strip_by_none ws s : forallb (fun c => negb (ws c)) s = true -> strip_by ws s = s.
Proof.
  intros H. unfold strip_by, rstrip_by.
  assert (L : forall u, forallb (fun c => negb (ws c)) u = true -> lstrip_by ws u = u).
  { intros [|c u]; cbn; [reflexivity|]. intros Hu. apply andb_true_iff in Hu as [Hc _].
    apply negb_true_iff in Hc. rewrite Hc. reflexivity. }
  rewrite (L s H). rewrite L; [apply rev_involutive|]. rewrite forallb_rev. exact H.
Qed.

(* ---- the two readings of `prefix:local` agree --------------------------------- *)
Lemma split_colon_partition v :
  split_colon v = let '(l, f, r) := partition_chr 58 v in if f then (Some l, r) else (None, l).
Proof.
  induction v as [|c v IH]; [reflexivity|].
  cbn [split_colon partition_chr]. destruct (N.eqb c 58); [reflexivity|].
  rewrite IH. destruct (partition_chr 58 v) as [[l f] r]. destruct f; reflexivity.
Qed.

Lemma partition_no_colon v l : partition_chr 58 v = (l, false, []) -> l = v.
Proof.
  revert l; induction v as [|c v IH]; intros l; cbn.
  - congruence.
  - destruct (N.eqb c 58); [discriminate|].
    destruct (partition_chr 58 v) as [[l' f] r] eqn:E. intros H. inversion H; subst. f_equal. apply IH. reflexivity.
Qed.

Lemma partition_false_nil v l r : partition_chr 58 v = (l, false, r) -> r = [].
Proof.
  revert l r; induction v as [|c v IH]; intros l r; cbn.
  - congruence.
  - destruct (N.eqb c 58); [discriminate|].
    destruct (partition_chr 58 v) as [[l' f] r'] eqn:E. intros H. inversion H; subst. eapply IH. reflexivity.
Qed.

Lemma xsi_type_ok_parse m v :
  xsi_type_ok m v = true -> parse_any_attribute m v = resolve_qname m v.
Proof.
  unfold xsi_type_ok. intros H. apply andb_true_iff in H as [Hs H].
  unfold resolve_qname. rewrite (strip_by_none xml_ws v).
  2:{ rewrite forallb_forall in *. intros c Hc. specialize (Hs c Hc).
      destruct (xml_ws c) eqn:X; [|reflexivity]. rewrite (xml_ws_py c X) in Hs. discriminate. }
  unfold parse_any_attribute, text_split.
  rewrite split_colon_partition in *.
  destruct (partition_chr 58 v) as [[l f] r] eqn:E. destruct f.
  - destruct l as [|c p]; [discriminate|].
    destruct (ns_lookup (Some (c :: p)) m) as [[|u0 u]|] eqn:L; try discriminate.
    apply andb_true_iff in H as [Hr Hsl].
    destruct r as [|r0 r]; [discriminate|].
    apply negb_true_iff in Hsl. cbn -[startswith]. unfold str in *. rewrite ?L, ?Hsl. rewrite ?L. reflexivity.
  - pose proof (partition_false_nil _ _ _ E) as ->.
    pose proof (partition_no_colon _ _ E) as ->.
    apply andb_true_iff in H as [_ H].
    destruct (ns_lookup None m) as [[|u0 u]|]; try discriminate; reflexivity.
Qed.

(* ---- attributes ------------------------------------------------------------------ *)
Lemma parse_attrs_canon m a :
  forallb (fun kv => negb (plain_attr kv) || str_eqb (parse_any_attribute m (snd kv)) (snd kv)) a = true ->
  forallb (fun kv => plain_attr kv || xsi_type_ok m (snd kv)) a = true ->
  parse_any_attributes m a = map (canon_attr m) a.
Proof.
  unfold parse_any_attributes. intros H1 H2. apply map_ext_in. intros [k v] Hin.
  rewrite forallb_forall in H1, H2. specialize (H1 _ Hin). specialize (H2 _ Hin).
  unfold canon_attr, plain_attr in *. cbn [fst snd] in *.
  destruct (str_eqb k xsi_type_q); cbn in *.
  - rewrite (xsi_type_ok_parse m v H2). reflexivity.
  - apply str_eqb_eq in H1. rewrite H1. reflexivity.
Qed.

Lemma parse_attrs_keys m a : map fst (parse_any_attributes m a) = map fst a.
Proof. unfold parse_any_attributes. rewrite map_map. reflexivity. Qed.

Lemma nodup_keys_fst a b : map fst a = map fst b -> nodup_keys a = nodup_keys b.
Proof.
  revert b; induction a as [|[k v] a IH]; intros [|[k' v'] b] H; try discriminate; [reflexivity|].
  cbn in H. inversion H; subst. cbn. rewrite (IH b H2). f_equal. f_equal.
  unfold has_key. clear -H2. revert b H2. induction a as [|[k1 v1] a IH]; intros [|[k2 v2] b] H; try discriminate; [reflexivity|].
  cbn in H. inversion H; subst. cbn. rewrite (IH b H2). reflexivity.
Qed.

(* ---- guards, unfolded one level -------------------------------------------------- *)
Lemma tree_all_node P m n a d x ks l :
  tree_all P m (INode n a d x ks l) = P (d ++ m) (INode n a d x ks l) && forallb (tree_all P (d ++ m)) ks.
Proof. reflexivity. Qed.

Lemma guard_any_node m n a d x ks l :
  guard_any m (INode n a d x ks l) = true ->
  g_rewrite_node (d ++ m) (INode n a d x ks l) = true /\
  g_xsitype_node (d ++ m) (INode n a d x ks l) = true /\
  g_space_node (d ++ m) (INode n a d x ks l) = true /\
  forallb (guard_any (d ++ m)) ks = true.
Proof.
  unfold guard_any, g_rewrite, g_xsitype, g_space. rewrite !tree_all_node.
  intros H.
  apply andb_true_iff in H as [H Hs]. apply andb_true_iff in H as [Hr Hx].
  apply andb_true_iff in Hr as [Hr1 Hr2]. apply andb_true_iff in Hx as [Hx1 Hx2].
  apply andb_true_iff in Hs as [Hs1 Hs2].
  repeat split; try assumption.
  apply forallb_forall. intros k Hk.
  rewrite forallb_forall in Hr2, Hx2, Hs2.
  unfold guard_any, g_rewrite, g_xsitype, g_space. rewrite (Hr2 k Hk), (Hx2 k Hk), (Hs2 k Hk). reflexivity.
Qed.

(* ---- the generic tree denotes the normalised infoset ------------------------------- *)
Definition denotes_ok (t : itree) : Prop :=
  forall o m p, is_full o -> guard_any m t = true -> tree_of (any_of o m p t) = norm_ws (canon m t).

Lemma denotes_kids ks :
  Forall denotes_ok ks ->
  forall o m' p i, is_full o -> forallb (guard_any m') ks = true ->
  map tree_of (any_kids o m' p i ks) = map norm_ws (map (canon m') ks).
Proof.
  induction 1 as [|k ks Hk _ IH]; intros o m' p i Ho G; [reflexivity|].
  cbn in G. apply andb_true_iff in G as [G1 G2].
  unfold any_kids. cbn [mapi map]. rewrite (Hk o m' (i :: p) Ho G1). f_equal. apply IH; assumption.
Qed.

Theorem denotes_all t : denotes_ok t.
Proof.
  induction t as [n a d x ks l IH] using itree_ind'.
  intros o m p [Hot Hol] G.
  apply guard_any_node in G as (Gr & Gx & Gs & Gk).
  rewrite any_of_eq. cbn zeta. cbn [tree_of ostr canon norm_ws].
  unfold g_rewrite_node, g_xsitype_node, g_space_node in *. cbn [i_atts i_kids i_text i_tail] in *.
  rewrite Hot, Hol.
  rewrite (parse_attrs_canon (d ++ m) a Gr Gx).
  rewrite (denotes_kids ks IH o (d ++ m) p 0 (conj Hot Hol) Gk).
  apply andb_true_iff in Gs as [Gs1 Gs2].
  rewrite (normalize_ws_consistent l Gs2).
  f_equal.
  destruct ks as [|k ks]; cbn [any_kids mapi map].
  - unfold cut. destruct x; reflexivity.
  - pose proof (normalize_ws_consistent x Gs1) as E.
    destruct (normalize_content (cut None x)); exact E.
Qed.

(* ---- well-formedness carries over ------------------------------------------------- *)
Lemma g_wf_node_split m n a d x ks l :
  g_wf m (INode n a d x ks l) = true -> nodup_keys a = true /\ forallb (g_wf (d ++ m)) ks = true.
Proof. unfold g_wf. rewrite tree_all_node. intros H. apply andb_true_iff in H. exact H. Qed.

Definition elem_all_ok (t : itree) : Prop :=
  forall o m p, g_wf m t = true -> elem_ok (any_of o m p t) = true.

Lemma elem_kids ks :
  Forall elem_all_ok ks -> forall o m' p i, forallb (g_wf m') ks = true ->
  forallb elem_ok (any_kids o m' p i ks) = true.
Proof.
  induction 1 as [|k ks Hk _ IH]; intros o m' p i G; [reflexivity|].
  cbn in G. apply andb_true_iff in G as [G1 G2].
  unfold any_kids. cbn [mapi forallb]. rewrite (Hk o m' (i :: p) G1). apply IH. exact G2.
Qed.

Theorem elem_all t : elem_all_ok t.
Proof.
  induction t as [n a d x ks l IH] using itree_ind'. intros o m p G.
  apply g_wf_node_split in G as [Ga Gk].
  rewrite any_of_eq. cbn zeta. cbn [elem_ok].
  rewrite (nodup_keys_fst _ a (parse_attrs_keys (d ++ m) a)), Ga.
  apply (elem_kids ks IH o (d ++ m) p 0 Gk).
Qed.

(* ---- the writer passes the tree through -------------------------------------------- *)
Lemma guard_write_node m n a d x ks l :
  guard_write m (INode n a d x ks l) = true ->
  g_nil_node (d ++ m) (INode n a d x ks l) = true /\
  g_dtclark_node (d ++ m) (INode n a d x ks l) = true /\
  forallb (guard_write (d ++ m)) ks = true.
Proof.
  unfold guard_write, g_nil, g_dtclark. rewrite !tree_all_node.
  intros H.
  apply andb_true_iff in H as [Hn Hd].
  apply andb_true_iff in Hn as [Hn1 Hn2]. apply andb_true_iff in Hd as [Hd1 Hd2].
  repeat split; try assumption.
  apply forallb_forall. intros k Hk.
  rewrite forallb_forall in Hn2, Hd2.
  unfold guard_write, g_nil, g_dtclark. rewrite (Hn2 k Hk), (Hd2 k Hk). reflexivity.
Qed.

Lemma xsi_type_ne_nil : str_eqb xsi_nil_q xsi_type_q = false.
Proof. vm_compute. reflexivity. Qed.

Lemma attrs_wr_ok m a :
  forallb (fun kv => negb (str_eqb (fst kv) xsi_nil_q)) a = true ->
  forallb (fun kv => negb (plain_attr kv) || str_eqb (parse_any_attribute m (snd kv)) (snd kv)) a = true ->
  forallb (fun kv => negb (plain_attr kv) || negb (is_datatype_clark (snd kv))) a = true ->
  forallb attr_wr_ok (parse_any_attributes m a) = true.
Proof.
  intros H1 H2 H3. unfold parse_any_attributes. rewrite forallb_forall. intros kv Hin.
  apply in_map_iff in Hin as [[k v] [<- Hin]].
  rewrite forallb_forall in H1, H2, H3. specialize (H1 _ Hin). specialize (H2 _ Hin). specialize (H3 _ Hin).
  unfold attr_wr_ok, plain_attr, encode_attr in *. cbn [fst snd] in *.
  destruct (str_eqb k xsi_type_q) eqn:K; cbn [negb orb andb] in *.
  - apply str_eqb_eq in K. subst k. rewrite xsi_type_ne_nil. cbn [negb andb].
    destruct (startswith [123] (parse_any_attribute m v)); cbn [andb opt_eqb]; apply str_eqb_refl.
  - rewrite (str_eqb_sym xsi_nil_q k), H1. cbn [andb].
    apply str_eqb_eq in H2. rewrite H2. apply negb_true_iff in H3. rewrite H3.
    rewrite andb_false_r. cbn [opt_eqb]. apply str_eqb_refl.
Qed.

Definition wr_all_ok (t : itree) : Prop :=
  forall o m p, guard_any m t = true -> guard_write m t = true -> wr_ok (any_of o m p t) = true.

Lemma wr_kids ks :
  Forall wr_all_ok ks -> forall o m' p i,
  forallb (guard_any m') ks = true -> forallb (guard_write m') ks = true ->
  forallb wr_ok (any_kids o m' p i ks) = true.
Proof.
  induction 1 as [|k ks Hk _ IH]; intros o m' p i G W; [reflexivity|].
  cbn in G, W. apply andb_true_iff in G as [G1 G2]. apply andb_true_iff in W as [W1 W2].
  unfold any_kids. cbn [mapi forallb]. rewrite (Hk o m' (i :: p) G1 W1). apply IH; assumption.
Qed.

Theorem wr_all t : wr_all_ok t.
Proof.
  induction t as [n a d x ks l IH] using itree_ind'. intros o m p G W.
  apply guard_any_node in G as (Gr & _ & _ & Gk).
  apply guard_write_node in W as (Wn & Wd & Wk).
  rewrite any_of_eq. cbn zeta. cbn [wr_ok].
  unfold g_rewrite_node, g_nil_node, g_dtclark_node in *. cbn [i_atts] in *.
  rewrite (attrs_wr_ok (d ++ m) a Wn Gr Wd).
  apply (wr_kids ks IH o (d ++ m) p 0 Gk Wk).
Qed.

(* ---- C11, generic tree ------------------------------------------------------------- *)
Theorem any_roundtrip o m p t :
  is_full o -> g_wf m t = true -> guard_any m t = true ->
  roundtrip_spec o m p t = Some (norm_ws (canon m t)).
Proof.
  intros Ho Hw Hg. unfold roundtrip_spec. rewrite tree_parse_pump.
  rewrite (itree_of_wevents_gen _ (elem_all t o m p Hw)).
  rewrite (denotes_all t o m p Ho Hg). reflexivity.
Qed.

Theorem any_roundtrip_written o m p t :
  is_full o -> g_wf m t = true -> guard_any m t = true -> guard_write m t = true ->
  roundtrip_written o m p t = Some (norm_ws (canon m t)).
Proof.
  intros Ho Hw Hg Hwr. unfold roundtrip_written. rewrite tree_parse_pump.
  rewrite (write_tree_gen _ (elem_all t o m p Hw) (wr_all t o m p Hg Hwr)).
  rewrite (denotes_all t o m p Ho Hg). reflexivity.
Qed.

(* the specification reading and the faithful writer agree on these streams *)
Corollary writer_agrees_with_spec o m p t :
  g_wf m t = true -> guard_any m t = true -> guard_write m t = true ->
  roundtrip_written o m p t = roundtrip_spec o m p t.
Proof.
  intros Hw Hg Hwr. unfold roundtrip_written, roundtrip_spec. rewrite tree_parse_pump.
  rewrite (write_tree_gen _ (elem_all t o m p Hw) (wr_all t o m p Hg Hwr)).
  rewrite (itree_of_wevents_gen _ (elem_all t o m p Hw)). reflexivity.
Qed.
