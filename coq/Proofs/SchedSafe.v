(* Proofs/SchedSafe.v — warm_context_safe: when the index is current and the threads'
   requests are ns-closed, every interleaving gives every call its solo result. *)
From Coq Require Import NArith PeanoNat List Bool Lia.
From XV Require Import Base.Str Base.Eqb Model.Context Model.Sched
  Proofs.ContextEq Proofs.ContextInv Proofs.ContextHist.
Import ListNotations.
Open Scope N_scope.

Section Safe.
Variable w : world.
Variable canon : cid -> option meta.
Variable st0 : sstate.                    (* the warm state the threads start from *)

Hypothesis Hseen : s_seen st0 = w_modules w.
Hypothesis Hindex : index_of st0 = ideal_index w.
Hypothesis Hshort : index_short w = true.

(* the state invariant: the cache holds canonical metadata of existing classes; the index
   part is the one of st0 (nobody writes it) *)
Record sinv (st : sstate) : Prop := mkSinv {
  si_cache : forall c m, cache_get (s_cache st) c = Some m -> canon c = Some m;
  si_known : forall c m, cache_get (s_cache st) c = Some m ->
               exists cd, find_class w c = Some cd /\ c_ok cd = true;
  si_xsi : s_xsi st = s_xsi st0;
  si_heap : s_heap st = s_heap st0;
  si_seen : s_seen st = s_seen st0 }.

(* thread-local knowledge that stays true: these classes are cached *)
Definition known (K : list cid) (st : sstate) : Prop :=
  forall c, In c K -> cache_get (s_cache st) c <> None.

Lemma cache_get_set l c m c' :
  cache_get (cache_set l c m) c' = if N.eqb c c' then Some m else cache_get l c'.
Proof.
  induction l as [|[k v] l IH]; cbn.
  - destruct (N.eqb_spec c c'); reflexivity.
  - destruct (N.eqb_spec k c) as [->|Hn]; cbn.
    + destruct (N.eqb_spec c c'); reflexivity.
    + rewrite IH. destruct (N.eqb_spec k c') as [->|_]; [|reflexivity].
      destruct (N.eqb_spec c c') as [->|_]; [congruence|reflexivity].
Qed.

(* no action ever removes a cache entry *)
Lemma do_act_keeps st a c :
  cache_get (s_cache st) c <> None -> cache_get (s_cache (fst (do_act w st a))) c <> None.
Proof.
  intros H. destruct a; cbn; try exact H.
  - rewrite cache_get_set. destruct (N.eqb c0 c); [discriminate|exact H].
  - destruct (xsi_get (s_xsi st) q); cbn; exact H.
  - destruct (xsi_get (s_xsi st) q); cbn; exact H.
  - destruct (xsi_get (s_xsi st) q); cbn; exact H.
Qed.

Lemma known_step K st a : known K st -> known K (fst (do_act w st a)).
Proof. intros H c Hin. exact (do_act_keeps st a c (H c Hin)). Qed.

(* what a thread learns from an action *)
Definition gained (st : sstate) (a : act) : list cid :=
  match a with
  | ACacheHas c => match cache_get (s_cache st) c with Some _ => [c] | None => [] end
  | ACacheSet c _ => [c]
  | _ => []
  end.

Lemma known_gained K st a : known K st -> known (gained st a ++ K) (fst (do_act w st a)).
Proof.
  intros H c Hin. apply in_app_or in Hin as [Hin|Hin]; [|exact (known_step K st a H c Hin)].
  destruct a; cbn in Hin; try contradiction.
  - destruct (cache_get (s_cache st) c0) eqn:G; [|contradiction]. destruct Hin as [<-|[]]. cbn. congruence.
  - destruct Hin as [<-|[]]. cbn. rewrite cache_get_set, N.eqb_refl. discriminate.
Qed.

(* "from every state that satisfies the invariant and in which the classes K are
   cached, the program keeps the invariant and ends with r" *)
Inductive ok : list cid -> mscript -> res -> Prop :=
| ok_ret K r : ok K (MRet r) r
| ok_act K a k r :
    (forall st, sinv st -> known K st -> sinv (fst (do_act w st a))) ->
    (forall st, sinv st -> known K st -> ok (gained st a ++ K) (k (snd (do_act w st a))) r) ->
    ok K (MAct a k) r.

Lemma ok_act' K a k r :
  (forall st, sinv st -> known K st ->
     sinv (fst (do_act w st a)) /\ ok (gained st a ++ K) (k (snd (do_act w st a))) r) ->
  ok K (MAct a k) r.
Proof. intros H. constructor; intros st I Hk; apply (H st I Hk). Qed.

(* ---- the methods ---- *)
Definition canonical (c : cid) (pns : ostr) : Prop :=
  forall m, ideal_build w c pns = Some m -> canon c = Some m.

Lemma ok_get K c k r m :
  In c K -> canon c = Some m -> (forall K', ok K' (k (Some m)) r) -> ok K (m_get c k) r.
Proof.
  intros Hin Hc Hk. unfold m_get. apply ok_act'. intros st I Hkn. cbn. split; [exact I|].
  destruct (cache_get (s_cache st) c) as [m'|] eqn:G.
  - pose proof (si_cache _ I _ _ G) as E. rewrite Hc in E. inversion E; subst. apply Hk.
  - exfalso. apply (Hkn c Hin). exact G.
Qed.

Lemma ok_build K c pns k r :
  canonical c pns -> (forall K', ok K' (k (ideal_build w c pns)) r) -> ok K (m_build w c pns k) r.
Proof.
  intros Hcan Hk. unfold m_build. apply ok_act'. intros st I Hkn. cbn [do_act fst snd]. split; [exact I|].
  destruct (cache_get (s_cache st) c) as [m|] eqn:G; cbn [gained]; rewrite G.
  - destruct (si_known _ I _ _ G) as [cd [Hf Hok]].
    assert (Hi : ideal_build w c pns = Some (build_meta cd pns)) by (unfold ideal_build; rewrite Hf, Hok; reflexivity).
    pose proof (si_cache _ I _ _ G) as Hm. rewrite (Hcan _ Hi) in Hm. inversion Hm; subst m.
    apply ok_get with (m := build_meta cd pns); [left; reflexivity|auto|].
    intros K'. rewrite <- Hi. apply Hk.
  - destruct (ideal_build w c pns) as [m|] eqn:Hi.
    + apply ok_act'. intros st1 I1 Hkn1. cbn [do_act fst snd gained]. split.
      * destruct (ideal_build_some _ _ _ _ Hi) as [cd [Hf [Hok _]]].
        constructor; cbn; try apply I1.
        -- intros c' m'. rewrite cache_get_set. destruct (N.eqb_spec c c') as [<-|_].
           ++ intros E; inversion E; subst. apply Hcan. exact Hi.
           ++ apply I1.
        -- intros c' m'. rewrite cache_get_set. destruct (N.eqb_spec c c') as [<-|_]; [eauto|apply I1].
      * apply ok_get with (m := m); [left; reflexivity|apply Hcan; exact Hi|]. intros K'. apply Hk.
    + apply ok_act'. intros st1 I1 Hkn1. cbn. split; [exact I1|apply Hk].
Qed.

Lemma ok_build_xsi K k r : (forall K', ok K' k r) -> ok K (m_build_xsi w k) r.
Proof.
  intros Hk. unfold m_build_xsi. apply ok_act'. intros st I Hkn. cbn. split; [exact I|].
  rewrite (si_seen _ I), Hseen, N.eqb_refl. apply Hk.
Qed.

(* the lists of the frozen index *)
Lemma index_get_of xsi heap q :
  index_get (map (fun e => (fst e, heap_get heap (Some (snd e)))) xsi) q
  = option_map (fun l => heap_get heap (Some l)) (xsi_get xsi q).
Proof.
  induction xsi as [|[k l] xsi IH]; cbn; [reflexivity|]. destruct (str_eqb k q); [reflexivity|exact IH].
Qed.

Lemma frozen_lookup st q : sinv st -> is_datatype_qname q = false ->
  heap_get (s_heap st) (xsi_get (s_xsi st) q) = ideal_lookup w q.
Proof.
  intros I Hd. unfold ideal_lookup. rewrite Hd, <- Hindex. unfold index_of.
  rewrite index_get_of, (si_xsi _ I), (si_heap _ I). destruct (xsi_get (s_xsi st0) q); reflexivity.
Qed.

Definition lref_ok (q : str) (ol : option loc) : Prop := heap_get (s_heap st0) ol = ideal_lookup w q.

Lemma ok_find_types K q k r :
  (forall K' ol, lref_ok q ol -> ok K' (k ol) r) -> ok K (m_find_types w q k) r.
Proof.
  intros Hk. unfold m_find_types. destruct (is_datatype_qname q) eqn:Hd.
  - apply Hk. unfold lref_ok, ideal_lookup. rewrite Hd. reflexivity.
  - apply ok_build_xsi. intros K1. apply ok_act'. intros st I Hkn. cbn [do_act fst snd gained app]. split; [exact I|].
    pose proof (frozen_lookup st q I Hd) as Hl.
    destruct (xsi_get (s_xsi st) q) as [l|] eqn:G.
    + apply ok_act'. intros st1 I1 Hkn1. pose proof (frozen_lookup st1 q I1 Hd) as Hl1.
      assert (G1 : xsi_get (s_xsi st1) q = Some l) by (rewrite (si_xsi _ I1), <- (si_xsi _ I); exact G).
      cbn [do_act]. rewrite G1. cbn. split; [exact I1|]. apply Hk. unfold lref_ok.
      rewrite <- (si_heap _ I1). rewrite G1 in Hl1. exact Hl1.
    + apply Hk. unfold lref_ok. cbn in Hl. cbn. exact Hl.
Qed.

Lemma ok_find_types_all K q k r :
  (forall K', ok K' (k (ideal_lookup w q)) r) -> ok K (m_find_types_all w q k) r.
Proof.
  intros Hk. unfold m_find_types_all. destruct (is_datatype_qname q) eqn:Hd.
  - replace [] with (ideal_lookup w q); [apply Hk|]. unfold ideal_lookup. rewrite Hd. reflexivity.
  - apply ok_build_xsi. intros K1. apply ok_act'. intros st I Hkn. cbn [do_act fst snd gained app]. split; [exact I|].
    pose proof (frozen_lookup st q I Hd) as Hl.
    destruct (xsi_get (s_xsi st) q) as [l|] eqn:G.
    + apply ok_act'. intros st1 I1 Hkn1. pose proof (frozen_lookup st1 q I1 Hd) as Hl1.
      assert (G1 : xsi_get (s_xsi st1) q = Some l) by (rewrite (si_xsi _ I1), <- (si_xsi _ I); exact G).
      cbn [do_act]. rewrite G1. cbn [fst snd gained app]. split; [exact I1|]. rewrite G1 in Hl1.
      specialize (Hk K1). rewrite <- Hl1 in Hk. exact Hk.
    + cbn in Hl. specialize (Hk (gained st (AXsiHas q) ++ K1)). rewrite <- Hl in Hk. exact Hk.
Qed.

Lemma ok_find_type K q k r :
  (forall K', ok K' (k (last (map Some (ideal_lookup w q)) None)) r) -> ok K (m_find_type w q k) r.
Proof.
  intros Hk. unfold m_find_type. apply ok_find_types. intros K1 ol Hol. apply ok_act'. intros st I Hkn.
  cbn. split; [exact I|]. rewrite (si_heap _ I), Hol. apply Hk.
Qed.

Lemma find_skipn {A} (p : A -> bool) l i a :
  nth_error l i = Some a -> find p (skipn i l) = if p a then Some a else find p (skipn (S i) l).
Proof. intros H. rewrite (nth_error_skipn _ _ _ H). reflexivity. Qed.

Lemma ok_sub_loop fuel : forall K c ol i k r l,
  heap_get (s_heap st0) ol = l -> (List.length l < i + fuel)%nat -> (i <= List.length l)%nat ->
  (forall K', ok K' (k (find (subclass_candidate w c) (skipn i l))) r) ->
  ok K (m_sub_loop fuel w c ol i k) r.
Proof.
  induction fuel as [|f IH]; intros K c ol i k r l Hl Hlen Hi Hk; [lia|].
  cbn [m_sub_loop]. apply ok_act'. intros st I Hkn. cbn. split; [exact I|].
  rewrite (si_heap _ I), Hl. destruct (nth_error l i) as [tp|] eqn:En.
  - rewrite (find_skipn _ _ _ _ En) in Hk. destruct (subclass_candidate w c tp); [apply Hk|].
    assert (i < List.length l)%nat by (apply nth_error_Some; congruence).
    apply IH with (l := l); auto; lia.
  - rewrite (nth_error_none_skipn _ _ En) in Hk. apply Hk.
Qed.

Lemma ideal_lookup_short q : (List.length (ideal_lookup w q) < sub_fuel w)%nat.
Proof.
  unfold ideal_lookup. destruct (is_datatype_qname q); [cbn; unfold sub_fuel; lia|].
  destruct (index_get (ideal_index w) q) as [l|] eqn:G; [|cbn; unfold sub_fuel; lia].
  unfold index_short in Hshort. rewrite forallb_forall in Hshort.
  assert (Hin : In (q, l) (ideal_index w)).
  { clear - G. induction (ideal_index w) as [|[k v] ix IH]; cbn in G; [discriminate|].
    destruct (str_eqb_spec k q) as [->|_]; [inversion G; left; reflexivity|right; auto]. }
  specialize (Hshort _ Hin). cbn [snd] in Hshort. apply Nat.ltb_lt in Hshort. exact Hshort.
Qed.

Lemma ok_find_subclass K c q k r :
  (forall K', ok K' (k (find (subclass_candidate w c) (ideal_lookup w q))) r) ->
  ok K (m_find_subclass w c q k) r.
Proof.
  intros Hk. unfold m_find_subclass. apply ok_find_types. intros K1 ol Hol.
  apply ok_sub_loop with (l := ideal_lookup w q); [exact Hol| |lia|exact Hk].
  pose proof (ideal_lookup_short q). lia.
Qed.

Lemma ok_fetch K c pns xt k r :
  canonical c pns ->
  (forall m q s, ideal_build w c pns = Some m -> truthy xt = Some q -> ostr_eqb (m_tq m) (Some q) = false ->
                 find (subclass_candidate w c) (ideal_lookup w q) = Some s -> canonical s pns) ->
  (forall K', ok K' (k (ideal_fetch w c pns xt)) r) -> ok K (m_fetch w c pns xt k) r.
Proof.
  intros Hc Hs Hk. unfold m_fetch. apply ok_build; [exact Hc|]. intros K1. unfold ideal_fetch in Hk.
  destruct (ideal_build w c pns) as [m|] eqn:Hb; [|apply Hk].
  destruct (truthy xt) as [q|] eqn:Ht; [|apply Hk].
  destruct (ostr_eqb (m_tq m) (Some q)) eqn:Eq; [apply Hk|].
  apply ok_find_subclass. intros K2.
  destruct (find (subclass_candidate w c) (ideal_lookup w q)) as [s|] eqn:Ef; [|apply Hk].
  apply ok_build; [eapply Hs; eauto|]. intros K3. apply Hk.
Qed.

(* ---- whole thread programs ---- *)
Fixpoint reqs_ok (s : script) : Prop :=
  match s with
  | Ret _ => True
  | Call c k => supported c = true ->
                (forall e, In e (call_reqs w c) -> canon (fst e) = Some (snd e)) /\ reqs_ok (k (ideal_call w c))
  end.

Lemma one_in c p m :
  ideal_build w c p = Some m ->
  In (c, m) (match ideal_build w c p with Some m => [(c, m)] | None => [] end).
Proof. intros ->. left. reflexivity. Qed.

Lemma ok_expand s : forall K, reqs_ok s -> ok K (expand w s) (ideal_run_c w s).
Proof.
  induction s as [r|c k IH]; intros K Hr; cbn [expand ideal_run_c].
  - constructor.
  - cbn [reqs_ok] in Hr.
    destruct c as [c pns|c pns xt|q|q|c q|names|names c|c pns| | |p u];
      cbn [expand ideal_run_c supported] in *;
      try (constructor; fail); destruct (Hr eq_refl) as [Hreq Hrest]; clear Hr.
    + apply ok_build.
      * intros m Hm. apply (Hreq (c, m)). cbn [call_reqs]. apply one_in. exact Hm.
      * intros K'. apply IH. exact Hrest.
    + apply ok_fetch.
      * intros m Hm. apply (Hreq (c, m)). cbn [call_reqs]. apply in_or_app. left. apply one_in. exact Hm.
      * intros m q s Hb Ht Eq Ef m' Hm'. apply (Hreq (s, m')). cbn [call_reqs]. apply in_or_app. right.
        rewrite Hb, Ht, Eq, Ef. apply one_in. exact Hm'.
      * intros K'. apply IH. exact Hrest.
    + apply ok_find_type. intros K'. apply IH. exact Hrest.
    + apply ok_find_types_all. intros K'. apply IH. exact Hrest.
    + apply ok_find_subclass. intros K'. apply IH. exact Hrest.
    + apply IH. exact Hrest.
Qed.

Lemma reqs_ok_of s :
  (forall e, In e (ideal_reqs w s) -> canon (fst e) = Some (snd e)) -> reqs_ok s.
Proof.
  induction s as [r|c k IH]; intros H; cbn [reqs_ok]; [exact I|]. intros Hs. cbn [ideal_reqs] in H. rewrite Hs in H.
  split.
  - intros e Hin. apply H. apply in_or_app. left. exact Hin.
  - apply IH. intros e Hin. apply H. apply in_or_app. right. exact Hin.
Qed.

(* ---- all threads together ---- *)
Definition tok (st : sstate) (m : mscript) (r : res) : Prop := exists K, known K st /\ ok K m r.

Lemma tok_other st a m r : tok st m r -> tok (fst (do_act w st a)) m r.
Proof. intros [K [Hk Ho]]. exists K. split; [apply known_step; exact Hk|exact Ho]. Qed.

Lemma tok_step st a k r :
  sinv st -> tok st (MAct a k) r ->
  sinv (fst (do_act w st a)) /\ tok (fst (do_act w st a)) (k (snd (do_act w st a))) r.
Proof.
  intros I [K [Hk Ho]]. inversion Ho; subst. split; [apply H2; assumption|].
  exists (gained st a ++ K). split; [apply known_gained; exact Hk|apply H4; assumption].
Qed.

Lemma forall2_set_nth {A B} (P : A -> B -> Prop) l rs i a r :
  Forall2 P l rs -> nth_error rs i = Some r -> P a r -> Forall2 P (set_nth l i a) rs.
Proof.
  intros H. revert i. induction H as [|x y l rs Hxy H IH]; intros [|i] Hn Ha; cbn in *; try discriminate.
  - inversion Hn; subst. constructor; assumption.
  - constructor; [assumption|]. apply IH; assumption.
Qed.

Lemma forall2_nth {A B} (P : A -> B -> Prop) l rs i a :
  Forall2 P l rs -> nth_error l i = Some a -> exists r, nth_error rs i = Some r /\ P a r.
Proof.
  intros H. revert i. induction H as [|x y l rs Hxy H IH]; intros [|i] Hn; cbn in *; try discriminate.
  - inversion Hn; subst. eauto.
  - apply IH. exact Hn.
Qed.

Lemma sched_step_inv st ts log rs i :
  sinv st -> Forall2 (tok st) ts rs ->
  let '(st1, ts1, _) := sched_step w (st, ts, log) i in sinv st1 /\ Forall2 (tok st1) ts1 rs.
Proof.
  intros I F. unfold sched_step. destruct (nth_error ts i) as [[r|a k]|] eqn:En; try (split; assumption).
  destruct (forall2_nth _ _ _ _ _ F En) as [r [Hr Ht]].
  destruct (tok_step _ _ _ _ I Ht) as [I1 Ht1].
  destruct (do_act w st a) as [st1 ans] eqn:Ed. cbn [fst snd] in *. split; [exact I1|].
  apply forall2_set_nth with (r := r); [|exact Hr|exact Ht1].
  clear - F Ed. induction F as [|m r0 l rs Hm F IH]; constructor; [|exact IH].
  replace st1 with (fst (do_act w st a)) by (rewrite Ed; reflexivity). apply tok_other. exact Hm.
Qed.

Lemma interleave_inv sched : forall st ts log rs,
  sinv st -> Forall2 (tok st) ts rs ->
  let '(st1, ts1, _) := fold_left (sched_step w) sched (st, ts, log) in sinv st1 /\ Forall2 (tok st1) ts1 rs.
Proof.
  induction sched as [|i sched IH]; intros st ts log rs I F; cbn [fold_left]; [split; assumption|].
  pose proof (sched_step_inv st ts log rs i I F) as H.
  destruct (sched_step w (st, ts, log) i) as [[st1 ts1] log1]. destruct H as [I1 F1]. apply IH; assumption.
Qed.

Lemma solo_ok K m r : ok K m r -> forall st, sinv st -> known K st ->
  snd (solo w st m) = r /\ sinv (fst (solo w st m))
  /\ (forall m2 r2, tok st m2 r2 -> tok (fst (solo w st m)) m2 r2).
Proof.
  induction 1 as [K r|K a k r Hi H IH]; intros st I Hk; cbn [solo].
  - cbn. auto.
  - pose proof (Hi st I Hk) as I1. specialize (IH st I Hk).
    destruct (do_act w st a) as [st1 ans] eqn:Ed. cbn [fst snd] in *.
    assert (Hk1 : known (gained st a ++ K) st1).
    { replace st1 with (fst (do_act w st a)) by (rewrite Ed; reflexivity). apply known_gained. exact Hk. }
    destruct (IH st1 I1 Hk1) as [Hr [I2 Ht]]. split; [exact Hr|]. split; [exact I2|].
    intros m2 r2 Hm2. apply Ht. replace st1 with (fst (do_act w st a)) by (rewrite Ed; reflexivity).
    apply tok_other. exact Hm2.
Qed.

Lemma drain_ok ts : forall st rs,
  sinv st -> Forall2 (tok st) ts rs -> snd (drain w st ts) = rs.
Proof.
  induction ts as [|m ts IH]; intros st rs I F; inversion F; subst; cbn [drain]; [reflexivity|].
  destruct H1 as [K [Hk Ho]]. destruct (solo_ok _ _ _ Ho st I Hk) as [Hr [I1 Ht]].
  destruct (solo w st m) as [st1 r1]. cbn [fst snd] in *. subst r1.
  assert (F1 : Forall2 (tok st1) ts l').
  { clear - H3 Ht. induction H3; constructor; auto. }
  specialize (IH st1 l' I1 F1). destruct (drain w st1 ts) as [st2 rs2]. cbn in *. subst. reflexivity.
Qed.

Theorem conc_run_ideal progs sched :
  sinv st0 -> (forall s, In s progs -> reqs_ok s) ->
  conc_run w st0 progs sched = map (ideal_run_c w) progs
  /\ map (solo_run w st0) progs = map (ideal_run_c w) progs.
Proof.
  intros I Hr.
  assert (F : Forall2 (tok st0) (map (expand w) progs) (map (ideal_run_c w) progs)).
  { induction progs as [|s progs IH]; cbn; constructor.
    - exists []. split; [intros c []|]. apply ok_expand. apply Hr. left. reflexivity.
    - apply IH. intros s' Hin. apply Hr. right. exact Hin. }
  split.
  - unfold conc_run, interleave.
    pose proof (interleave_inv sched st0 _ [] _ I F) as H.
    destruct (fold_left (sched_step w) sched (st0, map (expand w) progs, [])) as [[st1 ts1] log1].
    destruct H as [I1 F1]. apply drain_ok; assumption.
  - apply map_ext_in. intros s Hin. unfold solo_run.
    assert (Ho : ok [] (expand w s) (ideal_run_c w s)) by (apply ok_expand; apply Hr; exact Hin).
    destruct (solo_ok _ _ _ Ho st0 I) as [H _]; [intros c []|exact H].
Qed.
End Safe.

(* ---- from the computable guard ---- *)
Lemma index_eqb_eq a b : index_eqb a b = true -> a = b.
Proof.
  unfold index_eqb. intros H. apply (list_eqb_spec (fun x y : str * list cid =>
    str_eqb (fst x) (fst y) && lcid_eqb (snd x) (snd y))); [|exact H].
  intros [q1 l1] [q2 l2]. cbn. rewrite andb_true_iff, str_eqb_eq, lcid_eqb_eq. split.
  - intros [-> ->]. reflexivity.
  - intros E. inversion E. auto.
Qed.

Lemma cache_get_in l c m : cache_get l c = Some m -> In (c, m) l.
Proof.
  induction l as [|[k v] l IH]; cbn; [discriminate|].
  destruct (N.eqb_spec k c) as [->|_]; intros H; [inversion H; left; reflexivity|right; auto].
Qed.

(* When the index is current and the requests are ns-closed, every interleaving of any
   number of threads gives every call the result of the stateless reference semantics,
   which is also what the call returns when it runs alone. *)
Theorem warm_context_safe w st0 progs sched :
  warm_b w st0 = true -> conc_guard w (s_cache st0) progs = true ->
  conc_run w st0 progs sched = map (ideal_run_c w) progs
  /\ map (solo_run w st0) progs = map (ideal_run_c w) progs.
Proof.
  unfold warm_b, conc_guard. intros Hw Hg.
  apply andb_true_iff in Hw as [Hs Hi]. apply N.eqb_eq in Hs. apply index_eqb_eq in Hi.
  repeat (apply andb_true_iff in Hg as [Hg ?]).
  set (reqs := s_cache st0 ++ flat_map (ideal_reqs w) progs) in *.
  set (canon := first_build reqs).
  assert (Hcanon : forall c m, In (c, m) reqs -> canon c = Some m).
  { intros c m Hin. unfold canon. destruct (first_build_some _ _ _ Hin) as [m' Hm']. rewrite Hm'. f_equal.
    eapply consistent_spec; eauto using first_build_in. }
  apply (conc_run_ideal w canon st0 Hs Hi); try assumption.
  - constructor; try reflexivity.
    + intros c m G. apply Hcanon. apply in_or_app. left. apply cache_get_in. exact G.
    + intros c m G. apply cache_get_in in G. unfold cache_known in H1. rewrite forallb_forall in H1.
      specialize (H1 _ G). cbn in H1. destruct (find_class w c) as [cd|]; [eauto|discriminate].
  - intros s Hin. apply reqs_ok_of. intros [c m] He. apply Hcanon. apply in_or_app. right.
    apply in_flat_map. exists s. split; assumption.
Qed.
