(* Proofs/SchedSafe.v — context_safe: when the threads' requests are ns-closed, every
   interleaving gives every call its solo result, on a cold context as well as on a
   warm one (since build_xsi_cache publishes a complete index with one store). *)
From Coq Require Import NArith PeanoNat List Bool Lia.
From XV Require Import Base.Str Base.Eqb Model.Context Model.Sched
  Proofs.ContextEq Proofs.ContextInv Proofs.ContextHist.
Import ListNotations.
Open Scope N_scope.

Lemma index_eqb_eq a b : index_eqb a b = true <-> a = b.
Proof.
  unfold index_eqb. apply (list_eqb_spec (fun x y : str * list cid =>
    str_eqb (fst x) (fst y) && lcid_eqb (snd x) (snd y))).
  intros [q1 l1] [q2 l2]. cbn. rewrite andb_true_iff, str_eqb_eq, lcid_eqb_eq. split.
  - intros [-> ->]. reflexivity.
  - intros H. inversion H. auto.
Qed.

Lemma cache_get_set l c m c' :
  cache_get (cache_set l c m) c' = if N.eqb c c' then Some m else cache_get l c'.
Proof.
  induction l as [|[k v] l IH]; cbn.
  - destruct (N.eqb_spec c c'); reflexivity.
  - destruct (N.eqb_spec k c) as [->|Hn]; cbn.
    + destruct (N.eqb_spec c c'); reflexivity.
    + rewrite IH. destruct (N.eqb_spec k c') as [->|_]; [|reflexivity].
      destruct (N.eqb_spec c c') as [->|_]; [congruence|reflexivity].
Qed.

Lemma cache_get_in l c m : cache_get l c = Some m -> In (c, m) l.
Proof.
  induction l as [|[k v] l IH]; cbn; [discriminate|].
  destruct (N.eqb_spec k c) as [->|_]; intros H; [inversion H; left; reflexivity|right; auto].
Qed.

Section Safe.
Variable w : world.
Variable canon : cid -> option meta.
Variable st0 : sstate.                    (* the state the threads start from *)

(* the index every lookup answers from *)
Definition E : list (str * list cid) := eff_index w st0.

(* the state invariant: the cache holds canonical metadata of existing classes; the
   index is E whenever it counts as current; a context that counted as current at the
   start keeps doing so *)
Record sinv (st : sstate) : Prop := mkSinv {
  si_cache : forall c m, cache_get (s_cache st) c = Some m -> canon c = Some m;
  si_known : forall c m, cache_get (s_cache st) c = Some m ->
               exists cd, find_class w c = Some cd /\ c_ok cd = true;
  si_seen_ix : s_seen st = w_modules w -> s_xsi st = E;
  si_seen0 : s_seen st0 = w_modules w -> s_seen st = w_modules w;
  si_unsup : forall c, In c (s_unsup st) -> ideal_build w c None = None }.

(* thread-local knowledge that stays true: these classes are cached; the index is E *)
Record kn := mkK { k_cached : list cid; k_ix : bool }.
Definition known (K : kn) (st : sstate) : Prop :=
  (forall c, In c (k_cached K) -> cache_get (s_cache st) c <> None)
  /\ (k_ix K = true -> s_xsi st = E).

(* what every action of an ok program preserves *)
Definition mono (st st1 : sstate) : Prop :=
  (forall c, cache_get (s_cache st) c <> None -> cache_get (s_cache st1) c <> None)
  /\ (s_xsi st = E -> s_xsi st1 = E).

Lemma known_mono K st st1 : mono st st1 -> known K st -> known K st1.
Proof. intros [M1 M2] [H1 H2]. split; [intros c Hc; apply M1; apply H1; exact Hc|intros Hi; apply M2; apply H2; exact Hi]. Qed.

Lemma mono_refl st : mono st st.
Proof. split; auto. Qed.

(* what a thread learns from an action *)
Definition gained (K : kn) (st : sstate) (a : act) : kn :=
  match a with
  | ACacheHas c => match cache_get (s_cache st) c with
                   | Some _ => mkK (c :: k_cached K) (k_ix K)
                   | None => K
                   end
  | ACacheSet c _ => mkK (c :: k_cached K) (k_ix K)
  | ASeenRead | ASeenReadAll => if N.eqb (s_seen st) (w_modules w) then mkK (k_cached K) true else K
  | AXsiPublish ix => if index_eqb ix E then mkK (k_cached K) true else K
  | _ => K
  end.

Lemma known_gained K st a :
  sinv st -> known K st -> mono st (fst (do_act w st a)) -> known (gained K st a) (fst (do_act w st a)).
Proof.
  intros I Hk M. pose proof (known_mono K _ _ M Hk) as [H1 H2].
  destruct a; cbn [gained]; try (split; assumption).
  - destruct (cache_get (s_cache st) c) eqn:G; [|split; assumption]. split; [|exact H2].
    intros c' [<-|Hc]; [cbn; congruence|apply H1; exact Hc].
  - split; [|exact H2]. intros c' [<-|Hc]; [cbn; rewrite cache_get_set, N.eqb_refl; discriminate|apply H1; exact Hc].
  - destruct (N.eqb_spec (s_seen st) (w_modules w)) as [Es|_]; [|split; assumption].
    split; [exact H1|]. intros _. cbn. apply (si_seen_ix _ I). exact Es.
  - destruct (index_eqb ix E) eqn:Ei; [|split; assumption]. apply index_eqb_eq in Ei.
    split; [exact H1|]. intros _. cbn. exact Ei.
  - destruct (N.eqb_spec (s_seen st) (w_modules w)) as [Es|_]; [|split; assumption].
    split; [exact H1|]. intros _. cbn. apply (si_seen_ix _ I). exact Es.
Qed.

(* "from every state that satisfies the invariant and in which K holds, the program
   keeps the invariant and ends with r" *)
Inductive ok : kn -> mscript -> res -> Prop :=
| ok_ret K r : ok K (MRet r) r
| ok_act K a k r :
    (forall st, sinv st -> known K st -> sinv (fst (do_act w st a)) /\ mono st (fst (do_act w st a))) ->
    (forall st, sinv st -> known K st -> ok (gained K st a) (k (snd (do_act w st a))) r) ->
    ok K (MAct a k) r.

Lemma ok_read K a k r :
  (forall st, fst (do_act w st a) = st) ->
  (forall st, sinv st -> known K st -> ok (gained K st a) (k (snd (do_act w st a))) r) ->
  ok K (MAct a k) r.
Proof.
  intros Hs Hk. constructor; [|exact Hk]. intros st I _. rewrite Hs. split; [exact I|apply mono_refl].
Qed.

(* ---- the methods ---- *)
Definition canonical (c : cid) (pns : ostr) : Prop :=
  forall m, ideal_build w c pns = Some m -> canon c = Some m.

(* continuations are stated for every knowledge that keeps "the index is E" *)
Definition keeps (K K' : kn) : Prop := k_ix K = true -> k_ix K' = true.

Lemma ok_get K c k r m :
  In c (k_cached K) -> canon c = Some m -> ok K (k (Some m)) r -> ok K (m_get c k) r.
Proof.
  intros Hin Hc Hk. unfold m_get. apply ok_read; [reflexivity|]. intros st I [Hk1 Hk2]. cbn.
  destruct (cache_get (s_cache st) c) as [m'|] eqn:G.
  - pose proof (si_cache _ I _ _ G) as Em. rewrite Hc in Em. inversion Em; subst. exact Hk.
  - exfalso. apply (Hk1 c Hin). exact G.
Qed.

(* the continuation of a build may rely on the class being cached from then on *)
Lemma ok_build K c pns k r :
  canonical c pns ->
  (forall K', keeps K K' -> (ideal_build w c pns <> None -> In c (k_cached K')) ->
              ok K' (k (ideal_build w c pns)) r) ->
  ok K (m_build w c pns k) r.
Proof.
  intros Hcan Hk. unfold m_build. apply ok_read; [reflexivity|]. intros st I Hkn. cbn [do_act fst snd gained].
  destruct (cache_get (s_cache st) c) as [m|] eqn:G.
  - destruct (si_known _ I _ _ G) as [cd [Hf Hok]].
    assert (Hi : ideal_build w c pns = Some (build_meta cd pns)) by (unfold ideal_build; rewrite Hf, Hok; reflexivity).
    pose proof (si_cache _ I _ _ G) as Hm. rewrite (Hcan _ Hi) in Hm. inversion Hm; subst m.
    apply ok_get with (m := build_meta cd pns); [left; reflexivity|apply Hcan; exact Hi|].
    rewrite <- Hi. apply Hk; [unfold keeps; auto|intros _; left; reflexivity].
  - destruct (ideal_build w c pns) as [m|] eqn:Hi.
    + constructor.
      * intros st1 I1 Hkn1. cbn [do_act fst]. split.
        -- destruct (ideal_build_some _ _ _ _ Hi) as [cd [Hf [Hok _]]].
           constructor; cbn; try apply I1.
           ++ intros c' m'. rewrite cache_get_set. destruct (N.eqb_spec c c') as [<-|_].
              ** intros Em; inversion Em; subst. apply Hcan. exact Hi.
              ** apply I1.
           ++ intros c' m'. rewrite cache_get_set. destruct (N.eqb_spec c c') as [<-|_]; [eauto|apply I1].
        -- split; [|auto]. intros c' Hc'. cbn. rewrite cache_get_set. destruct (N.eqb c c'); [discriminate|exact Hc'].
      * intros st1 I1 Hkn1. cbn [do_act snd gained].
        apply ok_get with (m := m); [left; reflexivity|apply Hcan; exact Hi|].
        apply Hk; [unfold keeps; auto|intros _; left; reflexivity].
    + apply ok_read; [reflexivity|]. intros st1 I1 Hkn1. cbn. apply Hk; [unfold keeps; auto|congruence].
Qed.

Lemma ok_build_xsi K k r :
  (forall K', k_ix K' = true -> ok K' k r) -> ok K (m_build_xsi w k) r.
Proof.
  intros Hk. unfold m_build_xsi. apply ok_read; [reflexivity|]. intros st I Hkn. cbn [do_act fst snd gained].
  rewrite (N.eqb_sym (w_modules w) (s_seen st)).
  destruct (N.eqb_spec (s_seen st) (w_modules w)) as [Es|Ens]; [apply Hk; reflexivity|].
  (* a rebuild: the context did not count as current at the start either, so E is the ideal index *)
  assert (HE : E = ideal_index w).
  { unfold E, eff_index. destruct (N.eqb_spec (s_seen st0) (w_modules w)) as [E0|_]; [|reflexivity].
    exfalso. apply Ens. apply (si_seen0 _ I). exact E0. }
  constructor.
  - intros st1 I1 Hkn1. cbn [do_act fst]. split.
    + constructor; cbn; try apply I1. intros _. symmetry. exact HE.
    + split; [auto|]. intros _. cbn. symmetry. exact HE.
  - intros st1 I1 Hkn1. cbn [do_act snd gained].
    assert (Hi : index_eqb (ideal_index w) E = true) by (apply index_eqb_eq; symmetry; exact HE). rewrite Hi.
    constructor.
    + intros st2 I2 [_ Hk2]. cbn [do_act fst]. split.
      * constructor; cbn; try apply I2; intros _; try reflexivity. apply Hk2. reflexivity.
      * split; auto.
    + intros st2 I2 Hkn2. cbn [do_act snd gained]. apply Hk. reflexivity.
Qed.

Lemma ok_find_types K q k r :
  (forall K', ok K' (k (ref_lookup E q)) r) -> ok K (m_find_types w q k) r.
Proof.
  intros Hk. unfold m_find_types, ref_lookup in *. destruct (is_datatype_qname q); [apply Hk|].
  apply ok_build_xsi. intros K1 Hix. apply ok_read; [reflexivity|]. intros st I [_ Hx]. cbn [do_act fst snd gained].
  rewrite (Hx Hix). destruct (index_get E q) as [l|] eqn:G; [|apply Hk].
  constructor.
  - intros st1 I1 [_ Hx1]. cbn [do_act]. rewrite (Hx1 Hix), G. cbn. split; [exact I1|apply mono_refl].
  - intros st1 I1 [_ Hx1]. cbn [do_act gained]. rewrite (Hx1 Hix), G. cbn. apply Hk.
Qed.

Lemma ok_find_type K q k r :
  (forall K', ok K' (k (last (map Some (ref_lookup E q)) None)) r) -> ok K (m_find_type w q k) r.
Proof. intros Hk. unfold m_find_type. apply ok_find_types. exact Hk. Qed.

Lemma ok_find_subclass K c q k r :
  (forall K', ok K' (k (find (subclass_candidate w c) (ref_lookup E q))) r) -> ok K (m_find_subclass w c q k) r.
Proof. intros Hk. unfold m_find_subclass. apply ok_find_types. exact Hk. Qed.

Lemma ok_fetch K c pns xt k r :
  canonical c pns ->
  (forall m q s, ideal_build w c pns = Some m -> truthy xt = Some q -> ostr_eqb (m_tq m) (Some q) = false ->
                 find (subclass_candidate w c) (ref_lookup E q) = Some s -> canonical s pns) ->
  (forall K', ok K' (k (ref_fetch w E c pns xt)) r) -> ok K (m_fetch w c pns xt k) r.
Proof.
  intros Hc Hs Hk. unfold m_fetch. apply ok_build; [exact Hc|]. intros K1 _ _. unfold ref_fetch in Hk.
  destruct (ideal_build w c pns) as [m|] eqn:Hb; [|apply Hk].
  destruct (truthy xt) as [q|] eqn:Ht; [|apply Hk].
  destruct (ostr_eqb (m_tq m) (Some q)) eqn:Eq; [apply Hk|].
  apply ok_find_subclass. intros K2.
  destruct (find (subclass_candidate w c) (ref_lookup E q)) as [s|] eqn:Ef; [|apply Hk].
  apply ok_build; [eapply Hs; eauto|]. intros K3 _ _. apply Hk.
Qed.

(* ---- local_names_match, find_type_by_fields ---- *)
Lemma ok_names_match K names c k r :
  canonical c None ->
  (forall K', keeps K K' -> (ideal_names_match w names c = true -> In c (k_cached K')) ->
              ok K' (k (ideal_names_match w names c)) r) ->
  ok K (m_names_match w names c k) r.
Proof.
  intros Hcan Hk. unfold m_names_match, ideal_names_match in *. apply ok_read; [reflexivity|].
  intros st I Hkn. cbn [do_act fst snd gained].
  destruct (memN c (s_unsup st)) eqn:Hu.
  - apply memN_in in Hu. rewrite (si_unsup _ I _ Hu) in Hk. apply Hk; [unfold keeps; auto|discriminate].
  - apply ok_build; [exact Hcan|]. intros K1 HK1 Hin1.
    destruct (ideal_build w c None) as [m|] eqn:Hi.
    + apply Hk; [exact HK1|]. intros _. apply Hin1. discriminate.
    + destruct (find_class w c) as [cd|]; [|apply Hk; [exact HK1|discriminate]].
      constructor.
      * intros st1 I1 Hkn1. cbn [do_act fst]. split; [|split; auto].
        constructor; cbn; try apply I1. intros c' Hc'.
        destruct (memN c (s_unsup st1)); [apply (si_unsup _ I1); exact Hc'|].
        apply in_app_or in Hc' as [Hc'|[<-|[]]]; [apply (si_unsup _ I1); exact Hc'|exact Hi].
      * intros st1 I1 Hkn1. cbn [do_act snd gained]. apply Hk; [exact HK1|discriminate].
Qed.

Definition score (names : list str) (c : cid) : cid * (nat * str) :=
  (c, (match ideal_build w c None with Some m => field_diff names m | None => O end, class_name w c)).

Lemma ok_scan names l : forall K acc k r,
  (forall c, In c l -> canonical c None) ->
  (forall K', keeps K K' -> ok K' (k (acc ++ map (score names) (filter (ideal_names_match w names) l))) r) ->
  ok K (m_scan w names l acc k) r.
Proof.
  induction l as [|c l IH]; intros K acc k r Hcan Hk; cbn [m_scan].
  - cbn in Hk. rewrite app_nil_r in Hk. apply Hk. unfold keeps; auto.
  - apply ok_names_match; [apply Hcan; left; reflexivity|]. intros K1 HK1 Hin1.
    cbn [filter] in Hk. destruct (ideal_names_match w names c) eqn:Hn.
    + assert (Hb : exists m, ideal_build w c None = Some m).
      { unfold ideal_names_match in Hn. destruct (ideal_build w c None) as [m|]; [eauto|discriminate]. }
      destruct Hb as [m Hb].
      apply ok_read; [reflexivity|]. intros st I [Hk1 _]. cbn [do_act snd gained].
      destruct (cache_get (s_cache st) c) as [m'|] eqn:G; [|exfalso; apply (Hk1 c (Hin1 eq_refl)); exact G].
      pose proof (si_cache _ I _ _ G) as Em. rewrite (Hcan c (or_introl eq_refl) _ Hb) in Em. inversion Em; subst m'.
      apply IH; [intros c' Hc'; apply Hcan; right; exact Hc'|]. intros K2 HK2.
      rewrite <- app_assoc. cbn [map app] in Hk. unfold score at 1 in Hk. rewrite Hb in Hk.
      apply Hk. unfold keeps in *. auto.
    + apply IH; [intros c' Hc'; apply Hcan; right; exact Hc'|]. intros K2 HK2. apply Hk. unfold keeps in *. auto.
Qed.

Lemma ok_find_by_fields K names k r :
  (forall c, In c (flat_map snd E) -> canonical c None) ->
  (forall K', ok K' (k (ref_by_fields w E names)) r) -> ok K (m_find_by_fields w names k) r.
Proof.
  intros Hcan Hk. unfold m_find_by_fields.
  assert (Hgo : forall K1, ok K1 (m_scan w names (flat_map snd E) [] (fun scored => k (min_by scored None))) r).
  { intros K1. apply ok_scan; [exact Hcan|]. intros K2 _. cbn [app]. apply Hk. }
  apply ok_read; [reflexivity|]. intros st I Hkn. cbn [do_act fst snd gained].
  rewrite (N.eqb_sym (w_modules w) (s_seen st)).
  destruct (N.eqb_spec (s_seen st) (w_modules w)) as [Es|Ens].
  - rewrite (si_seen_ix _ I Es). apply Hgo.
  - assert (HE : E = ideal_index w).
    { unfold E, eff_index. destruct (N.eqb_spec (s_seen st0) (w_modules w)) as [E0|_]; [|reflexivity].
      exfalso. apply Ens. apply (si_seen0 _ I). exact E0. }
    constructor.
    + intros st1 I1 Hkn1. cbn [do_act fst]. split.
      * constructor; cbn; try apply I1. intros _. symmetry. exact HE.
      * split; [auto|]. intros _. cbn. symmetry. exact HE.
    + intros st1 I1 Hkn1. cbn [do_act snd gained].
      assert (Hi : index_eqb (ideal_index w) E = true) by (apply index_eqb_eq; symmetry; exact HE). rewrite Hi.
      constructor.
      * intros st2 I2 [_ Hk2]. cbn [do_act fst]. split.
        -- constructor; cbn; try apply I2; intros _; try reflexivity. apply Hk2. reflexivity.
        -- split; auto.
      * intros st2 I2 [_ Hk2]. cbn [do_act snd gained]. rewrite (Hk2 eq_refl). apply Hgo.
Qed.

(* ---- build_recursive ---- *)
Fixpoint rec_good (fuel : nat) (c : cid) (pns : ostr) : Prop :=
  match fuel with
  | O => True
  | S f =>
      match ideal_build w c pns with
      | None => True
      | Some m =>
          canon c = Some m /\
          Forall (fun v => match v_type v with
                           | TCls t => rec_good f t (m_ns m) /\ (f <> O -> ideal_build w t (m_ns m) <> None)
                           | _ => True
                           end) (m_vars m)
      end
  end.
Definition rec_ans (fuel : nat) (c : cid) (pns : ostr) : bool :=
  match fuel with
  | O => true
  | S _ => match ideal_build w c pns with Some _ => true | None => false end
  end.

Lemma ok_build_rec fuel : forall K c pns k r,
  rec_good fuel c pns ->
  (forall K', keeps K K' -> ok K' (k (rec_ans fuel c pns)) r) ->
  ok K (m_build_rec fuel w c pns k) r.
Proof.
  induction fuel as [|f IH]; intros K c pns k r Hg Hk; cbn [m_build_rec].
  - apply Hk. unfold keeps; auto.
  - apply ok_read; [reflexivity|]. intros st I Hkn. cbn [do_act fst snd gained]. cbn [rec_ans] in Hk. cbn [rec_good] in Hg.
    destruct (cache_get (s_cache st) c) as [m0|] eqn:G.
    + destruct (si_known _ I _ _ G) as [cd [Hf Hok]].
      assert (Hi : ideal_build w c pns = Some (build_meta cd pns)) by (unfold ideal_build; rewrite Hf, Hok; reflexivity).
      rewrite Hi in Hk. apply Hk. unfold keeps; auto.
    + apply ok_build.
      * intros m Hm. rewrite Hm in Hg. apply Hg.
      * intros K1 HK1 _. destruct (ideal_build w c pns) as [m|] eqn:Hi; [|apply Hk; exact HK1].
        destruct Hg as [_ Hvars]. revert K1 HK1. induction (m_vars m) as [|v vars IHv]; intros K1 HK1.
        -- apply Hk. exact HK1.
        -- inversion Hvars as [|v' vs Hv Hrest]; subst. destruct (v_type v) as [|t|].
           ++ apply IHv; assumption.
           ++ destruct Hv as [Hgt Hnt]. apply IH; [exact Hgt|]. intros K2 HK2.
              assert (Ht : rec_ans f t (m_ns m) = true).
              { unfold rec_ans. destruct f; [reflexivity|].
                destruct (ideal_build w t (m_ns m)); [reflexivity|]. exfalso. apply Hnt; [discriminate|reflexivity]. }
              rewrite Ht. apply IHv; [exact Hrest|]. unfold keeps in *. auto.
           ++ apply IHv; assumption.
Qed.

Lemma rec_good_of fuel : forall c pns,
  (forall e, In e (rec_reqs fuel w c pns) -> canon (fst e) = Some (snd e)) ->
  rec_closed fuel w c pns = true -> rec_good fuel c pns.
Proof.
  induction fuel as [|f IH]; intros c pns Hr Hc; cbn [rec_good]; [exact I|].
  cbn [rec_reqs rec_closed] in Hr, Hc. destruct (ideal_build w c pns) as [m|]; [|exact I]. split.
  - apply (Hr (c, m)). left. reflexivity.
  - rewrite forallb_forall in Hc. apply Forall_forall. intros v Hv. specialize (Hc v Hv).
    destruct (v_type v) as [|t|] eqn:Et; try exact I.
    apply andb_true_iff in Hc as [Hc1 Hc2]. split.
    + apply IH; [|exact Hc1]. intros e He. apply Hr. right. apply in_flat_map. exists v. split; [exact Hv|].
      rewrite Et. exact He.
    + intros Hf. destruct f; [congruence|]. destruct (ideal_build w t (m_ns m)); [discriminate|discriminate].
Qed.

(* ---- whole thread programs ---- *)
Fixpoint reqs_ok (s : script) : Prop :=
  match s with
  | Ret _ => True
  | Call c k => supported c = true ->
                (forall e, In e (call_reqs w E c) -> canon (fst e) = Some (snd e))
                /\ match c with CBuildRecursive c p => rec_closed (rec_fuel w) w c p = true | _ => True end
                /\ reqs_ok (k (ref_call w E c))
  end.

Lemma one_in c p m :
  ideal_build w c p = Some m ->
  In (c, m) (match ideal_build w c p with Some m => [(c, m)] | None => [] end).
Proof. intros ->. left. reflexivity. Qed.

Lemma ok_expand s : forall K, reqs_ok s -> ok K (expand w s) (ref_run w E s).
Proof.
  induction s as [r|c k IH]; intros K Hr; cbn [expand ref_run].
  - constructor.
  - cbn [reqs_ok] in Hr.
    destruct c as [c pns|c pns xt|q|q|c q|names|names c|c pns| | |p u];
      cbn [expand ref_run supported ref_call] in *;
      try (constructor; fail); destruct (Hr eq_refl) as [Hreq [Hrec Hrest]]; clear Hr.
    + apply ok_build.
      * intros m Hm. apply (Hreq (c, m)). cbn [call_reqs]. apply one_in. exact Hm.
      * intros K' _ _. apply IH. exact Hrest.
    + apply ok_fetch.
      * intros m Hm. apply (Hreq (c, m)). cbn [call_reqs]. apply in_or_app. left. apply one_in. exact Hm.
      * intros m q s Hb Ht Eq Ef m' Hm'. apply (Hreq (s, m')). cbn [call_reqs]. apply in_or_app. right.
        rewrite Hb, Ht, Eq, Ef. apply one_in. exact Hm'.
      * intros K'. apply IH. exact Hrest.
    + apply ok_find_type. intros K'. apply IH. exact Hrest.
    + apply ok_find_types. intros K'. apply IH. exact Hrest.
    + apply ok_find_subclass. intros K'. apply IH. exact Hrest.
    + apply ok_find_by_fields.
      * intros c Hin m Hm. apply (Hreq (c, m)). cbn [call_reqs]. apply in_flat_map. exists c. split; [exact Hin|].
        apply one_in. exact Hm.
      * intros K'. apply IH. exact Hrest.
    + apply ok_names_match.
      * intros m Hm. apply (Hreq (c, m)). cbn [call_reqs]. apply one_in. exact Hm.
      * intros K' _ _. apply IH. exact Hrest.
    + apply ok_build_rec.
      * apply rec_good_of; [|exact Hrec]. intros e He. apply Hreq. cbn [call_reqs]. exact He.
      * intros K' _. unfold rec_ans, rec_fuel. destruct (ideal_build w c pns); apply IH; exact Hrest.
    + apply IH. exact Hrest.
Qed.

Lemma reqs_ok_of s :
  (forall e, In e (ref_reqs w E s) -> canon (fst e) = Some (snd e)) -> ref_rec_closed w E s = true -> reqs_ok s.
Proof.
  induction s as [r|c k IH]; intros H Hc; cbn [reqs_ok]; [exact I|]. intros Hs.
  cbn [ref_reqs ref_rec_closed] in H, Hc. rewrite Hs in H, Hc. apply andb_true_iff in Hc as [Hc1 Hc2].
  split; [|split].
  - intros e Hin. apply H. apply in_or_app. left. exact Hin.
  - destruct c; try exact I. exact Hc1.
  - apply IH; [|exact Hc2]. intros e Hin. apply H. apply in_or_app. right. exact Hin.
Qed.

(* ---- all threads together ---- *)
Definition tok (st : sstate) (m : mscript) (r : res) : Prop := exists K, known K st /\ ok K m r.

Lemma tok_mono st st1 m r : mono st st1 -> tok st m r -> tok st1 m r.
Proof. intros M [K [Hk Ho]]. exists K. split; [eapply known_mono; eauto|exact Ho]. Qed.

Lemma tok_step st a k r :
  sinv st -> tok st (MAct a k) r ->
  sinv (fst (do_act w st a)) /\ mono st (fst (do_act w st a))
  /\ tok (fst (do_act w st a)) (k (snd (do_act w st a))) r.
Proof.
  intros I [K [Hk Ho]]. inversion Ho; subst. destruct (H2 st I Hk) as [I1 M]. split; [exact I1|]. split; [exact M|].
  exists (gained K st a). split; [apply known_gained; assumption|apply H4; assumption].
Qed.

Lemma forall2_set_nth {A B} (P : A -> B -> Prop) l rs i a r :
  Forall2 P l rs -> nth_error rs i = Some r -> P a r -> Forall2 P (set_nth l i a) rs.
Proof.
  intros H. revert i. induction H as [|x y l rs Hxy H IH]; intros [|i] Hn Ha; cbn in *; try discriminate.
  - inversion Hn; subst. constructor; assumption.
  - constructor; [assumption|]. apply IH; assumption.
Qed.

Lemma forall2_nth {A B} (P : A -> B -> Prop) l rs i a :
  Forall2 P l rs -> nth_error l i = Some a -> exists r, nth_error rs i = Some r /\ P a r.
Proof.
  intros H. revert i. induction H as [|x y l rs Hxy H IH]; intros [|i] Hn; cbn in *; try discriminate.
  - inversion Hn; subst. eauto.
  - apply IH. exact Hn.
Qed.

Lemma sched_step_inv st ts log rs i :
  sinv st -> Forall2 (tok st) ts rs ->
  let '(st1, ts1, _) := sched_step w (st, ts, log) i in sinv st1 /\ Forall2 (tok st1) ts1 rs.
Proof.
  intros I F. unfold sched_step. destruct (nth_error ts i) as [[r|a k]|] eqn:En; try (split; assumption).
  destruct (forall2_nth _ _ _ _ _ F En) as [r [Hr Ht]].
  destruct (tok_step _ _ _ _ I Ht) as [I1 [M Ht1]].
  destruct (do_act w st a) as [st1 ans] eqn:Ed. cbn [fst snd] in *. split; [exact I1|].
  apply forall2_set_nth with (r := r); [|exact Hr|exact Ht1].
  clear - F M. induction F as [|m r0 l rs Hm F IH]; constructor; [|exact IH]. eapply tok_mono; eauto.
Qed.

Lemma interleave_inv sched : forall st ts log rs,
  sinv st -> Forall2 (tok st) ts rs ->
  let '(st1, ts1, _) := fold_left (sched_step w) sched (st, ts, log) in sinv st1 /\ Forall2 (tok st1) ts1 rs.
Proof.
  induction sched as [|i sched IH]; intros st ts log rs I F; cbn [fold_left]; [split; assumption|].
  pose proof (sched_step_inv st ts log rs i I F) as H.
  destruct (sched_step w (st, ts, log) i) as [[st1 ts1] log1]. destruct H as [I1 F1]. apply IH; assumption.
Qed.

Lemma solo_ok K m r : ok K m r -> forall st, sinv st -> known K st ->
  snd (solo w st m) = r /\ sinv (fst (solo w st m))
  /\ (forall m2 r2, tok st m2 r2 -> tok (fst (solo w st m)) m2 r2).
Proof.
  induction 1 as [K r|K a k r Hi H IH]; intros st I Hk; cbn [solo].
  - cbn. auto.
  - destruct (Hi st I Hk) as [I1 M]. specialize (IH st I Hk).
    pose proof (known_gained K st a I Hk M) as Hk1.
    destruct (do_act w st a) as [st1 ans] eqn:Ed. cbn [fst snd] in *.
    destruct (IH st1 I1 Hk1) as [Hr [I2 Ht]]. split; [exact Hr|]. split; [exact I2|].
    intros m2 r2 Hm2. apply Ht. eapply tok_mono; eauto.
Qed.

Lemma drain_ok ts : forall st rs,
  sinv st -> Forall2 (tok st) ts rs -> snd (drain w st ts) = rs.
Proof.
  induction ts as [|m ts IH]; intros st rs I F; inversion F; subst; cbn [drain]; [reflexivity|].
  destruct H1 as [K [Hk Ho]]. destruct (solo_ok _ _ _ Ho st I Hk) as [Hr [I1 Ht]].
  destruct (solo w st m) as [st1 r1]. cbn [fst snd] in *. subst r1.
  assert (F1 : Forall2 (tok st1) ts l').
  { clear - H3 Ht. induction H3; constructor; auto. }
  specialize (IH st1 l' I1 F1). destruct (drain w st1 ts) as [st2 rs2]. cbn in *. subst. reflexivity.
Qed.

Theorem conc_run_ref progs sched :
  sinv st0 -> (forall s, In s progs -> reqs_ok s) ->
  conc_run w st0 progs sched = map (ref_run w E) progs
  /\ map (solo_run w st0) progs = map (ref_run w E) progs.
Proof.
  intros I Hr.
  assert (F : Forall2 (tok st0) (map (expand w) progs) (map (ref_run w E) progs)).
  { induction progs as [|s progs IH]; cbn; constructor.
    - exists (mkK [] false). split; [split; [intros c []|discriminate]|]. apply ok_expand. apply Hr. left. reflexivity.
    - apply IH. intros s' Hin. apply Hr. right. exact Hin. }
  split.
  - unfold conc_run, interleave.
    pose proof (interleave_inv sched st0 _ [] _ I F) as H.
    destruct (fold_left (sched_step w) sched (st0, map (expand w) progs, [])) as [[st1 ts1] log1].
    destruct H as [I1 F1]. apply drain_ok; assumption.
  - apply map_ext_in. intros s Hin. unfold solo_run.
    assert (Ho : ok (mkK [] false) (expand w s) (ref_run w E s)) by (apply ok_expand; apply Hr; exact Hin).
    destruct (solo_ok _ _ _ Ho st0 I) as [H _]; [split; [intros c []|discriminate]|exact H].
Qed.
End Safe.

(* For every state a context can be in — cold, warm, or holding a stale index —, any number
   of threads and any schedule: if the requests of all threads together with the already
   cached classes are ns-closed, every call returns the result of the reference semantics
   over the index every lookup answers from, which is also what the call returns alone. *)
Theorem context_safe w st0 progs sched :
  conc_guard w st0 progs = true ->
  conc_run w st0 progs sched = map (ref_run w (eff_index w st0)) progs
  /\ map (solo_run w st0) progs = map (ref_run w (eff_index w st0)) progs.
Proof.
  unfold conc_guard. intros Hg.
  apply andb_true_iff in Hg as [Hg Hcons]. apply andb_true_iff in Hg as [Hg Hrecs].
  apply andb_true_iff in Hg as [Hg Hunsup]. apply andb_true_iff in Hg as [Hworld Hknown].
  set (reqs := s_cache st0 ++ flat_map (ref_reqs w (eff_index w st0)) progs) in *.
  set (canon := first_build reqs).
  assert (Hcanon : forall c m, In (c, m) reqs -> canon c = Some m).
  { intros c m Hin. unfold canon. destruct (first_build_some _ _ _ Hin) as [m' Hm']. rewrite Hm'. f_equal.
    eapply consistent_spec; eauto using first_build_in. }
  apply (conc_run_ref w canon st0).
  - constructor.
    + intros c m G. apply Hcanon. apply in_or_app. left. apply cache_get_in. exact G.
    + intros c m G. apply cache_get_in in G. unfold cache_known in Hknown. rewrite forallb_forall in Hknown.
      specialize (Hknown _ G). cbn in Hknown. destruct (find_class w c) as [cd|]; [eauto|discriminate].
    + intros Es. unfold E, eff_index. rewrite Es, N.eqb_refl. reflexivity.
    + auto.
    + intros c Hin. unfold unsup_ok in Hunsup. rewrite forallb_forall in Hunsup. specialize (Hunsup _ Hin).
      destruct (ideal_build w c None); [discriminate|reflexivity].
  - intros s Hin. apply reqs_ok_of.
    + intros [c m] He. apply Hcanon. apply in_or_app. right. apply in_flat_map. exists s. split; assumption.
    + rewrite forallb_forall in Hrecs. apply Hrecs. exact Hin.
Qed.
