(* Proofs/ConvFloat.v — FloatConverter against xs:double.  CPython's repr()/float()
   numerics are NOT modelled: everything here is proved for any (F, fclass_of,
   frepr, fround) satisfying the explicit hypotheses of the record CPythonFloat;
   what is proved is the text side (the syntax float() accepts covers xs:double,
   the upper()/replace("E+","E") post-processing yields xs:double literals with
   the same reading). *)
From Coq Require Import NArith ZArith List Bool Lia.
From XV Require Import Base.Str Base.Dec Base.PyInt Gen.ConvTables Model.ConvDecimal Model.ConvFloat Model.ConvGuards
  Spec.XsdPrims Proofs.ConvLemmas Proofs.ConvDecimal.
Import ListNotations.
Open Scope N_scope.

(* the reading of a spelled xs:double *)
Definition fsyn_of (d : double_sp) : fsyn :=
  match d with
  | DbNum m ex => let v := val_double_num m ex in FsFin (dn_neg v) (dn_coeff v) (dn_exp v)
  | DbInf sg => FsInf (sign_neg sg)
  | DbNaN => FsNan false
  end.

(* ---- characters of an xs:double literal -------------------------------------- *)
Definition double_text_char (c : N) : bool := dec_text_char c || mem c [101; 69; 73; 78; 70; 97].

Lemma double_text_char_facts c :
  double_text_char c = true -> (c <=? 127) = true /\ c <> 95 /\ c_isspace c = false.
Proof.
  unfold double_text_char, dec_text_char. rewrite !orb_true_iff. intros [[[[H|H]|H]|H]|H].
  - apply is_ascii_digit_range in H. unfold c_isspace.
    repeat split; [apply N.leb_le; lia|lia|].
    destruct (N.leb_spec 9 c), (N.leb_spec c 13), (N.eqb_spec c 32); cbn; try reflexivity; lia.
  - apply N.eqb_eq in H. subst. repeat split; try reflexivity. lia.
  - apply N.eqb_eq in H. subst. repeat split; try reflexivity. lia.
  - apply N.eqb_eq in H. subst. repeat split; try reflexivity. lia.
  - apply mem_In in H. cbn in H.
    destruct H as [<-|[<-|[<-|[<-|[<-|[<-|[]]]]]]]; repeat split; try reflexivity; lia.
Qed.

Lemma dec_to_double_char c : dec_text_char c = true -> double_text_char c = true.
Proof. intros H. unfold double_text_char. rewrite H. reflexivity. Qed.

Lemma lex_double_chars d : wf_double d = true -> forallb double_text_char (lex_double d) = true.
Proof.
  destruct d as [m ex|sg|]; cbn [wf_double lex_double]; intros H.
  - apply andb_true_iff in H as [Hm Hx]. rewrite forallb_app. apply andb_true_iff. split.
    + eapply forallb_impl; [apply dec_to_double_char|apply lex_decimal_chars, Hm].
    + destruct ex as [[u sg ds]|]; [|reflexivity]. unfold wf_exp in Hx. cbn [x_digits] in Hx.
      apply andb_true_iff in Hx as [Hd _]. unfold lex_exp. cbn [x_upper x_sign x_digits].
      cbn [app forallb]. apply andb_true_iff. split; [destruct u; reflexivity|].
      rewrite forallb_app. apply andb_true_iff. split; [destruct sg; reflexivity|].
      eapply forallb_impl; [|exact Hd]. intros c Hc. unfold double_text_char, dec_text_char. rewrite Hc. reflexivity.
  - destruct sg; reflexivity.
  - reflexivity.
Qed.

Lemma lex_double_nonempty d : wf_double d = true -> lex_double d <> [].
Proof.
  destruct d as [m ex|sg|]; cbn [wf_double lex_double]; intros H.
  - apply andb_true_iff in H as [Hm _]. pose proof (lex_decimal_nonempty m Hm).
    destruct (lex_decimal m); [congruence|discriminate].
  - destruct sg; discriminate.
  - discriminate.
Qed.

Lemma xml_ws_c_isspace c : xml_ws c = true -> c_isspace c = true /\ (c <=? 127) = true /\ c <> 95.
Proof. intros H. apply xml_ws_cases in H as [->|[->|[->| ->]]]; repeat split; try reflexivity; lia. Qed.

Lemma map_float_char_id s : forallb (fun c => c <=? 127) s = true -> map float_map_char s = s.
Proof.
  induction s as [|c s IH]; [reflexivity|]. cbn [forallb map]. intros H.
  apply andb_true_iff in H as [Hc Hs]. unfold float_map_char at 1. rewrite Hc, (IH Hs). reflexivity.
Qed.

(* ---- float() on a spelled literal ---------------------------------------------------- *)
Lemma lex_double_num_eq m ex :
  lex_double (DbNum m ex) = lex_sign (dc_sign m) ++ dc_int m ++ frac_text (dc_frac m) ++ exp_text ex.
Proof. cbn [lex_double]. rewrite lex_decimal_eq, <- !app_assoc. reflexivity. Qed.

Lemma float_parse_spelled d : wf_double d = true -> float_parse_ascii (lex_double d) = Some (fsyn_of d).
Proof.
  destruct d as [m ex|sg|]; cbn [wf_double fsyn_of]; intros H.
  - apply andb_true_iff in H as [Hm Hx].
    rewrite lex_double_num_eq.
    unfold float_parse_ascii.
    pose proof (decimal_body_start m Hm) as B.
    assert (B' : match dc_int m ++ frac_text (dc_frac m) ++ exp_text ex with
                 | [] => False | c :: _ => num_start c = true end).
    { rewrite app_assoc. destruct (dc_int m ++ frac_text (dc_frac m)); [contradiction|exact B]. }
    destruct (dc_int m ++ frac_text (dc_frac m) ++ exp_text ex) as [|c r] eqn:E; [contradiction|].
    assert (NN : c <> 43 /\ c <> 45).
    { unfold num_start in B'. apply orb_true_iff in B' as [Q|Q].
      - apply is_ascii_digit_range in Q. lia.
      - apply N.eqb_eq in Q. lia. }
    rewrite (split_pm_lex (dc_sign m) (c :: r) NN).
    rewrite (starts_ci_num 105 [110;102] c r B' eq_refl).
    unfold eq_ci. rewrite (starts_ci_num 110 [97;110] c r B' eq_refl). cbn [andb].
    rewrite <- E.
    destruct (wf_decimal_parts m Hm) as [Hi [Hf Hn]].
    rewrite (scan_number_spelled (dc_int m) (dc_frac m) ex Hi Hf Hn).
    + unfold val_double_num, val_decimal. cbn [dn_neg dn_coeff dn_exp].
      change (frac_of (dc_frac m)) with (frac_digits m).
      f_equal. f_equal. unfold exp_val. destruct ex; lia.
    + destruct ex; [exact Hx|reflexivity].
  - destruct sg; reflexivity.
  - reflexivity.
Qed.

Lemma float_syntax_spelled d a b :
  wf_double d = true -> forallb xml_ws a = true -> forallb xml_ws b = true ->
  float_syntax (a ++ lex_double d ++ b) = Some (fsyn_of d).
Proof.
  intros Hwf Ha Hb. pose proof (lex_double_chars d Hwf) as Hc. pose proof (lex_double_nonempty d Hwf) as Hne.
  unfold float_syntax.
  assert (A127 : forallb (fun c => c <=? 127) (a ++ lex_double d ++ b) = true).
  { rewrite !forallb_app. repeat (apply andb_true_iff; split).
    - eapply forallb_impl; [|exact Ha]. intros c H. apply (xml_ws_c_isspace c H).
    - eapply forallb_impl; [|exact Hc]. intros c H. apply (double_text_char_facts c H).
    - eapply forallb_impl; [|exact Hb]. intros c H. apply (xml_ws_c_isspace c H). }
  rewrite (map_float_char_id _ A127).
  assert (NU : mem 95 (a ++ lex_double d ++ b) = false).
  { destruct (mem 95 (a ++ lex_double d ++ b)) eqn:E; [|reflexivity]. exfalso.
    apply mem_In in E. rewrite !in_app_iff in E. destruct E as [E|[E|E]].
    - rewrite forallb_forall in Ha. apply (xml_ws_c_isspace 95 (Ha _ E)). reflexivity.
    - rewrite forallb_forall in Hc. apply (double_text_char_facts 95 (Hc _ E)). reflexivity.
    - rewrite forallb_forall in Hb. apply (xml_ws_c_isspace 95 (Hb _ E)). reflexivity. }
  rewrite NU.
  rewrite strip_by_wrap_hd_last.
  - destruct (lex_double d) eqn:E; [congruence|]. rewrite <- E. apply float_parse_spelled, Hwf.
  - eapply forallb_impl; [|exact Ha]. intros c H. apply (xml_ws_c_isspace c H).
  - eapply forallb_impl; [|exact Hb]. intros c H. apply (xml_ws_c_isspace c H).
  - exact Hne.
  - rewrite forallb_forall in Hc. apply (double_text_char_facts _ (Hc _ (or_introl eq_refl) )) || idtac.
    destruct (lex_double d) as [|c r] eqn:E; [congruence|]. cbn [hd].
    apply (double_text_char_facts c). apply Hc. left. reflexivity.
  - rewrite forallb_forall in Hc. apply (double_text_char_facts (last (lex_double d) 0)). apply Hc, last_in, Hne.
Qed.

(* ---- the post-processing of serialize: upper() and replace("E+", "E") ----------------- *)
Definition norm_exp (x : exp_sp) : exp_sp :=
  mk_exp_sp true (match x_sign x with SgPlus => SgNone | s => s end) (x_digits x).
Definition norm_sp (d : double_sp) : double_sp :=
  match d with
  | DbNum m ex => DbNum m (option_map norm_exp ex)
  | _ => d
  end.

Definition no_E (c : N) : bool := negb (c =? 69).
Definition not_lower (c : N) : bool := negb (is_ascii_lower c).

Lemma upper_id s : forallb not_lower s = true -> str_upper s = s.
Proof.
  induction s as [|c s IH]; [reflexivity|]. cbn [forallb]. intros H. apply andb_true_iff in H as [Hc Hs].
  unfold str_upper in *. cbn [map]. rewrite (IH Hs). unfold ascii_upper. unfold not_lower in Hc.
  apply negb_true_iff in Hc. rewrite Hc. reflexivity.
Qed.

Lemma dec_text_char_plain2 c : dec_text_char c = true -> not_lower c = true /\ no_E c = true.
Proof.
  unfold dec_text_char. rewrite !orb_true_iff, !N.eqb_eq. intros [[[H|H]|H]|H]; subst; try (split; reflexivity).
  apply is_ascii_digit_range in H. unfold not_lower, no_E, is_ascii_lower.
  destruct (N.leb_spec 97 c); [lia|]. destruct (N.eqb_spec c 69); [lia|]. split; reflexivity.
Qed.

Lemma replace_noE k s : forallb no_E s = true -> replace_fuel k [69; 43] [69] s = s.
Proof.
  revert s; induction k as [|k IH]; intros s H; [reflexivity|].
  destruct s as [|c r]; [reflexivity|]. cbn [forallb] in H. apply andb_true_iff in H as [Hc Hr].
  cbn [replace_fuel startswith]. unfold no_E in Hc. apply negb_true_iff in Hc.
  rewrite N.eqb_sym in Hc. rewrite Hc. cbn [andb]. rewrite (IH r Hr). reflexivity.
Qed.

Lemma replace_at_E k p s :
  forallb no_E p = true -> forallb no_E s = true -> (length p < k)%nat ->
  replace_fuel k [69; 43] [69] (p ++ 69 :: s)
  = p ++ 69 :: match s with 43 :: t => t | _ => s end.
Proof.
  revert k; induction p as [|c r IH]; intros k Hp Hs Hk.
  - destruct k as [|k]; [cbn in Hk; lia|]. cbn [app replace_fuel startswith]. rewrite N.eqb_refl. cbn [andb].
    destruct s as [|x t].
    + cbn. destruct k; reflexivity.
    + cbn [forallb] in Hs. apply andb_true_iff in Hs as [Hx Ht].
      destruct (N.eqb_spec 43 x) as [<-|Hne].
      * cbn [andb length skipn app]. rewrite (replace_noE k t Ht). reflexivity.
      * cbn [andb]. rewrite replace_noE by (cbn [forallb]; rewrite Hx, Ht; reflexivity).
        destruct x as [|q]; [reflexivity|]. do 6 (destruct q; try reflexivity). congruence.
  - destruct k as [|k]; [cbn in Hk; lia|]. cbn [forallb] in Hp. apply andb_true_iff in Hp as [Hc Hr].
    cbn [app replace_fuel startswith]. unfold no_E in Hc. apply negb_true_iff in Hc.
    rewrite N.eqb_sym in Hc. rewrite Hc. cbn [andb]. rewrite (IH k Hr Hs) by (cbn in Hk; lia). reflexivity.
Qed.

Lemma lex_decimal_upper_noE m :
  wf_decimal m = true -> forallb not_lower (lex_decimal m) = true /\ forallb no_E (lex_decimal m) = true.
Proof.
  intros H. pose proof (lex_decimal_chars m H) as C. split; (eapply forallb_impl; [|exact C]); intros c Hc;
    apply (dec_text_char_plain2 c Hc).
Qed.

Lemma digits_upper_noE ds : all_digits ds = true -> forallb not_lower ds = true /\ forallb no_E ds = true.
Proof.
  intros H. split; (eapply forallb_impl; [|exact H]); intros c Hc;
    apply (dec_text_char_plain2 c); unfold dec_text_char; rewrite Hc; reflexivity.
Qed.

Lemma ser_consts : float_ser_consts = [[78;97;78]; [73;78;70]; [45;73;78;70]; [69;43]; [69]].
Proof. reflexivity. Qed.

(* upper() then replace("E+", "E") turns the repr spelling into the xs:double
   spelling with 'E' and no '+' *)
Lemma normalise_repr d :
  wf_double d = true -> is_repr_sp d = true ->
  str_replace [69; 43] [69] (str_upper (lex_double d)) = lex_double (norm_sp d).
Proof.
  destruct d as [m ex|sg|]; cbn [wf_double is_repr_sp]; try discriminate. intros Hwf Hr.
  apply andb_true_iff in Hwf as [Hm Hx].
  destruct (lex_decimal_upper_noE m Hm) as [Um Em].
  apply andb_true_iff in Hr as [_ Hxr].
  cbn [lex_double norm_sp]. destruct ex as [[u sg ds]|]; cbn [option_map].
  - cbn [x_upper x_sign] in Hxr. apply andb_true_iff in Hxr as [Hu Hs]. apply negb_true_iff in Hu. subst u.
    unfold wf_exp in Hx. cbn [x_digits] in Hx. apply andb_true_iff in Hx as [Hd _].
    destruct (digits_upper_noE ds Hd) as [Ud Ed].
    unfold lex_exp, norm_exp. cbn [x_upper x_sign x_digits].
    assert (MU : forall t, forallb not_lower t = true -> map ascii_upper t = t) by (intros t Ht; apply (upper_id t Ht)).
    unfold str_upper. rewrite !map_app. rewrite (MU _ Um), (MU _ Ud).
    replace (map ascii_upper (lex_sign sg)) with (lex_sign sg) by (destruct sg; reflexivity).
    cbn [map app]. change (ascii_upper 101) with 69.
    unfold str_replace.
    rewrite replace_at_E.
    + destruct sg; [discriminate Hs| |]; cbn [lex_sign app]; [reflexivity|].
      reflexivity.
    + exact Em.
    + rewrite forallb_app, Ed. destruct sg; reflexivity.
    + rewrite app_length. cbn [length]. lia.
  - rewrite !app_nil_r. rewrite (upper_id _ Um). unfold str_replace. apply replace_noE, Em.
Qed.

Lemma norm_sp_wf d : wf_double d = true -> wf_double (norm_sp d) = true.
Proof. destruct d as [m [x|]|sg|]; cbn; auto. Qed.

Lemma norm_sp_value d : fsyn_of (norm_sp d) = fsyn_of d.
Proof.
  destruct d as [m [[u sg ds]|]|sg|]; try reflexivity. cbn [norm_sp option_map fsyn_of].
  unfold val_double_num, norm_exp, val_exp. cbn [x_sign x_digits]. destruct sg; reflexivity.
Qed.

(* ---- the hypotheses about CPython ---------------------------------------------------------- *)
Section WithCPython.
  Variable F : Type.
  Variable fclass_of : F -> fclass.
  Variable frepr : F -> str.
  Variable fround : fsyn -> F.

  Record CPythonFloat : Prop := {
    (* repr(x) of a finite float: -?digits(.digits)?(e[+-]digits)? *)
    cpf_shape : forall x, fclass_of x = FcFinite -> repr_shape_ok (frepr x) = true;
    (* float(repr(x)) == x *)
    cpf_roundtrip : forall x, fclass_of x = FcFinite -> option_map fround (float_syntax (frepr x)) = Some x;
    (* there is one +inf and one -inf; a NaN text gives a NaN *)
    cpf_pinf : forall x, fclass_of x = FcPosInf -> fround (FsInf false) = x;
    cpf_ninf : forall x, fclass_of x = FcNegInf -> fround (FsInf true) = x;
    cpf_nan : forall n, fclass_of (fround (FsNan n)) = FcNaN
  }.

  Hypothesis CP : CPythonFloat.

  Notation deser := (float_deser F fround).
  Notation ser := (float_ser F fclass_of frepr).

  Lemma repr_spelled x :
    fclass_of x = FcFinite ->
    exists d, wf_double d = true /\ is_repr_sp d = true /\ lex_double d = frepr x.
  Proof.
    intros Hx. pose proof (cpf_shape CP x Hx) as S. unfold repr_shape_ok in S.
    apply andb_true_iff in S as [S E]. apply andb_true_iff in S as [W R].
    exists (parse_double_sp (frepr x)). repeat split; try assumption. apply str_eqb_eq, E.
  Qed.

  (* the serialized string is an xs:double literal whose reading rounds to the value *)
  Theorem float_ser_valid x :
    exists d, wf_double d = true /\ lex_double d = ser x
              /\ match fclass_of x with
                 | FcNaN => d = DbNaN
                 | _ => fround (fsyn_of d) = x
                 end.
  Proof.
    unfold float_ser. rewrite ser_consts. destruct (fclass_of x) eqn:Hx.
    - destruct (repr_spelled x Hx) as [d [W [R L]]]. exists (norm_sp d).
      split; [apply norm_sp_wf, W|]. split; [rewrite <- L; symmetry; apply normalise_repr; assumption|].
      rewrite norm_sp_value. pose proof (cpf_roundtrip CP x Hx) as RT. rewrite <- L in RT.
      pose proof (float_syntax_spelled d [] [] W eq_refl eq_refl) as FS. cbn [app] in FS. rewrite app_nil_r in FS.
      rewrite FS in RT. cbn in RT. congruence.
    - exists (DbInf SgNone). repeat split. apply (cpf_pinf CP x Hx).
    - exists (DbInf SgMinus). repeat split. apply (cpf_ninf CP x Hx).
    - exists DbNaN. repeat split.
  Qed.

  (* every xs:double literal, in XML whitespace, is accepted; the value is the
     rounding of the number the literal denotes *)
  Theorem float_accepts_xsd d a b :
    wf_double d = true -> forallb xml_ws a = true -> forallb xml_ws b = true ->
    deser (a ++ lex_double d ++ b) = Some (fround (fsyn_of d)).
  Proof.
    intros W Ha Hb. unfold float_deser. rewrite (float_syntax_spelled d a b W Ha Hb). reflexivity.
  Qed.

  Theorem float_roundtrip x :
    match fclass_of x with
    | FcNaN => exists y, deser (ser x) = Some y /\ fclass_of y = FcNaN
    | _ => deser (ser x) = Some x
    end.
  Proof.
    destruct (float_ser_valid x) as [d [W [L V]]].
    pose proof (float_accepts_xsd d [] [] W eq_refl eq_refl) as A. cbn [app] in A. rewrite app_nil_r, L in A.
    destruct (fclass_of x); try (rewrite A, V; reflexivity).
    subst d. eexists. split; [exact A|]. apply (cpf_nan CP).
  Qed.
End WithCPython.
