(* Proofs/WriterRefute.v — the unguarded statement of C03 (writer half) is false of the
   faithful model: one witness per guard clause, each leaving every OTHER clause true.
   Every witness is also replayed on the real writers by harness/c03.py (WITNESSES).
   GENERATED once from harness/c03.py's witness list; kept under version control. *)
From Coq Require Import NArith List Bool.
From XV Require Import Base.Str Spec.XmlNs Model.Writer.
Import ListNotations.
Open Scope N_scope.

(* clause k false, all others true *)
Definition only_clause_fails (k : nat) (v : list bool) : bool :=
  (fix go (i : nat) (l : list bool) : bool :=
     match l with
     | [] => true
     | b :: r => Bool.eqb b (negb (Nat.eqb i k)) && go (S i) r
     end) 0%nat v.

Lemma writer_guard_vector cfg user evs :
  writer_guard cfg user evs = forallb (fun b => b) (clause_vector cfg user evs).
Proof.
  unfold writer_guard, user_map_ok, events_ok, clause_vector. cbn [forallb].
  repeat rewrite andb_true_r. repeat rewrite andb_assoc. reflexivity.
Qed.

Definition w_user_prefix_xml_user : nsmap := [((Some [120;109;108]%N), [117;114;110;58;97]%N)].
Definition w_user_prefix_xml_evs : list wevent := [(WStart ((Some [117;114;110;58;97]%N), [114]%N)); (WEnd ((Some [117;114;110;58;97]%N), [114]%N))].
Lemma user_prefix_xml_refuted :
  clause_vector default_config w_user_prefix_xml_user w_user_prefix_xml_evs
  = [false; true; true; true; true; true; true; true]
  /\ native_sound_b default_config w_user_prefix_xml_user w_user_prefix_xml_evs = false.
Proof. vm_compute. repeat split; reflexivity. Qed.

Definition w_user_prefix_invalid_user : nsmap := [(Some [49;112]%N, [117;114;110;58;97]%N)].
Lemma user_prefix_invalid_refuted :
  only_clause_fails 0 (clause_vector default_config w_user_prefix_invalid_user w_user_prefix_xml_evs) = true
  /\ native_sound_b default_config w_user_prefix_invalid_user w_user_prefix_xml_evs = false.
Proof. vm_compute. repeat split; reflexivity. Qed.

Definition w_default_ns_qname_reset_user : nsmap := [(None, [117;114;110;58;97]%N)].
Definition w_default_ns_qname_reset_evs : list wevent := [(WStart (None, [114]%N)); (WAttr (None, [120]%N) (VAtom (AQName ((Some [117;114;110;58;97]%N), [118]%N)))); (WEnd (None, [114]%N))].
Lemma default_ns_qname_reset_refuted :
  only_clause_fails 1 (clause_vector default_config w_default_ns_qname_reset_user w_default_ns_qname_reset_evs) = true
  /\ native_sound_b default_config w_default_ns_qname_reset_user w_default_ns_qname_reset_evs = false
  /\ lxml_sound_b default_config w_default_ns_qname_reset_user w_default_ns_qname_reset_evs = false.
Proof. vm_compute. repeat split; reflexivity. Qed.

Definition w_bad_name_user : nsmap := (@nil (option str * str)).
Definition w_bad_name_evs : list wevent := [(WStart (None, [114]%N)); (WAttr (None, [97;32;98]%N) (VAtom (AText [49]%N))); (WEnd (None, [114]%N))].
Lemma bad_name_refuted :
  only_clause_fails 2 (clause_vector default_config w_bad_name_user w_bad_name_evs) = true
  /\ native_sound_b default_config w_bad_name_user w_bad_name_evs = false.
Proof. vm_compute. repeat split; reflexivity. Qed.

Definition w_non_xml_char_user : nsmap := (@nil (option str * str)).
Definition w_non_xml_char_evs : list wevent := [(WStart (None, [114]%N)); (WData (VAtom (AText [97;1;98]%N))); (WEnd (None, [114]%N))].
Lemma non_xml_char_refuted :
  only_clause_fails 3 (clause_vector default_config w_non_xml_char_user w_non_xml_char_evs) = true
  /\ native_sound_b default_config w_non_xml_char_user w_non_xml_char_evs = false.
Proof. vm_compute. repeat split; reflexivity. Qed.

Definition w_late_qname_data_user : nsmap := (@nil (option str * str)).
Definition w_late_qname_data_evs : list wevent := [(WStart (None, [114]%N)); (WStart (None, [99]%N)); (WEnd (None, [99]%N)); (WData (VAtom (AQName ((Some [117;114;110;58;98]%N), [119]%N)))); (WEnd (None, [114]%N))].
Lemma late_qname_data_refuted :
  only_clause_fails 4 (clause_vector default_config w_late_qname_data_user w_late_qname_data_evs) = true
  /\ native_sound_b default_config w_late_qname_data_user w_late_qname_data_evs = false
  /\ lxml_sound_b default_config w_late_qname_data_user w_late_qname_data_evs = false.
Proof. vm_compute. repeat split; reflexivity. Qed.

Definition w_nil_kept_with_content_user : nsmap := (@nil (option str * str)).
Definition w_nil_kept_with_content_evs : list wevent := [(WStart (None, [114]%N)); (WAttr ((Some [104;116;116;112;58;47;47;119;119;119;46;119;51;46;111;114;103;47;50;48;48;49;47;88;77;76;83;99;104;101;109;97;45;105;110;115;116;97;110;99;101]%N), [110;105;108]%N) (VAtom (AText [116;114;117;101]%N))); (WData VNone); (WStart (None, [99]%N)); (WEnd (None, [99]%N)); (WEnd (None, [114]%N))].
Lemma nil_kept_with_content_refuted :
  only_clause_fails 5 (clause_vector default_config w_nil_kept_with_content_user w_nil_kept_with_content_evs) = true
  /\ native_sound_b default_config w_nil_kept_with_content_user w_nil_kept_with_content_evs = false
  /\ lxml_sound_b default_config w_nil_kept_with_content_user w_nil_kept_with_content_evs = false.
Proof. vm_compute. repeat split; reflexivity. Qed.

Definition w_clark_datatype_text_user : nsmap := (@nil (option str * str)).
Definition w_clark_datatype_text_evs : list wevent := [(WStart (None, [114]%N)); (WAttr (None, [120]%N) (VAtom (AText [123;104;116;116;112;58;47;47;119;119;119;46;119;51;46;111;114;103;47;50;48;48;49;47;88;77;76;83;99;104;101;109;97;125;105;110;116]%N))); (WEnd (None, [114]%N))].
Lemma clark_datatype_text_refuted :
  only_clause_fails 6 (clause_vector default_config w_clark_datatype_text_user w_clark_datatype_text_evs) = true
  /\ native_sound_b default_config w_clark_datatype_text_user w_clark_datatype_text_evs = false
  /\ lxml_sound_b default_config w_clark_datatype_text_user w_clark_datatype_text_evs = false.
Proof. vm_compute. repeat split; reflexivity. Qed.

(* ---- repaired in /repo (fix: generate_prefix picks a free prefix): the former witnesses of the
   deleted clause `user_no_collision` now satisfy the guard and both writers are right on them *)
Definition w_prefix_collision_user : nsmap := [((Some [110;115;50]%N), [117;114;110;58;117]%N)].
Definition w_prefix_collision_evs : list wevent := [(WStart ((Some [117;114;110;58;97]%N), [114]%N)); (WStart ((Some [117;114;110;58;99]%N), [99]%N)); (WAttr ((Some [117;114;110;58;117]%N), [120]%N) (VAtom (AText [49]%N))); (WEnd ((Some [117;114;110;58;99]%N), [99]%N)); (WEnd ((Some [117;114;110;58;97]%N), [114]%N))].
Example prefix_collision_fixed :
  writer_guard default_config w_prefix_collision_user w_prefix_collision_evs = true
  /\ native_sound_b default_config w_prefix_collision_user w_prefix_collision_evs = true
  /\ lxml_sound_b default_config w_prefix_collision_user w_prefix_collision_evs = true.
Proof. vm_compute. repeat split; reflexivity. Qed.

Definition w_std_prefix_collision_user : nsmap := [((Some [120;115;105]%N), [117;114;110;58;111]%N)].
Definition w_std_prefix_collision_evs : list wevent := [(WStart ((Some [117;114;110;58;111]%N), [114]%N)); (WAttr ((Some [104;116;116;112;58;47;47;119;119;119;46;119;51;46;111;114;103;47;50;48;48;49;47;88;77;76;83;99;104;101;109;97;45;105;110;115;116;97;110;99;101]%N), [110;105;108]%N) (VAtom (AText [116;114;117;101]%N))); (WEnd ((Some [117;114;110;58;111]%N), [114]%N))].
Example std_prefix_collision_fixed :
  writer_guard default_config w_std_prefix_collision_user w_std_prefix_collision_evs = true
  /\ native_sound_b default_config w_std_prefix_collision_user w_std_prefix_collision_evs = true
  /\ lxml_sound_b default_config w_std_prefix_collision_user w_std_prefix_collision_evs = true.
Proof. vm_compute. repeat split; reflexivity. Qed.

Definition w_cr_in_text_evs : list wevent :=
  [WStart (None, [114]); WData (VAtom (AText [97; 13; 98])); WEnd (None, [114])].
Example cr_in_text_fixed :
  writer_guard default_config [] w_cr_in_text_evs = true
  /\ native_sound_b default_config [] w_cr_in_text_evs = true
  /\ lxml_sound_b default_config [] w_cr_in_text_evs = true.
Proof. vm_compute. repeat split; reflexivity. Qed.

Definition w_default_ns_attribute_user : nsmap := [(None, [117;114;110;58;97]%N)].
Definition w_default_ns_attribute_evs : list wevent := [(WStart ((Some [117;114;110;58;97]%N), [114]%N)); (WAttr ((Some [117;114;110;58;97]%N), [120]%N) (VAtom (AText [49]%N))); (WEnd ((Some [117;114;110;58;97]%N), [114]%N))].
Example default_ns_attribute_fixed :
  writer_guard default_config w_default_ns_attribute_user w_default_ns_attribute_evs = true
  /\ native_sound_b default_config w_default_ns_attribute_user w_default_ns_attribute_evs = true
  /\ lxml_sound_b default_config w_default_ns_attribute_user w_default_ns_attribute_evs = true.
Proof. vm_compute. repeat split; reflexivity. Qed.

Definition w_adjacent_data_user : nsmap := (@nil (option str * str)).
Definition w_adjacent_data_evs : list wevent := [(WStart (None, [114]%N)); (WData (VAtom (AText [97]%N))); (WData (VAtom (AText [98]%N))); (WEnd (None, [114]%N))].
Example adjacent_data_fixed :
  writer_guard default_config w_adjacent_data_user w_adjacent_data_evs = true
  /\ native_sound_b default_config w_adjacent_data_user w_adjacent_data_evs = true
  /\ lxml_sound_b default_config w_adjacent_data_user w_adjacent_data_evs = true.
Proof. vm_compute. repeat split; reflexivity. Qed.

Definition w_hostile_uri_user : nsmap := (@nil (option str * str)).
Definition w_hostile_uri_evs : list wevent := [(WStart ((Some [117;114;110;58;97;34;98]%N), [114]%N)); (WEnd ((Some [117;114;110;58;97;34;98]%N), [114]%N))].
(* the lxml sink model abstains on this URI (real lxml raises ValueError): native writer only *)
Example hostile_uri_fixed :
  writer_guard default_config w_hostile_uri_user w_hostile_uri_evs = true
  /\ native_sound_b default_config w_hostile_uri_user w_hostile_uri_evs = true.
Proof. vm_compute. repeat split; reflexivity. Qed.

Lemma native_sound_unguarded_refuted :
  ~ (forall cfg user evs, native_sound_b cfg user evs = true).
Proof.
  intros H. specialize (H default_config w_late_qname_data_user w_late_qname_data_evs).
  destruct late_qname_data_refuted as [_ [E _]]. rewrite E in H. discriminate.
Qed.
Lemma lxml_sound_unguarded_refuted :
  ~ (forall cfg user evs, lxml_sound_b cfg user evs = true).
Proof.
  intros H. specialize (H default_config w_late_qname_data_user w_late_qname_data_evs).
  destruct late_qname_data_refuted as [_ [_ E]]. rewrite E in H. discriminate.
Qed.

Definition w_rich_user : nsmap := [((Some [112]%N), [117;114;110;58;114]%N); (None, [117;114;110;58;100]%N); ((Some [110;115;48]%N), [117;114;110;58;97]%N); ((Some [113]%N), [117;114;110;58;114]%N); ((Some [117;110;117;115;101;100]%N), [117;114;110;58;122;122]%N)].
Definition w_rich_evs : list wevent := [(WStart ((Some [117;114;110;58;114]%N), [114;111;111;116]%N)); (WAttr (None, [105;100]%N) (VAtom (AText [97;38;60;62;34;39;9;10]%N))); (WAttr ((Some [117;114;110;58;113]%N), [107]%N) (VList [(AText [120]%N); (AQName ((Some [117;114;110;58;122]%N), [118]%N))])); (WAttr ((Some [104;116;116;112;58;47;47;119;119;119;46;119;51;46;111;114;103;47;50;48;48;49;47;88;77;76;83;99;104;101;109;97;45;105;110;115;116;97;110;99;101]%N), [116;121;112;101]%N) (VAtom (AText [123;117;114;110;58;97;125;84]%N))); (WStart ((Some [117;114;110;58;100]%N), [105;116;101;109]%N)); (WAttr ((Some [104;116;116;112;58;47;47;119;119;119;46;119;51;46;111;114;103;47;88;77;76;47;49;57;57;56;47;110;97;109;101;115;112;97;99;101]%N), [108;97;110;103]%N) (VAtom (AText [101;110]%N))); (WData (VAtom (AQName ((Some [117;114;110;58;100]%N), [119]%N)))); (WEnd ((Some [117;114;110;58;100]%N), [105;116;101;109]%N)); (WData (VAtom (AText [116;97;105;108;32;93;93;62;32;38;32;128512]%N))); (WStart (None, [112;108;97;105;110]%N)); (WAttr ((Some [104;116;116;112;58;47;47;119;119;119;46;119;51;46;111;114;103;47;50;48;48;49;47;88;77;76;83;99;104;101;109;97;45;105;110;115;116;97;110;99;101]%N), [110;105;108]%N) (VAtom (AText [116;114;117;101]%N))); (WData VNone); (WEnd (None, [112;108;97;105;110]%N)); (WStart (None, [110;50]%N)); (WAttr ((Some [104;116;116;112;58;47;47;119;119;119;46;119;51;46;111;114;103;47;50;48;48;49;47;88;77;76;83;99;104;101;109;97;45;105;110;115;116;97;110;99;101]%N), [110;105;108]%N) (VAtom (AText [116;114;117;101]%N))); (WData (VAtom (AText [120]%N))); (WEnd (None, [110;50]%N)); (WStart ((Some [117;114;110;58;110]%N), [100;101;101;112]%N)); (WStart ((Some [117;114;110;58;110]%N), [100;101;101;112;101;114]%N)); (WAttr ((Some [117;114;110;58;97]%N), [120]%N) (VAtom (AText [49]%N))); (WEnd ((Some [117;114;110;58;110]%N), [100;101;101;112;101;114]%N)); (WEnd ((Some [117;114;110;58;110]%N), [100;101;101;112]%N)); (WEnd ((Some [117;114;110;58;114]%N), [114;111;111;116]%N))].
Definition w_rich_cfg : wconfig :=
  {| cfg_schema_location := Some [117;114;110;58;114;32;114;46;120;115;100]; cfg_no_ns_schema_location := None;
     cfg_xml_declaration := true |}.
(* the guard is satisfiable by a non-trivial input (default namespace, duplicate URIs, an
   unused entry, a colliding-looking ns0 prefix, QName values, xsi:nil kept and dropped,
   xsi:type in Clark notation, hostile text, xml:lang), and on it both writers are right *)
Example guard_non_vacuous :
  writer_guard w_rich_cfg w_rich_user w_rich_evs = true
  /\ lxml_domain w_rich_cfg w_rich_user w_rich_evs = true
  /\ native_sound_b w_rich_cfg w_rich_user w_rich_evs = true
  /\ lxml_sound_b w_rich_cfg w_rich_user w_rich_evs = true
  /\ (exists d, run_native w_rich_cfg w_rich_user w_rich_evs = inl d).
Proof. vm_compute. repeat split; try reflexivity. eexists; reflexivity. Qed.
