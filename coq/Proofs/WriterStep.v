(* Proofs/WriterStep.v — the event handler state machine `wstep`, run over a flattened
   event tree, performs exactly the SAX calls `sflat (wref ...)` and returns to the state
   it started from (the stack discipline of ns_context / pending_prefixes).  This is the
   invariant part of C03: `WInv` is the family of `steady` states; it holds initially,
   is preserved by every element, and therefore by every well-nested event list. *)
From Coq Require Import NArith List Bool Lia.
From XV Require Import Base.Str Base.Eqb Spec.XmlNs Model.Writer Proofs.WriterTree.
Import ListNotations.
Open Scope N_scope.

(* ------------------------------------------------------------------ running without a sink *)
Fixpoint wrun (s : wstate) (evs : list wevent) : wstate * list sax * option perr :=
  match evs with
  | [] => (s, [], None)
  | e :: r =>
      let '(s1, o1, err) := wstep s e in
      match err with
      | Some x => (s1, o1, Some x)
      | None => let '(s2, o2, err2) := wrun s1 r in (s2, o1 ++ o2, err2)
      end
  end.

Lemma wrun_app s a b s1 o1 :
  wrun s a = (s1, o1, None) ->
  wrun s (a ++ b) = let '(s2, o2, e2) := wrun s1 b in (s2, o1 ++ o2, e2).
Proof.
  revert s s1 o1. induction a as [|e a IH]; intros s s1 o1 H; cbn in H |- *.
  - inversion H; subst. destruct (wrun s1 b) as [[s2 o2] e2]. reflexivity.
  - destruct (wstep s e) as [[s' o'] err]. destruct err as [x|]; [discriminate|].
    destruct (wrun s' a) as [[s'' o''] err''] eqn:E. inversion H; subst.
    rewrite (IH _ _ _ E). destruct (wrun s1 b) as [[s2 o2] e2]. rewrite app_assoc. reflexivity.
Qed.

Lemma wrun_cons s e r s1 o1 :
  wstep s e = (s1, o1, None) ->
  wrun s (e :: r) = let '(s2, o2, e2) := wrun s1 r in (s2, o1 ++ o2, e2).
Proof. intros H. cbn [wrun]. rewrite H. reflexivity. Qed.

(* ------------------------------------------------------------------ canonical states *)
Definition idle (ps : list nsmap) (op : bool) (m : nsmap) (a0 : attrmap) (it : bool)
           (pp : list (list (option str))) : wstate :=
  {| w_parents := ps; w_open := op; w_map := m; w_pending := None; w_attrs := a0;
     w_in_tail := it; w_tail := None; w_pp := pp |}.
Definition pend (ps : list nsmap) (m : nsmap) (q : qname) (am : attrmap) (it : bool)
           (pp : list (list (option str))) : wstate :=
  {| w_parents := ps; w_open := true; w_map := m; w_pending := Some q; w_attrs := am;
     w_in_tail := it; w_tail := None; w_pp := pp |}.
(* WInv: inside an element whose start tag is out *)
Definition steady (m : nsmap) (ps : list nsmap) (pp : list (list (option str))) (it : bool) : wstate :=
  idle ps true m [] it pp.
(* after the end tag *)
Definition end_state (ps : list nsmap) (m : nsmap) (pp : list (list (option str))) : wstate :=
  match ps with
  | p :: ps' => idle ps' true p [] false pp
  | [] => idle [] false m [] false pp
  end.

Definition pm_of (ps : list nsmap) : nsmap := match ps with p :: _ => p | [] => [] end.
Definition starts (ch : nsmap) : list sax := map (fun e => SStartPrefix (fst e) (snd e)) ch.
Definition ends (ch : nsmap) : list sax := map (fun d => SEndPrefix (fst d)) ch.

(* ------------------------------------------------------------------ single steps *)
Lemma start_from_idle ps op m a0 it pp q :
  wstep (idle ps op m a0 it pp) (WStart q)
  = (pend (if op then m :: ps else ps) (add_namespace (fst q) m) q a0 it pp, [], None).
Proof. reflexivity. Qed.

Lemma attr_from_pend ps m q am it pp qa v :
  wstep (pend ps m q am it pp) (WAttr qa v)
  = (let (enc, m') := encode_data m (attr_value_conv qa v) in pend ps m' q (am_set am qa enc) it pp, [], None).
Proof.
  cbn [wstep]. unfold add_attribute, pend. cbn [w_pending w_map w_parents w_open w_attrs w_in_tail w_tail w_pp].
  destruct (encode_data m (attr_value_conv qa v)) as [enc m']. reflexivity.
Qed.

Lemma attrs_from_pend ats : forall ps m q am it pp,
  wrun (pend ps m q am it pp) (map (fun a => WAttr (fst a) (snd a)) ats)
  = (let (am', m') := fold_attrs m am ats in pend ps m' q am' it pp, [], None).
Proof.
  induction ats as [|[qa v] ats IH]; intros ps m q am it pp.
  - reflexivity.
  - cbn [map fst snd]. cbn [wrun]. rewrite attr_from_pend. cbn [fold_attrs].
    destruct (encode_data m (attr_value_conv qa v)) as [enc m'].
    rewrite IH. destruct (fold_attrs m' (am_set am qa enc) ats) as [am' m'']. reflexivity.
Qed.

Lemma flush_pend nil ps m q am it pp :
  flush_start nil (pend ps m q am it pp)
  = (let attrs := flush_attrs nil am in
     let m4 := flush_map q attrs m in
     let ch := changed_entries (pm_of ps) m4 in
     (idle ps true m4 [] false (map fst ch :: pp), starts ch ++ [SStartElem q attrs])).
Proof. unfold flush_start, pend. cbn [w_pending w_attrs w_map w_parents w_open w_tail w_pp]. destruct ps; reflexivity. Qed.

Lemma flush_idle nil ps op m a0 it pp :
  flush_start nil (idle ps op m a0 it pp) = (idle ps op m a0 it pp, []).
Proof. reflexivity. Qed.

(* data_plain values do not touch the map *)
Lemma enc_atom_plain m a :
  (match a with
   | AText _ => true
   | AQName q => match fst (split_qname (build_qname q)) with None => true | Some _ => false end
   end) = true -> snd (enc_atom m a) = m.
Proof.
  destruct a as [s|q]; [reflexivity|]. cbn [enc_atom]. unfold enc_qname.
  destruct (split_qname (build_qname q)) as [[u|] tag]; cbn [fst]; [discriminate|reflexivity].
Qed.
Lemma enc_atoms_plain l : forall m,
  forallb (fun a => match a with
                    | AText _ => true
                    | AQName q => match fst (split_qname (build_qname q)) with None => true | Some _ => false end
                    end) l = true -> snd (enc_atoms m l) = m.
Proof.
  induction l as [|a l IH]; intros m H; [reflexivity|].
  cbn [forallb] in H. apply andb_true_iff in H as [Ha Hl].
  cbn [enc_atoms]. pose proof (enc_atom_plain m a Ha) as E.
  destruct (enc_atom m a) as [s m1]. cbn [snd] in E. subst m1.
  pose proof (IH m Hl) as E2. destruct (enc_atoms m l) as [ss m2]. cbn [snd] in E2 |- *. exact E2.
Qed.
Lemma encode_data_plain m v : data_plain v = true -> snd (encode_data m v) = m.
Proof.
  unfold data_plain. destruct v as [|a|l]; cbn [value_atoms encode_data]; intros H.
  - reflexivity.
  - cbn [forallb] in H. rewrite andb_true_r in H. pose proof (enc_atom_plain m a H) as E.
    destruct (enc_atom m a). cbn [snd] in *. exact E.
  - destruct l as [|a l]; [reflexivity|].
    pose proof (enc_atoms_plain (a :: l) m H) as E.
    destruct (enc_atoms m (a :: l)). cbn [snd] in *. exact E.
Qed.

(* a falsy value encodes to nothing *)
Lemma value_falsy_enc m v : value_falsy v = true -> txt_of (fst (encode_data m v)) = [].
Proof.
  destruct v as [|a|l]; cbn; intros H; try reflexivity.
  - destruct a as [s|q]; [|discriminate]. destruct s; [reflexivity|discriminate].
  - destruct l as [|a l]; [reflexivity|]. destruct a as [s|q]; [|discriminate].
    destruct s; [|discriminate]. destruct l; [reflexivity|discriminate].
Qed.

Lemma set_map_idle ps op m a0 it pp m' : set_map (idle ps op m a0 it pp) m' = idle ps op m' a0 it pp.
Proof. reflexivity. Qed.
Lemma set_map_pend ps m q am it pp m' : set_map (pend ps m q am it pp) m' = pend ps m' q am it pp.
Proof. reflexivity. Qed.

Lemma data_from_steady m ps pp it v :
  data_plain v = true ->
  wstep (steady m ps pp it) (WData v)
  = (steady m ps pp true, flat_map sflat (txt_of (fst (encode_data m v))), None).
Proof.
  intros Hp. cbn [wstep]. unfold set_data, steady.
  change (w_map (idle ps true m [] it pp)) with m.
  pose proof (encode_data_plain m v Hp) as Em.
  destruct (encode_data m v) as [enc m']. cbn [snd fst] in *. subst m'.
  rewrite set_map_idle, flush_idle.
  destruct enc as [[|c t]|]; reflexivity.
Qed.

Lemma data_from_pend ps m q am it pp v :
  wstep (pend ps m q am it pp) (WData v)
  = (let (enc, m') := encode_data m v in
     let attrs := flush_attrs (enc_is_none enc) am in
     let m4 := flush_map q attrs m' in
     let ch := changed_entries (pm_of ps) m4 in
     (idle ps true m4 [] true (map fst ch :: pp),
      starts ch ++ [SStartElem q attrs] ++ flat_map sflat (txt_of enc), None)).
Proof.
  cbn [wstep]. unfold set_data.
  change (w_map (pend ps m q am it pp)) with m.
  destruct (encode_data m v) as [enc m'].
  rewrite set_map_pend.
  replace (match enc with None => true | Some _ => false end) with (enc_is_none enc) by reflexivity.
  rewrite flush_pend. cbn zeta.
  destruct enc as [[|c t]|]; cbn [txt_of flat_map sflat app]; rewrite <- ?app_assoc; reflexivity.
Qed.

Lemma end_from_idle ps m it pfx pp q :
  wstep (idle ps true m [] it (pfx :: pp)) (WEnd q)
  = (end_state ps m pp, [SEndElem q] ++ map SEndPrefix pfx, None).
Proof.
  cbn [wstep]. unfold end_tag. rewrite flush_idle.
  cbn [idle w_tail w_open negb w_parents w_pp w_map w_pending w_attrs app].
  destruct ps as [|p ps']; reflexivity.
Qed.

Lemma end_from_pend ps m q am it pp q' :
  wstep (pend ps m q am it pp) (WEnd q')
  = (let attrs := flush_attrs true am in
     let m4 := flush_map q attrs m in
     let ch := changed_entries (pm_of ps) m4 in
     (end_state ps m4 pp, starts ch ++ [SStartElem q attrs] ++ [SEndElem q'] ++ map SEndPrefix (map fst ch), None)).
Proof.
  cbn [wstep]. unfold end_tag. rewrite flush_pend. cbn zeta.
  cbn [idle w_tail w_open negb w_parents w_pp w_map w_pending w_attrs].
  rewrite <- !app_assoc.
  destruct ps as [|p ps']; reflexivity.
Qed.

Lemma start_from_pend ps m q am it pp qc :
  wstep (pend ps m q am it pp) (WStart qc)
  = (let attrs := flush_attrs false am in
     let m4 := flush_map q attrs m in
     let ch := changed_entries (pm_of ps) m4 in
     (pend (m4 :: ps) (add_namespace (fst qc) m4) qc [] false (map fst ch :: pp),
      starts ch ++ [SStartElem q attrs], None)).
Proof. cbn [wstep]. unfold start_tag. rewrite flush_pend. reflexivity. Qed.

Lemma map_end_prefix ch : map SEndPrefix (map fst ch) = ends ch.
Proof. unfold ends. rewrite map_map. reflexivity. Qed.

(* ------------------------------------------------------------------ big step *)
Definition is_data (i : item) : bool := match i with IData _ => true | INode _ _ _ => false end.
Fixpoint it_after (it : bool) (ks : list item) : bool :=
  match ks with [] => it | k :: r => it_after (is_data k) r end.

(* what one item does from a steady state *)
Definition item_runs (i : item) : Prop :=
  forall m ps pp it,
    item_ok i = true ->
    (match i with IData v => data_plain v | _ => true end) = true ->
    wrun (steady m ps pp it) (flatten i)
    = (steady m ps pp (is_data i), flat_map sflat (wref m i), None).

Lemma kids_run ks :
  Forall item_runs ks ->
  forall m ps pp it,
    kids_ok_with item_ok it ks = true ->
    wrun (steady m ps pp it) (flat_map flatten ks)
    = (steady m ps pp (it_after it ks), flat_map sflat (flat_map (wref m) ks), None).
Proof.
  induction 1 as [|k ks Hk Hks IH]; intros m ps pp it Hok.
  - reflexivity.
  - cbn [flat_map].
    assert (Hrun : wrun (steady m ps pp it) (flatten k)
                   = (steady m ps pp (is_data k), flat_map sflat (wref m k), None)
                   /\ kids_ok_with item_ok (is_data k) ks = true).
    { destruct k as [v|q ats ks'].
      - cbn in Hok. apply andb_true_iff in Hok as [H2 Hr].
        split; [|exact Hr]. apply Hk; [reflexivity|exact H2].
      - change (kids_ok_with item_ok it (INode q ats ks' :: ks))
          with (item_ok (INode q ats ks') && kids_ok_with item_ok false ks) in Hok.
        apply andb_true_iff in Hok as [H1 H2]. split; [|exact H2]. apply Hk; [exact H1|reflexivity]. }
    destruct Hrun as [Hrun Hr].
    rewrite (wrun_app _ _ _ _ _ Hrun). rewrite (IH m ps pp (is_data k) Hr).
    cbn [it_after]. rewrite flat_map_app. reflexivity.
Qed.

(* one element from any idle state (covers the document element: op = false, a0 = root attributes) *)
Lemma elem_from_idle q ats ks :
  Forall item_runs ks ->
  item_ok (INode q ats ks) = true ->
  forall (ps : list nsmap) (op : bool) (m : nsmap) a0 it pp,
    let ps' := if op then m :: ps else ps in
    exists m4,
      wrun (idle ps op m a0 it pp) (flatten (INode q ats ks))
      = (end_state ps' m4 pp, sflat (wref_elem wref (pm_of ps') a0 m q ats ks), None).
Proof.
  intros Hks Hok ps op m a0 it pp ps'.
  cbn [flatten].
  rewrite (wrun_cons _ _ _ _ _ (start_from_idle ps op m a0 it pp q)). fold ps'.
  unfold wref_elem.
  pose proof (attrs_from_pend ats ps' (add_namespace (fst q) m) q a0 it pp) as Ha.
  destruct (fold_attrs (add_namespace (fst q) m) a0 ats) as [am m2] eqn:Ef.
  rewrite (wrun_app _ _ _ _ _ Ha). cbn [app].
  destruct ks as [|k ks'].
  - (* empty element *)
    cbn [flat_map app]. rewrite (wrun_cons _ _ _ _ _ (end_from_pend ps' m2 q am it pp q)).
    cbn zeta. cbn [wrun]. eexists. rewrite !app_nil_r. cbn [sflat flat_map app].
    rewrite map_end_prefix. unfold starts, ends. rewrite <- ?app_assoc. reflexivity.
  - destruct k as [v|qc atc kc].
    + (* first content is data *)
      cbn [flat_map flatten app].
      pose proof (data_from_pend ps' m2 q am it pp v) as Hd.
      destruct (encode_data m2 v) as [enc m2'] eqn:Ee. cbn zeta in Hd.
      rewrite (wrun_cons _ _ _ _ _ Hd). clear Hd.
      set (attrs := flush_attrs (enc_is_none enc) am).
      set (m4 := flush_map q attrs m2').
      set (ch := changed_entries (pm_of ps') m4).
      cbn [item_ok] in Hok.
      inversion Hks as [|? ? _ Hks']; subst.
      pose proof (kids_run ks' Hks' m4 ps' (map fst ch :: pp) true Hok) as Hr.
      fold (steady m4 ps' (map fst ch :: pp) true).
      rewrite (wrun_app _ _ _ _ _ Hr).
      unfold steady. rewrite (wrun_cons _ _ _ _ _ (end_from_idle ps' m4 _ (map fst ch) pp q)).
      cbn [wrun]. exists m4. rewrite !app_nil_r. cbn [sflat].
      rewrite map_end_prefix. unfold starts, ends.
      rewrite flat_map_app. rewrite <- ?app_assoc. reflexivity.
    + (* first content is an element: its start event flushes ours *)
      cbn [flat_map]. cbn [flatten]. cbn [app].
      rewrite (wrun_cons _ _ _ _ _ (start_from_pend ps' m2 q am it pp qc)). cbn zeta.
      set (attrs := flush_attrs false am).
      set (m4 := flush_map q attrs m2).
      set (ch := changed_entries (pm_of ps') m4).
      (* the rest of the child runs as from the steady state of our element *)
      assert (Hchild :
                wrun (steady m4 ps' (map fst ch :: pp) false) (flatten (INode qc atc kc))
                = (steady m4 ps' (map fst ch :: pp) false, flat_map sflat (wref m4 (INode qc atc kc)), None)).
      { inversion Hks as [|? ? Hk _]; subst. apply Hk; [|reflexivity].
        change (item_ok (INode q ats (INode qc atc kc :: ks')))
          with (item_ok (INode qc atc kc) && kids_ok_with item_ok false ks') in Hok.
        apply andb_true_iff in Hok as [H1 _]. exact H1. }
      cbn [flatten] in Hchild.
      unfold steady in Hchild.
      rewrite (wrun_cons _ _ _ _ _ (start_from_idle ps' true m4 [] false (map fst ch :: pp) qc)) in Hchild.
      destruct (wrun (pend (m4 :: ps') (add_namespace (fst qc) m4) qc [] false (map fst ch :: pp))
                     (map (fun a => WAttr (fst a) (snd a)) atc ++ flat_map flatten kc ++ [WEnd qc]))
        as [[sc oc] ec] eqn:Ec.
      cbn [app] in Hchild. inversion Hchild; subst sc oc ec. clear Hchild.
      (* now split the remaining events *)
      assert (Hrest : kids_ok_with item_ok false ks' = true).
      { change (item_ok (INode q ats (INode qc atc kc :: ks')))
          with (item_ok (INode qc atc kc) && kids_ok_with item_ok false ks') in Hok.
        apply andb_true_iff in Hok as [_ H2]. exact H2. }
      inversion Hks as [|? ? _ Hks']; subst.
      pose proof (kids_run ks' Hks' m4 ps' (map fst ch :: pp) false Hrest) as Hr.
      rewrite <- (app_assoc _ (flat_map flatten ks') [WEnd q]).
      rewrite (wrun_app _ _ _ _ _ Ec).
      fold (steady m4 ps' (map fst ch :: pp) false).
      rewrite (wrun_app _ _ _ _ _ Hr).
      unfold steady. rewrite (wrun_cons _ _ _ _ _ (end_from_idle ps' m4 _ (map fst ch) pp q)).
      cbn [wrun]. exists m4. rewrite !app_nil_r. cbn [sflat].
      rewrite map_end_prefix. unfold starts, ends.
      change (flat_map (wref m4) (INode qc atc kc :: ks')) with (wref m4 (INode qc atc kc) ++ flat_map (wref m4) ks').
      rewrite flat_map_app.
      change (flat_map sflat (wref m4 (INode qc atc kc))) with (sflat (wref_elem wref m4 [] m4 qc atc kc) ++ []).
      rewrite ?app_nil_r. rewrite <- ?app_assoc. reflexivity.
Qed.

Theorem item_runs_all i : item_runs i.
Proof.
  induction i as [v|q ats ks IH] using item_ind2; intros m ps pp it Hok Hd.
  - cbn [flatten]. cbn [wrun].
    rewrite (data_from_steady m ps pp it v Hd). cbn [wref]. rewrite app_nil_r. reflexivity.
  - destruct (elem_from_idle q ats ks IH Hok ps true m [] it pp) as [m4 H].
    cbn [pm_of end_state] in H. unfold steady. rewrite H. cbn [wref flat_map is_data]. rewrite app_nil_r. reflexivity.
Qed.

(* the whole document: from the initial state, with the configured root attributes *)
Theorem document_runs user a0 q ats ks :
  item_ok (INode q ats ks) = true ->
  exists s',
    wrun (idle [] false user a0 false []) (flatten (INode q ats ks))
    = (s', sflat (wref_root user a0 q ats ks), None).
Proof.
  intros Hok.
  assert (Hks : Forall item_runs ks) by (apply Forall_forall; intros; apply item_runs_all).
  destruct (elem_from_idle q ats ks Hks Hok [] false user a0 false []) as [m4 H].
  eexists. exact H.
Qed.
