(* Proofs/GraphTopo.v — toposort / toposort_flatten(sort=True): the result depends only
   on the dictionary-of-sets as a mathematical object (same keys, same dependency sets),
   not on dict insertion order nor on set iteration order; fuel is sufficient; the
   flattened result is a duplicate-free enumeration of the keys. *)
From Coq Require Import NArith List Bool Arith Lia Permutation.
From XV Require Import Base.Str Spec.GraphSpec Model.Graph Proofs.GraphBase.
Import ListNotations.

Definition res_rel {T} (P : T -> T -> Prop) (r r' : result T) : Prop :=
  match r, r' with
  | Ok x, Ok y => P x y
  | Raise e, Raise e' => e = e'
  | OutOfFuel, OutOfFuel => True
  | _, _ => False
  end.

Section Topo.
  Context {A : Type}.
  Variable eqb : A -> A -> bool.
  Hypothesis eqb_eq : forall x y, eqb x y = true <-> x = y.
  Variable leb : A -> A -> bool.
  Hypothesis leb_total : forall x y, leb x y = false -> leb y x = true.
  Hypothesis leb_trans : forall x y z, leb x y = true -> leb y z = true -> leb x z = true.
  Hypothesis leb_antisym : forall x y, leb x y = true -> leb y x = true -> x = y.

  Let memb_In := memb_In eqb eqb_eq.
  Let memb_false := memb_false eqb eqb_eq.

  Definition iskey (d : dict) (k : A) : Prop := In k (keys d).
  Definition dep (d : dict) (k x : A) : Prop := exists v, In (k, v) d /\ In x v.

  (* the same dict of sets, written down in another key order / set iteration order *)
  Definition dict_equiv (d d' : @dict A) : Prop :=
    NoDup (keys d) /\ NoDup (keys d') /\
    (forall k, iskey d k <-> iskey d' k) /\ (forall k x, dep d k x <-> dep d' k x).

  Lemma keys_functional (d : @dict A) k v v' :
    NoDup (keys d) -> In (k, v) d -> In (k, v') d -> v = v'.
  Proof.
    induction d as [|[k0 v0] d IH]; cbn; intros Hn H1 H2; [contradiction|].
    inversion Hn as [|? ? Hk Hn']; subst.
    destruct H1 as [H1|H1], H2 as [H2|H2].
    - congruence.
    - inversion H1; subst. exfalso. apply Hk. apply in_map_iff. exists (k, v'). split; [reflexivity|exact H2].
    - inversion H2; subst. exfalso. apply Hk. apply in_map_iff. exists (k, v). split; [reflexivity|exact H1].
    - apply IH; assumption.
  Qed.

  Lemma iskey_entry (d : @dict A) k : iskey d k <-> exists v, In (k, v) d.
  Proof.
    unfold iskey, keys. rewrite in_map_iff. split.
    - intros [[k' v] [E H]]. cbn in E. subst. exists v. exact H.
    - intros [v H]. exists (k, v). split; [reflexivity | exact H].
  Qed.

  Lemma seteq_memb (o o' : list A) x : seteq o o' -> memb eqb x o = memb eqb x o'.
  Proof.
    intros H. destruct (memb eqb x o) eqn:E, (memb eqb x o') eqn:E'; try reflexivity.
    - apply memb_In in E. apply H in E. apply memb_In in E. congruence.
    - apply memb_In in E'. apply H in E'. apply memb_In in E'. congruence.
  Qed.

  Lemma seteq_is_nil (o o' : list A) : seteq o o' -> is_nil o = is_nil o'.
  Proof.
    intros H. destruct o as [|x o], o' as [|y o']; cbn; try reflexivity.
    - destruct (proj2 (H y)). left; reflexivity.
    - destruct (proj1 (H x)). left; reflexivity.
  Qed.

  (* ---- layer_of ---- *)
  Lemma layer_of_In (d : @dict A) k :
    NoDup (keys d) -> (In k (layer_of d) <-> iskey d k /\ forall x, ~ dep d k x).
  Proof.
    intros Hn. unfold layer_of. rewrite in_map_iff. split.
    - intros [[k' v] [E H]]. cbn in E. subst k'. apply filter_In in H. destruct H as [H Hv]. cbn in Hv.
      destruct v as [|y v]; [|discriminate]. split.
      + apply iskey_entry. exists []. exact H.
      + intros x [v' [H1 H2]]. rewrite (keys_functional d k v' [] Hn H1 H) in H2. contradiction.
    - intros [Hk Hd]. apply iskey_entry in Hk. destruct Hk as [v Hv].
      exists (k, v). split; [reflexivity|]. apply filter_In. split; [exact Hv|]. cbn.
      destruct v as [|y v]; [reflexivity|]. exfalso. apply (Hd y). exists (y :: v). split; [exact Hv | left; reflexivity].
  Qed.

  Lemma layer_of_equiv d d' : dict_equiv d d' -> seteq (layer_of d) (layer_of d').
  Proof.
    intros [Hn [Hn' [Hk Hd]]] k. rewrite (layer_of_In d k Hn), (layer_of_In d' k Hn'). rewrite Hk.
    split; intros [H1 H2]; (split; [exact H1|]); intros x Hx; apply (H2 x); apply Hd; exact Hx.
  Qed.

  Lemma layer_of_sub (d : @dict A) k : In k (layer_of d) -> In k (keys d).
  Proof.
    unfold layer_of, keys. rewrite !in_map_iff. intros [kv [E H]]. apply filter_In in H.
    exists kv. split; [exact E | apply H].
  Qed.

  (* ---- topo_step ---- *)
  Lemma topo_step_keys o (d : @dict A) :
    keys (topo_step eqb o d) = filter (fun k => negb (memb eqb k o)) (keys d).
  Proof.
    unfold topo_step, keys. induction d as [|[k v] d IH]; cbn; [reflexivity|].
    destruct (negb (memb eqb k o)); cbn; rewrite IH; reflexivity.
  Qed.

  Lemma topo_step_entry o (d : @dict A) k v' :
    In (k, v') (topo_step eqb o d) <->
    exists v, In (k, v) d /\ memb eqb k o = false /\ v' = filter (fun x => negb (memb eqb x o)) v.
  Proof.
    unfold topo_step. rewrite in_map_iff. split.
    - intros [[k0 v] [E H]]. cbn in E. inversion E; subst. apply filter_In in H. cbn in H.
      destruct H as [H Hm]. exists v. split; [exact H|]. split; [apply negb_true_iff; exact Hm | reflexivity].
    - intros [v [H [Hm ->]]]. exists (k, v). split; [reflexivity|]. apply filter_In. split; [exact H|].
      cbn. rewrite Hm. reflexivity.
  Qed.

  Lemma topo_step_dep o (d : @dict A) k x :
    dep (topo_step eqb o d) k x <-> dep d k x /\ ~ In k o /\ ~ In x o.
  Proof.
    unfold dep. split.
    - intros [v' [H Hx]]. apply topo_step_entry in H. destruct H as [v [H [Hm ->]]].
      apply filter_In in Hx. destruct Hx as [Hx Hxo]. split; [exists v; split; assumption|].
      split; [apply memb_false; exact Hm | apply memb_false; apply negb_true_iff; exact Hxo].
    - intros [[v [H Hx]] [Hk Hxo]]. exists (filter (fun x => negb (memb eqb x o)) v). split.
      + apply topo_step_entry. exists v. split; [exact H|]. split; [apply memb_false; exact Hk | reflexivity].
      + apply filter_In. split; [exact Hx|]. apply negb_true_iff. apply memb_false. exact Hxo.
  Qed.

  Lemma topo_step_equiv o o' d d' :
    dict_equiv d d' -> seteq o o' -> dict_equiv (topo_step eqb o d) (topo_step eqb o' d').
  Proof.
    intros [Hn [Hn' [Hk Hd]]] Ho. unfold dict_equiv, iskey. rewrite !topo_step_keys.
    split; [apply NoDup_filter; exact Hn|]. split; [apply NoDup_filter; exact Hn'|]. split.
    - intros k. rewrite !filter_In. rewrite (seteq_memb o o' k Ho). unfold iskey in Hk. rewrite (Hk k). tauto.
    - intros k x. rewrite !topo_step_dep. rewrite (Hd k x). rewrite (Ho k), (Ho x). tauto.
  Qed.

  Lemma dict_equiv_is_nil d d' : dict_equiv d d' -> is_nil d = is_nil d'.
  Proof.
    intros [_ [_ [Hk _]]]. destruct d as [|[k v] d], d' as [|[k' v'] d']; cbn; try reflexivity.
    - destruct (proj2 (Hk k')). left; reflexivity.
    - destruct (proj1 (Hk k)). left; reflexivity.
  Qed.

  Lemma dict_equiv_length d d' : dict_equiv d d' -> length d = length d'.
  Proof.
    intros [Hn [Hn' [Hk _]]].
    assert (Hp : Permutation (keys d) (keys d')) by (apply NoDup_Permutation; assumption).
    apply Permutation_length in Hp. unfold keys in Hp. rewrite !map_length in Hp. exact Hp.
  Qed.

  (* ---- the loop ---- *)
  Lemma topo_loop_equiv : forall f d d',
    dict_equiv d d' -> res_rel (Forall2 seteq) (topo_loop eqb f d) (topo_loop eqb f d').
  Proof.
    induction f as [|f IH]; intros d d' He; cbn; [exact I|].
    assert (Ho := layer_of_equiv d d' He).
    rewrite <- (seteq_is_nil _ _ Ho), <- (dict_equiv_is_nil d d' He).
    destruct (is_nil (layer_of d)).
    - destruct (is_nil d); cbn; [constructor | reflexivity].
    - specialize (IH _ _ (topo_step_equiv _ _ d d' He Ho)).
      destruct (topo_loop eqb f (topo_step eqb (layer_of d) d)),
               (topo_loop eqb f (topo_step eqb (layer_of d') d')); cbn in *; try exact IH.
      constructor; assumption.
  Qed.

  (* ---- preparation: v.discard(k); add the items that only occur as dependencies ---- *)
  Lemma discard_self_keys (d : @dict A) : keys (discard_self eqb d) = keys d.
  Proof. unfold discard_self, keys. rewrite map_map. reflexivity. Qed.

  Lemma discard_self_dep (d : @dict A) k x : dep (discard_self eqb d) k x <-> dep d k x /\ x <> k.
  Proof.
    unfold dep, discard_self. split.
    - intros [v' [H Hx]]. apply in_map_iff in H. destruct H as [[k0 v] [E H]]. cbn in E. inversion E; subst.
      apply filter_In in Hx. destruct Hx as [Hx Hne]. split; [exists v; split; assumption|].
      apply negb_true_iff in Hne. apply (eqb_neq eqb eqb_eq). exact Hne.
    - intros [[v [H Hx]] Hne]. exists (filter (fun y => negb (eqb y k)) v). split.
      + apply in_map_iff. exists (k, v). split; [reflexivity | exact H].
      + apply filter_In. split; [exact Hx|]. apply negb_true_iff. apply (eqb_neq eqb eqb_eq). exact Hne.
  Qed.

  Lemma extra_items_In (d : @dict A) x : In x (extra_items eqb d) <-> (exists k, dep d k x) /\ ~ iskey d x.
  Proof.
    unfold extra_items. rewrite (dedup_In eqb eqb_eq), filter_In, in_concat. split.
    - intros [[v [Hv Hx]] Hm]. apply in_map_iff in Hv. destruct Hv as [[k v0] [E H]]. cbn in E. subst v0.
      split; [exists k, v; split; assumption|]. apply memb_false. apply negb_true_iff. exact Hm.
    - intros [[k [v [H Hx]]] Hk]. split.
      + exists v. split; [|exact Hx]. apply in_map_iff. exists (k, v). split; [reflexivity|exact H].
      + apply negb_true_iff. apply memb_false. exact Hk.
  Qed.

  Lemma NoDup_app_intro (a b : list A) :
    NoDup a -> NoDup b -> (forall x, In x a -> ~ In x b) -> NoDup (a ++ b).
  Proof.
    induction a as [|y a IH]; cbn; intros Ha Hb Hd; [exact Hb|].
    inversion Ha; subst. constructor.
    - intros Hy. apply in_app_or in Hy. destruct Hy as [Hy|Hy]; [contradiction|]. apply (Hd y); [left; reflexivity|exact Hy].
    - apply IH; try assumption. intros x Hx. apply Hd. right. exact Hx.
  Qed.

  Lemma topo_prepare_keys (d : @dict A) :
    keys (topo_prepare eqb d) = keys d ++ extra_items eqb (discard_self eqb d).
  Proof.
    unfold topo_prepare, keys. rewrite map_app, map_map. cbn. rewrite map_id.
    fold (keys (discard_self eqb d)). rewrite discard_self_keys. reflexivity.
  Qed.

  Lemma topo_prepare_dep (d : @dict A) k x : dep (topo_prepare eqb d) k x <-> dep d k x /\ x <> k.
  Proof.
    rewrite <- discard_self_dep. unfold dep, topo_prepare. split.
    - intros [v [H Hx]]. apply in_app_or in H. destruct H as [H|H]; [exists v; split; assumption|].
      apply in_map_iff in H. destruct H as [y [E _]]. inversion E; subst. contradiction.
    - intros [v [H Hx]]. exists v. split; [apply in_or_app; left; exact H | exact Hx].
  Qed.

  Lemma topo_prepare_equiv d d' : dict_equiv d d' -> dict_equiv (topo_prepare eqb d) (topo_prepare eqb d').
  Proof.
    intros [Hn [Hn' [Hk Hd]]].
    assert (Hx : forall x, In x (extra_items eqb (discard_self eqb d)) <-> In x (extra_items eqb (discard_self eqb d'))).
    { intros x. rewrite !extra_items_In. unfold iskey. rewrite !discard_self_keys. fold (iskey d x) (iskey d' x).
      rewrite (Hk x). split; intros [[k Hkx] Hnk]; (split; [exists k|exact Hnk]);
        apply discard_self_dep; apply discard_self_dep in Hkx; destruct Hkx as [Hkx Hne]; (split; [apply Hd; exact Hkx | exact Hne]). }
    unfold dict_equiv, iskey. rewrite !topo_prepare_keys. split; [|split; [|split]].
    - apply NoDup_app_intro; [exact Hn | apply dedup_NoDup; exact eqb_eq|].
      intros x Hx1 Hx2. apply extra_items_In in Hx2. destruct Hx2 as [_ Hx2]. apply Hx2. unfold iskey. rewrite discard_self_keys. exact Hx1.
    - apply NoDup_app_intro; [exact Hn' | apply dedup_NoDup; exact eqb_eq|].
      intros x Hx1 Hx2. apply extra_items_In in Hx2. destruct Hx2 as [_ Hx2]. apply Hx2. unfold iskey. rewrite discard_self_keys. exact Hx1.
    - intros k. rewrite !in_app_iff. unfold iskey in Hk. rewrite (Hk k), (Hx k). tauto.
    - intros k x. rewrite !topo_prepare_dep. rewrite (Hd k x). tauto.
  Qed.

  Lemma map_sort_set_equiv ls ls' :
    Forall2 seteq ls ls' -> map (sort_set eqb leb) ls = map (sort_set eqb leb) ls'.
  Proof.
    induction 1 as [|l l' ls ls' H _ IH]; cbn; [reflexivity|].
    rewrite IH. f_equal. apply (sort_set_seteq eqb eqb_eq leb leb_total leb_trans leb_antisym). exact H.
  Qed.

  Theorem toposort_perm_invariant d d' :
    dict_equiv d d' -> res_rel (Forall2 seteq) (toposort eqb d) (toposort eqb d').
  Proof.
    intros He. unfold toposort. rewrite <- (dict_equiv_is_nil d d' He).
    destruct (is_nil d); [constructor|].
    assert (Hp := topo_prepare_equiv d d' He).
    rewrite <- (dict_equiv_length _ _ Hp). apply topo_loop_equiv. exact Hp.
  Qed.

  (* dict insertion order and set iteration order do not influence the flattened order *)
  Theorem toposort_flatten_perm_invariant d d' :
    dict_equiv d d' -> toposort_flatten eqb leb d = toposort_flatten eqb leb d'.
  Proof.
    intros He. unfold toposort_flatten. assert (H := toposort_perm_invariant d d' He).
    destruct (toposort eqb d), (toposort eqb d'); cbn in *; try contradiction; try reflexivity.
    - f_equal. f_equal. apply map_sort_set_equiv. exact H.
    - congruence.
  Qed.

  (* ---- fuel is sufficient ---- *)
  Lemma filter_length_le' {T} (p : T -> bool) (l : list T) : length (filter p l) <= length l.
  Proof. induction l as [|y l IH]; cbn; [lia|]. destruct (p y); cbn; lia. Qed.

  Lemma filter_length_lt {T} (p : T -> bool) (l : list T) x :
    In x l -> p x = false -> length (filter p l) < length l.
  Proof.
    induction l as [|y l IH]; cbn; intros Hx Hp; [contradiction|].
    destruct Hx as [->|Hx].
    - rewrite Hp. assert (H := filter_length_le' p l). lia.
    - specialize (IH Hx Hp). destruct (p y); cbn; lia.
  Qed.

  Lemma topo_step_length_lt (d : @dict A) :
    layer_of d <> [] -> length (topo_step eqb (layer_of d) d) < length d.
  Proof.
    intros Hne. unfold topo_step. rewrite map_length.
    destruct (layer_of d) as [|k o] eqn:El; [congruence|].
    assert (Hk : In k (layer_of d)) by (rewrite El; left; reflexivity).
    unfold layer_of in Hk. apply in_map_iff in Hk. destruct Hk as [kv [E Hkv]]. apply filter_In in Hkv.
    apply (filter_length_lt _ d kv); [apply Hkv|].
    apply negb_false_iff. apply memb_In. rewrite E. left; reflexivity.
  Qed.

  Lemma topo_loop_fuel : forall f (d : @dict A), length d < f -> topo_loop eqb f d <> OutOfFuel.
  Proof.
    induction f as [|f IH]; intros d Hl; [lia|]. cbn.
    destruct (is_nil (layer_of d)) eqn:En.
    - destruct (is_nil d); discriminate.
    - assert (Hne : layer_of d <> []) by (intros E; rewrite E in En; discriminate).
      assert (Hlt := topo_step_length_lt d Hne).
      specialize (IH (topo_step eqb (layer_of d) d)).
      destruct (topo_loop eqb f (topo_step eqb (layer_of d) d)); cbn; try discriminate.
      exfalso. apply IH; [lia | reflexivity].
  Qed.

  Theorem toposort_flatten_fuel_sufficient d : toposort_flatten eqb leb d <> OutOfFuel.
  Proof.
    unfold toposort_flatten, toposort. destruct (is_nil d); [cbn; discriminate|].
    assert (H := topo_loop_fuel (S (length (topo_prepare eqb d))) (topo_prepare eqb d) (Nat.lt_succ_diag_r _)).
    destruct (topo_loop eqb (S (length (topo_prepare eqb d))) (topo_prepare eqb d)) eqn:E; cbn [rmap].
    - discriminate.
    - discriminate.
    - exfalso. apply H. reflexivity.
  Qed.

  (* ---- the flattened result enumerates the keys without duplicates ---- *)
  Lemma partition_perm {T} (p : T -> bool) (l : list T) :
    Permutation l (filter p l ++ filter (fun x => negb (p x)) l).
  Proof.
    induction l as [|x l IH]; cbn; [constructor|].
    destruct (p x); cbn.
    - constructor. exact IH.
    - apply Permutation_cons_app. exact IH.
  Qed.

  Lemma layer_of_as_filter (d : @dict A) :
    NoDup (keys d) -> layer_of d = filter (fun k => memb eqb k (layer_of d)) (keys d).
  Proof.
    intros Hn. unfold layer_of at 1. unfold keys.
    assert (H : forall l, (forall kv, In kv l -> In kv d) ->
              map fst (filter (fun kv => is_nil (snd kv)) l) = filter (fun k => memb eqb k (layer_of d)) (map fst l)).
    { induction l as [|[k v] l IH]; intros Hsub; cbn; [reflexivity|].
      assert (Hkv : In (k, v) d) by (apply Hsub; left; reflexivity).
      assert (Em : memb eqb k (layer_of d) = is_nil v).
      { destruct (is_nil v) eqn:Ev.
        - apply memb_In. unfold layer_of. apply in_map_iff. exists (k, v). split; [reflexivity|].
          apply filter_In. split; [exact Hkv | exact Ev].
        - apply memb_false. intros Hk. apply (layer_of_In d k Hn) in Hk. destruct Hk as [_ Hk].
          destruct v as [|y v]; [discriminate|]. apply (Hk y). exists (y :: v). split; [exact Hkv | left; reflexivity]. }
      rewrite Em. destruct (is_nil v); cbn; rewrite IH; try reflexivity; intros kv H; apply Hsub; right; exact H. }
    apply H. auto.
  Qed.

  Lemma topo_loop_keys : forall f (d : @dict A) ls,
    NoDup (keys d) -> topo_loop eqb f d = Ok ls ->
    Permutation (concat ls) (keys d) /\ Forall (@NoDup A) ls.
  Proof.
    induction f as [|f IH]; intros d ls Hn; cbn; [discriminate|].
    destruct (is_nil (layer_of d)) eqn:En.
    - destruct d as [|kv d]; cbn; [|discriminate]. intros E. inversion E; subst. split; constructor.
    - destruct (topo_loop eqb f (topo_step eqb (layer_of d) d)) as [ls0| |] eqn:El; cbn; try discriminate.
      intros E. inversion E; subst. clear E.
      assert (Hn2 : NoDup (keys (topo_step eqb (layer_of d) d))) by (rewrite topo_step_keys; apply NoDup_filter; exact Hn).
      destruct (IH _ _ Hn2 El) as [Hp Hf]. split.
      + cbn. rewrite Hp, topo_step_keys. rewrite (layer_of_as_filter d Hn) at 1.
        symmetry. apply partition_perm.
      + constructor; [|exact Hf]. rewrite (layer_of_as_filter d Hn). apply NoDup_filter. exact Hn.
  Qed.

  Lemma dedup_NoDup_id (l : list A) : NoDup l -> dedup eqb l = l.
  Proof.
    induction 1 as [|x l Hx _ IH]; cbn; [reflexivity|].
    apply memb_false in Hx. rewrite Hx, IH. reflexivity.
  Qed.

  Lemma concat_sort_perm ls :
    Forall (@NoDup A) ls -> Permutation (concat (map (sort_set eqb leb) ls)) (concat ls).
  Proof.
    induction 1 as [|l ls Hl _ IH]; cbn; [constructor|].
    apply Permutation_app; [|exact IH]. unfold sort_set. rewrite (dedup_NoDup_id l Hl). apply isort_perm.
  Qed.

  Theorem toposort_flatten_keys d l :
    NoDup (keys d) -> toposort_flatten eqb leb d = Ok l ->
    Permutation l (keys d ++ extra_items eqb (discard_self eqb d)) /\ NoDup l.
  Proof.
    intros Hn. unfold toposort_flatten, toposort.
    destruct (is_nil d) eqn:Hnil.
    - destruct d; [|discriminate]. cbn. intros E. inversion E; subst. cbn. split; constructor.
    - destruct (topo_loop eqb (S (length (topo_prepare eqb d))) (topo_prepare eqb d)) as [ls| |] eqn:El; cbn [rmap]; try discriminate.
      intros E. inversion E as [E']. subst l. clear E.
      assert (Hnp : NoDup (keys (topo_prepare eqb d))).
      { rewrite topo_prepare_keys. apply NoDup_app_intro; [exact Hn | apply dedup_NoDup; exact eqb_eq|].
        intros x Hx1 Hx2. apply extra_items_In in Hx2. destruct Hx2 as [_ Hx2]. apply Hx2. unfold iskey. rewrite discard_self_keys. exact Hx1. }
      destruct (topo_loop_keys _ _ _ Hnp El) as [Hp Hf].
      assert (Hperm : Permutation (concat (map (sort_set eqb leb) ls)) (keys d ++ extra_items eqb (discard_self eqb d))).
      { rewrite (concat_sort_perm ls Hf), Hp, topo_prepare_keys. reflexivity. }
      split; [exact Hperm|]. eapply Permutation_NoDup; [symmetry; exact Hperm|].
      rewrite <- topo_prepare_keys. exact Hnp.
  Qed.
End Topo.
