(* Proofs/CmMatch.v — correctness of the derivative matcher of Spec/Cm.v for models without xs:all:
   matches_correct : occ_ok c = true -> (matches c w = true <-> lang c w)
   (occ_ok: no All node, every Occ node has min <= max).  For models with All the matcher is only
   validated (against lxml / xmlschema) by the harnesses. *)
From Coq Require Import NArith List Bool Arith Lia Permutation.
From XV Require Import Base.Str Base.Eqb Spec.Cm Proofs.Cm.
Import ListNotations.
Local Close Scope N_scope.
Local Open Scope nat_scope.

Fixpoint occ_ok (c : cm) : bool :=
  match c with
  | Elem _ | AnyElem _ => true
  | Seq l | Choice l => forallb occ_ok l
  | All _ => false
  | Occ mn mx c => eleb mn mx && occ_ok c
  end.

(* structural induction through the nested lists *)
Lemma cm_ind' (P : cm -> Prop) :
  (forall q, P (Elem q)) -> (forall l, Forall P l -> P (Seq l)) -> (forall l, Forall P l -> P (Choice l)) ->
  (forall l, Forall P l -> P (All l)) -> (forall p, P (AnyElem p)) -> (forall mn mx c, P c -> P (Occ mn mx c)) ->
  forall c, P c.
Proof.
  intros He Hs Hc Ha Hy Ho. fix IH 1. intros [q|l|l|l|p|mn mx c].
  - apply He.
  - apply Hs. induction l as [|c l IHl]; constructor; [apply IH|exact IHl].
  - apply Hc. induction l as [|c l IHl]; constructor; [apply IH|exact IHl].
  - apply Ha. induction l as [|c l IHl]; constructor; [apply IH|exact IHl].
  - apply Hy.
  - apply Ho. apply IH.
Qed.

(* ------------------------------------------------------------------ inversion lemmas *)
Lemma lang_elem_iff q w : lang (Elem q) w <-> w = [q].
Proof. split; [intros H; inversion H; reflexivity|intros ->; constructor]. Qed.
Lemma lang_any_iff p w : lang (AnyElem p) w <-> exists q, w = [q] /\ p q = true.
Proof. split; [intros H; inversion H; subst; eauto|intros [q [-> H]]; constructor; exact H]. Qed.
Lemma lang_seq_nil_iff w : lang (Seq []) w <-> w = [].
Proof. split; [intros H; inversion H; reflexivity|intros ->; constructor]. Qed.
Lemma lang_seq_cons_iff c r w :
  lang (Seq (c :: r)) w <-> exists w1 w2, w = w1 ++ w2 /\ lang c w1 /\ lang (Seq r) w2.
Proof.
  split.
  - intros H; inversion H; subst. eauto.
  - intros [w1 [w2 [-> [H1 H2]]]]. constructor; assumption.
Qed.
Lemma lang_choice_iff l w : lang (Choice l) w <-> exists c, In c l /\ lang c w.
Proof.
  induction l as [|c r IH].
  - split; [intros H; inversion H|intros [c [[] _]]].
  - split.
    + intros H; inversion H; subst.
      * exists c. split; [left; reflexivity|assumption].
      * match goal with Hx : lang (Choice r) w |- _ => apply IH in Hx as [c' [Hin Hl]] end.
        exists c'. split; [right; exact Hin|exact Hl].
    + intros [c' [[E|Hin] Hl]].
      * subst. apply L_choice_here. exact Hl.
      * apply L_choice_there. apply IH. eauto.
Qed.
Lemma lang_occ_iff mn mx c w :
  lang (Occ mn mx c) w <-> exists ws, mn <= length ws /\ ele (length ws) mx /\ Forall (lang c) ws /\ w = concat ws.
Proof.
  split.
  - intros H; inversion H; subst. eauto.
  - intros [ws [H1 [H2 [H3 ->]]]]. constructor; assumption.
Qed.
Lemma lang_empty w : ~ lang Empty w.
Proof. intros H. inversion H. Qed.
Lemma lang_eps_iff w : lang Eps w <-> w = [].
Proof. apply lang_seq_nil_iff. Qed.

Lemma is_empty_spec c : is_empty c = true -> c = Empty.
Proof. destruct c as [| |[|]| | |]; cbn; try discriminate. reflexivity. Qed.

Lemma lang_mk_seq a r w : lang (mk_seq a r) w <-> lang (Seq (a :: r)) w.
Proof.
  unfold mk_seq. destruct (is_empty a) eqn:E; [|tauto].
  apply is_empty_spec in E. subst. split; intros H.
  - exfalso. exact (lang_empty _ H).
  - apply lang_seq_cons_iff in H as [w1 [w2 [_ [H1 _]]]]. exfalso. exact (lang_empty _ H1).
Qed.

Lemma lang_mk_choice l w : lang (mk_choice l) w <-> lang (Choice l) w.
Proof.
  unfold mk_choice. rewrite !lang_choice_iff. split; intros [c [Hin Hl]]; exists c; (split; [|exact Hl]).
  - apply filter_In in Hin. tauto.
  - apply filter_In. split; [exact Hin|]. destruct (is_empty c) eqn:E; [|reflexivity].
    apply is_empty_spec in E. subst. exfalso. exact (lang_empty _ Hl).
Qed.

(* ------------------------------------------------------------------ nullable *)
Lemma concat_nil_all {A} (ws : list (list A)) : concat ws = [] -> Forall (fun w => w = []) ws.
Proof.
  induction ws as [|w ws IH]; cbn; [constructor|]. intros H. apply app_eq_nil in H as [-> H]. constructor; auto.
Qed.

Lemma concat_repeat_nil {A} n : concat (repeat (@nil A) n) = [].
Proof. induction n; cbn; auto. Qed.

Lemma nullable_spec : forall c, occ_ok c = true -> (nullable c = true <-> lang c []).
Proof.
  induction c as [q|l IHF|l IHF|l IHF|p|mn mx c IHc] using cm_ind'; cbn [occ_ok nullable]; intros Hok.
  - split; [discriminate|]. intros H. apply lang_elem_iff in H. discriminate.
  - induction IHF as [|c l IHc _ IHl]; cbn [forallb] in *.
    + split; [intros _; constructor|reflexivity].
    + apply andb_true_iff in Hok as [Hc Hl]. rewrite andb_true_iff, (IHc Hc), (IHl Hl), lang_seq_cons_iff. split.
      * intros [H1 H2]. exists [], []. auto.
      * intros [w1 [w2 [E [H1 H2]]]]. symmetry in E. apply app_eq_nil in E as [-> ->]. auto.
  - rewrite lang_choice_iff. induction IHF as [|c l IHc _ IHl]; cbn [forallb existsb] in *.
    + split; [discriminate|intros [c [[] _]]].
    + apply andb_true_iff in Hok as [Hc Hl]. rewrite orb_true_iff, (IHc Hc), (IHl Hl). split.
      * intros [H|[c' [Hin H]]]; [exists c; split; [left; reflexivity|exact H]|exists c'; split; [right; exact Hin|exact H]].
      * intros [c' [[E|Hin] H]]; [subst; left; exact H|right; eauto].
  - discriminate.
  - split; [discriminate|]. intros H. apply lang_any_iff in H as [q [E _]]. discriminate.
  - apply andb_true_iff in Hok as [Hle Hc]. apply eleb_ele in Hle.
    rewrite orb_true_iff, Nat.eqb_eq, (IHc Hc), lang_occ_iff. split.
    + intros [->|Hn].
      * exists []. cbn [length concat]. split; [lia|]. split; [destruct mx; cbn; [lia|exact I]|]. split; [constructor|reflexivity].
      * exists (repeat [] mn). rewrite repeat_length, concat_repeat_nil. split; [lia|]. split; [exact Hle|]. split; [|reflexivity].
        apply Forall_forall. intros w Hw. apply repeat_spec in Hw. subst. exact Hn.
    + intros [ws [H1 [H2 [H3 E]]]]. destruct mn as [|n]; [left; reflexivity|right].
      destruct ws as [|w ws]; [cbn in H1; lia|]. symmetry in E. apply concat_nil_all in E.
      inversion E; subst. inversion H3; subst. assumption.
Qed.

(* ------------------------------------------------------------------ derivatives *)
Lemma occ_ok_mk_seq a r : occ_ok a = true -> forallb occ_ok r = true -> occ_ok (mk_seq a r) = true.
Proof. unfold mk_seq. intros Ha Hr. destruct (is_empty a); cbn; [reflexivity|]. rewrite Ha, Hr. reflexivity. Qed.
Lemma occ_ok_mk_choice l : forallb occ_ok l = true -> occ_ok (mk_choice l) = true.
Proof.
  unfold mk_choice. cbn [occ_ok]. intros H. apply forallb_forall. intros c Hc. apply filter_In in Hc as [Hc _].
  rewrite forallb_forall in H. auto.
Qed.

Lemma occ_ok_deriv a : forall c, occ_ok c = true -> occ_ok (deriv a c) = true.
Proof.
  induction c as [q|l IHF|l IHF|l IHF|p|mn mx c IHc] using cm_ind'; cbn [occ_ok]; intros Hok.
  - cbn. destruct (name_eqb q a); reflexivity.
  - cbn [deriv]. induction IHF as [|c l IHc _ IHl]; [reflexivity|]. cbn [forallb] in Hok. apply andb_true_iff in Hok as [Hc Hl].
    destruct (nullable c).
    + apply occ_ok_mk_choice. cbn [forallb]. rewrite (occ_ok_mk_seq _ _ (IHc Hc) Hl), (IHl Hl). reflexivity.
    + apply occ_ok_mk_seq; [apply IHc; exact Hc|exact Hl].
  - cbn [deriv]. apply occ_ok_mk_choice. induction IHF as [|c l IHc _ IHl]; [reflexivity|]. cbn [forallb map] in *.
    apply andb_true_iff in Hok as [Hc Hl]. rewrite (IHc Hc), (IHl Hl). reflexivity.
  - discriminate.
  - cbn. destruct (p a); reflexivity.
  - cbn [deriv]. apply andb_true_iff in Hok as [Hle Hc]. destruct (ezero mx) eqn:Ez; [reflexivity|].
    apply occ_ok_mk_seq; [apply IHc; exact Hc|]. cbn [forallb occ_ok]. rewrite Hc, andb_true_r, andb_true_r.
    apply eleb_ele in Hle. apply eleb_ele. destruct mx as [[|k]|]; cbn in *; try discriminate; try exact I. lia.
Qed.

(* words of a repetition that start with a: drop the empty factors in front *)
Lemma occ_split c a w ws :
  Forall (lang c) ws -> concat ws = a :: w ->
  exists es u ws', ws = es ++ (a :: u) :: ws' /\ Forall (fun e => e = []) es /\ w = u ++ concat ws'.
Proof.
  induction ws as [|x ws IH]; cbn [concat]; [discriminate|]. intros HF E. inversion HF; subst.
  destruct x as [|b u].
  - cbn in E. destruct (IH H2 E) as [es [u [ws' [-> [He ->]]]]]. exists ([] :: es), u, ws'. repeat split; auto.
  - cbn in E. inversion E; subst. exists [], u, ws. repeat split; auto.
Qed.

Theorem deriv_spec a : forall c, occ_ok c = true -> forall w, lang (deriv a c) w <-> lang c (a :: w).
Proof.
  induction c as [q|l IHF|l IHF|l IHF|p|mn mx c IHc] using cm_ind'; cbn [occ_ok]; intros Hok w.
  - (* Elem *) cbn [deriv]. rewrite lang_elem_iff. destruct (str_eqb_spec q a) as [->|NE]; unfold name_eqb.
    + rewrite str_eqb_refl, lang_eps_iff. split; [intros ->; reflexivity|intros E; inversion E; reflexivity].
    + destruct (str_eqb_spec q a); [congruence|]. split; [intros H; exfalso; exact (lang_empty _ H)|intros E; inversion E; congruence].
  - (* Seq *) cbn [deriv]. revert w. induction IHF as [|c l IHc _ IHl]; intros w.
    + rewrite lang_seq_nil_iff. split; [intros H; exfalso; exact (lang_empty _ H)|discriminate].
    + cbn [forallb] in Hok. apply andb_true_iff in Hok as [Hc Hl]. specialize (IHl Hl).
      rewrite lang_seq_cons_iff.
      assert (Hfirst : lang (mk_seq (deriv a c) l) w <->
                       exists u w2, w = u ++ w2 /\ lang c (a :: u) /\ lang (Seq l) w2).
      { rewrite lang_mk_seq, lang_seq_cons_iff. split; intros [u [w2 [E [H1 H2]]]]; exists u, w2; repeat split; auto;
          apply (IHc Hc); exact H1. }
      destruct (nullable c) eqn:En.
      * rewrite lang_mk_choice, lang_choice_iff. split.
        -- intros [c' [[E|[E|[]]] H]]; subst c'.
           ++ apply Hfirst in H as [u [w2 [-> [H1 H2]]]]. exists (a :: u), w2. auto.
           ++ apply IHl in H. exists [], (a :: w). repeat split; auto. apply (nullable_spec c Hc). exact En.
        -- intros [w1 [w2 [E [H1 H2]]]]. destruct w1 as [|b u].
           ++ cbn in E. subst w2. eexists. split; [right; left; reflexivity|]. apply IHl. exact H2.
           ++ cbn in E. inversion E; subst. eexists. split; [left; reflexivity|]. apply Hfirst. eauto.
      * rewrite Hfirst. split.
        -- intros [u [w2 [-> [H1 H2]]]]. exists (a :: u), w2. auto.
        -- intros [w1 [w2 [E [H1 H2]]]]. destruct w1 as [|b u].
           ++ apply (nullable_spec c Hc) in H1. congruence.
           ++ cbn in E. inversion E; subst. eauto.
  - (* Choice *) cbn [deriv]. rewrite lang_mk_choice, !lang_choice_iff. split.
    + intros [c' [Hin H]]. apply in_map_iff in Hin as [c [<- Hc]]. exists c. split; [exact Hc|].
      rewrite forallb_forall in Hok. rewrite Forall_forall in IHF. apply (IHF c Hc (Hok c Hc)). exact H.
    + intros [c [Hc H]]. exists (deriv a c). split; [apply in_map; exact Hc|].
      rewrite forallb_forall in Hok. rewrite Forall_forall in IHF. apply (IHF c Hc (Hok c Hc)). exact H.
  - discriminate.
  - (* AnyElem *) cbn [deriv]. rewrite lang_any_iff. destruct (p a) eqn:Ep.
    + rewrite lang_eps_iff. split; [intros ->; eauto|intros [q [E _]]; inversion E; reflexivity].
    + split; [intros H; exfalso; exact (lang_empty _ H)|intros [q [E Hq]]; inversion E; subst; congruence].
  - (* Occ *) cbn [deriv]. apply andb_true_iff in Hok as [Hle Hc]. rewrite lang_occ_iff.
    destruct (ezero mx) eqn:Ez.
    + destruct mx as [[|k]|]; try discriminate. split; [intros H; exfalso; exact (lang_empty _ H)|].
      intros [ws [_ [H2 [_ E]]]]. cbn in H2. destruct ws; [discriminate|cbn in H2; lia].
    + rewrite lang_mk_seq, lang_seq_cons_iff. split.
      * intros [u [v [-> [H1 H2]]]]. apply (IHc Hc) in H1.
        apply lang_seq_cons_iff in H2 as [v1 [v2 [-> [H2 H3]]]]. apply lang_seq_nil_iff in H3. subst v2. rewrite app_nil_r.
        apply lang_occ_iff in H2 as [ws' [L1 [L2 [L3 ->]]]].
        exists ((a :: u) :: ws'). cbn [length concat]. repeat split.
        -- lia.
        -- destruct mx as [[|k]|]; cbn in *; try discriminate; try exact I. lia.
        -- constructor; assumption.
      * intros [ws [L1 [L2 [L3 E]]]]. symmetry in E.
        destruct (occ_split c a w ws L3 E) as [es [u [ws' [-> [He ->]]]]].
        apply Forall_app in L3 as [Les L3]. inversion L3; subst.
        exists u, (concat ws'). repeat split; [apply (IHc Hc); assumption|].
        apply lang_seq_cons_iff. exists (concat ws'), []. rewrite app_nil_r. repeat split; [|constructor].
        apply lang_occ_iff. exists (es ++ ws'). rewrite app_length in *. cbn [length] in *. repeat split.
        -- lia.
        -- destruct mx as [[|k]|]; cbn in *; try discriminate; try exact I. lia.
        -- apply Forall_app. split; assumption.
        -- rewrite concat_app. assert (Ee : concat es = []).
           { clear -He. induction He as [|e es -> _ IHe]; cbn; auto. }
           rewrite Ee. reflexivity.
Qed.

Theorem matches_correct : forall w c, occ_ok c = true -> (matches c w = true <-> lang c w).
Proof.
  induction w as [|a w IH]; intros c Hok; cbn [matches].
  - apply nullable_spec. exact Hok.
  - rewrite (IH (deriv a c) (occ_ok_deriv a c Hok)). apply deriv_spec. exact Hok.
Qed.

(* a witness handed out by the validator is a word of the model that the metadata cannot hold *)
Lemma shortest_in (x : list name) r : In (shortest (x :: r)) (x :: r).
Proof.
  unfold shortest. induction r as [|y r IH]; cbn [fold_right]; [left; reflexivity|].
  destruct (length y <? length (fold_right (fun a b => if length a <? length b then a else b) x r)).
  - right; left; reflexivity.
  - destruct IH as [IH|IH]; [left; exact IH|right; right; exact IH].
Qed.

Theorem rejected_word_sound c m w :
  occ_ok c = true -> rejected_word c m = Some w -> lang c w /\ accepts_word m w = false.
Proof.
  unfold rejected_word. intros Hok.
  match goal with |- context [filter ?f ?l] => set (P := f); set (cands := l) end.
  destruct (filter P cands) as [|x r] eqn:E; [discriminate|]. intros H.
  assert (Hw : w = shortest (x :: r)) by congruence. subst w. clear H.
  assert (Hin : In (shortest (x :: r)) (filter P cands)) by (rewrite E; apply shortest_in).
  apply filter_In in Hin as [_ Hp].
  unfold P in Hp. apply andb_true_iff in Hp as [Hm Ha]. split.
  - apply (matches_correct _ c Hok). exact Hm.
  - apply negb_true_iff in Ha. exact Ha.
Qed.
